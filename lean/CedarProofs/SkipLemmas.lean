/-
  Helper lemmas for C08 (typed layer): the skipping primitives consume exactly what the reading
  primitives consume. `discard n` = `ensureData n` + drop; plaintext skip = plaintext get.
-/
import CedarModel.ClassAdWire
import CedarProofs.CodecStr

namespace Cedar

/-! ### ensureData: monotone in the amount asked for, insensitive to a buffered prefix -/

theorem lenGe_anti {α : Type} (l : List α) (m n : Nat) (hmn : m ≤ n) (h : lenGe l n = true) : lenGe l m = true := by
  rw [lenGe_iff] at *; omega

theorem lenGe_false_mono {α : Type} (l : List α) (m n : Nat) (hmn : m ≤ n) (h : lenGe l m = false) : lenGe l n = false := by
  cases hn : lenGe l n with
  | false => rfl
  | true => rw [lenGe_anti l m n hmn hn] at h; exact absurd h (by simp)

theorem lenGe_append_shift {α : Type} (pre l : List α) (n : Nat) (hn : pre.length ≤ n) :
    lenGe (pre ++ l) n = lenGe l (n - pre.length) := by
  rw [Bool.eq_iff_iff, lenGe_iff, lenGe_iff, List.length_append]; omega

theorem Dec.eta (d : Dec) : (⟨d.buf, d.isEOM, d.src⟩ : Dec) = d := by cases d; rfl

/-- an `ensureAux` that stops has either enough bytes or saw end-of-message -/
theorem ensureAux_stop (m : Nat) : ∀ (src : List OutFrame) (buf : Bytes) (isEOM : Bool) (d1 : Dec),
    ensureAux m buf isEOM src = .ok d1 → lenGe d1.buf m = true ∨ d1.isEOM = true := by
  intro src
  induction src with
  | nil =>
    intro buf isEOM d1 h
    unfold ensureAux at h
    by_cases hc : (lenGe buf m || isEOM) = true
    · rw [if_pos hc] at h
      injection h with h; subst h
      simpa using hc
    · rw [if_neg hc] at h; cases h
  | cons f rest ih =>
    intro buf isEOM d1 h
    obtain ⟨p, e⟩ := f
    unfold ensureAux at h
    by_cases hc : (lenGe buf m || isEOM) = true
    · rw [if_pos hc] at h
      injection h with h; subst h
      simpa using hc
    · rw [if_neg hc] at h
      exact ih _ _ _ h

/-- asking for more after asking for less: the second call continues from where the first stopped -/
theorem ensureAux_mono (m n : Nat) (hmn : m ≤ n) : ∀ (src : List OutFrame) (buf : Bytes) (isEOM : Bool),
    (∀ d1, ensureAux m buf isEOM src = .ok d1 →
        ensureAux n buf isEOM src = ensureAux n d1.buf d1.isEOM d1.src) ∧
    (∀ e, ensureAux m buf isEOM src = .error e → ensureAux n buf isEOM src = .error e) := by
  intro src
  induction src with
  | nil =>
    intro buf isEOM
    constructor
    · intro d1 h
      unfold ensureAux at h
      by_cases hc : (lenGe buf m || isEOM) = true
      · rw [if_pos hc] at h; injection h with h; subst h; rfl
      · rw [if_neg hc] at h; cases h
    · intro e h
      unfold ensureAux at h ⊢
      by_cases hc : (lenGe buf m || isEOM) = true
      · rw [if_pos hc] at h; cases h
      · rw [if_neg hc] at h
        have hb : lenGe buf m = false := by
          cases hl : lenGe buf m <;> simp [hl] at hc ⊢
        have he : isEOM = false := by
          cases isEOM <;> simp at hc ⊢
        have := lenGe_false_mono buf m n hmn hb
        simp [this, he]; injection h
  | cons f rest ih =>
    intro buf isEOM
    obtain ⟨p, e'⟩ := f
    constructor
    · intro d1 h
      unfold ensureAux at h
      by_cases hc : (lenGe buf m || isEOM) = true
      · rw [if_pos hc] at h; injection h with h; subst h; rfl
      · rw [if_neg hc] at h
        have hb : lenGe buf m = false := by
          cases hl : lenGe buf m <;> simp [hl] at hc ⊢
        have he : isEOM = false := by
          cases isEOM <;> simp at hc ⊢
        have hn := lenGe_false_mono buf m n hmn hb
        conv => lhs; unfold ensureAux
        simp only [hn, he, Bool.or_false, Bool.false_eq_true, if_false]
        exact (ih _ _).1 d1 h
    · intro e h
      unfold ensureAux at h
      by_cases hc : (lenGe buf m || isEOM) = true
      · rw [if_pos hc] at h; cases h
      · rw [if_neg hc] at h
        have hb : lenGe buf m = false := by
          cases hl : lenGe buf m <;> simp [hl] at hc ⊢
        have he : isEOM = false := by
          cases isEOM <;> simp at hc ⊢
        have hn := lenGe_false_mono buf m n hmn hb
        conv => lhs; unfold ensureAux
        simp only [hn, he, Bool.or_false, Bool.false_eq_true, if_false]
        exact (ih _ _).2 e h

/-- once stopped with enough bytes or at end-of-message, `ensureAux` for the same amount is the identity -/
theorem ensureAux_done (n : Nat) (buf : Bytes) (isEOM : Bool) (src : List OutFrame)
    (h : (lenGe buf n || isEOM) = true) : ensureAux n buf isEOM src = .ok ⟨buf, isEOM, src⟩ := by
  cases src with
  | nil => unfold ensureAux; rw [if_pos h]
  | cons f rest => obtain ⟨p, e⟩ := f; unfold ensureAux; rw [if_pos h]

theorem ensure_zero (d : Dec) : d.ensure 0 = .ok d := by
  unfold Dec.ensure
  rw [ensureAux_done 0 d.buf d.isEOM d.src (by simp [lenGe])]
  simp [lenGe, Dec.eta]

theorem ensure_ok_len (d d1 : Dec) (n : Nat) (h : d.ensure n = .ok d1) : d1.buf.length ≥ n := by
  unfold Dec.ensure at h
  cases h1 : ensureAux n d.buf d.isEOM d.src with
  | error e => rw [h1] at h; cases h
  | ok d2 =>
    rw [h1] at h
    by_cases hl : lenGe d2.buf n = true
    · simp only [hl, Bool.not_true, Bool.false_eq_true, if_false] at h
      injection h with h; subst h
      exact (lenGe_iff _ _).mp hl
    · simp only [hl, Bool.not_false, if_true] at h; cases h

theorem ensure_after (d d1 : Dec) (n : Nat) (hn : 1 ≤ n) (h : d.ensure 1 = .ok d1) : d.ensure n = d1.ensure n := by
  unfold Dec.ensure at h
  cases h1 : ensureAux 1 d.buf d.isEOM d.src with
  | error e => rw [h1] at h; cases h
  | ok d2 =>
    rw [h1] at h
    by_cases hl : lenGe d2.buf 1 = true
    · simp only [hl, Bool.not_true, Bool.false_eq_true, if_false] at h
      injection h with h; subst h
      unfold Dec.ensure
      rw [(ensureAux_mono 1 n hn d.src d.buf d.isEOM).1 d2 h1]
    · simp only [hl, Bool.not_false, if_true] at h; cases h

theorem ensure_err (d : Dec) (e : Err) (n : Nat) (hn : 1 ≤ n) (h : d.ensure 1 = .error e) : d.ensure n = .error e := by
  unfold Dec.ensure at h
  cases h1 : ensureAux 1 d.buf d.isEOM d.src with
  | error e1 =>
    rw [h1] at h
    injection h with h; subst h
    unfold Dec.ensure
    rw [(ensureAux_mono 1 n hn d.src d.buf d.isEOM).2 e1 h1]
  | ok d2 =>
    rw [h1] at h
    by_cases hl : lenGe d2.buf 1 = true
    · simp only [hl, Bool.not_true, Bool.false_eq_true, if_false] at h; cases h
    · simp only [hl, Bool.not_false, if_true] at h
      injection h with h; subst h
      have hE : d2.isEOM = true := by
        rcases ensureAux_stop 1 d.src d.buf d.isEOM d2 h1 with h' | h'
        · exact absurd h' hl
        · exact h'
      have hb : lenGe d2.buf 1 = false := by
        cases hx : lenGe d2.buf 1 <;> simp [hx] at hl ⊢
      unfold Dec.ensure
      rw [(ensureAux_mono 1 n hn d.src d.buf d.isEOM).1 d2 h1,
          ensureAux_done n d2.buf d2.isEOM d2.src (by simp [hE])]
      simp [lenGe_false_mono d2.buf 1 n hn hb]

/-- a buffered prefix of `k ≤ n` bytes only shifts the amount still to be pulled -/
theorem ensureAux_shift (pre : Bytes) (n : Nat) (hn : pre.length ≤ n) : ∀ (src : List OutFrame) (buf : Bytes) (isEOM : Bool),
    ensureAux n (pre ++ buf) isEOM src =
      match ensureAux (n - pre.length) buf isEOM src with
      | .ok d => .ok ⟨pre ++ d.buf, d.isEOM, d.src⟩
      | .error e => .error e := by
  intro src
  induction src with
  | nil =>
    intro buf isEOM
    unfold ensureAux
    rw [lenGe_append_shift pre buf n hn]
    by_cases hc : (lenGe buf (n - pre.length) || isEOM) = true
    · rw [if_pos hc, if_pos hc]
    · rw [if_neg hc, if_neg hc]
  | cons f rest ih =>
    intro buf isEOM
    obtain ⟨p, e⟩ := f
    unfold ensureAux
    rw [lenGe_append_shift pre buf n hn]
    by_cases hc : (lenGe buf (n - pre.length) || isEOM) = true
    · rw [if_pos hc, if_pos hc]
    · rw [if_neg hc, if_neg hc, List.append_assoc]
      exact ih _ _

/-! ### discard -/

theorem discardAux_zero (fuel : Nat) (d : Dec) : discardAux fuel d 0 = .ok d := by
  cases fuel <;> simp [discardAux]

/-- **discard n = ensureData n, then drop n**: the allocation-free skip of `n` bytes pulls exactly the
    frames, and leaves exactly the buffer, that reading `n` bytes does. -/
theorem discardAux_spec : ∀ (fuel n : Nat) (d : Dec), n ≤ fuel →
    discardAux fuel d n =
      match d.ensure n with
      | .ok d1 => .ok { d1 with buf := d1.buf.drop n }
      | .error e => .error e := by
  intro fuel
  induction fuel with
  | zero =>
    intro n d hn
    have : n = 0 := by omega
    subst this
    rw [discardAux_zero, ensure_zero]; simp [Dec.eta]
  | succ fuel ih =>
    intro n d hn
    by_cases h0 : n = 0
    · subst h0; rw [discardAux_zero, ensure_zero]; simp [Dec.eta]
    · have hn1 : 1 ≤ n := by omega
      unfold discardAux
      rw [if_neg h0]
      cases h1 : d.ensure 1 with
      | error e => rw [ensure_err d e n hn1 h1]
      | ok d1 =>
        simp only
        rw [ensure_after d d1 n hn1 h1]
        have hk := ensure_ok_len d d1 1 h1
        by_cases hkn : n ≤ d1.buf.length
        · -- everything needed is buffered
          rw [Nat.min_eq_right hkn, Nat.sub_self, discardAux_zero]
          unfold Dec.ensure
          have hl : lenGe d1.buf n = true := (lenGe_iff _ _).mpr hkn
          rw [ensureAux_done n d1.buf d1.isEOM d1.src (by simp [hl])]
          simp [hl]
        · -- the buffer is used up, the rest comes from later frames
          have hlt : d1.buf.length < n := by omega
          rw [Nat.min_eq_left (by omega), List.drop_of_length_le (by omega)]
          rw [ih (n - d1.buf.length) _ (by omega)]
          unfold Dec.ensure
          have hs := ensureAux_shift d1.buf n (by omega) d1.src [] d1.isEOM
          rw [List.append_nil] at hs
          simp only
          rw [hs]
          cases h2 : ensureAux (n - d1.buf.length) [] d1.isEOM d1.src with
          | error e => simp
          | ok d3 =>
            simp only
            rw [lenGe_append_shift d1.buf d3.buf n (by omega)]
            by_cases hl : lenGe d3.buf (n - d1.buf.length) = true
            · simp only [hl, Bool.not_true, Bool.false_eq_true, if_false]
              congr 1
              rw [List.drop_append, List.drop_of_length_le (Nat.le_of_lt hlt)]
              simp
            · simp [hl]

theorem discard_spec (d : Dec) (n : Nat) :
    d.discard (n : Int) =
      match d.ensure n with
      | .ok d1 => .ok { d1 with buf := d1.buf.drop n }
      | .error e => .error e := by
  unfold Dec.discard
  by_cases h0 : n = 0
  · subst h0; simp [ensure_zero, Dec.eta]
  · have : ¬ ((n : Int) ≤ 0) := by omega
    rw [if_neg this, Int.toNat_natCast]
    exact discardAux_spec n n d (Nat.le_refl _)

/-! ### plaintext strings: skipping = reading without keeping -/

theorem skipCStr_eq : ∀ (fuel : Nat) (d : Dec) (acc : Bytes),
    skipCStr fuel d = (match getCStr fuel d acc with
      | .ok (_, d') => .ok d'
      | .error e => .error e) := by
  intro fuel
  induction fuel with
  | zero => intro d acc; simp [skipCStr, getCStr]
  | succ fuel ih =>
    intro d acc
    unfold skipCStr getCStr
    cases h1 : d.ensure 1 with
    | error e => cases e <;> simp
    | ok d1 =>
      simp only
      cases hb : d1.buf with
      | nil => simp
      | cons c rest =>
        simp only
        by_cases hc : c = 0
        · simp [hc]
        · simp only [hc, if_false]
          exact ih _ _

theorem isPrefixOf_snoc (c : UInt8) : ∀ (l w : Bytes),
    (l ++ [c]).isPrefixOf w = (l.isPrefixOf w && (w[l.length]? == some c)) := by
  intro l
  induction l with
  | nil =>
    intro w
    cases w with
    | nil => simp [List.isPrefixOf]
    | cons x w' =>
      simp only [List.nil_append, List.isPrefixOf, List.length_nil, List.getElem?_cons_zero, Bool.and_true, Bool.true_and]
      by_cases hx : c = x
      · subst hx; simp
      · have h1 : (c == x) = false := by simp [hx]
        have h2 : (some x == some c) = false := by
          have : ¬ x = c := fun h => hx h.symm
          simp [this]
        rw [h1, h2]
  | cons a t ih =>
    intro w
    cases w with
    | nil => simp [List.isPrefixOf]
    | cons x w' =>
      simp only [List.cons_append, List.isPrefixOf, List.length_cons, List.getElem?_cons_succ]
      rw [ih w', Bool.and_assoc]

theorem isPrefixOf_full : ∀ (l w : Bytes), (l.isPrefixOf w && l.length == w.length) = (l == w) := by
  intro l
  induction l with
  | nil => intro w; cases w <;> simp [List.isPrefixOf]
  | cons a t ih =>
    intro w
    cases w with
    | nil => simp [List.isPrefixOf]
    | cons x w' =>
      have := ih w'
      simp only [List.isPrefixOf, List.length_cons]
      by_cases hx : a = x
      · subst hx
        simp only [beq_self_eq_true, Bool.true_and]
        rw [show (t.length + 1 == w'.length + 1) = (t.length == w'.length) by simp, this]
        simp
      · have h1 : (a == x) = false := by simp [hx]
        have h2 : (a :: t == x :: w') = false := by simp [hx]
        rw [h1, h2]; simp

/-- the Go loop variables `matched`, `idx` of `skipStringIs` track "what was read so far is a prefix of `want`" -/
theorem skipCStrIs_eq (want : Bytes) : ∀ (fuel : Nat) (d : Dec) (acc : Bytes) (matched : Bool) (idx : Nat),
    matched = acc.reverse.isPrefixOf want → (matched = true → idx = acc.length) →
    skipCStrIs want fuel d matched idx = (match getCStr fuel d acc with
      | .ok (s, d') => .ok (s == want, d')
      | .error e => .error e) := by
  have fin : ∀ (acc : Bytes) (matched : Bool) (idx : Nat), matched = acc.reverse.isPrefixOf want →
      (matched = true → idx = acc.length) → (matched && idx == want.length) = (acc.reverse == want) := by
    intro acc matched idx hm hi
    rw [← isPrefixOf_full acc.reverse want, ← hm]
    cases matched with
    | false => simp
    | true => simp [hi rfl]
  intro fuel
  induction fuel with
  | zero => intro d acc matched idx hm hi; simp [skipCStrIs, getCStr, fin acc matched idx hm hi]
  | succ fuel ih =>
    intro d acc matched idx hm hi
    unfold skipCStrIs getCStr
    cases h1 : d.ensure 1 with
    | error e => cases e <;> simp [fin acc matched idx hm hi]
    | ok d1 =>
      simp only
      cases hb : d1.buf with
      | nil => simp [fin acc matched idx hm hi]
      | cons c rest =>
        simp only
        by_cases hc : c = 0
        · simp [hc, fin acc matched idx hm hi]
        · simp only [hc, if_false]
          have hsn : (c :: acc).reverse.isPrefixOf want = (matched && (want[acc.length]? == some c)) := by
            rw [List.reverse_cons, isPrefixOf_snoc, ← hm, List.length_reverse]
          by_cases hcond : (matched && decide (idx < want.length) && (want[idx]? == some c)) = true
          · rw [if_pos hcond]
            simp only [Bool.and_eq_true, decide_eq_true_eq] at hcond
            obtain ⟨⟨hmt, _⟩, hget⟩ := hcond
            have hidx := hi hmt
            apply ih
            · rw [hsn, hmt, ← hidx, hget]; rfl
            · intro _; simp [hidx]
          · rw [if_neg hcond]
            apply ih
            · rw [hsn]
              cases matched with
              | false => rfl
              | true =>
                have hidx := hi rfl
                subst hidx
                simp only [Bool.true_and] at hcond ⊢
                cases hg : (want[acc.length]? == some c) with
                | false => rfl
                | true =>
                  exfalso; apply hcond
                  have hlt : acc.length < want.length := by
                    by_cases hlt : acc.length < want.length
                    · exact hlt
                    · rw [List.getElem?_eq_none (by omega)] at hg; simp at hg
                  rw [hg, Bool.and_true]; exact decide_eq_true hlt
            · intro h; cases h

/-! ### both string modes: the skipping primitives against GetString -/

theorem skipString_of_getString (enc : Bool) (d : Dec) (s : Bytes) (d' : Dec)
    (h : d.getString enc = .ok (s, d')) : d.skipString enc = .ok d' := by
  unfold Dec.getString at h
  unfold Dec.skipString
  cases enc with
  | false =>
    simp only [Bool.false_eq_true, if_false] at h ⊢
    rw [skipCStr_eq _ d []]
    cases hg : getCStr (d.total + 1) d [] with
    | error e => rw [hg] at h; cases h
    | ok p => obtain ⟨s1, d1⟩ := p; rw [hg] at h; simp only at h ⊢; injection h with h; injection h with _ h2; rw [h2]
  | true =>
    simp only [if_true] at h ⊢
    cases hg : d.getInt32 with
    | error e => rw [hg] at h; cases h
    | ok p =>
      obtain ⟨len, d1⟩ := p
      rw [hg] at h
      simp only at h ⊢
      by_cases hneg : len < 0
      · rw [if_pos hneg] at h; cases h
      · rw [if_neg hneg] at h
        have hlen : len = ((len.toNat : Nat) : Int) := by omega
        rw [show d1.discard len = d1.discard ((len.toNat : Nat) : Int) from by rw [← hlen], discard_spec]
        cases he : d1.ensure len.toNat with
        | error e => rw [he] at h; cases h
        | ok d2 =>
          rw [he] at h
          simp only at h ⊢
          cases hd : d2.buf.take len.toNat with
          | nil => rw [hd] at h; simp only at h; injection h with h; injection h with _ h2; rw [← h2]
          | cons c t =>
            rw [hd] at h; simp only at h
            by_cases hc : c = binNullChar
            · rw [if_pos hc] at h; injection h with h; injection h with _ h2; rw [← h2]
            · rw [if_neg hc] at h; injection h with h; injection h with _ h2; rw [← h2]

theorem getString_of_skipString_err (enc : Bool) (d : Dec) (e : Err)
    (h : d.skipString enc = .error e) : d.getString enc = .error e := by
  unfold Dec.skipString at h
  unfold Dec.getString
  cases enc with
  | false =>
    simp only [Bool.false_eq_true, if_false] at h ⊢
    rw [skipCStr_eq _ d []] at h
    cases hg : getCStr (d.total + 1) d [] with
    | error e1 => rw [hg] at h; simp only at h ⊢; injection h with h; rw [h]
    | ok p => obtain ⟨s1, d1⟩ := p; rw [hg] at h; cases h
  | true =>
    simp only [if_true] at h ⊢
    cases hg : d.getInt32 with
    | error e1 => rw [hg] at h; simp only at h ⊢; injection h with h; rw [h]
    | ok p =>
      obtain ⟨len, d1⟩ := p
      rw [hg] at h
      simp only at h ⊢
      by_cases hneg : len < 0
      · unfold Dec.discard at h
        rw [if_pos (by omega)] at h; cases h
      · rw [if_neg hneg]
        have hlen : len = ((len.toNat : Nat) : Int) := by omega
        rw [show d1.discard len = d1.discard ((len.toNat : Nat) : Int) from by rw [← hlen], discard_spec] at h
        cases he : d1.ensure len.toNat with
        | error e1 => rw [he] at h; simp only at h ⊢; injection h with h; rw [h]
        | ok d2 => rw [he] at h; cases h

theorem length_stripTrailingNul (d : Bytes) :
    (stripTrailingNul d).length = d.length ∨ (stripTrailingNul d).length + 1 = d.length := by
  unfold stripTrailingNul
  cases hl : d.getLast? with
  | none => left; rfl
  | some z =>
    by_cases hz : z = 0
    · subst hz
      right
      have : d ≠ [] := by intro h; subst h; simp at hl
      simp only [List.length_dropLast]
      have := List.length_pos_iff.mpr this
      omega
    · left
      split
      · rename_i h; injection h with h; exact absurd h hz
      · rfl

/-- the value GetString derives from `data` can equal a non-empty `want` only if `data` is `want` or `want ++ [0]` long -/
theorem valueOfData_ne (data want : Bytes) (hw : want ≠ [])
    (hl : ¬ (data.length = want.length ∨ data.length = want.length + 1)) : (valueOfData data == want) = false := by
  have hne : valueOfData data ≠ want := by
    intro heq
    unfold valueOfData at heq
    cases data with
    | nil => exact hw heq.symm
    | cons c t =>
      simp only at heq
      by_cases hc : c = binNullChar
      · rw [if_pos hc] at heq; exact hw heq.symm
      · rw [if_neg hc] at heq
        have := length_stripTrailingNul (c :: t)
        rw [heq] at this
        apply hl
        rcases this with h | h
        · left; exact h.symm
        · right; exact h.symm
  simp [hne]

theorem skipStringIs_of_getString (enc : Bool) (want : Bytes) (hw : want ≠ []) (d : Dec) (s : Bytes) (d' : Dec)
    (h : d.getString enc = .ok (s, d')) : d.skipStringIs enc want = .ok (s == want, d') := by
  unfold Dec.getString at h
  unfold Dec.skipStringIs
  cases enc with
  | false =>
    simp only [Bool.false_eq_true, if_false] at h ⊢
    rw [skipCStrIs_eq want _ d [] true 0 (by simp [List.isPrefixOf]) (by simp)]
    cases hg : getCStr (d.total + 1) d [] with
    | error e => rw [hg] at h; cases h
    | ok p =>
      obtain ⟨s1, d1⟩ := p; rw [hg] at h; simp only at h ⊢
      injection h with h; injection h with h1 h2; rw [h1, h2]
  | true =>
    simp only [if_true] at h ⊢
    cases hg : d.getInt32 with
    | error e => rw [hg] at h; cases h
    | ok p =>
      obtain ⟨len, d1⟩ := p
      rw [hg] at h
      simp only at h ⊢
      by_cases hneg : len < 0
      · rw [if_pos hneg] at h; cases h
      · rw [if_neg hneg] at h
        have hlen : len = ((len.toNat : Nat) : Int) := by omega
        cases he : d1.ensure len.toNat with
        | error e => rw [he] at h; cases h
        | ok d2 =>
          rw [he] at h
          simp only at h
          have hbl := ensure_ok_len d1 d2 _ he
          have htl : (d2.buf.take len.toNat).length = len.toNat := by
            rw [List.length_take]; omega
          -- what GetString returned is valueOfData of the bytes it took
          have hval : s = valueOfData (d2.buf.take len.toNat) ∧
              d' = { d2 with buf := d2.buf.drop len.toNat } := by
            unfold valueOfData
            cases hd : d2.buf.take len.toNat with
            | nil => rw [hd] at h; simp only at h; injection h with h; injection h with h1 h2; exact ⟨h1.symm, h2.symm⟩
            | cons c t =>
              rw [hd] at h; simp only at h ⊢
              by_cases hc : c = binNullChar
              · rw [if_pos hc] at h; rw [if_pos hc]; injection h with h; injection h with h1 h2; exact ⟨h1.symm, h2.symm⟩
              · rw [if_neg hc] at h; rw [if_neg hc]; injection h with h; injection h with h1 h2; exact ⟨h1.symm, h2.symm⟩
          obtain ⟨hs, hd'⟩ := hval
          by_cases hlw : len = (want.length : Int) ∨ len = (want.length : Int) + 1
          · rw [if_pos hlw]
            unfold Dec.getBytes
            have hpos : ¬ len ≤ 0 := by
              have : want.length > 0 := List.length_pos_iff.mpr hw
              omega
            rw [if_neg hpos, he]
            simp only
            rw [hs, hd']
          · rw [if_neg hlw]
            rw [show d1.discard len = d1.discard ((len.toNat : Nat) : Int) from by rw [← hlen], discard_spec, he]
            simp only
            rw [hs, hd', valueOfData_ne _ want hw (by rw [htl]; omega)]

theorem getString_of_skipStringIs_err (enc : Bool) (want : Bytes) (d : Dec) (e : Err)
    (h : d.skipStringIs enc want = .error e) : d.getString enc = .error e := by
  unfold Dec.skipStringIs at h
  unfold Dec.getString
  cases enc with
  | false =>
    simp only [Bool.false_eq_true, if_false] at h ⊢
    rw [skipCStrIs_eq want _ d [] true 0 (by simp [List.isPrefixOf]) (by simp)] at h
    cases hg : getCStr (d.total + 1) d [] with
    | error e1 => rw [hg] at h; simp only at h ⊢; injection h with h; rw [h]
    | ok p => obtain ⟨s1, d1⟩ := p; rw [hg] at h; cases h
  | true =>
    simp only [if_true] at h ⊢
    cases hg : d.getInt32 with
    | error e1 => rw [hg] at h; simp only at h ⊢; injection h with h; rw [h]
    | ok p =>
      obtain ⟨len, d1⟩ := p
      rw [hg] at h
      simp only at h ⊢
      by_cases hneg : len < 0
      · -- a negative length: the skipping side does nothing (and does not fail)
        have hlw : ¬ (len = (want.length : Int) ∨ len = (want.length : Int) + 1) := by omega
        rw [if_neg hlw] at h
        unfold Dec.discard at h
        rw [if_pos (by omega)] at h; cases h
      · rw [if_neg hneg]
        have hlen : len = ((len.toNat : Nat) : Int) := by omega
        by_cases hlw : len = (want.length : Int) ∨ len = (want.length : Int) + 1
        · rw [if_pos hlw] at h
          unfold Dec.getBytes at h
          by_cases hpos : len ≤ 0
          · rw [if_pos hpos] at h; cases h
          · rw [if_neg hpos] at h
            cases he : d1.ensure len.toNat with
            | error e1 => rw [he] at h; simp only at h ⊢; injection h with h; rw [h]
            | ok d2 => rw [he] at h; cases h
        · rw [if_neg hlw] at h
          rw [show d1.discard len = d1.discard ((len.toNat : Nat) : Int) from by rw [← hlen], discard_spec] at h
          cases he : d1.ensure len.toNat with
          | error e1 => rw [he] at h; simp only at h ⊢; injection h with h; rw [h]
          | ok d2 => rw [he] at h; cases h

/-! ### the per-round `ensureData(1)` of the raw and the skipping receiver (fix e91c289) -/

theorem ensureAux_err_class (n : Nat) : ∀ (src : List OutFrame) (buf : Bytes) (isEOM : Bool) (e : Err),
    ensureAux n buf isEOM src = .error e → e = .eof := by
  intro src
  induction src with
  | nil =>
    intro buf isEOM e h
    unfold ensureAux at h
    split at h
    · cases h
    · injection h with h; exact h.symm
  | cons f rest ih =>
    intro buf isEOM e h
    obtain ⟨p, e'⟩ := f
    unfold ensureAux at h
    split at h
    · cases h
    · exact ih _ _ _ h

/-- `ensureData` fails only by running out: of the connection (`eof`) or of the message (`eom`) -/
theorem ensure_err_class (d : Dec) (n : Nat) (e : Err) (h : d.ensure n = .error e) : e = .eof ∨ e = .eom := by
  unfold Dec.ensure at h
  cases h1 : ensureAux n d.buf d.isEOM d.src with
  | error e1 =>
    rw [h1] at h; simp only at h; injection h with h; subst h
    exact .inl (ensureAux_err_class n _ _ _ _ h1)
  | ok d1 =>
    rw [h1] at h; simp only at h
    split at h
    · injection h with h; exact .inr h.symm
    · cases h

theorem ensureAux_total (n : Nat) : ∀ (src : List OutFrame) (buf : Bytes) (isEOM : Bool) (d1 : Dec),
    ensureAux n buf isEOM src = .ok d1 → d1.total = buf.length + (src.map (·.1.length)).sum := by
  intro src
  induction src with
  | nil =>
    intro buf isEOM d1 h
    unfold ensureAux at h
    split at h
    · injection h with h; subst h; simp [Dec.total]
    · cases h
  | cons f rest ih =>
    intro buf isEOM d1 h
    obtain ⟨p, e'⟩ := f
    unfold ensureAux at h
    split at h
    · injection h with h; subst h; simp [Dec.total]
    · rw [ih _ _ _ h]; simp [List.length_append]; omega

theorem ensure_total (d d1 : Dec) (n : Nat) (h : d.ensure n = .ok d1) : d1.total = d.total := by
  unfold Dec.ensure at h
  cases h1 : ensureAux n d.buf d.isEOM d.src with
  | error e1 => rw [h1] at h; cases h
  | ok d2 =>
    rw [h1] at h; simp only at h
    split at h
    · cases h
    · injection h with h; subst h
      rw [ensureAux_total n _ _ _ _ h1]; rfl

theorem ensure_idem (d d1 : Dec) (h : d.ensure 1 = .ok d1) : d1.ensure 1 = .ok d1 := by
  have hl := ensure_ok_len d d1 1 h
  have hg : lenGe d1.buf 1 = true := (lenGe_iff _ _).mpr hl
  unfold Dec.ensure
  rw [ensureAux_done 1 d1.buf d1.isEOM d1.src (by simp [hg])]
  simp [hg, Dec.eta]

/-- after a successful `ensureData(1)`, reading a string proceeds exactly as it would have without it -/
theorem getString_after_ensure (enc : Bool) (d d1 : Dec) (h : d.ensure 1 = .ok d1) :
    d1.getString enc = d.getString enc := by
  unfold Dec.getString
  cases enc with
  | true =>
    simp only [if_true]
    have : d1.getInt32 = d.getInt32 := by
      unfold Dec.getInt32 Dec.getInt
      rw [ensure_after d d1 8 (by omega) h]
    rw [this]
  | false =>
    simp only [Bool.false_eq_true, if_false]
    rw [ensure_total d d1 1 h]
    have : getCStr (d.total + 1) d1 [] = getCStr (d.total + 1) d [] := by
      conv => lhs; unfold getCStr
      conv => rhs; unfold getCStr
      rw [ensure_idem d d1 h, h]
    rw [this]

/-- when `ensureData(1)` fails, reading a string fails the same way — except in plaintext mode at the end
    of the message, where GetString returns the empty string -/
theorem getString_of_ensure_err (enc : Bool) (d : Dec) (e : Err) (h : d.ensure 1 = .error e) :
    d.getString enc = .error e ∨ (e = .eom ∧ ∃ d', d.getString enc = .ok ([], d')) := by
  unfold Dec.getString
  cases enc with
  | true =>
    simp only [if_true]
    left
    unfold Dec.getInt32 Dec.getInt
    rw [ensure_err d e 8 (by omega) h]
  | false =>
    simp only [Bool.false_eq_true, if_false]
    unfold getCStr
    rw [h]
    rcases ensure_err_class d 1 e h with he | he
    · subst he; left; rfl
    · subst he; right; exact ⟨rfl, _, rfl⟩

end Cedar
