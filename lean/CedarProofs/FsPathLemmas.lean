/-
  Helper lemmas and specification predicates for C18 (filesystem authentication path confinement).
  Core Lean only.
-/
import CedarModel.FsPath

namespace Cedar.FsPath

/-- decidable equality of results (for the `decide`d non-vacuity examples) -/
instance instDecEqExcept {ε α : Type} [DecidableEq ε] [DecidableEq α] : DecidableEq (Except ε α) :=
  fun a b => match a, b with
  | .ok x, .ok y => if h : x = y then isTrue (by rw [h]) else isFalse (fun e => h (by injection e))
  | .error x, .error y => if h : x = y then isTrue (by rw [h]) else isFalse (fun e => h (by injection e))
  | .ok _, .error _ => isFalse (fun e => by injection e)
  | .error _, .ok _ => isFalse (fun e => by injection e)

/-! ### Split / Join / CutPrefix -/

theorem splitB_ne_nil (sep : UInt8) (s : Bytes) : splitB sep s ≠ [] := by
  cases s with
  | nil => simp [splitB]
  | cons c cs =>
    simp only [splitB]
    split
    · simp
    · split <;> simp

theorem splitB_append_sep (sep : UInt8) (a b : Bytes) :
    splitB sep (a ++ sep :: b) = splitB sep a ++ splitB sep b := by
  induction a with
  | nil => simp [splitB]
  | cons c a ih =>
    by_cases hc : c = sep
    · simp [splitB, hc, ← ih]
    · simp only [List.cons_append, splitB, if_neg hc, ih]
      cases hs : splitB sep a with
      | nil => exact absurd hs (splitB_ne_nil sep a)
      | cons h t => simp

theorem splitB_nosep (sep : UInt8) (l : Bytes) (h : sep ∉ l) : splitB sep l = [l] := by
  induction l with
  | nil => rfl
  | cons c cs ih =>
    have hc : c ≠ sep := fun e => h (by simp [e])
    have hcs : sep ∉ cs := fun e => h (by simp [e])
    simp [splitB, hc, ih hcs]

theorem joinB_splitB (sep : UInt8) (s : Bytes) : joinB sep (splitB sep s) = s := by
  induction s with
  | nil => rfl
  | cons c cs ih =>
    by_cases hc : c = sep
    · simp only [splitB, if_pos hc]
      cases hs : splitB sep cs with
      | nil => exact absurd hs (splitB_ne_nil sep cs)
      | cons h t => rw [hs] at ih; simp [joinB, ih, hc]
    · simp only [splitB, if_neg hc]
      cases hs : splitB sep cs with
      | nil => exact absurd hs (splitB_ne_nil sep cs)
      | cons h t =>
        rw [hs] at ih
        cases t with
        | nil => simp [joinB] at ih ⊢; exact ih
        | cons b t' => simp [joinB] at ih ⊢; exact ih

theorem joinB_append_singleton (sep : UInt8) (xs : List Bytes) (l : Bytes) (h : xs ≠ []) :
    joinB sep (xs ++ [l]) = joinB sep xs ++ sep :: l := by
  induction xs with
  | nil => exact absurd rfl h
  | cons a t ih =>
    cases t with
    | nil => simp [joinB]
    | cons b t' =>
      have := ih (by simp)
      simp only [List.cons_append] at this ⊢
      simp [joinB, this]

theorem stripPrefix_some {pfx s r : Bytes} (h : stripPrefix pfx s = some r) : s = pfx ++ r := by
  induction pfx generalizing s with
  | nil => simp [stripPrefix] at h; simp [h]
  | cons a as ih =>
    cases s with
    | nil => simp [stripPrefix] at h
    | cons b bs =>
      simp only [stripPrefix] at h
      by_cases hab : a = b
      · rw [if_pos hab] at h; simp [hab, ih h]
      · rw [if_neg hab] at h; exact absurd h (by simp)

/-! ### last component / directory part -/

theorem dropWhile_ne_slash (xs : Bytes) :
    (xs.dropWhile (· ≠ slash) = [] ∧ slash ∉ xs) ∨ ∃ t, xs.dropWhile (· ≠ slash) = slash :: t := by
  induction xs with
  | nil => left; simp
  | cons x xs ih =>
    by_cases hx : x = slash
    · right
      have hd : ¬ (decide (x ≠ slash) = true) := by simp [hx]
      exact ⟨xs, by rw [List.dropWhile_cons_of_neg (p := fun c => decide (c ≠ slash)) hd, hx]⟩
    · have hd : decide (x ≠ slash) = true := by simp [hx]
      rcases ih with ⟨h1, h2⟩ | ⟨t, ht⟩
      · left; refine ⟨by rw [List.dropWhile_cons_of_pos (p := fun c => decide (c ≠ slash)) hd, h1], ?_⟩
        intro hm; rcases List.mem_cons.mp hm with e | e
        · exact hx e.symm
        · exact h2 e
      · right; exact ⟨t, by rw [List.dropWhile_cons_of_pos (p := fun c => decide (c ≠ slash)) hd, ht]⟩

theorem not_mem_takeWhile_ne_slash (xs : Bytes) : slash ∉ xs.takeWhile (· ≠ slash) := by
  induction xs with
  | nil => simp
  | cons x xs ih =>
    by_cases hx : x = slash
    · have hd : ¬ (decide (x ≠ slash) = true) := by simp [hx]
      rw [List.takeWhile_cons_of_neg (p := fun c => decide (c ≠ slash)) hd]; simp
    · have hd : decide (x ≠ slash) = true := by simp [hx]
      rw [List.takeWhile_cons_of_pos (p := fun c => decide (c ≠ slash)) hd]
      intro hm; rcases List.mem_cons.mp hm with e | e
      · exact hx e.symm
      · exact ih e

theorem dirPart_append_lastComp (p : Bytes) : dirPart p ++ lastComp p = p := by
  unfold dirPart lastComp
  rw [← List.reverse_append, List.takeWhile_append_dropWhile, List.reverse_reverse]

theorem slash_not_mem_lastComp (p : Bytes) : slash ∉ lastComp p := by
  unfold lastComp
  intro h
  rw [List.mem_reverse] at h
  exact not_mem_takeWhile_ne_slash _ h

/-- the directory part of an absolute path ends with a slash -/
theorem dirPart_of_abs {p : Bytes} (h : isAbs p = true) : ∃ d, dirPart p = d ++ [slash] := by
  unfold dirPart
  rcases dropWhile_ne_slash p.reverse with ⟨_, h2⟩ | ⟨t, ht⟩
  · exfalso
    apply h2
    cases p with
    | nil => simp [isAbs] at h
    | cons a as => simp [isAbs] at h; simp [h]
  · exact ⟨t.reverse, by rw [ht]; simp⟩

theorem base_of_lastComp_ne_nil {p : Bytes} (h : lastComp p ≠ []) : base p = lastComp p := by
  have hp : p ≠ [] := by intro e; subst e; simp [lastComp] at h
  have hq : (p.reverse.dropWhile (· = slash)).reverse = p := by
    cases hr : p.reverse with
    | nil => simp [lastComp, hr] at h
    | cons x xs =>
      by_cases hx : x = slash
      · simp [lastComp, hr, hx] at h
      · have : p = (x :: xs).reverse := by rw [← hr, List.reverse_reverse]
        simp [hx, this]
  unfold base
  rw [if_neg hp]
  simp only [hq, if_neg h]

/-! ### Clean on absolute paths -/

theorem isAbs_prefix {d l : Bytes} (h : isAbs (d ++ slash :: l) = true) : isAbs (d ++ [slash]) = true := by
  cases d <;> simp_all [isAbs]

theorem clean_abs_snoc {d l : Bytes} (habs : isAbs (d ++ slash :: l) = true) (hl : slash ∉ l) :
    clean (d ++ slash :: l) =
      render true (cleanStep true ((splitB slash d).foldl (cleanStep true) []) l) := by
  unfold clean
  rw [if_neg (by simp), habs, splitB_append_sep, splitB_nosep slash l hl, List.foldl_append]
  rfl

theorem clean_abs_dir {d : Bytes} (habs : isAbs (d ++ [slash]) = true) :
    clean (d ++ [slash]) = render true ((splitB slash d).foldl (cleanStep true) []) := by
  have := clean_abs_snoc (d := d) (l := []) habs (by simp)
  rw [this]
  simp [cleanStep]

theorem cleanStep_normal {S : List Bytes} {l : Bytes} (h0 : l ≠ []) (h1 : l ≠ dot) (h2 : l ≠ dotdot) :
    cleanStep true S l = l :: S := by
  unfold cleanStep
  rw [if_neg (by simp [h0, h1]), if_neg h2]

theorem render_true_cons (S : List Bytes) (l : Bytes) (hS : S ≠ []) :
    render true (l :: S) = render true S ++ slash :: l := by
  unfold render
  simp only [if_true, List.reverse_cons]
  rw [joinB_append_singleton slash S.reverse l (by simpa using hS)]
  simp

theorem baseDir_eq : baseDir = [47, 116, 109, 112] := by decide

/-- The lexical heart of the validator: an absolute path in canonical form whose `Dir` is the base
    directory and whose `Base` is not a dot component IS `base ++ "/" ++ Base`. -/
theorem path_under_base {p : Bytes} (habs : isAbs p = true) (hclean : clean p = p)
    (hdir : dir p = baseDir) (hdot : base p ≠ dot) (hdd : base p ≠ dotdot) :
    p = baseDir ++ slash :: base p ∧ base p = lastComp p ∧ base p ≠ [] := by
  obtain ⟨d, hd⟩ := dirPart_of_abs habs
  have hp : p = d ++ slash :: lastComp p := by
    have := dirPart_append_lastComp p
    rw [hd] at this
    simpa using this.symm
  by_cases hl : lastComp p = []
  · -- p ends with a slash: then p = Dir p = base directory, which does not end with a slash
    exfalso
    have hpd : p = d ++ [slash] := by rw [hl] at hp; exact hp
    have : dir p = p := by unfold dir; rw [hd, ← hpd]; exact hclean
    rw [hdir] at this
    rw [hpd, baseDir_eq] at this
    have h2 := congrArg List.getLast? this
    simp at h2
    exact absurd h2 (by decide)
  · have hb : base p = lastComp p := base_of_lastComp_ne_nil hl
    refine ⟨?_, hb, by rw [hb]; exact hl⟩
    have hns := slash_not_mem_lastComp p
    have habs' : isAbs (d ++ slash :: lastComp p) = true := by rw [← hp]; exact habs
    have h1 : clean p = render true (lastComp p :: (splitB slash d).foldl (cleanStep true) []) := by
      conv => lhs; rw [hp]
      rw [clean_abs_snoc habs' hns, cleanStep_normal hl (by rw [← hb]; exact hdot) (by rw [← hb]; exact hdd)]
    have h2 : dir p = render true ((splitB slash d).foldl (cleanStep true) []) := by
      unfold dir; rw [hd]; exact clean_abs_dir (isAbs_prefix habs')
    have hS : (splitB slash d).foldl (cleanStep true) [] ≠ [] := by
      intro e
      rw [e, hdir, baseDir_eq] at h2
      simp [render, joinB] at h2
    rw [render_true_cons _ _ hS, ← h2, hdir, hclean] at h1
    rw [hb]; exact h1

/-! ### what `validate` checked when it accepts -/

theorem validate_ok {p : Bytes} {remote : Bool} {peer : Peer} {leaf : Bytes}
    (h : validate p remote peer = .ok leaf) :
    p ≠ [] ∧ isAbs p = true ∧ clean p = p ∧ dir p = baseDir ∧ leaf = base p ∧
    leaf.contains slash = false ∧ leaf.contains 0 = false ∧ leaf ≠ dot ∧ leaf ≠ dotdot ∧
    ((∃ ip port, fsAddrLeaf leaf remote = some (ip, port) ∧ verifyEndpoint ip port peer = .ok ()) ∨
     (fsAddrLeaf leaf remote = none ∧ (if remote then matchRemoteRE leaf else matchLocalRE leaf) = true)) := by
  unfold validate at h
  by_cases h1 : p = []
  · rw [if_pos h1] at h; exact absurd h (by simp)
  rw [if_neg h1] at h
  by_cases h2 : isAbs p = false
  · rw [if_pos h2] at h; exact absurd h (by simp)
  rw [if_neg h2] at h
  by_cases h3 : clean p ≠ p
  · rw [if_pos h3] at h; exact absurd h (by simp)
  rw [if_neg h3] at h
  by_cases h4 : dir p ≠ baseDir
  · rw [if_pos h4] at h; exact absurd h (by simp)
  rw [if_neg h4] at h
  by_cases h5 : (base p).contains slash ∨ (base p).contains 0 ∨ base p = dot ∨ base p = dotdot
  · rw [if_pos h5] at h; exact absurd h (by simp)
  rw [if_neg h5] at h
  have h5' : (base p).contains slash = false ∧ (base p).contains 0 = false ∧ base p ≠ dot ∧ base p ≠ dotdot := by
    refine ⟨?_, ?_, ?_, ?_⟩
    · cases hc : (base p).contains slash with
      | false => rfl
      | true => exact absurd (Or.inl hc) h5
    · cases hc : (base p).contains 0 with
      | false => rfl
      | true => exact absurd (Or.inr (Or.inl hc)) h5
    · exact fun e => h5 (Or.inr (Or.inr (Or.inl e)))
    · exact fun e => h5 (Or.inr (Or.inr (Or.inr e)))
  have habs : isAbs p = true := by cases hh : isAbs p with
    | true => rfl
    | false => exact absurd hh h2
  have hcl : clean p = p := Classical.byContradiction fun e => h3 e
  have hdr : dir p = baseDir := Classical.byContradiction fun e => h4 e
  cases ha : fsAddrLeaf (base p) remote with
  | some ipport =>
    obtain ⟨ip, port⟩ := ipport
    rw [ha] at h
    simp only at h
    cases he : verifyEndpoint ip port peer with
    | error e => rw [he] at h; exact absurd h (by simp)
    | ok u =>
      rw [he] at h
      have hl : leaf = base p := by injection h with h; exact h.symm
      subst hl
      exact ⟨h1, habs, hcl, hdr, rfl, h5'.1, h5'.2.1, h5'.2.2.1, h5'.2.2.2, Or.inl ⟨ip, port, ha, by cases u; exact he⟩⟩
  | none =>
    rw [ha] at h
    simp only at h
    by_cases hm : (if remote then matchRemoteRE (base p) else matchLocalRE (base p)) = false
    · rw [if_pos hm] at h; exact absurd h (by simp)
    · rw [if_neg hm] at h
      have hl : leaf = base p := by injection h with h; exact h.symm
      subst hl
      refine ⟨h1, habs, hcl, hdr, rfl, h5'.1, h5'.2.1, h5'.2.2.1, h5'.2.2.2, Or.inr ⟨ha, ?_⟩⟩
      cases hh : (if remote then matchRemoteRE (base p) else matchLocalRE (base p)) with
      | true => rfl
      | false => exact absurd hh hm

/-! ### specification of the recognised leaf shapes (what the statement calls "recognised shapes") -/

/-- a random suffix: 1–16 ASCII letters or digits -/
def Alnum16 (s : Bytes) : Prop := 1 ≤ s.length ∧ s.length ≤ 16 ∧ ∀ c ∈ s, isAlnum c = true

/-- `FS_<rand>` -/
def LocalShape (leaf : Bytes) : Prop := ∃ r, leaf = pfxLocal ++ r ∧ Alnum16 r

/-- `FS_REMOTE_<host>_<pid>_<rand>` -/
def RemoteShape (leaf : Bytes) : Prop :=
  ∃ host pid r, leaf = pfxRemote ++ (host ++ us :: (pid ++ us :: r)) ∧
    host ≠ [] ∧ (∀ c ∈ host, isHostCh c = true) ∧ pid ≠ [] ∧ (∀ c ∈ pid, isDigit c = true) ∧ Alnum16 r

/-- `FS[_REMOTE]_<ip>_<port>_<rand>` whose `<ip>:<port>` IS the connection's peer endpoint:
    same port string, and both address strings parse to the same 16-byte address -/
def AddrShape (remote : Bool) (peer : Peer) (leaf : Bytes) : Prop :=
  ∃ ip port r ph a, leaf = (if remote then pfxRemote else pfxLocal) ++ (ip ++ us :: (port ++ us :: r)) ∧
    peer = .hp ph port ∧ parseIP ip = some a ∧ parseIP ph = some a ∧
    1 ≤ port.length ∧ port.length ≤ 5 ∧ (∀ c ∈ port, isDigit c = true) ∧ Alnum16 r

def Recognised (remote : Bool) (peer : Peer) (leaf : Bytes) : Prop :=
  AddrShape remote peer leaf ∨ (remote = false ∧ LocalShape leaf) ∨ (remote = true ∧ RemoteShape leaf)

theorem suffixOk_spec {s : Bytes} (h : suffixOk s = true) : Alnum16 s := by
  unfold suffixOk at h
  simp only [Bool.and_eq_true, decide_eq_true_eq, List.all_eq_true] at h
  exact ⟨h.1.1, h.1.2, h.2⟩

theorem matchLocalRE_spec {leaf : Bytes} (h : matchLocalRE leaf = true) : LocalShape leaf := by
  unfold matchLocalRE at h
  cases hs : stripPrefix pfxLocal leaf with
  | none => rw [hs] at h; exact absurd h (by simp)
  | some r => rw [hs] at h; exact ⟨r, stripPrefix_some hs, suffixOk_spec h⟩

theorem matchRemoteRE_spec {leaf : Bytes} (h : matchRemoteRE leaf = true) : RemoteShape leaf := by
  unfold matchRemoteRE at h
  cases hs : stripPrefix pfxRemote leaf with
  | none => rw [hs] at h; exact absurd h (by simp)
  | some rest =>
    rw [hs] at h
    simp only at h
    cases hr : (splitB us rest).reverse with
    | nil => rw [hr] at h; exact absurd h (by simp)
    | cons rnd t1 =>
      cases t1 with
      | nil => rw [hr] at h; exact absurd h (by simp)
      | cons pid t2 =>
        cases t2 with
        | nil => rw [hr] at h; exact absurd h (by simp)
        | cons hh hs' =>
          rw [hr] at h
          simp only [Bool.and_eq_true, decide_eq_true_eq, List.all_eq_true] at h
          obtain ⟨⟨⟨⟨hrnd, hpid⟩, hpidd⟩, hhost⟩, hhostc⟩ := h
          have hsplit : splitB us rest = (hh :: hs').reverse ++ [pid] ++ [rnd] := by
            have := congrArg List.reverse hr
            rw [List.reverse_reverse] at this
            rw [this]; simp
          have hrest : rest = joinB us (hh :: hs').reverse ++ us :: (pid ++ us :: rnd) := by
            have hj := joinB_splitB us rest
            rw [hsplit, joinB_append_singleton _ _ _ (by simp), joinB_append_singleton _ _ _ (by simp)] at hj
            rw [← hj]; simp
          refine ⟨joinB us (hh :: hs').reverse, pid, rnd, ?_, hhost, hhostc, hpid, hpidd, suffixOk_spec hrnd⟩
          rw [← hrest]; exact stripPrefix_some hs

theorem verifyEndpoint_ok {ip port : Bytes} {peer : Peer} (h : verifyEndpoint ip port peer = .ok ()) :
    ∃ ph a, peer = .hp ph port ∧ parseIP ip = some a ∧ parseIP ph = some a := by
  cases peer with
  | nil => simp [verifyEndpoint] at h
  | bad => simp [verifyEndpoint] at h
  | hp ph pp =>
    simp only [verifyEndpoint] at h
    by_cases hp : port ≠ pp
    · rw [if_pos hp] at h; exact absurd h (by simp)
    · rw [if_neg hp] at h
      have hpp : port = pp := Classical.byContradiction hp
      cases h1 : parseIP ip with
      | none => rw [h1] at h; simp at h
      | some a =>
        cases h2 : parseIP ph with
        | none => rw [h1, h2] at h; simp at h
        | some b =>
          rw [h1, h2] at h
          simp only at h
          by_cases hab : a = b
          · exact ⟨ph, a, by rw [hpp], rfl, by rw [hab]; exact h2⟩
          · rw [if_neg hab] at h; exact absurd h (by simp)

theorem fsAddrLeaf_spec {leaf ip port : Bytes} {remote : Bool} (h : fsAddrLeaf leaf remote = some (ip, port)) :
    ∃ r, leaf = (if remote then pfxRemote else pfxLocal) ++ (ip ++ us :: (port ++ us :: r)) ∧
      (parseIP ip).isSome ∧ 1 ≤ port.length ∧ port.length ≤ 5 ∧ (∀ c ∈ port, isDigit c = true) ∧ Alnum16 r := by
  unfold fsAddrLeaf at h
  cases hs : stripPrefix (if remote then pfxRemote else pfxLocal) leaf with
  | none => rw [hs] at h; exact absurd h (by simp)
  | some rest =>
    rw [hs] at h
    simp only at h
    by_cases hrt : remote = false ∧ (stripPrefix remoteTag rest).isSome
    · rw [if_pos hrt] at h; exact absurd h (by simp)
    rw [if_neg hrt] at h
    have hj := joinB_splitB us rest
    cases hsp : splitB us rest with
    | nil => rw [hsp] at h; exact absurd h (by simp)
    | cons f0 t0 =>
      cases t0 with
      | nil => rw [hsp] at h; exact absurd h (by simp)
      | cons f1 t1 =>
        cases t1 with
        | nil => rw [hsp] at h; exact absurd h (by simp)
        | cons f2 t2 =>
          cases t2 with
          | cons f3 t3 => rw [hsp] at h; exact absurd h (by simp)
          | nil =>
            rw [hsp] at h hj
            simp only at h
            by_cases c1 : (parseIP f0).isNone ∨ suffixOk f2 = false
            · rw [if_pos c1] at h; exact absurd h (by simp)
            rw [if_neg c1] at h
            by_cases c2 : f1.length < 1 ∨ f1.length > 5
            · rw [if_pos c2] at h; exact absurd h (by simp)
            rw [if_neg c2] at h
            by_cases c3 : f1.all isDigit = false
            · rw [if_pos c3] at h; exact absurd h (by simp)
            rw [if_neg c3] at h
            have hip : f0 = ip ∧ f1 = port := by
              injection h with h; injection h with h1 h2; exact ⟨h1, h2⟩
            obtain ⟨rfl, rfl⟩ := hip
            have hsome : (parseIP f0).isSome := by
              cases hh : parseIP f0 with
              | none => exact absurd (Or.inl (by simp [hh])) c1
              | some a => rfl
            have hsuf : suffixOk f2 = true := by
              cases hh : suffixOk f2 with
              | true => rfl
              | false => exact absurd (Or.inr hh) c1
            have hdig : ∀ c ∈ f1, isDigit c = true := by
              cases hh : f1.all isDigit with
              | false => exact absurd hh c3
              | true => exact List.all_eq_true.mp hh
            refine ⟨f2, ?_, hsome, by omega, by omega, hdig, suffixOk_spec hsuf⟩
            have := stripPrefix_some hs
            rw [this, ← hj]
            simp [joinB]

end Cedar.FsPath
