/-
  C07: the command routes of a client cache lead only to sessions established under the route's own
  (tag, server) and for a command the server declared — as an invariant of every history of client
  operations, in particular of full handshakes in which the SERVER chooses the session identifier
  (and may choose one the cache already knows: fix D20).
  The invariant is stated over MEMBERSHIP in the two association lists, so it is closed under the
  filters all the cache operations are made of.
-/
import CedarProofs.CacheLemmas

namespace Cedar.SC

/-- every entry is filed under its own identifier -/
def WFm (c : Cache) : Prop := ∀ id e, (id, e) ∈ c.sessions → e.id = id

/-- every route leads only to sessions of its own tag and server, for a command the server declared -/
def RouteInv (c : Cache) : Prop :=
  ∀ t a m sid e, (cmdKey t a m, sid) ∈ c.cmdMap → (sid, e) ∈ c.sessions →
    e.tag = t ∧ e.addr = a ∧ m ∈ e.validCommands

def Inv (c : Cache) : Prop := WFm c ∧ RouteInv c

theorem inv_empty : Inv {} := by
  constructor
  · intro id e h; cases h
  · intro t a m sid e h; cases h

/-- shrinking both lists keeps the invariant -/
theorem inv_sub (c c' : Cache) (h : Inv c) (hs : ∀ p, p ∈ c'.sessions → p ∈ c.sessions)
    (hm : ∀ p, p ∈ c'.cmdMap → p ∈ c.cmdMap) : Inv c' :=
  ⟨fun id e he => h.1 id e (hs _ he), fun t a m sid e hr he => h.2 t a m sid e (hm _ hr) (hs _ he)⟩

theorem get_mem (c : Cache) (id : Str) (e : Entry) (h : c.get id = some e) : (id, e) ∈ c.sessions :=
  lookup_mem _ _ _ h

/-! ### the operations that only remove -/

theorem inv_forget (c : Cache) (id : Str) (h : Inv c) : Inv (c.forget id) :=
  inv_sub c _ h (fun _ hp => (List.mem_filter.mp hp).1) (fun _ hp => (List.mem_filter.mp hp).1)

theorem inv_invalidate (c : Cache) (id : Str) (h : Inv c) : Inv (c.invalidate id) := by
  unfold Cache.invalidate
  exact inv_sub c _ h (fun _ hp => (List.mem_filter.mp hp).1) (fun _ hp => (List.mem_filter.mp hp).1)

theorem inv_invalidateExpired (c : Cache) (now : Nat) (h : Inv c) : Inv (c.invalidateExpired now) :=
  inv_sub c _ h (fun _ hp => (List.mem_filter.mp hp).1) (fun _ hp => (List.mem_filter.mp hp).1)

theorem inv_lookupNonExpired (c : Cache) (now : Nat) (id : Str) (h : Inv c) : Inv (c.lookupNonExpired now id).1 := by
  unfold Cache.lookupNonExpired
  cases c.get id with
  | none => exact h
  | some e =>
    simp only
    split
    · exact inv_sub c _ h (fun _ hp => (List.mem_filter.mp hp).1) (fun _ hp => hp)
    · exact h

/-! ### renewing an entry in place -/

theorem renew_fields (e : Entry) (now : Nat) :
    (e.renew now).id = e.id ∧ (e.renew now).tag = e.tag ∧ (e.renew now).addr = e.addr ∧
    (e.renew now).validCommands = e.validCommands := by
  unfold Entry.renew; split <;> simp

theorem mem_store (c : Cache) (e : Entry) (p : Str × Entry) (hp : p ∈ (c.store e).sessions) :
    p = (e.id, e) ∨ (p ∈ c.sessions ∧ p.1 ≠ e.id) := by
  unfold Cache.store at hp
  simp only [List.mem_cons, List.mem_filter, decide_eq_true_eq] at hp
  exact hp

/-- `store (e.renew now)` for an entry `e` that is in the cache under its own id -/
theorem inv_store_renew (c : Cache) (e : Entry) (now : Nat) (h : Inv c) (he : (e.id, e) ∈ c.sessions) :
    Inv (c.store (e.renew now)) := by
  obtain ⟨hid, htag, haddr, hvc⟩ := renew_fields e now
  constructor
  · intro id x hx
    rcases mem_store c _ _ hx with heq | ⟨hold, _⟩
    · simp only [Prod.mk.injEq] at heq; rw [heq.2, heq.1]
    · exact h.1 id x hold
  · intro t a m sid x hr hx
    have hr' : (cmdKey t a m, sid) ∈ c.cmdMap := hr
    rcases mem_store c _ _ hx with heq | ⟨hold, _⟩
    · simp only [Prod.mk.injEq] at heq
      obtain ⟨h1, h2⟩ := heq
      have := h.2 t a m e.id e (by rw [← hid, ← h1]; exact hr') he
      rw [h2, htag, haddr, hvc]; exact this
    · exact h.2 t a m sid x hr' hold

/-! ### a full handshake: `clientStore` -/

/-- the state `clientStore` folds over: the new entry is the only one under its id, every route to
    that id is one of the new entry's own -/
structure Mid (c : Cache) (tag addr : Str) (e' : Entry) : Prop where
  inv : Inv c
  only : ∀ x, (e'.id, x) ∈ c.sessions → x = e'
  own : ∀ t a m, (cmdKey t a m, e'.id) ∈ c.cmdMap → t = tag ∧ a = addr ∧ m ∈ e'.validCommands

theorem mem_mapCommand (c : Cache) (tag addr cmd sid : Str) (p : Str × Str)
    (hp : p ∈ (c.mapCommand tag addr cmd sid).cmdMap) :
    p = (cmdKey tag addr cmd, sid) ∨ p ∈ c.cmdMap := by
  unfold Cache.mapCommand at hp
  simp only [List.mem_cons, List.mem_filter] at hp
  rcases hp with h | h
  · exact Or.inl h
  · exact Or.inr h.1

theorem mid_mapCommand (c : Cache) (tag addr : Str) (e' : Entry) (cmd : Str)
    (htag : e'.tag = tag) (haddr : e'.addr = addr) (hcmd : cmd ∈ e'.validCommands)
    (h : Mid c tag addr e') : Mid (c.mapCommand tag addr cmd e'.id) tag addr e' := by
  have hsess : (c.mapCommand tag addr cmd e'.id).sessions = c.sessions := rfl
  refine ⟨⟨?_, ?_⟩, ?_, ?_⟩
  · intro id x hx; exact h.inv.1 id x (hsess ▸ hx)
  · intro t a m sid x hr hx
    rw [hsess] at hx
    rcases mem_mapCommand c tag addr cmd e'.id _ hr with heq | hold
    · simp only [Prod.mk.injEq] at heq
      obtain ⟨hk, hsid⟩ := heq
      obtain ⟨rfl, rfl, rfl⟩ := cmdKey_injective _ _ _ _ _ _ hk
      have : x = e' := h.only x (hsid ▸ hx)
      subst this
      exact ⟨htag, haddr, hcmd⟩
    · exact h.inv.2 t a m sid x hold hx
  · intro x hx; exact h.only x (hsess ▸ hx)
  · intro t a m hr
    rcases mem_mapCommand c tag addr cmd e'.id _ hr with heq | hold
    · simp only [Prod.mk.injEq] at heq
      obtain ⟨rfl, rfl, rfl⟩ := cmdKey_injective _ _ _ _ _ _ heq.1
      exact ⟨rfl, rfl, hcmd⟩
    · exact h.own t a m hold

theorem mid_fold (tag addr : Str) (e' : Entry) (htag : e'.tag = tag) (haddr : e'.addr = addr) :
    ∀ (cmds : List Str) (c : Cache), (∀ m ∈ cmds, m ∈ e'.validCommands) → Mid c tag addr e' →
      Mid (cmds.foldl (fun acc cmd => if cmd = [] then acc else acc.mapCommand tag addr cmd e'.id) c) tag addr e' := by
  intro cmds
  induction cmds with
  | nil => intro c _ h; exact h
  | cons m rest ih =>
    intro c hsub h
    simp only [List.foldl]
    apply ih
    · intro x hx; exact hsub x (List.mem_cons_of_mem _ hx)
    · by_cases hm : m = []
      · rw [if_pos hm]; exact h
      · rw [if_neg hm]; exact mid_mapCommand c tag addr e' m htag haddr (hsub m (List.mem_cons_self ..)) h

theorem mid_start (c : Cache) (tag addr : Str) (e' : Entry) (h : Inv c) :
    Mid ((c.forget e'.id).store e') tag addr e' := by
  have hf := inv_forget c e'.id h
  refine ⟨⟨?_, ?_⟩, ?_, ?_⟩
  · intro id x hx
    rcases mem_store _ _ _ hx with heq | ⟨hold, _⟩
    · simp only [Prod.mk.injEq] at heq; rw [heq.2, heq.1]
    · exact hf.1 id x hold
  · intro t a m sid x hr hx
    have hr' : (cmdKey t a m, sid) ∈ (c.forget e'.id).cmdMap := hr
    have hne : sid ≠ e'.id := by
      have := (List.mem_filter.mp hr').2
      simpa using this
    rcases mem_store _ _ _ hx with heq | ⟨hold, _⟩
    · simp only [Prod.mk.injEq] at heq; exact absurd heq.1 hne
    · exact hf.2 t a m sid x hr' hold
  · intro x hx
    rcases mem_store _ _ _ hx with heq | ⟨_, hne⟩
    · simp only [Prod.mk.injEq] at heq; exact heq.2
    · exact absurd rfl hne
  · intro t a m hr
    have hr' : (cmdKey t a m, e'.id) ∈ (c.forget e'.id).cmdMap := hr
    have := (List.mem_filter.mp hr').2
    simp at this

theorem inv_clientStore (c : Cache) (tag addr : Str) (e : Entry) (h : Inv c) : Inv (clientStore c tag addr e) := by
  unfold clientStore
  exact (mid_fold tag addr { e with tag := tag, addr := addr } rfl rfl _ _ (fun m hm => hm)
    (mid_start c tag addr { e with tag := tag, addr := addr } h)).inv

/-! ### the resuming halves of `ClientHandshake` -/

theorem inv_clientTry (c : Cache) (now : Nat) (tag addr cmd : Str) (ans : ServerAnswer) (ra : Bool) (h : Inv c) :
    Inv (clientTry c now tag addr cmd ans ra).1 := by
  unfold clientTry
  by_cases ha : addr = []
  · rw [if_pos ha]; exact h
  · rw [if_neg ha]
    cases hl : c.lookupByCommand now tag addr cmd with
    | none => exact h
    | some e =>
      simp only
      obtain ⟨sid, _, hg, _⟩ := lookupByCommand_id c now tag addr cmd e hl
      have hmem := get_mem c sid e hg
      have hid : e.id = sid := h.1 sid e hmem
      split
      · exact h
      · cases ans with
        | authorized => exact inv_store_renew c e now h (hid ▸ hmem)
        | sidNotFound => exact inv_invalidate c e.id h
        | broken => exact inv_invalidate c e.id h
        | other rc => exact h

theorem inv_clientById (c : Cache) (now : Nat) (sid : Str) (ans : ServerAnswer) (ra : Bool) (h : Inv c) :
    Inv (clientById c now sid ans ra).1 := by
  unfold clientById
  have h1 := inv_lookupNonExpired c now sid h
  cases hl : c.lookupNonExpired now sid with
  | mk c1 found =>
    rw [hl] at h1
    simp only at h1
    cases found with
    | none => exact h1
    | some e =>
      simp only
      -- the entry found is in c1 under `sid`
      have hmem : (sid, e) ∈ c1.sessions := by
        unfold Cache.lookupNonExpired at hl
        cases hg : c.get sid with
        | none => rw [hg] at hl; simp at hl
        | some e0 =>
          rw [hg] at hl
          simp only at hl
          split at hl
          · simp at hl
          · simp only [Prod.mk.injEq, Option.some.injEq] at hl
            obtain ⟨rfl, rfl⟩ := hl
            exact get_mem c sid e0 hg
      have hid : e.id = sid := h1.1 sid e hmem
      split
      · exact h1
      · cases ans with
        | authorized => exact inv_store_renew c1 e now h1 (hid ▸ hmem)
        | sidNotFound => exact inv_invalidate c1 e.id h1
        | broken => exact inv_invalidate c1 e.id h1
        | other rc => exact h1

/-! ### histories -/

/-- what a client does to its cache -/
inductive ClientOp
  | full (tag addr : Str) (e : Entry)       -- a full handshake; `e` is the session as the SERVER declared it (its id included)
  | tryResume (now : Nat) (tag addr cmd : Str) (ans : ServerAnswer) (ra : Bool)
  | byId (now : Nat) (sid : Str) (ans : ServerAnswer) (ra : Bool)
  | invalidate (sid : Str)
  | expire (now : Nat)
  | lookup (now : Nat) (sid : Str)

def ClientOp.apply (c : Cache) : ClientOp → Cache
  | .full t a e => clientStore c t a e
  | .tryResume now t a m ans ra => (clientTry c now t a m ans ra).1
  | .byId now sid ans ra => (clientById c now sid ans ra).1
  | .invalidate sid => c.invalidate sid
  | .expire now => c.invalidateExpired now
  | .lookup now sid => (c.lookupNonExpired now sid).1

def runOps (c : Cache) (ops : List ClientOp) : Cache := ops.foldl ClientOp.apply c

theorem inv_apply (c : Cache) (op : ClientOp) (h : Inv c) : Inv (op.apply c) := by
  cases op with
  | full t a e => exact inv_clientStore c t a e h
  | tryResume now t a m ans ra => exact inv_clientTry c now t a m ans ra h
  | byId now sid ans ra => exact inv_clientById c now sid ans ra h
  | invalidate sid => exact inv_invalidate c sid h
  | expire now => exact inv_invalidateExpired c now h
  | lookup now sid => exact inv_lookupNonExpired c now sid h

theorem inv_runOps (ops : List ClientOp) : ∀ c, Inv c → Inv (runOps c ops) := by
  induction ops with
  | nil => intro c h; exact h
  | cons op rest ih => intro c h; exact ih _ (inv_apply c op h)

end Cedar.SC
