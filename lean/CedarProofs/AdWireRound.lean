/-
  Helper lemmas for C08 (ClassAd wire): decoding what a sender laid out, from the pending bytes of the
  message, wherever the frames are cut (refinement over `Dec.pending`, as for C14).
-/
import CedarProofs.AdWireLemmas
import CedarProofs.LiteralLemmas

namespace Cedar

/-- the pending bytes of a receiver, and the two stream facts that a read does not change -/
def Rd.Same (r r' : Rd) : Prop := r'.mode = r.mode ∧ r'.keyed = r.keyed

theorem getStringIn_spec (enc : Bool) (r : Rd) (s rest : Bytes) (hw : (Val.str s).wf)
    (hp : r.d.pending = some (Spec.enc enc (.str s) ++ rest)) :
    ∃ r', r.getStringIn enc = .ok (s, r') ∧ r'.d.pending = some rest ∧ r.Same r' := by
  obtain ⟨d', hok, hp'⟩ := getString_spec enc r.d s rest hw.1 hw.2.1 hw.2.2 hp
  refine ⟨{ r with d := d' }, ?_, hp', rfl, rfl⟩
  unfold Rd.getStringIn
  rw [hok]

theorem getInt_spec' (r : Rd) (n : Int) (rest : Bytes) (hn : (Val.int n).wf) (enc : Bool)
    (hp : r.d.pending = some (Spec.enc enc (.int n) ++ rest)) :
    ∃ r', r.getInt = .ok (n, r') ∧ r'.d.pending = some rest ∧ r.Same r' := by
  obtain ⟨d', hok, hp'⟩ := getVal_spec enc r.d (.int n) rest hn hp
  unfold Dec.getVal at hok
  cases hg : r.d.getInt with
  | error e => rw [hg] at hok; cases hok
  | ok p =>
    obtain ⟨v, d1⟩ := p
    rw [hg] at hok; simp only at hok
    injection hok with hok; injection hok with h1 h2
    injection h1 with h1
    refine ⟨{ r with d := d1 }, ?_, by rw [h2]; exact hp', rfl, rfl⟩
    unfold Rd.getInt
    rw [hg, h1]

/-- an expression string as the senders emit it: a well-formed string that is not the marker -/
def ExprWF (e : Bytes) : Prop := (Val.str e).wf ∧ e ≠ marker

theorem readExpr_spec (r : Rd) (e rest : Bytes) (hw : ExprWF e)
    (hp : r.d.pending = some (Spec.enc r.mode (.str e) ++ rest)) :
    ∃ r', r.readExpr = .ok (e, r') ∧ r'.d.pending = some rest ∧ r.Same r' := by
  obtain ⟨r', hok, hp', hs⟩ := getStringIn_spec r.mode r e rest hw.1 hp
  refine ⟨r', ?_, hp', hs⟩
  unfold Rd.readExpr Rd.getString
  rw [hok]; simp only
  rw [if_neg hw.2]

/-- the per-round `ensureData(1)` passes, and changes nothing, while bytes of the message are pending -/
theorem guard_spec (r : Rd) (B : Bytes) (hB : 1 ≤ B.length) (hp : r.d.pending = some B) :
    ∃ rg, r.guard = .ok rg ∧ rg.d.pending = some B ∧ r.Same rg := by
  rcases ensure_spec r.d 1 B hp with ⟨_, d', hok, hp', _, _⟩ | ⟨hl, _⟩
  · refine ⟨{ r with d := d' }, ?_, hp', rfl, rfl⟩
    unfold Rd.guard; rw [hok]
  · omega

theorem enc_str_length (enc : Bool) (s rest : Bytes) : 1 ≤ (Spec.enc enc (.str s) ++ rest).length := by
  simp [Spec.enc]; omega

theorem encAll_cons (enc : Bool) (v : Val) (vs : List Val) :
    Spec.encAll enc (v :: vs) = Spec.enc enc v ++ Spec.encAll enc vs := by
  simp [Spec.encAll]

theorem encAll_append (enc : Bool) (a b : List Val) :
    Spec.encAll enc (a ++ b) = Spec.encAll enc a ++ Spec.encAll enc b := by
  simp [Spec.encAll]

theorem rawLoop_spec : ∀ (exprs : List Bytes) (r : Rd) (acc : List Bytes) (rest : Bytes),
    (∀ e ∈ exprs, ExprWF e) →
    r.d.pending = some (Spec.encAll r.mode (exprs.map Val.str) ++ rest) →
    ∃ r', rawLoop exprs.length r acc = .ok (acc.reverse ++ exprs, r') ∧ r'.d.pending = some rest ∧ r.Same r' := by
  intro exprs
  induction exprs with
  | nil =>
    intro r acc rest _ hp
    exact ⟨r, by simp [rawLoop], by simpa [Spec.encAll] using hp, rfl, rfl⟩
  | cons e es ih =>
    intro r acc rest hw hp
    rw [List.map_cons, encAll_cons, List.append_assoc] at hp
    obtain ⟨rg, hgd, hpg, hsg⟩ := guard_spec r _ (enc_str_length _ _ _) hp
    rw [← hsg.1] at hpg
    obtain ⟨r1, hok, hp1, hs1⟩ := readExpr_spec rg e _ (hw e (List.mem_cons_self ..)) hpg
    rw [hsg.1, ← hsg.1, ← hs1.1] at hp1
    obtain ⟨r2, hok2, hp2, hs2⟩ := ih r1 (e :: acc) rest (fun x hx => hw x (List.mem_cons_of_mem _ hx)) hp1
    refine ⟨r2, ?_, hp2, ⟨(hs2.1.trans hs1.1).trans hsg.1, (hs2.2.trans hs1.2).trans hsg.2⟩⟩
    simp only [List.length_cons, rawLoop, hgd, hok, hok2]
    simp

/-- every expression string of an ad, read back by the parsing receiver -/
def parseAll (ferr pok : Bytes → Bool) : List Bytes → Except Err (List Item)
  | [] => .ok []
  | e :: es =>
    match parseAndInsert ferr pok e with
    | .error x => .error x
    | .ok it =>
      match parseAll ferr pok es with
      | .error x => .error x
      | .ok its => .ok (it :: its)

theorem adLoop_spec (ferr pok : Bytes → Bool) : ∀ (exprs : List Bytes) (items : List Item) (r : Rd) (acc : List Item) (rest : Bytes),
    (∀ e ∈ exprs, ExprWF e) → parseAll ferr pok exprs = .ok items →
    r.d.pending = some (Spec.encAll r.mode (exprs.map Val.str) ++ rest) →
    ∃ r', adLoop ferr pok exprs.length r acc = .ok (acc.reverse ++ items, r') ∧ r'.d.pending = some rest ∧ r.Same r' := by
  intro exprs
  induction exprs with
  | nil =>
    intro items r acc rest _ hpa hp
    simp only [parseAll] at hpa; injection hpa with hpa; subst hpa
    exact ⟨r, by simp [adLoop], by simpa [Spec.encAll] using hp, rfl, rfl⟩
  | cons e es ih =>
    intro items r acc rest hw hpa hp
    rw [List.map_cons, encAll_cons, List.append_assoc] at hp
    obtain ⟨r1, hok, hp1, hs1⟩ := readExpr_spec r e _ (hw e (List.mem_cons_self ..)) hp
    rw [← hs1.1] at hp1
    unfold parseAll at hpa
    cases hpe : parseAndInsert ferr pok e with
    | error x => rw [hpe] at hpa; cases hpa
    | ok it =>
      rw [hpe] at hpa; simp only at hpa
      cases hps : parseAll ferr pok es with
      | error x => rw [hps] at hpa; cases hpa
      | ok its =>
        rw [hps] at hpa; simp only at hpa; injection hpa with hpa; subst hpa
        obtain ⟨r2, hok2, hp2, hs2⟩ := ih its r1 (it :: acc) rest (fun x hx => hw x (List.mem_cons_of_mem _ hx)) hps hp1
        refine ⟨r2, ?_, hp2, ⟨hs2.1.trans hs1.1, hs2.2.trans hs1.2⟩⟩
        simp only [List.length_cons, adLoop, hok, hpe, hok2]
        simp

/-- a type name as an honest sender writes it: a well-formed string, empty or a plausible type name -/
def TypeWF (t : Bytes) : Prop := (Val.str t).wf ∧ (t = [] ∨ isTypeName t = true)

theorem adVals_enc (enc : Bool) (exprs : List Bytes) (my tg : Bytes) (rest : Bytes) :
    Spec.encAll enc (adVals exprs my tg) ++ rest =
      Spec.enc enc (.int exprs.length) ++ (Spec.encAll enc (exprs.map Val.str) ++
        (Spec.enc enc (.str my) ++ (Spec.enc enc (.str tg) ++ rest))) := by
  unfold adVals
  rw [encAll_cons, encAll_append, encAll_cons, encAll_cons]
  simp [Spec.encAll, List.append_assoc]

theorem count_wf (n : Nat) (h : n < 2^63) : (Val.int (n : Int)).wf := by
  unfold Val.wf; constructor <;> omega

/-- **GetClassAdRaw reads back what a sender laid out**, from the pending bytes -/
theorem getRaw_spec (r : Rd) (exprs : List Bytes) (my tg rest : Bytes)
    (hc : exprs.length < 2^63) (hw : ∀ e ∈ exprs, ExprWF e) (hmy : TypeWF my) (htg : TypeWF tg)
    (hp : r.d.pending = some (Spec.encAll r.mode (adVals exprs my tg) ++ rest)) :
    ∃ r', r.getRaw = .ok (⟨exprs, my, tg⟩, r') ∧ r'.d.pending = some rest ∧ r.Same r' := by
  rw [adVals_enc] at hp
  obtain ⟨r1, h1, hp1, hs1⟩ := getInt_spec' r _ _ (count_wf _ hc) r.mode hp
  rw [← hs1.1] at hp1
  obtain ⟨r2, h2, hp2, hs2⟩ := rawLoop_spec exprs r1 [] _ hw hp1
  rw [← hs2.1] at hp2
  obtain ⟨r3, h3, hp3, hs3⟩ := getStringIn_spec r2.mode r2 my _ hmy.1 hp2
  rw [← hs3.1] at hp3
  obtain ⟨r4, h4, hp4, hs4⟩ := getStringIn_spec r3.mode r3 tg _ htg.1 hp3
  refine ⟨r4, ?_, hp4, ⟨by rw [hs4.1, hs3.1, hs2.1, hs1.1], by rw [hs4.2, hs3.2, hs2.2, hs1.2]⟩⟩
  unfold Rd.getRaw Rd.getRawBody Rd.getString
  rw [h1]; simp only [Int.toNat_natCast]
  rw [h2]; simp only [List.reverse_nil, List.nil_append]
  rw [h3]; simp only
  have c1 : (!my.isEmpty && !isTypeName my) = false := by
    rcases hmy.2 with h | h
    · subst h; rfl
    · simp [h]
  rw [c1]; simp only [Bool.false_eq_true, if_false]
  rw [h4]; simp only
  have c2 : (!tg.isEmpty && !isTypeName tg) = false := by
    rcases htg.2 with h | h
    · subst h; rfl
    · simp [h]
  rw [c2]; simp only [Bool.false_eq_true, if_false]

/-- **GetClassAd reads back what a sender laid out** and inserts what `parseAndInsertExpression` makes
    of every expression string, then the type names -/
theorem getAd_spec (ferr pok : Bytes → Bool) (r : Rd) (exprs : List Bytes) (items : List Item) (my tg rest : Bytes)
    (hc : exprs.length < 2^63) (hw : ∀ e ∈ exprs, ExprWF e) (hmy : (Val.str my).wf) (htg : (Val.str tg).wf)
    (hpa : parseAll ferr pok exprs = .ok items)
    (hp : r.d.pending = some (Spec.encAll r.mode (adVals exprs my tg) ++ rest)) :
    ∃ r', r.getAd ferr pok = .ok (items ++ typeItems my tg, r') ∧ r'.d.pending = some rest ∧ r.Same r' := by
  rw [adVals_enc] at hp
  obtain ⟨r1, h1, hp1, hs1⟩ := getInt_spec' r _ _ (count_wf _ hc) r.mode hp
  rw [← hs1.1] at hp1
  obtain ⟨r2, h2, hp2, hs2⟩ := adLoop_spec ferr pok exprs items r1 [] _ hw hpa hp1
  rw [← hs2.1] at hp2
  obtain ⟨r3, h3, hp3, hs3⟩ := getStringIn_spec r2.mode r2 my _ hmy hp2
  rw [← hs3.1] at hp3
  obtain ⟨r4, h4, hp4, hs4⟩ := getStringIn_spec r3.mode r3 tg _ htg hp3
  refine ⟨r4, ?_, hp4, ⟨by rw [hs4.1, hs3.1, hs2.1, hs1.1], by rw [hs4.2, hs3.2, hs2.2, hs1.2]⟩⟩
  unfold Rd.getAd Rd.getString
  rw [h1]; simp only [Int.toNat_natCast]
  rw [h2]; simp only [List.reverse_nil, List.nil_append]
  rw [h3]; simp only
  rw [h4]

/-! ### names -/

/-- the attribute name of an expression string: what precedes the first '=', without surrounding blanks -/
def nameOf (e : Bytes) : Bytes :=
  match splitEq e with
  | some (l, _) => trimSpace l
  | none => []

theorem parseAll_names (ferr pok : Bytes → Bool) : ∀ (exprs : List Bytes) (items : List Item),
    parseAll ferr pok exprs = .ok items → items.map (·.1) = exprs.map nameOf := by
  intro exprs
  induction exprs with
  | nil => intro items h; simp only [parseAll] at h; injection h with h; subst h; rfl
  | cons e es ih =>
    intro items h
    unfold parseAll at h
    cases hpe : parseAndInsert ferr pok e with
    | error x => rw [hpe] at h; cases h
    | ok it =>
      rw [hpe] at h; simp only at h
      cases hps : parseAll ferr pok es with
      | error x => rw [hps] at h; cases h
      | ok its =>
        rw [hps] at h; simp only at h; injection h with h; subst h
        obtain ⟨a, o⟩ := it
        obtain ⟨l, r, hsp, ha, _, _⟩ := parseAndInsert_cases ferr pok e a o hpe
        simp only [List.map_cons, ih its hps]
        congr 1
        unfold nameOf; rw [hsp]; exact ha

/-! ### frames -/

/-- re-cutting payload bytes into frames: `ks` are the lengths of the partial frames, the remainder
    travels in the end-of-message frame (as in C14) -/
def cutFrames : Bytes → List Nat → List OutFrame
  | B, [] => [(B, true)]
  | B, k :: ks => (B.take k, false) :: cutFrames (B.drop k) ks

theorem pending_cutFrames : ∀ (ks : List Nat) (B : Bytes), pendingSrc (cutFrames B ks) = some B := by
  intro ks
  induction ks with
  | nil => intro B; rfl
  | cons k ks ih => intro B; simp [cutFrames, pendingSrc, ih]

/-- a fresh receiver over the frames of one message -/
def Rd.fresh (enc keyed : Bool) (frames : List OutFrame) : Rd := { d := ⟨[], false, frames⟩, mode := enc, keyed := keyed }

theorem fresh_pending (enc keyed : Bool) (B : Bytes) (ks : List Nat) :
    (Rd.fresh enc keyed (cutFrames B ks)).d.pending = some B := by
  simp [Rd.fresh, Dec.pending, pending_cutFrames]

end Cedar
