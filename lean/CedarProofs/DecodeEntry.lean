/-
  C13 helper lemmas, part 2: the entry points of the Decode model (ClassAd receivers, handshake
  records), the frame layer on raw bytes, and the pre-fix behaviours.
-/
import CedarProofs.DecodeLemmas

namespace Cedar.Decode
open Cedar

structure EntryFacts {α : Type} (kc : Nat) (s : St) (r : Except Err α) (s' : St) : Prop where
  law : LawQ s s' kc 0
  np : r ≠ .error .panic

theorem rawType_facts (name : Bytes) (s : St) (r : Except Err Bytes) (s' : St) (h : rawType name s = (r, s')) :
    EntryFacts 1 s r s' := by
  unfold rawType at h
  generalize hg : getString s = gr at h
  obtain ⟨r1, s1⟩ := gr
  have f := (getString_facts _ _ _ hg).1
  cases r1 with
  | error e =>
    simp only [Prod.mk.injEq] at h
    obtain ⟨rfl, rfl⟩ := h
    exact ⟨f.lawQ, np_of_ne (fun hh => f.np (by rw [hh]))⟩
  | ok t =>
    simp only at h
    by_cases h0 : t = []
    · rw [if_pos h0] at h
      simp only [Prod.mk.injEq] at h
      obtain ⟨rfl, rfl⟩ := h
      exact ⟨f.lawQ, np_ok _⟩
    · rw [if_neg h0] at h
      by_cases ht : (!isTypeName t) = true
      · rw [if_pos ht] at h
        simp only [Prod.mk.injEq] at h
        obtain ⟨rfl, rfl⟩ := h
        exact ⟨f.lawQ, np_of_ne (by decide)⟩
      · rw [if_neg ht] at h
        simp only [Prod.mk.injEq] at h
        obtain ⟨rfl, rfl⟩ := h
        exact ⟨f.lawQ, np_ok _⟩

theorem rawBody_facts (n : Int) (s : St) (r : Except Err Bytes) (s' : St) (h : rawBody n s = (r, s')) :
    EntryFacts 4 s r s' := by
  unfold rawBody at h
  generalize hg : rawLoop n.toNat s [] = gr at h
  obtain ⟨r1, s1⟩ := gr
  obtain ⟨l1, n1⟩ := rawLoop_facts _ _ _ _ _ hg
  cases r1 with
  | error e =>
    simp only [Prod.mk.injEq] at h
    obtain ⟨rfl, rfl⟩ := h
    exact ⟨l1.mono (by omega) (Nat.le_refl _), np_of_ne (fun hh => n1 (by rw [hh]))⟩
  | ok acc =>
    simp only at h
    generalize hg2 : rawType nMyType s1 = gr2 at h
    obtain ⟨r2, s2⟩ := gr2
    have f2 := rawType_facts _ _ _ _ hg2
    cases r2 with
    | error e =>
      simp only [Prod.mk.injEq] at h
      obtain ⟨rfl, rfl⟩ := h
      exact ⟨(l1.trans f2.law).mono (by omega) (Nat.le_refl _), np_of_ne (fun hh => f2.np (by rw [hh]))⟩
    | ok l1' =>
      simp only at h
      generalize hg3 : rawType nTargetType s2 = gr3 at h
      obtain ⟨r3, s3⟩ := gr3
      have f3 := rawType_facts _ _ _ _ hg3
      cases r3 with
      | error e =>
        simp only [Prod.mk.injEq] at h
        obtain ⟨rfl, rfl⟩ := h
        exact ⟨by simpa using (l1.trans f2.law).trans f3.law, np_of_ne (fun hh => f3.np (by rw [hh]))⟩
      | ok l2' =>
        simp only [Prod.mk.injEq] at h
        obtain ⟨rfl, rfl⟩ := h
        exact ⟨by simpa using (l1.trans f2.law).trans f3.law, np_ok _⟩

theorem getClassAdRaw_facts (s : St) (r : Except Err Bytes) (s' : St) (h : getClassAdRaw s = (r, s')) :
    EntryFacts 4 s r s' := by
  unfold getClassAdRaw at h
  generalize hg : getInt s = gr at h
  obtain ⟨r1, s1⟩ := gr
  obtain ⟨f1, _⟩ := getInt_facts _ _ _ hg
  cases r1 with
  | error e =>
    simp only [Prod.mk.injEq] at h
    obtain ⟨rfl, rfl⟩ := h
    exact ⟨f1.law.toQ.mono (by omega) (Nat.le_refl _), np_of_ne (fun hh => f1.np (by rw [hh]))⟩
  | ok n =>
    simp only at h
    have f2 := rawBody_facts _ _ _ _ h
    exact ⟨by simpa using f1.law.toQ.trans f2.law, f2.np⟩

theorem skipClassAdRaw_facts (s : St) (r : Except Err Unit) (s' : St) (h : skipClassAdRaw s = (r, s')) :
    EntryFacts 3 s r s' ∧ CapLaw 8 s s' := by
  unfold skipClassAdRaw at h
  generalize hg : getInt s = gr at h
  obtain ⟨r1, s1⟩ := gr
  obtain ⟨f1, _⟩ := getInt_facts _ _ _ hg
  cases r1 with
  | error e =>
    simp only [Prod.mk.injEq] at h
    obtain ⟨rfl, rfl⟩ := h
    exact ⟨⟨f1.law.toQ.mono (by omega) (Nat.le_refl _), np_of_ne (fun hh => f1.np (by rw [hh]))⟩, f1.cap⟩
  | ok n =>
    simp only at h
    generalize hg2 : skipLoop n.toNat s1 = gr2 at h
    obtain ⟨r2, s2⟩ := gr2
    obtain ⟨l2, n2, c2⟩ := skipLoop_facts _ _ _ _ hg2
    cases r2 with
    | error e =>
      simp only [Prod.mk.injEq] at h
      obtain ⟨rfl, rfl⟩ := h
      exact ⟨⟨(f1.law.trans l2).toQ.mono (by omega) (Nat.le_refl _), n2⟩, f1.cap.trans c2⟩
    | ok u =>
      simp only at h
      generalize hg3 : skipString s2 = gr3 at h
      obtain ⟨r3, s3⟩ := gr3
      obtain ⟨l3, n3, _, c3, _⟩ := skipString_facts _ _ _ hg3
      cases r3 with
      | error e =>
        simp only [Prod.mk.injEq] at h
        obtain ⟨rfl, rfl⟩ := h
        exact ⟨⟨((f1.law.trans l2).trans l3).toQ.mono (by omega) (Nat.le_refl _), n3⟩, (f1.cap.trans c2).trans c3⟩
      | ok u3 =>
        simp only at h
        obtain ⟨l4, n4, _, c4, _⟩ := skipString_facts _ _ _ h
        exact ⟨⟨by simpa using (((f1.law.trans l2).trans l3).trans l4).toQ, n4⟩, ((f1.cap.trans c2).trans c3).trans c4⟩

theorem getClassAd_facts (cap : Nat) (pfail : Option Nat) (s : St) (r : Except Err Unit) (s' : St)
    (h : getClassAd cap pfail s = (r, s')) :
    EntryFacts 4 s r s' ∧ (0 < cap → CapLaw (max cap 8) s s') := by
  unfold getClassAd at h
  generalize hg : getInt s = gr at h
  obtain ⟨r1, s1⟩ := gr
  obtain ⟨f1, _⟩ := getInt_facts _ _ _ hg
  have cap1 : CapLaw (max cap 8) s s1 := f1.cap.mono (Nat.le_max_right _ _)
  cases r1 with
  | error e =>
    simp only [Prod.mk.injEq] at h
    obtain ⟨rfl, rfl⟩ := h
    exact ⟨⟨f1.law.toQ.mono (by omega) (Nat.le_refl _), np_of_ne (fun hh => f1.np (by rw [hh]))⟩, fun _ => cap1⟩
  | ok n =>
    simp only at h
    generalize hg2 : adLoop cap pfail n.toNat 0 0 s1 = gr2 at h
    obtain ⟨r2, s2⟩ := gr2
    obtain ⟨l2, n2, c2⟩ := adLoop_facts _ _ _ _ _ _ _ _ hg2
    cases r2 with
    | error e =>
      simp only [Prod.mk.injEq] at h
      obtain ⟨rfl, rfl⟩ := h
      exact ⟨⟨(f1.law.toQ.trans l2).mono (by omega) (Nat.le_refl _), np_of_ne (fun hh => n2 (by rw [hh]))⟩, fun hc => cap1.trans (c2 hc)⟩
    | ok t2 =>
      simp only at h
      generalize hg3 : adString cap t2 s2 = gr3 at h
      obtain ⟨r3, s3⟩ := gr3
      have f3 := adString_facts _ _ _ _ _ hg3
      cases r3 with
      | error e =>
        simp only [Prod.mk.injEq] at h
        obtain ⟨rfl, rfl⟩ := h
        exact ⟨⟨((f1.law.toQ.trans l2).trans f3.law.toQ).mono (by omega) (Nat.le_refl _), np_of_ne (fun hh => f3.np (by rw [hh]))⟩,
          fun hc => (cap1.trans (c2 hc)).trans (f3.capLaw hc)⟩
      | ok p3 =>
        obtain ⟨v3, t3⟩ := p3
        simp only at h
        generalize hg4 : adString cap t3 s3 = gr4 at h
        obtain ⟨r4, s4⟩ := gr4
        have f4 := adString_facts _ _ _ _ _ hg4
        have lall : LawQ s s4 4 0 := by simpa using ((f1.law.toQ.trans l2).trans f3.law.toQ).trans f4.law.toQ
        have call : 0 < cap → CapLaw (max cap 8) s s4 := fun hc => ((cap1.trans (c2 hc)).trans (f3.capLaw hc)).trans (f4.capLaw hc)
        cases r4 with
        | error e =>
          simp only [Prod.mk.injEq] at h
          obtain ⟨rfl, rfl⟩ := h
          exact ⟨⟨lall, np_of_ne (fun hh => f4.np (by rw [hh]))⟩, call⟩
        | ok p4 =>
          simp only [Prod.mk.injEq] at h
          obtain ⟨rfl, rfl⟩ := h
          exact ⟨⟨lall, np_ok _⟩, call⟩

/-! ## handshake records -/

theorem tlsRecv_facts (s : St) (r : Except Err Bytes) (s' : St) (h : tlsRecv s = (r, s')) :
    EntryFacts 0 s r s' := by
  unfold tlsRecv at h
  generalize hg : getInt s = gr at h
  obtain ⟨r1, s1⟩ := gr
  obtain ⟨f1, _⟩ := getInt_facts _ _ _ hg
  cases r1 with
  | error e =>
    simp only [Prod.mk.injEq] at h
    obtain ⟨rfl, rfl⟩ := h
    exact ⟨f1.law.toQ, np_of_ne (fun hh => f1.np (by rw [hh]))⟩
  | ok st =>
    simp only at h
    generalize hg2 : getInt s1 = gr2 at h
    obtain ⟨r2, s2⟩ := gr2
    obtain ⟨f2, _⟩ := getInt_facts _ _ _ hg2
    cases r2 with
    | error e =>
      simp only [Prod.mk.injEq] at h
      obtain ⟨rfl, rfl⟩ := h
      exact ⟨by simpa using (f1.law.trans f2.law).toQ, np_of_ne (fun hh => f2.np (by rw [hh]))⟩
    | ok len =>
      simp only at h
      by_cases hneg : len < 0
      · rw [if_pos hneg] at h
        simp only [Prod.mk.injEq] at h
        obtain ⟨rfl, rfl⟩ := h
        exact ⟨by simpa using (f1.law.trans f2.law).toQ, np_of_ne (by decide)⟩
      · rw [if_neg hneg] at h
        have f3 := getBytes_facts _ _ _ _ h
        exact ⟨by simpa using ((f1.law.trans f2.law).trans f3.law).toQ, f3.np⟩

theorem skipInts_facts : ∀ (n : Nat) (s : St) (r : Except Err Unit) (s' : St), skipInts n s = (r, s') →
    Law s s' 0 0 ∧ r ≠ .error .panic := by
  intro n
  induction n with
  | zero =>
    intro s r s' h
    simp only [skipInts, Prod.mk.injEq] at h
    obtain ⟨rfl, rfl⟩ := h
    exact ⟨Law.refl s, np_ok _⟩
  | succ n ih =>
    intro s r s' h
    simp only [skipInts] at h
    generalize hg : getInt s = gr at h
    obtain ⟨r1, s1⟩ := gr
    obtain ⟨f1, _⟩ := getInt_facts _ _ _ hg
    cases r1 with
    | error e =>
      simp only [Prod.mk.injEq] at h
      obtain ⟨rfl, rfl⟩ := h
      exact ⟨f1.law, np_of_ne (fun hh => f1.np (by rw [hh]))⟩
    | ok v =>
      simp only at h
      obtain ⟨l2, n2⟩ := ih _ _ _ h
      exact ⟨by simpa using f1.law.trans l2, n2⟩

theorem exchangeKey_facts (s : St) (r : Except Err Unit) (s' : St) (h : exchangeKey s = (r, s')) :
    EntryFacts 0 s r s' := by
  unfold exchangeKey at h
  generalize hg : getInt s = gr at h
  obtain ⟨r1, s1⟩ := gr
  obtain ⟨f1, _⟩ := getInt_facts _ _ _ hg
  cases r1 with
  | error e =>
    simp only [Prod.mk.injEq] at h
    obtain ⟨rfl, rfl⟩ := h
    exact ⟨f1.law.toQ, np_of_ne (fun hh => f1.np (by rw [hh]))⟩
  | ok hasKey =>
    simp only at h
    by_cases h0 : hasKey = 0
    · rw [if_pos h0] at h
      simp only [Prod.mk.injEq] at h
      obtain ⟨rfl, rfl⟩ := h
      exact ⟨f1.law.toQ, np_ok _⟩
    · rw [if_neg h0] at h
      generalize hg2 : skipInts 3 s1 = gr2 at h
      obtain ⟨r2, s2⟩ := gr2
      obtain ⟨l2, n2⟩ := skipInts_facts _ _ _ _ hg2
      cases r2 with
      | error e =>
        simp only [Prod.mk.injEq] at h
        obtain ⟨rfl, rfl⟩ := h
        exact ⟨by simpa using (f1.law.trans l2).toQ, np_of_ne (fun hh => n2 (by rw [hh]))⟩
      | ok u =>
        simp only at h
        generalize hg3 : getInt s2 = gr3 at h
        obtain ⟨r3, s3⟩ := gr3
        obtain ⟨f3, _⟩ := getInt_facts _ _ _ hg3
        cases r3 with
        | error e =>
          simp only [Prod.mk.injEq] at h
          obtain ⟨rfl, rfl⟩ := h
          exact ⟨by simpa using ((f1.law.trans l2).trans f3.law).toQ, np_of_ne (fun hh => f3.np (by rw [hh]))⟩
        | ok inputLen =>
          simp only at h
          by_cases hneg : inputLen < 0
          · rw [if_pos hneg] at h
            simp only [Prod.mk.injEq] at h
            obtain ⟨rfl, rfl⟩ := h
            exact ⟨by simpa using ((f1.law.trans l2).trans f3.law).toQ, np_of_ne (by decide)⟩
          · rw [if_neg hneg] at h
            generalize hg4 : getBytes inputLen s3 = gr4 at h
            obtain ⟨r4, s4⟩ := gr4
            have f4 := getBytes_facts _ _ _ _ hg4
            have lall : LawQ s s4 0 0 := by simpa using (((f1.law.trans l2).trans f3.law).trans f4.law).toQ
            cases r4 with
            | error e =>
              simp only [Prod.mk.injEq] at h
              obtain ⟨rfl, rfl⟩ := h
              exact ⟨lall, np_of_ne (fun hh => f4.np (by rw [hh]))⟩
            | ok v =>
              simp only [Prod.mk.injEq] at h
              obtain ⟨rfl, rfl⟩ := h
              exact ⟨lall, np_ok _⟩

theorem getIDString_facts (s : St) (r : Except Err Bytes) (s' : St) (h : getIDString s = (r, s')) :
    EntryFacts 1 s r s' ∧ CapLaw (max maxNameLen 8) s s' ∧ (∀ v, r = .ok v → v.length ≤ maxNameLen) := by
  unfold getIDString at h
  generalize hg : getInt s = gr at h
  obtain ⟨r1, s1⟩ := gr
  obtain ⟨f1, _⟩ := getInt_facts _ _ _ hg
  have cap1 : CapLaw (max maxNameLen 8) s s1 := f1.cap.mono (Nat.le_max_right _ _)
  cases r1 with
  | error e =>
    simp only [Prod.mk.injEq] at h
    obtain ⟨rfl, rfl⟩ := h
    exact ⟨⟨f1.law.toQ.mono (by omega) (Nat.le_refl _), np_of_ne (fun hh => f1.np (by rw [hh]))⟩, cap1, fun _ hv => (nomatch hv)⟩
  | ok expected =>
    simp only at h
    by_cases hbig : expected > (maxNameLen : Int)
    · rw [if_pos hbig] at h
      simp only [Prod.mk.injEq] at h
      obtain ⟨rfl, rfl⟩ := h
      exact ⟨⟨f1.law.toQ.mono (by omega) (Nat.le_refl _), np_of_ne (by decide)⟩, cap1, fun _ hv => (nomatch hv)⟩
    · rw [if_neg hbig] at h
      generalize hg2 : getStringMax maxNameLen s1 = gr2 at h
      obtain ⟨r2, s2⟩ := gr2
      have f2 := getStringMax_facts _ _ _ _ hg2
      have lall : LawQ s s2 1 0 := by simpa using (f1.law.trans f2.str.law).toQ
      cases r2 with
      | error e =>
        simp only [Prod.mk.injEq] at h
        obtain ⟨rfl, rfl⟩ := h
        exact ⟨⟨lall, np_of_ne (fun hh => f2.str.np (by rw [hh]))⟩, cap1.trans f2.capLaw, fun _ hv => (nomatch hv)⟩
      | ok v =>
        simp only at h
        by_cases heq : (v.length : Int) = expected
        · rw [if_pos heq] at h
          simp only [Prod.mk.injEq] at h
          obtain ⟨rfl, rfl⟩ := h
          exact ⟨⟨lall, np_ok _⟩, cap1.trans f2.capLaw, fun w hw => by cases hw; exact f2.resLen _ rfl⟩
        · rw [if_neg heq] at h
          simp only [Prod.mk.injEq] at h
          obtain ⟨rfl, rfl⟩ := h
          exact ⟨⟨lall, np_of_ne (by decide)⟩, cap1.trans f2.capLaw, fun _ hv => (nomatch hv)⟩


/-! ## bounds read off a `LawQ` -/

/-- the three linear bounds of an operation that starts in `s` and ends in `s'` -/
theorem LawQ.bounds {s s' : St} {kc ka : Nat} (l : LawQ s s' kc ka) :
    s'.m.frames ≤ s.m.frames + s.nsrc ∧
    s'.m.calls ≤ s.m.calls + s.bytes + kc ∧
    s'.m.alloc ≤ s.m.alloc + 4 * s.bytes + ka := by
  obtain ⟨_, _, f, _, _, c, a⟩ := l
  simp only [St.bytes, St.sb, St.bl, St.nsrc] at *
  exact ⟨by omega, by omega, by omega⟩

/-- what "linear in the input" means for an operation from `s` to `s'`: it takes no more frames
    than the wire holds, performs at most `bytes + k` string-level operations, and allocates at
    most four times the unconsumed bytes (buffer append, value copy, one more copy by the text
    builder of the raw reader) -/
def Linear (k : Nat) (s s' : St) : Prop :=
  s'.m.frames ≤ s.m.frames + s.nsrc ∧
  s'.m.calls ≤ s.m.calls + s.bytes + k ∧
  s'.m.alloc ≤ s.m.alloc + 4 * s.bytes

theorem linear_of {s s' : St} {k : Nat} (l : LawQ s s' k 0) : Linear k s s' := by
  obtain ⟨a, b, c⟩ := l.bounds
  exact ⟨a, b, by omega⟩

/-- frames are pulled only while the buffer is shorter than what was asked for: after `ensure n`
    the buffer holds at most `n` plus one frame (or what it held before) -/
theorem ensure_buffer_bound (n F : Nat) (s : St) (hF : FramesLe F s.d.src) :
    (ensure n s).2.bl ≤ max s.bl (n + F) :=
  (ensure_facts n s _ _ rfl).bound F hF

/-! ## a capped read stops consuming -/

theorem cstrMax_consumed_le (cap : Nat) : ∀ (fuel : Nat) (s : St) (acc : Bytes) (k : Nat) (r : Except Err Bytes) (s' : St),
    cstrMax cap fuel s acc k = (r, s') → s.bl + s.sb ≤ s'.bl + s'.sb + fuel := by
  intro fuel
  induction fuel with
  | zero =>
    intro s acc k r s' h
    simp only [cstrMax, Prod.mk.injEq] at h
    obtain ⟨rfl, rfl⟩ := h
    omega
  | succ fuel ih =>
    intro s acc k r s' h
    simp only [cstrMax] at h
    generalize he : ensure 1 s = er at h
    obtain ⟨r1, s1⟩ := er
    have ef := ensure_facts 1 s r1 s1 he
    have hc := ef.conserve
    rcases ef.errs with hr | hr | hr
    · subst hr
      simp only at h
      cases hb : s1.d.buf with
      | nil =>
        rw [hb] at h
        simp only [Prod.mk.injEq] at h
        obtain ⟨rfl, rfl⟩ := h
        omega
      | cons c rest =>
        rw [hb] at h
        simp only at h
        have hbl : s1.bl = rest.length + 1 := by simp [St.bl, hb]
        by_cases hc0 : c = 0
        · rw [if_pos hc0] at h
          simp only [Prod.mk.injEq] at h
          obtain ⟨rfl, rfl⟩ := h
          simp only [St.bl, St.sb, setBuf_d_buf, setBuf_d_src] at *
          omega
        · rw [if_neg hc0] at h
          have := ih _ _ _ _ _ h
          simp only [St.bl, St.sb, hold_d, addAlloc_d, setBuf_d_buf, setBuf_d_src] at *
          omega
    · subst hr
      simp only [Prod.mk.injEq] at h
      obtain ⟨rfl, rfl⟩ := h
      omega
    · subst hr
      simp only at h
      by_cases hk : k > 0
      · rw [if_pos hk] at h
        simp only [Prod.mk.injEq] at h
        obtain ⟨rfl, rfl⟩ := h
        omega
      · rw [if_neg hk] at h
        simp only [Prod.mk.injEq] at h
        obtain ⟨rfl, rfl⟩ := h
        omega

/-- a capped string read consumes at most `cap + 8` bytes of the message, whatever the peer
    announced or sent -/
theorem getStringMax_consumed_le (cap : Nat) (s : St) :
    s.bytes ≤ (getStringMax cap s).2.bytes + cap + 8 := by
  unfold getStringMax
  by_cases hc0 : cap = 0
  · rw [if_pos hc0]; simp only; omega
  · rw [if_neg hc0]
    simp only
    by_cases henc : s.call.enc = true
    · rw [if_pos henc]
      generalize hg : getInt32 s.call = gr
      obtain ⟨r1, s1⟩ := gr
      have hg' := hg
      unfold getInt32 getInt at hg'
      generalize he : ensure 8 s.call = er at hg'
      obtain ⟨re, se⟩ := er
      have ef := ensure_facts 8 _ _ _ he
      have hc := ef.conserve
      simp only [St.bl, St.sb, call_d] at hc
      cases re with
      | error e =>
        simp only [Prod.mk.injEq] at hg'
        obtain ⟨rfl, rfl⟩ := hg'
        simp only [St.bytes]
        omega
      | ok u =>
        simp only [Prod.mk.injEq] at hg'
        obtain ⟨rfl, rfl⟩ := hg'
        have h8 : 8 ≤ se.bl := ef.okLen rfl
        have hd := drop_bl se 8 h8
        simp only [St.bl, setBuf_d_buf] at hd
        simp only
        split
        · simp only [St.bytes, addAlloc_d, setBuf_d_buf, setBuf_d_src]; omega
        · generalize he2 : ensure (min (toI32 (ofU64 (beVal (se.d.buf.take 8)))).toNat cap) ((se.setBuf (se.d.buf.drop 8)).addAlloc 8) = er2
          obtain ⟨r2, s2⟩ := er2
          have ef2 := ensure_facts _ _ _ _ he2
          have hc2 := ef2.conserve
          simp only [St.bl, St.sb, addAlloc_d, setBuf_d_buf, setBuf_d_src] at hc2
          cases r2 with
          | error e => simp only [St.bytes]; omega
          | ok u2 =>
            have hk : min (toI32 (ofU64 (beVal (se.d.buf.take 8)))).toNat cap ≤ s2.bl := ef2.okLen rfl
            have hd2 := drop_bl s2 _ hk
            simp only [St.bl, setBuf_d_buf] at hd2
            have hmin : min (toI32 (ofU64 (beVal (se.d.buf.take 8)))).toNat cap ≤ cap := Nat.min_le_right _ _
            simp only
            split <;> (simp only [St.bytes, hold_d, addAlloc_d, setBuf_d_buf, setBuf_d_src]; omega)
    · rw [if_neg henc]
      have := cstrMax_consumed_le cap cap s.call [] 0 _ _ rfl
      simp only [St.bl, St.sb, call_d] at this
      simp only [St.bytes]
      omega

/-! ## the frame layer on raw bytes -/

def isErr {α : Type} (e : Err) : Except Err α → Bool
  | .error e' => e' == e
  | .ok _ => false

theorem isErr_iff {α : Type} (e : Err) (r : Except Err α) : isErr e r = true ↔ r = .error e := by
  cases r with
  | ok v => simp [isErr]
  | error e' => simp [isErr]

theorem le_of_not_not_lenGe {α : Type} {l : List α} {n : Nat} (h : ¬ (!lenGe l n) = true) : n ≤ l.length := by
  cases hl : lenGe l n with
  | true => exact (lenGe_iff _ _).mp hl
  | false => simp [hl] at h

structure FrameFacts (w : Bytes) (m : WMeter) (r : Except Err (Nat × Bytes × Bytes)) (m' : WMeter) : Prop where
  np : r ≠ .error .panic
  frames : m'.frames ≤ m.frames + 1
  depth : m'.depth = m.depth
  alloc : m'.alloc ≤ m.alloc + maxMessageSize
  ok : ∀ fl p rest, r = .ok (fl, p, rest) → w.length = headerSize + p.length + rest.length ∧ m'.alloc = m.alloc + p.length

theorem recvFrame_facts (encOn : Bool) (w : Bytes) (m : WMeter) (r) (m' : WMeter)
    (h : recvFrame encOn w m = (r, m')) : FrameFacts w m r m' := by
  unfold recvFrame at h
  by_cases h5 : (!lenGe w headerSize) = true
  · rw [if_pos h5] at h
    simp only [Prod.mk.injEq] at h
    obtain ⟨rfl, rfl⟩ := h
    exact ⟨np_of_ne (by decide), Nat.le_succ _, rfl, Nat.le_add_right _ _, fun _ _ _ hv => (nomatch hv)⟩
  · rw [if_neg h5] at h
    simp only at h
    have hw : headerSize ≤ w.length := le_of_not_not_lenGe h5
    by_cases hbig : beVal ((w.drop 1).take 4) > maxMessageSize
    · rw [if_pos hbig] at h
      simp only [Prod.mk.injEq] at h
      obtain ⟨rfl, rfl⟩ := h
      exact ⟨np_of_ne (by decide), Nat.le_refl _, rfl, Nat.le_add_right _ _, fun _ _ _ hv => (nomatch hv)⟩
    · rw [if_neg hbig] at h
      by_cases hflag : ((w.take 1).headD 0).toNat > 10
      · rw [if_pos hflag] at h
        simp only [Prod.mk.injEq] at h
        obtain ⟨rfl, rfl⟩ := h
        exact ⟨np_of_ne (by decide), Nat.le_refl _, rfl, Nat.le_add_right _ _, fun _ _ _ hv => (nomatch hv)⟩
      · rw [if_neg hflag] at h
        by_cases hz : beVal ((w.drop 1).take 4) = 0
        · rw [if_pos hz] at h
          cases encOn with
          | true =>
            simp only [if_true, Prod.mk.injEq] at h
            obtain ⟨rfl, rfl⟩ := h
            exact ⟨np_of_ne (by decide), Nat.le_refl _, rfl, Nat.le_add_right _ _, fun _ _ _ hv => (nomatch hv)⟩
          | false =>
            simp only [Bool.false_eq_true, if_false, Prod.mk.injEq] at h
            obtain ⟨rfl, rfl⟩ := h
            refine ⟨np_ok _, Nat.le_refl _, rfl, Nat.le_add_right _ _, ?_⟩
            intro fl p rest hv
            simp only [Except.ok.injEq, Prod.mk.injEq] at hv
            obtain ⟨_, rfl, rfl⟩ := hv
            simp only [List.length_nil, List.length_drop]
            exact ⟨by omega, rfl⟩
        · rw [if_neg hz] at h
          by_cases hshort : (!lenGe (w.drop headerSize) (beVal ((w.drop 1).take 4))) = true
          · rw [if_pos hshort] at h
            simp only [Prod.mk.injEq] at h
            obtain ⟨rfl, rfl⟩ := h
            refine ⟨np_of_ne (by decide), Nat.le_refl _, rfl, ?_, fun _ _ _ hv => (nomatch hv)⟩
            simp only
            omega
          · rw [if_neg hshort] at h
            simp only [Prod.mk.injEq] at h
            obtain ⟨rfl, rfl⟩ := h
            have hlen : beVal ((w.drop 1).take 4) ≤ (w.drop headerSize).length := le_of_not_not_lenGe hshort
            refine ⟨np_ok _, Nat.le_refl _, rfl, ?_, ?_⟩
            · simp only; omega
            · intro fl p rest hv
              simp only [Except.ok.injEq, Prod.mk.injEq] at hv
              obtain ⟨_, rfl, rfl⟩ := hv
              simp only [List.length_take, List.length_drop] at hlen ⊢
              refine ⟨by omega, ?_⟩
              congr 1
              omega

structure WireFacts (w : Bytes) (m : WMeter) (r : Except Err (Bytes × Bytes)) (m' : WMeter) : Prop where
  np : r ≠ .error .panic
  frames : headerSize * m'.frames ≤ headerSize * m.frames + w.length + headerSize
  alloc : m'.alloc ≤ m.alloc + 2 * w.length + maxMessageSize

theorem headerSize_pos : 0 < headerSize := by decide

theorem recvComplete_facts (encOn : Bool) : ∀ (fuel : Nat) (w acc : Bytes) (m : WMeter) (r) (m' : WMeter),
    recvComplete encOn fuel w acc m = (r, m') → WireFacts w m r m' ∧ m'.depth = m.depth := by
  intro fuel
  induction fuel with
  | zero =>
    intro w acc m r m' h
    simp only [recvComplete, Prod.mk.injEq] at h
    obtain ⟨rfl, rfl⟩ := h
    exact ⟨⟨np_of_ne (by decide), by omega, by omega⟩, rfl⟩
  | succ fuel ih =>
    intro w acc m r m' h
    simp only [recvComplete] at h
    generalize hf : recvFrame encOn w m = fr at h
    obtain ⟨r1, m1⟩ := fr
    have ff := recvFrame_facts _ _ _ _ _ hf
    have hp := headerSize_pos
    cases r1 with
    | error e =>
      simp only [Prod.mk.injEq] at h
      obtain ⟨rfl, rfl⟩ := h
      refine ⟨⟨np_of_ne (fun hh => ff.np (by rw [hh])), ?_, ?_⟩, ff.depth⟩
      · have := ff.frames
        calc headerSize * m1.frames ≤ headerSize * (m.frames + 1) := Nat.mul_le_mul_left _ this
          _ = headerSize * m.frames + headerSize := by rw [Nat.mul_add, Nat.mul_one]
          _ ≤ headerSize * m.frames + w.length + headerSize := by omega
      · have := ff.alloc; omega
    | ok t =>
      obtain ⟨fl, p, rest⟩ := t
      simp only at h
      obtain ⟨hw, ha⟩ := ff.ok fl p rest rfl
      have hfr : headerSize * m1.frames ≤ headerSize * m.frames + headerSize := by
        have := ff.frames
        calc headerSize * m1.frames ≤ headerSize * (m.frames + 1) := Nat.mul_le_mul_left _ this
          _ = headerSize * m.frames + headerSize := by rw [Nat.mul_add, Nat.mul_one]
      by_cases h1 : fl = 1
      · rw [if_pos h1] at h
        simp only [Prod.mk.injEq] at h
        obtain ⟨rfl, rfl⟩ := h
        exact ⟨⟨np_ok _, by simp only; omega, by simp only; omega⟩, ff.depth⟩
      · rw [if_neg h1] at h
        by_cases h0 : fl = 0
        · rw [if_pos h0] at h
          obtain ⟨wf, hd⟩ := ih _ _ _ _ _ h
          refine ⟨⟨wf.np, ?_, ?_⟩, by rw [hd]; exact ff.depth⟩
          · have := wf.frames; simp only at this; omega
          · have := wf.alloc; simp only at this; omega
        · rw [if_neg h0] at h
          simp only [Prod.mk.injEq] at h
          obtain ⟨rfl, rfl⟩ := h
          exact ⟨⟨np_of_ne (by decide), by simp only; omega, by simp only; omega⟩, ff.depth⟩

theorem readMessage_facts (encOn : Bool) : ∀ (fuel : Nat) (w acc : Bytes) (m : WMeter) (r) (m' : WMeter),
    readMessage encOn fuel w acc m = (r, m') → WireFacts w m r m' ∧ m'.depth ≤ max m.depth 1 := by
  intro fuel
  induction fuel with
  | zero =>
    intro w acc m r m' h
    simp only [readMessage, Prod.mk.injEq] at h
    obtain ⟨rfl, rfl⟩ := h
    exact ⟨⟨np_of_ne (by decide), by omega, by omega⟩, Nat.le_max_left _ _⟩
  | succ fuel ih =>
    intro w acc m r m' h
    simp only [readMessage] at h
    generalize hf : recvFrame encOn w m = fr at h
    obtain ⟨r1, m1⟩ := fr
    have ff := recvFrame_facts _ _ _ _ _ hf
    have hp := headerSize_pos
    have hfr : headerSize * m1.frames ≤ headerSize * m.frames + headerSize := by
      have := ff.frames
      calc headerSize * m1.frames ≤ headerSize * (m.frames + 1) := Nat.mul_le_mul_left _ this
        _ = headerSize * m.frames + headerSize := by rw [Nat.mul_add, Nat.mul_one]
    cases r1 with
    | error e =>
      simp only [Prod.mk.injEq] at h
      obtain ⟨rfl, rfl⟩ := h
      refine ⟨⟨np_of_ne (fun hh => ff.np (by rw [hh])), by omega, ?_⟩, by rw [ff.depth]; exact Nat.le_max_left _ _⟩
      have := ff.alloc; omega
    | ok t =>
      obtain ⟨fl, p, rest⟩ := t
      simp only at h
      obtain ⟨hw, ha⟩ := ff.ok fl p rest rfl
      have hdep := ff.depth
      by_cases h0 : fl = 0
      · rw [if_pos h0] at h
        obtain ⟨wf, hd⟩ := ih _ _ _ _ _ h
        refine ⟨⟨wf.np, ?_, ?_⟩, ?_⟩
        · have := wf.frames; simp only at this; omega
        · have := wf.alloc; simp only at this; omega
        · simp only at hd; omega
      · rw [if_neg h0] at h
        simp only [Prod.mk.injEq] at h
        obtain ⟨rfl, rfl⟩ := h
        exact ⟨⟨np_ok _, by simp only; omega, by simp only; omega⟩, by simp only; omega⟩

theorem readPassSock_facts (w : Bytes) : (readPassSock w).1 ≠ .error .panic ∧ (readPassSock w).2 ≤ spMaxPayload := by
  unfold readPassSock
  by_cases h5 : (!lenGe w spHeader) = true
  · rw [if_pos h5]; exact ⟨np_of_ne (by decide), Nat.zero_le _⟩
  · rw [if_neg h5]
    simp only
    by_cases hl : (beVal ((w.drop 1).take 4) = 0 || beVal ((w.drop 1).take 4) > spMaxPayload) = true
    · rw [if_pos hl]; exact ⟨np_of_ne (by decide), Nat.zero_le _⟩
    · rw [if_neg hl]
      have hle : beVal ((w.drop 1).take 4) ≤ spMaxPayload := by
        simp only [Bool.or_eq_true, decide_eq_true_eq, not_or, Nat.not_lt] at hl
        exact hl.2
      by_cases hs : (!lenGe (w.drop spHeader) (beVal ((w.drop 1).take 4))) = true
      · rw [if_pos hs]; exact ⟨np_of_ne (by decide), hle⟩
      · rw [if_neg hs]
        by_cases h8 : beVal ((w.drop 1).take 4) ≠ spIntLen
        · rw [if_pos h8]; exact ⟨np_of_ne (by decide), hle⟩
        · rw [if_neg h8]
          by_cases hc : ofU64 (beVal ((w.drop spHeader).take (beVal ((w.drop 1).take 4)))) ≠ passSockCmd
          · rw [if_pos hc]; exact ⟨np_of_ne (by decide), hle⟩
          · rw [if_neg hc]; exact ⟨np_ok _, hle⟩

/-! ## the pre-fix behaviours -/

/-- an empty plaintext message whose end has been seen -/
def sEOM (m : Meter) : St := ⟨⟨[], true, []⟩, false, false, m⟩

theorem getString_sEOM (m : Meter) :
    getString (sEOM m) = (.ok [], sEOM { m with calls := m.calls + 1, need := max m.need 1 }) := by
  simp [getString, sEOM, St.call, cstr, ensure, pull, lenGe]

/-- before fix 4 the raw reader performed one string read per COUNTED expression, whatever the
    input: `n` calls on an exhausted message -/
theorem legacy_rawLoop_calls : ∀ (n : Nat) (m : Meter) (acc : List Bytes),
    (Legacy.rawLoop n (sEOM m) acc).2.m.calls = m.calls + n := by
  intro n
  induction n with
  | zero => intro m acc; rfl
  | succ n ih =>
    intro m acc
    have hne : ([] : Bytes) ≠ secretMarker := by decide
    simp only [Legacy.rawLoop, getString_sEOM, if_neg hne]
    have : (sEOM { m with calls := m.calls + 1, need := max m.need 1 }).addAlloc (([] : Bytes).length + 1) =
        sEOM { m with calls := m.calls + 1, need := max m.need 1, alloc := m.alloc + 1 } := rfl
    rw [this, ih]
    simp only
    omega

/-- `k` empty partial frames followed by an empty final frame -/
def flood : Nat → Bytes
  | 0 => [1, 0, 0, 0, 0]
  | k + 1 => 0 :: 0 :: 0 :: 0 :: 0 :: flood k

theorem flood_length (k : Nat) : (flood k).length = 5 * k + 5 := by
  induction k with
  | zero => rfl
  | succ k ih => simp only [flood, List.length_cons, ih]; omega

theorem recvFrame_empty0 (rest : Bytes) (m : WMeter) :
    recvFrame false (0 :: 0 :: 0 :: 0 :: 0 :: rest) m = (.ok (0, [], rest), { m with frames := m.frames + 1 }) := by
  simp [recvFrame, lenGe, headerSize, CedarGen.stream.NormalHeaderSize, beVal, maxMessageSize, CedarGen.stream.MaxMessageSize]

theorem recvFrame_empty1 (m : WMeter) :
    recvFrame false [1, 0, 0, 0, 0] m = (.ok (1, [], []), { m with frames := m.frames + 1 }) := by
  simp [recvFrame, lenGe, headerSize, CedarGen.stream.NormalHeaderSize, beVal, maxMessageSize, CedarGen.stream.MaxMessageSize]

/-- before fix 5 the multi-frame reader used one stack frame per partial frame -/
theorem legacy_depth : ∀ (k fuel d : Nat) (acc : Bytes) (m : WMeter), k < fuel →
    (Legacy.readMessage false fuel (flood k) acc d m).2.depth = max m.depth (d + k + 1) := by
  intro k
  induction k with
  | zero =>
    intro fuel d acc m hf
    obtain ⟨f, rfl⟩ : ∃ f, fuel = f + 1 := ⟨fuel - 1, by omega⟩
    simp [Legacy.readMessage, flood, recvFrame_empty1]
  | succ k ih =>
    intro fuel d acc m hf
    obtain ⟨f, rfl⟩ : ∃ f, fuel = f + 1 := ⟨fuel - 1, by omega⟩
    simp only [Legacy.readMessage, flood, recvFrame_empty0]
    simp only [if_pos]
    rw [ih f (d + 1) _ _ (by omega)]
    simp only
    omega

end Cedar.Decode
