/-
  Helper lemmas for C17, part 4: on an established stream every send operation reads and writes
  the send side (and reads the shared part) only, every receive operation the receive side only.
-/
import CedarModel.Lockset

namespace Cedar.Lockset.Dir
open Cedar

set_option linter.unusedSimpArgs false
set_option linter.unusedVariables false

theorem assemble_eta (s : Stream) : assemble (sendSide s) (recvSide s) (shared s) = s := by
  obtain ⟨key, enc, auth, encIV, decIV, encCtr, decCtr, fsa, fra, ⟨sf, rf, sw, rw, fS, fR⟩, sb, se, rb, br, tm, im, bs, pa⟩ := s
  rfl

@[simp] theorem sendSide_assemble (a : SendSide) (r : RecvSide) (c : Shared) : sendSide (assemble a r c) = a := rfl
@[simp] theorem recvSide_assemble (a : SendSide) (r : RecvSide) (c : Shared) : recvSide (assemble a r c) = r := rfl
@[simp] theorem shared_assemble (a : SendSide) (r : RecvSide) (c : Shared) : shared (assemble a r c) = c := rfl

/-- the same stream with another receive side / another send side -/
def swapRecv (s : Stream) (r : RecvSide) : Stream := assemble (sendSide s) r (shared s)
def swapSend (s : Stream) (a : SendSide) : Stream := assemble a (recvSide s) (shared s)

theorem eq_swapRecv {s t : Stream} (h1 : sendSide s = sendSide t) (h2 : shared s = shared t) :
    s = swapRecv t (recvSide s) := by
  rw [swapRecv, ← h1, ← h2, assemble_eta]

theorem eq_swapSend {s t : Stream} (h1 : recvSide s = recvSide t) (h2 : shared s = shared t) :
    s = swapSend t (sendSide s) := by
  rw [swapSend, ← h1, ← h2, assemble_eta]

def mapOk {α β : Type} (f : α → β) : Except Err α → Except Err β
  | .ok a => .ok (f a)
  | .error e => .error e

@[simp] theorem mapOk_ok {α β : Type} (f : α → β) (a : α) : mapOk f (.ok a) = .ok (f a) := rfl
@[simp] theorem mapOk_error {α β : Type} (f : α → β) (e : Err) : mapOk f (.error e : Except Err α) = .error e := rfl

theorem mapOk_ite {α β : Type} (f : α → β) (c : Prop) [Decidable c] (a b : Except Err α) :
    mapOk f (if c then a else b) = if c then mapOk f a else mapOk f b := by
  split <;> rfl

/-- `F` at `s` is local to the send side: with any other receive side it computes the same
    outcome (transported), and it leaves the receive side and the shared part alone -/
def SendLocal {β : Type} (F : Stream → Except Err (Stream × β)) (s : Stream) : Prop :=
  (∀ r', F (swapRecv s r') = mapOk (fun p => (swapRecv p.1 r', p.2)) (F s)) ∧
  (∀ s1 b, F s = .ok (s1, b) → recvSide s1 = recvSide s ∧ shared s1 = shared s)

def RecvLocal {β : Type} (F : Stream → Except Err (Stream × β)) (s : Stream) : Prop :=
  (∀ a', F (swapSend s a') = mapOk (fun p => (swapSend p.1 a', p.2)) (F s)) ∧
  (∀ s1 b, F s = .ok (s1, b) → sendSide s1 = sendSide s ∧ shared s1 = shared s)

/-! ### frozen digests -/

theorem dig_frozen (sf rf : Bytes) (sw rw : Bool) (x y : Digest) (b : Bytes) :
    let d : Dig := ⟨sf, rf, sw, rw, some x, some y⟩
    d.finalize = d ∧ d.feedSend b = d ∧ d.feedRecv b = d ∧ d.fs = x ∧ d.fr = y := by
  simp [Dig.finalize, Dig.feedSend, Dig.feedRecv, Dig.fs, Dig.fr]

/-! ### the frame-level operations -/

theorem sendFrame_local (s : Stream) (hE : Established (shared s)) (d : Bytes) (flag : Nat) :
    SendLocal (fun s => s.sendFrame d flag) s := by
  obtain ⟨key, enc, auth, encIV, decIV, encCtr, decCtr, fsa, fra, ⟨sf, rf, sw, rw, fS, fR⟩, sb, se, rb, br, tm, im, bs, pa⟩ := s
  obtain ⟨h1, h2, h3, h4⟩ := hE
  simp only [shared] at h1 h2 h3 h4
  obtain ⟨x, rfl⟩ := Option.isSome_iff_exists.mp h1
  obtain ⟨y, rfl⟩ := Option.isSome_iff_exists.mp h2
  subst h4
  constructor
  · intro r'
    obtain ⟨decIV', decCtr', fra', rb', br', tm', im', rf', rw'⟩ := r'
    cases key <;> cases enc <;> cases fsa <;>
      simp [Stream.sendFrame, swapRecv, assemble, sendSide, shared, recvSide, Dig.feedSend, Dig.finalize,
          Dig.fs, Dig.fr, Stream.sealFrame, mapOk_ite] <;> rfl
  · intro s1 b
    cases key <;> cases enc <;> cases fsa <;>
      simp only [Stream.sendFrame, assemble, sendSide, shared, recvSide, Dig.feedSend, Dig.finalize,
          Dig.fs, Dig.fr, Stream.sealFrame] <;>
      (repeat' split) <;> intro h <;> simp_all <;> (obtain ⟨rfl, _⟩ := h; simp)

theorem openBody_swap (s : Stream) (hE : Established (shared s)) (a' : SendSide) (k : Nat) (f : WireFrame) :
    (swapSend s a').openBody k f = s.openBody k f := by
  obtain ⟨key, enc, auth, encIV, decIV, encCtr, decCtr, fsa, fra, ⟨sf, rf, sw, rw, fS, fR⟩, sb, se, rb, br, tm, im, bs, pa⟩ := s
  obtain ⟨encCtr', fsa', sb', se', sf', sw'⟩ := a'
  obtain ⟨h1, h2, h3, h4⟩ := hE
  simp only [shared] at h1 h2 h3 h4
  obtain ⟨x, rfl⟩ := Option.isSome_iff_exists.mp h1
  obtain ⟨y, rfl⟩ := Option.isSome_iff_exists.mp h2
  rfl

/-! ### a small calculus of local operations -/

def bindE {β γ : Type} (x : Except Err (Stream × β)) (k : Stream → β → Except Err (Stream × γ)) : Except Err (Stream × γ) :=
  match x with
  | .error e => .error e
  | .ok (s1, b) => k s1 b

theorem established_of_shared_eq {s t : Stream} (h : shared t = shared s) (hE : Established (shared s)) :
    Established (shared t) := h ▸ hE

section send
variable {β γ : Type}

theorem SendLocal.error (e : Err) (s : Stream) : SendLocal (fun _ => (.error e : Except Err (Stream × β))) s :=
  ⟨fun _ => rfl, fun _ _ h => by cases h⟩

theorem SendLocal.bind {F : Stream → Except Err (Stream × β)} {K : Stream → β → Except Err (Stream × γ)} {s : Stream}
    (hE : Established (shared s)) (hF : SendLocal F s)
    (hK : ∀ b s1, Established (shared s1) → SendLocal (fun t => K t b) s1) :
    SendLocal (fun t => bindE (F t) K) s := by
  constructor
  · intro r'
    simp only [hF.1 r']
    cases hs : F s with
    | error e => rfl
    | ok p =>
      obtain ⟨s1, b⟩ := p
      have hE1 := established_of_shared_eq (hF.2 s1 b hs).2 hE
      exact (hK b s1 hE1).1 r'
  · intro s2 c
    simp only [bindE]
    cases hs : F s with
    | error e => intro h; cases h
    | ok p =>
      obtain ⟨s1, b⟩ := p
      have h1 := hF.2 s1 b hs
      have hE1 := established_of_shared_eq h1.2 hE
      intro h
      have h2 := (hK b s1 hE1).2 s2 c h
      exact ⟨h2.1.trans h1.1, h2.2.trans h1.2⟩

/-- an update of send-side fields only -/
structure SendUpd (upd : Stream → Stream) : Prop where
  comm : ∀ s r', upd (swapRecv s r') = swapRecv (upd s) r'
  recv : ∀ s, recvSide (upd s) = recvSide s
  shr : ∀ s, shared (upd s) = shared s

theorem SendLocal.pure {upd : Stream → Stream} (hu : SendUpd upd) (b : β) (s : Stream) :
    SendLocal (fun t => (.ok (upd t, b) : Except Err (Stream × β))) s :=
  ⟨fun r' => by simp only [hu.comm, mapOk_ok], fun s1 b' h => by cases h; exact ⟨hu.recv s, hu.shr s⟩⟩

theorem SendLocal.pre {upd : Stream → Stream} (hu : SendUpd upd) {F : Stream → Except Err (Stream × β)} {s : Stream}
    (hF : SendLocal F (upd s)) : SendLocal (fun t => F (upd t)) s := by
  constructor
  · intro r'
    simp only [hu.comm]
    exact hF.1 r'
  · intro s1 b h
    have := hF.2 s1 b h
    exact ⟨this.1.trans (hu.recv s), this.2.trans (hu.shr s)⟩

theorem SendLocal.ite {c : Stream → Bool} (hc : ∀ s r', c (swapRecv s r') = c s)
    {F G : Stream → Except Err (Stream × β)} {s : Stream} (hF : c s = true → SendLocal F s) (hG : c s = false → SendLocal G s) :
    SendLocal (fun t => if c t then F t else G t) s := by
  cases hcs : c s with
  | true =>
    constructor
    · intro r'; simp only [hc, hcs, if_true]; exact (hF hcs).1 r'
    · intro s1 b; simp only [hcs, if_true]; exact (hF hcs).2 s1 b
  | false =>
    constructor
    · intro r'; simp only [hc, hcs, Bool.false_eq_true, if_false]; exact (hG hcs).1 r'
    · intro s1 b; simp only [hcs, Bool.false_eq_true, if_false]; exact (hG hcs).2 s1 b

end send

section recv
variable {β γ : Type}

theorem RecvLocal.error (e : Err) (s : Stream) : RecvLocal (fun _ => (.error e : Except Err (Stream × β))) s :=
  ⟨fun _ => rfl, fun _ _ h => by cases h⟩

theorem RecvLocal.bind {F : Stream → Except Err (Stream × β)} {K : Stream → β → Except Err (Stream × γ)} {s : Stream}
    (hE : Established (shared s)) (hF : RecvLocal F s)
    (hK : ∀ b s1, Established (shared s1) → RecvLocal (fun t => K t b) s1) :
    RecvLocal (fun t => bindE (F t) K) s := by
  constructor
  · intro a'
    simp only [hF.1 a']
    cases hs : F s with
    | error e => rfl
    | ok p =>
      obtain ⟨s1, b⟩ := p
      have hE1 := established_of_shared_eq (hF.2 s1 b hs).2 hE
      exact (hK b s1 hE1).1 a'
  · intro s2 c
    simp only [bindE]
    cases hs : F s with
    | error e => intro h; cases h
    | ok p =>
      obtain ⟨s1, b⟩ := p
      have h1 := hF.2 s1 b hs
      have hE1 := established_of_shared_eq h1.2 hE
      intro h
      have h2 := (hK b s1 hE1).2 s2 c h
      exact ⟨h2.1.trans h1.1, h2.2.trans h1.2⟩

structure RecvUpd (upd : Stream → Stream) : Prop where
  comm : ∀ s a', upd (swapSend s a') = swapSend (upd s) a'
  snd : ∀ s, sendSide (upd s) = sendSide s
  shr : ∀ s, shared (upd s) = shared s

theorem RecvLocal.pure {upd : Stream → Stream} (hu : RecvUpd upd) (b : β) (s : Stream) :
    RecvLocal (fun t => (.ok (upd t, b) : Except Err (Stream × β))) s :=
  ⟨fun a' => by simp only [hu.comm, mapOk_ok], fun s1 b' h => by cases h; exact ⟨hu.snd s, hu.shr s⟩⟩

theorem RecvLocal.ite {c : Stream → Bool} (hc : ∀ s a', c (swapSend s a') = c s)
    {F G : Stream → Except Err (Stream × β)} {s : Stream} (hF : c s = true → RecvLocal F s) (hG : c s = false → RecvLocal G s) :
    RecvLocal (fun t => if c t then F t else G t) s := by
  cases hcs : c s with
  | true =>
    constructor
    · intro a'; simp only [hc, hcs, if_true]; exact (hF hcs).1 a'
    · intro s1 b; simp only [hcs, if_true]; exact (hF hcs).2 s1 b
  | false =>
    constructor
    · intro a'; simp only [hc, hcs, Bool.false_eq_true, if_false]; exact (hG hcs).1 a'
    · intro s1 b; simp only [hcs, Bool.false_eq_true, if_false]; exact (hG hcs).2 s1 b

end recv

theorem idSendUpd : SendUpd id := ⟨fun _ _ => rfl, fun _ => rfl, fun _ => rfl⟩
theorem idRecvUpd : RecvUpd id := ⟨fun _ _ => rfl, fun _ => rfl, fun _ => rfl⟩

/-! ### send side -/

theorem flushPartial_eq : (fun s : Stream => s.flushPartial) =
    fun s => if s.sendBuf.isEmpty then .ok (s, []) else
      bindE (s.sendFrame s.sendBuf 0) (fun s1 f => .ok ({ s1 with sendBuf := [] }, [f])) := by
  funext s
  unfold Stream.flushPartial bindE
  split
  · rfl
  · cases s.sendFrame s.sendBuf 0 <;> rfl

theorem flushPartial_local (s : Stream) (hE : Established (shared s)) : SendLocal (fun s => s.flushPartial) s := by
  rw [flushPartial_eq]
  apply SendLocal.ite (c := fun s => s.sendBuf.isEmpty) (fun _ _ => rfl)
  · intro _; exact SendLocal.pure idSendUpd [] s
  · intro _
    apply SendLocal.bind hE (F := fun t => t.sendFrame t.sendBuf 0)
    · exact sendFrame_local s hE s.sendBuf 0
    · intro f s1 _
      exact SendLocal.pure (upd := fun s1 => { s1 with sendBuf := [] }) ⟨fun _ _ => rfl, fun _ => rfl, fun _ => rfl⟩ [f] s1

theorem writeMessage_eq (d : Bytes) : (fun s : Stream => s.writeMessage d) =
    fun s => if s.sendEOM then .error .state else
      (fun t : Stream => if decide (t.sendBuf.length ≥ frameThreshold) then t.flushPartial else .ok (id t, []))
        { s with sendBuf := s.sendBuf ++ d } := by
  funext s
  unfold Stream.writeMessage
  split
  · rfl
  · simp only [decide_eq_true_eq, id]

theorem writeMessage_local (s : Stream) (hE : Established (shared s)) (d : Bytes) :
    SendLocal (fun s => s.writeMessage d) s := by
  rw [writeMessage_eq]
  apply SendLocal.ite (c := fun s => s.sendEOM) (fun _ _ => rfl)
  · intro _; exact SendLocal.error _ s
  · intro _
    apply SendLocal.pre (upd := fun s => { s with sendBuf := s.sendBuf ++ d })
      (F := fun t : Stream => if decide (t.sendBuf.length ≥ frameThreshold) then t.flushPartial else .ok (id t, []))
      ⟨fun _ _ => rfl, fun _ => rfl, fun _ => rfl⟩
    apply SendLocal.ite (c := fun t => decide (t.sendBuf.length ≥ frameThreshold)) (fun _ _ => rfl)
    · intro _; exact flushPartial_local _ hE
    · intro _; exact SendLocal.pure idSendUpd [] _

theorem endMessage_eq : (fun s : Stream => s.endMessage) =
    fun s => if s.sendEOM then .error .state else
      (fun t : Stream => bindE (t.sendFrame t.sendBuf 1) (fun s2 f => .ok ({ s2 with sendBuf := [] }, [f])))
        { s with sendEOM := true } := by
  funext s
  unfold Stream.endMessage bindE
  split
  · rfl
  · simp only
    cases Stream.sendFrame { s with sendEOM := true } s.sendBuf 1 <;> rfl

theorem endMessage_local (s : Stream) (hE : Established (shared s)) : SendLocal (fun s => s.endMessage) s := by
  rw [endMessage_eq]
  apply SendLocal.ite (c := fun s => s.sendEOM) (fun _ _ => rfl)
  · intro _; exact SendLocal.error _ s
  · intro _
    apply SendLocal.pre (upd := fun s => { s with sendEOM := true })
      (F := fun t : Stream => bindE (t.sendFrame t.sendBuf 1) (fun s2 f => .ok ({ s2 with sendBuf := [] }, [f])))
      ⟨fun _ _ => rfl, fun _ => rfl, fun _ => rfl⟩
    apply SendLocal.bind (s := { s with sendEOM := true }) hE (F := fun t => t.sendFrame t.sendBuf 1)
    · exact sendFrame_local { s with sendEOM := true } hE s.sendBuf 1
    · intro f s1 _
      exact SendLocal.pure (upd := fun s1 => { s1 with sendBuf := [] }) ⟨fun _ _ => rfl, fun _ => rfl, fun _ => rfl⟩ [f] s1

theorem prepareSecret_id (s : Stream) (hE : Established (shared s)) : prepareSecret s = s := by
  obtain ⟨_, _, h3, _⟩ := hE
  unfold prepareSecret
  cases hk : s.key with
  | none => simp
  | some k =>
    have : s.encrypted = true := h3 (by simp [shared, hk])
    simp [this]

theorem restoreSecret_id (s : Stream) (hE : Established (shared s)) : restoreSecret s = s := by
  obtain ⟨_, _, _, h4⟩ := hE
  have : s.beforeSecret = false := h4
  simp [restoreSecret, this]

/-- on an established stream `PutSecret` is a plain complete frame -/
theorem applySend_secret (s : Stream) (hE : Established (shared s)) (d : Bytes) :
    applySend s (.secret d) = applySend s (.frame (d ++ [0]) 1) := by
  have hf := sendFrame_local s hE (d ++ [0]) 1
  simp only [applySend, prepareSecret_id s hE]
  cases hs : s.sendFrame (d ++ [0]) 1 with
  | error e => rfl
  | ok p =>
    obtain ⟨s1, f⟩ := p
    have hE1 := established_of_shared_eq (hf.2 s1 f hs).2 hE
    simp only [restoreSecret_id s1 hE1]

theorem frameOp_eq (d : Bytes) (flag : Nat) : (fun s : Stream => applySend s (.frame d flag)) =
    fun s => bindE (s.sendFrame d flag) (fun s1 f => .ok (id s1, [f])) := by
  funext s
  simp only [applySend, bindE, id]
  cases s.sendFrame d flag <;> rfl

theorem frameOp_local (s : Stream) (hE : Established (shared s)) (d : Bytes) (flag : Nat) :
    SendLocal (fun s => applySend s (.frame d flag)) s := by
  rw [frameOp_eq]
  apply SendLocal.bind hE (sendFrame_local s hE d flag)
  intro f s1 _
  exact SendLocal.pure idSendUpd [f] s1

theorem applySend_local (s : Stream) (hE : Established (shared s)) (op : SendOp) : SendLocal (fun s => applySend s op) s := by
  cases op with
  | frame d flag => exact frameOp_local s hE d flag
  | write d => exact writeMessage_local s hE d
  | endMsg => exact endMessage_local s hE
  | startMsg =>
    exact SendLocal.pure (upd := fun s => s.startMessage) ⟨fun _ _ => rfl, fun _ => rfl, fun _ => rfl⟩ [] s
  | secret d =>
    have hl := frameOp_local s hE (d ++ [0]) 1
    constructor
    · intro r'
      have hE' : Established (shared (swapRecv s r')) := hE
      show applySend (swapRecv s r') (.secret d) = mapOk (fun p => (swapRecv p.fst r', p.snd)) (applySend s (.secret d))
      rw [applySend_secret s hE, applySend_secret _ hE']
      exact hl.1 r'
    · intro s1 b h
      have h' : applySend s (.secret d) = .ok (s1, b) := h
      rw [applySend_secret s hE] at h'
      exact hl.2 s1 b h'

/-! ### receive side -/

theorem feedRecv_swap (s : Stream) (hE : Established (shared s)) (a' : SendSide) (b : Bytes) :
    (swapSend s a').feedRecv b = swapSend (s.feedRecv b) a' ∧ sendSide (s.feedRecv b) = sendSide s ∧
    shared (s.feedRecv b) = shared s := by
  obtain ⟨key, enc, auth, encIV, decIV, encCtr, decCtr, fsa, fra, ⟨sf, rf, sw, rw, fS, fR⟩, sb, se, rb, br, tm, im, bs, pa⟩ := s
  obtain ⟨h1, h2, h3, h4⟩ := hE
  simp only [shared] at h1 h2 h3 h4
  obtain ⟨x, rfl⟩ := Option.isSome_iff_exists.mp h1
  obtain ⟨y, rfl⟩ := Option.isSome_iff_exists.mp h2
  exact ⟨rfl, rfl, rfl⟩

theorem afterOpen_swap (s : Stream) (hE : Established (shared s)) (a' : SendSide) (iv : IV) :
    (swapSend s a').afterOpen iv = swapSend (s.afterOpen iv) a' ∧ sendSide (s.afterOpen iv) = sendSide s ∧
    shared (s.afterOpen iv) = shared s := by
  obtain ⟨key, enc, auth, encIV, decIV, encCtr, decCtr, fsa, fra, ⟨sf, rf, sw, rw, fS, fR⟩, sb, se, rb, br, tm, im, bs, pa⟩ := s
  obtain ⟨h1, h2, h3, h4⟩ := hE
  simp only [shared] at h1 h2 h3 h4
  obtain ⟨x, rfl⟩ := Option.isSome_iff_exists.mp h1
  obtain ⟨y, rfl⟩ := Option.isSome_iff_exists.mp h2
  cases fra <;> exact ⟨rfl, rfl, rfl⟩

theorem recvFrameWithEnd_local (s : Stream) (hE : Established (shared s)) (f : WireFrame) :
    RecvLocal (fun s => s.recvFrameWithEnd f) s := by
  have hk : ∀ a', (swapSend s a').key = s.key := fun _ => rfl
  have he : ∀ a', (swapSend s a').encrypted = s.encrypted := fun _ => rfl
  have hc : ∀ a', (swapSend s a').crypting = s.crypting := fun _ => rfl
  constructor
  · intro a'
    simp only [Stream.recvFrameWithEnd, hk, he, hc]
    cases checkHdr f with
    | error e => rfl
    | ok u =>
      simp only
      by_cases h0 : f.len = 0
      · simp only [h0, if_true]
        cases s.crypting with
        | true => rfl
        | false => simp only [Bool.false_eq_true, if_false, (feedRecv_swap s hE a' _).1, mapOk_ok]
      · simp only [h0, if_false]
        cases hkey : s.key with
        | none =>
          simp only
          cases f.body with
          | raw b => simp only [(feedRecv_swap s hE a' _).1, mapOk_ok]
          | ct iv c => rfl
        | some k =>
          cases henc : s.encrypted with
          | false =>
            simp only
            cases f.body with
            | raw b => simp only [(feedRecv_swap s hE a' _).1, mapOk_ok]
            | ct iv c => rfl
          | true =>
            simp only [openBody_swap s hE a' k f]
            cases s.openBody k f with
            | error e => rfl
            | ok p =>
              obtain ⟨iv, pl⟩ := p
              have hE1 : Established (shared (s.afterOpen iv)) := established_of_shared_eq (afterOpen_swap s hE a' iv).2.2 hE
              simp only [(afterOpen_swap s hE a' iv).1, (feedRecv_swap (s.afterOpen iv) hE1 a' _).1, mapOk_ok]
  · intro s1 b
    simp only [Stream.recvFrameWithEnd]
    cases checkHdr f with
    | error e => intro h; cases h
    | ok u =>
      simp only
      by_cases h0 : f.len = 0
      · simp only [h0, if_true]
        cases s.crypting with
        | true => intro h; cases h
        | false =>
          simp only [Bool.false_eq_true, if_false]
          intro h; cases h
          exact (feedRecv_swap s hE (sendSide s) _).2
      · simp only [h0, if_false]
        have hraw : ∀ bb : Bytes, sendSide (s.feedRecv bb) = sendSide s ∧ shared (s.feedRecv bb) = shared s :=
          fun bb => (feedRecv_swap s hE (sendSide s) bb).2
        cases hkey : s.key with
        | none =>
          simp only
          cases f.body with
          | raw bb => simp only; intro h; cases h; exact hraw _
          | ct iv c => simp only; intro h; cases h
        | some k =>
          cases henc : s.encrypted with
          | false =>
            simp only
            cases f.body with
            | raw bb => simp only; intro h; cases h; exact hraw _
            | ct iv c => simp only; intro h; cases h
          | true =>
            simp only
            cases s.openBody k f with
            | error e => simp only; intro h; cases h
            | ok p =>
              obtain ⟨iv, pl⟩ := p
              simp only
              have h1 := (afterOpen_swap s hE (sendSide s) iv).2
              have hE1 : Established (shared (s.afterOpen iv)) := established_of_shared_eq h1.2 hE
              have h2 := fun bb => (feedRecv_swap (s.afterOpen iv) hE1 (sendSide s) bb).2
              intro h; cases h
              exact ⟨(h2 _).1.trans h1.1, (h2 _).2.trans h1.2⟩

theorem recvFrame_local (s : Stream) (hE : Established (shared s)) (f : WireFrame) :
    RecvLocal (fun s => s.recvFrame f) s := by
  have hk : ∀ a', (swapSend s a').key = s.key := fun _ => rfl
  have he : ∀ a', (swapSend s a').encrypted = s.encrypted := fun _ => rfl
  have hc : ∀ a', (swapSend s a').crypting = s.crypting := fun _ => rfl
  constructor
  · intro a'
    simp only [Stream.recvFrame, hk, he, hc]
    cases checkHdr f with
    | error e => rfl
    | ok u =>
      simp only
      by_cases h0 : f.len = 0
      · simp only [h0, if_true]
        cases s.crypting with
        | true => rfl
        | false => rfl
      · simp only [h0, if_false]
        cases hkey : s.key with
        | none =>
          simp only
          cases f.body with
          | raw b => simp only [(feedRecv_swap s hE a' _).1, mapOk_ok]
          | ct iv c => rfl
        | some k =>
          cases henc : s.encrypted with
          | false =>
            simp only
            cases f.body with
            | raw b => simp only [(feedRecv_swap s hE a' _).1, mapOk_ok]
            | ct iv c => rfl
          | true =>
            simp only [openBody_swap s hE a' k f]
            cases s.openBody k f with
            | error e => rfl
            | ok p =>
              obtain ⟨iv, pl⟩ := p
              have hE1 : Established (shared (s.afterOpen iv)) := established_of_shared_eq (afterOpen_swap s hE a' iv).2.2 hE
              simp only [(afterOpen_swap s hE a' iv).1, (feedRecv_swap (s.afterOpen iv) hE1 a' _).1, mapOk_ok]
  · intro s1 b
    simp only [Stream.recvFrame]
    cases checkHdr f with
    | error e => intro h; cases h
    | ok u =>
      simp only
      by_cases h0 : f.len = 0
      · simp only [h0, if_true]
        cases s.crypting with
        | true => intro h; cases h
        | false =>
          simp only [Bool.false_eq_true, if_false]
          intro h; cases h
          exact ⟨rfl, rfl⟩
      · simp only [h0, if_false]
        have hraw : ∀ bb : Bytes, sendSide (s.feedRecv bb) = sendSide s ∧ shared (s.feedRecv bb) = shared s :=
          fun bb => (feedRecv_swap s hE (sendSide s) bb).2
        cases hkey : s.key with
        | none =>
          simp only
          cases f.body with
          | raw bb => simp only; intro h; cases h; exact hraw _
          | ct iv c => simp only; intro h; cases h
        | some k =>
          cases henc : s.encrypted with
          | false =>
            simp only
            cases f.body with
            | raw bb => simp only; intro h; cases h; exact hraw _
            | ct iv c => simp only; intro h; cases h
          | true =>
            simp only
            cases s.openBody k f with
            | error e => simp only; intro h; cases h
            | ok p =>
              obtain ⟨iv, pl⟩ := p
              simp only
              have h1 := (afterOpen_swap s hE (sendSide s) iv).2
              have hE1 : Established (shared (s.afterOpen iv)) := established_of_shared_eq h1.2 hE
              have h2 := fun bb => (feedRecv_swap (s.afterOpen iv) hE1 (sendSide s) bb).2
              intro h; cases h
              exact ⟨(h2 _).1.trans h1.1, (h2 _).2.trans h1.2⟩

theorem RecvLocal.pre {β : Type} {upd : Stream → Stream} (hu : RecvUpd upd) {F : Stream → Except Err (Stream × β)} {s : Stream}
    (hF : RecvLocal F (upd s)) : RecvLocal (fun t => F (upd t)) s := by
  constructor
  · intro a'
    simp only [hu.comm]
    exact hF.1 a'
  · intro s1 b h
    have := hF.2 s1 b h
    exact ⟨this.1.trans (hu.snd s), this.2.trans (hu.shr s)⟩

theorem recvCompleteAux_local : ∀ (w : List WireFrame) (s : Stream) (acc : Bytes), Established (shared s) →
    RecvLocal (fun s => s.recvCompleteAux acc w) s
  | [], s, acc, _ => RecvLocal.error (β := Bytes × List WireFrame) .eof s
  | f :: w, s, acc, hE => by
    have hf := recvFrameWithEnd_local s hE f
    have e : (fun s : Stream => s.recvCompleteAux acc (f :: w)) = fun s =>
        bindE (s.recvFrameWithEnd f) (fun s1 (p : Bytes × Nat) =>
          if p.2 = 1 then .ok (id s1, acc ++ p.1, w)
          else if p.2 = 0 then s1.recvCompleteAux (acc ++ p.1) w else .error .badFlag) := by
      funext s
      simp only [Stream.recvCompleteAux, bindE, id]
      cases s.recvFrameWithEnd f with
      | error e => rfl
      | ok p => obtain ⟨s1, d, flag⟩ := p; rfl
    rw [e]
    apply RecvLocal.bind hE hf
    intro p s1 hE1
    obtain ⟨d, flag⟩ := p
    by_cases h1 : flag = 1
    · simp only [h1, if_true]
      exact RecvLocal.pure idRecvUpd _ s1
    · by_cases h0 : flag = 0
      · simp only [h0, Nat.zero_ne_one, if_false, if_true]
        exact recvCompleteAux_local w s1 (acc ++ d) hE1
      · simp only [h1, h0, if_false]
        exact RecvLocal.error _ s1

theorem readNextFrame_local : ∀ (w : List WireFrame) (s : Stream), Established (shared s) →
    RecvLocal (fun s => s.readNextFrame w) s
  | [], s, _ => RecvLocal.error (β := List WireFrame) .eof s
  | f :: w, s, hE => by
    have hf := recvFrameWithEnd_local s hE f
    have e : (fun s : Stream => s.readNextFrame (f :: w)) = fun s =>
        bindE (s.recvFrameWithEnd f) (fun s1 (p : Bytes × Nat) =>
          (fun s2 : Stream => if p.2 = 0 then s2.readNextFrame w else .ok (id s2, w))
            { s1 with recvBuf := s1.recvBuf ++ p.1, totalMsg := (s1.recvBuf ++ p.1).length }) := by
      funext s
      simp only [Stream.readNextFrame, bindE, id]
      cases s.recvFrameWithEnd f with
      | error e => rfl
      | ok p => obtain ⟨s1, d, flag⟩ := p; rfl
    rw [e]
    apply RecvLocal.bind hE hf
    intro p s1 hE1
    obtain ⟨d, flag⟩ := p
    apply RecvLocal.pre (upd := fun s1 => { s1 with recvBuf := s1.recvBuf ++ d, totalMsg := (s1.recvBuf ++ d).length })
      (F := fun s2 : Stream => if flag = 0 then s2.readNextFrame w else .ok (id s2, w))
      ⟨fun _ _ => rfl, fun _ => rfl, fun _ => rfl⟩
    by_cases h0 : flag = 0
    · simp only [h0, if_true]
      exact readNextFrame_local w _ hE1
    · simp only [h0, if_false]
      exact RecvLocal.pure idRecvUpd _ _

theorem applyRecv_local (s : Stream) (hE : Established (shared s)) (w : List WireFrame) (op : RecvOp) :
    RecvLocal (fun s => applyRecv s w op) s := by
  cases op with
  | frameEnd =>
    cases w with
    | nil => exact RecvLocal.error _ s
    | cons f w1 =>
      have e : (fun s : Stream => applyRecv s (f :: w1) .frameEnd) = fun s =>
          bindE (s.recvFrameWithEnd f) (fun s1 (p : Bytes × Nat) => .ok (id s1, p.1, w1)) := by
        funext s
        simp only [applyRecv, bindE, id]
        cases s.recvFrameWithEnd f with
        | error e => rfl
        | ok p => obtain ⟨s1, d, flag⟩ := p; rfl
      rw [e]
      apply RecvLocal.bind hE (recvFrameWithEnd_local s hE f)
      intro p s1 _
      exact RecvLocal.pure idRecvUpd _ s1
  | frame =>
    cases w with
    | nil => exact RecvLocal.error _ s
    | cons f w1 =>
      have e : (fun s : Stream => applyRecv s (f :: w1) .frame) = fun s =>
          bindE (s.recvFrame f) (fun s1 (d : Bytes) => .ok (id s1, d, w1)) := by
        funext s
        simp only [applyRecv, bindE, id]
        cases s.recvFrame f with
        | error e => rfl
        | ok p => obtain ⟨s1, d⟩ := p; rfl
      rw [e]
      apply RecvLocal.bind hE (recvFrame_local s hE f)
      intro p s1 _
      exact RecvLocal.pure idRecvUpd _ s1
  | complete => exact recvCompleteAux_local w s [] hE
  | startRead =>
    have e : (fun s : Stream => applyRecv s w .startRead) = fun s =>
        if s.inMessage then .error .state else
          bindE (s.readNextFrame w) (fun s1 (w1 : List WireFrame) =>
            .ok ((fun s1 : Stream => { s1 with inMessage := true, bytesRead := 0 }) s1, ([] : Bytes), w1)) := by
      funext s
      simp only [applyRecv, Stream.startMessageRead, bindE]
      cases s.inMessage with
      | true => rfl
      | false =>
        simp only [Bool.false_eq_true, if_false]
        cases s.readNextFrame w with
        | error e => rfl
        | ok p => obtain ⟨s1, w1⟩ := p; rfl
    rw [e]
    apply RecvLocal.ite (c := fun s => s.inMessage) (fun _ _ => rfl)
    · intro _; exact RecvLocal.error _ s
    · intro _
      apply RecvLocal.bind hE (readNextFrame_local w s hE)
      intro w1 s1 _
      exact RecvLocal.pure (upd := fun s1 : Stream => { s1 with inMessage := true, bytesRead := 0 })
        ⟨fun _ _ => rfl, fun _ => rfl, fun _ => rfl⟩ _ s1
  | readBytes n =>
    have e : (fun s : Stream => applyRecv s w (.readBytes n)) = fun s =>
        if !s.inMessage then .error .state else
          if decide (s.recvBuf.length - s.bytesRead = 0) then .error .eom else
            .ok ((fun s : Stream => { s with bytesRead := s.bytesRead + min n (s.recvBuf.length - s.bytesRead) }) s,
                 (s.recvBuf.drop s.bytesRead).take (min n (s.recvBuf.length - s.bytesRead)), w) := by
      funext s
      simp only [applyRecv, Stream.readMessageBytes]
      cases s.inMessage with
      | false => rfl
      | true =>
        simp only [Bool.not_true, Bool.false_eq_true, if_false, decide_eq_true_eq]
        by_cases hc : s.recvBuf.length - s.bytesRead = 0 <;> simp [hc]
    rw [e]
    apply RecvLocal.ite (c := fun s => !s.inMessage) (fun _ _ => rfl)
    · intro _; exact RecvLocal.error _ s
    · intro _
      apply RecvLocal.ite (c := fun s => decide (s.recvBuf.length - s.bytesRead = 0)) (fun _ _ => rfl)
      · intro _; exact RecvLocal.error _ s
      · intro _
        constructor
        · intro a'; rfl
        · intro s1 b h; cases h; exact ⟨rfl, rfl⟩
  | endRead =>
    have e : (fun s : Stream => applyRecv s w .endRead) = fun s =>
        if !s.inMessage then .error .state else
          if decide (s.bytesRead < s.totalMsg) then .error .notConsumed else
            .ok ((fun s : Stream => { s with inMessage := false, recvBuf := [], bytesRead := 0, totalMsg := 0 }) s, ([] : Bytes), w) := by
      funext s
      simp only [applyRecv, Stream.endMessageRead]
      cases s.inMessage with
      | false => rfl
      | true =>
        simp only [Bool.not_true, Bool.false_eq_true, if_false, decide_eq_true_eq]
        by_cases hc : s.bytesRead < s.totalMsg <;> simp [hc]
    rw [e]
    apply RecvLocal.ite (c := fun s => !s.inMessage) (fun _ _ => rfl)
    · intro _; exact RecvLocal.error _ s
    · intro _
      apply RecvLocal.ite (c := fun s => decide (s.bytesRead < s.totalMsg)) (fun _ _ => rfl)
      · intro _; exact RecvLocal.error _ s
      · intro _
        exact RecvLocal.pure (upd := fun s : Stream => { s with inMessage := false, recvBuf := [], bytesRead := 0, totalMsg := 0 })
          ⟨fun _ _ => rfl, fun _ => rfl, fun _ => rfl⟩ _ s
  | secret =>
    cases w with
    | nil => exact RecvLocal.error _ s
    | cons f w1 =>
      have hf := recvFrame_local s hE f
      have key : ∀ t : Stream, Established (shared t) → (∀ s1 d, t.recvFrame f = .ok (s1, d) → shared s1 = shared t) →
          applyRecv t (f :: w1) .secret = bindE (t.recvFrame f) (fun s1 (d : Bytes) => .ok (id s1, stripNul d, w1)) := by
        intro t hEt hsh
        simp only [applyRecv, prepareSecret_id t hEt, bindE, id]
        cases hs : t.recvFrame f with
        | error e => rfl
        | ok p =>
          obtain ⟨s1, d⟩ := p
          have hE1 := established_of_shared_eq (hsh s1 d hs) hEt
          simp only [restoreSecret_id s1 hE1]
      have hl : RecvLocal (fun t : Stream => bindE (t.recvFrame f) (fun s1 (d : Bytes) => .ok (id s1, stripNul d, w1))) s := by
        apply RecvLocal.bind hE hf
        intro p s1 _
        exact RecvLocal.pure idRecvUpd _ s1
      constructor
      · intro a'
        have hE' : Established (shared (swapSend s a')) := hE
        have hf' := recvFrame_local (swapSend s a') hE' f
        show applyRecv (swapSend s a') (f :: w1) .secret = mapOk _ (applyRecv s (f :: w1) .secret)
        rw [key s hE (fun s1 d h => (hf.2 s1 d h).2), key _ hE' (fun s1 d h => (hf'.2 s1 d h).2)]
        exact hl.1 a'
      · intro s1 b h
        have h' : applyRecv s (f :: w1) .secret = .ok (s1, b) := h
        rw [key s hE (fun s1 d h => (hf.2 s1 d h).2)] at h'
        exact hl.2 s1 b h'

/-! ### interleavings -/

theorem sender_view : ∀ (ops : List (Sum SendOp RecvOp)) (W Ws : World), Established (shared W.s) →
    sendSide W.s = sendSide Ws.s → shared W.s = shared Ws.s → W.sendDead = Ws.sendDead →
    (runWorld W ops).2.filter Obs.isSent = (runWorld Ws (sendsOf ops)).2
  | [], _, _, _, _, _, _ => rfl
  | .inl op :: t, ⟨ws, ww, wsd, wrd⟩, ⟨vs, vw, vsd, vrd⟩, hE, h1, h2, h3 => by
    simp only at hE h1 h2 h3
    subst h3
    simp only [runWorld, sendsOf, stepWorld]
    cases wsd with
    | true =>
      simp only [if_true]
      exact sender_view t ⟨ws, ww, true, wrd⟩ ⟨vs, vw, true, vrd⟩ hE h1 h2 rfl
    | false =>
      simp only [Bool.false_eq_true, if_false]
      have hEs : Established (shared vs) := h2 ▸ hE
      have hl := applySend_local vs hEs op
      have hW : ws = swapRecv vs (recvSide ws) := eq_swapRecv h1 h2
      have e1 : applySend ws op = mapOk (fun p => (swapRecv p.1 (recvSide ws), p.2)) (applySend vs op) := by
        rw [hW]; exact hl.1 _
      rw [e1]
      cases hs : applySend vs op with
      | error e =>
        simp only [mapOk_error, List.filter_cons, Obs.isSent, if_true]
        congr 1
        exact sender_view t ⟨ws, ww, true, wrd⟩ ⟨vs, vw, true, vrd⟩ hE h1 h2 rfl
      | ok p =>
        obtain ⟨s1, fs⟩ := p
        have hs1 := hl.2 s1 fs hs
        simp only [mapOk_ok, List.filter_cons, Obs.isSent, if_true]
        congr 1
        exact sender_view t ⟨swapRecv s1 (recvSide ws), ww, false, wrd⟩ ⟨s1, vw, false, vrd⟩
          (established_of_shared_eq (by simp [swapRecv, hs1.2]) hEs) rfl rfl rfl
  | .inr op :: t, ⟨ws, ww, wsd, wrd⟩, Ws, hE, h1, h2, h3 => by
    simp only at hE h1 h2 h3
    simp only [runWorld, sendsOf, stepWorld]
    cases wrd with
    | true =>
      simp only [if_true]
      exact sender_view t ⟨ws, ww, wsd, true⟩ Ws hE h1 h2 h3
    | false =>
      simp only [Bool.false_eq_true, if_false]
      have hl := applyRecv_local ws hE ww op
      cases hs : applyRecv ws ww op with
      | error e =>
        simp only [List.filter_cons, Obs.isSent, Bool.false_eq_true, if_false]
        exact sender_view t ⟨ws, ww, wsd, true⟩ Ws hE h1 h2 h3
      | ok p =>
        obtain ⟨s1, d, w1⟩ := p
        have hs1 := hl.2 s1 (d, w1) hs
        simp only [List.filter_cons, Obs.isSent, Bool.false_eq_true, if_false]
        exact sender_view t ⟨s1, w1, wsd, false⟩ Ws (established_of_shared_eq hs1.2 hE)
          (hs1.1.trans h1) (hs1.2.trans h2) h3

theorem receiver_view : ∀ (ops : List (Sum SendOp RecvOp)) (W Wr : World), Established (shared W.s) →
    recvSide W.s = recvSide Wr.s → shared W.s = shared Wr.s → W.recvDead = Wr.recvDead → W.wire = Wr.wire →
    (runWorld W ops).2.filter (fun o => !o.isSent) = (runWorld Wr (recvsOf ops)).2
  | [], _, _, _, _, _, _, _ => rfl
  | .inr op :: t, ⟨ws, ww, wsd, wrd⟩, ⟨vs, vw, vsd, vrd⟩, hE, h1, h2, h3, h4 => by
    simp only at hE h1 h2 h3 h4
    subst h3; subst h4
    simp only [runWorld, recvsOf, stepWorld]
    cases wrd with
    | true =>
      simp only [if_true]
      exact receiver_view t ⟨ws, ww, wsd, true⟩ ⟨vs, ww, vsd, true⟩ hE h1 h2 rfl rfl
    | false =>
      simp only [Bool.false_eq_true, if_false]
      have hEr : Established (shared vs) := h2 ▸ hE
      have hl := applyRecv_local vs hEr ww op
      have hW : ws = swapSend vs (sendSide ws) := eq_swapSend h1 h2
      have e1 : applyRecv ws ww op = mapOk (fun p => (swapSend p.1 (sendSide ws), p.2)) (applyRecv vs ww op) := by
        rw [hW]; exact hl.1 _
      rw [e1]
      cases hs : applyRecv vs ww op with
      | error e =>
        simp only [mapOk_error, List.filter_cons, Obs.isSent, Bool.not_false, if_true]
        congr 1
        exact receiver_view t ⟨ws, ww, wsd, true⟩ ⟨vs, ww, vsd, true⟩ hE h1 h2 rfl rfl
      | ok p =>
        obtain ⟨s1, d, w1⟩ := p
        have hs1 := hl.2 s1 (d, w1) hs
        simp only [mapOk_ok, List.filter_cons, Obs.isSent, Bool.not_false, if_true]
        congr 1
        exact receiver_view t ⟨swapSend s1 (sendSide ws), w1, wsd, false⟩ ⟨s1, w1, vsd, false⟩
          (established_of_shared_eq (by simp [swapSend, hs1.2]) hEr) rfl rfl rfl rfl
  | .inl op :: t, ⟨ws, ww, wsd, wrd⟩, Wr, hE, h1, h2, h3, h4 => by
    simp only at hE h1 h2 h3 h4
    simp only [runWorld, recvsOf, stepWorld]
    cases wsd with
    | true =>
      simp only [if_true]
      exact receiver_view t ⟨ws, ww, true, wrd⟩ Wr hE h1 h2 h3 h4
    | false =>
      simp only [Bool.false_eq_true, if_false]
      have hl := applySend_local ws hE op
      cases hs : applySend ws op with
      | error e =>
        simp only [List.filter_cons, Obs.isSent, Bool.not_true, Bool.false_eq_true, if_false]
        exact receiver_view t ⟨ws, ww, true, wrd⟩ Wr hE h1 h2 h3 h4
      | ok p =>
        obtain ⟨s1, fs⟩ := p
        have hs1 := hl.2 s1 fs hs
        simp only [List.filter_cons, Obs.isSent, Bool.not_true, Bool.false_eq_true, if_false]
        exact receiver_view t ⟨s1, ww, false, wrd⟩ Wr (established_of_shared_eq hs1.2 hE)
          (hs1.1.trans h1) (hs1.2.trans h2) h3 h4

/-- every operation keeps an established stream established -/
theorem established_preserved (ops : List (Sum SendOp RecvOp)) (W : World) (hE : Established (shared W.s)) :
    Established (shared (runWorld W ops).1.s) := by
  induction ops generalizing W with
  | nil => exact hE
  | cons o t ih =>
    simp only [runWorld]
    apply ih
    cases o with
    | inl op =>
      simp only [stepWorld]
      cases W.sendDead with
      | true => exact hE
      | false =>
        simp only [Bool.false_eq_true, if_false]
        cases hs : applySend W.s op with
        | error e => exact hE
        | ok p => obtain ⟨s1, fs⟩ := p; exact established_of_shared_eq ((applySend_local W.s hE op).2 s1 fs hs).2 hE
    | inr op =>
      simp only [stepWorld]
      cases W.recvDead with
      | true => exact hE
      | false =>
        simp only [Bool.false_eq_true, if_false]
        cases hs : applyRecv W.s W.wire op with
        | error e => exact hE
        | ok p => obtain ⟨s1, d, w1⟩ := p; exact established_of_shared_eq ((applyRecv_local W.s hE W.wire op).2 s1 (d, w1) hs).2 hE

end Cedar.Lockset.Dir
