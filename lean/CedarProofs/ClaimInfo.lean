/-
  Helper lemmas for C16: the session_info text. `importAttrs (render kvs)` recovers the rendered
  (name, value) pairs; decimal integers round-trip through `fmtInt` / `parseInt64`.
-/
import CedarProofs.ClaimId

namespace Cedar.Claim
open Cedar

/-! ## trimming -/

theorem dropWhile_id {p : UInt8 → Bool} : ∀ {s : Bytes}, (∀ b, s.head? = some b → p b = false) → s.dropWhile p = s
  | [], _ => rfl
  | b :: t, h => by simp [List.dropWhile, h b rfl]

theorem trimSpace_id {s : Bytes} (h1 : ∀ b, s.head? = some b → isSpace b = false)
    (h2 : ∀ b, s.getLast? = some b → isSpace b = false) : trimSpace s = s := by
  unfold trimSpace trimLeftBy trimRightBy
  rw [dropWhile_id h1, dropWhile_id (by simpa [List.head?_reverse] using h2), List.reverse_reverse]

theorem trimRightBy_id {p : UInt8 → Bool} {s : Bytes} (h2 : ∀ b, s.getLast? = some b → p b = false) :
    trimRightBy p s = s := by
  unfold trimRightBy
  rw [dropWhile_id (by simpa [List.head?_reverse] using h2), List.reverse_reverse]

theorem trimSpace_nil : trimSpace [] = [] := rfl

/-! ## one rendered item -/

/-- a rendered value: no ';', does not begin or end with white space, not empty -/
structure CleanVal (r : Bytes) : Prop where
  nosemi : 59 ∉ r
  ne : r ≠ []
  first : ∀ b, r.head? = some b → isSpace b = false
  last : ∀ b, r.getLast? = some b → isSpace b = false

/-- an attribute name: no ';', no '=', not empty, no white space at the ends -/
structure CleanName (n : Bytes) : Prop where
  nosemi : 59 ∉ n
  noeq : 61 ∉ n
  ne : n ≠ []
  first : ∀ b, n.head? = some b → isSpace b = false
  last : ∀ b, n.getLast? = some b → isSpace b = false

/-- the value `unquote` yields when it does not panic -/
def unq (r : Bytes) : Bytes :=
  match unquote r with
  | .ok u => u
  | .error _ => []

theorem getLast?_append_cons_ne (n : Bytes) (c : UInt8) {r : Bytes} (h : r ≠ []) :
    (n ++ c :: r).getLast? = r.getLast? := by
  cases r with
  | nil => exact absurd rfl h
  | cons x t =>
    rw [List.getLast?_append]
    cases hz : (c :: x :: t).getLast? with
    | none => simp at hz
    | some z => simpa [List.getLast?_cons_cons, eq_comm] using hz

theorem importItem_rendered {n r : Bytes} (acc : List (Bytes × Bytes)) (hn : CleanName n) (hr : CleanVal r)
    (hq : r ≠ [34]) : importItem acc (n ++ 61 :: r) = .ok ((n, unq r) :: acc) := by
  have hne : n ++ 61 :: r ≠ [] := by simp
  have hlast : ∀ b, (n ++ 61 :: r).getLast? = some b → isSpace b = false := by
    intro b hb
    exact hr.last b (getLast?_append_cons_ne n 61 hr.ne ▸ hb)
  have hu : unquote r = .ok (unq r) := by
    unfold unq
    cases hu : unquote r with
    | ok u => rfl
    | error e =>
      exfalso
      unfold unquote at hu
      split at hu
      · split at hu
        · rename_i x hx
          exact hq (by simpa using hx.1)
        · cases hu
      · cases hu
  cases n with
  | nil => exact absurd rfl hn.ne
  | cons a t =>
    have hfirst : ∀ b, ((a :: t) ++ 61 :: r).head? = some b → isSpace b = false := by
      intro b hb
      exact hn.first b (by simpa using hb)
    unfold importItem
    simp only [trimSpace_id hfirst hlast, hne, if_false, splitFirst_append r hn.noeq,
      trimSpace_id hr.first hr.last, trimSpace_id hn.first hn.last, hu]

/-! ## the whole text -/

/-- every pair of a field list is a clean name with a clean value that is not a lone quote -/
def CleanFields (kvs : List (Bytes × Bytes)) : Prop :=
  ∀ kv ∈ kvs, CleanName kv.1 ∧ CleanVal kv.2 ∧ kv.2 ≠ [34]

def itemOf (kv : Bytes × Bytes) : Bytes := kv.1 ++ 61 :: kv.2

theorem splitOn_renderItems : ∀ (kvs : List (Bytes × Bytes)), CleanFields kvs →
    splitOn 59 (renderItems kvs) = kvs.map itemOf ++ [[]]
  | [], _ => rfl
  | kv :: rest, h => by
    have hkv := h kv (by simp)
    have hrest : CleanFields rest := fun x hx => h x (by simp [hx])
    have hns : (59 : UInt8) ∉ kv.1 ++ 61 :: kv.2 := by
      simp only [List.mem_append, List.mem_cons, not_or]
      exact ⟨hkv.1.nosemi, by decide, hkv.2.1.nosemi⟩
    have e : renderItems (kv :: rest) = (kv.1 ++ 61 :: kv.2) ++ 59 :: renderItems rest := by
      simp [renderItems, renderItem]
    rw [e, splitOn_append _ hns, splitOn_renderItems rest hrest]
    simp [itemOf]

theorem importItems_rendered : ∀ (kvs : List (Bytes × Bytes)) (acc : List (Bytes × Bytes)), CleanFields kvs →
    importItems acc (kvs.map itemOf ++ [[]]) = .ok ((kvs.map (fun kv => (kv.1, unq kv.2))).reverse ++ acc)
  | [], acc, _ => by simp [importItems, importItem, trimSpace_nil]
  | kv :: rest, acc, h => by
    have hkv := h kv (by simp)
    have hrest : CleanFields rest := fun x hx => h x (by simp [hx])
    simp only [List.map_cons, List.cons_append, importItems, itemOf,
      importItem_rendered acc hkv.1 hkv.2.1 hkv.2.2]
    rw [importItems_rendered rest ((kv.1, unq kv.2) :: acc) hrest]
    simp

theorem trimSuffix1_concat (x : Bytes) (c : UInt8) : trimSuffix1 c (x ++ [c]) = x := by
  simp [trimSuffix1]

/-- **parse ∘ render**: the attribute map read back from a rendered field list (newest first) -/
theorem importAttrs_render (kvs : List (Bytes × Bytes)) (h : CleanFields kvs) :
    importAttrs (render kvs) = .ok ((kvs.map (fun kv => (kv.1, unq kv.2))).reverse) := by
  unfold importAttrs render
  have e : trimPrefix1 91 (91 :: (renderItems kvs ++ [93])) = renderItems kvs ++ [93] := by simp [trimPrefix1]
  simp only [List.cons_ne_nil, if_false, e, trimSuffix1_concat]
  rw [splitOn_renderItems kvs h, importItems_rendered kvs [] h]
  simp

theorem render_brackets (kvs : List (Bytes × Bytes)) :
    (render kvs).head? = some 91 ∧ (render kvs).getLast? = some 93 := by
  unfold render
  refine ⟨rfl, ?_⟩
  rw [← List.cons_append, List.getLast?_concat]

/-! ## decimal integers -/

theorem isDigit_ofNat (d : Nat) (h : d < 10) : isDigit (UInt8.ofNat (48 + d)) = true ∧ (UInt8.ofNat (48 + d)).toNat - 48 = d := by
  have : (UInt8.ofNat (48 + d)).toNat = 48 + d := by
    simp only [UInt8.toNat_ofNat']
    omega
  simp only [isDigit, this]
  constructor
  · simp; omega
  · omega

theorem decValRev_revDigitsAux : ∀ (fuel n : Nat), n ≤ fuel → decValRev (revDigitsAux fuel n) = some n
  | 0, n, h => by
    have : n = 0 := by omega
    subst this
    simp [revDigitsAux, decValRev]
    decide
  | fuel + 1, n, h => by
    unfold revDigitsAux
    by_cases h10 : n < 10
    · simp only [h10, if_true, decValRev, (isDigit_ofNat n h10).1, (isDigit_ofNat n h10).2]
      simp
    · have hd := isDigit_ofNat (n % 10) (Nat.mod_lt _ (by omega))
      simp only [h10, if_false, decValRev, hd.1, hd.2, if_true]
      rw [decValRev_revDigitsAux fuel (n / 10) (by omega)]
      simp only [Option.some.injEq]
      omega

theorem decValRev_revDigits (n : Nat) : decValRev (revDigits n) = some n :=
  decValRev_revDigitsAux n n (Nat.le_refl n)

theorem revDigitsAux_ne_nil (fuel n : Nat) : revDigitsAux fuel n ≠ [] := by
  cases fuel with
  | zero => simp [revDigitsAux]
  | succ f =>
    unfold revDigitsAux
    by_cases h10 : n < 10 <;> simp [h10]

/-- every byte of a rendered natural number is a decimal digit -/
theorem revDigitsAux_digits : ∀ (fuel n : Nat) (b : UInt8), b ∈ revDigitsAux fuel n → isDigit b = true
  | 0, n, b, h => by
    simp only [revDigitsAux, List.mem_cons, List.mem_nil_iff, or_false] at h
    subst h
    exact (isDigit_ofNat (n % 10) (Nat.mod_lt _ (by omega))).1
  | fuel + 1, n, b, h => by
    unfold revDigitsAux at h
    by_cases h10 : n < 10
    · simp only [h10, if_true, List.mem_cons, List.mem_nil_iff, or_false] at h
      subst h
      exact (isDigit_ofNat n h10).1
    · simp only [h10, if_false, List.mem_cons] at h
      rcases h with h | h
      · subst h
        exact (isDigit_ofNat (n % 10) (Nat.mod_lt _ (by omega))).1
      · exact revDigitsAux_digits fuel (n / 10) b h

theorem fmtNat_digits (n : Nat) (b : UInt8) (h : b ∈ fmtNat n) : isDigit b = true := by
  unfold fmtNat revDigits at h
  exact revDigitsAux_digits n n b (by simpa using h)

theorem fmtNat_ne_nil (n : Nat) : fmtNat n ≠ [] := by
  unfold fmtNat revDigits
  simpa using revDigitsAux_ne_nil n n

/-- every byte of a rendered integer is a digit or '-' -/
theorem fmtInt_bytes (i : Int) (b : UInt8) (h : b ∈ fmtInt i) : isDigit b = true ∨ b = 45 := by
  unfold fmtInt at h
  by_cases hi : i < 0
  · simp only [hi, if_true, List.mem_cons] at h
    rcases h with h | h
    · exact Or.inr h
    · exact Or.inl (fmtNat_digits _ b h)
  · simp only [hi, if_false] at h
    exact Or.inl (fmtNat_digits _ b h)

theorem fmtInt_ne_nil (i : Int) : fmtInt i ≠ [] := by
  unfold fmtInt
  by_cases hi : i < 0
  · simp [hi]
  · simpa [hi] using fmtNat_ne_nil _

theorem isDigit_props {b : UInt8} (h : isDigit b = true ∨ b = 45) :
    isSpace b = false ∧ b ≠ 59 ∧ b ≠ 34 ∧ b ≠ 35 ∧ b ≠ 43 := by
  rcases h with h | h
  · simp only [isDigit, Bool.and_eq_true, decide_eq_true_eq] at h
    have hb : ∀ k : Nat, k < 48 ∨ (57 < k ∧ k < 256) → b ≠ UInt8.ofNat k := by
      intro k hk e
      subst e
      simp only [UInt8.toNat_ofNat'] at h
      omega
    refine ⟨?_, hb 59 (by omega), hb 34 (by omega), hb 35 (by omega), hb 43 (by omega)⟩
    simp only [isSpace, Bool.or_eq_false_iff, beq_eq_false_iff_ne]
    exact ⟨⟨⟨⟨⟨hb 32 (by omega), hb 9 (by omega)⟩, hb 10 (by omega)⟩, hb 11 (by omega)⟩, hb 12 (by omega)⟩, hb 13 (by omega)⟩
  · subst h
    decide

theorem parseInt64_digitHead (b : UInt8) (t : Bytes) (h : isDigit b = true) :
    parseInt64 (b :: t) = parseMag false (b :: t) := by
  unfold parseInt64
  split
  · rename_i r e
    have : b = 45 := by simpa using (List.cons.inj e).1
    subst this
    exact absurd h (by decide)
  · rename_i r e
    have : b = 43 := by simpa using (List.cons.inj e).1
    subst this
    exact absurd h (by decide)
  · rfl

/-- **decimal round trip**: every int64 survives `FormatInt` / `ParseInt` -/
theorem parseInt64_fmtInt (i : Int) (h1 : -(9223372036854775808 : Int) ≤ i) (h2 : i ≤ 9223372036854775807) :
    parseInt64 (fmtInt i) = some i := by
  unfold fmtInt
  by_cases hi : i < 0
  · simp only [hi, if_true, parseInt64, parseMag, fmtNat_ne_nil, if_false]
    unfold fmtNat
    rw [List.reverse_reverse, decValRev_revDigits]
    simp only [int64Max]
    have : i.natAbs ≤ 9223372036854775807 + 1 := by omega
    simp only [this, if_true, Option.some.injEq]
    omega
  · simp only [hi, if_false]
    have hne := fmtNat_ne_nil i.toNat
    cases hf : fmtNat i.toNat with
    | nil => exact absurd hf hne
    | cons b t =>
      have hd : isDigit b = true := fmtNat_digits i.toNat b (by rw [hf]; simp)
      rw [parseInt64_digitHead b t hd, ← hf]
      unfold parseMag
      simp only [hne, if_false]
      unfold fmtNat
      rw [List.reverse_reverse, decValRev_revDigits]
      simp only [int64Max]
      have : i.toNat ≤ 9223372036854775807 := by omega
      simp only [Bool.false_eq_true, if_false, this, if_true, Option.some.injEq]
      omega

end Cedar.Claim
