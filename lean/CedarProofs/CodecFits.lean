/-
  Helper lemmas for C01 ("the typed-message layer accepts values of any length, splitting them
  across frames itself"): every frame the chunking putters produce — `PutBytes`, `PutString`,
  `PutStringBytes` (both transcriptions), hence `putVal` / `putAll` for any value list — is within
  the per-mode payload bound `maxFramePayload enc`, and so is the buffer left for the next put /
  the end-of-message frame.
-/
import CedarProofs.CodecLarge

namespace Cedar

theorem fits_mk {enc : Bool} {b : Bytes} {fl : List OutFrame}
    (h1 : ∀ f ∈ fl, f.1.length ≤ maxFramePayload enc) (h2 : b.length ≤ maxFramePayload enc) : Fits enc (b, fl) := ⟨h1, h2⟩

/-- the "flush if the buffer holds anything" step -/
theorem fits_flushIf (enc : Bool) (c : Prop) [Decidable c] (buf : Bytes) (hb : buf.length ≤ maxFramePayload enc) :
    Fits enc (if c then (([] : Bytes), [((buf, false) : OutFrame)]) else (buf, [])) := by
  split
  · exact ⟨by simpa using hb, by simp⟩
  · exact ⟨by simp, hb⟩

theorem fits_seqPut {enc : Bool} {r1 : PutRes} {f : Bytes → PutRes} (h1 : Fits enc r1)
    (h2 : ∀ b, b.length ≤ maxFramePayload enc → Fits enc (f b)) : Fits enc (seqPut r1 f) := by
  obtain ⟨a, b⟩ := h2 r1.1 h1.2
  unfold seqPut
  refine ⟨?_, b⟩
  intro x hx
  rcases List.mem_append.mp hx with h | h
  · exact h1.1 x h
  · exact a x h

theorem chunksOf_le (n : Nat) : ∀ (fuel : Nat) (data : Bytes), ∀ ch ∈ chunksOf n fuel data, ch.length ≤ n := by
  intro fuel
  induction fuel with
  | zero => intro data ch h; simp [chunksOf] at h
  | succ fuel ih =>
    intro data ch h
    unfold chunksOf at h
    split at h
    · simp at h
    · simp only [List.mem_cons] at h
      rcases h with rfl | h
      · simp [List.length_take]; omega
      · exact ih _ ch h

/-- the chunk loop of `PutBytes`: every frame it flushes, and the buffer it leaves, is the old buffer
    or one chunk -/
theorem fits_putChunks (enc : Bool) : ∀ (chunks : List Bytes) (buf : Bytes),
    buf.length ≤ maxFramePayload enc → (∀ ch ∈ chunks, ch.length ≤ maxFramePayload enc) →
    Fits enc (putChunks buf chunks) := by
  intro chunks
  induction chunks with
  | nil => intro buf hb _; exact ⟨by simp [putChunks], by simpa [putChunks] using hb⟩
  | cons ch rest ih =>
    intro buf hb hch
    have hc := hch ch (List.mem_cons_self ..)
    have hr : ∀ c ∈ rest, c.length ≤ maxFramePayload enc := fun c h => hch c (List.mem_cons_of_mem _ h)
    unfold putChunks
    by_cases hpos : buf.length > 0
    · simp only [hpos, if_true, List.nil_append]
      obtain ⟨a, b⟩ := ih ch hc hr
      refine ⟨?_, b⟩
      intro x hx
      simp only [List.cons_append, List.nil_append, List.mem_cons] at hx
      rcases hx with rfl | hx
      · exact hb
      · exact a x hx
    · have hnil : buf = [] := List.eq_nil_of_length_eq_zero (by omega)
      subst hnil
      simp only [List.length_nil, Nat.lt_irrefl, if_false, List.nil_append, gt_iff_lt]
      exact ih ch hc hr

/-- **`PutBytes`, any length**: given a buffer within the bound, every frame flushed and the buffer
    left are within the bound -/
theorem fits_putBytes (enc : Bool) (buf data : Bytes) (hb : buf.length ≤ maxFramePayload enc) :
    Fits enc (putBytes enc buf data) := by
  have ht := target_le_max enc
  unfold putBytes
  split
  · exact ⟨by simp, hb⟩
  · split
    · exact fits_putChunks enc _ buf hb (chunksOf_le _ _ _)
    · split
      · refine ⟨by simpa using hb, ?_⟩
        show data.length ≤ _
        omega
      · refine ⟨by simp, ?_⟩
        simp only [List.length_append]; omega

theorem fits_putInt' (enc : Bool) (v : Int) : ∀ b : Bytes, b.length ≤ maxFramePayload enc → Fits enc (putInt b v) :=
  fun b hb => fits_putInt enc b v hb

/-- the short branch of the string putters: [flush], [length prefix], then `data` appended, where
    prefix + data is at most a frame payload and at most what the (possibly flushed) buffer leaves
    below `TargetFrameSize` -/
theorem fits_shortString (enc : Bool) (buf data : Bytes) (n : Int) (hb : buf.length ≤ maxFramePayload enc)
    (hfit : ¬ data.length + (if enc = true then 8 else 0) > maxFramePayload enc) :
    Fits enc
      ((if enc = true then
          seqPut (if buf.length + (data.length + (if enc = true then 8 else 0)) > targetFrameSize
                  then (([] : Bytes), [((buf, false) : OutFrame)]) else (buf, [])) (fun b => putInt b n)
        else (if buf.length + (data.length + (if enc = true then 8 else 0)) > targetFrameSize
              then (([] : Bytes), [((buf, false) : OutFrame)]) else (buf, []))).1 ++ data,
       (if enc = true then
          seqPut (if buf.length + (data.length + (if enc = true then 8 else 0)) > targetFrameSize
                  then (([] : Bytes), [((buf, false) : OutFrame)]) else (buf, [])) (fun b => putInt b n)
        else (if buf.length + (data.length + (if enc = true then 8 else 0)) > targetFrameSize
              then (([] : Bytes), [((buf, false) : OutFrame)]) else (buf, []))).2) := by
  have ht := target_le_max enc
  have htv : targetFrameSize = 16384 := rfl
  cases enc with
  | false =>
    simp only [Bool.false_eq_true, if_false, Nat.add_zero] at hfit ⊢
    split
    · exact ⟨by simpa using hb, by simpa using Nat.le_of_not_gt hfit⟩
    · refine ⟨by simp, ?_⟩
      simp only [List.length_append]; omega
  | true =>
    simp only [if_true] at hfit ⊢
    by_cases hfl : buf.length + (data.length + 8) > targetFrameSize
    · simp only [hfl, if_true, seqPut, putInt, List.length_nil, Nat.zero_add]
      have : ¬ 8 > targetFrameSize := by omega
      simp only [this, if_false, List.nil_append, List.append_nil]
      refine ⟨by simpa using hb, ?_⟩
      simp [be64, beN]; omega
    · simp only [hfl, if_false, seqPut, putInt]
      have : ¬ buf.length + 8 > targetFrameSize := by omega
      simp only [this, if_false, List.append_nil]
      refine ⟨by simp, ?_⟩
      simp [be64, beN]; omega

theorem fits_largeHead (enc : Bool) (buf : Bytes) (n : Int) (hb : buf.length ≤ maxFramePayload enc) :
    Fits enc (if enc = true then
                seqPut (if buf.length > 0 then (([] : Bytes), [((buf, false) : OutFrame)]) else (buf, [])) (fun b => putInt b n)
              else (if buf.length > 0 then (([] : Bytes), [((buf, false) : OutFrame)]) else (buf, []))) := by
  cases enc with
  | false => simpa using fits_flushIf false (buf.length > 0) buf hb
  | true =>
    simp only [if_true]
    exact fits_seqPut (fits_flushIf true (buf.length > 0) buf hb) (fits_putInt' true _)

/-- **`PutString`, any length** -/
theorem fits_putString (enc : Bool) (buf s : Bytes) (hb : buf.length ≤ maxFramePayload enc) :
    Fits enc (putString enc buf s) := by
  unfold putString
  simp only
  by_cases hbig : (truncNul s ++ [0]).length + (if enc = true then 8 else 0) > maxFramePayload enc
  · rw [if_pos hbig]
    exact fits_seqPut (fits_largeHead enc buf _ hb) (fun b hb' => fits_putBytes enc b _ hb')
  · rw [if_neg hbig]
    exact fits_shortString enc buf (truncNul s ++ [0]) _ hb hbig

/-- **`PutStringBytes`, any length** (transcription in CodecLarge.lean) -/
theorem fits_putStringBytesL (enc : Bool) (buf s : Bytes) (hb : buf.length ≤ maxFramePayload enc) :
    Fits enc (putStringBytesL enc buf s) := by
  unfold putStringBytesL
  simp only
  by_cases hbig : (truncNul s).length + 1 + (if enc = true then 8 else 0) > maxFramePayload enc
  · rw [if_pos hbig]
    exact fits_seqPut (fits_seqPut (fits_largeHead enc buf _ hb) (fun b hb' => fits_putBytes enc b _ hb'))
      (fun b hb' => fits_putBytes enc b _ hb')
  · rw [if_neg hbig]
    have hfit' : ¬ (truncNul s ++ [0]).length + (if enc = true then 8 else 0) > maxFramePayload enc := by
      simpa using hbig
    have := fits_shortString enc buf (truncNul s ++ [0]) ((truncNul s).length + 1 : Nat) hb hfit'
    simpa [List.append_assoc] using this

/-- **`PutStringBytes`, any length** (transcription in Codec.lean) -/
theorem fits_putStringBytes (enc : Bool) (buf s : Bytes) (hb : buf.length ≤ maxFramePayload enc) :
    Fits enc (putStringBytes enc buf s) := by
  unfold putStringBytes
  simp only
  by_cases hbig : (truncNul s).length + 1 + (if enc = true then 8 else 0) > maxFramePayload enc
  · rw [if_pos hbig]
    exact fits_seqPut (fits_seqPut (fits_largeHead enc buf _ hb) (fun b hb' => fits_putBytes enc b _ hb'))
      (fun b hb' => fits_putBytes enc b _ hb')
  · rw [if_neg hbig]
    exact fits_putString enc buf s hb

theorem fits_putVal (enc : Bool) (buf : Bytes) (v : Val) (hb : buf.length ≤ maxFramePayload enc) :
    Fits enc (putVal enc buf v) := by
  cases v with
  | int x => exact fits_putInt enc buf x hb
  | char c => exact fits_putChar enc buf c hb
  | str s => exact fits_putString enc buf s hb

/-- **any sequence of values of any lengths**: every frame flushed while encoding it, and the buffer
    that `FinishMessage` sends as the end-of-message frame, is within the per-mode bound -/
theorem fits_putAll (enc : Bool) : ∀ (vs : List Val) (buf : Bytes), buf.length ≤ maxFramePayload enc →
    Fits enc (putAll enc buf vs) := by
  intro vs
  induction vs with
  | nil => intro buf hb; exact ⟨by simp [putAll], by simpa [putAll] using hb⟩
  | cons v rest ih =>
    intro buf hb
    unfold putAll
    exact fits_seqPut (fits_putVal enc buf v hb) (fun b hb' => ih b hb')

end Cedar
