/-
  Helper lemmas for C03 / C10 / C05: what the authentication loops and the key set-up can return.
-/
import CedarModel.Handshake

namespace Cedar.HS

/-- whatever the server replies, a successful client loop ran an OFFERED method to success, and
    every exchange it ran was an offered method -/
theorem clientLoop_success {offered : List String} {authOK : String → Bool} :
    ∀ (replies : List Int) (mask : Nat) (ran : List (String × Bool)) (m : String) (ran' : List (String × Bool)),
      (∀ x ∈ ran, x.1 ∈ offered ∧ x.2 = false) →
      clientLoop offered authOK mask replies ran = .success m ran' →
      m ∈ offered ∧ authOK m = true ∧ (m, true) ∈ ran' ∧
      (∀ x ∈ ran', x.1 ∈ offered) ∧ (∀ x ∈ ran', x.2 = true → x.1 = m) := by
  intro replies
  induction replies with
  | nil => intro mask ran m ran' _ h; simp [clientLoop] at h
  | cons r rest ih =>
    intro mask ran m ran' hran h
    unfold clientLoop at h
    by_cases h0 : mask = 0
    · simp [h0] at h
    · rw [if_neg h0] at h
      by_cases h1 : r = 0
      · simp [h1] at h
      · rw [if_neg h1] at h
        by_cases h2 : r < 0
        · simp [h2] at h
        · rw [if_neg h2] at h
          split at h
          · cases h
          · rename_i mm hf
            have hmem : mm ∈ offered := List.mem_of_find?_eq_some hf
            by_cases hok : authOK mm = true
            · simp only [hok, if_true, LoopRes.success.injEq] at h
              obtain ⟨rfl, rfl⟩ := h
              refine ⟨hmem, hok, by simp, ?_, ?_⟩
              · intro x hx
                simp only [List.mem_append, List.mem_singleton] at hx
                rcases hx with hx | rfl
                · exact (hran x hx).1
                · exact hmem
              · intro x hx hb
                simp only [List.mem_append, List.mem_singleton] at hx
                rcases hx with hx | rfl
                · have := (hran x hx).2; rw [this] at hb; cases hb
                · rfl
            · simp only [hok, Bool.false_eq_true, if_false] at h
              exact ih _ _ m ran' (by
                intro x hx
                simp only [List.mem_append, List.mem_singleton] at hx
                rcases hx with hx | rfl
                · exact hran x hx
                · exact ⟨hmem, rfl⟩) h

/-- the client's authentication phase: either nothing ran (and then the client does not require
    authentication), or exactly one own-listed method ran to success -/
theorem clientAuthPhase_spec {cfg : ClientCfg} {srv : ServerScript} {didAuth method ran}
    (h : clientAuthPhase cfg srv = .ok (didAuth, method, ran)) :
    (didAuth = false ∧ ran = [] ∧ cfg.auth ≠ lvlRequired) ∨
    (didAuth = true ∧ method ∈ cfg.methods ∧ (method, true) ∈ ran ∧ srv.authOK method = true ∧
      (∀ x ∈ ran, x.1 ∈ cfg.methods) ∧ (∀ x ∈ ran, x.2 = true → x.1 = method)) := by
  unfold clientAuthPhase at h
  by_cases ha : srv.auth ≠ "YES"
  · rw [if_pos ha] at h
    by_cases hr : cfg.auth = lvlRequired
    · rw [if_pos hr] at h; cases h
    · rw [if_neg hr] at h
      simp only [Except.ok.injEq, Prod.mk.injEq] at h
      exact .inl ⟨h.1.symm, h.2.2.symm, hr⟩
  · rw [if_neg ha] at h
    by_cases hm : srv.methods = []
    · rw [if_pos hm] at h; cases h
    · rw [if_neg hm] at h
      simp only at h
      split at h
      · cases h
      · split at h
        · rename_i m ran1 hloop
          -- whichever branch of the key message succeeds, the result is the loop's
          have hres : didAuth = true ∧ method = m ∧ ran = ran1 := by
            split at h
            · simp only [Except.ok.injEq, Prod.mk.injEq] at h; exact ⟨h.1.symm, h.2.1.symm, h.2.2.symm⟩
            · split at h
              · simp only [Except.ok.injEq, Prod.mk.injEq] at h; exact ⟨h.1.symm, h.2.1.symm, h.2.2.symm⟩
              · cases h
            · cases h
          obtain ⟨rfl, rfl, rfl⟩ := hres
          obtain ⟨hmem, hok, hin, hall, honly⟩ := clientLoop_success _ _ _ _ _ (by simp) hloop
          have sub : ∀ x, x ∈ cfg.methods.filter (fun m => srv.methods.contains m && (!isTokenMethod m || cfg.tokenCompat)) → x ∈ cfg.methods :=
            fun x hx => (List.mem_filter.mp hx).1
          exact .inr ⟨rfl, sub _ hmem, hin, hok, fun x hx => sub _ (hall x hx), honly⟩
        · cases h
        · cases h

/-- `setupStreamEncryption`: success with encryption decided or locally required means a key -/
theorem setupEnc_ok {ownEnc ownInteg decided negCrypto ownKey adv peerKey key}
    (h : setupEnc ownEnc ownInteg decided negCrypto ownKey adv peerKey = .ok key) :
    key = estKey negCrypto ownKey adv peerKey ∧
    (key = none → ¬ (decided = true ∨ ownEnc = lvlRequired ∨ ownInteg = lvlRequired)) := by
  unfold setupEnc at h
  cases he : estKey negCrypto ownKey adv peerKey with
  | some k => simp only [he, Except.ok.injEq] at h; subst h; exact ⟨rfl, fun h => by cases h⟩
  | none =>
    simp only [he] at h
    by_cases hc : decided = true ∨ ownEnc = lvlRequired ∨ ownInteg = lvlRequired
    · rw [if_pos hc] at h; cases h
    · rw [if_neg hc] at h
      simp only [Except.ok.injEq] at h; subst h; exact ⟨rfl, fun _ => hc⟩

theorem setupEnc_spec {ownEnc ownInteg decided negCrypto ownKey adv peerKey key}
    (h : setupEnc ownEnc ownInteg decided negCrypto ownKey adv peerKey = .ok key) :
    (decided = true ∨ ownEnc = lvlRequired ∨ ownInteg = lvlRequired) → key.isSome = true := by
  intro hreq
  obtain ⟨_, h2⟩ := setupEnc_ok h
  cases key with
  | none => exact absurd hreq (h2 rfl)
  | some k => rfl

theorem serverLoop_success {own : List String} {authOK : String → Option String} :
    ∀ (masks : List Int) (ran : List (String × Bool)) (m u : String) (ran' : List (String × Bool)),
      (∀ x ∈ ran, x.1 ∈ own ∧ x.2 = false) →
      serverLoop own authOK masks ran = .success m u ran' →
      m ∈ own ∧ authOK m = some u ∧ (m, true) ∈ ran' ∧ (∀ x ∈ ran', x.1 ∈ own) ∧
      (∀ x ∈ ran', x.2 = true → x.1 = m) := by
  intro masks
  induction masks with
  | nil => intro ran m u ran' _ h; simp [serverLoop] at h
  | cons mk rest ih =>
    intro ran m u ran' hran h
    unfold serverLoop at h
    by_cases h0 : mk = 0
    · simp [h0] at h
    · rw [if_neg h0] at h
      simp only at h
      cases hf : own.find? (fun m => Nat.land (toU64 mk) (authBit m) != 0) with
      | none => simp only [hf] at h; exact ih ran m u ran' hran h
      | some mm =>
        simp only [hf] at h
        have hmem : mm ∈ own := List.mem_of_find?_eq_some hf
        cases hok : authOK mm with
        | some uu =>
          simp only [hok, SrvLoopRes.success.injEq] at h
          obtain ⟨rfl, rfl, rfl⟩ := h
          refine ⟨hmem, hok, by simp, ?_, ?_⟩
          · intro x hx
            simp only [List.mem_append, List.mem_singleton] at hx
            rcases hx with hx | rfl
            · exact (hran x hx).1
            · exact hmem
          · intro x hx hb
            simp only [List.mem_append, List.mem_singleton] at hx
            rcases hx with hx | rfl
            · have := (hran x hx).2; rw [this] at hb; cases hb
            · rfl
        | none =>
          simp only [hok] at h
          exact ih _ m u ran' (by
            intro x hx
            simp only [List.mem_append, List.mem_singleton] at hx
            rcases hx with hx | rfl
            · exact hran x hx
            · exact ⟨hmem, rfl⟩) h

theorem serverAuthPhase_spec {cfg : ServerCfg} {cli : ClientScript} {d : Decision} {method user ran}
    (h : serverAuthPhase cfg cli d = .ok (method, user, ran)) :
    (d.authentication = false ∧ ran = [] ∧ user = "") ∨
    (d.authentication = true ∧ method ∈ cfg.methods ∧ (method, true) ∈ ran ∧ cli.authOK method = some user ∧
      (∀ x ∈ ran, x.1 ∈ cfg.methods) ∧ (∀ x ∈ ran, x.2 = true → x.1 = method)) := by
  unfold serverAuthPhase at h
  cases hd : d.authentication with
  | false =>
    simp only [hd, Bool.not_false, if_true, Except.ok.injEq, Prod.mk.injEq] at h
    exact .inl ⟨rfl, h.2.2.symm, h.2.1.symm⟩
  | true =>
    simp only [hd, Bool.not_true, Bool.false_eq_true, if_false] at h
    split at h
    · rename_i m u ran1 hloop
      simp only [Except.ok.injEq, Prod.mk.injEq] at h
      obtain ⟨rfl, rfl, rfl⟩ := h
      obtain ⟨a, b, c, d', e⟩ := serverLoop_success _ _ _ _ _ (by simp) hloop
      exact .inr ⟨rfl, a, c, b, d', e⟩
    · cases h
    · cases h

end Cedar.HS
