import CedarProofs.CodecLemmas
namespace Cedar

theorem toI32_small (n : Nat) (h : n < 2^31) : toI32 (n : Int) = n := by
  have h1 : (n : Int) % (2^32 : Int) = n := Int.emod_eq_of_lt (by omega) (by omega)
  simp only [toI32, h1, Int.toNat_natCast]
  split
  · rfl
  · omega

/-- **string_roundtrip**, decoder side: from pending bytes `enc(s) ++ rest` the decoder returns `s`
    and leaves `rest`, in both string modes and across any framing. -/
theorem getString_spec (encMode : Bool) (d : Dec) (s rest : Bytes)
    (hnz : ∀ b ∈ s, b ≠ 0) (hlen : s.length + 1 < 2^31) (hfirst : s.head? ≠ some binNullChar)
    (hp : d.pending = some (Spec.enc encMode (.str s) ++ rest)) :
    ∃ d', d.getString encMode = .ok (s, d') ∧ d'.pending = some rest := by
  cases encMode with
  | false =>
    simp only [Spec.enc, Bool.false_eq_true, if_false, List.nil_append, List.append_assoc, List.singleton_append] at hp
    unfold Dec.getString
    simp only [Bool.false_eq_true, if_false]
    have hfuel : s.length < d.total + 1 := by
      have := pending_le_total d _ hp
      simp at this; omega
    obtain ⟨d', hok, hp'⟩ := getCStr_spec s (d.total + 1) d [] rest hnz hfuel hp
    exact ⟨d', by rw [hok]; simp, hp'⟩
  | true =>
    simp only [Spec.enc, if_true, List.append_assoc] at hp
    have htake : (be64 (s.length + 1) ++ (s ++ ([0] ++ rest))).take 8 = be64 (s.length + 1) := by
      rw [List.take_append_of_le_length (by simp [be64])]
      exact List.take_of_length_le (by simp [be64])
    have hdrop : (be64 (s.length + 1) ++ (s ++ ([0] ++ rest))).drop 8 = s ++ ([0] ++ rest) := by
      rw [List.drop_append_of_le_length (by simp [be64])]
      rw [List.drop_of_length_le (by simp [be64])]; rfl
    have hval : ofU64 (beVal (be64 (s.length + 1))) = ((s.length + 1 : Nat) : Int) := by
      rw [beVal_be64 _ (by omega)]
      unfold ofU64
      have : s.length + 1 < 2^63 := by omega
      simp [this]
    rcases getInt_spec d _ hp with ⟨_, d1, hok, hp1⟩ | ⟨hl, _⟩
    · rw [htake, hval] at hok
      rw [hdrop] at hp1
      rcases ensure_spec d1 (s.length + 1) _ hp1 with ⟨_, d2, hok2, hp2, hb2, r, hr⟩ | ⟨hl, _⟩
      · have hpre : d2.buf.take (s.length + 1) = s ++ [0] := by
          have : (s ++ ([0] ++ rest)).take (s.length + 1) = s ++ [0] := by
            rw [← List.append_assoc, List.take_append_of_le_length (by simp)]
            exact List.take_of_length_le (by simp)
          rw [← this, hr, List.take_append_of_le_length hb2]
        have hp3 := pending_drop d2 (s.length + 1) _ hp2 hb2
        have hd : (s ++ ([0] ++ rest)).drop (s.length + 1) = rest := by
          rw [← List.append_assoc, List.drop_append_of_le_length (by simp)]
          rw [List.drop_of_length_le (by simp)]; rfl
        rw [hd] at hp3
        refine ⟨{ d2 with buf := d2.buf.drop (s.length + 1) }, ?_, hp3⟩
        unfold Dec.getString Dec.getInt32
        simp only [if_true, hok, toI32_small _ hlen]
        have hneg : ¬ (((s.length + 1 : Nat) : Int) < 0) := by omega
        simp only [hneg, if_false, Int.toNat_natCast, hok2, hpre]
        cases hs : s with
        | nil => simp [binNullChar]; decide
        | cons c t =>
          have hc : c ≠ binNullChar := by
            intro hh; apply hfirst; simp [hs, hh]
          simp only [List.cons_append, hc, if_false]
          rw [← List.cons_append, stripTrailingNul_snoc]
      · simp at hl
    · simp [be64] at hl; omega


/-! ### encoder: layout of strings and of whole value sequences -/

theorem toU64_nat (n : Nat) (h : n < 2^64) : toU64 (n : Int) = n := by
  unfold toU64
  have : (n : Int) % (2^64 : Int) = n := Int.emod_eq_of_lt (by omega) (by omega)
  rw [this]; simp

theorem wireBytes_flushIf (c : Prop) [Decidable c] (buf : Bytes) (hc : ¬ c → True) :
    wireBytes (if c then (([] : Bytes), [((buf, false) : OutFrame)]) else (buf, [])) = buf := by
  split <;> simp [wireBytes]

theorem wireBytes_putString (enc : Bool) (buf s : Bytes) (hnz : ∀ b ∈ s, b ≠ 0) (hlen : s.length + 1 < 2^64) :
    wireBytes (putString enc buf s) = buf ++ Spec.enc enc (.str s) := by
  have hnul : truncNul s = s := takeWhile_all _ s (fun b hb => by simpa using hnz b hb)
  unfold putString
  simp only [hnul]
  have hl : (s ++ [0]).length = s.length + 1 := by simp
  by_cases hbig : (s ++ [0]).length + (if enc = true then 8 else 0) > maxFramePayload enc
  · rw [if_pos hbig]
    cases enc with
    | false =>
      simp only [Bool.false_eq_true, if_false]
      rw [wireBytes_seqPut _ _ (s ++ [0]) (wireBytes_putBytes _ _ _)]
      by_cases hb : buf.length > 0
      · simp [hb, wireBytes, Spec.enc]
      · have : buf = [] := List.eq_nil_of_length_eq_zero (by omega)
        simp [this, wireBytes, Spec.enc]
    | true =>
      simp only [if_true]
      rw [wireBytes_seqPut _ _ (s ++ [0]) (wireBytes_putBytes _ _ _)]
      rw [wireBytes_seqPut _ _ (be64 (toU64 ((s ++ [0]).length : Nat))) (wireBytes_putInt _ _)]
      rw [hl, toU64_nat _ hlen]
      by_cases hb : buf.length > 0
      · simp [hb, wireBytes, Spec.enc]
      · have : buf = [] := List.eq_nil_of_length_eq_zero (by omega)
        simp [this, wireBytes, Spec.enc]
  · rw [if_neg hbig]
    cases enc with
    | false =>
      simp only [Bool.false_eq_true, if_false, Nat.add_zero]
      split <;> simp [wireBytes, Spec.enc]
    | true =>
      simp only [if_true]
      have key : ∀ r0 : PutRes, wireBytes r0 = buf →
          wireBytes ((seqPut r0 (fun b => putInt b ((s ++ [0]).length : Nat))).1 ++ (s ++ [0]),
                     (seqPut r0 (fun b => putInt b ((s ++ [0]).length : Nat))).2)
            = buf ++ Spec.enc true (.str s) := by
        intro r0 h0
        have := wireBytes_seqPut r0 (fun b => putInt b ((s ++ [0]).length : Nat))
          (be64 (toU64 ((s ++ [0]).length : Nat))) (wireBytes_putInt _ _)
        rw [hl, toU64_nat _ hlen, h0] at this
        unfold wireBytes at this ⊢
        simp only [Spec.enc, if_true]
        rw [← List.append_assoc, hl, this]
        simp [List.append_assoc]
      split
      · exact key _ (by simp [wireBytes])
      · exact key _ (by simp [wireBytes])

/-- a NUL-free string short enough for its length prefix -/
def Val.wf : Val → Prop
  | .int v => -(2^63 : Int) ≤ v ∧ v < (2^63 : Int)
  | .char _ => True
  | .str s => (∀ b ∈ s, b ≠ 0) ∧ s.length + 1 < 2^31 ∧ s.head? ≠ some binNullChar

theorem wireBytes_putVal (enc : Bool) (buf : Bytes) (v : Val) (hv : v.wf) :
    wireBytes (putVal enc buf v) = buf ++ Spec.enc enc v := by
  cases v with
  | int v => exact wireBytes_putInt buf v
  | char c => exact wireBytes_putChar buf c
  | str s => exact wireBytes_putString enc buf s hv.1 (by have := hv.2.1; omega)

/-- **layout**: however the encoder flushes, the payload bytes of the message are exactly the
    reference encodings of the values, in order. -/
theorem wireBytes_putAll (enc : Bool) : ∀ (vs : List Val) (buf : Bytes), (∀ v ∈ vs, v.wf) →
    wireBytes (putAll enc buf vs) = buf ++ Spec.encAll enc vs := by
  intro vs
  induction vs with
  | nil => intro buf _; simp [putAll, wireBytes, Spec.encAll]
  | cons v rest ih =>
    intro buf h
    unfold putAll
    rw [wireBytes_seqPut _ _ (Spec.encAll enc rest)
      (ih _ (fun v hv => h v (List.mem_cons_of_mem _ hv)))]
    rw [wireBytes_putVal enc buf v (h v (List.mem_cons_self ..))]
    simp [Spec.encAll, List.append_assoc]

/-- decoding one reference-encoded value from the pending bytes, wherever frames are cut -/
theorem getVal_spec (enc : Bool) (d : Dec) (v : Val) (rest : Bytes) (hv : v.wf)
    (hp : d.pending = some (Spec.enc enc v ++ rest)) :
    ∃ d', d.getVal enc v = .ok (v, d') ∧ d'.pending = some rest := by
  cases v with
  | int x =>
    simp only [Spec.enc] at hp
    rcases getInt_spec d _ hp with ⟨_, d1, hok, hp1⟩ | ⟨hl, _⟩
    · have htake : (be64 (toU64 x) ++ rest).take 8 = be64 (toU64 x) := by
        rw [List.take_append_of_le_length (by simp [be64])]
        exact List.take_of_length_le (by simp [be64])
      have hdrop : (be64 (toU64 x) ++ rest).drop 8 = rest := by
        rw [List.drop_append_of_le_length (by simp [be64])]
        rw [List.drop_of_length_le (by simp [be64])]; rfl
      rw [htake, beVal_be64 _ (toU64_lt x), ofU64_toU64 x hv.1 hv.2] at hok
      rw [hdrop] at hp1
      exact ⟨d1, by simp [Dec.getVal, hok], hp1⟩
    · simp [be64] at hl; omega
  | char c =>
    simp only [Spec.enc, List.singleton_append] at hp
    rcases getChar_spec d _ hp with ⟨c', r', d1, hB, hok, hp1⟩ | ⟨hB, _⟩
    · simp only [List.cons.injEq] at hB
      obtain ⟨rfl, rfl⟩ := hB
      exact ⟨d1, by simp [Dec.getVal, hok], hp1⟩
    · simp at hB
  | str s =>
    obtain ⟨d1, hok, hp1⟩ := getString_spec enc d s rest hv.1 hv.2.1 hv.2.2 hp
    exact ⟨d1, by simp [Dec.getVal, hok], hp1⟩

def Dec.getAll (enc : Bool) : Dec → List Val → Except Err (List Val × Dec)
  | d, [] => .ok ([], d)
  | d, v :: rest =>
    match d.getVal enc v with
    | .error e => .error e
    | .ok (x, d1) =>
      match Dec.getAll enc d1 rest with
      | .error e => .error e
      | .ok (xs, d2) => .ok (x :: xs, d2)

theorem getAll_spec (enc : Bool) : ∀ (vs : List Val) (d : Dec) (rest : Bytes), (∀ v ∈ vs, v.wf) →
    d.pending = some (Spec.encAll enc vs ++ rest) →
    ∃ d', Dec.getAll enc d vs = .ok (vs, d') ∧ d'.pending = some rest := by
  intro vs
  induction vs with
  | nil => intro d rest _ hp; exact ⟨d, rfl, by simpa [Spec.encAll] using hp⟩
  | cons v tl ih =>
    intro d rest h hp
    have hp' : d.pending = some (Spec.enc enc v ++ (Spec.encAll enc tl ++ rest)) := by
      simpa [Spec.encAll, List.append_assoc] using hp
    obtain ⟨d1, hok, hp1⟩ := getVal_spec enc d v _ (h v (List.mem_cons_self ..)) hp'
    obtain ⟨d2, hok2, hp2⟩ := ih d1 rest (fun v hv => h v (List.mem_cons_of_mem _ hv)) hp1
    exact ⟨d2, by simp [Dec.getAll, hok, hok2], hp2⟩

/-! ### frames the typed layer flushes always fit -/

def Fits (enc : Bool) (r : PutRes) : Prop :=
  (∀ f ∈ r.2, f.1.length ≤ maxFramePayload enc) ∧ r.1.length ≤ maxFramePayload enc

theorem target_le_max (enc : Bool) : targetFrameSize ≤ maxFramePayload enc := by
  unfold targetFrameSize maxFramePayload maxFrameSize gcmRoom; cases enc <;> decide

theorem fits_putInt (enc : Bool) (buf : Bytes) (v : Int) (hb : buf.length ≤ maxFramePayload enc) :
    Fits enc (putInt buf v) := by
  have := target_le_max enc
  unfold putInt Fits
  split
  · refine ⟨by simpa using hb, ?_⟩
    simp [be64]; unfold targetFrameSize at this; simp [CedarGen.message.TargetFrameSize] at this; omega
  · refine ⟨by simp, ?_⟩
    simp [be64]; omega

theorem fits_putChar (enc : Bool) (buf : Bytes) (c : UInt8) (hb : buf.length ≤ maxFramePayload enc) :
    Fits enc (putChar buf c) := by
  have := target_le_max enc
  unfold putChar Fits
  split
  · refine ⟨by simpa using hb, ?_⟩
    simp; unfold targetFrameSize at this; simp [CedarGen.message.TargetFrameSize] at this; omega
  · refine ⟨by simp, ?_⟩
    simp; omega

end Cedar
