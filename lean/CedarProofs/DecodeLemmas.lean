/-
  Helper lemmas for C13 over the Decode model: conservation laws of `pull`/`ensure` and the
  "potential" bookkeeping (`Law`) every decoding operation obeys.
-/
import CedarModel.Decode

namespace Cedar.Decode
open Cedar

/-! ## projections of the little state setters -/

@[simp] theorem setBuf_d_buf (s : St) (b : Bytes) : (s.setBuf b).d.buf = b := rfl
@[simp] theorem setBuf_d_src (s : St) (b : Bytes) : (s.setBuf b).d.src = s.d.src := rfl
@[simp] theorem setBuf_d_eom (s : St) (b : Bytes) : (s.setBuf b).d.isEOM = s.d.isEOM := rfl
@[simp] theorem setBuf_m (s : St) (b : Bytes) : (s.setBuf b).m = s.m := rfl
@[simp] theorem setBuf_enc (s : St) (b : Bytes) : (s.setBuf b).enc = s.enc := rfl
@[simp] theorem setBuf_key (s : St) (b : Bytes) : (s.setBuf b).key = s.key := rfl
@[simp] theorem addAlloc_d (s : St) (n : Nat) : (s.addAlloc n).d = s.d := rfl
@[simp] theorem addAlloc_enc (s : St) (n : Nat) : (s.addAlloc n).enc = s.enc := rfl
@[simp] theorem addAlloc_key (s : St) (n : Nat) : (s.addAlloc n).key = s.key := rfl
@[simp] theorem addAlloc_frames (s : St) (n : Nat) : (s.addAlloc n).m.frames = s.m.frames := rfl
@[simp] theorem addAlloc_calls (s : St) (n : Nat) : (s.addAlloc n).m.calls = s.m.calls := rfl
@[simp] theorem addAlloc_alloc (s : St) (n : Nat) : (s.addAlloc n).m.alloc = s.m.alloc + n := rfl
@[simp] theorem addAlloc_need (s : St) (n : Nat) : (s.addAlloc n).m.need = s.m.need := rfl
@[simp] theorem addAlloc_held (s : St) (n : Nat) : (s.addAlloc n).m.held = s.m.held := rfl
@[simp] theorem hold_d (s : St) (n : Nat) : (s.hold n).d = s.d := rfl
@[simp] theorem hold_enc (s : St) (n : Nat) : (s.hold n).enc = s.enc := rfl
@[simp] theorem hold_key (s : St) (n : Nat) : (s.hold n).key = s.key := rfl
@[simp] theorem hold_frames (s : St) (n : Nat) : (s.hold n).m.frames = s.m.frames := rfl
@[simp] theorem hold_calls (s : St) (n : Nat) : (s.hold n).m.calls = s.m.calls := rfl
@[simp] theorem hold_alloc (s : St) (n : Nat) : (s.hold n).m.alloc = s.m.alloc := rfl
@[simp] theorem hold_need (s : St) (n : Nat) : (s.hold n).m.need = s.m.need := rfl
@[simp] theorem hold_held (s : St) (n : Nat) : (s.hold n).m.held = max s.m.held n := rfl
@[simp] theorem call_d (s : St) : s.call.d = s.d := rfl
@[simp] theorem call_enc (s : St) : s.call.enc = s.enc := rfl
@[simp] theorem call_key (s : St) : s.call.key = s.key := rfl
@[simp] theorem call_frames (s : St) : s.call.m.frames = s.m.frames := rfl
@[simp] theorem call_calls (s : St) : s.call.m.calls = s.m.calls + 1 := rfl
@[simp] theorem call_alloc (s : St) : s.call.m.alloc = s.m.alloc := rfl
@[simp] theorem call_need (s : St) : s.call.m.need = s.m.need := rfl
@[simp] theorem call_held (s : St) : s.call.m.held = s.m.held := rfl

/-- source bytes still on the wire -/
def St.sb (s : St) : Nat := srcBytes s.d.src
/-- bytes buffered -/
def St.bl (s : St) : Nat := s.d.buf.length

theorem bytes_eq (s : St) : s.bytes = s.bl + s.sb := rfl

/-- every frame on the wire carries at most `F` payload bytes (the frame layer enforces
    `F = MaxMessageSize`) -/
def FramesLe (F : Nat) (src : List OutFrame) : Prop := ∀ f ∈ src, f.1.length ≤ F

/-! ## `pull` -/

theorem pull_spec (n : Nat) : ∀ (src : List OutFrame) (buf : Bytes) (eom : Bool) (m : Meter)
    (ok : Bool) (d1 : Dec) (m1 : Meter), pull n buf eom src m = (ok, d1, m1) →
    m1.frames + d1.src.length = m.frames + src.length ∧
    m1.alloc + srcBytes d1.src = m.alloc + srcBytes src ∧
    d1.buf.length + srcBytes d1.src = buf.length + srcBytes src ∧
    m1.calls = m.calls ∧ m1.need = m.need ∧ m1.held = m.held ∧ m.alloc ≤ m1.alloc ∧
    (ok = false → d1.src = []) ∧
    (ok = true → d1.buf.length ≥ n ∨ d1.isEOM = true) ∧
    (∃ k, d1.src = src.drop k) ∧
    (∀ F, FramesLe F src → d1.buf.length ≤ max buf.length (n + F)) := by
  intro src
  induction src with
  | nil =>
    intro buf eom m ok d1 m1 h
    simp only [pull, Prod.mk.injEq] at h
    obtain ⟨h1, h2, h3⟩ := h
    subst h1 h2 h3
    refine ⟨rfl, rfl, rfl, rfl, rfl, rfl, Nat.le_refl _, fun _ => rfl, ?_, ⟨0, rfl⟩, fun F _ => Nat.le_max_left _ _⟩
    intro h
    simp only [Bool.or_eq_true, lenGe_iff] at h
    exact h
  | cons f rest ih =>
    intro buf eom m ok d1 m1 h
    obtain ⟨p, e⟩ := f
    simp only [pull] at h
    by_cases hc : (lenGe buf n || eom) = true
    · rw [if_pos hc] at h
      simp only [Prod.mk.injEq] at h
      obtain ⟨h1, h2, h3⟩ := h
      subst h1 h2 h3
      refine ⟨rfl, rfl, rfl, rfl, rfl, rfl, Nat.le_refl _, fun h => Bool.noConfusion h, ?_, ⟨0, rfl⟩, fun F _ => Nat.le_max_left _ _⟩
      intro _
      simp only [Bool.or_eq_true, lenGe_iff] at hc
      exact hc
    · rw [if_neg hc] at h
      obtain ⟨h1, h2, h3, h4, h5, h6, hal, h7, h8, ⟨k, h9⟩, h10⟩ := ih _ _ _ _ _ _ h
      refine ⟨?_, ?_, ?_, h4, h5, h6, ?_, h7, h8, ⟨k + 1, by simpa using h9⟩, ?_⟩
      · simp only [List.length_cons] at h1 ⊢; omega
      · simp only [srcBytes] at h2 ⊢; omega
      · simp only [srcBytes]; rw [List.length_append] at h3; omega
      · dsimp only at hal; omega
      · intro F hF
        have hp : p.length ≤ F := hF (p, e) (by simp)
        have hrest : FramesLe F rest := fun f hf => hF f (by simp [hf])
        have := h10 F hrest
        rw [List.length_append] at this
        have hlt : buf.length < n := by
          simp only [Bool.or_eq_true, lenGe_iff, not_or, Nat.not_le] at hc
          exact hc.1
        omega

/-! ## the laws -/

/-- Bookkeeping every operation obeys between the state before (`s`) and after (`s'`), also when
    it fails. `kc`, `ka` are the constants the operation may add. -/
structure Law (s s' : St) (kc ka : Nat) : Prop where
  enc : s'.enc = s.enc
  key : s'.key = s.key
  /-- frames are only ever taken from the wire: pulled + remaining is conserved -/
  fr : s'.m.frames + s'.nsrc = s.m.frames + s.nsrc
  /-- the wire only shrinks -/
  sbm : s'.sb ≤ s.sb
  /-- unconsumed bytes never increase -/
  bys : s'.bl + s'.sb ≤ s.bl + s.sb
  /-- string-level operations are paid for by consumed bytes, up to `kc` -/
  ca : s'.m.calls + s'.bl + s'.sb ≤ s.m.calls + s.bl + s.sb + kc
  /-- allocation is paid for by bytes leaving the wire (append to the buffer, then at most one
      copy out of it), up to `ka` -/
  al : s'.m.alloc + 2 * s'.sb + s'.bl ≤ s.m.alloc + 2 * s.sb + s.bl + ka

theorem Law.refl (s : St) : Law s s 0 0 :=
  ⟨rfl, rfl, rfl, Nat.le_refl _, Nat.le_refl _, Nat.le_refl _, Nat.le_refl _⟩

theorem Law.trans {s s1 s2 : St} {a b c d : Nat} (h1 : Law s s1 a b) (h2 : Law s1 s2 c d) :
    Law s s2 (a + c) (b + d) := by
  obtain ⟨e1, k1, f1, m1, b1, c1, a1⟩ := h1
  obtain ⟨e2, k2, f2, m2, b2, c2, a2⟩ := h2
  exact ⟨e2.trans e1, k2.trans k1, by omega, by omega, by omega, by omega, by omega⟩

theorem Law.mono {s s' : St} {a b c d : Nat} (h : Law s s' a b) (hc : a ≤ c) (hd : b ≤ d) : Law s s' c d := by
  obtain ⟨e1, k1, f1, m1, b1, c1, a1⟩ := h
  exact ⟨e1, k1, f1, m1, b1, by omega, by omega⟩

/-- the cap bookkeeping: nothing was requested from ensureData beyond `c`, no value longer than
    `c` was under construction -/
structure CapLaw (c : Nat) (s s' : St) : Prop where
  need : s'.m.need ≤ max s.m.need c
  held : s'.m.held ≤ max s.m.held c

theorem CapLaw.refl (c : Nat) (s : St) : CapLaw c s s := ⟨Nat.le_max_left _ _, Nat.le_max_left _ _⟩

theorem CapLaw.trans {c : Nat} {s s1 s2 : St} (h1 : CapLaw c s s1) (h2 : CapLaw c s1 s2) : CapLaw c s s2 := by
  obtain ⟨n1, g1⟩ := h1
  obtain ⟨n2, g2⟩ := h2
  exact ⟨by omega, by omega⟩

theorem CapLaw.mono {c c' : Nat} {s s' : St} (h : CapLaw c s s') (hc : c ≤ c') : CapLaw c' s s' := by
  obtain ⟨n1, g1⟩ := h
  exact ⟨by omega, by omega⟩


/-! ## `ensure` -/

structure EnsureFacts (n : Nat) (s : St) (r : Except Err Unit) (s' : St) : Prop where
  law : Law s s' 0 0
  conserve : s'.bl + s'.sb = s.bl + s.sb
  calls : s'.m.calls = s.m.calls
  held : s'.m.held = s.m.held
  need : s'.m.need = max s.m.need n
  okLen : r = .ok () → n ≤ s'.bl
  errs : r = .ok () ∨ r = .error .eof ∨ r = .error .eom
  suffix : ∃ k, s'.d.src = s.d.src.drop k
  bound : ∀ F, FramesLe F s.d.src → s'.bl ≤ max s.bl (n + F)

theorem ensure_facts (n : Nat) (s : St) (r : Except Err Unit) (s' : St) (h : ensure n s = (r, s')) :
    EnsureFacts n s r s' := by
  unfold ensure at h
  generalize hp : pull n s.d.buf s.d.isEOM s.d.src { s.m with need := max s.m.need n } = pr at h
  obtain ⟨ok, d1, m1⟩ := pr
  obtain ⟨h1, h2, h3, h4, h5, h6, hal, h7, h8, h9, h10⟩ := pull_spec n _ _ _ _ _ _ _ hp
  dsimp only at h1 h2 h3 h4 h5 h6 hal
  have common : ∀ (r : Except Err Unit), (r = .ok () → n ≤ d1.buf.length) →
      (r = .ok () ∨ r = .error .eof ∨ r = .error .eom) →
      EnsureFacts n s r { s with d := d1, m := m1 } := by
    intro r hok herr
    refine ⟨⟨rfl, rfl, ?_, ?_, ?_, ?_, ?_⟩, ?_, h4, h6, h5, hok, herr, h9, h10⟩
    · simp only [St.nsrc]; exact h1
    · simp only [St.sb]; omega
    · simp only [St.sb, St.bl]; omega
    · simp only [St.sb, St.bl]; rw [h4]; omega
    · simp only [St.sb, St.bl]; omega
    · simp only [St.sb, St.bl]; omega
  cases ok with
  | false =>
    simp only [Prod.mk.injEq] at h
    obtain ⟨rfl, rfl⟩ := h
    exact common _ (fun h => by cases h) (Or.inr (Or.inl rfl))
  | true =>
    simp only at h
    by_cases hl : lenGe d1.buf n = true
    · rw [if_pos hl] at h
      simp only [Prod.mk.injEq] at h
      obtain ⟨rfl, rfl⟩ := h
      exact common _ (fun _ => (lenGe_iff _ _).mp hl) (Or.inl rfl)
    · rw [if_neg hl] at h
      simp only [Prod.mk.injEq] at h
      obtain ⟨rfl, rfl⟩ := h
      exact common _ (fun h => by cases h) (Or.inr (Or.inr rfl))


/-! ## operations that are not string-level (no `IsEncrypted` query) -/

/-- what every non-string operation guarantees; `c` bounds what it asks of ensureData / holds -/
structure OpFacts {α : Type} (c : Nat) (s : St) (r : Except Err α) (s' : St) : Prop where
  law : Law s s' 0 0
  cap : CapLaw c s s'
  np : r ≠ .error .panic
  calls : s'.m.calls = s.m.calls

theorem EnsureFacts.capLaw {n : Nat} {s s' : St} {r} (h : EnsureFacts n s r s') : CapLaw n s s' :=
  ⟨by rw [h.need]; exact Nat.le_refl _, by rw [h.held]; exact Nat.le_max_left _ _⟩

theorem EnsureFacts.np {n : Nat} {s s' : St} {r} (h : EnsureFacts n s r s') : r ≠ .error .panic := by
  rcases h.errs with h | h | h <;> rw [h] <;> intro hh <;> cases hh

theorem EnsureFacts.err_ne {n : Nat} {s s' : St} {e : Err} (h : EnsureFacts n s (.error e) s') : e ≠ .panic := by
  rcases h.errs with h | h | h <;> cases h <;> intro hh <;> cases hh

theorem np_of_ne {β : Type} {e : Err} (h : e ≠ .panic) : (Except.error e : Except Err β) ≠ .error .panic := by
  intro hh; cases hh; exact h rfl

theorem np_ok {β : Type} (v : β) : (Except.ok v : Except Err β) ≠ .error .panic := by
  intro hh; cases hh

theorem getChar_facts (s : St) (r : Except Err UInt8) (s' : St) (h : getChar s = (r, s')) :
    OpFacts 1 s r s' := by
  unfold getChar at h
  generalize he : ensure 1 s = er at h
  obtain ⟨r1, s1⟩ := er
  have ef := ensure_facts 1 s r1 s1 he
  cases r1 with
  | error e =>
    simp only [Prod.mk.injEq] at h
    obtain ⟨rfl, rfl⟩ := h
    refine ⟨ef.law, ef.capLaw, ?_, ef.calls⟩
    rcases ef.errs with h | h | h <;> cases h <;> intro hh <;> cases hh
  | ok u =>
    simp only at h
    cases hb : s1.d.buf with
    | nil =>
      rw [hb] at h
      simp only [Prod.mk.injEq] at h
      obtain ⟨rfl, rfl⟩ := h
      exact ⟨ef.law, ef.capLaw, (by intro hh; cases hh), ef.calls⟩
    | cons c rest =>
      rw [hb] at h
      simp only [Prod.mk.injEq] at h
      obtain ⟨rfl, rfl⟩ := h
      have l := ef.law
      have hbl : s1.bl = rest.length + 1 := by simp [St.bl, hb]
      refine ⟨⟨l.enc, l.key, l.fr, l.sbm, ?_, ?_, ?_⟩, ⟨ef.capLaw.need, ef.capLaw.held⟩, (by intro hh; cases hh), ef.calls⟩
      · have := l.bys; simp only [St.bl, St.sb, setBuf_d_buf, setBuf_d_src] at *; omega
      · have := l.ca; simp only [St.bl, St.sb, setBuf_d_buf, setBuf_d_src, setBuf_m] at *; omega
      · have := l.al; simp only [St.bl, St.sb, setBuf_d_buf, setBuf_d_src, setBuf_m] at *; omega


/-- after an operation reached `s1`, `k` more bytes leave the buffer and `a ≤ k` bytes are allocated -/
theorem Law.consume {s s1 s2 : St} {kc ka : Nat} (l : Law s s1 kc ka) (k a : Nat)
    (henc : s2.enc = s1.enc) (hkey : s2.key = s1.key) (hfr : s2.m.frames = s1.m.frames)
    (hsrc : s2.d.src = s1.d.src) (hcalls : s2.m.calls = s1.m.calls)
    (hbl : s2.bl + k = s1.bl) (hal : s2.m.alloc = s1.m.alloc + a) (ha : a ≤ k) : Law s s2 kc ka := by
  obtain ⟨e1, k1, f1, m1, b1, c1, a1⟩ := l
  have hsb : s2.sb = s1.sb := by simp only [St.sb, hsrc]
  have hns : s2.nsrc = s1.nsrc := by simp only [St.nsrc, hsrc]
  exact ⟨henc.trans e1, hkey.trans k1, by omega, by omega, by omega, by omega, by omega⟩

theorem drop_bl (s1 : St) (k : Nat) (hk : k ≤ s1.bl) : (s1.setBuf (s1.d.buf.drop k)).bl + k = s1.bl := by
  simp only [St.bl, setBuf_d_buf, List.length_drop] at *; omega

theorem getInt_facts (s : St) (r : Except Err Int) (s' : St) (h : getInt s = (r, s')) :
    OpFacts 8 s r s' ∧ (∀ v, r = .ok v → s'.bl + s'.sb + 8 ≤ s.bl + s.sb) := by
  unfold getInt at h
  generalize he : ensure 8 s = er at h
  obtain ⟨r1, s1⟩ := er
  have ef := ensure_facts 8 s r1 s1 he
  cases r1 with
  | error e =>
    simp only [Prod.mk.injEq] at h
    obtain ⟨rfl, rfl⟩ := h
    refine ⟨⟨ef.law, ef.capLaw, ?_, ef.calls⟩, fun v hv => by cases hv⟩
    rcases ef.errs with h | h | h <;> cases h <;> intro hh <;> cases hh
  | ok u =>
    simp only [Prod.mk.injEq] at h
    obtain ⟨rfl, rfl⟩ := h
    have h8 : 8 ≤ s1.bl := ef.okLen rfl
    have hd := drop_bl s1 8 h8
    refine ⟨⟨ef.law.consume 8 8 rfl rfl rfl rfl rfl (by simpa [St.bl] using hd) rfl (Nat.le_refl _),
      ⟨ef.capLaw.need, ef.capLaw.held⟩, (by intro hh; cases hh), ef.calls⟩, ?_⟩
    intro v _
    have := ef.conserve
    simp only [St.bl, St.sb, addAlloc_d, setBuf_d_buf, setBuf_d_src] at hd this ⊢
    omega

theorem getInt32_facts (s : St) (r : Except Err Int) (s' : St) (h : getInt32 s = (r, s')) :
    OpFacts 8 s r s' ∧ (∀ v, r = .ok v → s'.bl + s'.sb + 8 ≤ s.bl + s.sb) := by
  unfold getInt32 at h
  generalize he : getInt s = er at h
  obtain ⟨r1, s1⟩ := er
  obtain ⟨f, g⟩ := getInt_facts s r1 s1 he
  cases r1 with
  | error e =>
    simp only [Prod.mk.injEq] at h
    obtain ⟨rfl, rfl⟩ := h
    exact ⟨⟨f.law, f.cap, f.np, f.calls⟩, fun v hv => by cases hv⟩
  | ok v =>
    simp only [Prod.mk.injEq] at h
    obtain ⟨rfl, rfl⟩ := h
    exact ⟨⟨f.law, f.cap, (by intro hh; cases hh), f.calls⟩, fun _ _ => g v rfl⟩

theorem getBytes_facts (n : Int) (s : St) (r : Except Err Bytes) (s' : St) (h : getBytes n s = (r, s')) :
    OpFacts n.toNat s r s' := by
  unfold getBytes at h
  by_cases hn : n ≤ 0
  · rw [if_pos hn] at h
    simp only [Prod.mk.injEq] at h
    obtain ⟨rfl, rfl⟩ := h
    exact ⟨Law.refl s, CapLaw.refl _ s, (by intro hh; cases hh), rfl⟩
  · rw [if_neg hn] at h
    generalize he : ensure n.toNat s = er at h
    obtain ⟨r1, s1⟩ := er
    have ef := ensure_facts n.toNat s r1 s1 he
    cases r1 with
    | error e =>
      simp only [Prod.mk.injEq] at h
      obtain ⟨rfl, rfl⟩ := h
      exact ⟨ef.law, ef.capLaw, np_of_ne ef.err_ne, ef.calls⟩
    | ok u =>
      simp only [Prod.mk.injEq] at h
      obtain ⟨rfl, rfl⟩ := h
      have hk : n.toNat ≤ s1.bl := ef.okLen rfl
      have hd := drop_bl s1 n.toNat hk
      refine ⟨ef.law.consume n.toNat n.toNat rfl rfl rfl rfl rfl (by simpa [St.bl] using hd) rfl (Nat.le_refl _),
        ⟨ef.capLaw.need, ?_⟩, (by intro hh; cases hh), ef.calls⟩
      simp only [hold_held, addAlloc_held, setBuf_m]
      have := ef.held
      omega


/-! ## plaintext string loops -/

theorem pull_of_le (n : Nat) (buf : Bytes) (eom : Bool) (src : List OutFrame) (m : Meter) (h : n ≤ buf.length) :
    pull n buf eom src m = (true, ⟨buf, eom, src⟩, m) := by
  have hl : lenGe buf n = true := (lenGe_iff _ _).mpr h
  cases src with
  | nil => simp [pull, hl]
  | cons f rest => obtain ⟨p, e⟩ := f; simp [pull, hl]

/-- with enough bytes buffered, `ensure` succeeds without touching the wire -/
theorem ensure_of_le (n : Nat) (s : St) (h : n ≤ s.bl) : (ensure n s).1 = .ok () := by
  unfold ensure
  rw [pull_of_le n _ _ _ _ h]
  have hl : lenGe s.d.buf n = true := (lenGe_iff _ _).mpr h
  simp [hl]

/-- one byte left the buffer of `s1` (reached from `s` by `ensure 1`); `a ≤ 1` bytes allocated -/
theorem law_byte {s s1 s2 : St} {c : UInt8} {rest : Bytes} (ef : EnsureFacts 1 s (.ok ()) s1)
    (hb : s1.d.buf = c :: rest) (a : Nat) (ha : a ≤ 1)
    (henc : s2.enc = s1.enc) (hkey : s2.key = s1.key) (hfr : s2.m.frames = s1.m.frames)
    (hsrc : s2.d.src = s1.d.src) (hcalls : s2.m.calls = s1.m.calls) (hbuf : s2.d.buf = rest)
    (hal : s2.m.alloc = s1.m.alloc + a) :
    Law s s2 0 0 ∧ s2.bl + s2.sb + 1 = s.bl + s.sb := by
  have hbl : s2.bl + 1 = s1.bl := by simp [St.bl, hb, hbuf]
  refine ⟨ef.law.consume 1 a henc hkey hfr hsrc hcalls hbl hal ha, ?_⟩
  have := ef.conserve
  have hsb : s2.sb = s1.sb := by simp only [St.sb, hsrc]
  omega

theorem cstr_facts : ∀ (fuel : Nat) (s : St) (acc : Bytes) (k : Nat) (r : Except Err Bytes) (s' : St),
    cstr fuel s acc k = (r, s') →
    Law s s' 0 0 ∧ s'.m.calls = s.m.calls ∧ r ≠ .error .panic ∧
    (∀ v, r = .ok v → s'.bl + s'.sb + v.length ≤ s.bl + s.sb + acc.length) ∧
    (0 < s.bl → ∀ v, r = .ok v → s'.bl + s'.sb + 1 ≤ s.bl + s.sb) := by
  intro fuel
  induction fuel with
  | zero =>
    intro s acc k r s' h
    simp only [cstr, Prod.mk.injEq] at h
    obtain ⟨rfl, rfl⟩ := h
    exact ⟨Law.refl s, rfl, np_of_ne (by decide), fun _ hv => (nomatch hv), fun _ _ hv => (nomatch hv)⟩
  | succ fuel ih =>
    intro s acc k r s' h
    simp only [cstr] at h
    generalize he : ensure 1 s = er at h
    obtain ⟨r1, s1⟩ := er
    have ef := ensure_facts 1 s r1 s1 he
    rcases ef.errs with hr | hr | hr
    · subst hr
      simp only at h
      cases hb : s1.d.buf with
      | nil =>
        exfalso
        have := ef.okLen rfl
        simp [St.bl, hb] at this
      | cons c rest =>
        rw [hb] at h
        simp only at h
        by_cases hc : c = 0
        · rw [if_pos hc] at h
          simp only [Prod.mk.injEq] at h
          obtain ⟨rfl, rfl⟩ := h
          obtain ⟨l, hcons⟩ := law_byte (s2 := s1.setBuf rest) ef hb 0 (Nat.zero_le _) rfl rfl rfl rfl rfl rfl rfl
          refine ⟨l, ?_, np_ok _, ?_, ?_⟩
          · simpa using ef.calls
          · intro v hv
            cases hv
            simp only [List.length_reverse]
            omega
          · intro _ v _
            omega
        · rw [if_neg hc] at h
          obtain ⟨l, hcons⟩ := law_byte (s2 := ((s1.setBuf rest).addAlloc 1).hold (k + 1)) ef hb 1 (Nat.le_refl _) rfl rfl rfl rfl rfl rfl rfl
          obtain ⟨l2, c2, n2, v2, _⟩ := ih _ _ _ _ _ h
          refine ⟨by simpa using l.trans l2, ?_, n2, ?_, ?_⟩
          · rw [c2]; simpa using ef.calls
          · intro v hv
            have := v2 v hv
            simp only [List.length_cons] at this
            omega
          · intro _ v hv
            have := l2.bys
            omega
    · subst hr
      simp only [Prod.mk.injEq] at h
      obtain ⟨rfl, rfl⟩ := h
      exact ⟨ef.law, ef.calls, np_of_ne (by decide), fun _ hv => (nomatch hv), fun _ _ hv => (nomatch hv)⟩
    · subst hr
      simp only [Prod.mk.injEq] at h
      obtain ⟨rfl, rfl⟩ := h
      refine ⟨ef.law, ef.calls, np_ok _, ?_, ?_⟩
      · intro v hv
        cases hv
        have := ef.law.bys
        simp only [List.length_reverse]
        omega
      · intro hpos v _
        -- the buffer was not empty, so `ensure 1` cannot have failed with end-of-message
        exfalso
        have := ensure_of_le 1 s hpos
        rw [he] at this
        cases this


theorem cstrMax_facts (cap : Nat) : ∀ (fuel : Nat) (s : St) (acc : Bytes) (k : Nat) (r : Except Err Bytes) (s' : St),
    cstrMax cap fuel s acc k = (r, s') → fuel + k = cap → acc.length = k →
    Law s s' 0 0 ∧ s'.m.calls = s.m.calls ∧ r ≠ .error .panic ∧
    s'.m.need ≤ max s.m.need 1 ∧ s'.m.held ≤ max s.m.held cap ∧
    (∀ v, r = .ok v → s'.bl + s'.sb + v.length ≤ s.bl + s.sb + acc.length ∧ v.length ≤ cap) := by
  intro fuel
  induction fuel with
  | zero =>
    intro s acc k r s' h _ _
    simp only [cstrMax, Prod.mk.injEq] at h
    obtain ⟨rfl, rfl⟩ := h
    exact ⟨Law.refl s, rfl, np_of_ne (by decide), Nat.le_max_left _ _, Nat.le_max_left _ _, fun _ hv => (nomatch hv)⟩
  | succ fuel ih =>
    intro s acc k r s' h hfk hacc
    simp only [cstrMax] at h
    generalize he : ensure 1 s = er at h
    obtain ⟨r1, s1⟩ := er
    have ef := ensure_facts 1 s r1 s1 he
    have hneed : s1.m.need ≤ max s.m.need 1 := by rw [ef.need]; exact Nat.le_refl _
    have hheld : s1.m.held ≤ max s.m.held cap := by rw [ef.held]; exact Nat.le_max_left _ _
    rcases ef.errs with hr | hr | hr
    · subst hr
      simp only at h
      cases hb : s1.d.buf with
      | nil =>
        exfalso
        have := ef.okLen rfl
        simp [St.bl, hb] at this
      | cons c rest =>
        rw [hb] at h
        simp only at h
        by_cases hc : c = 0
        · rw [if_pos hc] at h
          simp only [Prod.mk.injEq] at h
          obtain ⟨rfl, rfl⟩ := h
          obtain ⟨l, hcons⟩ := law_byte (s2 := s1.setBuf rest) ef hb 0 (Nat.zero_le _) rfl rfl rfl rfl rfl rfl rfl
          refine ⟨l, by simpa using ef.calls, np_ok _, by simpa using hneed, by simpa using hheld, ?_⟩
          intro v hv
          cases hv
          simp only [List.length_reverse]
          omega
        · rw [if_neg hc] at h
          obtain ⟨l, hcons⟩ := law_byte (s2 := ((s1.setBuf rest).addAlloc 1).hold (k + 1)) ef hb 1 (Nat.le_refl _) rfl rfl rfl rfl rfl rfl rfl
          obtain ⟨l2, c2, n2, nd2, hd2, v2⟩ := ih _ _ _ _ _ h (by omega) (by simp [hacc])
          simp only [hold_need, addAlloc_need, setBuf_m, hold_held, addAlloc_held] at nd2 hd2
          refine ⟨by simpa using l.trans l2, ?_, n2, by omega, by omega, ?_⟩
          · rw [c2]; simpa using ef.calls
          · intro v hv
            have := v2 v hv
            simp only [List.length_cons] at this
            omega
    · subst hr
      simp only [Prod.mk.injEq] at h
      obtain ⟨rfl, rfl⟩ := h
      exact ⟨ef.law, ef.calls, np_of_ne (by decide), hneed, hheld, fun _ hv => (nomatch hv)⟩
    · subst hr
      simp only at h
      by_cases hk : k > 0
      · rw [if_pos hk] at h
        simp only [Prod.mk.injEq] at h
        obtain ⟨rfl, rfl⟩ := h
        exact ⟨ef.law, ef.calls, np_of_ne (by decide), hneed, hheld, fun _ hv => (nomatch hv)⟩
      · rw [if_neg hk] at h
        simp only [Prod.mk.injEq] at h
        obtain ⟨rfl, rfl⟩ := h
        refine ⟨ef.law, ef.calls, np_ok _, hneed, hheld, ?_⟩
        intro v hv
        cases hv
        have := ef.law.bys
        simp only [List.length_nil]
        omega

theorem skipC_facts : ∀ (fuel : Nat) (s : St) (r : Except Err Unit) (s' : St),
    skipC fuel s = (r, s') →
    Law s s' 0 0 ∧ s'.m.calls = s.m.calls ∧ r ≠ .error .panic ∧
    s'.m.need ≤ max s.m.need 1 ∧ s'.m.held = s.m.held ∧
    (0 < s.bl → r = .ok () → s'.bl + s'.sb + 1 ≤ s.bl + s.sb) := by
  intro fuel
  induction fuel with
  | zero =>
    intro s r s' h
    simp only [skipC, Prod.mk.injEq] at h
    obtain ⟨rfl, rfl⟩ := h
    exact ⟨Law.refl s, rfl, np_of_ne (by decide), Nat.le_max_left _ _, rfl, fun _ hv => (nomatch hv)⟩
  | succ fuel ih =>
    intro s r s' h
    simp only [skipC] at h
    generalize he : ensure 1 s = er at h
    obtain ⟨r1, s1⟩ := er
    have ef := ensure_facts 1 s r1 s1 he
    have hneed : s1.m.need ≤ max s.m.need 1 := by rw [ef.need]; exact Nat.le_refl _
    rcases ef.errs with hr | hr | hr
    · subst hr
      simp only at h
      cases hb : s1.d.buf with
      | nil =>
        exfalso
        have := ef.okLen rfl
        simp [St.bl, hb] at this
      | cons c rest =>
        rw [hb] at h
        simp only at h
        obtain ⟨l, hcons⟩ := law_byte (s2 := s1.setBuf rest) ef hb 0 (Nat.zero_le _) rfl rfl rfl rfl rfl rfl rfl
        by_cases hc : c = 0
        · rw [if_pos hc] at h
          simp only [Prod.mk.injEq] at h
          obtain ⟨rfl, rfl⟩ := h
          exact ⟨l, by simpa using ef.calls, np_ok _, by simpa using hneed, by simpa using ef.held, fun _ _ => by omega⟩
        · rw [if_neg hc] at h
          obtain ⟨l2, c2, n2, nd2, hd2, _⟩ := ih _ _ _ h
          simp only [setBuf_m] at nd2 hd2
          refine ⟨by simpa using l.trans l2, by rw [c2]; simpa using ef.calls, n2, by omega, by rw [hd2]; exact ef.held, ?_⟩
          intro _ _
          have := l2.bys
          omega
    · subst hr
      simp only [Prod.mk.injEq] at h
      obtain ⟨rfl, rfl⟩ := h
      exact ⟨ef.law, ef.calls, np_of_ne (by decide), hneed, ef.held, fun _ hv => (nomatch hv)⟩
    · subst hr
      simp only [Prod.mk.injEq] at h
      obtain ⟨rfl, rfl⟩ := h
      refine ⟨ef.law, ef.calls, np_ok _, hneed, ef.held, ?_⟩
      intro hpos _
      exfalso
      have := ensure_of_le 1 s hpos
      rw [he] at this
      cases this

theorem discard_facts : ∀ (fuel n : Nat) (s : St) (r : Except Err Unit) (s' : St),
    discard fuel n s = (r, s') →
    Law s s' 0 0 ∧ s'.m.calls = s.m.calls ∧ r ≠ .error .panic ∧
    s'.m.need ≤ max s.m.need 1 ∧ s'.m.held = s.m.held := by
  intro fuel
  induction fuel with
  | zero =>
    intro n s r s' h
    cases n with
    | zero =>
      simp only [discard, Prod.mk.injEq] at h
      obtain ⟨rfl, rfl⟩ := h
      exact ⟨Law.refl s, rfl, np_ok _, Nat.le_max_left _ _, rfl⟩
    | succ n =>
      simp only [discard, Prod.mk.injEq] at h
      obtain ⟨rfl, rfl⟩ := h
      exact ⟨Law.refl s, rfl, np_of_ne (by decide), Nat.le_max_left _ _, rfl⟩
  | succ fuel ih =>
    intro n s r s' h
    cases n with
    | zero =>
      simp only [discard, Prod.mk.injEq] at h
      obtain ⟨rfl, rfl⟩ := h
      exact ⟨Law.refl s, rfl, np_ok _, Nat.le_max_left _ _, rfl⟩
    | succ n =>
      simp only [discard] at h
      generalize he : ensure 1 s = er at h
      obtain ⟨r1, s1⟩ := er
      have ef := ensure_facts 1 s r1 s1 he
      have hneed : s1.m.need ≤ max s.m.need 1 := by rw [ef.need]; exact Nat.le_refl _
      cases r1 with
      | error e =>
        simp only [Prod.mk.injEq] at h
        obtain ⟨rfl, rfl⟩ := h
        exact ⟨ef.law, ef.calls, np_of_ne ef.err_ne, hneed, ef.held⟩
      | ok u =>
        simp only at h
        obtain ⟨l2, c2, n2, nd2, hd2⟩ := ih _ _ _ _ h
        simp only [setBuf_m] at nd2 hd2
        have hk : min s1.d.buf.length (n + 1) ≤ s1.bl := Nat.min_le_left _ _
        have l1 : Law s (s1.setBuf (s1.d.buf.drop (min s1.d.buf.length (n + 1)))) 0 0 :=
          ef.law.consume (min s1.d.buf.length (n + 1)) 0 rfl rfl rfl rfl rfl (drop_bl s1 _ hk) rfl (Nat.zero_le _)
        exact ⟨by simpa using l1.trans l2, by rw [c2]; simpa using ef.calls, n2, by omega, by rw [hd2]; exact ef.held⟩


/-! ## string-level operations -/

structure StrFacts (s : St) (r : Except Err Bytes) (s' : St) : Prop where
  law : Law s s' 1 0
  np : r ≠ .error .panic
  calls : s'.m.calls ≤ s.m.calls + 1
  consumed : ∀ v, r = .ok v → s'.bl + s'.sb + v.length ≤ s.bl + s.sb

theorem Law.of_call {s s' : St} {kc ka : Nat} (l : Law s.call s' kc ka) : Law s s' (kc + 1) ka := by
  obtain ⟨e1, k1, f1, m1, b1, c1, a1⟩ := l
  simp only [call_enc, call_key, call_frames, call_calls, call_alloc, St.nsrc, St.sb, St.bl, call_d] at *
  exact ⟨e1, k1, f1, m1, b1, by simp only [St.sb, St.bl]; omega, a1⟩

theorem stripTrailingNul_length (d : Bytes) : (stripTrailingNul d).length ≤ d.length := by
  unfold stripTrailingNul
  split
  · simp
  · exact Nat.le_refl _

theorem decodeEncStr_length (d : Bytes) : (decodeEncStr d).length ≤ d.length := by
  unfold decodeEncStr
  cases d with
  | nil => simp
  | cons c t =>
    simp only
    split
    · simp
    · exact stripTrailingNul_length _

theorem getString_facts (s : St) (r : Except Err Bytes) (s' : St) (h : getString s = (r, s')) :
    StrFacts s r s' ∧ (0 < s.bl → ∀ v, r = .ok v → s'.bl + s'.sb + 1 ≤ s.bl + s.sb) := by
  unfold getString at h
  simp only at h
  by_cases henc : s.call.enc = true
  · rw [if_pos henc] at h
    generalize hg : getInt32 s.call = gr at h
    obtain ⟨r1, s1⟩ := gr
    obtain ⟨f1, g1⟩ := getInt32_facts _ _ _ hg
    cases r1 with
    | error e =>
      simp only [Prod.mk.injEq] at h
      obtain ⟨rfl, rfl⟩ := h
      refine ⟨⟨f1.law.of_call, ?_, ?_, fun _ hv => (nomatch hv)⟩, fun _ _ hv => (nomatch hv)⟩
      · intro hh; cases hh; exact f1.np rfl
      · rw [f1.calls]; simp
    | ok len =>
      simp only at h
      have g8 := g1 len rfl
      by_cases hneg : len < 0
      · rw [if_pos hneg] at h
        simp only [Prod.mk.injEq] at h
        obtain ⟨rfl, rfl⟩ := h
        exact ⟨⟨f1.law.of_call, np_of_ne (by decide), by rw [f1.calls]; simp, fun _ hv => (nomatch hv)⟩, fun _ _ hv => (nomatch hv)⟩
      · rw [if_neg hneg] at h
        generalize he : ensure len.toNat s1 = er at h
        obtain ⟨r2, s2⟩ := er
        have ef := ensure_facts _ _ _ _ he
        cases r2 with
        | error e =>
          simp only [Prod.mk.injEq] at h
          obtain ⟨rfl, rfl⟩ := h
          refine ⟨⟨by simpa using (f1.law.trans ef.law).of_call, np_of_ne ef.err_ne, ?_, fun _ hv => (nomatch hv)⟩, fun _ _ hv => (nomatch hv)⟩
          rw [ef.calls, f1.calls]; simp
        | ok u =>
          simp only [Prod.mk.injEq] at h
          obtain ⟨rfl, rfl⟩ := h
          have hk : len.toNat ≤ s2.bl := ef.okLen rfl
          have hd := drop_bl s2 len.toNat hk
          have l2 : Law s1 (((s2.setBuf (s2.d.buf.drop len.toNat)).addAlloc len.toNat).hold len.toNat) 0 0 :=
            ef.law.consume len.toNat len.toNat rfl rfl rfl rfl rfl (by simpa [St.bl] using hd) rfl (Nat.le_refl _)
          have hlen : (decodeEncStr (s2.d.buf.take len.toNat)).length ≤ len.toNat :=
            Nat.le_trans (decodeEncStr_length _) (List.length_take_le _ _)
          have hc := ef.conserve
          have hfin : (((s2.setBuf (s2.d.buf.drop len.toNat)).addAlloc len.toNat).hold len.toNat).bl +
              (((s2.setBuf (s2.d.buf.drop len.toNat)).addAlloc len.toNat).hold len.toNat).sb + len.toNat = s1.bl + s1.sb := by
            simp only [St.bl, St.sb, hold_d, addAlloc_d, setBuf_d_buf, setBuf_d_src] at hd hc ⊢
            omega
          simp only [St.bl, St.sb, call_d] at g8
          refine ⟨⟨by simpa using (f1.law.trans l2).of_call, np_ok _, ?_, ?_⟩, ?_⟩
          · simp only [hold_calls, addAlloc_calls, setBuf_m]; rw [ef.calls, f1.calls]; simp
          · intro v hv
            cases hv
            simp only [St.bl, St.sb] at hfin ⊢
            omega
          · intro _ v _
            simp only [St.bl, St.sb] at hfin ⊢
            omega
  · rw [if_neg henc] at h
    obtain ⟨l, c, n, v, pr⟩ := cstr_facts _ _ _ _ _ _ h
    refine ⟨⟨by simpa using l.of_call, n, by rw [c]; simp, ?_⟩, ?_⟩
    · intro w hw
      have := v w hw
      simpa [St.bl, St.sb] using this
    · intro hpos w hw
      have := pr (by simpa [St.bl] using hpos) w hw
      simpa [St.bl, St.sb] using this


/-- a capped string read: besides `StrFacts`, nothing beyond `max cap 8` is requested or held,
    and the value returned is at most `cap` long -/
structure StrMaxFacts (cap : Nat) (s : St) (r : Except Err Bytes) (s' : St) : Prop where
  str : StrFacts s r s'
  capLaw : CapLaw (max cap 8) s s'
  resLen : ∀ v, r = .ok v → v.length ≤ cap

theorem CapLaw.of_call {c : Nat} {s s' : St} (h : CapLaw c s.call s') : CapLaw c s s' := ⟨h.need, h.held⟩

theorem getStringMax_facts (cap : Nat) (s : St) (r : Except Err Bytes) (s' : St)
    (h : getStringMax cap s = (r, s')) : StrMaxFacts cap s r s' := by
  unfold getStringMax at h
  by_cases hc0 : cap = 0
  · rw [if_pos hc0] at h
    simp only [Prod.mk.injEq] at h
    obtain ⟨rfl, rfl⟩ := h
    refine ⟨⟨(Law.refl s).mono (Nat.zero_le _) (Nat.le_refl _), np_ok _, Nat.le_succ _, ?_⟩, CapLaw.refl _ s, ?_⟩
    · intro v hv; cases hv; simp
    · intro v hv; cases hv; simp
  · rw [if_neg hc0] at h
    simp only at h
    by_cases henc : s.call.enc = true
    · rw [if_pos henc] at h
      generalize hg : getInt32 s.call = gr at h
      obtain ⟨r1, s1⟩ := gr
      obtain ⟨f1, g1⟩ := getInt32_facts _ _ _ hg
      have cap1 : CapLaw (max cap 8) s s1 := (f1.cap.mono (Nat.le_max_right _ _)).of_call
      cases r1 with
      | error e =>
        simp only [Prod.mk.injEq] at h
        obtain ⟨rfl, rfl⟩ := h
        refine ⟨⟨f1.law.of_call, ?_, by rw [f1.calls]; simp, fun _ hv => (nomatch hv)⟩, cap1, fun _ hv => (nomatch hv)⟩
        intro hh; cases hh; exact f1.np rfl
      | ok len =>
        simp only at h
        have g8 := g1 len rfl
        by_cases hneg : len < 0
        · rw [if_pos hneg] at h
          simp only [Prod.mk.injEq] at h
          obtain ⟨rfl, rfl⟩ := h
          exact ⟨⟨f1.law.of_call, np_of_ne (by decide), by rw [f1.calls]; simp, fun _ hv => (nomatch hv)⟩, cap1, fun _ hv => (nomatch hv)⟩
        · rw [if_neg hneg] at h
          generalize he : ensure (min len.toNat cap) s1 = er at h
          obtain ⟨r2, s2⟩ := er
          have ef := ensure_facts _ _ _ _ he
          have hmin : min len.toNat cap ≤ max cap 8 := Nat.le_trans (Nat.min_le_right _ _) (Nat.le_max_left _ _)
          have cap2 : CapLaw (max cap 8) s s2 := cap1.trans (ef.capLaw.mono hmin)
          cases r2 with
          | error e =>
            simp only [Prod.mk.injEq] at h
            obtain ⟨rfl, rfl⟩ := h
            refine ⟨⟨by simpa using (f1.law.trans ef.law).of_call, np_of_ne ef.err_ne, ?_, fun _ hv => (nomatch hv)⟩, cap2, fun _ hv => (nomatch hv)⟩
            rw [ef.calls, f1.calls]; simp
          | ok u =>
            simp only at h
            have hk : min len.toNat cap ≤ s2.bl := ef.okLen rfl
            have hd := drop_bl s2 _ hk
            have l2 : Law s1 (((s2.setBuf (s2.d.buf.drop (min len.toNat cap))).addAlloc (min len.toNat cap)).hold (min len.toNat cap)) 0 0 :=
              ef.law.consume _ _ rfl rfl rfl rfl rfl (by simpa [St.bl] using hd) rfl (Nat.le_refl _)
            have cap3 : CapLaw (max cap 8) s (((s2.setBuf (s2.d.buf.drop (min len.toNat cap))).addAlloc (min len.toNat cap)).hold (min len.toNat cap)) := by
              refine ⟨cap2.need, ?_⟩
              have := cap2.held
              simp only [hold_held, addAlloc_held, setBuf_m]
              omega
            have hcalls : (((s2.setBuf (s2.d.buf.drop (min len.toNat cap))).addAlloc (min len.toNat cap)).hold (min len.toNat cap)).m.calls ≤ s.m.calls + 1 := by
              simp only [hold_calls, addAlloc_calls, setBuf_m]; rw [ef.calls, f1.calls]; simp
            have hc := ef.conserve
            have hfin : (((s2.setBuf (s2.d.buf.drop (min len.toNat cap))).addAlloc (min len.toNat cap)).hold (min len.toNat cap)).bl +
                (((s2.setBuf (s2.d.buf.drop (min len.toNat cap))).addAlloc (min len.toNat cap)).hold (min len.toNat cap)).sb + min len.toNat cap = s1.bl + s1.sb := by
              simp only [St.bl, St.sb, hold_d, addAlloc_d, setBuf_d_buf, setBuf_d_src] at hd hc ⊢
              omega
            simp only [St.bl, St.sb, call_d] at g8
            by_cases hex : len.toNat > cap
            · rw [if_pos hex] at h
              simp only [Prod.mk.injEq] at h
              obtain ⟨rfl, rfl⟩ := h
              exact ⟨⟨by simpa using (f1.law.trans l2).of_call, np_of_ne (by decide), hcalls, fun _ hv => (nomatch hv)⟩, cap3, fun _ hv => (nomatch hv)⟩
            · rw [if_neg hex] at h
              simp only [Prod.mk.injEq] at h
              obtain ⟨rfl, rfl⟩ := h
              have hlen : (decodeEncStr (s2.d.buf.take (min len.toNat cap))).length ≤ min len.toNat cap :=
                Nat.le_trans (decodeEncStr_length _) (List.length_take_le _ _)
              refine ⟨⟨by simpa using (f1.law.trans l2).of_call, np_ok _, hcalls, ?_⟩, cap3, ?_⟩
              · intro v hv
                cases hv
                simp only [St.bl, St.sb] at hfin ⊢
                omega
              · intro v hv
                cases hv
                omega
    · rw [if_neg henc] at h
      obtain ⟨l, c, n, nd, hd, v⟩ := cstrMax_facts cap cap _ _ _ _ _ h (by simp) rfl
      refine ⟨⟨by simpa using l.of_call, n, by rw [c]; simp, ?_⟩, ⟨?_, ?_⟩, ?_⟩
      · intro w hw
        have := (v w hw).1
        simpa [St.bl, St.sb] using this
      · simp only [call_need] at nd; omega
      · simp only [call_held] at hd; omega
      · intro w hw
        exact (v w hw).2


theorem skipString_facts (s : St) (r : Except Err Unit) (s' : St) (h : skipString s = (r, s')) :
    Law s s' 1 0 ∧ r ≠ .error .panic ∧ s'.m.calls ≤ s.m.calls + 1 ∧ CapLaw 8 s s' ∧
    (0 < s.bl → r = .ok () → s'.bl + s'.sb + 1 ≤ s.bl + s.sb) := by
  unfold skipString at h
  simp only at h
  by_cases henc : s.call.enc = true
  · rw [if_pos henc] at h
    generalize hg : getInt32 s.call = gr at h
    obtain ⟨r1, s1⟩ := gr
    obtain ⟨f1, g1⟩ := getInt32_facts _ _ _ hg
    cases r1 with
    | error e =>
      simp only [Prod.mk.injEq] at h
      obtain ⟨rfl, rfl⟩ := h
      refine ⟨f1.law.of_call, ?_, by rw [f1.calls]; simp, f1.cap.of_call, fun _ hv => (nomatch hv)⟩
      intro hh; cases hh; exact f1.np rfl
    | ok len =>
      simp only at h
      have g8 := g1 len rfl
      obtain ⟨l2, c2, n2, nd2, hd2⟩ := discard_facts _ _ _ _ _ h
      refine ⟨by simpa using (f1.law.trans l2).of_call, n2, by rw [c2, f1.calls]; simp, ⟨?_, ?_⟩, ?_⟩
      · have := f1.cap.need; simp only [call_need] at this; omega
      · have := f1.cap.held; simp only [call_held] at this; omega
      · intro _ _
        have := l2.bys
        simp only [St.bl, St.sb, call_d] at g8 this ⊢
        omega
  · rw [if_neg henc] at h
    obtain ⟨l, c, n, nd, hd, pr⟩ := skipC_facts _ _ _ _ h
    refine ⟨by simpa using l.of_call, n, by rw [c]; simp, ⟨?_, ?_⟩, ?_⟩
    · simp only [call_need] at nd; omega
    · simp only [call_held] at hd; omega
    · intro hpos hr
      have := pr (by simpa [St.bl] using hpos) hr
      simpa [St.bl, St.sb] using this

/-- two states that differ at most in the `enc` flag -/
def SameBut (s t : St) : Prop := s.d = t.d ∧ s.m = t.m ∧ s.key = t.key

theorem Law.same {s s1 s2 s' : St} {kc ka : Nat} (l : Law s1 s2 kc ka) (h1 : SameBut s s1) (h2 : SameBut s' s2)
    (henc : s'.enc = s.enc) : Law s s' kc ka := by
  obtain ⟨d1, m1, k1⟩ := h1
  obtain ⟨d2, m2, k2⟩ := h2
  obtain ⟨e, k, f, m, b, c, a⟩ := l
  simp only [St.nsrc, St.sb, St.bl] at *
  rw [← d1, ← m1, ← d2, ← m2] at *
  exact ⟨henc, by rw [k2, k, ← k1], f, m, b, c, a⟩

theorem getSecret_facts (cap : Nat) (s : St) (r : Except Err Bytes) (s' : St) (h : getSecret cap s = (r, s')) :
    StrFacts s r s' ∧ (0 < cap → CapLaw (max cap 8) s s' ∧ ∀ v, r = .ok v → v.length ≤ cap) := by
  unfold getSecret at h
  simp only at h
  have hs1 : SameBut s { s with enc := s.enc || s.key } := ⟨rfl, rfl, rfl⟩
  by_cases hc : cap > 0
  · rw [if_pos hc] at h
    generalize hg : getStringMax cap { s with enc := s.enc || s.key } = gr at h
    obtain ⟨r2, s2⟩ := gr
    simp only [Prod.mk.injEq] at h
    obtain ⟨rfl, rfl⟩ := h
    have f := getStringMax_facts _ _ _ _ hg
    have hs2 : SameBut { s2 with enc := s.enc } s2 := ⟨rfl, rfl, rfl⟩
    refine ⟨⟨f.str.law.same hs1 hs2 rfl, f.str.np, f.str.calls, f.str.consumed⟩, fun _ => ⟨⟨f.capLaw.need, f.capLaw.held⟩, f.resLen⟩⟩
  · rw [if_neg hc] at h
    generalize hg : getString { s with enc := s.enc || s.key } = gr at h
    obtain ⟨r2, s2⟩ := gr
    simp only [Prod.mk.injEq] at h
    obtain ⟨rfl, rfl⟩ := h
    have f := (getString_facts _ _ _ hg).1
    have hs2 : SameBut { s2 with enc := s.enc } s2 := ⟨rfl, rfl, rfl⟩
    exact ⟨⟨f.law.same hs1 hs2 rfl, f.np, f.calls, f.consumed⟩, fun h => absurd h hc⟩


/-! ## counted loops: every round that continues is paid for by consumed bytes -/

theorem secretMarker_length : secretMarker.length = 3 := by decide

/-- `Law` with the allocation potential that also pays for a second copy of every byte (the text
    builder of the raw reader): weights 4 (on the wire) and 3 (buffered) -/
structure LawQ (s s' : St) (kc ka : Nat) : Prop where
  enc : s'.enc = s.enc
  key : s'.key = s.key
  fr : s'.m.frames + s'.nsrc = s.m.frames + s.nsrc
  sbm : s'.sb ≤ s.sb
  bys : s'.bl + s'.sb ≤ s.bl + s.sb
  ca : s'.m.calls + s'.bl + s'.sb ≤ s.m.calls + s.bl + s.sb + kc
  al : s'.m.alloc + 4 * s'.sb + 3 * s'.bl ≤ s.m.alloc + 4 * s.sb + 3 * s.bl + ka

theorem Law.toQ {s s' : St} {kc ka : Nat} (l : Law s s' kc ka) : LawQ s s' kc ka := by
  obtain ⟨e, k, f, m, b, c, a⟩ := l
  exact ⟨e, k, f, m, b, c, by omega⟩

theorem LawQ.refl (s : St) : LawQ s s 0 0 := (Law.refl s).toQ

theorem LawQ.trans {s s1 s2 : St} {a b c d : Nat} (h1 : LawQ s s1 a b) (h2 : LawQ s1 s2 c d) :
    LawQ s s2 (a + c) (b + d) := by
  obtain ⟨e1, k1, f1, m1, b1, c1, a1⟩ := h1
  obtain ⟨e2, k2, f2, m2, b2, c2, a2⟩ := h2
  exact ⟨e2.trans e1, k2.trans k1, by omega, by omega, by omega, by omega, by omega⟩

theorem LawQ.mono {s s' : St} {a b c d : Nat} (h : LawQ s s' a b) (hc : a ≤ c) (hd : b ≤ d) : LawQ s s' c d := by
  obtain ⟨e1, k1, f1, m1, b1, c1, a1⟩ := h
  exact ⟨e1, k1, f1, m1, b1, by omega, by omega⟩

/-- one expression was read from `s` (possibly as marker + secret), ending in `s3` with value `ex`;
    the round started with a byte in the buffer or produced a non-empty expression.
    Then the round — including `extra ≤ |ex| + 1` bytes of builder growth — costs nothing. -/
theorem round_law {s s2 s3 : St} {r2 : Except Err Bytes} {e0 ex : Bytes}
    (f2 : StrFacts s (.ok e0) s2)
    (hprog : s2.bl + s2.sb + 1 ≤ s.bl + s.sb)
    (hsec : (e0 = secretMarker ∧ StrFacts s2 (.ok ex) s3) ∨ (ex = e0 ∧ s3 = s2))
    (extra : Nat) (hextra : extra ≤ ex.length + 1) (_ : r2 = .ok e0) :
    LawQ s (s3.addAlloc extra) 0 0 := by
  have c2 := f2.consumed e0 rfl
  obtain ⟨e, k, f, m, b, c, a⟩ := f2.law
  rcases hsec with ⟨hm, f3⟩ | ⟨rfl, rfl⟩
  · have c3 := f3.consumed ex rfl
    obtain ⟨e', k', f', m', b', c', a'⟩ := f3.law
    have h3 : e0.length = 3 := by rw [hm]; exact secretMarker_length
    have hc3 := f3.calls
    have hc2 := f2.calls
    refine ⟨e'.trans e, k'.trans k, ?_, ?_, ?_, ?_, ?_⟩
    · simp only [St.nsrc, addAlloc_d, addAlloc_frames] at *; omega
    · simp only [St.sb, addAlloc_d] at *; omega
    · simp only [St.sb, St.bl, addAlloc_d] at *; omega
    · simp only [St.sb, St.bl, addAlloc_d, addAlloc_calls] at *; omega
    · simp only [St.sb, St.bl, addAlloc_d, addAlloc_alloc] at *; omega
  · have hc2 := f2.calls
    refine ⟨e, k, ?_, ?_, ?_, ?_, ?_⟩
    · simp only [St.nsrc, addAlloc_d, addAlloc_frames] at *; omega
    · simp only [St.sb, addAlloc_d] at *; omega
    · simp only [St.sb, St.bl, addAlloc_d] at *; omega
    · simp only [St.sb, St.bl, addAlloc_d, addAlloc_calls] at *; omega
    · simp only [St.sb, St.bl, addAlloc_d, addAlloc_alloc] at *; omega

theorem StrFacts.lawQ {s s' : St} {r} (f : StrFacts s r s') : LawQ s s' 1 0 := f.law.toQ

theorem rawLoop_facts : ∀ (n : Nat) (s : St) (acc : List Bytes) (r : Except Err (List Bytes)) (s' : St),
    rawLoop n s acc = (r, s') → LawQ s s' 2 0 ∧ r ≠ .error .panic := by
  intro n
  induction n with
  | zero =>
    intro s acc r s' h
    simp only [rawLoop, Prod.mk.injEq] at h
    obtain ⟨rfl, rfl⟩ := h
    exact ⟨(LawQ.refl s).mono (Nat.zero_le _) (Nat.le_refl _), np_ok _⟩
  | succ n ih =>
    intro s acc r s' h
    simp only [rawLoop] at h
    generalize he : ensure 1 s = er at h
    obtain ⟨r1, s1⟩ := er
    have ef := ensure_facts 1 s r1 s1 he
    cases r1 with
    | error e =>
      simp only [Prod.mk.injEq] at h
      obtain ⟨rfl, rfl⟩ := h
      exact ⟨ef.law.toQ.mono (Nat.zero_le _) (Nat.le_refl _), np_of_ne ef.err_ne⟩
    | ok u =>
      simp only at h
      have hbl : 0 < s1.bl := ef.okLen rfl
      generalize hg : getString s1 = gr at h
      obtain ⟨r2, s2⟩ := gr
      obtain ⟨f2, pr2⟩ := getString_facts _ _ _ hg
      cases r2 with
      | error e =>
        simp only [Prod.mk.injEq] at h
        obtain ⟨rfl, rfl⟩ := h
        exact ⟨by simpa using (ef.law.toQ.trans f2.lawQ).mono (by omega) (Nat.le_refl _), np_of_ne (fun hh => f2.np (by rw [hh]))⟩
      | ok e0 =>
        simp only at h
        have hprog := pr2 hbl e0 rfl
        by_cases hm : e0 = secretMarker
        · rw [if_pos hm] at h
          generalize hs : getSecret 0 s2 = sr at h
          obtain ⟨r3, s3⟩ := sr
          have f3 := (getSecret_facts _ _ _ _ hs).1
          cases r3 with
          | error e =>
            simp only [Prod.mk.injEq] at h
            obtain ⟨rfl, rfl⟩ := h
            refine ⟨by simpa using (ef.law.toQ.trans (f2.lawQ.trans f3.lawQ)), np_of_ne (fun hh => f3.np (by rw [hh]))⟩
          | ok ex =>
            simp only at h
            have rl := round_law (r2 := .ok e0) f2 hprog (Or.inl ⟨hm, f3⟩) (ex.length + 1) (Nat.le_refl _) rfl
            obtain ⟨l4, n4⟩ := ih _ _ _ _ h
            exact ⟨by simpa using (ef.law.toQ.trans rl).trans l4, n4⟩
        · rw [if_neg hm] at h
          simp only at h
          have rl := round_law (r2 := .ok e0) (ex := e0) (s3 := s2) f2 hprog (Or.inr ⟨rfl, rfl⟩) (e0.length + 1) (Nat.le_refl _) rfl
          obtain ⟨l4, n4⟩ := ih _ _ _ _ h
          exact ⟨by simpa using (ef.law.toQ.trans rl).trans l4, n4⟩

theorem skipIsC_facts : ∀ (fuel : Nat) (s : St) (matched : Bool) (rest : Bytes) (r : Except Err Bool) (s' : St),
    skipIsC fuel s matched rest = (r, s') →
    Law s s' 0 0 ∧ s'.m.calls = s.m.calls ∧ r ≠ .error .panic ∧
    s'.m.need ≤ max s.m.need 1 ∧ s'.m.held = s.m.held ∧
    (0 < s.bl → ∀ v, r = .ok v → s'.bl + s'.sb + 1 ≤ s.bl + s.sb) ∧
    (r = .ok true → s'.bl + s'.sb + rest.length ≤ s.bl + s.sb) := by
  intro fuel
  induction fuel with
  | zero =>
    intro s matched rest r s' h
    simp only [skipIsC, Prod.mk.injEq] at h
    obtain ⟨rfl, rfl⟩ := h
    exact ⟨Law.refl s, rfl, np_of_ne (by decide), Nat.le_max_left _ _, rfl, fun _ _ hv => (nomatch hv), fun hv => (nomatch hv)⟩
  | succ fuel ih =>
    intro s matched rest r s' h
    simp only [skipIsC] at h
    generalize he : ensure 1 s = er at h
    obtain ⟨r1, s1⟩ := er
    have ef := ensure_facts 1 s r1 s1 he
    have hneed : s1.m.need ≤ max s.m.need 1 := by rw [ef.need]; exact Nat.le_refl _
    rcases ef.errs with hr | hr | hr
    · subst hr
      simp only at h
      cases hb : s1.d.buf with
      | nil =>
        exfalso
        have := ef.okLen rfl
        simp [St.bl, hb] at this
      | cons c tl =>
        rw [hb] at h
        simp only at h
        obtain ⟨l, hcons⟩ := law_byte (s2 := s1.setBuf tl) ef hb 0 (Nat.zero_le _) rfl rfl rfl rfl rfl rfl rfl
        -- what a recursive call on the remaining buffer contributes
        have step : ∀ (mt : Bool) (rs : Bytes), rs.length + 1 ≥ rest.length ∨ mt = false →
            skipIsC fuel (s1.setBuf tl) mt rs = (r, s') →
            Law s s' 0 0 ∧ s'.m.calls = s.m.calls ∧ r ≠ .error .panic ∧
            s'.m.need ≤ max s.m.need 1 ∧ s'.m.held = s.m.held ∧
            (0 < s.bl → ∀ v, r = .ok v → s'.bl + s'.sb + 1 ≤ s.bl + s.sb) ∧
            (r = .ok true → mt = true → s'.bl + s'.sb + rs.length ≤ (s1.setBuf tl).bl + (s1.setBuf tl).sb) := by
          intro mt rs _ hrec
          obtain ⟨l2, c2, n2, nd2, hd2, _, tr2⟩ := ih _ _ _ _ _ hrec
          simp only [setBuf_m] at nd2 hd2
          refine ⟨by simpa using l.trans l2, by rw [c2]; simpa using ef.calls, n2, by omega, by rw [hd2]; exact ef.held, ?_, fun hv _ => tr2 hv⟩
          intro _ _ _
          have := l2.bys
          omega
        by_cases hc : c = 0
        · rw [if_pos hc] at h
          simp only [Prod.mk.injEq] at h
          obtain ⟨rfl, rfl⟩ := h
          refine ⟨l, by simpa using ef.calls, np_ok _, by simpa using hneed, by simpa using ef.held, fun _ _ _ => by omega, ?_⟩
          intro hv
          simp only [Except.ok.injEq, Bool.and_eq_true, List.isEmpty_iff] at hv
          rw [hv.2]
          simp only [List.length_nil]
          omega
        · rw [if_neg hc] at h
          -- a `true` result of a call started with `matched = false` is impossible
          have false_stays : ∀ (fu : Nat) (t : St) (rs : Bytes) (s'' : St), skipIsC fu t false rs ≠ (.ok true, s'') := by
            intro fu
            induction fu with
            | zero => intro t rs s'' hh; simp [skipIsC] at hh
            | succ fu ihf =>
              intro t rs s'' hh
              simp only [skipIsC] at hh
              generalize he2 : ensure 1 t = er2 at hh
              obtain ⟨r2, t1⟩ := er2
              have ef2 := ensure_facts 1 t r2 t1 he2
              rcases ef2.errs with hr | hr | hr
              · subst hr
                simp only at hh
                cases hb2 : t1.d.buf with
                | nil => rw [hb2] at hh; simp at hh
                | cons c2 tl2 =>
                  rw [hb2] at hh
                  simp only at hh
                  by_cases hc2 : c2 = 0
                  · rw [if_pos hc2] at hh; simp at hh
                  · rw [if_neg hc2] at hh
                    exact ihf _ _ _ hh
              · subst hr; simp at hh
              · subst hr; simp at hh
          cases matched with
          | false =>
            simp only at h
            obtain ⟨a1, a2, a3, a4, a5, a6, _⟩ := step false rest (Or.inr rfl) h
            refine ⟨a1, a2, a3, a4, a5, a6, ?_⟩
            intro hv
            subst hv
            exact absurd h (false_stays _ _ _ _)
          | true =>
            cases rest with
            | nil =>
              simp only at h
              obtain ⟨a1, a2, a3, a4, a5, a6, _⟩ := step false [] (Or.inr rfl) h
              refine ⟨a1, a2, a3, a4, a5, a6, ?_⟩
              intro hv
              subst hv
              exact absurd h (false_stays _ _ _ _)
            | cons b rr =>
              simp only at h
              by_cases hcb : c = b
              · rw [if_pos hcb] at h
                obtain ⟨a1, a2, a3, a4, a5, a6, a7⟩ := step true rr (Or.inl (by simp)) h
                refine ⟨a1, a2, a3, a4, a5, a6, ?_⟩
                intro hv
                have := a7 hv rfl
                simp only [List.length_cons]
                omega
              · rw [if_neg hcb] at h
                obtain ⟨a1, a2, a3, a4, a5, a6, _⟩ := step false (b :: rr) (Or.inr rfl) h
                refine ⟨a1, a2, a3, a4, a5, a6, ?_⟩
                intro hv
                subst hv
                exact absurd h (false_stays _ _ _ _)
    · subst hr
      simp only [Prod.mk.injEq] at h
      obtain ⟨rfl, rfl⟩ := h
      exact ⟨ef.law, ef.calls, np_of_ne (by decide), hneed, ef.held, fun _ _ hv => (nomatch hv), fun hv => (nomatch hv)⟩
    · subst hr
      simp only [Prod.mk.injEq] at h
      obtain ⟨rfl, rfl⟩ := h
      refine ⟨ef.law, ef.calls, np_ok _, hneed, ef.held, ?_, ?_⟩
      · intro hpos _ _
        exfalso
        have := ensure_of_le 1 s hpos
        rw [he] at this
        cases this
      · intro hv
        simp only [Except.ok.injEq, Bool.and_eq_true, List.isEmpty_iff] at hv
        rw [hv.2]
        have := ef.law.bys
        simp only [List.length_nil]
        omega

/-- `skipStringIs want`: one string-level operation; it allocates at most `|want| + 1` bytes (the
    `GetBytes` of a string exactly as long as `want`), paid for by the bytes it consumes; a
    positive answer means at least `|want|` bytes were consumed -/
theorem skipStringIs_facts (want : Bytes) (s : St) (r : Except Err Bool) (s' : St) (h : skipStringIs want s = (r, s')) :
    Law s s' 1 0 ∧ r ≠ .error .panic ∧ s'.m.calls ≤ s.m.calls + 1 ∧ CapLaw (max 8 (want.length + 1)) s s' ∧
    (0 < s.bl → ∀ v, r = .ok v → s'.bl + s'.sb + 1 ≤ s.bl + s.sb) ∧
    (r = .ok true → s'.bl + s'.sb + want.length ≤ s.bl + s.sb) := by
  unfold skipStringIs at h
  simp only at h
  by_cases henc : s.call.enc = true
  · rw [if_pos henc] at h
    generalize hg : getInt32 s.call = gr at h
    obtain ⟨r1, s1⟩ := gr
    obtain ⟨f1, g1⟩ := getInt32_facts _ _ _ hg
    have cap1 : CapLaw (max 8 (want.length + 1)) s s1 := (f1.cap.mono (Nat.le_max_left _ _)).of_call
    cases r1 with
    | error e =>
      simp only [Prod.mk.injEq] at h
      obtain ⟨rfl, rfl⟩ := h
      refine ⟨f1.law.of_call, ?_, by rw [f1.calls]; simp, cap1, fun _ _ hv => (nomatch hv), fun hv => (nomatch hv)⟩
      intro hh; cases hh; exact f1.np rfl
    | ok len =>
      simp only at h
      have g8 := g1 len rfl
      simp only [St.bl, St.sb, call_d] at g8
      by_cases hl : len = (want.length : Int) ∨ len = (want.length : Int) + 1
      · rw [if_pos hl] at h
        generalize hb : getBytes len s1 = br at h
        obtain ⟨r2, s2⟩ := br
        have f2 := getBytes_facts _ _ _ _ hb
        have hln : len.toNat ≤ max 8 (want.length + 1) := by omega
        have cap2 : CapLaw (max 8 (want.length + 1)) s s2 := cap1.trans (f2.cap.mono hln)
        have l12 : Law s s2 1 0 := by simpa using (f1.law.trans f2.law).of_call
        have hcalls : s2.m.calls ≤ s.m.calls + 1 := by rw [f2.calls, f1.calls]; simp
        have hby := f2.law.bys
        cases r2 with
        | error e =>
          simp only [Prod.mk.injEq] at h
          obtain ⟨rfl, rfl⟩ := h
          exact ⟨l12, np_of_ne (fun hh => f2.np (by rw [hh])), hcalls, cap2, fun _ _ hv => (nomatch hv), fun hv => (nomatch hv)⟩
        | ok data =>
          simp only [Prod.mk.injEq] at h
          obtain ⟨rfl, rfl⟩ := h
          refine ⟨l12, np_ok _, hcalls, cap2, ?_, ?_⟩
          · intro _ _ _
            simp only [St.bl, St.sb] at hby ⊢
            omega
          · intro _
            -- eight bytes of length prefix already cover `|want|`... only when |want| ≤ 8; in general
            -- the data bytes do: `getBytes` consumed `len ≥ |want|` bytes
            unfold getBytes at hb
            by_cases hle : len ≤ 0
            · -- |want| = 0
              have hw : want.length = 0 := by omega
              rw [hw]
              simp only [St.bl, St.sb] at hby ⊢
              omega
            · rw [if_neg hle] at hb
              generalize he : ensure len.toNat s1 = er at hb
              obtain ⟨r3, s3⟩ := er
              have ef := ensure_facts _ _ _ _ he
              cases r3 with
              | error e => simp at hb
              | ok u =>
                simp only [Prod.mk.injEq] at hb
                obtain ⟨_, rfl⟩ := hb
                have hk : len.toNat ≤ s3.bl := ef.okLen rfl
                have hd := drop_bl s3 len.toNat hk
                have hc := ef.conserve
                simp only [St.bl, St.sb, hold_d, addAlloc_d, setBuf_d_buf, setBuf_d_src] at hd hc ⊢
                omega
      · rw [if_neg hl] at h
        generalize hd : discard (s1.nsrc + 2) len.toNat s1 = dr at h
        obtain ⟨r2, s2⟩ := dr
        obtain ⟨l2, c2, n2, nd2, hd2⟩ := discard_facts _ _ _ _ _ hd
        have cap2 : CapLaw (max 8 (want.length + 1)) s s2 := by
          refine ⟨?_, ?_⟩
          · have := cap1.need; omega
          · have := cap1.held; omega
        have l12 : Law s s2 1 0 := by simpa using (f1.law.trans l2).of_call
        have hcalls : s2.m.calls ≤ s.m.calls + 1 := by rw [c2, f1.calls]; simp
        have hby := l2.bys
        cases r2 with
        | error e =>
          simp only [Prod.mk.injEq] at h
          obtain ⟨rfl, rfl⟩ := h
          exact ⟨l12, np_of_ne (fun hh => n2 (by rw [hh])), hcalls, cap2, fun _ _ hv => (nomatch hv), fun hv => (nomatch hv)⟩
        | ok u =>
          simp only [Prod.mk.injEq] at h
          obtain ⟨rfl, rfl⟩ := h
          refine ⟨l12, np_ok _, hcalls, cap2, ?_, fun hv => by simp at hv⟩
          intro _ _ _
          simp only [St.bl, St.sb] at hby ⊢
          omega
  · rw [if_neg henc] at h
    obtain ⟨l, c, n, nd, hd, pr, tr⟩ := skipIsC_facts _ _ _ _ _ _ h
    refine ⟨by simpa using l.of_call, n, by rw [c]; simp, ⟨?_, ?_⟩, ?_, ?_⟩
    · simp only [call_need] at nd; omega
    · simp only [call_held] at hd; omega
    · intro hpos v hv
      have := pr (by simpa [St.bl] using hpos) v hv
      simpa [St.bl, St.sb] using this
    · intro hv
      have := tr hv
      simpa [St.bl, St.sb] using this

theorem skipSecret_facts (s : St) (r : Except Err Unit) (s' : St) (h : skipSecret s = (r, s')) :
    Law s s' 1 0 ∧ r ≠ .error .panic ∧ s'.m.calls ≤ s.m.calls + 1 ∧ CapLaw 8 s s' := by
  unfold skipSecret at h
  simp only at h
  generalize hg : skipString { s with enc := s.enc || s.key } = gr at h
  obtain ⟨r2, s2⟩ := gr
  simp only [Prod.mk.injEq] at h
  obtain ⟨rfl, rfl⟩ := h
  obtain ⟨l, n, c, cp, _⟩ := skipString_facts _ _ _ hg
  have hs1 : SameBut s { s with enc := s.enc || s.key } := ⟨rfl, rfl, rfl⟩
  have hs2 : SameBut { s2 with enc := s.enc } s2 := ⟨rfl, rfl, rfl⟩
  exact ⟨l.same hs1 hs2 rfl, n, c, ⟨cp.need, cp.held⟩⟩

theorem skipLoop_facts : ∀ (n : Nat) (s : St) (r : Except Err Unit) (s' : St),
    skipLoop n s = (r, s') → Law s s' 1 0 ∧ r ≠ .error .panic ∧ CapLaw 8 s s' := by
  intro n
  induction n with
  | zero =>
    intro s r s' h
    simp only [skipLoop, Prod.mk.injEq] at h
    obtain ⟨rfl, rfl⟩ := h
    exact ⟨(Law.refl s).mono (Nat.zero_le _) (Nat.le_refl _), np_ok _, CapLaw.refl _ _⟩
  | succ n ih =>
    intro s r s' h
    simp only [skipLoop] at h
    generalize he : ensure 1 s = er at h
    obtain ⟨r1, s1⟩ := er
    have ef := ensure_facts 1 s r1 s1 he
    have cap1 : CapLaw 8 s s1 := ef.capLaw.mono (by decide)
    cases r1 with
    | error e =>
      simp only [Prod.mk.injEq] at h
      obtain ⟨rfl, rfl⟩ := h
      exact ⟨ef.law.mono (Nat.zero_le _) (Nat.le_refl _), np_of_ne ef.err_ne, cap1⟩
    | ok u =>
      simp only at h
      have hbl : 0 < s1.bl := ef.okLen rfl
      generalize hg : skipStringIs secretMarker s1 = gr at h
      obtain ⟨r2, s2⟩ := gr
      obtain ⟨l2, n2, c2, cp2', pr2, tr2⟩ := skipStringIs_facts _ _ _ _ hg
      have cp2 : CapLaw 8 s1 s2 := by
        have h3 := secretMarker_length
        exact ⟨by have := cp2'.need; omega, by have := cp2'.held; omega⟩
      have hc1 := ef.calls
      have hcons := ef.conserve
      cases r2 with
      | error e =>
        simp only [Prod.mk.injEq] at h
        obtain ⟨rfl, rfl⟩ := h
        exact ⟨by simpa using ef.law.trans l2, np_of_ne (fun hh => n2 (by rw [hh])), cap1.trans cp2⟩
      | ok isMarker =>
        simp only at h
        have hp := pr2 hbl isMarker rfl
        cases isMarker with
        | true =>
          simp only [if_true] at h
          have h3 := tr2 rfl
          rw [secretMarker_length] at h3
          generalize hs : skipSecret s2 = sr at h
          obtain ⟨r3, s3⟩ := sr
          obtain ⟨l3, n3, c3, cp3⟩ := skipSecret_facts _ _ _ hs
          -- two string-level operations, at least three bytes consumed
          have l13 : Law s s3 0 0 := by
            obtain ⟨e, k, f, m, b, c, a⟩ := (ef.law.trans l2).trans l3
            have hb3 := l3.bys
            exact ⟨e, k, f, m, b, by omega, a⟩
          cases r3 with
          | error e =>
            simp only [Prod.mk.injEq] at h
            obtain ⟨rfl, rfl⟩ := h
            exact ⟨l13.mono (Nat.zero_le _) (Nat.le_refl _), n3, (cap1.trans cp2).trans cp3⟩
          | ok u3 =>
            simp only at h
            obtain ⟨l4, n4, cp4⟩ := ih _ _ _ h
            exact ⟨by simpa using l13.trans l4, n4, ((cap1.trans cp2).trans cp3).trans cp4⟩
        | false =>
          simp only [Bool.false_eq_true, if_false] at h
          obtain ⟨l3, n3, cp3⟩ := ih _ _ _ h
          have l12 : Law s s2 0 0 := by
            obtain ⟨e, k, f, m, b, c, a⟩ := ef.law.trans l2
            exact ⟨e, k, f, m, b, by omega, a⟩
          exact ⟨by simpa using l12.trans l3, n3, (cap1.trans cp2).trans cp3⟩

/-! ## the budgeted strings of the (capped) ClassAd reader -/

structure AdStrFacts (cap : Nat) (s : St) (r : Except Err (Bytes × Nat)) (s' : St) : Prop where
  law : Law s s' 1 0
  np : r ≠ .error .panic
  calls : s'.m.calls ≤ s.m.calls + 1
  consumed : ∀ v t, r = .ok (v, t) → s'.bl + s'.sb + v.length ≤ s.bl + s.sb
  capLaw : 0 < cap → CapLaw (max cap 8) s s'
  resLen : 0 < cap → ∀ v t, r = .ok (v, t) → v.length ≤ cap

theorem sub_max_le (cap total : Nat) : max (cap - total) 8 ≤ max cap 8 := by omega

theorem adString_facts (cap total : Nat) (s : St) (r : Except Err (Bytes × Nat)) (s' : St)
    (h : adString cap total s = (r, s')) : AdStrFacts cap s r s' := by
  unfold adString at h
  by_cases hc : cap = 0
  · rw [if_pos hc] at h
    generalize hg : getString s = gr at h
    obtain ⟨r1, s1⟩ := gr
    have f := (getString_facts _ _ _ hg).1
    cases r1 with
    | error e =>
      simp only [Prod.mk.injEq] at h
      obtain ⟨rfl, rfl⟩ := h
      exact ⟨f.law, np_of_ne (fun hh => f.np (by rw [hh])), f.calls, fun _ _ hv => (nomatch hv), fun h0 => absurd hc (by omega), fun h0 => absurd hc (by omega)⟩
    | ok v =>
      simp only [Prod.mk.injEq] at h
      obtain ⟨rfl, rfl⟩ := h
      refine ⟨f.law, np_ok _, f.calls, ?_, fun h0 => absurd hc (by omega), fun h0 => absurd hc (by omega)⟩
      intro w t hw
      cases hw
      exact f.consumed _ rfl
  · rw [if_neg hc] at h
    by_cases ht : total ≥ cap
    · rw [if_pos ht] at h
      simp only [Prod.mk.injEq] at h
      obtain ⟨rfl, rfl⟩ := h
      exact ⟨(Law.refl s).mono (Nat.zero_le _) (Nat.le_refl _), np_of_ne (by decide), Nat.le_succ _, fun _ _ hv => (nomatch hv), fun _ => CapLaw.refl _ _, fun _ _ _ hv => (nomatch hv)⟩
    · rw [if_neg ht] at h
      generalize hg : getStringMax (cap - total) s = gr at h
      obtain ⟨r1, s1⟩ := gr
      have f := getStringMax_facts _ _ _ _ hg
      have cl : CapLaw (max cap 8) s s1 := f.capLaw.mono (sub_max_le cap total)
      cases r1 with
      | error e =>
        simp only [Prod.mk.injEq] at h
        obtain ⟨rfl, rfl⟩ := h
        exact ⟨f.str.law, np_of_ne (fun hh => f.str.np (by rw [hh])), f.str.calls, fun _ _ hv => (nomatch hv), fun _ => cl, fun _ _ _ hv => (nomatch hv)⟩
      | ok v =>
        simp only [Prod.mk.injEq] at h
        obtain ⟨rfl, rfl⟩ := h
        refine ⟨f.str.law, np_ok _, f.str.calls, ?_, fun _ => cl, ?_⟩
        · intro w t hw
          cases hw
          exact f.str.consumed _ rfl
        · intro _ w t hw
          cases hw
          have := f.resLen _ rfl
          omega

theorem adSecret_facts (cap total : Nat) (s : St) (r : Except Err (Bytes × Nat)) (s' : St)
    (h : adSecret cap total s = (r, s')) : AdStrFacts cap s r s' := by
  unfold adSecret at h
  by_cases hc : cap = 0
  · rw [if_pos hc] at h
    generalize hg : getSecret 0 s = gr at h
    obtain ⟨r1, s1⟩ := gr
    have f := (getSecret_facts _ _ _ _ hg).1
    cases r1 with
    | error e =>
      simp only [Prod.mk.injEq] at h
      obtain ⟨rfl, rfl⟩ := h
      exact ⟨f.law, np_of_ne (fun hh => f.np (by rw [hh])), f.calls, fun _ _ hv => (nomatch hv), fun h0 => absurd hc (by omega), fun h0 => absurd hc (by omega)⟩
    | ok v =>
      simp only [Prod.mk.injEq] at h
      obtain ⟨rfl, rfl⟩ := h
      refine ⟨f.law, np_ok _, f.calls, ?_, fun h0 => absurd hc (by omega), fun h0 => absurd hc (by omega)⟩
      intro w t hw
      cases hw
      exact f.consumed _ rfl
  · rw [if_neg hc] at h
    by_cases ht : total ≥ cap
    · rw [if_pos ht] at h
      simp only [Prod.mk.injEq] at h
      obtain ⟨rfl, rfl⟩ := h
      exact ⟨(Law.refl s).mono (Nat.zero_le _) (Nat.le_refl _), np_of_ne (by decide), Nat.le_succ _, fun _ _ hv => (nomatch hv), fun _ => CapLaw.refl _ _, fun _ _ _ hv => (nomatch hv)⟩
    · rw [if_neg ht] at h
      generalize hg : getSecret (cap - total) s = gr at h
      obtain ⟨r1, s1⟩ := gr
      obtain ⟨f, fc⟩ := getSecret_facts _ _ _ _ hg
      obtain ⟨cl0, rl⟩ := fc (by omega)
      have cl : CapLaw (max cap 8) s s1 := cl0.mono (sub_max_le cap total)
      cases r1 with
      | error e =>
        simp only [Prod.mk.injEq] at h
        obtain ⟨rfl, rfl⟩ := h
        exact ⟨f.law, np_of_ne (fun hh => f.np (by rw [hh])), f.calls, fun _ _ hv => (nomatch hv), fun _ => cl, fun _ _ _ hv => (nomatch hv)⟩
      | ok v =>
        simp only [Prod.mk.injEq] at h
        obtain ⟨rfl, rfl⟩ := h
        refine ⟨f.law, np_ok _, f.calls, ?_, fun _ => cl, ?_⟩
        · intro w t hw
          cases hw
          exact f.consumed _ rfl
        · intro _ w t hw
          cases hw
          have := rl _ rfl
          omega

theorem AdStrFacts.str {cap : Nat} {s s' : St} {v : Bytes} {t : Nat} (f : AdStrFacts cap s (.ok (v, t)) s') :
    StrFacts s (.ok v) s' :=
  ⟨f.law, np_ok _, f.calls, fun w hw => by cases hw; exact f.consumed v t rfl⟩

theorem exprOK_length {pfail : Option Nat} {i : Nat} {e : Bytes} (h : exprOK pfail i e = true) : 1 ≤ e.length := by
  cases e with
  | nil => simp [exprOK] at h
  | cons a t => simp

theorem CapLaw.weaken0 {c : Nat} {s s' : St} (h : 0 < c → CapLaw (max c 8) s s') (hc : 0 < c) : CapLaw (max c 8) s s' := h hc

theorem adLoop_facts (cap : Nat) (pfail : Option Nat) : ∀ (n i total : Nat) (s : St) (r : Except Err Nat) (s' : St),
    adLoop cap pfail n i total s = (r, s') →
    LawQ s s' 2 0 ∧ r ≠ .error .panic ∧ (0 < cap → CapLaw (max cap 8) s s') := by
  intro n
  induction n with
  | zero =>
    intro i total s r s' h
    simp only [adLoop, Prod.mk.injEq] at h
    obtain ⟨rfl, rfl⟩ := h
    exact ⟨(LawQ.refl s).mono (Nat.zero_le _) (Nat.le_refl _), np_ok _, fun _ => CapLaw.refl _ _⟩
  | succ n ih =>
    intro i total s r s' h
    simp only [adLoop] at h
    generalize hg : adString cap total s = gr at h
    obtain ⟨r1, s1⟩ := gr
    have f1 := adString_facts _ _ _ _ _ hg
    cases r1 with
    | error e =>
      simp only [Prod.mk.injEq] at h
      obtain ⟨rfl, rfl⟩ := h
      exact ⟨f1.law.toQ.mono (by omega) (Nat.le_refl _), np_of_ne (fun hh => f1.np (by rw [hh])), f1.capLaw⟩
    | ok p =>
      obtain ⟨e0, t1⟩ := p
      simp only at h
      have c1 := f1.consumed e0 t1 rfl
      by_cases hm : e0 = secretMarker
      · rw [if_pos hm] at h
        generalize hs : adSecret cap t1 s1 = sr at h
        obtain ⟨r2, s2⟩ := sr
        have f2 := adSecret_facts _ _ _ _ _ hs
        cases r2 with
        | error e =>
          simp only [Prod.mk.injEq] at h
          obtain ⟨rfl, rfl⟩ := h
          exact ⟨by simpa using f1.law.toQ.trans f2.law.toQ, np_of_ne (fun hh => f2.np (by rw [hh])), fun hc => (f1.capLaw hc).trans (f2.capLaw hc)⟩
        | ok q =>
          obtain ⟨ex, t2⟩ := q
          simp only at h
          have h3 : e0.length = 3 := by rw [hm]; exact secretMarker_length
          have rl := round_law (r2 := .ok e0) f1.str (by omega) (Or.inl ⟨hm, f2.str⟩) 0 (Nat.zero_le _) rfl
          have rl' : LawQ s s2 0 0 := rl
          by_cases hok : exprOK pfail i ex = true
          · rw [if_pos hok] at h
            obtain ⟨l4, n4, c4⟩ := ih _ _ _ _ _ h
            exact ⟨by simpa using rl'.trans l4, n4, fun hc => ((f1.capLaw hc).trans (f2.capLaw hc)).trans (c4 hc)⟩
          · rw [if_neg hok] at h
            simp only [Prod.mk.injEq] at h
            obtain ⟨rfl, rfl⟩ := h
            exact ⟨rl'.mono (Nat.zero_le _) (Nat.le_refl _), np_of_ne (by decide), fun hc => (f1.capLaw hc).trans (f2.capLaw hc)⟩
      · rw [if_neg hm] at h
        simp only at h
        by_cases hok : exprOK pfail i e0 = true
        · rw [if_pos hok] at h
          have hl := exprOK_length hok
          have rl := round_law (r2 := .ok e0) (ex := e0) (s3 := s1) f1.str (by omega) (Or.inr ⟨rfl, rfl⟩) 0 (Nat.zero_le _) rfl
          have rl' : LawQ s s1 0 0 := rl
          obtain ⟨l4, n4, c4⟩ := ih _ _ _ _ _ h
          exact ⟨by simpa using rl'.trans l4, n4, fun hc => (f1.capLaw hc).trans (c4 hc)⟩
        · rw [if_neg hok] at h
          simp only [Prod.mk.injEq] at h
          obtain ⟨rfl, rfl⟩ := h
          exact ⟨f1.law.toQ.mono (by omega) (Nat.le_refl _), np_of_ne (by decide), f1.capLaw⟩

end Cedar.Decode
