/-
  Helper lemmas for C11 (Token model): the step monads, what each receive step has read and
  checked when it ends without an error, token validation as a predicate.
-/
import CedarModel.Token

namespace Cedar.Token
open Cedar
set_option linter.unusedSimpArgs false

deriving instance DecidableEq for Except

/-! ### the two monads -/

@[simp] theorem Act.bind_eq {α β : Type} (x : Act α) (f : α → Act β) : (x >>= f) = Act.andThen x f := rfl
@[simp] theorem Act.pure_eq {α : Type} (a : α) : (pure a : Act α) = Act.ret a := rfl
@[simp] theorem Rd.bind_eq {α β : Type} (x : Rd α) (f : α → Rd β) : (x >>= f) = Rd.andThen x f := rfl
@[simp] theorem Rd.pure_eq {α : Type} (a : α) : (pure a : Rd α) = Rd.ret a := rfl

theorem Act.andThen_ok {α β : Type} (x : Act α) (f : α → Act β) (s : AuthData) (r : β × AuthData) :
    Act.andThen x f s = .ok r ↔ ∃ a s1, x s = .ok (a, s1) ∧ f a s1 = .ok r := by
  unfold Act.andThen
  cases h : x s with
  | error e => simp
  | ok p =>
    obtain ⟨a, s1⟩ := p
    simp only [Except.ok.injEq, Prod.mk.injEq]
    constructor
    · intro hf; exact ⟨a, s1, ⟨rfl, rfl⟩, hf⟩
    · rintro ⟨a', s', ⟨rfl, rfl⟩, hf⟩; exact hf

theorem Rd.andThen_ok {α β : Type} (x : Rd α) (f : α → Rd β) (d : Dec) (r : β × Dec) :
    Rd.andThen x f d = .ok r ↔ ∃ a d1, x d = .ok (a, d1) ∧ f a d1 = .ok r := by
  unfold Rd.andThen
  cases h : x d with
  | error e => simp
  | ok p =>
    obtain ⟨a, d1⟩ := p
    simp only [Except.ok.injEq, Prod.mk.injEq]
    constructor
    · intro hf; exact ⟨a, d1, ⟨rfl, rfl⟩, hf⟩
    · rintro ⟨a', d', ⟨rfl, rfl⟩, hf⟩; exact hf

@[simp] theorem Act.ret_ok {α : Type} (a : α) (s : AuthData) (r : α × AuthData) : Act.ret a s = .ok r ↔ r = (a, s) := by
  unfold Act.ret; constructor <;> intro h
  · cases h; rfl
  · rw [h]
@[simp] theorem Rd.ret_ok {α : Type} (a : α) (d : Dec) (r : α × Dec) : Rd.ret a d = .ok r ↔ r = (a, d) := by
  unfold Rd.ret; constructor <;> intro h
  · cases h; rfl
  · rw [h]
@[simp] theorem Act.fail_ok {α : Type} (e : TErr) (s : AuthData) (r : α × AuthData) : (Act.fail e : Act α) s = .ok r ↔ False := by
  unfold Act.fail; simp
@[simp] theorem failAuth_ok {α : Type} (e : Rej) (s : AuthData) (r : α × AuthData) : (failAuth e : Act α) s = .ok r ↔ False := by
  unfold failAuth; simp
@[simp] theorem Rd.fail_ok {α : Type} (e : TErr) (d : Dec) (r : α × Dec) : (Rd.fail e : Rd α) d = .ok r ↔ False := by
  unfold Rd.fail; simp
@[simp] theorem Act.getS_ok (s : AuthData) (r : AuthData × AuthData) : Act.getS s = .ok r ↔ r = (s, s) := by
  unfold Act.getS; constructor <;> intro h
  · cases h; rfl
  · rw [h]
@[simp] theorem Act.modS_ok (f : AuthData → AuthData) (s : AuthData) (r : Unit × AuthData) : Act.modS f s = .ok r ↔ r = ((), f s) := by
  unfold Act.modS; constructor <;> intro h
  · cases h; rfl
  · rw [h]

theorem lift_ok {α : Type} (r : Rd α) (s : AuthData) (x : α × AuthData) :
    lift r s = .ok x ↔ ∃ d, r s.msg = .ok (x.1, d) ∧ x.2 = { s with msg := d } := by
  unfold lift
  cases h : r s.msg with
  | error e => obtain ⟨e, d⟩ := e; simp
  | ok p =>
    obtain ⟨a, d⟩ := p
    obtain ⟨x1, x2⟩ := x
    simp only [Except.ok.injEq, Prod.mk.injEq]
    constructor
    · rintro ⟨rfl, rfl⟩; exact ⟨d, ⟨rfl, rfl⟩, rfl⟩
    · rintro ⟨d', ⟨rfl, rfl⟩, rfl⟩; exact ⟨rfl, rfl⟩

/-- if-then-else whose `then` branch cannot succeed -/
theorem Act.ite_ok {α : Type} (c : Prop) [Decidable c] (x y : Act α) (s : AuthData) (r : α × AuthData) :
    (if c then x else y) s = .ok r ↔ (c ∧ x s = .ok r) ∨ (¬ c ∧ y s = .ok r) := by
  by_cases h : c <;> simp [h]
theorem Rd.ite_ok {α : Type} (c : Prop) [Decidable c] (x y : Rd α) (d : Dec) (r : α × Dec) :
    (if c then x else y) d = .ok r ↔ (c ∧ x d = .ok r) ∨ (¬ c ∧ y d = .ok r) := by
  by_cases h : c <;> simp [h]

/-! ### the three messages as sequences of fields (specification readers) -/

/-- message 1 in reading order: status, id, token, length and bytes of RA -/
structure W1 where
  status : Int
  id : Bytes
  token : Bytes
  raLen : Int
  ra : Bytes
  deriving DecidableEq, Repr

/-- message 2: status, id echo, server id, RA echo, RB, proof -/
structure W2 where
  status : Int
  id : Bytes
  sid : Bytes
  raLen : Int
  ra : Bytes
  rbLen : Int
  rb : Bytes
  macLen : Int
  mac : Bytes
  deriving DecidableEq, Repr

/-- message 3: status, id, RB echo, proof -/
structure W3 where
  status : Int
  id : Bytes
  rbLen : Int
  rb : Bytes
  macLen : Int
  mac : Bytes
  deriving DecidableEq, Repr

/-- a whole message 1: a fresh message, the fields, and nothing after them -/
def Rd.m1 : Rd W1 := do
  Rd.newMessage
  let st ← Rd.int
  let id ← Rd.idString
  let tok ← Rd.token
  let n ← Rd.int
  let ra ← Rd.bytes n
  Rd.checkEOM
  pure ⟨st, id, tok, n, ra⟩

/-- a whole message 3: a fresh message, the fields, and nothing after them -/
def Rd.m3 : Rd W3 := do
  Rd.newMessage
  let st ← Rd.int
  let id ← Rd.idString
  let n ← Rd.int
  let rb ← Rd.bytes n
  let k ← Rd.int
  let mac ← Rd.bytes k
  Rd.checkEOM
  pure ⟨st, id, n, rb, k, mac⟩

/-- message 2 as the client reads it: a fresh message and the fields (the client does not look
    at what follows the proof) -/
def Rd.m2 : Rd W2 := do
  Rd.newMessage
  let st ← Rd.int
  let id ← Rd.idString
  let sid ← Rd.idString
  let n ← Rd.int
  let ra ← Rd.bytes n
  let m ← Rd.int
  let rb ← Rd.bytes m
  let k ← Rd.int
  let mac ← Rd.bytes k
  pure ⟨st, id, sid, n, ra, m, rb, k, mac⟩

/-! ### `storeAuthError` -/

theorem store_err_ne (s : AuthData) (r : Rej) : (s.store r).err ≠ none := by
  unfold AuthData.store
  cases h : s.err <;> simp [h]

theorem store_err_of_none (s : AuthData) (r : Rej) (h : s.err = none) : s.store r = { s with err := some r } := by
  unfold AuthData.store; rw [h]

theorem lift_ok_err {α : Type} (r : Rd α) (s s' : AuthData) (a : α) (h : lift r s = .ok (a, s')) : s'.err = s.err := by
  rw [lift_ok] at h
  obtain ⟨d, _, h2⟩ := h
  simp only at h2
  rw [h2]

/-! ### the receive steps, when they end without an error -/

theorem srvRecv1_ok (s s' : AuthData) :
    srvRecv1 s = .ok ((), s') ∧ s'.err = none ↔
    s.err = none ∧ ∃ w d, Rd.m1 s.msg = .ok (w, d) ∧ w.status = authOK ∧ w.raLen ≤ (keyLen : Int) ∧
      s' = { s with clientID := w.id, token := w.token, ra := w.ra, msg := d } := by
  unfold srvRecv1 srvRecv1Err srvRecv1OK Rd.m1 newMessage rdIDString rdToken rdInt rdBytes checkEOM skipField
  simp only [Act.bind_eq, Rd.bind_eq, Act.andThen_ok, Rd.andThen_ok, lift_ok, Act.modS_ok, Act.ite_ok,
    Act.fail_ok, Rd.pure_eq, Rd.ret_ok, and_false, false_or, Prod.mk.injEq, Classical.not_not, ne_eq]
  constructor
  · rintro ⟨⟨_, _, ⟨d0, h0, rfl⟩, st, _, ⟨d1, h1, rfl⟩, hbr⟩, herr⟩
    rcases hbr with ⟨_, _, _, ⟨_, rfl⟩, _, _, ⟨_, _, rfl⟩, _, _, ⟨_, _, rfl⟩, _, _, rfl⟩ | ⟨hne, hst, id, _, ⟨d2, h2, rfl⟩, _, _,
      ⟨_, rfl⟩, tok, _, ⟨d3, h3, rfl⟩, _, _, ⟨_, rfl⟩, n, _, ⟨d4, h4, rfl⟩, hn, ra, _, ⟨d5, h5, rfl⟩, _, _, ⟨_, rfl⟩, d6, h6, rfl⟩
    · exact absurd herr (store_err_ne _ _)
    · refine ⟨herr, ⟨st, id, tok, n, ra⟩, d6, ⟨(), d0, h0, st, d1, h1, id, d2, h2, tok, d3, h3, n, d4, h4, ra, d5, h5, (), d6, h6, rfl, rfl⟩,
        hst, Int.not_lt.mp hn, rfl⟩
  · rintro ⟨herr, w, d, ⟨_, d0, h0, st, d1, h1, id, d2, h2, tok, d3, h3, n, d4, h4, ra, d5, h5, _, d6, h6, hw, hd⟩, hst, hn, hs⟩
    subst hw hd hs
    simp only at hst hn
    refine ⟨⟨(), _, ⟨d0, h0, rfl⟩, st, _, ⟨d1, h1, rfl⟩, .inr ⟨?_, hst, id, _, ⟨d2, h2, rfl⟩, (), _, ⟨trivial, rfl⟩, tok, _, ⟨d3, h3, rfl⟩, (), _,
      ⟨trivial, rfl⟩, n, _, ⟨d4, h4, rfl⟩, Int.not_lt.mpr hn, ra, _, ⟨d5, h5, rfl⟩, (), _, ⟨trivial, rfl⟩, _, h6, rfl⟩⟩, herr⟩
    rw [hst]; decide

theorem srvRecv3_ok (env : Env) (s s' : AuthData) :
    srvRecv3 env s = .ok ((), s') ∧ s'.err = none ↔
    s.err = none ∧ ∃ w d, Rd.m3 s.msg = .ok (w, d) ∧ w.status = authOK ∧ w.id = s.clientID ∧ w.rbLen ≤ (keyLen : Int) ∧
      w.rb = s.rb ∧ env.macOf w.mac = .hmac s.key (macMsg3 s.clientID s.rb) ∧ s' = { s with msg := d } := by
  unfold srvRecv3 srvRecv3Err srvRecv3OK Rd.m3 newMessage rdIDString rdInt rdBytes checkEOM skipField
  simp only [Act.bind_eq, Rd.bind_eq, Act.andThen_ok, Rd.andThen_ok, lift_ok, Act.getS_ok, Act.modS_ok, Act.ite_ok, failAuth_ok,
    Act.fail_ok, Rd.pure_eq, Rd.ret_ok, and_false, false_or, Prod.mk.injEq, Classical.not_not, ne_eq]
  constructor
  · rintro ⟨⟨_, _, ⟨d0, h0, rfl⟩, st, _, ⟨d1, h1, rfl⟩, hbr⟩, herr⟩
    rcases hbr with ⟨_, _, _, ⟨_, rfl⟩, _, _, ⟨_, _, rfl⟩, _, _, ⟨_, _, rfl⟩, _, _, rfl⟩ | ⟨hne, hst, id, _, ⟨d2, h2, rfl⟩, _, _,
      ⟨rfl, rfl⟩, hid, n, _, ⟨d3, h3, rfl⟩, hn, rb, _, ⟨d4, h4, rfl⟩, hrb, k, _, ⟨d5, h5, rfl⟩, mac, _, ⟨d6, h6, rfl⟩, hmac, d7, h7, rfl⟩
    · exact absurd herr (store_err_ne _ _)
    · exact ⟨herr, ⟨st, id, n, rb, k, mac⟩, d7, ⟨(), d0, h0, st, d1, h1, id, d2, h2, n, d3, h3, rb, d4, h4, k, d5, h5, mac, d6, h6, (), d7, h7, rfl, rfl⟩,
        hst, hid, Int.not_lt.mp hn, hrb, hmac, rfl⟩
  · rintro ⟨herr, w, d, ⟨_, d0, h0, st, d1, h1, id, d2, h2, n, d3, h3, rb, d4, h4, k, d5, h5, mac, d6, h6, _, d7, h7, hw, hd⟩, hst, hid, hn, hrb, hmac, hs⟩
    subst hw hd hs
    simp only at hst hn hid hrb hmac
    refine ⟨⟨(), _, ⟨d0, h0, rfl⟩, st, _, ⟨d1, h1, rfl⟩, .inr ⟨?_, hst, id, _, ⟨d2, h2, rfl⟩, _, _, ⟨rfl, rfl⟩, hid, n, _, ⟨d3, h3, rfl⟩,
      Int.not_lt.mpr hn, rb, _, ⟨d4, h4, rfl⟩, hrb, k, _, ⟨d5, h5, rfl⟩, mac, _, ⟨d6, h6, rfl⟩, hmac, _, h7, rfl⟩⟩, herr⟩
    rw [hst]; decide

theorem cliRecv2_ok (env : Env) (s s' : AuthData) :
    cliRecv2 env s = .ok ((), s') ∧ s'.err = none ↔
    s.err = none ∧ ∃ w d, Rd.m2 s.msg = .ok (w, d) ∧ w.status = authOK ∧ w.id = s.clientID ∧ w.raLen ≤ (keyLen : Int) ∧
      w.ra = s.ra ∧ w.rbLen ≤ (keyLen : Int) ∧ env.macOf w.mac = .hmac s.key (macMsg2 s.clientID w.sid s.ra w.rb) ∧
      s' = { s with serverID := w.sid, rb := w.rb, msg := d } := by
  unfold cliRecv2 cliRecv2Err cliRecv2OK Rd.m2 newMessage rdIDString rdInt rdBytes skipField
  simp only [Act.bind_eq, Rd.bind_eq, Act.andThen_ok, Rd.andThen_ok, lift_ok, Act.getS_ok, Act.modS_ok, Act.ite_ok, failAuth_ok,
    Act.fail_ok, Act.pure_eq, Act.ret_ok, Rd.pure_eq, Rd.ret_ok, and_false, false_or, Prod.mk.injEq, Classical.not_not, ne_eq]
  constructor
  · rintro ⟨⟨_, _, ⟨d0, h0, rfl⟩, st, _, ⟨d1, h1, rfl⟩, hbr⟩, herr⟩
    rcases hbr with ⟨_, _, _, ⟨_, rfl⟩, _, _, ⟨_, _, rfl⟩, _, _, ⟨_, _, rfl⟩, _, _, ⟨_, _, rfl⟩, _, _, ⟨_, _, rfl⟩, _, _, rfl⟩ |
      ⟨hne, hst, id, _, ⟨d2, h2, rfl⟩, _, _, ⟨rfl, rfl⟩, hid, sid, _, ⟨d3, h3, rfl⟩, _, _, ⟨_, rfl⟩, n, _, ⟨d4, h4, rfl⟩, hn, ra, _, ⟨d5, h5, rfl⟩, hra,
       m, _, ⟨d6, h6, rfl⟩, hm, rb, _, ⟨d7, h7, rfl⟩, _, _, ⟨_, rfl⟩, k, _, ⟨d8, h8, rfl⟩, mac, _, ⟨d9, h9, rfl⟩, hmac, _, rfl⟩
    · exact absurd herr (store_err_ne _ _)
    · exact ⟨herr, ⟨st, id, sid, n, ra, m, rb, k, mac⟩, d9, ⟨(), d0, h0, st, d1, h1, id, d2, h2, sid, d3, h3, n, d4, h4, ra, d5, h5, m, d6, h6,
        rb, d7, h7, k, d8, h8, mac, d9, h9, rfl, rfl⟩, hst, hid, Int.not_lt.mp hn, hra, Int.not_lt.mp hm, hmac, rfl⟩
  · rintro ⟨herr, w, d, ⟨_, d0, h0, st, d1, h1, id, d2, h2, sid, d3, h3, n, d4, h4, ra, d5, h5, m, d6, h6, rb, d7, h7, k, d8, h8, mac, d9, h9, hw, hd⟩,
      hst, hid, hn, hra, hm, hmac, hs⟩
    subst hw hd hs
    simp only at hst hn hid hra hm hmac
    refine ⟨⟨(), _, ⟨d0, h0, rfl⟩, st, _, ⟨d1, h1, rfl⟩, .inr ⟨?_, hst, id, _, ⟨d2, h2, rfl⟩, _, _, ⟨rfl, rfl⟩, hid, sid, _, ⟨d3, h3, rfl⟩, (), _,
      ⟨trivial, rfl⟩, n, _, ⟨d4, h4, rfl⟩, Int.not_lt.mpr hn, ra, _, ⟨d5, h5, rfl⟩, hra, m, _, ⟨d6, h6, rfl⟩, Int.not_lt.mpr hm, rb, _, ⟨d7, h7, rfl⟩,
      (), _, ⟨trivial, rfl⟩, k, _, ⟨d8, h8, rfl⟩, mac, _, ⟨_, h9, rfl⟩, hmac, trivial, rfl⟩⟩, herr⟩
    rw [hst]; decide

/-! ### token validation as a predicate -/

def TimeValid (now maxAge : Int) (c : Claims) : Prop :=
  (match c.exp with | .bad => False | .num e => now < e | .absent => True) ∧
  (match c.iat with | .bad => False | .num i => ¬ (maxAge > 0 ∧ i < now - maxAge) | .absent => True) ∧
  (match c.nbf with | .bad => False | .num n => n ≤ now | .absent => True)

theorem checkTiming_ok (now ma : Int) (c : Claims) : checkTiming now ma c = .ok () ↔ TimeValid now ma c := by
  unfold checkTiming checkTiming.checkIat checkTiming.checkNbf TimeValid
  cases c.exp <;> cases c.iat <;> cases c.nbf <;> simp only [] <;> (try split) <;> (try split) <;> (try split) <;> simp <;> omega

def ValidToken (P : SrvCfg) (env : Env) (now : Int) (tok key : Bytes) (c : Claims) : Prop :=
  ∃ h p kidv, splitDots tok = [h, p] ∧ env.hdr h = .ok kidv ∧ kidv ≠ .nonStr ∧
    loadSigningKey P.ks (keyIdOf kidv) = some key ∧ env.claims p = .ok c ∧
    TimeValid now (maxAgeOf P.cfgMaxAge P.envMaxAge) c

theorem checkTokenPre_ok (P : SrvCfg) (env : Env) (now : Int) (tok key : Bytes) (c : Claims) :
    checkTokenPre P env now tok = .ok (key, c) ↔ ValidToken P env now tok key c := by
  unfold checkTokenPre ValidToken
  constructor
  · intro h
    split at h
    · simp at h
    · split at h
      · rename_i hh pp hsplit
        split at h <;> try (simp at h)
        rename_i kidv hnon hhdr
        split at h <;> try (simp at h)
        rename_i key' hkey
        split at h <;> try (simp at h)
        rename_i c' hc
        split at h <;> try (simp at h)
        rename_i htime
        obtain ⟨rfl, rfl⟩ := h
        exact ⟨hh, pp, kidv, hsplit, hhdr, fun e => hnon e, hkey, hc, (checkTiming_ok _ _ _).mp htime⟩
      · simp at h
  · rintro ⟨hh, pp, kidv, hsplit, hhdr, hnon, hkey, hc, htime⟩
    have hne : tok.isEmpty = false := by
      cases tok with
      | nil => simp [splitDots, splitOn] at hsplit
      | cons a t => rfl
    rw [if_neg (by simp [hne]), hsplit]
    simp only [hhdr]
    cases kidv with
    | nonStr => exact absurd rfl hnon
    | absent => simp only [hkey, hc, (checkTiming_ok _ _ _).mpr htime]
    | str k => simp only [hkey, hc, (checkTiming_ok _ _ _).mpr htime]

/-- `validate` with the initial read of the state resolved -/
def validateFrom (P : SrvCfg) (r : Except Rej (Bytes × Claims)) : Act Unit :=
  match r with
  | .error r => failAuth r
  | .ok (signingKey, c) => do
    Act.modS fun s => { s with clientID := [] }
    match c.sub with
    | .nonStr => failAuth .subType
    | .absent => failAuth .noSub
    | .str x =>
      if x.isEmpty then failAuth .noSub
      else
        Act.modS fun s =>
          let sg := Sig.sign signingKey s.token
          { s with clientID := x, sig := sg, serverID := serverIDOf P.trustDomain, key := .derive sg s.token }

theorem validate_eq (P : SrvCfg) (env : Env) (now : Int) (s : AuthData) :
    validate P env now s = validateFrom P (checkTokenPre P env now s.token) s := by
  unfold validate validateFrom
  rfl

theorem validate_ok (P : SrvCfg) (env : Env) (now : Int) (s s' : AuthData) :
    validate P env now s = .ok ((), s') ↔
    ∃ key c sub, ValidToken P env now s.token key c ∧ c.sub = .str sub ∧ sub ≠ [] ∧
      s' = { s with clientID := sub, sig := .sign key s.token, serverID := serverIDOf P.trustDomain,
                    key := .derive (.sign key s.token) s.token } := by
  rw [validate_eq]
  constructor
  · intro h
    cases hpre : checkTokenPre P env now s.token with
    | error r => rw [hpre] at h; simp [validateFrom] at h
    | ok kc =>
      obtain ⟨key, c⟩ := kc
      rw [hpre] at h
      simp only [validateFrom, Act.bind_eq, Act.andThen_ok, Act.modS_ok, Prod.mk.injEq] at h
      obtain ⟨_, _, ⟨_, rfl⟩, h⟩ := h
      cases hsub : c.sub with
      | absent => simp [hsub] at h
      | nonStr => simp [hsub] at h
      | str x =>
        simp only [hsub, Act.ite_ok, failAuth_ok, and_false, false_or, Act.modS_ok, Prod.mk.injEq, true_and] at h
        obtain ⟨hx, rfl⟩ := h
        refine ⟨key, c, x, (checkTokenPre_ok _ _ _ _ _ _).mp hpre, hsub, ?_, rfl⟩
        intro e; rw [e] at hx; exact hx rfl
  · rintro ⟨key, c, sub, hv, hsub, hne, rfl⟩
    have hpre := (checkTokenPre_ok _ _ _ _ _ _).mpr hv
    rw [hpre]
    simp only [validateFrom, Act.bind_eq, Act.andThen_ok, Act.modS_ok, Prod.mk.injEq]
    refine ⟨(), _, ⟨trivial, rfl⟩, ?_⟩
    have hx : ¬ (sub.isEmpty = true) := by
      cases sub with
      | nil => exact absurd rfl hne
      | cons a t => simp
    simp only [hsub, Act.ite_ok, failAuth_ok, and_false, false_or, Act.modS_ok]
    exact ⟨hx, trivial⟩

/-! ### steps inside `performTokenAuthentication…` -/

/-- a step after which no error is stored ended without any failure -/
theorem runStep_clean (x : Act Unit) (s s' : AuthData) :
    runStep x s = .ok s' ∧ s'.err = none ↔ x s = .ok ((), s') ∧ s'.err = none := by
  unfold runStep
  cases h : x s with
  | ok p => obtain ⟨u, s1⟩ := p; simp
  | error e =>
    obtain ⟨e, s1⟩ := e
    cases e with
    | net e => simp
    | auth r =>
      simp only [Except.ok.injEq, reduceCtorEq, false_and, iff_false, not_and]
      intro h1; rw [← h1]; exact store_err_ne _ _

/-- the state the server is in after a clean first half -/
def srvStateAfter (P : SrvCfg) (w1 : W1) (d1 : Dec) (key sub rb : Bytes) : AuthData :=
  { clientID := sub, serverID := serverIDOf P.trustDomain, ra := w1.ra, rb := rb, token := w1.token,
    sig := .sign key w1.token, key := .derive (.sign key w1.token) w1.token, err := none, msg := d1 }

theorem srvPhase1_clean (P : SrvCfg) (env : Env) (now : Int) (rb : Bytes) (m1 : List OutFrame) (s : AuthData) (m2 : M2) :
    srvPhase1 P env now rb m1 = .ok (s, m2) ∧ s.err = none ↔
    ∃ w1 d1 key c sub, Rd.m1 { src := m1 } = .ok (w1, d1) ∧ w1.status = authOK ∧ w1.raLen ≤ (keyLen : Int) ∧
      ValidToken P env now w1.token key c ∧ c.sub = .str sub ∧ sub ≠ [] ∧
      s = srvStateAfter P w1 d1 key sub rb ∧
      m2 = { status := authOK, clientID := sub, serverID := serverIDOf P.trustDomain, ra := w1.ra, rb := rb,
             mac := .hmac (.derive (.sign key w1.token) w1.token) (macMsg2 sub (serverIDOf P.trustDomain) w1.ra rb) } := by
  unfold srvPhase1
  constructor
  · rintro ⟨h, herr⟩
    simp only at h
    cases h1 : runStep srvRecv1 { msg := { src := m1 } } with
    | error e => simp [h1] at h
    | ok s1 =>
      simp only [h1] at h
      cases he1 : s1.err with
      | some r =>
        simp only [he1, Except.ok.injEq] at h
        unfold srvSend2 at h
        simp only [he1, Prod.mk.injEq] at h
        rw [← h.1, he1] at herr
        exact absurd herr (by simp)
      | none =>
        simp only [he1] at h
        cases h2 : runStep (validate P env now) s1 with
        | error e => simp [h2] at h
        | ok s2 =>
          simp only [h2, Except.ok.injEq] at h
          unfold srvSend2 at h
          cases he2 : s2.err with
          | some r =>
            simp only [he2, Prod.mk.injEq] at h
            rw [← h.1, he2] at herr
            exact absurd herr (by simp)
          | none =>
            simp only [he2, Prod.mk.injEq] at h
            obtain ⟨hs, hm2⟩ := h
            obtain ⟨hx1, _⟩ := (runStep_clean _ _ _).mp ⟨h1, he1⟩
            obtain ⟨_, w1, d1, hr1, hst, hn, rfl⟩ := (srvRecv1_ok _ _).mp ⟨hx1, he1⟩
            obtain ⟨hx2, _⟩ := (runStep_clean _ _ _).mp ⟨h2, he2⟩
            obtain ⟨key, c, sub, hv, hsub, hne, rfl⟩ := (validate_ok _ _ _ _ _).mp hx2
            refine ⟨w1, d1, key, c, sub, hr1, hst, hn, hv, hsub, hne, ?_, ?_⟩
            · rw [← hs]; rfl
            · rw [← hm2]
  · rintro ⟨w1, d1, key, c, sub, hr1, hst, hn, hv, hsub, hne, rfl, rfl⟩
    have hx1 := (srvRecv1_ok { msg := { src := m1 } } _).mpr ⟨rfl, w1, d1, hr1, hst, hn, rfl⟩
    have h1 := (runStep_clean _ _ _).mpr hx1
    simp only [h1.1]
    have hx2 := (validate_ok P env now { clientID := w1.id, token := w1.token, ra := w1.ra, msg := d1 } _).mpr
      ⟨key, c, sub, hv, hsub, hne, rfl⟩
    have h2 := (runStep_clean _ _ _).mpr ⟨hx2, rfl⟩
    simp only at h2
    simp only [h2.1]
    exact ⟨rfl, rfl⟩

theorem isEmpty_false_of_ne {α : Type} (l : List α) (h : l ≠ []) : l.isEmpty = false := by
  cases l with
  | nil => exact absurd rfl h
  | cons a t => rfl

theorem serverRun_accept (P : SrvCfg) (env : Env) (now : Int) (rb : Bytes) (m1 m3 : List OutFrame) (u : Option Bytes) :
    serverRun P env now rb m1 m3 = .accept u ↔
    ∃ w1 d1 key c sub w3 d3,
      Rd.m1 { src := m1 } = .ok (w1, d1) ∧ w1.status = authOK ∧ w1.raLen ≤ (keyLen : Int) ∧
      ValidToken P env now w1.token key c ∧ c.sub = .str sub ∧ sub ≠ [] ∧
      Rd.m3 { d1 with src := d1.src ++ m3 } = .ok (w3, d3) ∧ w3.status = authOK ∧ w3.id = sub ∧
      w3.rbLen ≤ (keyLen : Int) ∧ w3.rb = rb ∧
      env.macOf w3.mac = .hmac (.derive (.sign key w1.token) w1.token) (macMsg3 sub rb) ∧
      u = some (userPart sub) := by
  unfold serverRun
  constructor
  · intro h
    cases h1 : srvPhase1 P env now rb m1 with
    | error e => simp [h1] at h
    | ok sm =>
      obtain ⟨s, m2⟩ := sm
      simp only [h1] at h
      unfold srvPhase2 at h
      cases h3 : runStep (srvRecv3 env) (s.feed m3) with
      | error e => simp [h3] at h
      | ok s3 =>
        simp only [h3] at h
        cases he3 : s3.err with
        | some r => simp [he3] at h
        | none =>
          simp only [he3, Outcome.accept.injEq] at h
          obtain ⟨hx3, _⟩ := (runStep_clean _ _ _).mp ⟨h3, he3⟩
          obtain ⟨hes, w3, d3, hr3, hst3, hid, hn3, hrb, hmac, rfl⟩ := (srvRecv3_ok _ _ _).mp ⟨hx3, he3⟩
          have hes' : s.err = none := hes
          obtain ⟨w1, d1, key, c, sub, hr1, hst1, hn1, hv, hsub, hne, rfl, _⟩ := (srvPhase1_clean _ _ _ _ _ _ _).mp ⟨h1, hes'⟩
          refine ⟨w1, d1, key, c, sub, w3, d3, hr1, hst1, hn1, hv, hsub, hne, hr3, hst3, hid, hn3, hrb, hmac, ?_⟩
          rw [← h]
          simp [srvStateAfter, AuthData.feed, isEmpty_false_of_ne _ hne]
  · rintro ⟨w1, d1, key, c, sub, w3, d3, hr1, hst1, hn1, hv, hsub, hne, hr3, hst3, hid, hn3, hrb, hmac, rfl⟩
    obtain ⟨h1, _⟩ := (srvPhase1_clean P env now rb m1 _ _).mpr ⟨w1, d1, key, c, sub, hr1, hst1, hn1, hv, hsub, hne, rfl, rfl⟩
    simp only [h1]
    unfold srvPhase2
    have hx3 := (srvRecv3_ok env ((srvStateAfter P w1 d1 key sub rb).feed m3) _).mpr
      ⟨rfl, w3, d3, hr3, hst3, hid, hn3, hrb, hmac, rfl⟩
    obtain ⟨h3, _⟩ := (runStep_clean _ _ _).mpr hx3
    simp only [h3]
    simp [srvStateAfter, AuthData.feed, isEmpty_false_of_ne _ hne]

/-! ### client side -/

/-- the client could load its token: `tok` = header.payload, `sig` its signature, `sub` its subject -/
def ClientToken (env : Env) (tokenStr : Bytes) (usable : Bool) (tok : Bytes) (sig : Sig) (sub : Bytes) : Prop :=
  usable = true ∧ ∃ h p sg c, splitDots tokenStr = [h, p, sg] ∧ tok = h ++ [dot] ++ p ∧ env.sigOf sg = .ok sig ∧
    env.claims p = .ok c ∧ c.sub = .str sub ∧ sub ≠ []

theorem loadToken_ok (env : Env) (tokenStr : Bytes) (usable : Bool) (s' : AuthData) :
    loadToken env tokenStr usable {} = .ok ((), s') ↔
    ∃ tok sig sub, ClientToken env tokenStr usable tok sig sub ∧ s' = { token := tok, sig := sig, clientID := sub } := by
  unfold loadToken ClientToken
  simp only [Act.ite_ok, failAuth_ok, and_false, false_or]
  constructor
  · rintro ⟨hc, h⟩
    rcases hsplit : splitDots tokenStr with _ | ⟨hh, _ | ⟨pp, _ | ⟨sg, _ | ⟨x, r⟩⟩⟩⟩ <;> rw [hsplit] at h <;> try (simp at h; done)
    simp only [Act.bind_eq, Act.andThen_ok, Act.modS_ok, Prod.mk.injEq] at h
    obtain ⟨_, _, ⟨_, rfl⟩, h⟩ := h
    cases hsig : env.sigOf sg <;> rw [hsig] at h <;> try (simp at h; done)
    rename_i sig
    simp only [Act.bind_eq, Act.andThen_ok, Act.modS_ok, Prod.mk.injEq] at h
    obtain ⟨_, _, ⟨_, rfl⟩, h⟩ := h
    cases hcl : env.claims pp <;> rw [hcl] at h <;> try (simp at h; done)
    rename_i c
    cases hsub : c.sub <;> simp only [hsub] at h <;> try (simp at h; done)
    · simp [Act.andThen_ok] at h
      obtain ⟨_, _, ⟨rfl, rfl⟩, h⟩ := h
      simp at h
    · rename_i sub
      simp only [Act.bind_eq, Act.andThen_ok, Act.modS_ok, Act.getS_ok, Prod.mk.injEq, Act.ite_ok, failAuth_ok, and_false, false_or,
        Act.pure_eq, Act.ret_ok] at h
      obtain ⟨_, _, ⟨_, rfl⟩, _, _, ⟨rfl, rfl⟩, hne, _, rfl⟩ := h
      simp only [Bool.or_eq_true, Bool.not_eq_eq_eq_not, Bool.not_true, not_or, Bool.not_eq_false] at hc
      refine ⟨_, sig, sub, ⟨hc.2, hh, pp, sg, c, rfl, rfl, hsig, hcl, hsub, ?_⟩, rfl⟩
      intro e; rw [e] at hne; exact hne rfl
  · rintro ⟨tok, sig, sub, ⟨hu, hh, pp, sg, c, hsplit, rfl, hsig, hcl, hsub, hne⟩, rfl⟩
    have hts : tokenStr.isEmpty = false := by
      cases tokenStr with
      | nil => simp [splitDots, splitOn] at hsplit
      | cons a t => rfl
    refine ⟨by simp [hts, hu], ?_⟩
    rw [hsplit]
    simp only [Act.bind_eq, Act.andThen_ok, Act.modS_ok, Prod.mk.injEq]
    refine ⟨(), _, ⟨trivial, rfl⟩, ?_⟩
    rw [hsig]
    simp only [Act.bind_eq, Act.andThen_ok, Act.modS_ok, Prod.mk.injEq]
    refine ⟨(), _, ⟨trivial, rfl⟩, ?_⟩
    rw [hcl]
    simp only [hsub, Act.bind_eq, Act.andThen_ok, Act.modS_ok, Act.getS_ok, Prod.mk.injEq, Act.ite_ok, failAuth_ok, and_false, false_or,
        Act.pure_eq, Act.ret_ok]
    refine ⟨(), _, ⟨trivial, rfl⟩, _, _, ⟨rfl, rfl⟩, ?_, trivial, rfl⟩
    simp [isEmpty_false_of_ne _ hne]

/-- the state of a client that could load its token, after message 1 -/
def cliStateAfter (tok : Bytes) (sig : Sig) (sub ra : Bytes) : AuthData :=
  { token := tok, sig := sig, clientID := sub, key := .derive sig tok, ra := ra }

theorem cliPhase0_clean (env : Env) (tokenStr : Bytes) (usable : Bool) (ra : Bytes) (s : AuthData) (m1 : M1) :
    cliPhase0 env tokenStr usable ra = (s, m1) ∧ s.err = none ↔
    ∃ tok sig sub, ClientToken env tokenStr usable tok sig sub ∧ s = cliStateAfter tok sig sub ra ∧
      m1 = { status := authOK, clientID := sub, token := tok, ra := ra } := by
  unfold cliPhase0 cliSend1
  constructor
  · rintro ⟨h, herr⟩
    cases hl : loadToken env tokenStr usable {} with
    | error e =>
      obtain ⟨e, s1⟩ := e
      cases e with
      | net e =>
        simp only [hl] at h
        have hne := store_err_ne s1 .load
        cases he : (s1.store .load).err with
        | none => exact absurd he hne
        | some r =>
          simp only [he, Prod.mk.injEq] at h
          rw [← h.1, he] at herr; exact absurd herr (by simp)
      | auth r0 =>
        simp only [hl] at h
        have hne := store_err_ne s1 r0
        cases he : (s1.store r0).err with
        | none => exact absurd he hne
        | some r =>
          simp only [he, Prod.mk.injEq] at h
          rw [← h.1, he] at herr; exact absurd herr (by simp)
    | ok p =>
      obtain ⟨u, s1⟩ := p
      obtain ⟨tok, sig, sub, hct, rfl⟩ := (loadToken_ok _ _ _ _).mp hl
      simp only [hl, Prod.mk.injEq] at h
      exact ⟨tok, sig, sub, hct, h.1.symm, h.2.symm⟩
  · rintro ⟨tok, sig, sub, hct, rfl, rfl⟩
    have hl := (loadToken_ok env tokenStr usable _).mpr ⟨tok, sig, sub, hct, rfl⟩
    simp only [hl]
    exact ⟨rfl, rfl⟩

theorem clientRun_accept (env : Env) (tokenStr : Bytes) (usable : Bool) (ra : Bytes) (m2 : List OutFrame) (u : Option Bytes) :
    clientRun env tokenStr usable ra m2 = .accept u ↔
    u = none ∧ ∃ tok sig sub w2 d2, ClientToken env tokenStr usable tok sig sub ∧
      Rd.m2 { src := m2 } = .ok (w2, d2) ∧ w2.status = authOK ∧ w2.id = sub ∧ w2.raLen ≤ (keyLen : Int) ∧ w2.ra = ra ∧
      w2.rbLen ≤ (keyLen : Int) ∧ env.macOf w2.mac = .hmac (.derive sig tok) (macMsg2 sub w2.sid ra w2.rb) := by
  unfold clientRun cliPhase2
  constructor
  · intro h
    rcases hp : cliPhase0 env tokenStr usable ra with ⟨s0, m1⟩
    simp only [hp] at h
    cases h2 : runStep (cliRecv2 env) (s0.feed m2) with
    | error e => simp [h2] at h
    | ok s2 =>
      simp only [h2] at h
      cases he2 : s2.err with
      | some r => simp [he2] at h
      | none =>
        simp only [he2, Outcome.accept.injEq] at h
        obtain ⟨hx2, _⟩ := (runStep_clean _ _ _).mp ⟨h2, he2⟩
        obtain ⟨hes, w2, d2, hr2, hst, hid, hn, hra, hm, hmac, _⟩ := (cliRecv2_ok _ _ _).mp ⟨hx2, he2⟩
        have hes' : s0.err = none := hes
        obtain ⟨tok, sig, sub, hct, hs, _⟩ := (cliPhase0_clean env tokenStr usable ra s0 m1).mp ⟨hp, hes'⟩
        subst hs
        exact ⟨h.symm, tok, sig, sub, w2, d2, hct, hr2, hst, hid, hn, hra, hm, hmac⟩
  · rintro ⟨rfl, tok, sig, sub, w2, d2, hct, hr2, hst, hid, hn, hra, hm, hmac⟩
    have h0 : cliPhase0 env tokenStr usable ra =
        (cliStateAfter tok sig sub ra, { status := authOK, clientID := sub, token := tok, ra := ra }) :=
      ((cliPhase0_clean env tokenStr usable ra _ _).mpr ⟨tok, sig, sub, hct, rfl, rfl⟩).1
    simp only [h0]
    have hx2 := (cliRecv2_ok env ((cliStateAfter tok sig sub ra).feed m2) _).mpr ⟨rfl, w2, d2, hr2, hst, hid, hn, hra, hm, hmac, rfl⟩
    obtain ⟨h2, _⟩ := (runStep_clean _ _ _).mpr hx2
    simp only [h2]
    rfl

/-! ### standalone verification -/

/-- what `VerifyIDToken` demands of a token string, and the claims it then returns -/
def VerifyOK (P : SrvCfg) (env : Env) (now : Int) (tokenStr : Bytes) (cl : IDClaims) : Prop :=
  ∃ h p sg kidv key c, splitDots (trimSpace tokenStr) = [h, p, sg] ∧ env.hdr h = .ok kidv ∧
    loadSigningKey P.ks (keyIdOf kidv) = some key ∧ env.sigOf sg = .ok (.sign key (h ++ [dot] ++ p)) ∧
    env.claims p = .ok c ∧ TimeValid now (maxAgeOf P.cfgMaxAge P.envMaxAge) c ∧
    c.sub = .str cl.subject ∧ cl.subject ≠ [] ∧ cl.expiry = claimInt c.exp ∧ cl.issuedAt = claimInt c.iat

theorem verifyIDToken_ok (P : SrvCfg) (env : Env) (now : Int) (tokenStr : Bytes) (cl : IDClaims) :
    verifyIDToken P env now tokenStr = .ok cl ↔ VerifyOK P env now tokenStr cl := by
  unfold verifyIDToken VerifyOK
  constructor
  · intro h
    split at h
    · rename_i hh pp sg hsplit
      split at h <;> try (simp at h; done)
      rename_i kidv hhdr
      split at h <;> try (simp at h; done)
      rename_i key hkey
      split at h <;> try (simp at h; done)
      rename_i actual hsig
      split at h
      · simp at h
      · rename_i hact
        split at h <;> try (simp at h; done)
        rename_i c hc
        split at h <;> try (simp at h; done)
        rename_i htime
        split at h <;> try (simp at h; done)
        rename_i x hsub
        split at h
        · simp at h
        · rename_i hx
          simp only [Except.ok.injEq] at h
          subst h
          refine ⟨hh, pp, sg, kidv, key, c, hsplit, hhdr, hkey, ?_, hc, (checkTiming_ok _ _ _).mp htime, hsub, ?_, rfl, rfl⟩
          · rw [hsig]; simp only [ne_eq, Classical.not_not] at hact; rw [hact]
          · intro e; simp only at e; rw [e] at hx; exact hx rfl
    · simp at h
  · rintro ⟨hh, pp, sg, kidv, key, c, hsplit, hhdr, hkey, hsig, hc, htime, hsub, hne, hexp, hiat⟩
    rw [hsplit]
    simp only [hhdr, hkey, hsig, hc, (checkTiming_ok _ _ _).mpr htime, hsub, ne_eq, not_true_eq_false, if_false,
      isEmpty_false_of_ne _ hne, Bool.false_eq_true]
    cases cl
    simp only at hexp hiat
    simp [hexp, hiat]

/-! ### what a party can put into a proof field (Dolev–Yao) -/

/-- signatures a party can use: those it was given, those under signing keys it knows, and byte
    strings of its own making -/
inductive KnowsSig (given : Sig → Prop) (knowsKey : Bytes → Prop) : Sig → Prop
  | given {s : Sig} : given s → KnowsSig given knowsKey s
  | sign {k : Bytes} (t : Bytes) : knowsKey k → KnowsSig given knowsKey (.sign k t)
  | raw (b : Bytes) : KnowsSig given knowsKey (.raw b)

/-- what the bytes a party sends as a proof can read as: a proof it has seen (replay), bytes of
    its own making, a MAC under the empty key, or a MAC under a key derived from a signature it
    knows. There is no other way to a `Mac.hmac` term (HMAC unforgeability, HKDF one-wayness). -/
inductive CanSend (knows : Sig → Prop) (seen : Mac → Prop) : Mac → Prop
  | replay {m : Mac} : seen m → CanSend knows seen m
  | raw (b : Bytes) : CanSend knows seen (.raw b)
  | nilKey (msg : Bytes) : CanSend knows seen (.hmac .nil msg)
  | compute {s : Sig} (tok msg : Bytes) : knows s → CanSend knows seen (.hmac (.derive s tok) msg)

theorem canSend_derive (knows : Sig → Prop) (seen : Mac → Prop) (s : Sig) (tok msg : Bytes)
    (h : CanSend knows seen (.hmac (.derive s tok) msg)) : knows s ∨ seen (.hmac (.derive s tok) msg) := by
  cases h with
  | replay hs => exact .inr hs
  | compute _ _ hk => exact .inl hk

/-- the two proofs of the exchange are over different byte strings: after the same client id the
    server's continues with a space, the client's with a NUL (no reflection of message 2 into 3) -/
theorem macMsg2_ne_macMsg3 (cid sid ra rb rb' : Bytes) : macMsg2 cid sid ra rb ≠ macMsg3 cid rb' := by
  unfold macMsg2 macMsg3
  intro h
  simp only [List.append_assoc, List.append_cancel_left_eq, List.cons_append, List.nil_append, List.cons.injEq] at h
  exact absurd h.1 (by decide)

/-! ### the subject handling before and after fix D12 (documentation; the executable model is
    the fixed code) -/

/-- `validateTokenAndDeriveKeys` before the fix: `claimed` is the id of message 1 -/
def subjectBeforeFix (claimed : Bytes) : SubV → Except Rej Bytes
  | .nonStr => .error .subType
  | .str x => if x.isEmpty then .error .noSub else .ok x
  | .absent => if claimed.isEmpty then .error .noSub else .ok claimed

/-- after the fix -/
def subjectAfterFix (_claimed : Bytes) : SubV → Except Rej Bytes
  | .nonStr => .error .subType
  | .str x => if x.isEmpty then .error .noSub else .ok x
  | .absent => .error .noSub

end Cedar.Token
