/-
  C14 helper lemmas: the double as an integer pair (CedarModel/Codec.lean, `encodeDbl`). Everything
  is stated on magnitudes (`n = |m|`, `q = |fracInt|`) so that no proof needs linear arithmetic
  over 84-bit integer literals; the sign is handled separately.
-/
import CedarProofs.CodecStr

namespace Cedar
open Cedar

/-- on magnitudes: `q = |fracInt|` is within 1 of the exact quotient `n · FracConst / 2^53`
    (`n = |m|`), i.e. `|q · 2^53 − n · FracConst| ≤ 2^53`. This is what a Go run produces: the float
    product may be rounded before `int32()` truncates it (trusted), the codec engine measures this
    inequality with exact integers on every double it sends. -/
def NearN (n q : Nat) : Prop :=
  q * twoPow53 ≤ n * fracConst + twoPow53 ∧ n * fracConst ≤ q * twoPow53 + twoPow53

theorem fracOfNat_near (n : Nat) : NearN n (fracOfNat n) := by
  unfold NearN fracOfNat
  have hpos : 0 < twoPow53 := by decide
  have h1 : n * fracConst / twoPow53 * twoPow53 ≤ n * fracConst := Nat.div_mul_le_self _ _
  have h2 : n * fracConst < n * fracConst / twoPow53 * twoPow53 + twoPow53 := Nat.lt_div_mul_add hpos
  generalize n * fracConst / twoPow53 * twoPow53 = a at h1 h2
  generalize n * fracConst = b at h1 h2
  generalize twoPow53 = p at h2
  omega

theorem fracOfNat_lt (n : Nat) (hn : n < twoPow53) : fracOfNat n < fracConst := by
  unfold fracOfNat
  have hpos : 0 < twoPow53 := by decide
  rw [Nat.div_lt_iff_lt_mul hpos]
  rw [Nat.mul_comm]
  exact Nat.mul_lt_mul_of_pos_left hn (by decide)

theorem encodeDbl_fst (m e : Int) :
    (encodeDbl m e).1 = (if m < 0 then -((fracOfNat m.natAbs : Nat) : Int) else ((fracOfNat m.natAbs : Nat) : Int)) := rfl

theorem encodeDbl_abs (m e : Int) : (encodeDbl m e).1.natAbs = fracOfNat m.natAbs := by
  generalize hq : fracOfNat m.natAbs = q
  have h : (encodeDbl m e).1 = (if m < 0 then -((q : Nat) : Int) else ((q : Nat) : Int)) := by
    rw [← hq]; rfl
  rw [h]
  by_cases hneg : m < 0
  · rw [if_pos hneg, Int.natAbs_neg, Int.natAbs_natCast]
  · rw [if_neg hneg, Int.natAbs_natCast]

theorem encodeDbl_sign (m e : Int) : (encodeDbl m e).1 < 0 → m < 0 := by
  generalize hq : fracOfNat m.natAbs = q
  have h : (encodeDbl m e).1 = (if m < 0 then -((q : Nat) : Int) else ((q : Nat) : Int)) := by
    rw [← hq]; rfl
  rw [h]
  by_cases hneg : m < 0
  · intro _; exact hneg
  · rw [if_neg hneg]
    intro h
    exact absurd h (Int.not_lt.mpr (Int.natCast_nonneg _))

/-- the format's precision on magnitudes: whatever `q` within 1 of the exact quotient is sent, the
    reconstructed fraction `q / FracConst` is within relative error `2^-29` of `n / 2^53` -/
theorem precisionN (n q : Nat) (hn : twoPow53 / 2 ≤ n) (h : NearN n q) :
    (q * twoPow53 - n * fracConst) * 536870912 ≤ fracConst * n ∧
    (n * fracConst - q * twoPow53) * 536870912 ≤ fracConst * n := by
  have hk : twoPow53 * 536870912 ≤ fracConst * (twoPow53 / 2) := by decide
  have hcn : fracConst * (twoPow53 / 2) ≤ fracConst * n := Nat.mul_le_mul_left _ hn
  obtain ⟨h1, h2⟩ := h
  have d1 : q * twoPow53 - n * fracConst ≤ twoPow53 := Nat.sub_le_iff_le_add'.mpr h1
  have d2 : n * fracConst - q * twoPow53 ≤ twoPow53 := Nat.sub_le_iff_le_add'.mpr h2
  exact ⟨Nat.le_trans (Nat.mul_le_mul_right _ d1) (Nat.le_trans hk hcn),
         Nat.le_trans (Nat.mul_le_mul_right _ d2) (Nat.le_trans hk hcn)⟩

end Cedar
