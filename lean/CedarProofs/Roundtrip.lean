/-
  Helper lemmas for C01: a run of frames that the receiver accepts one by one is handed to the
  application as exactly the messages those frames denote; honest senders produce such runs.
-/
import CedarProofs.Prefix

namespace Cedar

/-- `AcceptChain r fs ops r'`: starting in `r`, `ReceiveFrameWithEnd` accepts the frames `fs` in
    order, yielding payload/flag pairs `ops`, ending in `r'`. -/
inductive AcceptChain : Stream → List WireFrame → List SendOp → Stream → Prop
  | nil (r : Stream) : AcceptChain r [] [] r
  | cons {r r1 r' : Stream} {f fs p fl ops} :
      r.recvFrameWithEnd f = .ok (r1, p, fl) → fl ≤ 1 → AcceptChain r1 fs ops r' →
      AcceptChain r (f :: fs) ((p, fl) :: ops) r'

theorem AcceptChain.length_eq {r fs ops r'} (h : AcceptChain r fs ops r') : fs.length = ops.length := by
  induction h with
  | nil => rfl
  | cons _ _ _ ih => simp [ih]

/-- One `ReceiveCompleteMessage` over an accepted run. -/
theorem recvCompleteAux_chain {r fs ops r'} (h : AcceptChain r fs ops r') :
    ∀ acc, (∃ r1 msg rest ops2, r.recvCompleteAux acc fs = .ok (r1, msg, rest) ∧
              messagesOf acc ops = msg :: messagesOf [] ops2 ∧ AcceptChain r1 rest ops2 r' ∧
              rest.length < fs.length)
         ∨ ((∃ e, r.recvCompleteAux acc fs = .error e) ∧ messagesOf acc ops = []) := by
  induction h with
  | nil r => intro acc; right; exact ⟨⟨.eof, rfl⟩, rfl⟩
  | @cons r r1 r' f fs p fl ops hrecv hfl hrest ih =>
    intro acc
    unfold Stream.recvCompleteAux
    rw [hrecv]
    by_cases h1 : fl = 1
    · left
      simp only [h1, if_true]
      exact ⟨r1, acc ++ p, fs, ops, rfl, by simp [messagesOf, h1], hrest, by simp⟩
    · have h0 : fl = 0 := by omega
      simp only [h1, h0, if_false, if_true]
      rcases ih (acc ++ p) with ⟨r2, msg, rest, ops2, hok, hm, hc, hl⟩ | ⟨he, hm⟩
      · left
        refine ⟨r2, msg, rest, ops2, ?_, ?_, hc, by simp; omega⟩
        · simpa [h0] using hok
        · simpa [messagesOf, h0] using hm
      · right
        refine ⟨?_, by simpa [messagesOf, h0] using hm⟩
        simpa [h0] using he

/-- The application loop over an accepted run delivers exactly the messages it denotes. -/
theorem deliver_chain : ∀ (n : Nat) {r fs ops r'}, AcceptChain r fs ops r' → fs.length < n →
    Stream.deliverFuel n r fs = messagesOf [] ops := by
  intro n
  induction n with
  | zero => intro r fs ops r' _ h; omega
  | succ n ih =>
    intro r fs ops r' hc hn
    unfold Stream.deliverFuel Stream.recvComplete
    rcases recvCompleteAux_chain hc [] with ⟨r1, msg, rest, ops2, hok, hm, hc2, hl⟩ | ⟨⟨e, he⟩, hm⟩
    · rw [hok]
      simp only
      rw [hm, ih hc2 (by omega)]
    · rw [he]; simp [hm]

/-! ### Plaintext streams accept what plaintext senders emit -/

theorem sendFrame_plain {s s' : Stream} {d fl f} (hk : s.crypting = false)
    (h : s.sendFrame d fl = .ok (s', f)) :
    f = ⟨fl, d.length, .raw d⟩ ∧ d.length ≤ maxMessageSize ∧ s'.crypting = false ∧
    s'.sendBuf = s.sendBuf ∧ s'.sendEOM = s.sendEOM := by
  unfold Stream.sendFrame at h
  by_cases h1 : d.length > maxMessageSize
  · rw [if_pos h1] at h; cases h
  · rw [if_neg h1] at h
    unfold Stream.crypting at hk
    cases hkey : s.key with
    | none =>
      simp only [hkey] at h
      simp only [Except.ok.injEq, Prod.mk.injEq] at h
      obtain ⟨rfl, rfl⟩ := h
      exact ⟨rfl, by omega, by simp [Stream.crypting, hkey], rfl, rfl⟩
    | some k =>
      have he : s.encrypted = false := by simpa [hkey] using hk
      simp only [hkey, he] at h
      simp only [Except.ok.injEq, Prod.mk.injEq] at h
      obtain ⟨rfl, rfl⟩ := h
      exact ⟨rfl, by omega, by simp [Stream.crypting, he], rfl, rfl⟩

theorem recv_plain {r : Stream} {d : Bytes} {fl : Nat} (hk : r.crypting = false)
    (hd : d.length ≤ maxMessageSize) (hfl : fl ≤ maxEndFlag) :
    ∃ r', r.recvFrameWithEnd ⟨fl, d.length, .raw d⟩ = .ok (r', d, fl) ∧ r'.crypting = false := by
  unfold Stream.recvFrameWithEnd checkHdr
  simp only [show ¬ d.length > maxMessageSize by omega, show ¬ fl > maxEndFlag by omega, if_false]
  by_cases h0 : d.length = 0
  · have : d = [] := List.eq_nil_of_length_eq_zero h0
    subst this
    simp only [List.length_nil, if_true, hk]
    exact ⟨_, rfl, by simpa [Stream.feedRecv, Stream.crypting] using hk⟩
  · simp only [h0, if_false]
    unfold Stream.crypting at hk
    cases hkey : r.key with
    | none => exact ⟨_, rfl, by simp [Stream.feedRecv, Stream.crypting, hkey]⟩
    | some k =>
      have he : r.encrypted = false := by simpa [hkey] using hk
      simp only [he]
      exact ⟨_, rfl, by simp [Stream.feedRecv, Stream.crypting, he]⟩

theorem plain_chain : ∀ (ops : List SendOp) (s s' r : Stream) (sent : List WireFrame),
    s.crypting = false → r.crypting = false → (∀ op ∈ ops, op.2 ≤ 1) →
    s.sendAll ops = .ok (s', sent) → ∃ r', AcceptChain r sent ops r' := by
  intro ops
  induction ops with
  | nil =>
    intro s s' r sent _ _ _ h
    simp only [Stream.sendAll, Except.ok.injEq, Prod.mk.injEq] at h
    obtain ⟨_, rfl⟩ := h
    exact ⟨r, .nil r⟩
  | cons op rest ih =>
    intro s s' r sent hs hr hfl h
    obtain ⟨d, fl⟩ := op
    unfold Stream.sendAll at h
    split at h
    · cases h
    · rename_i s1 f hsf
      split at h
      · cases h
      · rename_i s2 fs hrest
        simp only [Except.ok.injEq, Prod.mk.injEq] at h
        obtain ⟨rfl, rfl⟩ := h
        obtain ⟨hf, hd, hs1, _, _⟩ := sendFrame_plain hs hsf
        have hfl1 : fl ≤ 1 := hfl (d, fl) (List.mem_cons_self ..)
        obtain ⟨r1, hrecv, hr1⟩ := recv_plain (fl := fl) hr hd (by unfold maxEndFlag; omega)
        obtain ⟨r', hc⟩ := ih s1 s2 r1 fs hs1 hr1 (fun op h => hfl op (List.mem_cons_of_mem _ h)) hrest
        exact ⟨r', by rw [hf]; exact .cons hrecv hfl1 hc⟩

/-! ### A keyed receiver accepts what the keyed sender emits (honest wire) -/

theorem recv_honest {r : Stream} {k iv dg c0 m} {it : Item}
    (hr : RecvInv r k iv c0 m) (hdg : c0 + m = 0 → (r.dig.fr, r.dig.fs) = dg ∧ iv ≠ r.encIV)
    (hlen : it.len = it.plain.length + tagLen + (if c0 + m = 0 then ivLen else 0))
    (hmax : it.len ≤ maxMessageSize) (hfl : it.flag ≤ maxEndFlag) :
    ∃ r', r.recvFrameWithEnd (frameAt k iv dg (c0 + m) it) = .ok (r', it.plain, it.flag) ∧
          RecvInv r' k iv c0 (m + 1) := by
  obtain ⟨hk, he, hc, hf, hdiv⟩ := hr
  have hr : RecvInv r k iv c0 m := ⟨hk, he, hc, hf, hdiv⟩
  unfold Stream.recvFrameWithEnd checkHdr
  simp only [frameAt, show ¬ it.len > maxMessageSize by omega, show ¬ it.flag > maxEndFlag by omega, if_false]
  have hne : it.len ≠ 0 := by unfold tagLen at hlen; omega
  simp only [hne, if_false, hk, he]
  have hopen : r.openBody k ⟨it.flag, it.len, .ct (if c0 + m = 0 then some iv else none) (sealedAt k iv dg (c0 + m) it)⟩
      = .ok (iv, it.plain) := by
    unfold Stream.openBody
    by_cases hz : c0 + m = 0
    · have hc' : r.decCtr = 0 := by omega
      have hfin : r.finRecvAAD = false := by simpa [hz] using hf
      have hd := hdg hz
      simp only [hz, if_true, Body.wireLen, sealedAt, hc', hfin]
      simp only [show ¬ (ivLen + (it.plain.length + tagLen) = 0) by unfold ivLen; omega, if_false,
        show ¬ (True ∧ ivLen + (it.plain.length + tagLen) < ivLen) by omega]
      simp [hd.1, hd.2]
    · have hc' : r.decCtr ≠ 0 := by omega
      have hfin : r.finRecvAAD = true := by rw [hf]; exact decide_eq_true hz
      have hdi := hdiv hz
      simp only [hz, if_false, Body.wireLen, sealedAt, hc', hfin]
      simp only [show ¬ (it.plain.length + tagLen = 0) by unfold tagLen; omega, if_false,
        show ¬ (False ∧ it.plain.length + tagLen < ivLen) by simp]
      simp [hdi, hc]
  rw [hopen]
  exact ⟨_, rfl, afterOpen_recvInv hr _⟩

theorem keyed_chain {k iv dg c0} : ∀ (items : List Item) (r : Stream) (m : Nat),
    RecvInv r k iv c0 m → (c0 + m = 0 → (r.dig.fr, r.dig.fs) = dg ∧ iv ≠ r.encIV) →
    (∀ j it, items[j]? = some it →
        it.len = it.plain.length + tagLen + (if c0 + m + j = 0 then ivLen else 0) ∧
        it.len ≤ maxMessageSize ∧ it.flag ≤ 1) →
    ∃ r', AcceptChain r (framesFrom k iv dg (c0 + m) items) (items.map Item.op) r' := by
  intro items
  induction items with
  | nil => intro r m _ _ _; exact ⟨r, .nil r⟩
  | cons it rest ih =>
    intro r m hr hdg hall
    obtain ⟨h1, h2, h3⟩ := hall 0 it (by simp)
    obtain ⟨r1, hrecv, hr1⟩ := recv_honest hr hdg (by simpa using h1) h2 (by unfold maxEndFlag; omega)
    obtain ⟨r', hc⟩ := ih r1 (m + 1) hr1 (by omega) (by
      intro j it' hj
      have := hall (j + 1) it' (by simpa using hj)
      have e : c0 + m + (j + 1) = c0 + (m + 1) + j := by omega
      simpa [e] using this)
    refine ⟨r', ?_⟩
    simp only [framesFrom, List.map_cons, Item.op]
    have e : c0 + m + 1 = c0 + (m + 1) := by omega
    rw [e]
    exact .cons hrecv h3 hc

end Cedar
