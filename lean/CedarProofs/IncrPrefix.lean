/-
  Helper lemmas for C02 on the OTHER receive paths of stream.Stream: the incremental API
  (StartMessageRead -> readNextFrame, ReadMessageBytes until io.EOF, EndMessageRead) and plain
  ReceiveFrame (GetSecret / GetFile). Under the same on-path adversary as CedarProofs/Prefix.lean
  they hand the application only an in-order prefix of what was sent.
-/
import CedarProofs.Prefix
import CedarProofs.Incremental

namespace Cedar

/-- the application's read loop: `ReadMessageBytes(n)` until it reports the end of the message
    (`io.EOF`); any other error aborts. -/
def Stream.readAll : Nat → Stream → Nat → Bytes → Except Err (Stream × Bytes)
  | 0, s, _, acc => .ok (s, acc)
  | fuel + 1, s, n, acc =>
    match s.readMessageBytes n with
    | .error .eom => .ok (s, acc)
    | .error e => .error e
    | .ok (s', d) => Stream.readAll fuel s' n (acc ++ d)

theorem readAll_all : ∀ (fuel : Nat) (s : Stream) (n : Nat) (acc : Bytes),
    0 < n → s.inMessage = true → s.bytesRead ≤ s.recvBuf.length → s.recvBuf.length - s.bytesRead < fuel →
    Stream.readAll fuel s n acc = .ok ({ s with bytesRead := s.recvBuf.length }, acc ++ s.recvBuf.drop s.bytesRead)
  | 0, s, n, acc, _, _, _, hf => by omega
  | fuel + 1, s, n, acc, hn, hin, hle, hf => by
    unfold Stream.readAll Stream.readMessageBytes
    have hni : ¬ (!s.inMessage) = true := by simp [hin]
    rw [if_neg hni]
    by_cases hz : s.recvBuf.length - s.bytesRead = 0
    · rw [if_pos hz]
      have he : s.bytesRead = s.recvBuf.length := by omega
      have hd : s.recvBuf.drop s.bytesRead = [] := by rw [he]; simp
      rw [hd, List.append_nil]
      congr 2
      cases s; simp_all
    · rw [if_neg hz]
      simp only []
      have ih := readAll_all fuel { s with bytesRead := s.bytesRead + min n (s.recvBuf.length - s.bytesRead) } n
        (acc ++ (s.recvBuf.drop s.bytesRead).take (min n (s.recvBuf.length - s.bytesRead))) hn hin
        (by simp only []; omega) (by simp only []; omega)
      rw [ih]
      simp only [List.append_assoc]
      congr 3
      rw [← List.drop_drop, List.take_append_drop]

/-- One message through the incremental API, as an application that does not know the length in
    advance uses it: `StartMessageRead`, `ReadMessageBytes(n)` until end-of-message,
    `EndMessageRead`. The fuel covers every byte of the buffered message for any `n > 0`. -/
def Stream.recvIncremental (s : Stream) (n : Nat) (w : List WireFrame) : Except Err (Stream × Bytes × List WireFrame) :=
  match s.startMessageRead w with
  | .error e => .error e
  | .ok (s1, w1) =>
    match Stream.readAll (s1.recvBuf.length + 1) s1 n [] with
    | .error e => .error e
    | .ok (s2, msg) =>
      match s2.endMessageRead with
      | .error e => .error e
      | .ok s3 => .ok (s3, msg, w1)

/-- the application loop over the incremental API: messages handed over before the first error -/
def Stream.deliverIncFuel : Nat → Nat → Stream → List WireFrame → List Bytes
  | 0, _, _, _ => []
  | fuel + 1, n, r, w =>
    match r.recvIncremental n w with
    | .error _ => []
    | .ok (r', msg, w') => msg :: Stream.deliverIncFuel fuel n r' w'

/-- the application loop over plain `ReceiveFrame` (what `GetFile` does): payloads handed over
    before the first error -/
def Stream.deliverFrames : Stream → List WireFrame → List Bytes
  | _, [] => []
  | r, g :: w =>
    match r.recvFrame g with
    | .error _ => []
    | .ok (r', d) => d :: Stream.deliverFrames r' w

/-- the frame receiver does not touch the incremental reader's bookkeeping -/
theorem recvFrameWithEnd_buf {s s1 : Stream} {f : WireFrame} {d : Bytes} {fl : Nat}
    (h : s.recvFrameWithEnd f = .ok (s1, d, fl)) :
    s1.recvBuf = s.recvBuf ∧ s1.inMessage = s.inMessage ∧ s1.bytesRead = s.bytesRead := by
  unfold Stream.recvFrameWithEnd at h
  split at h
  · cases h
  · split at h
    · split at h
      · cases h
      · simp only [Except.ok.injEq, Prod.mk.injEq] at h
        obtain ⟨rfl, _, _⟩ := h
        exact ⟨rfl, rfl, rfl⟩
    · split at h
      · split at h
        · cases h
        · simp only [Except.ok.injEq, Prod.mk.injEq] at h
          obtain ⟨rfl, _, _⟩ := h
          exact ⟨rfl, rfl, rfl⟩
      · split at h
        · simp only [Except.ok.injEq, Prod.mk.injEq] at h
          obtain ⟨rfl, _, _⟩ := h
          exact ⟨rfl, rfl, rfl⟩
        · cases h

theorem recvInv_congr {r r' : Stream} {k iv c0 m} (h : RecvInv r k iv c0 m)
    (hk : r'.key = r.key) (he : r'.encrypted = r.encrypted) (hc : r'.decCtr = r.decCtr)
    (hf : r'.finRecvAAD = r.finRecvAAD) (hi : r'.decIV = r.decIV) : RecvInv r' k iv c0 m :=
  ⟨hk ▸ h.key, he ▸ h.enc, hc ▸ h.ctr, hf ▸ h.fin, fun hz => hi ▸ h.iv hz⟩

/-- `readNextFrame` under attack: if it returns, the receiver consumed a run of consecutive honest
    frames ending in a complete one and buffered their concatenation (after what it held). -/
theorem readNext_spec {k iv dg ownIV c0 items}
    (hiv : iv.w0 < 2^32) (hlim : c0 + items.length ≤ counterLimit) (hfl : ∀ it ∈ items, it.flag ≤ 1) :
    ∀ (w : List WireFrame) (r : Stream) (m : Nat) r' w',
      m ≤ items.length → RecvInv r k iv c0 m → (c0 + m = 0 → r.encIV = ownIV ∧ ownIV.w0 < 2^32) →
      (∀ g ∈ w, AdvFrame k iv dg ownIV c0 items g) →
      r.readNextFrame w = .ok (r', w') →
      ∃ m', m < m' ∧ m' ≤ items.length ∧ RecvInv r' k iv c0 m' ∧ (∀ g ∈ w', AdvFrame k iv dg ownIV c0 items g) ∧
        r'.inMessage = r.inMessage ∧ r'.bytesRead = r.bytesRead ∧ r'.totalMsg = r'.recvBuf.length ∧
        messagesOf r.recvBuf ((items.drop m).map Item.op) = r'.recvBuf :: messagesOf [] ((items.drop m').map Item.op) := by
  intro w
  induction w with
  | nil => intro r m r' w' _ _ _ _ h; simp [Stream.readNextFrame] at h
  | cons g w ih =>
    intro r m r' w' hm hr hdg hadv h
    unfold Stream.readNextFrame at h
    split at h
    · cases h
    · rename_i s1 d fl hrecv
      obtain ⟨it, hit, hfle, hd, hr1⟩ :=
        recv_accepts_only_next hiv hlim hm hr hdg (hadv g (List.mem_cons_self ..)) hrecv
      obtain ⟨hb1, hin1, hbr1⟩ := recvFrameWithEnd_buf hrecv
      have hml : m < items.length := (List.getElem?_eq_some_iff.mp hit).1
      have hdrop : items.drop m = it :: items.drop (m + 1) := by
        rw [List.drop_eq_getElem_cons hml]
        congr 1
        exact (List.getElem?_eq_some_iff.mp hit).2
      have hitfl : it.flag ≤ 1 := hfl it (List.mem_of_getElem? hit)
      simp only [] at h
      have hr2 : RecvInv { s1 with recvBuf := s1.recvBuf ++ d, totalMsg := (s1.recvBuf ++ d).length } k iv c0 (m + 1) :=
        recvInv_congr hr1 rfl rfl rfl rfl rfl
      by_cases h0 : fl = 0
      · rw [if_pos h0] at h
        obtain ⟨m', hm1, hm2, hr', hadv', hin', hbr', htot', hmsg⟩ :=
          ih _ (m + 1) r' w' (by omega) hr2 (fun h => by omega)
            (fun g hg => hadv g (List.mem_cons_of_mem _ hg)) h
        refine ⟨m', by omega, hm2, hr', hadv', ?_, ?_, htot', ?_⟩
        · rw [hin']; exact hin1
        · rw [hbr']; exact hbr1
        · rw [hdrop]
          have hne : it.flag ≠ 1 := by omega
          simp only [List.map_cons, messagesOf, Item.op, hne, if_false]
          simp only [hb1, hd] at hmsg
          exact hmsg
      · rw [if_neg h0] at h
        simp only [Except.ok.injEq, Prod.mk.injEq] at h
        obtain ⟨rfl, rfl⟩ := h
        refine ⟨m + 1, by omega, by omega, hr2, fun g hg => hadv g (List.mem_cons_of_mem _ hg), hin1, hbr1, rfl, ?_⟩
        rw [hdrop]
        have he1 : it.flag = 1 := by omega
        simp only [List.map_cons, messagesOf, Item.op, he1, if_true, hb1, hd]

/-- one message through `StartMessageRead` / `ReadMessageBytes`* / `EndMessageRead` under attack -/
theorem recvIncremental_spec {k iv dg ownIV c0 items} {n : Nat} (hn : 0 < n)
    (hiv : iv.w0 < 2^32) (hlim : c0 + items.length ≤ counterLimit) (hfl : ∀ it ∈ items, it.flag ≤ 1)
    (w : List WireFrame) (r : Stream) (m : Nat) (r' : Stream) (msg : Bytes) (w' : List WireFrame)
    (hm : m ≤ items.length) (hr : RecvInv r k iv c0 m) (hdg : c0 + m = 0 → r.encIV = ownIV ∧ ownIV.w0 < 2^32)
    (hadv : ∀ g ∈ w, AdvFrame k iv dg ownIV c0 items g)
    (hclean : r.inMessage = false) (hbuf : r.recvBuf = [])
    (h : r.recvIncremental n w = .ok (r', msg, w')) :
    ∃ m', m < m' ∧ m' ≤ items.length ∧ RecvInv r' k iv c0 m' ∧ (∀ g ∈ w', AdvFrame k iv dg ownIV c0 items g) ∧
      r'.inMessage = false ∧ r'.recvBuf = [] ∧
      messagesOf [] ((items.drop m).map Item.op) = msg :: messagesOf [] ((items.drop m').map Item.op) := by
  unfold Stream.recvIncremental at h
  split at h
  · cases h
  · rename_i s1 w1 hstart
    unfold Stream.startMessageRead at hstart
    have hni : ¬ r.inMessage = true := by simp [hclean]
    rw [if_neg hni] at hstart
    split at hstart
    · cases hstart
    · rename_i s0 w0 hrn
      simp only [Except.ok.injEq, Prod.mk.injEq] at hstart
      obtain ⟨rfl, rfl⟩ := hstart
      obtain ⟨m', hm1, hm2, hr0, hadv0, _, _, htot0, hmsg⟩ :=
        readNext_spec hiv hlim hfl w r m s0 w0 hm hr hdg hadv hrn
      rw [hbuf] at hmsg
      have hra := readAll_all (s0.recvBuf.length + 1) { s0 with inMessage := true, bytesRead := 0 } n []
        hn rfl (Nat.zero_le _) (by show s0.recvBuf.length - 0 < s0.recvBuf.length + 1; omega)
      have hlen : ({ s0 with inMessage := true, bytesRead := 0 } : Stream).recvBuf.length = s0.recvBuf.length := rfl
      rw [hlen] at h
      rw [hra] at h
      simp only [] at h
      unfold Stream.endMessageRead at h
      simp only [Bool.not_true, Bool.false_eq_true, if_false] at h
      have hnl : ¬ s0.recvBuf.length < s0.totalMsg := by omega
      rw [if_neg hnl] at h
      simp only [Except.ok.injEq, Prod.mk.injEq] at h
      obtain ⟨rfl, rfl, rfl⟩ := h
      refine ⟨m', hm1, hm2, recvInv_congr hr0 rfl rfl rfl rfl rfl, hadv0, rfl, rfl, ?_⟩
      rw [hmsg]
      simp

/-- The incremental receive loop hands the application only a prefix of the messages sent. -/
theorem deliverInc_prefix {k iv dg ownIV c0 items} {n : Nat} (hn : 0 < n)
    (hiv : iv.w0 < 2^32) (hlim : c0 + items.length ≤ counterLimit) (hfl : ∀ it ∈ items, it.flag ≤ 1) :
    ∀ (fuel : Nat) (r : Stream) (w : List WireFrame) (m : Nat),
      m ≤ items.length → RecvInv r k iv c0 m → (c0 + m = 0 → r.encIV = ownIV ∧ ownIV.w0 < 2^32) →
      (∀ g ∈ w, AdvFrame k iv dg ownIV c0 items g) → r.inMessage = false → r.recvBuf = [] →
      Stream.deliverIncFuel fuel n r w <+: messagesOf [] ((items.drop m).map Item.op) := by
  intro fuel
  induction fuel with
  | zero => intro r w m _ _ _ _ _ _; simp [Stream.deliverIncFuel]
  | succ fuel ih =>
    intro r w m hm hr hdg hadv hclean hbuf
    unfold Stream.deliverIncFuel
    split
    · simp
    · rename_i r' msg w' hrc
      obtain ⟨m', hm1, hm2, hr', hadv', hc', hb', hmsg⟩ :=
        recvIncremental_spec hn hiv hlim hfl w r m r' msg w' hm hr hdg hadv hclean hbuf hrc
      rw [hmsg]
      exact List.prefix_cons_inj msg |>.mpr (ih r' w' m' hm2 hr' (fun h => by omega) hadv' hc' hb')

/-- plain `ReceiveFrame` (GetSecret, GetFile): if it accepts, it accepted the next honest frame. -/
theorem recvFrame_accepts_only_next {r r' : Stream} {k iv dg ownIV c0 m items g d}
    (hiv : iv.w0 < 2^32) (hlim : c0 + items.length ≤ counterLimit) (hm : m ≤ items.length)
    (hr : RecvInv r k iv c0 m) (hdg : c0 + m = 0 → r.encIV = ownIV ∧ ownIV.w0 < 2^32)
    (hg : AdvFrame k iv dg ownIV c0 items g)
    (h : r.recvFrame g = .ok (r', d)) :
    ∃ it, items[m]? = some it ∧ d = it.plain ∧ RecvInv r' k iv c0 (m + 1) := by
  have hk := hr.key
  have he := hr.enc
  unfold Stream.recvFrame at h
  split at h
  · cases h
  · split at h
    · simp [Stream.crypting, hk, he] at h
    · simp only [hk, he] at h
      split at h
      · cases h
      · rename_i ivr p hopen
        simp only [Except.ok.injEq, Prod.mk.injEq] at h
        obtain ⟨rfl, rfl⟩ := h
        obtain ⟨it, hit, _, hp, hivr⟩ := open_only_next hiv hlim hm hr hdg hg hopen
        subst hivr
        exact ⟨it, hit, hp, afterOpen_recvInv hr _⟩

/-- The `ReceiveFrame` loop hands over only a prefix of the frame payloads sent. -/
theorem deliverFrames_prefix {k iv dg ownIV c0 items}
    (hiv : iv.w0 < 2^32) (hlim : c0 + items.length ≤ counterLimit) :
    ∀ (w : List WireFrame) (r : Stream) (m : Nat),
      m ≤ items.length → RecvInv r k iv c0 m → (c0 + m = 0 → r.encIV = ownIV ∧ ownIV.w0 < 2^32) →
      (∀ g ∈ w, AdvFrame k iv dg ownIV c0 items g) →
      Stream.deliverFrames r w <+: (items.drop m).map Item.plain := by
  intro w
  induction w with
  | nil => intro r m _ _ _ _; simp [Stream.deliverFrames]
  | cons g w ih =>
    intro r m hm hr hdg hadv
    unfold Stream.deliverFrames
    split
    · simp
    · rename_i r' d hrc
      obtain ⟨it, hit, hd, hr'⟩ :=
        recvFrame_accepts_only_next hiv hlim hm hr hdg (hadv g (List.mem_cons_self ..)) hrc
      have hml : m < items.length := (List.getElem?_eq_some_iff.mp hit).1
      have hdrop : items.drop m = it :: items.drop (m + 1) := by
        rw [List.drop_eq_getElem_cons hml]
        congr 1
        exact (List.getElem?_eq_some_iff.mp hit).2
      rw [hdrop, List.map_cons, hd]
      exact List.prefix_cons_inj it.plain |>.mpr
        (ih r' (m + 1) (by omega) hr' (fun h => by omega) (fun g hg => hadv g (List.mem_cons_of_mem _ hg)))

end Cedar
