/-
  Non-emptiness obligations for the generated fact tables of C19 (CedarGen.FactsIO, CedarGen.FactsNoCtx).

  `CedarProps/C19.lean` states `all_io_wrapped`, `ctx_threaded` and `no_contextless_blocking` as
  "every row of the regenerated table is one of the declared rows". Such a statement holds vacuously
  over an EMPTY table — and the tables are extracted by syntactic patterns (field names conn /
  reader / writer, parameter type context.Context, identifiers ending in ctx), so a rename in the
  library empties them without any theorem noticing. The theorems below fail in that case; they are
  rebuilt against the regenerated tables on every check run (this module is imported by
  CedarProofs/CancelLemmas.lean, hence part of `lake build CedarProps.C19`). tools/gen refuses to
  generate in the same situations (facts_io.go `checkIOFacts`, facts_noctx.go), so the generator is
  the first line and this file the second, kernel-checked one.

  The tables of exceptions (ctxFresh, ctxForeign, ctxStored, blocking) are legitimately empty in a
  clean tree; for those the obligation is on what the scan EXAMINED (generated counters), not on
  what it found.

  C13, C17 and C20 carry their own non-vacuity statements over their tables (C13: the `example`
  after `handshake_ads_bounded`; C17: `fact_tables_inhabited`, `resumption_path_never_stores`;
  C20: `connect_id_source`, `connect_id_origins` name rows that must be present).
-/
import CedarGen.FactsIO
import CedarGen.FactsNoCtx

namespace Cedar.GenNonEmpty

open CedarGen

/-! ### (c) connection I/O: `all_io_wrapped` -/

/-- the table of connection I/O calls is not empty -/
theorem connIO_nonempty : FactsIO.connIO ≠ [] := by decide

/-- it holds at least one site that reads and one that writes: the two wrapped primitives -/
theorem connIO_has_read_and_write :
    (∃ x ∈ FactsIO.connIO, x.2.1 = "readWithContext") ∧
    (∃ x ∈ FactsIO.connIO, x.2.1 = "writeWithContext") ∧
    2 ≤ FactsIO.connIO.length ∧ FactsIO.connIO.length ≤ FactsIO.connIOCount := by decide

/-- the table of mentions of the connection fields is not empty -/
theorem connUses_nonempty : FactsIO.connUses ≠ [] := by decide

/-- it holds a use that reads from the connection and a use that writes to it — the two uses
    `all_io_wrapped` confines to readWithContext / writeWithContext (its fourth conjunct is vacuous
    without them) — and the close on cancellation of both primitives -/
theorem connUses_has_read_and_write :
    (∃ x ∈ FactsIO.connUses, x.2.2.2 = "call:Read" ∨ x.2.2.2 = "arg:io.ReadFull") ∧
    (∃ x ∈ FactsIO.connUses, x.2.2.2 = "call:Write") ∧
    ("stream/stream.go", "readWithContext", "conn", "call:Close") ∈ FactsIO.connUses ∧
    ("stream/stream.go", "writeWithContext", "conn", "call:Close") ∈ FactsIO.connUses ∧
    FactsIO.connUses.length ≤ FactsIO.connUsesCount := by decide

/-- the names the extraction looks for are the names of the struct: stream.Stream has I/O endpoint
    fields (found by TYPE), each of them is one of the tracked names, each is mentioned in `connUses`,
    and each is assigned somewhere (the connection is installed through a tracked site) -/
theorem connUses_covers_stream_io_fields :
    FactsIO.streamIOFields ≠ [] ∧
    (∃ f ∈ FactsIO.streamIOFields, f.2 = "net.Conn") ∧
    (∀ f ∈ FactsIO.streamIOFields, f.1 = "conn" ∨ f.1 = "reader" ∨ f.1 = "writer") ∧
    (∀ f ∈ FactsIO.streamIOFields, ∃ x ∈ FactsIO.connUses, x.2.2.1 = f.1) ∧
    (∀ f ∈ FactsIO.streamIOFields, ∃ x ∈ FactsIO.connUses, x.2.2.1 = f.1 ∧ x.2.2.2 = "assign") := by decide

/-! ### (d) context threading: `ctx_threaded` -/

/-- the scan that produced ctxFresh / ctxForeign / ctxStored examined something: functions, functions
    with a context.Context parameter, context-like call arguments. (The floors are far below today's
    385 / 130 / 393; a pattern that stops matching gives 0.) -/
theorem ctx_scan_nonempty :
    50 ≤ FactsIO.funcsScanned ∧ 20 ≤ FactsIO.ctxParamFuncs ∧ 50 ≤ FactsIO.ctxArgsSeen ∧
    FactsIO.ctxParamFuncs ≤ FactsIO.ctxArgsSeen + FactsIO.funcsScanned := by decide

/-- every row of the exception tables was among the arguments examined -/
theorem ctx_tables_within_scan :
    FactsIO.ctxFresh.length ≤ FactsIO.ctxFreshCount ∧
    FactsIO.ctxForeign.length ≤ FactsIO.ctxForeignCount ∧
    FactsIO.ctxStored.length ≤ FactsIO.ctxStoredCount := by decide

/-! ### (e) blocking calls without a context: `no_contextless_blocking` -/

/-- the scan of security/ examined functions and calls -/
theorem noctx_scan_nonempty :
    50 ≤ FactsNoCtx.funcsScanned ∧ 200 ≤ FactsNoCtx.callsScanned ∧
    FactsNoCtx.blocking.length ≤ FactsNoCtx.blockingCount ∧ FactsNoCtx.blockingCount ≤ FactsNoCtx.callsScanned := by decide

end Cedar.GenNonEmpty
