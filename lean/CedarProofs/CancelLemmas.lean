/-
  Helper lemmas for C19 over the `Cancel` model: a fired context is sticky, a step returns the
  context's error exactly when the context has fired by then, refinement to the bare I/O when
  nothing fires, quiet prefixes.
-/
import CedarModel.Cancel
import CedarProofs.GenNonEmpty  -- non-emptiness of the generated C19 fact tables: built with everything that builds C19

namespace Cedar.Cancel

/-- case analysis over every field the step function inspects -/
macro "step_cases" w:ident e:ident : tactic => `(tactic| (
  obtain ⟨cb, err, cl, cg, n⟩ := $w
  obtain ⟨pre, peer, mid⟩ := $e
  cases cb <;> cases err <;> cases cl <;> cases pre <;> cases peer <;> cases mid <;>
    simp_all [step, fire, effPeer, bareStep]))

theorem fire_fired (w : World) (c : CtxErr) (x : Option CtxErr) (h : w.err = some c) : fire w x = w := by
  cases x with
  | none => rfl
  | some e => simp [fire, h]

/-- the entry guard: a fired context returns its error at once, issuing no request -/
theorem step_fired (gc : Bool) (w : World) (e : StepEnv) (c : CtxErr) (h : w.err = some c) :
    step gc w e = ({ w with closed := w.closed || gc }, .ctx c) := by
  unfold step
  simp only [fire_fired w c e.pre h, h]

/-- with nothing firing (or a context that cannot fire) a step is the bare I/O -/
theorem step_bare (gc : Bool) (w : World) (e : StepEnv) (hn : w.err = none)
    (hq : w.cancellable = false ∨ (e.pre = none ∧ e.mid = none)) :
    step gc w e = ({ w with io := w.io + 1 }, bareStep w.closed e.peer) := by
  step_cases w e

/-- A step returns the context's error exactly when the context has fired by the time it returns. -/
theorem step_ctx_iff (gc : Bool) (w : World) (e : StepEnv) (c : CtxErr) :
    (step gc w e).2 = .ctx c ↔ (step gc w e).1.err = some c := by
  step_cases w e

/-- A step blocks only on a stalled request, on an open connection, with the context not fired. -/
theorem step_blocked (gc : Bool) (w : World) (e : StepEnv) (h : (step gc w e).2 = .blocked) :
    (step gc w e).1.err = none ∧ e.peer = .stall ∧ w.closed = false ∧ (step gc w e).1.io = w.io + 1 := by
  step_cases w e

/-- Invariant of the fixed code: once a step has returned with the context fired, Close has run
    or a watcher that will run it has been started. -/
theorem step_closed (w : World) (e : StepEnv) (c : CtxErr) (h : (step true w e).1.err = some c) :
    (step true w e).1.closed = true ∨ (step true w e).1.closing = true := by
  step_cases w e

/-- all steps abort on error (stream operations) -/
def allAbort (p : List (Step × StepEnv)) : Prop := ∀ x ∈ p, x.1.onErr = .abort

/-- no cancellation event in the environment -/
def silent (p : List (Step × StepEnv)) : Prop := ∀ x ∈ p, x.2.pre = none ∧ x.2.mid = none

/-- Once the context has fired, the rest of any operation issues no request, never blocks, and
    every step returns the context's error (so loops that swallow errors drain at once). -/
theorem run_fired (gc : Bool) (p : List (Step × StepEnv)) (w : World) (c : CtxErr) (h : w.err = some c) :
    (run gc w p).1.io = w.io ∧ (run gc w p).1.err = some c ∧
    ((run gc w p).2 = .ok ∨ (run gc w p).2 = .ctx c) ∧
    ((∃ x ∈ p, x.1.onErr = .abort) → (run gc w p).2 = .ctx c) ∧
    (p ≠ [] → gc = true → (run gc w p).1.closed = true) := by
  induction p generalizing w with
  | nil => simp [run, h]
  | cons x rest ih =>
    obtain ⟨s, e⟩ := x
    have hs := step_fired gc w e c h
    have hw' : ({ w with closed := w.closed || gc } : World).err = some c := h
    have ih' := ih _ hw'
    unfold run
    rw [hs]
    simp only
    by_cases hsw : s.onErr = .swallow
    · rw [if_pos hsw]
      refine ⟨ih'.1, ih'.2.1, ih'.2.2.1, ?_, ?_⟩
      · rintro ⟨y, hy, hya⟩
        rcases List.mem_cons.mp hy with rfl | hy'
        · rw [hsw] at hya; cases hya
        · exact ih'.2.2.2.1 ⟨y, hy', hya⟩
      · intro _ hgc
        by_cases hr : rest = []
        · subst hr; simp [run, hgc]
        · exact ih'.2.2.2.2 hr hgc
    · rw [if_neg hsw]
      refine ⟨rfl, h, Or.inr rfl, fun _ => rfl, ?_⟩
      intro _ hgc; simp [hgc]

/-- blocked ⇒ the context has not fired (at any point up to and including the blocked request) -/
theorem run_blocked (gc : Bool) (p : List (Step × StepEnv)) (w : World) (h : (run gc w p).2 = .blocked) :
    (run gc w p).1.err = none := by
  induction p generalizing w with
  | nil => simp [run] at h
  | cons x rest ih =>
    obtain ⟨s, e⟩ := x
    unfold run at h ⊢
    cases hr : (step gc w e).2 with
    | ok => rw [hr] at h; simp only at h ⊢; exact ih _ h
    | blocked => simp only; exact (step_blocked gc w e hr).1
    | io x =>
      rw [hr] at h; simp only at h ⊢
      by_cases hsw : s.onErr = .swallow
      · rw [if_pos hsw] at h ⊢; exact ih _ h
      · rw [if_neg hsw] at h; cases h
    | ctx c =>
      rw [hr] at h; simp only at h ⊢
      by_cases hsw : s.onErr = .swallow
      · rw [if_pos hsw] at h ⊢; exact ih _ h
      · rw [if_neg hsw] at h; cases h

/-- For an all-abort operation: the context has fired by the time it returns ⇒ it returns the
    context's error (the only exception: the empty operation on an already-fired context). -/
theorem run_err_ret (gc : Bool) (p : List (Step × StepEnv)) (w : World) (c : CtxErr) (ha : allAbort p)
    (h : (run gc w p).1.err = some c) : (run gc w p).2 = .ctx c ∨ (p = [] ∧ w.err = some c) := by
  induction p generalizing w with
  | nil => right; exact ⟨rfl, by simpa [run] using h⟩
  | cons x rest ih =>
    obtain ⟨s, e⟩ := x
    left
    have hs : s.onErr ≠ .swallow := by
      have := ha (s, e) (List.mem_cons_self ..)
      simp only at this; rw [this]; decide
    have har : allAbort rest := fun y hy => ha y (List.mem_cons_of_mem _ hy)
    unfold run at h ⊢
    cases hr : (step gc w e).2 with
    | ok =>
      rw [hr] at h; simp only at h ⊢
      rcases ih _ har h with h' | ⟨_, h'⟩
      · exact h'
      · have := (step_ctx_iff gc w e c).mpr h'
        rw [hr] at this; cases this
    | blocked =>
      rw [hr] at h; simp only at h
      have := (step_blocked gc w e hr).1
      rw [this] at h; cases h
    | io x =>
      rw [hr] at h; simp only [if_neg hs] at h ⊢
      have := (step_ctx_iff gc w e c).mpr h
      rw [hr] at this; cases this
    | ctx c' =>
      rw [hr] at h; simp only [if_neg hs] at h ⊢
      have := (step_ctx_iff gc w e c').mp hr
      rw [this] at h; cases h; rfl

/-- Fixed code: whenever the context has fired by the time a non-empty operation returns (or
    blocks), the connection is closed or a started watcher will close it. -/
theorem run_closed (p : List (Step × StepEnv)) (w : World) (c : CtxErr) (hp : p ≠ [])
    (h : (run true w p).1.err = some c) :
    (run true w p).1.closed = true ∨ (run true w p).1.closing = true := by
  induction p generalizing w with
  | nil => exact absurd rfl hp
  | cons x rest ih =>
    obtain ⟨s, e⟩ := x
    -- either the first step already saw the context fired, or it fires later in `rest`
    have key : ∀ w', (step true w e).1 = w' → (run true w' rest).1.err = some c →
        (run true w' rest).1.closed = true ∨ (run true w' rest).1.closing = true := by
      intro w' hw' hrest
      by_cases hr : rest = []
      · subst hr
        simp only [run] at hrest ⊢
        rw [← hw'] at hrest ⊢
        exact step_closed w e c hrest
      · exact ih _ hr hrest
    unfold run at h ⊢
    cases hr : (step true w e).2 with
    | ok => rw [hr] at h; simp only at h ⊢; exact key _ rfl h
    | blocked =>
      rw [hr] at h; simp only at h
      have := (step_blocked true w e hr).1
      rw [this] at h; cases h
    | io x =>
      rw [hr] at h; simp only at h ⊢
      by_cases hsw : s.onErr = .swallow
      · rw [if_pos hsw] at h ⊢; exact key _ rfl h
      · rw [if_neg hsw] at h ⊢; exact step_closed w e c h
    | ctx c' =>
      rw [hr] at h; simp only at h ⊢
      by_cases hsw : s.onErr = .swallow
      · rw [if_pos hsw] at h ⊢; exact key _ rfl h
      · rw [if_neg hsw] at h ⊢; exact step_closed w e c h

/-- Refinement: when nothing can fire the operation is the bare I/O (result, number of
    requests), and the context / connection state is untouched. -/
theorem run_bare (gc : Bool) (p : List (Step × StepEnv)) (w : World) (hn : w.err = none)
    (hq : w.cancellable = false ∨ silent p) :
    run gc w p = ({ w with io := (bareRun w.closed p w.io).1 }, (bareRun w.closed p w.io).2) := by
  induction p generalizing w with
  | nil => simp [run, bareRun]
  | cons x rest ih =>
    obtain ⟨s, e⟩ := x
    have hq1 : w.cancellable = false ∨ (e.pre = none ∧ e.mid = none) := by
      rcases hq with h | h
      · exact Or.inl h
      · exact Or.inr (h (s, e) (List.mem_cons_self ..))
    have hq2 : ({ w with io := w.io + 1 } : World).cancellable = false ∨ silent rest := by
      rcases hq with h | h
      · exact Or.inl h
      · exact Or.inr (fun y hy => h y (List.mem_cons_of_mem _ hy))
    have hs := step_bare gc w e hn hq1
    have ih' := ih { w with io := w.io + 1 } hn hq2
    unfold run bareRun
    rw [hs]
    simp only
    cases hb : bareStep w.closed e.peer with
    | ok => simp only; rw [ih']
    | blocked => simp
    | io x =>
      simp only
      by_cases hsw : s.onErr = .swallow
      · rw [if_pos hsw, if_pos hsw, ih']
      · rw [if_neg hsw, if_neg hsw]
    | ctx c =>
      exfalso
      unfold bareStep at hb
      by_cases hcl : w.closed = true
      · simp [hcl] at hb
      · simp only [hcl] at hb
        cases hp : e.peer <;> simp [hp] at hb

theorem bareRun_cons_quiet (s : Step) (rest : List (Step × StepEnv)) (n : Nat) :
    bareRun false ((s, quietEnv) :: rest) n = bareRun false rest (n + 1) := by
  simp [bareRun, bareStep, quietEnv]

theorem bareRun_quiet (a : List Step) (rest : List (Step × StepEnv)) (n : Nat) :
    bareRun false (quiet a ++ rest) n = bareRun false rest (n + a.length) := by
  induction a generalizing n with
  | nil => simp [quiet]
  | cons s t ih =>
    have h1 : quiet (s :: t) ++ rest = (s, quietEnv) :: (quiet t ++ rest) := rfl
    rw [h1, bareRun_cons_quiet, ih (n + 1)]
    congr 1
    simp only [List.length_cons]; omega

theorem run_cons_quiet (gc : Bool) (s : Step) (rest : List (Step × StepEnv)) (w : World)
    (hn : w.err = none) (hcl : w.closed = false) :
    run gc w ((s, quietEnv) :: rest) = run gc { w with io := w.io + 1 } rest := by
  have hs := step_bare gc w quietEnv hn (Or.inr ⟨rfl, rfl⟩)
  have hb : bareStep w.closed quietEnv.peer = .ok := by simp [bareStep, hcl, quietEnv]
  rw [hb] at hs
  conv => lhs; unfold run
  simp only [hs]

/-- A prefix of steps that complete with no event just advances the request counter. -/
theorem run_quiet_append (gc : Bool) (a : List Step) (rest : List (Step × StepEnv)) (w : World)
    (hn : w.err = none) (hcl : w.closed = false) :
    run gc w (quiet a ++ rest) = run gc { w with io := w.io + a.length } rest := by
  induction a generalizing w with
  | nil => simp [quiet]
  | cons s t ih =>
    have h1 : quiet (s :: t) ++ rest = (s, quietEnv) :: (quiet t ++ rest) := rfl
    rw [h1, run_cons_quiet gc s _ w hn hcl, ih { w with io := w.io + 1 } hn hcl]
    congr 2
    simp only [List.length_cons]; omega

end Cedar.Cancel
