/-
  Helper lemmas for C06 ("never revives a dead session", over ALL orderings): operation histories
  on the SessionCache model itself (CedarModel/SessionCache.lean) — every cache method and the three
  resumption machines as one operation type — and the invariant that a session which is absent, or
  expired as of time `t`, stays so under every operation that does not `Store` it again, as long as
  the clock does not run backwards.
-/
import CedarProofs.CacheLemmas

namespace Cedar.SC

/-- everything that touches a session cache -/
inductive COp
  | store (e : Entry)
  | invalidate (id : Str)
  | sweep (now : Nat)                                   -- InvalidateExpired
  | lookup (now : Nat) (id : Str)                       -- LookupNonExpired (deletes an expired hit)
  | mapCommand (tag addr cmd sid : Str)
  | serverResume (now : Nat) (sid : Str) (want : Bool) (nonce : Nat) (ra : Bool)
  | clientTry (now : Nat) (tag addr cmd : Str) (ans : ServerAnswer) (ra : Bool)
  | clientById (now : Nat) (sid : Str) (ans : ServerAnswer) (ra : Bool)
  | clientStore (tag addr : Str) (e : Entry)            -- storeClientSession after a full handshake

def COp.apply (c : Cache) : COp → Cache
  | .store e => c.store e
  | .invalidate id => c.invalidate id
  | .sweep now => c.invalidateExpired now
  | .lookup now id => (c.lookupNonExpired now id).1
  | .mapCommand tag addr cmd sid => c.mapCommand tag addr cmd sid
  | .serverResume now sid w n ra => (Cedar.SC.serverResume c now sid w n ra).1
  | .clientTry now tag addr cmd ans ra => (Cedar.SC.clientTry c now tag addr cmd ans ra).1
  | .clientById now sid ans ra => (Cedar.SC.clientById c now sid ans ra).1
  | .clientStore tag addr e => Cedar.SC.clientStore c tag addr e

/-- the operation stores a session with identifier `S` (a new handshake established it again) -/
def COp.stores (S : Str) : COp → Bool
  | .store e => e.id == S
  | .clientStore _ _ e => e.id == S
  | _ => false

/-- the clock reading the operation uses, if any -/
def COp.time : COp → Option Nat
  | .sweep now => some now
  | .lookup now _ => some now
  | .serverResume now _ _ _ _ => some now
  | .clientTry now _ _ _ _ _ => some now
  | .clientById now _ _ _ => some now
  | _ => none

def Cache.runOps (c : Cache) (ops : List COp) : Cache := ops.foldl COp.apply c

/-- well-formed: one binding per identifier, each entry filed under its own identifier (what
    `Store` maintains; holds of the empty cache) -/
def Cache.WF (c : Cache) : Prop := (c.sessions.map (·.1)).Nodup ∧ ∀ p ∈ c.sessions, p.2.id = p.1

/-- dead as of time `t`: not in the cache, or in it with an expiration before `t` -/
def Cache.DeadAt (c : Cache) (S : Str) (t : Nat) : Prop :=
  ∀ e, c.get S = some e → ∃ x, e.expiration = some x ∧ x < t

theorem wf_empty : ({} : Cache).WF := ⟨List.nodup_nil, by intro p hp; cases hp⟩

theorem wf_get {c : Cache} (h : c.WF) {id : Str} {e : Entry} (hg : c.get id = some e) : e.id = id :=
  h.2 (id, e) (lookup_mem _ _ _ hg)

/-- with one binding per key, a filtered association list finds only what the full one found -/
theorem lookup_filter_nodup {α β : Type} [BEq α] [LawfulBEq α] (l : List (α × β)) (q : α × β → Bool) (k : α) (v : β)
    (hn : (l.map (·.1)).Nodup) (h : (l.filter q).lookup k = some v) : l.lookup k = some v := by
  induction l with
  | nil => simp at h
  | cons p rest ih =>
    obtain ⟨a, b⟩ := p
    simp only [List.map_cons, List.nodup_cons] at hn
    rw [List.filter_cons] at h
    by_cases hk : k = a
    · subst hk
      cases hq : q (k, b) with
      | true => simpa [hq, List.lookup] using h
      | false =>
        simp only [hq, Bool.false_eq_true, if_false] at h
        have hm := lookup_mem _ _ _ h
        have : k ∈ rest.map (·.1) := List.mem_map.mpr ⟨(k, v), (List.mem_filter.mp hm).1, rfl⟩
        exact absurd this hn.1
    · have hb : (k == a) = false := by simpa using hk
      cases hq : q (a, b) with
      | true =>
        simp only [hq, if_true, List.lookup, hb] at h ⊢
        exact ih hn.2 h
      | false =>
        simp only [hq, Bool.false_eq_true, if_false] at h
        simp only [List.lookup, hb]
        exact ih hn.2 h

theorem wf_filter {c : Cache} (h : c.WF) (q : Str × Entry → Bool) (m : List (Str × Str)) :
    Cache.WF { sessions := c.sessions.filter q, cmdMap := m } :=
  ⟨(List.filter_sublist.map _).nodup h.1, fun p hp => h.2 p (List.mem_filter.mp hp).1⟩

theorem wf_store {c : Cache} (h : c.WF) (e : Entry) : (c.store e).WF := by
  constructor
  · simp only [Cache.store, List.map_cons, List.nodup_cons]
    refine ⟨?_, (List.filter_sublist.map _).nodup h.1⟩
    intro hm
    obtain ⟨p, hp, hpe⟩ := List.mem_map.mp hm
    have := (List.mem_filter.mp hp).2
    simp at this
    exact this hpe
  · intro p hp
    simp only [Cache.store, List.mem_cons] at hp
    rcases hp with rfl | hp
    · rfl
    · exact h.2 p (List.mem_filter.mp hp).1

theorem wf_invalidate {c : Cache} (h : c.WF) (id : Str) : (c.invalidate id).WF := by
  unfold Cache.invalidate
  exact wf_filter h _ _

theorem wf_forget {c : Cache} (h : c.WF) (id : Str) : (c.forget id).WF := wf_filter h _ _

theorem wf_lookupNonExpired {c : Cache} (h : c.WF) (now : Nat) (id : Str) : (c.lookupNonExpired now id).1.WF := by
  unfold Cache.lookupNonExpired
  split
  · exact h
  · split
    · exact wf_filter h _ _
    · exact h

theorem sessions_foldl_mapCommand (tag addr sid : Str) : ∀ (cmds : List Str) (c : Cache),
    (cmds.foldl (fun acc cmd => if cmd = [] then acc else acc.mapCommand tag addr cmd sid) c).sessions = c.sessions := by
  intro cmds
  induction cmds with
  | nil => intro c; rfl
  | cons x xs ih =>
    intro c
    simp only [List.foldl_cons]
    rw [ih]
    split <;> rfl

theorem renew_id (e : Entry) (now : Nat) : (e.renew now).id = e.id := by
  unfold Entry.renew; split <;> rfl

/-- every operation keeps the cache well-formed -/
theorem wf_apply {c : Cache} (h : c.WF) (o : COp) : (o.apply c).WF := by
  cases o with
  | store e => exact wf_store h e
  | invalidate id => exact wf_invalidate h id
  | sweep now => exact wf_filter h _ _
  | lookup now id => exact wf_lookupNonExpired h now id
  | mapCommand tag addr cmd sid => exact h
  | serverResume now sid w n ra =>
    simp only [COp.apply, serverResume]
    have h1 := wf_lookupNonExpired h now sid
    split
    · exact h1
    · exact wf_store h1 _
  | clientTry now tag addr cmd ans ra =>
    simp only [COp.apply, clientTry]
    split
    · exact h
    · split
      · exact h
      · split
        · exact h
        · cases ans
          · exact wf_store h _
          · exact wf_invalidate h _
          · exact wf_invalidate h _
          · exact h
  | clientById now sid ans ra =>
    simp only [COp.apply, clientById]
    have h1 := wf_lookupNonExpired h now sid
    split
    · rename_i c1 heq; rw [show c1 = (c.lookupNonExpired now sid).1 by rw [heq]]; exact h1
    · rename_i c1 e heq
      have h1' : c1.WF := by rw [show c1 = (c.lookupNonExpired now sid).1 by rw [heq]]; exact h1
      split
      · exact h1'
      · cases ans
        · exact wf_store h1' _
        · exact wf_invalidate h1' _
        · exact wf_invalidate h1' _
        · exact h1'
  | clientStore tag addr e =>
    have hs := sessions_foldl_mapCommand tag addr ({ e with tag := tag, addr := addr } : Entry).id
      ({ e with tag := tag, addr := addr } : Entry).validCommands
      ((c.forget ({ e with tag := tag, addr := addr } : Entry).id).store { e with tag := tag, addr := addr })
    have hw := wf_store (wf_forget h ({ e with tag := tag, addr := addr } : Entry).id) { e with tag := tag, addr := addr }
    simp only [COp.apply, clientStore]
    exact ⟨by rw [hs]; exact hw.1, by rw [hs]; exact hw.2⟩

theorem wf_runOps : ∀ (ops : List COp) (c : Cache), c.WF → (c.runOps ops).WF := by
  intro ops
  induction ops with
  | nil => intro c h; exact h
  | cons o os ih => intro c h; exact ih _ (wf_apply h o)

/-! ### the dead stay dead -/

theorem dead_of_get_eq {c c' : Cache} {S : Str} {t : Nat} (h : c.DeadAt S t)
    (hg : ∀ e, c'.get S = some e → c.get S = some e) : c'.DeadAt S t :=
  fun e he => h e (hg e he)

theorem dead_filter {c : Cache} (hw : c.WF) {S : Str} {t : Nat} (h : c.DeadAt S t)
    (q : Str × Entry → Bool) (m : List (Str × Str)) :
    Cache.DeadAt { sessions := c.sessions.filter q, cmdMap := m } S t :=
  dead_of_get_eq h (fun e he => lookup_filter_nodup _ q S e hw.1 he)

theorem dead_store {c : Cache} {S : Str} {t : Nat} (h : c.DeadAt S t) (e : Entry) (hne : e.id ≠ S) :
    (c.store e).DeadAt S t :=
  dead_of_get_eq h (fun e' he => by rwa [get_store_other c e S (fun h => hne h.symm)] at he)

theorem dead_invalidate {c : Cache} (hw : c.WF) {S : Str} {t : Nat} (h : c.DeadAt S t) (id : Str) :
    (c.invalidate id).DeadAt S t := by
  unfold Cache.invalidate
  exact dead_filter hw h _ _

theorem dead_forget {c : Cache} (hw : c.WF) {S : Str} {t : Nat} (h : c.DeadAt S t) (id : Str) :
    (c.forget id).DeadAt S t := dead_filter hw h _ _

theorem dead_lookupNonExpired {c : Cache} (hw : c.WF) {S : Str} {t : Nat} (h : c.DeadAt S t) (now : Nat) (id : Str) :
    (c.lookupNonExpired now id).1.DeadAt S t := by
  unfold Cache.lookupNonExpired
  split
  · exact h
  · split
    · exact dead_filter hw h _ _
    · exact h

/-- a dead session is not what a lookup at a time `≥ t` returns -/
theorem dead_not_found {c : Cache} {S : Str} {t now : Nat} (h : c.DeadAt S t) (ht : t ≤ now) :
    (c.lookupNonExpired now S).2 = none := by
  unfold Cache.lookupNonExpired
  cases hg : c.get S with
  | none => rfl
  | some e =>
    obtain ⟨x, hx, hlt⟩ := h e hg
    have : e.expired now = true := by simp [Entry.expired, hx]; omega
    simp [this]

/-- a live hit under another identifier: its entry is not `S`'s -/
theorem live_hit_ne {c : Cache} (hw : c.WF) {S sid : Str} {t now : Nat} (h : c.DeadAt S t) (ht : t ≤ now)
    {e : Entry} (hg : c.get sid = some e) (hlive : e.expired now = false) : e.id ≠ S := by
  intro heq
  have hid := wf_get hw hg
  rw [heq] at hid
  subst hid
  obtain ⟨x, hx, hlt⟩ := h e hg
  have : e.expired now = true := by simp [Entry.expired, hx]; omega
  rw [this] at hlive; cases hlive

theorem lookupNonExpired_some {c : Cache} {now : Nat} {id : Str} {c1 : Cache} {e : Entry}
    (h : c.lookupNonExpired now id = (c1, some e)) : c1 = c ∧ c.get id = some e ∧ e.expired now = false := by
  unfold Cache.lookupNonExpired at h
  cases hg : c.get id with
  | none => simp [hg] at h
  | some e' =>
    simp only [hg] at h
    by_cases hx : e'.expired now = true
    · simp [hx] at h
    · simp only [hx, Bool.false_eq_true, if_false, Prod.mk.injEq, Option.some.injEq] at h
      exact ⟨h.1.symm, by rw [h.2], by rw [← h.2]; simpa using hx⟩

/-- **one step**: an operation that does not store `S` again and does not read a clock before `t`
    keeps `S` dead -/
theorem dead_apply {c : Cache} (hw : c.WF) {S : Str} {t : Nat} (h : c.DeadAt S t) (o : COp)
    (hno : o.stores S = false) (htime : ∀ n, o.time = some n → t ≤ n) : (o.apply c).DeadAt S t := by
  cases o with
  | store e => exact dead_store h e (by simpa [COp.stores] using hno)
  | invalidate id => exact dead_invalidate hw h id
  | sweep now => exact dead_filter hw h _ _
  | lookup now id => exact dead_lookupNonExpired hw h now id
  | mapCommand tag addr cmd sid => exact h
  | serverResume now sid w n ra =>
    have ht : t ≤ now := htime now rfl
    simp only [COp.apply, serverResume]
    have h1 := dead_lookupNonExpired hw h now sid
    split
    · exact h1
    · rename_i e hus
      -- the entry used was a live hit of `sid`
      cases hf : (c.lookupNonExpired now sid).2 with
      | none => simp [hf] at hus
      | some e0 =>
        obtain ⟨hc1, hg, hlive⟩ := lookupNonExpired_some (c1 := (c.lookupNonExpired now sid).1) (e := e0)
          (by rw [← hf])
        simp only [hf] at hus
        split at hus
        · simp only [Option.some.injEq] at hus
          subst hus
          exact dead_store h1 _ (by rw [renew_id]; exact live_hit_ne hw h ht hg hlive)
        · cases hus
  | clientTry now tag addr cmd ans ra =>
    have ht : t ≤ now := htime now rfl
    simp only [COp.apply, clientTry]
    split
    · exact h
    · split
      · exact h
      · rename_i e hl
        obtain ⟨sid, _, hg, hlive⟩ := lookupByCommand_id c now tag addr cmd e hl
        have hne := live_hit_ne hw h ht hg hlive
        split
        · exact h
        · cases ans
          · exact dead_store h _ (by rw [renew_id]; exact hne)
          · exact dead_invalidate hw h _
          · exact dead_invalidate hw h _
          · exact h
  | clientById now sid ans ra =>
    have ht : t ≤ now := htime now rfl
    simp only [COp.apply, clientById]
    have h1 := dead_lookupNonExpired hw h now sid
    have hw1 := wf_lookupNonExpired hw now sid
    split
    · rename_i c1 heq; rw [show c1 = (c.lookupNonExpired now sid).1 by rw [heq]]; exact h1
    · rename_i c1 e heq
      obtain ⟨hc1, hg, hlive⟩ := lookupNonExpired_some heq
      subst hc1
      have hne := live_hit_ne hw h ht hg hlive
      split
      · exact h
      · cases ans
        · exact dead_store h _ (by rw [renew_id]; exact hne)
        · exact dead_invalidate hw h _
        · exact dead_invalidate hw h _
        · exact h
  | clientStore tag addr e =>
    have hs := sessions_foldl_mapCommand tag addr ({ e with tag := tag, addr := addr } : Entry).id
      ({ e with tag := tag, addr := addr } : Entry).validCommands
      ((c.forget ({ e with tag := tag, addr := addr } : Entry).id).store { e with tag := tag, addr := addr })
    have hd := dead_store (dead_forget hw h ({ e with tag := tag, addr := addr } : Entry).id)
      { e with tag := tag, addr := addr } (by simpa [COp.stores] using hno)
    intro e' he'
    apply hd e'
    simp only [COp.apply, clientStore, Cache.get] at he'
    rw [hs] at he'
    exact he'

/-- **any history** -/
theorem dead_runOps : ∀ (ops : List COp) (c : Cache) (S : Str) (t : Nat), c.WF → c.DeadAt S t →
    (∀ o ∈ ops, o.stores S = false) → (∀ o ∈ ops, ∀ n, o.time = some n → t ≤ n) →
    (c.runOps ops).DeadAt S t := by
  intro ops
  induction ops with
  | nil => intro c S t _ h _ _; exact h
  | cons o os ih =>
    intro c S t hw h hno htime
    exact ih (o.apply c) S t (wf_apply hw o)
      (dead_apply hw h o (hno o (List.mem_cons_self ..)) (htime o (List.mem_cons_self ..)))
      (fun o' ho' => hno o' (List.mem_cons_of_mem _ ho')) (fun o' ho' => htime o' (List.mem_cons_of_mem _ ho'))

end Cedar.SC
