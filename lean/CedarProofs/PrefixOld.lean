/-
  C02 / C06, replay ACROSS connections of one session. Resumed connections reuse the session key
  `k`, so an on-path adversary also holds seals under `k` recorded on EARLIER connections of the
  session (either direction). `AdvFrame` (Prefix.lean) excludes them by hypothesis. Here the
  adversary is enlarged by a third class, `OldSeal`, and the frame-level and message-level prefix
  lemmas are re-proved for it — generically in the adversary predicate, so the receive loops are
  not duplicated.
-/
import CedarProofs.Prefix
import CedarProofs.TypedPrefix
import CedarProofs.IncrPrefix

namespace Cedar

/-- A seal recorded on an earlier connection of the session, as seen from the current receiver:
    * its nonce was built from ANOTHER base IV — the 12-byte tail differs from the current sender's
      (`iv`): every connection draws a fresh random IV in each direction;
    * if it is a first frame (it carries digests) they are not the digest pair `rdg` the current
      receiver expects on its first protected frame: that connection's cleartext transcript was
      different (fresh `ResumeNonce` in the reply, fix D6).
    Both parts are needed: at counter 0 the receiver takes the base IV from the frame itself, so
    only the digests tell an old first frame from the current one (cf. `C06.noreply_replay_fails`). -/
def OldSeal (iv : IV) (rdg : Digest × Digest) (c : Sealed) : Prop :=
  c.nonce.tail ≠ iv.tail ∧ c.aad.digests ≠ some rdg

/-- the enlarged on-path adversary: `AdvFrame` plus old-connection seals -/
def AdvFrameO (k : Nat) (iv : IV) (dg : Digest × Digest) (ownIV : IV) (rdg : Digest × Digest) (c0 : Nat)
    (items : List Item) (g : WireFrame) : Prop :=
  match g.body with
  | .raw _ => True
  | .ct ivo c => (∀ i, ivo = some i → i.w0 < 2^32) ∧
      (c.key = k → Known k iv dg c0 items c ∨ Foreign iv ownIV c ∨ OldSeal iv rdg c)

theorem advFrame_advFrameO {k iv dg ownIV rdg c0 items g} (h : AdvFrame k iv dg ownIV c0 items g) :
    AdvFrameO k iv dg ownIV rdg c0 items g := by
  unfold AdvFrame at h; unfold AdvFrameO
  cases hb : g.body with
  | raw b => trivial
  | ct ivo c =>
    simp only [hb] at h ⊢
    exact ⟨h.1, fun hk => (h.2 hk).elim .inl (fun x => .inr (.inl x))⟩

theorem advO_cases {k iv dg ownIV rdg c0 items g} (h : AdvFrameO k iv dg ownIV rdg c0 items g) :
    AdvFrame k iv dg ownIV c0 items g ∨ ∃ ivo c, g.body = .ct ivo c ∧ OldSeal iv rdg c := by
  unfold AdvFrameO at h; unfold AdvFrame
  cases hb : g.body with
  | raw b => left; trivial
  | ct ivo c =>
    simp only [hb] at h ⊢
    by_cases hk : c.key = k
    · rcases h.2 hk with h1 | h1 | h1
      · left; exact ⟨h.1, fun _ => .inl h1⟩
      · left; exact ⟨h.1, fun _ => .inr h1⟩
      · right; exact ⟨ivo, c, rfl, h1⟩
    · left; exact ⟨h.1, fun hk' => absurd hk' hk⟩

/-- an old-connection seal never opens: at counter 0 its digests are not the expected ones, later
    its nonce is not on the current base IV -/
theorem open_rejects_old {r : Stream} {k iv rdg c0 m g ivo c ivr p}
    (hr : RecvInv r k iv c0 m) (hrdg : c0 + m = 0 → (r.dig.fr, r.dig.fs) = rdg)
    (hb : g.body = .ct ivo c) (hold : OldSeal iv rdg c) :
    r.openBody k g ≠ .ok (ivr, p) := by
  intro h
  obtain ⟨hk, he, hc, hf, hdiv⟩ := hr
  unfold Stream.openBody at h
  split at h
  · cases h
  · split at h
    · cases h
    · by_cases hz : c0 + m = 0
      · have hc' : r.decCtr = 0 := by omega
        have hfin : r.finRecvAAD = false := by simpa [hz] using hf
        simp only [hc', if_true, hb] at h
        cases ivo with
        | none => simp at h
        | some i =>
          simp only [hfin, Bool.false_eq_true, if_false] at h
          by_cases hie : i = r.encIV
          · rw [if_pos hie] at h; cases h
          rw [if_neg hie] at h
          obtain ⟨hcond, _⟩ := ite_ok h
          apply hold.2
          rw [hcond.2.2, hrdg hz]
      · have hc' : r.decCtr ≠ 0 := by omega
        have hfin : r.finRecvAAD = true := by rw [hf]; exact decide_eq_true hz
        have hdi := hdiv hz
        simp only [hc', if_false, hb] at h
        cases ivo with
        | some i => simp at h
        | none =>
          simp only [hfin, if_true] at h
          obtain ⟨hcond, _⟩ := ite_ok h
          apply hold.1
          rw [hcond.2.1, hdi]
          rfl

/-- `open_only_next` for the enlarged adversary -/
theorem open_only_nextO {r : Stream} {k iv dg ownIV rdg c0 m items g ivr p}
    (hiv : iv.w0 < 2^32) (hlim : c0 + items.length ≤ counterLimit) (hm : m ≤ items.length)
    (hr : RecvInv r k iv c0 m)
    (hown : c0 + m = 0 → r.encIV = ownIV ∧ ownIV.w0 < 2^32 ∧ (r.dig.fr, r.dig.fs) = rdg)
    (hg : AdvFrameO k iv dg ownIV rdg c0 items g)
    (h : r.openBody k g = .ok (ivr, p)) :
    ∃ it, items[m]? = some it ∧ g.flag = it.flag ∧ p = it.plain ∧ ivr = iv := by
  rcases advO_cases hg with hg' | ⟨ivo, c, hb, hold⟩
  · exact open_only_next hiv hlim hm hr (fun hz => ⟨(hown hz).1, (hown hz).2.1⟩) hg' h
  · exact absurd h (open_rejects_old hr (fun hz => (hown hz).2.2) hb hold)

/-- `recv_accepts_only_next` for the enlarged adversary -/
theorem recv_accepts_only_nextO {r r' : Stream} {k iv dg ownIV rdg c0 m items g d fl}
    (hiv : iv.w0 < 2^32) (hlim : c0 + items.length ≤ counterLimit) (hm : m ≤ items.length)
    (hr : RecvInv r k iv c0 m)
    (hown : c0 + m = 0 → r.encIV = ownIV ∧ ownIV.w0 < 2^32 ∧ (r.dig.fr, r.dig.fs) = rdg)
    (hg : AdvFrameO k iv dg ownIV rdg c0 items g)
    (h : r.recvFrameWithEnd g = .ok (r', d, fl)) :
    ∃ it, items[m]? = some it ∧ fl = it.flag ∧ d = it.plain ∧ RecvInv r' k iv c0 (m + 1) := by
  have hk := hr.key
  have he := hr.enc
  unfold Stream.recvFrameWithEnd at h
  split at h
  · cases h
  · split at h
    · simp [Stream.crypting, hk, he] at h
    · simp only [hk, he] at h
      split at h
      · cases h
      · rename_i ivr p hopen
        simp only [Except.ok.injEq, Prod.mk.injEq] at h
        obtain ⟨rfl, rfl, rfl⟩ := h
        obtain ⟨it, hit, hfl, hp, hivr⟩ := open_only_nextO hiv hlim hm hr hown hg hopen
        subst hivr
        exact ⟨it, hit, hfl, hp, afterOpen_recvInv hr _⟩

/-! ### the receive loops, generic in the adversary predicate

`P` is any predicate on wire frames and `Q` any first-frame side condition such that an accepted
`P`-frame is the next honest one (`Step`). -/

def Step (k : Nat) (iv : IV) (c0 : Nat) (items : List Item) (P : WireFrame → Prop) (Q : Stream → Prop) : Prop :=
  ∀ (r r' : Stream) (m : Nat) (g : WireFrame) (d : Bytes) (fl : Nat),
    m ≤ items.length → RecvInv r k iv c0 m → (c0 + m = 0 → Q r) → P g →
    r.recvFrameWithEnd g = .ok (r', d, fl) →
    ∃ it, items[m]? = some it ∧ fl = it.flag ∧ d = it.plain ∧ RecvInv r' k iv c0 (m + 1)

theorem recvComplete_spec_gen {k iv c0 items} {P : WireFrame → Prop} {Q : Stream → Prop}
    (hstep : Step k iv c0 items P Q) :
    ∀ (w : List WireFrame) (r : Stream) (m : Nat) (acc : Bytes) r' msg w',
      m ≤ items.length → RecvInv r k iv c0 m → (c0 + m = 0 → Q r) → (∀ g ∈ w, P g) →
      r.recvCompleteAux acc w = .ok (r', msg, w') →
      ∃ m', m < m' ∧ m' ≤ items.length ∧ RecvInv r' k iv c0 m' ∧ (∀ g ∈ w', P g) ∧
        messagesOf acc ((items.drop m).map Item.op) = msg :: messagesOf [] ((items.drop m').map Item.op) := by
  intro w
  induction w with
  | nil => intro r m acc r' msg w' _ _ _ _ h; simp [Stream.recvCompleteAux] at h
  | cons g w ih =>
    intro r m acc r' msg w' hm hr hdg hadv h
    unfold Stream.recvCompleteAux at h
    split at h
    · cases h
    · rename_i s1 d fl hrecv
      obtain ⟨it, hit, hfl, hd, hr1⟩ := hstep r s1 m g d fl hm hr hdg (hadv g (List.mem_cons_self ..)) hrecv
      have hml : m < items.length := (List.getElem?_eq_some_iff.mp hit).1
      have hdrop : items.drop m = it :: items.drop (m + 1) := by
        rw [List.drop_eq_getElem_cons hml]
        congr 1
        exact (List.getElem?_eq_some_iff.mp hit).2
      by_cases h1 : fl = 1
      · rw [if_pos h1] at h
        simp only [Except.ok.injEq, Prod.mk.injEq] at h
        obtain ⟨rfl, rfl, rfl⟩ := h
        refine ⟨m + 1, by omega, by omega, hr1, fun g hg => hadv g (List.mem_cons_of_mem _ hg), ?_⟩
        rw [hdrop]
        simp [messagesOf, Item.op, ← hfl, h1, hd]
      · rw [if_neg h1] at h
        by_cases h0 : fl = 0
        · rw [if_pos h0] at h
          obtain ⟨m', hm1, hm2, hr', hadv', hmsg⟩ :=
            ih s1 (m + 1) (acc ++ d) r' msg w' (by omega) hr1 (fun h => by omega)
              (fun g hg => hadv g (List.mem_cons_of_mem _ hg)) h
          refine ⟨m', by omega, hm2, hr', hadv', ?_⟩
          rw [hdrop]
          have : it.flag ≠ 1 := by omega
          simp only [List.map_cons, messagesOf, Item.op, this, if_false, ← hd]
          exact hmsg
        · rw [if_neg h0] at h; cases h

theorem deliver_prefix_gen {k iv c0 items} {P : WireFrame → Prop} {Q : Stream → Prop}
    (hstep : Step k iv c0 items P Q) :
    ∀ (n : Nat) (r : Stream) (w : List WireFrame) (m : Nat),
      m ≤ items.length → RecvInv r k iv c0 m → (c0 + m = 0 → Q r) → (∀ g ∈ w, P g) →
      Stream.deliverFuel n r w <+: messagesOf [] ((items.drop m).map Item.op) := by
  intro n
  induction n with
  | zero => intro r w m _ _ _ _; simp [Stream.deliverFuel]
  | succ n ih =>
    intro r w m hm hr hdg hadv
    unfold Stream.deliverFuel
    split
    · simp
    · rename_i r' msg w' hrc
      obtain ⟨m', hm1, hm2, hr', hadv', hmsg⟩ :=
        recvComplete_spec_gen hstep w r m [] r' msg w' hm hr hdg hadv hrc
      rw [hmsg]
      exact List.prefix_cons_inj msg |>.mpr (ih r' w' m' hm2 hr' (fun h => by omega) hadv')

theorem recvRest_spec_gen {k iv c0 items} {P : WireFrame → Prop} {Q : Stream → Prop}
    (hstep : Step k iv c0 items P Q) :
    ∀ (w : List WireFrame) (r : Stream) (m : Nat) (acc : Bytes) r' msg w',
      m ≤ items.length → RecvInv r k iv c0 m → (c0 + m = 0 → Q r) → (∀ g ∈ w, P g) →
      r.recvRestAux acc w = .ok (r', msg, w') →
      ∃ m', m < m' ∧ m' ≤ items.length ∧ RecvInv r' k iv c0 m' ∧ (∀ g ∈ w', P g) ∧
        messagesOfT acc ((items.drop m).map Item.op) = msg :: messagesOfT [] ((items.drop m').map Item.op) := by
  intro w
  induction w with
  | nil => intro r m acc r' msg w' _ _ _ _ h; simp [Stream.recvRestAux] at h
  | cons g w ih =>
    intro r m acc r' msg w' hm hr hdg hadv h
    unfold Stream.recvRestAux at h
    split at h
    · cases h
    · rename_i s1 d fl hrecv
      obtain ⟨it, hit, hfl, hd, hr1⟩ := hstep r s1 m g d fl hm hr hdg (hadv g (List.mem_cons_self ..)) hrecv
      have hml : m < items.length := (List.getElem?_eq_some_iff.mp hit).1
      have hdrop : items.drop m = it :: items.drop (m + 1) := by
        rw [List.drop_eq_getElem_cons hml]
        congr 1
        exact (List.getElem?_eq_some_iff.mp hit).2
      by_cases h0 : fl ≠ 0
      · rw [if_pos h0] at h
        simp only [Except.ok.injEq, Prod.mk.injEq] at h
        obtain ⟨rfl, rfl, rfl⟩ := h
        refine ⟨m + 1, by omega, by omega, hr1, fun g hg => hadv g (List.mem_cons_of_mem _ hg), ?_⟩
        rw [hdrop]
        have : it.flag ≠ 0 := by rw [← hfl]; exact h0
        simp [messagesOfT, Item.op, this, hd]
      · rw [if_neg h0] at h
        obtain ⟨m', hm1, hm2, hr', hadv', hmsg⟩ :=
          ih s1 (m + 1) (acc ++ d) r' msg w' (by omega) hr1 (fun h => by omega)
            (fun g hg => hadv g (List.mem_cons_of_mem _ hg)) h
        refine ⟨m', by omega, hm2, hr', hadv', ?_⟩
        rw [hdrop]
        have : it.flag = 0 := by rw [← hfl]; simpa using h0
        simp only [List.map_cons, messagesOfT, Item.op, this, ne_eq, not_true_eq_false, if_false, ← hd]
        exact hmsg

theorem deliverRest_prefix_gen {k iv c0 items} {P : WireFrame → Prop} {Q : Stream → Prop}
    (hstep : Step k iv c0 items P Q) :
    ∀ (n : Nat) (r : Stream) (w : List WireFrame) (m : Nat),
      m ≤ items.length → RecvInv r k iv c0 m → (c0 + m = 0 → Q r) → (∀ g ∈ w, P g) →
      Stream.deliverRestFuel n r w <+: messagesOfT [] ((items.drop m).map Item.op) := by
  intro n
  induction n with
  | zero => intro r w m _ _ _ _; simp [Stream.deliverRestFuel]
  | succ n ih =>
    intro r w m hm hr hdg hadv
    unfold Stream.deliverRestFuel
    split
    · simp
    · rename_i r' msg w' hrc
      obtain ⟨m', hm1, hm2, hr', hadv', hmsg⟩ :=
        recvRest_spec_gen hstep w r m [] r' msg w' hm hr hdg hadv hrc
      rw [hmsg]
      exact List.prefix_cons_inj msg |>.mpr (ih r' w' m' hm2 hr' (fun h => by omega) hadv')

/-- the enlarged adversary satisfies `Step` -/
theorem step_advO {k iv dg ownIV rdg c0 items}
    (hiv : iv.w0 < 2^32) (hlim : c0 + items.length ≤ counterLimit) :
    Step k iv c0 items (AdvFrameO k iv dg ownIV rdg c0 items)
      (fun r => r.encIV = ownIV ∧ ownIV.w0 < 2^32 ∧ (r.dig.fr, r.dig.fs) = rdg) :=
  fun _ _ _ _ _ _ hm hr hq hg h => recv_accepts_only_nextO hiv hlim hm hr hq hg h

/-- **deliver_prefix for the enlarged adversary** -/
theorem deliver_prefixO {k iv dg ownIV rdg c0 items}
    (hiv : iv.w0 < 2^32) (hlim : c0 + items.length ≤ counterLimit) :
    ∀ (n : Nat) (r : Stream) (w : List WireFrame) (m : Nat),
      m ≤ items.length → RecvInv r k iv c0 m →
      (c0 + m = 0 → r.encIV = ownIV ∧ ownIV.w0 < 2^32 ∧ (r.dig.fr, r.dig.fs) = rdg) →
      (∀ g ∈ w, AdvFrameO k iv dg ownIV rdg c0 items g) →
      Stream.deliverFuel n r w <+: messagesOf [] ((items.drop m).map Item.op) :=
  deliver_prefix_gen (step_advO (dg := dg) hiv hlim)

theorem deliverRest_prefixO {k iv dg ownIV rdg c0 items}
    (hiv : iv.w0 < 2^32) (hlim : c0 + items.length ≤ counterLimit) :
    ∀ (n : Nat) (r : Stream) (w : List WireFrame) (m : Nat),
      m ≤ items.length → RecvInv r k iv c0 m →
      (c0 + m = 0 → r.encIV = ownIV ∧ ownIV.w0 < 2^32 ∧ (r.dig.fr, r.dig.fs) = rdg) →
      (∀ g ∈ w, AdvFrameO k iv dg ownIV rdg c0 items g) →
      Stream.deliverRestFuel n r w <+: messagesOfT [] ((items.drop m).map Item.op) :=
  deliverRest_prefix_gen (step_advO (dg := dg) hiv hlim)

/-! ### the incremental API and plain `ReceiveFrame`, generic in the adversary predicate -/

theorem readNext_spec_gen {k iv c0 items} {P : WireFrame → Prop} {Q : Stream → Prop}
    (hstep : Step k iv c0 items P Q) (hfl : ∀ it ∈ items, it.flag ≤ 1) :
    ∀ (w : List WireFrame) (r : Stream) (m : Nat) r' w',
      m ≤ items.length → RecvInv r k iv c0 m → (c0 + m = 0 → Q r) → (∀ g ∈ w, P g) →
      r.readNextFrame w = .ok (r', w') →
      ∃ m', m < m' ∧ m' ≤ items.length ∧ RecvInv r' k iv c0 m' ∧ (∀ g ∈ w', P g) ∧
        r'.inMessage = r.inMessage ∧ r'.bytesRead = r.bytesRead ∧ r'.totalMsg = r'.recvBuf.length ∧
        messagesOf r.recvBuf ((items.drop m).map Item.op) = r'.recvBuf :: messagesOf [] ((items.drop m').map Item.op) := by
  intro w
  induction w with
  | nil => intro r m r' w' _ _ _ _ h; simp [Stream.readNextFrame] at h
  | cons g w ih =>
    intro r m r' w' hm hr hdg hadv h
    unfold Stream.readNextFrame at h
    split at h
    · cases h
    · rename_i s1 d fl hrecv
      obtain ⟨it, hit, hfle, hd, hr1⟩ := hstep r s1 m g d fl hm hr hdg (hadv g (List.mem_cons_self ..)) hrecv
      obtain ⟨hb1, hin1, hbr1⟩ := recvFrameWithEnd_buf hrecv
      have hml : m < items.length := (List.getElem?_eq_some_iff.mp hit).1
      have hdrop : items.drop m = it :: items.drop (m + 1) := by
        rw [List.drop_eq_getElem_cons hml]
        congr 1
        exact (List.getElem?_eq_some_iff.mp hit).2
      have hitfl : it.flag ≤ 1 := hfl it (List.mem_of_getElem? hit)
      simp only [] at h
      have hr2 : RecvInv { s1 with recvBuf := s1.recvBuf ++ d, totalMsg := (s1.recvBuf ++ d).length } k iv c0 (m + 1) :=
        recvInv_congr hr1 rfl rfl rfl rfl rfl
      by_cases h0 : fl = 0
      · rw [if_pos h0] at h
        obtain ⟨m', hm1, hm2, hr', hadv', hin', hbr', htot', hmsg⟩ :=
          ih _ (m + 1) r' w' (by omega) hr2 (fun h => by omega)
            (fun g hg => hadv g (List.mem_cons_of_mem _ hg)) h
        refine ⟨m', by omega, hm2, hr', hadv', ?_, ?_, htot', ?_⟩
        · rw [hin']; exact hin1
        · rw [hbr']; exact hbr1
        · rw [hdrop]
          have hne : it.flag ≠ 1 := by omega
          simp only [List.map_cons, messagesOf, Item.op, hne, if_false]
          simp only [hb1, hd] at hmsg
          exact hmsg
      · rw [if_neg h0] at h
        simp only [Except.ok.injEq, Prod.mk.injEq] at h
        obtain ⟨rfl, rfl⟩ := h
        refine ⟨m + 1, by omega, by omega, hr2, fun g hg => hadv g (List.mem_cons_of_mem _ hg), hin1, hbr1, rfl, ?_⟩
        rw [hdrop]
        have he1 : it.flag = 1 := by omega
        simp only [List.map_cons, messagesOf, Item.op, he1, if_true, hb1, hd]

theorem recvIncremental_spec_gen {k iv c0 items} {P : WireFrame → Prop} {Q : Stream → Prop} {n : Nat} (hn : 0 < n)
    (hstep : Step k iv c0 items P Q) (hfl : ∀ it ∈ items, it.flag ≤ 1)
    (w : List WireFrame) (r : Stream) (m : Nat) (r' : Stream) (msg : Bytes) (w' : List WireFrame)
    (hm : m ≤ items.length) (hr : RecvInv r k iv c0 m) (hdg : c0 + m = 0 → Q r)
    (hadv : ∀ g ∈ w, P g)
    (hclean : r.inMessage = false) (hbuf : r.recvBuf = [])
    (h : r.recvIncremental n w = .ok (r', msg, w')) :
    ∃ m', m < m' ∧ m' ≤ items.length ∧ RecvInv r' k iv c0 m' ∧ (∀ g ∈ w', P g) ∧
      r'.inMessage = false ∧ r'.recvBuf = [] ∧
      messagesOf [] ((items.drop m).map Item.op) = msg :: messagesOf [] ((items.drop m').map Item.op) := by
  unfold Stream.recvIncremental at h
  split at h
  · cases h
  · rename_i s1 w1 hstart
    unfold Stream.startMessageRead at hstart
    have hni : ¬ r.inMessage = true := by simp [hclean]
    rw [if_neg hni] at hstart
    split at hstart
    · cases hstart
    · rename_i s0 w0 hrn
      simp only [Except.ok.injEq, Prod.mk.injEq] at hstart
      obtain ⟨rfl, rfl⟩ := hstart
      obtain ⟨m', hm1, hm2, hr0, hadv0, _, _, htot0, hmsg⟩ :=
        readNext_spec_gen hstep hfl w r m s0 w0 hm hr hdg hadv hrn
      rw [hbuf] at hmsg
      have hra := readAll_all (s0.recvBuf.length + 1) { s0 with inMessage := true, bytesRead := 0 } n []
        hn rfl (Nat.zero_le _) (by show s0.recvBuf.length - 0 < s0.recvBuf.length + 1; omega)
      have hlen : ({ s0 with inMessage := true, bytesRead := 0 } : Stream).recvBuf.length = s0.recvBuf.length := rfl
      rw [hlen] at h
      rw [hra] at h
      simp only [] at h
      unfold Stream.endMessageRead at h
      simp only [Bool.not_true, Bool.false_eq_true, if_false] at h
      have hnl : ¬ s0.recvBuf.length < s0.totalMsg := by omega
      rw [if_neg hnl] at h
      simp only [Except.ok.injEq, Prod.mk.injEq] at h
      obtain ⟨rfl, rfl, rfl⟩ := h
      refine ⟨m', hm1, hm2, recvInv_congr hr0 rfl rfl rfl rfl rfl, hadv0, rfl, rfl, ?_⟩
      rw [hmsg]
      simp

theorem deliverInc_prefix_gen {k iv c0 items} {P : WireFrame → Prop} {Q : Stream → Prop} {n : Nat} (hn : 0 < n)
    (hstep : Step k iv c0 items P Q) (hfl : ∀ it ∈ items, it.flag ≤ 1) :
    ∀ (fuel : Nat) (r : Stream) (w : List WireFrame) (m : Nat),
      m ≤ items.length → RecvInv r k iv c0 m → (c0 + m = 0 → Q r) → (∀ g ∈ w, P g) →
      r.inMessage = false → r.recvBuf = [] →
      Stream.deliverIncFuel fuel n r w <+: messagesOf [] ((items.drop m).map Item.op) := by
  intro fuel
  induction fuel with
  | zero => intro r w m _ _ _ _ _ _; simp [Stream.deliverIncFuel]
  | succ fuel ih =>
    intro r w m hm hr hdg hadv hclean hbuf
    unfold Stream.deliverIncFuel
    split
    · simp
    · rename_i r' msg w' hrc
      obtain ⟨m', hm1, hm2, hr', hadv', hc', hb', hmsg⟩ :=
        recvIncremental_spec_gen hn hstep hfl w r m r' msg w' hm hr hdg hadv hclean hbuf hrc
      rw [hmsg]
      exact List.prefix_cons_inj msg |>.mpr (ih r' w' m' hm2 hr' (fun h => by omega) hadv' hc' hb')

theorem deliverInc_prefixO {k iv dg ownIV rdg c0 items} {n : Nat} (hn : 0 < n)
    (hiv : iv.w0 < 2^32) (hlim : c0 + items.length ≤ counterLimit) (hfl : ∀ it ∈ items, it.flag ≤ 1) :
    ∀ (fuel : Nat) (r : Stream) (w : List WireFrame) (m : Nat),
      m ≤ items.length → RecvInv r k iv c0 m →
      (c0 + m = 0 → r.encIV = ownIV ∧ ownIV.w0 < 2^32 ∧ (r.dig.fr, r.dig.fs) = rdg) →
      (∀ g ∈ w, AdvFrameO k iv dg ownIV rdg c0 items g) → r.inMessage = false → r.recvBuf = [] →
      Stream.deliverIncFuel fuel n r w <+: messagesOf [] ((items.drop m).map Item.op) :=
  deliverInc_prefix_gen hn (step_advO (dg := dg) hiv hlim) hfl

/-- plain `ReceiveFrame` under the enlarged adversary -/
theorem recvFrame_accepts_only_nextO {r r' : Stream} {k iv dg ownIV rdg c0 m items g d}
    (hiv : iv.w0 < 2^32) (hlim : c0 + items.length ≤ counterLimit) (hm : m ≤ items.length)
    (hr : RecvInv r k iv c0 m)
    (hown : c0 + m = 0 → r.encIV = ownIV ∧ ownIV.w0 < 2^32 ∧ (r.dig.fr, r.dig.fs) = rdg)
    (hg : AdvFrameO k iv dg ownIV rdg c0 items g)
    (h : r.recvFrame g = .ok (r', d)) :
    ∃ it, items[m]? = some it ∧ d = it.plain ∧ RecvInv r' k iv c0 (m + 1) := by
  have hk := hr.key
  have he := hr.enc
  unfold Stream.recvFrame at h
  split at h
  · cases h
  · split at h
    · simp [Stream.crypting, hk, he] at h
    · simp only [hk, he] at h
      split at h
      · cases h
      · rename_i ivr p hopen
        simp only [Except.ok.injEq, Prod.mk.injEq] at h
        obtain ⟨rfl, rfl⟩ := h
        obtain ⟨it, hit, _, hp, hivr⟩ := open_only_nextO hiv hlim hm hr hown hg hopen
        subst hivr
        exact ⟨it, hit, hp, afterOpen_recvInv hr _⟩

theorem deliverFrames_prefixO {k iv dg ownIV rdg c0 items}
    (hiv : iv.w0 < 2^32) (hlim : c0 + items.length ≤ counterLimit) :
    ∀ (w : List WireFrame) (r : Stream) (m : Nat),
      m ≤ items.length → RecvInv r k iv c0 m →
      (c0 + m = 0 → r.encIV = ownIV ∧ ownIV.w0 < 2^32 ∧ (r.dig.fr, r.dig.fs) = rdg) →
      (∀ g ∈ w, AdvFrameO k iv dg ownIV rdg c0 items g) →
      Stream.deliverFrames r w <+: (items.drop m).map Item.plain := by
  intro w
  induction w with
  | nil => intro r m _ _ _ _; simp [Stream.deliverFrames]
  | cons g w ih =>
    intro r m hm hr hdg hadv
    unfold Stream.deliverFrames
    split
    · simp
    · rename_i r' d hrc
      obtain ⟨it, hit, hd, hr'⟩ :=
        recvFrame_accepts_only_nextO hiv hlim hm hr hdg (hadv g (List.mem_cons_self ..)) hrc
      have hml : m < items.length := (List.getElem?_eq_some_iff.mp hit).1
      have hdrop : items.drop m = it :: items.drop (m + 1) := by
        rw [List.drop_eq_getElem_cons hml]
        congr 1
        exact (List.getElem?_eq_some_iff.mp hit).2
      rw [hdrop, List.map_cons, hd]
      exact List.prefix_cons_inj it.plain |>.mpr
        (ih r' (m + 1) (by omega) hr' (fun h => by omega) (fun g hg => hadv g (List.mem_cons_of_mem _ hg)))

end Cedar
