/-
  Helper lemmas for C20 over CedarModel/CcbDial.lean: the invariant of one standard attempt
  (accept goroutine ‖ reply goroutine ‖ select loop) under every schedule, and what it implies.
-/
import CedarModel.CcbDial

namespace Cedar.Ccb

/-! ### greetings -/

theorem presents_iff (g : Greeting) (id : Id) :
    g.presents id = true ↔ g = .hello reverseConnectCmd id := by
  cases g with
  | hello cmd claim =>
    by_cases h : cmd = reverseConnectCmd
    · subst h; simp [Greeting.presents, readHello]
    · simp [Greeting.presents, readHello, h]
  | closed => simp [Greeting.presents, readHello]
  | garbage => simp [Greeting.presents, readHello]
  | silent => simp [Greeting.presents, readHello]

theorem silent_not_presents (id : Id) : Greeting.silent.presents id = false := by
  simp [Greeting.presents, readHello]

theorem getElem?_snoc_lt {α : Type} (l : List α) (g : α) (k : Nat) (h : k < l.length) :
    (l ++ [g])[k]? = l[k]? := by
  rw [List.getElem?_append_left h]

theorem getElem?_snoc_eq {α : Type} (l : List α) (g : α) : (l ++ [g])[l.length]? = some g := by
  simp

/-! ### the invariant of a standard attempt -/

/-- `k` presented the attempt's id -/
def Std.PresentsAt (s : Std) (k : Nat) : Prop := ∃ g, s.seen[k]? = some g ∧ g.presents s.id = true

structure Std.Inv (s : Std) : Prop where
  /-- indices in the bookkeeping lists are connections that really arrived -/
  closed_lt : ∀ j ∈ s.closed, j < s.seen.length
  queued_lt : ∀ j ∈ s.queued, j < s.seen.length
  reading_lt : ∀ k, s.acc = .reading k → k < s.seen.length
  /-- the connection the accept loop returned presented the id, is open, everything before it was closed -/
  got_presents : ∀ k, s.acc = .got k → s.PresentsAt k
  got_open : ∀ k, s.acc = .got k → k ∉ s.closed ∧ k ∉ s.queued
  got_before : ∀ k, s.acc = .got k → ∀ j, j < k → j ∈ s.closed
  /-- while the loop sits in Accept nothing has been returned and every arrival so far was closed -/
  accepting_all : s.acc = .accepting → s.result = none ∧ s.queued = [] ∧ ∀ j, j < s.seen.length → j ∈ s.closed
  /-- every arrival is accounted for -/
  cover : ∀ j, j < s.seen.length → j ∈ s.closed ∨ j ∈ s.queued ∨ s.acc = .reading j ∨ s.acc = .got j
  /-- dialStandard hands back only what the accept loop returned -/
  res_got : ∀ k, s.result = some (.ok k) → s.acc = .got k
  /-- after the return the backlog is gone -/
  ret_queue : s.result.isSome = true → s.queued = []
  /-- once the context is done nobody is left in a blocked read -/
  ctx_noread : s.ctxDone = true → ∀ k, s.acc ≠ .reading k

theorem Std.inv_init (id : Id) : (Std.init id).Inv := by
  constructor <;> simp [Std.init, Std.PresentsAt]

theorem Std.inv_ret (s : Std) (r : Except AErr Nat) (h : s.Inv) (_hn : s.result = none)
    (hr : ∀ k, r = .ok k → s.acc = .got k) : (s.ret r).Inv := by
  obtain ⟨h1, h2, h3, h4, h5, h6, h7, h8, h9, h10, h11⟩ := h
  constructor
  · intro j hj
    simp only [Std.ret, List.mem_append] at hj
    rcases hj with hj | hj
    · exact h2 j hj
    · exact h1 j hj
  · intro j hj; simp [Std.ret] at hj
  · intro k hk
    simp only [Std.ret] at hk
    by_cases ha : s.acc = .accepting
    · simp [ha] at hk
    · simp only [ha, if_false] at hk; exact h3 k hk
  · intro k hk
    simp only [Std.ret] at hk
    by_cases ha : s.acc = .accepting
    · simp [ha] at hk
    · simp only [ha, if_false] at hk
      simpa [Std.PresentsAt, Std.ret] using h4 k hk
  · intro k hk
    simp only [Std.ret] at hk
    by_cases ha : s.acc = .accepting
    · simp [ha] at hk
    · simp only [ha, if_false] at hk
      have := h5 k hk
      simp only [Std.ret, List.mem_append, List.not_mem_nil, not_false_eq_true, and_true]
      intro hc; rcases hc with hc | hc
      · exact this.2 hc
      · exact this.1 hc
  · intro k hk j hj
    simp only [Std.ret] at hk
    by_cases ha : s.acc = .accepting
    · simp [ha] at hk
    · simp only [ha, if_false] at hk
      simp only [Std.ret, List.mem_append]
      exact Or.inr (h6 k hk j hj)
  · intro ha
    simp only [Std.ret] at ha
    by_cases hb : s.acc = .accepting
    · simp [hb] at ha
    · simp [hb] at ha
  · intro j hj
    simp only [Std.ret] at hj ⊢
    rcases h8 j hj with hc | hc | hc | hc
    · exact Or.inl (List.mem_append.mpr (Or.inr hc))
    · exact Or.inl (List.mem_append.mpr (Or.inl hc))
    · right; right; left
      simp [hc]
    · right; right; right
      simp [hc]
  · intro k hk
    simp only [Std.ret, Option.some.injEq] at hk
    have := hr k hk
    simp only [Std.ret]
    simp [this]
  · intro _; simp [Std.ret]
  · intro hc k hk
    simp only [Std.ret] at hc hk
    by_cases ha : s.acc = .accepting
    · simp [ha] at hk
    · simp only [ha, if_false] at hk; exact h11 hc k hk

theorem Std.Inv.congr {s t : Std} (h : s.Inv) (h1 : t.id = s.id) (h2 : t.seen = s.seen) (h3 : t.acc = s.acc)
    (h4 : t.closed = s.closed) (h5 : t.queued = s.queued) (h6 : t.result = s.result)
    (h7 : t.ctxDone = s.ctxDone) : t.Inv := by
  obtain ⟨a1, a2, a3, a4, a5, a6, a7, a8, a9, a10, a11⟩ := h
  constructor <;> simp only [Std.PresentsAt, h1, h2, h3, h4, h5, h6, h7] <;> assumption

/-- a connection arrives while the loop is blocked / gone: it stays in the backlog -/
theorem Std.inv_queue (s : Std) (g : Greeting) (h : s.Inv) (ha : s.acc ≠ .accepting) (hn : s.result = none) :
    ({ s with seen := s.seen ++ [g], queued := s.seen.length :: s.queued } : Std).Inv := by
  obtain ⟨a1, a2, a3, a4, a5, a6, a7, a8, a9, a10, a11⟩ := h
  constructor
  · intro j hj; have := a1 j hj; simp; omega
  · intro j hj
    simp only [List.mem_cons] at hj
    rcases hj with hj | hj
    · simp [hj]
    · have := a2 j hj; simp; omega
  · intro k hk; have := a3 k hk; simp; omega
  · intro k hk
    obtain ⟨g', hg, hp⟩ := a4 k hk
    have hlt : k < s.seen.length := by
      rcases Nat.lt_or_ge k s.seen.length with h | h
      · exact h
      · rw [List.getElem?_eq_none h] at hg; cases hg
    exact ⟨g', by simp only; rw [getElem?_snoc_lt _ _ _ hlt]; exact hg, hp⟩
  · intro k hk
    have := a5 k hk
    obtain ⟨g', hg, _⟩ := a4 k hk
    have hlt : k < s.seen.length := by
      rcases Nat.lt_or_ge k s.seen.length with h | h
      · exact h
      · rw [List.getElem?_eq_none h] at hg; cases hg
    simp only [List.mem_cons, not_or]
    exact ⟨this.1, by omega, this.2⟩
  · exact a6
  · intro hacc; exact absurd hacc ha
  · intro j hj
    simp only [List.length_append, List.length_singleton] at hj
    by_cases hjl : j < s.seen.length
    · rcases a8 j hjl with hc | hc | hc | hc
      · exact Or.inl hc
      · exact Or.inr (Or.inl (List.mem_cons_of_mem _ hc))
      · exact Or.inr (Or.inr (Or.inl hc))
      · exact Or.inr (Or.inr (Or.inr hc))
    · have : j = s.seen.length := by omega
      subst this
      exact Or.inr (Or.inl (List.mem_cons_self))
  · exact a9
  · intro hr; simp [hn] at hr
  · exact a11



theorem Std.presentsAt_lt {s : Std} {k : Nat} (h : s.PresentsAt k) : k < s.seen.length := by
  obtain ⟨g, hg, _⟩ := h
  rcases Nat.lt_or_ge k s.seen.length with h | h
  · exact h
  · rw [List.getElem?_eq_none h] at hg; cases hg

theorem Std.presentsAt_snoc {s t : Std} {k : Nat} (g : Greeting) (hid : t.id = s.id) (hs : t.seen = s.seen ++ [g])
    (h : s.PresentsAt k) : t.PresentsAt k := by
  have hlt := Std.presentsAt_lt h
  obtain ⟨g', hg, hp⟩ := h
  exact ⟨g', by rw [hs, getElem?_snoc_lt _ _ _ hlt]; exact hg, by rw [hid]; exact hp⟩

/-- a connection arrives after dialStandard returned: the listener is gone -/
theorem Std.inv_refused (s : Std) (g : Greeting) (h : s.Inv) (hr : s.result.isSome = true) :
    ({ s with seen := s.seen ++ [g], closed := s.seen.length :: s.closed } : Std).Inv := by
  obtain ⟨a1, a2, a3, a4, a5, a6, a7, a8, a9, a10, a11⟩ := h
  constructor
  · intro j hj
    simp only [List.mem_cons] at hj
    rcases hj with hj | hj
    · simp [hj]
    · have := a1 j hj; simp; omega
  · intro j hj; have := a2 j hj; simp; omega
  · intro k hk; have := a3 k hk; simp; omega
  · intro k hk; exact Std.presentsAt_snoc (s := s) g rfl rfl (a4 k hk)
  · intro k hk
    have := a5 k hk
    have hlt := Std.presentsAt_lt (a4 k hk)
    simp only [List.mem_cons, not_or]
    exact ⟨⟨by omega, this.1⟩, this.2⟩
  · intro k hk j hj; exact List.mem_cons_of_mem _ (a6 k hk j hj)
  · intro hacc
    have := (a7 hacc).1
    simp [this] at hr
  · intro j hj
    simp only [List.length_append, List.length_singleton] at hj
    by_cases hjl : j < s.seen.length
    · rcases a8 j hjl with hc | hc | hc | hc
      · exact Or.inl (List.mem_cons_of_mem _ hc)
      · exact Or.inr (Or.inl hc)
      · exact Or.inr (Or.inr (Or.inl hc))
      · exact Or.inr (Or.inr (Or.inr hc))
    · have : j = s.seen.length := by omega
      subst this
      exact Or.inl (List.mem_cons_self)
  · exact a9
  · exact a10
  · exact a11

/-- a connection arrives while the loop sits in Accept -/
theorem Std.inv_accept (s : Std) (g : Greeting) (h : s.Inv) (ha : s.acc = .accepting) :
    (({ s with seen := s.seen ++ [g] } : Std).accept s.seen.length g).Inv := by
  obtain ⟨a1, a2, a3, a4, a5, a6, a7, a8, a9, a10, a11⟩ := h
  obtain ⟨hres, hq, hall⟩ := a7 ha
  -- the three shapes of the successor state
  have closeCase : ∀ (acc' : Acc), (acc' = .accepting ∨ acc' = .failed) →
      ({ s with seen := s.seen ++ [g], closed := s.seen.length :: s.closed, acc := acc' } : Std).Inv := by
    intro acc' hacc'
    constructor
    · intro j hj
      simp only [List.mem_cons] at hj
      rcases hj with hj | hj
      · simp [hj]
      · have := a1 j hj; simp; omega
    · intro j hj; simp [hq] at hj
    · intro k hk; rcases hacc' with h | h <;> simp [h] at hk
    · intro k hk; rcases hacc' with h | h <;> simp [h] at hk
    · intro k hk; rcases hacc' with h | h <;> simp [h] at hk
    · intro k hk; rcases hacc' with h | h <;> simp [h] at hk
    · intro _
      refine ⟨hres, hq, ?_⟩
      intro j hj
      simp only [List.length_append, List.length_singleton] at hj
      by_cases hjl : j < s.seen.length
      · exact List.mem_cons_of_mem _ (hall j hjl)
      · have : j = s.seen.length := by omega
        subst this; exact List.mem_cons_self
    · intro j hj
      simp only [List.length_append, List.length_singleton] at hj
      left
      by_cases hjl : j < s.seen.length
      · exact List.mem_cons_of_mem _ (hall j hjl)
      · have : j = s.seen.length := by omega
        subst this; exact List.mem_cons_self
    · intro k hk; simp [hres] at hk
    · intro hr; simp [hres] at hr
    · intro _ k hk; rcases hacc' with h | h <;> simp [h] at hk
  unfold Std.accept
  by_cases hc : s.ctxDone = true
  · rw [if_pos hc]
    exact closeCase .failed (Or.inr rfl)
  · rw [if_neg hc]
    have hcf : s.ctxDone = false := by simpa using hc
    cases g with
    | silent =>
      dsimp only
      constructor
      · intro j hj; have := a1 j hj; simp; omega
      · intro j hj; simp [hq] at hj
      · intro k hk; simp only [Acc.reading.injEq] at hk; subst hk; simp
      · intro k hk; simp at hk
      · intro k hk; simp at hk
      · intro k hk; simp at hk
      · intro hk; simp at hk
      · intro j hj
        simp only [List.length_append, List.length_singleton] at hj
        by_cases hjl : j < s.seen.length
        · exact Or.inl (hall j hjl)
        · have : j = s.seen.length := by omega
          subst this; exact Or.inr (Or.inr (Or.inl rfl))
      · intro k hk; simp [hres] at hk
      · intro hr; simp [hres] at hr
      · intro hcd; simp [hcf] at hcd
    | closed =>
      dsimp only
      have : Greeting.closed.presents s.id = false := by simp [Greeting.presents, readHello]
      rw [if_neg (by simp [this])]
      exact closeCase s.acc (Or.inl ha)
    | garbage =>
      dsimp only
      have : Greeting.garbage.presents s.id = false := by simp [Greeting.presents, readHello]
      rw [if_neg (by simp [this])]
      exact closeCase s.acc (Or.inl ha)
    | hello cmd claim =>
      dsimp only
      by_cases hp : (Greeting.hello cmd claim).presents s.id = true
      · rw [if_pos hp]
        constructor
        · intro j hj; have := a1 j hj; simp; omega
        · intro j hj; simp [hq] at hj
        · intro k hk; simp at hk
        · intro k hk
          simp only [Acc.got.injEq] at hk; subst hk
          exact ⟨_, getElem?_snoc_eq _ _, hp⟩
        · intro k hk
          simp only [Acc.got.injEq] at hk; subst hk
          refine ⟨?_, by simp [hq]⟩
          intro hm; have := a1 _ hm; omega
        · intro k hk j hj
          simp only [Acc.got.injEq] at hk; subst hk
          exact hall j hj
        · intro hk; simp at hk
        · intro j hj
          simp only [List.length_append, List.length_singleton] at hj
          by_cases hjl : j < s.seen.length
          · exact Or.inl (hall j hjl)
          · have : j = s.seen.length := by omega
            subst this; exact Or.inr (Or.inr (Or.inr rfl))
        · intro k hk; simp [hres] at hk
        · intro hr; simp [hres] at hr
        · intro _ k hk; simp at hk
      · rw [if_neg hp]
        exact closeCase s.acc (Or.inl ha)

/-- the context ends: a blocked greeting read is interrupted and that connection closed -/
theorem Std.inv_cancel (s t : Std) (h : s.Inv) (hid : t.id = s.id) (hseen : t.seen = s.seen)
    (hq : t.queued = s.queued) (hres : t.result = s.result) (_hctx : t.ctxDone = true)
    (hacc : (∃ k, s.acc = .reading k ∧ t.acc = .failed ∧ t.closed = k :: s.closed) ∨
            ((∀ k, s.acc ≠ .reading k) ∧ t.acc = s.acc ∧ t.closed = s.closed)) : t.Inv := by
  obtain ⟨a1, a2, a3, a4, a5, a6, a7, a8, a9, a10, a11⟩ := h
  rcases hacc with ⟨k, hk, hta, htc⟩ | ⟨hnr, hta, htc⟩
  · have hkl := a3 k hk
    constructor
    · intro j hj
      rw [htc] at hj; rw [hseen]
      simp only [List.mem_cons] at hj
      rcases hj with hj | hj
      · omega
      · exact a1 j hj
    · intro j hj; rw [hq] at hj; rw [hseen]; exact a2 j hj
    · intro k' hk'; simp [hta] at hk'
    · intro k' hk'; simp [hta] at hk'
    · intro k' hk'; simp [hta] at hk'
    · intro k' hk'; simp [hta] at hk'
    · intro hk'; simp [hta] at hk'
    · intro j hj
      rw [hseen] at hj
      rcases a8 j hj with hc | hc | hc | hc
      · left; rw [htc]; exact List.mem_cons_of_mem _ hc
      · right; left; rw [hq]; exact hc
      · left; rw [htc]
        rw [hk] at hc; simp only [Acc.reading.injEq] at hc; subst hc; exact List.mem_cons_self
      · rw [hk] at hc; cases hc
    · intro k' hk'
      rw [hres] at hk'
      have := a9 k' hk'
      rw [hk] at this; cases this
    · intro hr; rw [hres] at hr; rw [hq]; exact a10 hr
    · intro _ k' hk'; simp [hta] at hk'
  · constructor
    · intro j hj; rw [htc] at hj; rw [hseen]; exact a1 j hj
    · intro j hj; rw [hq] at hj; rw [hseen]; exact a2 j hj
    · intro k hk; rw [hta] at hk; rw [hseen]; exact a3 k hk
    · intro k hk; rw [hta] at hk
      obtain ⟨g, hg, hp⟩ := a4 k hk
      exact ⟨g, by rw [hseen]; exact hg, by rw [hid]; exact hp⟩
    · intro k hk; rw [hta] at hk; rw [htc, hq]; exact a5 k hk
    · intro k hk; rw [hta] at hk; rw [htc]; exact a6 k hk
    · intro hk; rw [hta] at hk; rw [hres, hq, hseen, htc]; exact a7 hk
    · intro j hj; rw [hseen] at hj; rw [htc, hq, hta]; exact a8 j hj
    · intro k hk; rw [hres] at hk; rw [hta]; exact a9 k hk
    · intro hr; rw [hres] at hr; rw [hq]; exact a10 hr
    · intro _ k hk; rw [hta] at hk; exact hnr k hk

/-- **the invariant is preserved by every event of every schedule** -/
theorem Std.inv_step (s : Std) (e : Ev) (h : s.Inv) : (s.step e).Inv := by
  unfold Std.step
  split
  next r hres =>
    cases e with
    | arrive g => exact Std.inv_refused s g h (by simp [hres])
    | cancel =>
      dsimp only
      split
      next k hacc =>
        exact Std.inv_cancel s _ h rfl rfl rfl rfl rfl (Or.inl ⟨k, hacc, rfl, rfl⟩)
      next hacc =>
        exact Std.inv_cancel s _ h rfl rfl rfl rfl rfl (Or.inr ⟨fun k hk => hacc k hk, rfl, rfl⟩)
    | reply r => exact h
    | pickAccept => exact h
    | pickReply => exact h
    | pickCtx => exact h
    | brokerFail => exact h
  next hres =>
    cases e with
    | arrive g =>
      dsimp only
      split
      next hacc => exact Std.inv_accept s g h hacc
      next hacc => exact Std.inv_queue s g h hacc hres
    | reply r =>
      dsimp only
      by_cases hr : s.replyRead = true
      · rw [if_pos hr]; exact h
      · rw [if_neg hr]; exact h.congr rfl rfl rfl rfl rfl rfl rfl
    | cancel =>
      dsimp only
      have key : ∀ t : Std, t.id = s.id → t.seen = s.seen → t.queued = s.queued → t.result = s.result →
          t.ctxDone = true →
          ((∃ k, s.acc = .reading k ∧ t.acc = .failed ∧ t.closed = k :: s.closed) ∨
            ((∀ k, s.acc ≠ .reading k) ∧ t.acc = s.acc ∧ t.closed = s.closed)) → t.Inv :=
        fun t h1 h2 h3 h4 h5 h6 => Std.inv_cancel s t h h1 h2 h3 h4 h5 h6
      by_cases hr : s.replyRead = true
      · rw [if_pos hr]
        split
        next k hacc => exact key _ rfl rfl rfl rfl rfl (Or.inl ⟨k, hacc, rfl, rfl⟩)
        next hacc => exact key _ rfl rfl rfl rfl rfl (Or.inr ⟨fun k hk => hacc k hk, rfl, rfl⟩)
      · rw [if_neg hr]
        split
        next k hacc => exact key _ rfl rfl rfl rfl rfl (Or.inl ⟨k, hacc, rfl, rfl⟩)
        next hacc => exact key _ rfl rfl rfl rfl rfl (Or.inr ⟨fun k hk => hacc k hk, rfl, rfl⟩)
    | pickAccept =>
      dsimp only
      split
      next k hacc => exact Std.inv_ret s _ h hres (by intro k' hk'; cases hk'; exact hacc)
      next hacc => exact Std.inv_ret s _ h hres (by intro k' hk'; cases hk')
      next => exact h
    | pickReply =>
      dsimp only
      by_cases ho : s.replyOn = true
      · rw [if_pos ho]
        split
        next => exact h.congr rfl rfl rfl rfl rfl rfl rfl
        next => exact Std.inv_ret s _ h hres (by intro k' hk'; cases hk')
        next => exact Std.inv_ret s _ h hres (by intro k' hk'; cases hk')
        next => exact Std.inv_ret s _ h hres (by intro k' hk'; cases hk')
        next => exact h
      · rw [if_neg ho]; exact h
    | pickCtx =>
      dsimp only
      by_cases hc : s.ctxDone = true
      · rw [if_pos hc]; exact Std.inv_ret s _ h hres (by intro k' hk'; cases hk')
      · rw [if_neg hc]; exact h
    | brokerFail =>
      dsimp only
      by_cases hc : (s.seen.isEmpty = true ∧ (!s.replyRead) = true)
      · rw [if_pos hc]; exact Std.inv_ret s _ h hres (by intro k' hk'; cases hk')
      · rw [if_neg hc]; exact h

theorem Std.inv_run (s : Std) (evs : List Ev) (h : s.Inv) : (s.run evs).Inv := by
  induction evs generalizing s with
  | nil => exact h
  | cons e es ih => exact ih (s.step e) (Std.inv_step s e h)


/-! ### consequences of the invariant -/

/-- what dialStandard hands back: the connection presented exactly the id, it is open, and every
    connection that arrived before it was closed -/
theorem Std.returned_matches {s : Std} (h : s.Inv) {k : Nat} (hr : s.result = some (.ok k)) :
    s.seen[k]? = some (.hello reverseConnectCmd s.id) ∧ k ∉ s.closed ∧ ∀ j, j < k → j ∈ s.closed := by
  have hg := h.res_got k hr
  obtain ⟨g, hgk, hp⟩ := h.got_presents k hg
  rw [presents_iff] at hp
  subst hp
  exact ⟨hgk, (h.got_open k hg).1, h.got_before k hg⟩

/-- once the attempt is over (returned, context cancelled) every connection that did not present
    the id has been closed -/
theorem Std.rogues_closed {s : Std} (h : s.Inv) (hr : s.result.isSome = true) (hc : s.ctxDone = true)
    {j : Nat} {g : Greeting} (hj : s.seen[j]? = some g) (hg : g.presents s.id = false) : j ∈ s.closed := by
  have hlt : j < s.seen.length := by
    rcases Nat.lt_or_ge j s.seen.length with h | h
    · exact h
    · rw [List.getElem?_eq_none h] at hj; cases hj
  rcases h.cover j hlt with hx | hx | hx | hx
  · exact hx
  · rw [h.ret_queue hr] at hx; cases hx
  · exact absurd hx (h.ctx_noread hc j)
  · obtain ⟨g', hg', hp⟩ := h.got_presents j hx
    rw [hj] at hg'; cases hg'
    rw [hg] at hp; cases hp

/-- a result, once produced, never changes -/
theorem Std.result_stable (s : Std) (e : Ev) {r : Except AErr Nat} (h : s.result = some r) :
    (s.step e).result = some r := by
  unfold Std.step
  rw [h]
  cases e <;> dsimp only
  case cancel => split <;> rfl
  all_goals first | rfl | exact h

theorem Std.result_stable_run (s : Std) (evs : List Ev) {r : Except AErr Nat} (h : s.result = some r) :
    (s.run evs).result = some r := by
  induction evs generalizing s with
  | nil => exact h
  | cons e es ih => exact ih (s.step e) (Std.result_stable s e h)

theorem Std.id_step (s : Std) (e : Ev) : (s.step e).id = s.id := by
  unfold Std.step
  split
  · cases e <;> dsimp only
    · split <;> rfl
  · cases e <;> dsimp only
    · split
      · unfold Std.accept
        split
        · rfl
        · split
          · rfl
          · split <;> rfl
      · rfl
    · split <;> rfl
    · split <;> (split <;> rfl)
    · split <;> rfl
    · split
      · split <;> rfl
      · rfl
    · split <;> rfl
    · split <;> rfl

/-! ### the reply channel -/

/-- the failure the attempt reports is the one the broker sent: ghost history `pre` -/
def Std.Hist (pre : List Ev) (s : Std) : Prop :=
  ∀ m, (s.replyCh = some (.failure m) ∨ s.result = some (.error (.brokerFailure m))) →
    Ev.reply (.failure m) ∈ pre

theorem Std.hist_step (pre : List Ev) (s : Std) (e : Ev) (h : s.Hist pre) : (s.step e).Hist (pre ++ [e]) := by
  intro m hm
  rw [List.mem_append]
  by_cases hold : (s.replyCh = some (.failure m) ∨ s.result = some (.error (.brokerFailure m)))
  · exact Or.inl (h m hold)
  · right
    simp only [List.mem_singleton]
    simp only [not_or] at hold
    obtain ⟨ho1, ho2⟩ := hold
    unfold Std.step at hm
    split at hm
    next r hres =>
      cases e <;> dsimp only at hm
      case cancel => split at hm <;> simp_all
      all_goals simp_all
    next hres =>
      cases e with
      | arrive g =>
        dsimp only at hm
        split at hm
        · unfold Std.accept at hm
          split at hm
          · simp_all
          · split at hm
            · simp_all
            · split at hm <;> simp_all
        · simp_all
      | reply r =>
        dsimp only at hm
        split at hm
        · simp_all
        · simp only [Option.some.injEq] at hm
          rcases hm with hm | hm
          · rw [hm]
          · simp_all
      | cancel =>
        dsimp only at hm
        split at hm <;> (split at hm <;> simp_all)
      | pickAccept =>
        dsimp only at hm
        split at hm <;> simp_all [Std.ret]
      | pickReply =>
        dsimp only at hm
        split at hm
        · split at hm <;> simp_all [Std.ret]
        · simp_all
      | pickCtx =>
        dsimp only at hm
        split at hm <;> simp_all [Std.ret]
      | brokerFail =>
        dsimp only at hm
        split at hm <;> simp_all [Std.ret]

theorem Std.hist_run (pre : List Ev) (s : Std) (evs : List Ev) (h : s.Hist pre) :
    (s.run evs).Hist (pre ++ evs) := by
  induction evs generalizing pre s with
  | nil => simpa [Std.run] using h
  | cons e es ih =>
    have := ih (pre ++ [e]) (s.step e) (Std.hist_step pre s e h)
    simpa [List.append_assoc, Std.run] using this

/-- while a reply is waiting in replyCh the select still listens on it -/
structure Std.RInv (s : Std) : Prop where
  on_of_some : s.replyCh.isSome = true → s.replyOn = true
  read_of_some : s.replyCh.isSome = true → s.replyRead = true
  read_of_off : s.replyOn = false → s.replyRead = true

theorem Std.rinv_init (id : Id) : (Std.init id).RInv := by
  constructor <;> simp [Std.init]

theorem Std.rinv_step (s : Std) (e : Ev) (h : s.RInv) : (s.step e).RInv := by
  obtain ⟨h1, h2, h3⟩ := h
  unfold Std.step
  split
  next r hres =>
    cases e <;> dsimp only
    case cancel => split <;> exact ⟨h1, h2, h3⟩
    all_goals exact ⟨h1, h2, h3⟩
  next hres =>
    cases e with
    | arrive g =>
      dsimp only
      split
      · unfold Std.accept
        split
        · exact ⟨h1, h2, h3⟩
        · split
          · exact ⟨h1, h2, h3⟩
          · split <;> exact ⟨h1, h2, h3⟩
      · exact ⟨h1, h2, h3⟩
    | reply r =>
      dsimp only
      split
      · exact ⟨h1, h2, h3⟩
      · rename_i hr
        constructor
        · intro _
          cases ho : s.replyOn with
          | true => rfl
          | false => have := h3 ho; simp [this] at hr
        · intro _; rfl
        · intro _; rfl
    | cancel =>
      dsimp only
      split
      · split <;> exact ⟨h1, h2, h3⟩
      · rename_i hr
        have hon : s.replyOn = true := by
          cases ho : s.replyOn with
          | true => rfl
          | false => have := h3 ho; simp [this] at hr
        split <;> exact ⟨fun _ => hon, fun _ => rfl, fun _ => rfl⟩
    | pickAccept =>
      dsimp only
      split <;> first | exact ⟨h1, h2, h3⟩ | (simp only [Std.ret]; exact ⟨h1, h2, h3⟩)
    | pickReply =>
      dsimp only
      split
      · split
        · rename_i hch
          refine ⟨by simp, by simp, fun _ => h2 (by simp [hch])⟩
        all_goals first | exact ⟨h1, h2, h3⟩ | (simp only [Std.ret]; exact ⟨h1, h2, h3⟩)
      · exact ⟨h1, h2, h3⟩
    | pickCtx =>
      dsimp only
      split <;> first | exact ⟨h1, h2, h3⟩ | (simp only [Std.ret]; exact ⟨h1, h2, h3⟩)
    | brokerFail =>
      dsimp only
      split <;> first | exact ⟨h1, h2, h3⟩ | (simp only [Std.ret]; exact ⟨h1, h2, h3⟩)

theorem Std.rinv_run (s : Std) (evs : List Ev) (h : s.RInv) : (s.run evs).RInv := by
  induction evs generalizing s with
  | nil => exact h
  | cons e es ih => exact ih (s.step e) (Std.rinv_step s e h)


end Cedar.Ccb
