/-
  Helper lemmas for C01: the buffered writer (StartMessage, WriteMessage*, EndMessage) is a client
  of sendMessageWithEnd — whatever pattern of writes and threshold flushes, one buffered message
  goes out as a run of partial frames and one final frame whose payloads concatenate to the
  concatenation of the writes.
-/
import CedarModel.Session

namespace Cedar

/-- the writer's bookkeeping, which `sendMessageWithEnd` neither reads nor writes -/
def Stream.withSend (s : Stream) (b : Bytes) (e : Bool) : Stream := { s with sendBuf := b, sendEOM := e }

theorem withSend_self (s : Stream) : s.withSend s.sendBuf s.sendEOM = s := by cases s; rfl
theorem withSend_withSend (s : Stream) (b b' : Bytes) (e e' : Bool) :
    (s.withSend b e).withSend b' e' = s.withSend b' e' := rfl

theorem sendFrame_withSend (s : Stream) (b : Bytes) (e : Bool) (d : Bytes) (fl : Nat) :
    (s.withSend b e).sendFrame d fl =
      match s.sendFrame d fl with
      | .error x => .error x
      | .ok (s1, f) => .ok (s1.withSend b e, f) := by
  unfold Stream.sendFrame
  by_cases h1 : d.length > maxMessageSize
  · rw [if_pos h1, if_pos h1]
  · rw [if_neg h1, if_neg h1]
    have hk : (s.withSend b e).key = s.key := rfl
    have he : (s.withSend b e).encrypted = s.encrypted := rfl
    rw [hk, he]
    cases s.key with
    | none => rfl
    | some k =>
      cases s.encrypted with
      | false => rfl
      | true =>
        simp only []
        have hc : (s.withSend b e).encCtr = s.encCtr := rfl
        rw [hc]
        by_cases h2 : d.length + tagLen + (if s.encCtr = 0 then ivLen else 0) > maxMessageSize
        · rw [if_pos h2, if_pos h2]
        · rw [if_neg h2, if_neg h2]
          by_cases h3 : s.encCtr = counterLimit
          · rw [if_pos h3, if_pos h3]
          · rw [if_neg h3, if_neg h3]; rfl

theorem sendAll_withSend (b : Bytes) (e : Bool) : ∀ (ops : List SendOp) (s : Stream),
    (s.withSend b e).sendAll ops =
      match s.sendAll ops with
      | .error x => .error x
      | .ok (s1, fs) => .ok (s1.withSend b e, fs)
  | [], s => rfl
  | (d, fl) :: rest, s => by
    unfold Stream.sendAll
    rw [sendFrame_withSend]
    cases s.sendFrame d fl with
    | error x => rfl
    | ok r =>
      obtain ⟨s1, f⟩ := r
      simp only []
      rw [sendAll_withSend b e rest s1]
      cases s1.sendAll rest with
      | error x => rfl
      | ok r2 => rfl

theorem sendAll_append : ∀ (ops1 ops2 : List SendOp) (s s1 s2 : Stream) (fs gs : List WireFrame),
    s.sendAll ops1 = .ok (s1, fs) → s1.sendAll ops2 = .ok (s2, gs) →
    s.sendAll (ops1 ++ ops2) = .ok (s2, fs ++ gs)
  | [], ops2, s, s1, s2, fs, gs, h1, h2 => by
    simp only [Stream.sendAll, Except.ok.injEq, Prod.mk.injEq] at h1
    obtain ⟨rfl, rfl⟩ := h1
    simpa using h2
  | (d, fl) :: rest, ops2, s, s1, s2, fs, gs, h1, h2 => by
    unfold Stream.sendAll at h1
    simp only [List.cons_append]
    unfold Stream.sendAll
    cases hsf : s.sendFrame d fl with
    | error x => rw [hsf] at h1; cases h1
    | ok r =>
      obtain ⟨sa, f⟩ := r
      rw [hsf] at h1
      simp only [] at h1 ⊢
      cases hr : sa.sendAll rest with
      | error x => rw [hr] at h1; cases h1
      | ok r2 =>
        obtain ⟨sb, hs⟩ := r2
        rw [hr] at h1
        simp only [Except.ok.injEq, Prod.mk.injEq] at h1
        obtain ⟨rfl, rfl⟩ := h1
        rw [sendAll_append rest ops2 sa sb s2 hs gs hr h2]
        simp

/-- `WriteMessage` called with each element of `ws` in turn -/
def Stream.writeAll (s : Stream) : List Bytes → Except Err (Stream × List WireFrame)
  | [] => .ok (s, [])
  | d :: ds =>
    match s.writeMessage d with
    | .error e => .error e
    | .ok (s1, fs) =>
      match s1.writeAll ds with
      | .error e => .error e
      | .ok (s2, gs) => .ok (s2, fs ++ gs)

/-- one buffered message: `StartMessage`, the writes, `EndMessage` -/
def Stream.sendBuffered (s : Stream) (ws : List Bytes) : Except Err (Stream × List WireFrame) :=
  match s.startMessage.writeAll ws with
  | .error e => .error e
  | .ok (s1, fs) =>
    match s1.endMessage with
    | .error e => .error e
    | .ok (s2, gs) => .ok (s2, fs ++ gs)

/-- a sequence of buffered messages -/
def Stream.sendBufferedAll (s : Stream) : List (List Bytes) → Except Err (Stream × List WireFrame)
  | [] => .ok (s, [])
  | ws :: rest =>
    match s.sendBuffered ws with
    | .error e => .error e
    | .ok (s1, fs) =>
      match s1.sendBufferedAll rest with
      | .error e => .error e
      | .ok (s2, gs) => .ok (s2, fs ++ gs)

/-- one `WriteMessage`: nothing, or one partial frame carrying everything buffered so far -/
theorem writeMessage_spec {s s1 : Stream} {d : Bytes} {fs : List WireFrame}
    (h : s.writeMessage d = .ok (s1, fs)) :
    s.sendEOM = false ∧ s1.sendEOM = false ∧
    ((fs = [] ∧ s1 = s.withSend (s.sendBuf ++ d) false) ∨
     (∃ t f, (s.withSend [] false).sendFrame (s.sendBuf ++ d) 0 = .ok (t, f) ∧ fs = [f] ∧ s1 = t.withSend [] false)) := by
  unfold Stream.writeMessage at h
  by_cases he : s.sendEOM = true
  · rw [if_pos he] at h; cases h
  · rw [if_neg he] at h
    have he' : s.sendEOM = false := by simpa using he
    simp only [] at h
    have hself : ({ s with sendBuf := s.sendBuf ++ d } : Stream) = s.withSend (s.sendBuf ++ d) false := by
      cases s; simp_all [Stream.withSend]
    by_cases hth : (s.sendBuf ++ d).length ≥ frameThreshold
    · rw [if_pos hth] at h
      unfold Stream.flushPartial at h
      by_cases hem : (s.sendBuf ++ d).isEmpty = true
      · simp only [hem, if_true, Except.ok.injEq, Prod.mk.injEq] at h
        obtain ⟨rfl, rfl⟩ := h
        exact ⟨he', he', .inl ⟨rfl, hself⟩⟩
      · simp only [hem, Bool.false_eq_true, if_false] at h
        rw [hself, sendFrame_withSend] at h
        have hw := sendFrame_withSend s [] false (s.sendBuf ++ d) 0
        cases hsf : s.sendFrame (s.sendBuf ++ d) 0 with
        | error x => rw [hsf] at h; cases h
        | ok r =>
          obtain ⟨t, f⟩ := r
          rw [hsf] at h hw
          simp only [Except.ok.injEq, Prod.mk.injEq] at h
          obtain ⟨rfl, rfl⟩ := h
          refine ⟨he', rfl, .inr ⟨t.withSend [] false, f, hw, rfl, ?_⟩⟩
          cases t; rfl
    · rw [if_neg hth] at h
      simp only [Except.ok.injEq, Prod.mk.injEq] at h
      obtain ⟨rfl, rfl⟩ := h
      exact ⟨he', he', .inl ⟨rfl, hself⟩⟩

/-- the writes of one message, as the frame sends they amount to: all partial, and their payloads
    followed by what is still buffered are what was buffered before followed by the writes -/
theorem writeAll_spec : ∀ (ws : List Bytes) (s s1 : Stream) (fs : List WireFrame),
    s.sendEOM = false → s.writeAll ws = .ok (s1, fs) →
    ∃ ops t, (∀ op ∈ ops, op.2 = 0) ∧
      (s.withSend [] false).sendAll ops = .ok (t, fs) ∧ s1 = t.withSend s1.sendBuf false ∧
      (ops.map Prod.fst).flatten ++ s1.sendBuf = s.sendBuf ++ ws.flatten
  | [], s, s1, fs, he, h => by
    simp only [Stream.writeAll, Except.ok.injEq, Prod.mk.injEq] at h
    obtain ⟨rfl, rfl⟩ := h
    refine ⟨[], s.withSend [] false, by simp, rfl, ?_, by simp⟩
    cases s; simp_all [Stream.withSend]
  | d :: ds, s, s1, fs, he, h => by
    unfold Stream.writeAll at h
    cases hw : s.writeMessage d with
    | error x => rw [hw] at h; cases h
    | ok r =>
      obtain ⟨sa, fa⟩ := r
      rw [hw] at h
      simp only [] at h
      cases hr : sa.writeAll ds with
      | error x => rw [hr] at h; cases h
      | ok r2 =>
        obtain ⟨sb, fb⟩ := r2
        rw [hr] at h
        simp only [Except.ok.injEq, Prod.mk.injEq] at h
        obtain ⟨rfl, rfl⟩ := h
        obtain ⟨_, hea, hcase⟩ := writeMessage_spec hw
        obtain ⟨ops, t, hz, hsend, hst, hcat⟩ := writeAll_spec ds sa sb fb hea hr
        rcases hcase with ⟨rfl, hsa⟩ | ⟨ta, f, hsf, rfl, hsa⟩
        · refine ⟨ops, t, hz, ?_, hst, ?_⟩
          · rw [hsa, withSend_withSend] at hsend
            simpa using hsend
          · rw [hcat, hsa]; simp [Stream.withSend]
        · refine ⟨(s.sendBuf ++ d, 0) :: ops, t, ?_, ?_, hst, ?_⟩
          · intro op hop
            simp only [List.mem_cons] at hop
            rcases hop with rfl | hop
            · rfl
            · exact hz op hop
          · unfold Stream.sendAll
            rw [hsf]
            simp only []
            rw [hsa, withSend_withSend] at hsend
            -- `ta` comes out of a send from a stream with empty bookkeeping, so it has empty bookkeeping
            have hta : ta.withSend [] false = ta := by
              have := sendFrame_withSend s [] false (s.sendBuf ++ d) 0
              rw [hsf] at this
              cases hs0 : s.sendFrame (s.sendBuf ++ d) 0 with
              | error x => rw [hs0] at this; cases this
              | ok r0 =>
                obtain ⟨u, g⟩ := r0
                rw [hs0] at this
                simp only [Except.ok.injEq, Prod.mk.injEq] at this
                rw [this.1]; rfl
            rw [hta] at hsend
            rw [hsend]
            rfl
          · simp only [List.map_cons, List.flatten_cons, List.append_assoc]
            rw [hcat, hsa]
            simp [Stream.withSend]

/-- messages denoted by a run of partial frames, a final frame, and whatever follows -/
theorem messagesOf_partials : ∀ (ops : List SendOp) (acc last : Bytes) (more : List SendOp),
    (∀ op ∈ ops, op.2 = 0) →
    messagesOf acc (ops ++ (last, 1) :: more) = (acc ++ (ops.map Prod.fst).flatten ++ last) :: messagesOf [] more
  | [], acc, last, more, _ => by simp [messagesOf]
  | (d, fl) :: rest, acc, last, more, hz => by
    have h0 : fl = 0 := hz (d, fl) (List.mem_cons_self ..)
    subst h0
    simp only [List.cons_append, messagesOf, List.map_cons, List.flatten_cons]
    rw [if_neg (by decide)]
    rw [messagesOf_partials rest (acc ++ d) last more (fun op hop => hz op (List.mem_cons_of_mem _ hop))]
    simp [List.append_assoc]

/-- one buffered message = some partial sends and one final send, denoting ONE message: the
    concatenation of the writes -/
theorem sendBuffered_spec (ws : List Bytes) (s s' : Stream) (fs : List WireFrame)
    (h : s.sendBuffered ws = .ok (s', fs)) :
    ∃ ops t, (∀ op ∈ ops, op.2 ≤ 1) ∧ (s.withSend [] false).sendAll ops = .ok (t, fs) ∧
      s' = t.withSend [] true ∧ ∀ more, messagesOf [] (ops ++ more) = ws.flatten :: messagesOf [] more := by
  unfold Stream.sendBuffered at h
  cases hw : s.startMessage.writeAll ws with
  | error x => rw [hw] at h; cases h
  | ok r =>
    obtain ⟨s1, fa⟩ := r
    rw [hw] at h
    simp only [] at h
    cases hend : s1.endMessage with
    | error x => rw [hend] at h; cases h
    | ok r2 =>
      obtain ⟨s2, fb⟩ := r2
      rw [hend] at h
      simp only [Except.ok.injEq, Prod.mk.injEq] at h
      obtain ⟨rfl, rfl⟩ := h
      have hstart : s.startMessage = s.withSend [] false := by cases s; rfl
      obtain ⟨ops, t, hz, hsend, hst, hcat⟩ := writeAll_spec ws s.startMessage s1 fa rfl hw
      rw [hstart, withSend_withSend] at hsend
      have hcat' : (ops.map Prod.fst).flatten ++ s1.sendBuf = ws.flatten := by
        rw [hcat, hstart]; simp [Stream.withSend]
      -- EndMessage: one final frame with what is still buffered
      unfold Stream.endMessage at hend
      have he1 : s1.sendEOM = false := by rw [hst]; rfl
      simp only [he1, Bool.false_eq_true, if_false] at hend
      have hs1 : ({ s1 with sendEOM := true } : Stream) = t.withSend s1.sendBuf true := by
        rw [hst]; rfl
      rw [hs1, sendFrame_withSend] at hend
      simp only [Stream.withSend] at hend
      cases hsf : t.sendFrame s1.sendBuf 1 with
      | error x => rw [hsf] at hend; cases hend
      | ok r3 =>
        obtain ⟨u, f⟩ := r3
        rw [hsf] at hend
        simp only [Except.ok.injEq, Prod.mk.injEq] at hend
        obtain ⟨rfl, rfl⟩ := hend
        refine ⟨ops ++ [(s1.sendBuf, 1)], u, ?_, ?_, ?_, ?_⟩
        · intro op hop
          simp only [List.mem_append, List.mem_singleton] at hop
          rcases hop with hop | rfl
          · have := hz op hop; omega
          · exact Nat.le_refl 1
        · exact sendAll_append ops [(s1.sendBuf, 1)] _ t u fa [f] hsend (by simp [Stream.sendAll, hsf])
        · rfl
        · intro more
          rw [List.append_assoc]
          have := messagesOf_partials ops [] s1.sendBuf more hz
          simp only [List.singleton_append, List.nil_append] at this ⊢
          rw [this, hcat']

/-- any sequence of buffered messages is a sequence of frame sends (flags 0/1) that denotes exactly
    the concatenations of the writes, one message per `EndMessage` -/
theorem sendBufferedAll_spec : ∀ (msgs : List (List Bytes)) (s s' : Stream) (fs : List WireFrame),
    s.sendBufferedAll msgs = .ok (s', fs) →
    ∃ ops t, (∀ op ∈ ops, op.2 ≤ 1) ∧ (s.withSend [] false).sendAll ops = .ok (t, fs) ∧
      messagesOf [] ops = msgs.map List.flatten
  | [], s, s', fs, h => by
    simp only [Stream.sendBufferedAll, Except.ok.injEq, Prod.mk.injEq] at h
    obtain ⟨rfl, rfl⟩ := h
    exact ⟨[], _, by simp, rfl, rfl⟩
  | ws :: rest, s, s', fs, h => by
    unfold Stream.sendBufferedAll at h
    cases hb : s.sendBuffered ws with
    | error x => rw [hb] at h; cases h
    | ok r =>
      obtain ⟨s1, fa⟩ := r
      rw [hb] at h
      simp only [] at h
      cases hr : s1.sendBufferedAll rest with
      | error x => rw [hr] at h; cases h
      | ok r2 =>
        obtain ⟨s2, fb⟩ := r2
        rw [hr] at h
        simp only [Except.ok.injEq, Prod.mk.injEq] at h
        obtain ⟨rfl, rfl⟩ := h
        obtain ⟨ops1, t1, hf1, hsend1, hs1, hm1⟩ := sendBuffered_spec ws s s1 fa hb
        obtain ⟨ops2, t2, hf2, hsend2, hm2⟩ := sendBufferedAll_spec rest s1 s2 fb hr
        rw [hs1, withSend_withSend] at hsend2
        -- t1 has empty bookkeeping already
        have ht1 : t1.withSend [] false = t1 := by
          have := sendAll_withSend [] false ops1 s
          rw [hsend1] at this
          cases hs0 : s.sendAll ops1 with
          | error x => rw [hs0] at this; cases this
          | ok r0 =>
            obtain ⟨u, g⟩ := r0
            rw [hs0] at this
            simp only [Except.ok.injEq, Prod.mk.injEq] at this
            rw [this.1]; rfl
        rw [ht1] at hsend2
        refine ⟨ops1 ++ ops2, t2, ?_, sendAll_append ops1 ops2 _ t1 t2 fa fb hsend1 hsend2, ?_⟩
        · intro op hop
          rcases List.mem_append.mp hop with h | h
          · exact hf1 op h
          · exact hf2 op h
        · rw [hm1 ops2, hm2]; rfl

end Cedar
