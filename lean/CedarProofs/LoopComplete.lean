/-
  Helper lemmas for C10: the authentication retry loop of two honest endpoints finds a method
  whenever a usable common one exists (completeness), for method sets whose bitmask values are
  distinct single bits.
-/
import CedarModel.Handshake
import CedarProofs.BitLemmas

namespace Cedar.HS
open Cedar.Bits

/-- The methods in play have distinct single-bit mask values, and the client offers only methods
    the server lists (`offered` is built by filtering on the server's list). -/
structure BitSys (own offered : List String) : Prop where
  single : ∀ m, (m ∈ own ∨ m ∈ offered) → ∃ i, authBit m = 2 ^ i
  inj : ∀ a b, (a ∈ own ∨ a ∈ offered) → (b ∈ own ∨ b ∈ offered) → authBit a = authBit b → a = b
  sub : ∀ m, m ∈ offered → m ∈ own

def untried (offered tried : List String) : List String := offered.filter (fun m => !tried.contains m)

structure LoopInv (offered : List String) (credOK : String → Bool) (mask : Nat) (tried : List String) : Prop where
  bits : ∀ i, mask.testBit i = true ↔ ∃ m, m ∈ offered ∧ authBit m = 2 ^ i ∧ m ∉ tried
  failed : ∀ m, m ∈ tried → credOK m = false

theorem filter_length_le_of_imp {α : Type} (p q : α → Bool) (himp : ∀ y, q y = true → p y = true) :
    ∀ (l : List α), (l.filter q).length ≤ (l.filter p).length
  | [] => by simp
  | b :: l => by
    have ih := filter_length_le_of_imp p q himp l
    simp only [List.filter_cons]
    by_cases hq : q b = true
    · simp [hq, himp b hq]; exact ih
    · by_cases hp : p b = true
      · simp [hq, hp]; omega
      · simp [hq, hp]; exact ih

theorem filter_length_lt {α : Type} (p q : α → Bool) (himp : ∀ y, q y = true → p y = true) : ∀ (l : List α) (x : α),
    x ∈ l → p x = true → q x = false →
    (l.filter q).length < (l.filter p).length
  | [], x, hx, _, _ => by cases hx
  | a :: l, x, hx, hpx, hqx => by
    have hle := filter_length_le_of_imp p q himp l
    rcases List.mem_cons.mp hx with rfl | hx'
    · simp only [List.filter_cons, hpx, hqx, if_true, Bool.false_eq_true, if_false, List.length_cons]
      omega
    · have ih := filter_length_lt p q himp l x hx' hpx hqx
      simp only [List.filter_cons]
      by_cases hq : q a = true
      · simp [hq, himp a hq]; exact ih
      · by_cases hp : p a = true
        · simp [hq, hp]; omega
        · simp [hq, hp]; exact ih

theorem untried_cons_lt (offered tried : List String) (m : String) (hm : m ∈ offered) (hn : m ∉ tried) :
    (untried offered (m :: tried)).length < (untried offered tried).length := by
  unfold untried
  apply filter_length_lt _ _ ?_ offered m
  · exact hm
  · simpa using hn
  · simp
  · intro y hy
    simp only [Bool.not_eq_true', List.contains_eq_mem, List.mem_cons, decide_eq_false_iff_not, not_or] at hy ⊢
    simpa using hy.2

theorem jointLoop_complete_aux {own offered : List String} {credOK : String → Bool}
    (hs : BitSys own offered) (g : String) (hg : g ∈ offered) (hgc : credOK g = true) :
    ∀ (fuel mask : Nat) (tried : List String) (ran : List (String × Bool)),
      LoopInv offered credOK mask tried → (untried offered tried).length < fuel →
      ∃ m ran', jointLoop offered own credOK fuel mask ran = .success m ran' ∧ credOK m = true := by
  intro fuel
  induction fuel with
  | zero => intro mask tried ran _ h; omega
  | succ fuel ih =>
    intro mask tried ran hinv hfuel
    have hgt : g ∉ tried := fun h => by have := hinv.failed g h; rw [hgc] at this; cases this
    obtain ⟨ig, hig⟩ := hs.single g (Or.inr hg)
    have hbg : mask.testBit ig = true := (hinv.bits ig).mpr ⟨g, hg, hig, hgt⟩
    have hm0 : mask ≠ 0 := by
      intro h; rw [h] at hbg; simp at hbg
    unfold jointLoop
    rw [if_neg hm0]
    -- the server finds a method
    have hpg : (Nat.land mask (authBit g) != 0) = true := by
      rw [hig]
      have := (and_two_pow_ne_zero (mask := mask) (i := ig)).mpr hbg
      simpa [bne_iff_ne] using this
    cases hfs : own.find? (fun m => Nat.land mask (authBit m) != 0) with
    | none =>
      rw [List.find?_eq_none] at hfs
      exact absurd hpg (hfs g (hs.sub g hg))
    | some mS =>
      simp only []
      have hmSown : mS ∈ own := List.mem_of_find?_eq_some hfs
      have hpS := List.find?_some hfs
      obtain ⟨is, his⟩ := hs.single mS (Or.inl hmSown)
      have hbS : mask.testBit is = true := by
        simp only [his, bne_iff_ne] at hpS
        exact and_two_pow_ne_zero.mp hpS
      obtain ⟨m', hm'o, hm'b, hm't⟩ := (hinv.bits is).mp hbS
      have hm'S : m' = mS := hs.inj m' mS (Or.inr hm'o) (Or.inl hmSown) (by rw [hm'b, his])
      subst hm'S
      -- the client finds the same method
      have hq : (decide (authBit m' = authBit m') && (Nat.land (authBit m') mask == authBit m')) = true := by
        simp only [decide_true, Bool.true_and, beq_iff_eq]
        rw [his]
        exact two_pow_and_eq hbS
      cases hfc : offered.find? (fun m => decide (authBit m = authBit m') && (Nat.land (authBit m') mask == authBit m')) with
      | none =>
        rw [List.find?_eq_none] at hfc
        exact absurd hq (hfc m' hm'o)
      | some mC =>
        simp only []
        have hmCo : mC ∈ offered := List.mem_of_find?_eq_some hfc
        have hqC := List.find?_some hfc
        simp only [Bool.and_eq_true, decide_eq_true_eq] at hqC
        have hCS : mC = m' := hs.inj mC m' (Or.inr hmCo) (Or.inr hm'o) hqC.1
        subst hCS
        by_cases hc : credOK mC = true
        · rw [if_pos ⟨rfl, hc⟩]
          exact ⟨mC, _, rfl, hc⟩
        · rw [if_neg (fun h => hc h.2)]
          have hcf : credOK mC = false := by simpa using hc
          have hinv' : LoopInv offered credOK (mask - authBit mC) (mC :: tried) := by
            constructor
            · intro j
              rw [his, testBit_sub_two_pow hbS j]
              simp only [Bool.and_eq_true, decide_eq_true_eq, List.mem_cons, not_or]
              constructor
              · rintro ⟨hj, hne⟩
                obtain ⟨m, hmo, hmb, hmt⟩ := (hinv.bits j).mp hj
                refine ⟨m, hmo, hmb, ?_, hmt⟩
                intro hmm
                subst hmm
                rw [his] at hmb
                exact hne ((Nat.pow_right_inj (by decide)).mp hmb)
              · rintro ⟨m, hmo, hmb, hmne, hmt⟩
                refine ⟨(hinv.bits j).mpr ⟨m, hmo, hmb, hmt⟩, ?_⟩
                intro hij
                subst hij
                exact hmne (hs.inj m mC (Or.inr hmo) (Or.inr hmCo) (by rw [hmb, his]))
            · intro m hm
              rcases List.mem_cons.mp hm with rfl | hm
              · exact hcf
              · exact hinv.failed m hm
          have hlt := untried_cons_lt offered tried mC hmCo hm't
          exact ih (mask - authBit mC) (mC :: tried) _ hinv' (by omega)

end Cedar.HS

namespace Cedar.HS
open Cedar.Bits

theorem testBit_bitmask_foldl (l : List String) : ∀ (acc i : Nat),
    (l.foldl (fun a m => Nat.lor a (authBit m)) acc).testBit i =
      (acc.testBit i || l.any (fun m => (authBit m).testBit i))
  | acc, i => by
    induction l generalizing acc with
    | nil => simp
    | cons m l ih =>
      simp only [List.foldl_cons, List.any_cons]
      rw [ih]
      have : (Nat.lor acc (authBit m)).testBit i = (acc.testBit i || (authBit m).testBit i) := Nat.testBit_or acc (authBit m) i
      rw [this, Bool.or_assoc]

theorem loopInv_init {own offered : List String} (credOK : String → Bool) (hs : BitSys own offered) :
    LoopInv offered credOK (bitmaskOf offered) [] := by
  constructor
  · intro i
    unfold bitmaskOf
    rw [testBit_bitmask_foldl]
    simp only [Nat.zero_testBit, Bool.false_or, List.any_eq_true, List.not_mem_nil, not_false_eq_true, and_true]
    constructor
    · rintro ⟨m, hm, hb⟩
      obtain ⟨k, hk⟩ := hs.single m (Or.inr hm)
      rw [hk, Nat.testBit_two_pow] at hb
      have : k = i := by simpa using hb
      subst this
      exact ⟨m, hm, hk⟩
    · rintro ⟨m, hm, hb⟩
      exact ⟨m, hm, by rw [hb]; exact Nat.testBit_two_pow_self⟩
  · intro m hm; cases hm

/-- **completeness of the retry loop**: if some offered method works with the two parties'
    credentials, the loop of two honest endpoints ends in success with a working method. -/
theorem jointLoop_complete' {own offered : List String} {credOK : String → Bool}
    (hs : BitSys own offered) (hgood : ∃ g, g ∈ offered ∧ credOK g = true) :
    ∃ m ran, jointLoop offered own credOK (offered.length + 1) (bitmaskOf offered) [] = .success m ran ∧
      credOK m = true := by
  obtain ⟨g, hg, hgc⟩ := hgood
  apply jointLoop_complete_aux hs g hg hgc _ _ [] [] (loopInv_init credOK hs)
  have : (untried offered []).length ≤ offered.length := by
    unfold untried; exact List.length_filter_le _ _
  omega

/-- executable check of the `BitSys` hypotheses for concrete method lists -/
def bitSysCheck (own offered : List String) : Bool :=
  (own ++ offered).all (fun m => authBit m != 0 && authBit m == 2 ^ (authBit m).log2) &&
  (own ++ offered).all (fun a => (own ++ offered).all (fun b => authBit a != authBit b || a == b)) &&
  offered.all (fun m => own.contains m)

theorem bitSys_of_check {own offered : List String} (h : bitSysCheck own offered = true) : BitSys own offered := by
  unfold bitSysCheck at h
  simp only [Bool.and_eq_true, List.all_eq_true, List.mem_append, bne_iff_ne, ne_eq, beq_iff_eq, Bool.or_eq_true,
    List.contains_eq_mem, decide_eq_true_eq] at h
  obtain ⟨⟨h1, h2⟩, h3⟩ := h
  refine ⟨fun m hm => ⟨_, (h1 m hm).2⟩, fun a b ha hb hab => ?_, h3⟩
  rcases h2 a ha b hb with hne | he
  · exact absurd hab hne
  · exact he

end Cedar.HS
