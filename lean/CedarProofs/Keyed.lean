/-
  Helper lemmas for C06 / C03 (wire-level meaning of "the connection is protected by key k"):
  on a stream that holds key `k` with encryption on,
    * every frame any receive API accepts carries a seal under `k` (raw bytes and seals under any
      other key are rejected), and the bytes handed to the application are that seal's plaintext;
    * every frame any send API emits is a non-empty `.ct` sealed under `k`;
    * both facts survive every operation except the explicit `SetCryptoMode(false)`;
    * a reader whose stream does not hold `k` gets nothing out of such a frame.
-/
import CedarModel.Stream
import CedarModel.Session
import CedarProofs.Prefix

namespace Cedar

/-- the stream holds key `k` and encryption is on (`gcm != nil && encrypted`) -/
def Keyed (s : Stream) (k : Nat) : Prop := s.key = some k ∧ s.encrypted = true

/-- the frame's body is a genuine seal under `k` carrying plaintext `p` -/
def SealedUnder (k : Nat) (f : WireFrame) (p : Bytes) : Prop :=
  ∃ ivo c, f.body = .ct ivo c ∧ c.key = k ∧ c.plain = p

/-- the frame's body is raw bytes, or a seal under a key other than `k` -/
def NotUnder (k : Nat) (g : WireFrame) : Prop := ∀ ivo c, g.body = .ct ivo c → c.key ≠ k

theorem setKey_keyed (s : Stream) (k : Nat) (iv : IV) : Keyed (s.setKey k iv) k := ⟨rfl, rfl⟩

/-- `decryptDataWithAAD` opens only a seal under the stream's key, and returns its plaintext -/
theorem openBody_under {s : Stream} {k : Nat} {f : WireFrame} {iv : IV} {p : Bytes}
    (h : s.openBody k f = .ok (iv, p)) : SealedUnder k f p := by
  unfold Stream.openBody at h
  by_cases h0 : f.body.wireLen = 0
  · rw [if_pos h0] at h; cases h
  rw [if_neg h0] at h
  by_cases h1 : s.decCtr = 0 ∧ f.body.wireLen < ivLen
  · rw [if_pos h1] at h; cases h
  rw [if_neg h1] at h
  cases hb : f.body with
  | raw b => by_cases hc : s.decCtr = 0 <;> simp [hb, hc] at h
  | ct ivo c =>
    by_cases hc : s.decCtr = 0
    · cases ivo with
      | none => simp [hb, hc] at h
      | some i =>
        simp only [hb, hc, if_true] at h
        by_cases hie : i = s.encIV
        · rw [if_pos hie] at h; cases h
        · rw [if_neg hie] at h
          obtain ⟨hcond, hab⟩ := ite_ok h
          simp only [Prod.mk.injEq] at hab
          exact ⟨_, c, hb, hcond.1, hab.2⟩
    · cases ivo with
      | some i => simp [hb, hc] at h
      | none =>
        simp only [hb, hc, if_false] at h
        obtain ⟨hcond, hab⟩ := ite_ok h
        simp only [Prod.mk.injEq] at hab
        exact ⟨_, c, hb, hcond.1, hab.2⟩

theorem afterOpen_feedRecv_fields (s : Stream) (iv : IV) (b : Bytes) :
    ((s.afterOpen iv).feedRecv b).key = s.key ∧ ((s.afterOpen iv).feedRecv b).encrypted = s.encrypted ∧
    ((s.afterOpen iv).feedRecv b).beforeSecret = s.beforeSecret := ⟨rfl, rfl, rfl⟩

/-- `ReceiveFrameWithEnd` never changes key, crypto mode or the saved secret mode -/
theorem recvFrameWithEnd_fields {s s' : Stream} {g d fl} (h : s.recvFrameWithEnd g = .ok (s', d, fl)) :
    s'.key = s.key ∧ s'.encrypted = s.encrypted ∧ s'.beforeSecret = s.beforeSecret := by
  unfold Stream.recvFrameWithEnd at h
  repeat' split at h
  all_goals first | (simp only [Except.ok.injEq, Prod.mk.injEq] at h; obtain ⟨rfl, _⟩ := h; exact ⟨rfl, rfl, rfl⟩) | cases h

theorem recvFrame_fields {s s' : Stream} {g d} (h : s.recvFrame g = .ok (s', d)) :
    s'.key = s.key ∧ s'.encrypted = s.encrypted ∧ s'.beforeSecret = s.beforeSecret := by
  unfold Stream.recvFrame at h
  repeat' split at h
  all_goals first | (simp only [Except.ok.injEq, Prod.mk.injEq] at h; obtain ⟨rfl, _⟩ := h; exact ⟨rfl, rfl, rfl⟩) | cases h

/-- **(a), `ReceiveFrameWithEnd`**: a keyed stream accepts only a seal under its key; the bytes
    returned are that seal's plaintext. -/
theorem recvFrameWithEnd_under {s s' : Stream} {k : Nat} {g d fl} (hk : Keyed s k)
    (h : s.recvFrameWithEnd g = .ok (s', d, fl)) : SealedUnder k g d ∧ Keyed s' k := by
  have hf := recvFrameWithEnd_fields h
  refine ⟨?_, by rw [Keyed, hf.1, hf.2.1]; exact hk⟩
  obtain ⟨hkey, he⟩ := hk
  unfold Stream.recvFrameWithEnd at h
  split at h
  · cases h
  · split at h
    · simp [Stream.crypting, hkey, he] at h
    · simp only [hkey, he] at h
      split at h
      · cases h
      · rename_i iv p hopen
        simp only [Except.ok.injEq, Prod.mk.injEq] at h
        rw [← h.2.1]; exact openBody_under hopen

/-- **(a), plain `ReceiveFrame`** (GetSecret / GetFile path) -/
theorem recvFrame_under {s s' : Stream} {k : Nat} {g d} (hk : Keyed s k)
    (h : s.recvFrame g = .ok (s', d)) : SealedUnder k g d ∧ Keyed s' k := by
  have hf := recvFrame_fields h
  refine ⟨?_, by rw [Keyed, hf.1, hf.2.1]; exact hk⟩
  obtain ⟨hkey, he⟩ := hk
  unfold Stream.recvFrame at h
  split at h
  · cases h
  · split at h
    · simp [Stream.crypting, hkey, he] at h
    · simp only [hkey, he] at h
      split at h
      · cases h
      · rename_i iv p hopen
        simp only [Except.ok.injEq, Prod.mk.injEq] at h
        rw [← h.2]; exact openBody_under hopen

theorem prepareSecret_keyed {s : Stream} {k : Nat} (hk : Keyed s k) :
    Keyed s.prepareSecret k ∧ s.prepareSecret.beforeSecret = true := by
  obtain ⟨hkey, he⟩ := hk
  unfold Stream.prepareSecret
  simp [hkey, he, Keyed]

/-- **(a), `GetSecret`**: the frame it accepts is a seal under the key (the string returned is
    its plaintext minus the trailing NUL) -/
theorem getSecret_under {s s' : Stream} {k : Nat} {g d} (hk : Keyed s k)
    (h : s.getSecret g = .ok (s', d)) : (∃ p, SealedUnder k g p ∧ d = stripNul p) ∧ Keyed s' k := by
  unfold Stream.getSecret at h
  split at h
  · cases h
  · rename_i s1 p hrf
    simp only [Except.ok.injEq, Prod.mk.injEq] at h
    obtain ⟨rfl, rfl⟩ := h
    obtain ⟨hp, hb⟩ := prepareSecret_keyed hk
    obtain ⟨hu, hk1⟩ := recvFrame_under hp hrf
    have hf := recvFrame_fields hrf
    exact ⟨⟨p, hu, rfl⟩, ⟨hk1.1, by simp [Stream.restoreSecret, hf.2.2, hb]⟩⟩

theorem not_under_of {k : Nat} {g : WireFrame} {p : Bytes} (hn : NotUnder k g) (hs : SealedUnder k g p) : False := by
  obtain ⟨ivo, c, hb, hc, _⟩ := hs
  exact hn ivo c hb hc

theorem except_error_of_not_ok {α : Type} (x : Except Err α) (h : ∀ a, x ≠ .ok a) : ∃ e, x = .error e := by
  cases x with
  | error e => exact ⟨e, rfl⟩
  | ok a => exact absurd rfl (h a)

/-- rejection form of (a), all three frame-level receive APIs -/
theorem keyed_rejects {s : Stream} {k : Nat} {g : WireFrame} (hk : Keyed s k) (hn : NotUnder k g) :
    (∃ e, s.recvFrameWithEnd g = .error e) ∧ (∃ e, s.recvFrame g = .error e) ∧ (∃ e, s.getSecret g = .error e) := by
  refine ⟨except_error_of_not_ok _ ?_, except_error_of_not_ok _ ?_, except_error_of_not_ok _ ?_⟩
  · intro ⟨s', d, fl⟩ h; exact not_under_of hn (recvFrameWithEnd_under hk h).1
  · intro ⟨s', d⟩ h; exact not_under_of hn (recvFrame_under hk h).1
  · intro ⟨s', d⟩ h
    obtain ⟨⟨p, hu, _⟩, _⟩ := getSecret_under hk h
    exact not_under_of hn hu

/-- rejection form of (a), the message-level receivers: a wire that starts with such a frame
    yields an error from `ReceiveCompleteMessage`, `readNextFrame`/`StartMessageRead` and the
    typed layer's `GetRemainingBytes` loop — no byte of it (or of anything behind it) is delivered -/
theorem keyed_rejects_message {s : Stream} {k : Nat} {g : WireFrame} (hk : Keyed s k) (hn : NotUnder k g)
    (w : List WireFrame) (acc : Bytes) :
    (∃ e, s.recvCompleteAux acc (g :: w) = .error e) ∧ (∃ e, s.readNextFrame (g :: w) = .error e) ∧
    (∃ e, s.startMessageRead (g :: w) = .error e) ∧ (∃ e, s.recvRestAux acc (g :: w) = .error e) := by
  obtain ⟨e, he⟩ := (keyed_rejects hk hn).1
  have h2 : s.readNextFrame (g :: w) = .error e := by simp [Stream.readNextFrame, he]
  refine ⟨⟨e, by simp [Stream.recvCompleteAux, he]⟩, ⟨e, h2⟩, ?_, ⟨e, by simp [Stream.recvRestAux, he]⟩⟩
  unfold Stream.startMessageRead
  split
  · exact ⟨_, rfl⟩
  · rw [h2]; exact ⟨e, rfl⟩

/-! ### the send side -/

/-- **(b), `sendMessageWithEnd`**: a keyed stream emits only a non-empty `.ct` frame whose seal is
    under its key and carries exactly the data; key and crypto mode are unchanged. -/
theorem sendFrame_under {s s' : Stream} {k : Nat} {d fl f} (hk : Keyed s k)
    (h : s.sendFrame d fl = .ok (s', f)) :
    SealedUnder k f d ∧ 0 < f.len ∧ s'.key = s.key ∧ s'.encrypted = s.encrypted ∧
    s'.beforeSecret = s.beforeSecret := by
  obtain ⟨hkey, he⟩ := hk
  unfold Stream.sendFrame at h
  simp only [hkey, he] at h
  by_cases h1 : d.length > maxMessageSize
  · rw [if_pos h1] at h; cases h
  rw [if_neg h1] at h
  by_cases h2 : d.length + tagLen + (if s.encCtr = 0 then ivLen else 0) > maxMessageSize
  · rw [if_pos h2] at h; cases h
  rw [if_neg h2] at h
  by_cases h3 : s.encCtr = counterLimit
  · rw [if_pos h3] at h; cases h
  rw [if_neg h3] at h
  simp only [Except.ok.injEq, Prod.mk.injEq] at h
  obtain ⟨rfl, rfl⟩ := h
  refine ⟨⟨_, _, rfl, rfl, rfl⟩, ?_, hkey.symm ▸ rfl, he.symm ▸ rfl, rfl⟩
  simp only [Stream.sealFrame, tagLen]; omega

/-- every frame in `fs` is a non-empty seal under `k` -/
def AllUnder (k : Nat) (fs : List WireFrame) : Prop := ∀ f ∈ fs, (∃ p, SealedUnder k f p) ∧ 0 < f.len

theorem allUnder_nil (k : Nat) : AllUnder k [] := by intro f hf; cases hf

theorem allUnder_single {k : Nat} {f : WireFrame} {p} (h : SealedUnder k f p) (hl : 0 < f.len) : AllUnder k [f] := by
  intro g hg; simp only [List.mem_singleton] at hg; subst hg; exact ⟨⟨p, h⟩, hl⟩

theorem allUnder_append {k : Nat} {a b : List WireFrame} (ha : AllUnder k a) (hb : AllUnder k b) : AllUnder k (a ++ b) := by
  intro f hf; rcases List.mem_append.mp hf with h | h
  · exact ha f h
  · exact hb f h

/-- an operation other than the explicit `SetCryptoMode(false)` -/
def Op.keepsCrypto : Op → Bool
  | .crypto false => false
  | _ => true

/-- **one step**: any operation except `SetCryptoMode(false)` keeps the stream keyed under `k`, and
    whatever it puts on the wire is sealed under `k`. Failed operations included (they emit nothing). -/
theorem step_keyed {s : Stream} {k : Nat} (hk : Keyed s k) (op : Op) (hop : op.keepsCrypto = true) :
    Keyed (s.step op).1 k ∧ AllUnder k (s.step op).2 := by
  cases op with
  | send d fl =>
    simp only [Stream.step, okOr]
    split
    · rename_i s' f h
      obtain ⟨hu, hl, a, b, _⟩ := sendFrame_under hk h
      exact ⟨by rw [Keyed, a, b]; exact hk, allUnder_single hu hl⟩
    · exact ⟨hk, allUnder_nil k⟩
  | write d =>
    simp only [Stream.step, okOr]
    split
    · rename_i s' fs h
      unfold Stream.writeMessage at h
      split at h
      · cases h
      · dsimp only at h
        split at h
        · unfold Stream.flushPartial at h
          split at h
          · simp only [Except.ok.injEq, Prod.mk.injEq] at h
            obtain ⟨rfl, rfl⟩ := h
            exact ⟨hk, allUnder_nil k⟩
          · split at h
            · cases h
            · rename_i s1 f hsf
              simp only [Except.ok.injEq, Prod.mk.injEq] at h
              obtain ⟨rfl, rfl⟩ := h
              obtain ⟨hu, hl, a, b, _⟩ := sendFrame_under (s := { s with sendBuf := s.sendBuf ++ d }) hk hsf
              exact ⟨⟨by simpa using a.trans hk.1, by simpa using b.trans hk.2⟩, allUnder_single hu hl⟩
        · simp only [Except.ok.injEq, Prod.mk.injEq] at h
          obtain ⟨rfl, rfl⟩ := h
          exact ⟨hk, allUnder_nil k⟩
    · exact ⟨hk, allUnder_nil k⟩
  | endMsg =>
    simp only [Stream.step, okOr]
    split
    · rename_i s' fs h
      unfold Stream.endMessage at h
      split at h
      · cases h
      · dsimp only at h
        split at h
        · cases h
        · rename_i s2 f hsf
          simp only [Except.ok.injEq, Prod.mk.injEq] at h
          obtain ⟨rfl, rfl⟩ := h
          obtain ⟨hu, hl, a, b, _⟩ := sendFrame_under (s := { s with sendEOM := true }) hk hsf
          exact ⟨⟨by simpa using a.trans hk.1, by simpa using b.trans hk.2⟩, allUnder_single hu hl⟩
    · exact ⟨hk, allUnder_nil k⟩
  | startMsg => exact ⟨hk, allUnder_nil k⟩
  | secret d =>
    simp only [Stream.step, okOr]
    split
    · rename_i s' f h
      unfold Stream.putSecret at h
      split at h
      · cases h
      · rename_i s1 f1 hsf
        simp only [Except.ok.injEq, Prod.mk.injEq] at h
        obtain ⟨rfl, rfl⟩ := h
        obtain ⟨hp, hb⟩ := prepareSecret_keyed hk
        obtain ⟨hu, hl, a, b, c⟩ := sendFrame_under hp hsf
        exact ⟨⟨by simpa [Stream.restoreSecret] using a.trans hp.1, by simp [Stream.restoreSecret, c, hb]⟩,
               allUnder_single hu hl⟩
    · exact ⟨hk, allUnder_nil k⟩
  | crypto on =>
    cases on with
    | false => exact absurd hop (by simp [Op.keepsCrypto])
    | true =>
      refine ⟨?_, allUnder_nil k⟩
      simp [Stream.step, Stream.setCryptoMode, hk.1, Keyed]
  | recv f =>
    simp only [Stream.step, okOr]
    split
    · rename_i s' x h
      obtain ⟨d, fl⟩ := x
      exact ⟨(recvFrameWithEnd_under hk h).2, allUnder_nil k⟩
    · exact ⟨hk, allUnder_nil k⟩
  | recvPlain f =>
    simp only [Stream.step, okOr]
    split
    · rename_i s' x h
      exact ⟨(recvFrame_under hk h).2, allUnder_nil k⟩
    · exact ⟨hk, allUnder_nil k⟩
  | getSecret f =>
    simp only [Stream.step, okOr]
    split
    · rename_i s' x h
      exact ⟨(getSecret_under hk h).2, allUnder_nil k⟩
    · exact ⟨hk, allUnder_nil k⟩

/-- **any history** without `SetCryptoMode(false)`: the stream stays keyed under `k` and every frame
    it emitted is a non-empty `.ct` sealed under `k`. -/
theorem run_keyed : ∀ (ops : List Op) (s : Stream) (k : Nat), Keyed s k → (∀ op ∈ ops, op.keepsCrypto = true) →
    Keyed (s.run ops).1 k ∧ AllUnder k (s.run ops).2 := by
  intro ops
  induction ops with
  | nil => intro s k hk _; exact ⟨hk, allUnder_nil k⟩
  | cons op rest ih =>
    intro s k hk hops
    obtain ⟨h1, h2⟩ := step_keyed hk op (hops op (List.mem_cons_self ..))
    obtain ⟨h3, h4⟩ := ih (s.step op).1 k h1 (fun o ho => hops o (List.mem_cons_of_mem _ ho))
    exact ⟨by simpa [Stream.run] using h3, by simpa [Stream.run] using allUnder_append h2 h4⟩

/-! ### a reader without the key -/

/-- **reads nothing**: a non-empty frame sealed under `k` is rejected by every frame-level receive
    API of every stream that does not hold `k` — whatever its state, keyed under another key or not
    keyed at all (a stream that is not decrypting is handed ciphertext, which the symbolic model
    does not count as data: `.malformed`). -/
theorem without_key_reads_nothing {r : Stream} {k : Nat} {f : WireFrame} {p : Bytes}
    (hr : r.key ≠ some k) (hf : SealedUnder k f p) (hl : 0 < f.len) :
    (∃ e, r.recvFrameWithEnd f = .error e) ∧ (∃ e, r.recvFrame f = .error e) ∧ (∃ e, r.getSecret f = .error e) := by
  obtain ⟨ivo, c, hb, hc, _⟩ := hf
  have hl' : f.len ≠ 0 := by omega
  have key : ∀ t : Stream, t.key = r.key →
      (∃ e, t.recvFrameWithEnd f = .error e) ∧ (∃ e, t.recvFrame f = .error e) := by
    intro t ht
    refine ⟨except_error_of_not_ok _ ?_, except_error_of_not_ok _ ?_⟩
    · intro ⟨s', d, fl⟩ h
      unfold Stream.recvFrameWithEnd at h
      split at h
      · cases h
      · rw [if_neg hl'] at h
        split at h
        · rename_i k' hk' he'
          split at h
          · cases h
          · rename_i iv q hopen
            obtain ⟨ivo', c', hb', hc', _⟩ := openBody_under hopen
            rw [hb] at hb'
            simp only [Body.ct.injEq] at hb'
            apply hr
            rw [← ht, hk', ← hc', ← hb'.2, hc]
        · simp only [hb] at h; cases h
    · intro ⟨s', d⟩ h
      unfold Stream.recvFrame at h
      split at h
      · cases h
      · rw [if_neg hl'] at h
        split at h
        · rename_i k' hk' he'
          split at h
          · cases h
          · rename_i iv q hopen
            obtain ⟨ivo', c', hb', hc', _⟩ := openBody_under hopen
            rw [hb] at hb'
            simp only [Body.ct.injEq] at hb'
            apply hr
            rw [← ht, hk', ← hc', ← hb'.2, hc]
        · simp only [hb] at h; cases h
  refine ⟨(key r rfl).1, (key r rfl).2, ?_⟩
  have hps : r.prepareSecret.key = r.key := by
    unfold Stream.prepareSecret; dsimp only; split <;> rfl
  obtain ⟨e, he⟩ := (key r.prepareSecret hps).2
  exact ⟨e, by simp [Stream.getSecret, he]⟩

/-! ### the two facts packaged -/

/-- "the connection is protected by key `k`": what holds of an endpoint state `S` and of the frames
    `emitted` it has put on the wire. -/
structure ProtectedBy (S : Stream) (emitted : List WireFrame) (k : Nat) : Prop where
  keyed : Keyed S k
  /-- (a) whatever `ReceiveFrameWithEnd` accepts is a seal under `k`; the bytes returned are its plaintext -/
  recv_under : ∀ g s' d fl, S.recvFrameWithEnd g = .ok (s', d, fl) → SealedUnder k g d
  /-- (a) the same for plain `ReceiveFrame` (GetFile path) -/
  recvPlain_under : ∀ g s' d, S.recvFrame g = .ok (s', d) → SealedUnder k g d
  /-- (a) the same for `GetSecret` -/
  getSecret_under : ∀ g s' d, S.getSecret g = .ok (s', d) → ∃ p, SealedUnder k g p ∧ d = stripNul p
  /-- (a) rejection form: raw bytes / a seal under another key is an error in every receive API,
      frame level and message level -/
  rejects : ∀ g, NotUnder k g →
    (∃ e, S.recvFrameWithEnd g = .error e) ∧ (∃ e, S.recvFrame g = .error e) ∧ (∃ e, S.getSecret g = .error e) ∧
    ∀ w acc, (∃ e, S.recvCompleteAux acc (g :: w) = .error e) ∧ (∃ e, S.readNextFrame (g :: w) = .error e) ∧
             (∃ e, S.startMessageRead (g :: w) = .error e) ∧ (∃ e, S.recvRestAux acc (g :: w) = .error e)
  /-- (b) every frame sent is a non-empty seal under `k` ... -/
  sent_under : ∀ f ∈ emitted, (∃ p, SealedUnder k f p) ∧ 0 < f.len
  /-- (b) ... which no stream without `k` opens, whatever its state -/
  sent_opaque : ∀ f ∈ emitted, ∀ r : Stream, r.key ≠ some k →
    (∃ e, r.recvFrameWithEnd f = .error e) ∧ (∃ e, r.recvFrame f = .error e) ∧ (∃ e, r.getSecret f = .error e)

/-- a stream keyed under `k`, driven by ANY history of operations that contains no explicit
    `SetCryptoMode(false)`, is protected by `k` at the end of (hence, histories being arbitrary,
    at every point of) the history -/
theorem run_protected (s : Stream) (k : Nat) (hk : Keyed s k) (hist : List Op)
    (hon : ∀ op ∈ hist, op.keepsCrypto = true) : ProtectedBy (s.run hist).1 (s.run hist).2 k := by
  obtain ⟨hK, hA⟩ := run_keyed hist s k hk hon
  exact {
    keyed := hK
    recv_under := fun g s' d fl h => (recvFrameWithEnd_under hK h).1
    recvPlain_under := fun g s' d h => (recvFrame_under hK h).1
    getSecret_under := fun g s' d h => (getSecret_under hK h).1
    rejects := fun g hn =>
      ⟨(keyed_rejects hK hn).1, (keyed_rejects hK hn).2.1, (keyed_rejects hK hn).2.2,
       fun w acc => keyed_rejects_message hK hn w acc⟩
    sent_under := hA
    sent_opaque := fun f hf r hr => by
      obtain ⟨⟨p, hp⟩, hl⟩ := hA f hf
      exact without_key_reads_nothing hr hp hl }

/-- the hypothesis of `run_protected` is needed: one `SetCryptoMode(false)` and the next send is
    cleartext (the API exists; the library itself calls it nowhere outside PutSecret/GetSecret's
    save-and-restore) -/
example : ((({} : Stream).setKey 7 ⟨1, []⟩).run [.crypto false, .send [1] 1]).2 = [⟨1, 1, .raw [1]⟩] := by decide

end Cedar
