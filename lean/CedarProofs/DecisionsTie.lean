import CedarGen.Decisions
import CedarModel.Handshake
import CedarModel.Dispatch

/-! Tie (T) for decision code: the hand-written model functions `negotiateCore` (C10, C03) and
    `levelOK` (C05) are proved equal — for ALL level strings, the four standard ones, the empty
    string of an unset field, and anything a peer may send — to the definitions that `tools/gen`
    (trans.go) translates statement by statement from `security.negotiateSecurity`,
    `server.commandLevelSatisfied` and `server.sessionSatisfies` on every run. -/

namespace Cedar.Tie
open CedarGen

/-- the five classes a level string falls into, as far as the code can tell -/
inductive Cls | req | never | pref | opt | other
  deriving DecidableEq, Repr

def cls (s : String) : Cls :=
  if s = "REQUIRED" then .req else if s = "NEVER" then .never
  else if s = "PREFERRED" then .pref else if s = "OPTIONAL" then .opt else .other

theorem eq_req (s : String) : (s = "REQUIRED") = (cls s = .req) := by
  unfold cls; by_cases h : s = "REQUIRED"
  · simp [h]
  · simp only [h, if_false, eq_iff_iff, false_iff]; repeat' split
    all_goals simp
theorem eq_never (s : String) : (s = "NEVER") = (cls s = .never) := by
  unfold cls; by_cases h : s = "NEVER"
  · subst h; simp
  · simp only [h, if_false, eq_iff_iff, false_iff]; repeat' split
    all_goals simp
theorem eq_pref (s : String) : (s = "PREFERRED") = (cls s = .pref) := by
  unfold cls; by_cases h : s = "PREFERRED"
  · subst h; simp
  · simp only [h, if_false, eq_iff_iff, false_iff]; repeat' split
    all_goals simp
theorem eq_opt (s : String) : (s = "OPTIONAL") = (cls s = .opt) := by
  unfold cls; by_cases h : s = "OPTIONAL"
  · subst h; simp
  · simp only [h, if_false, eq_iff_iff, false_iff]; repeat' split
    all_goals simp

end Cedar.Tie

namespace Cedar.Tie
open CedarGen Cedar.HS

def errOf : Nat → Option NegErr
  | 0 => none | 1 => some .authIncompat | 2 => some .authIncompat
  | 3 => some .encIncompat | 4 => some .encIncompat | 5 => some .noCrypto | _ => some .noAuth

theorem beq_str (s t : String) : (s == t) = decide (s = t) := rfl

theorem core_eq_gen (sa ca se ce : String) (ha hc : Bool) :
    negotiateCore sa ca se ce ha hc =
      (let g := Decisions.negotiateSecurity sa ca se ce ha hc
       (errOf g.ret, g.authentication, g.encryption)) := by
  unfold negotiateCore decide3 Decisions.negotiateSecurity
  simp only [lvlRequired, lvlNever, lvlPreferred, security.SecurityRequired,
    security.SecurityNever, security.SecurityPreferred, beq_str,
    eq_req, eq_never, eq_pref, eq_opt]
  generalize cls sa = a; generalize cls ca = b; generalize cls se = c; generalize cls ce = d
  cases a <;> cases b <;> cases c <;> cases d <;> cases ha <;> cases hc <;> rfl

open Cedar.Disp in
theorem levelOK_eq_gen (p : Policy) (authenticated encrypted : Bool) :
    levelOK (some p) authenticated encrypted =
      Decisions.commandLevelSatisfied p.auth p.enc p.integ authenticated encrypted := by
  unfold levelOK Decisions.commandLevelSatisfied
  simp only [lvlRequired, security.SecurityRequired, beq_str, eq_req]
  generalize cls p.auth = a; generalize cls p.enc = b; generalize cls p.integ = c
  cases a <;> cases b <;> cases c <;> cases authenticated <;> cases encrypted <;> rfl

open Cedar.Disp in
/-- `Server.satisfies` (the model of `server.sessionSatisfies` for a session that exists) is the
    translated code: pass iff the generated function returns nil.  `authorizedNow` is the verdict of
    `s.authorized`, which the code consults only when an Authorizer is configured. -/
theorem satisfies_eq_gen (s : Server) (cmd : Nat) (sess : Sess) (authorizedNow : Bool)
    (hA : ∀ a, s.authorizer = some a → authorizedNow = s.authorizedFor cmd sess.user) :
    s.satisfies cmd sess =
      ((Decisions.sessionSatisfies false (levelOK (s.policyFor cmd) sess.authenticated sess.encrypted)
          s.authorizer.isSome authorizedNow).ret == 0) := by
  unfold Server.satisfies Decisions.sessionSatisfies
  generalize levelOK (s.policyFor cmd) sess.authenticated sess.encrypted = l
  cases hs : s.authorizer with
  | none =>
    have : s.authorizedFor cmd sess.user = true := by unfold Server.authorizedFor; rw [hs]
    rw [this]; cases l <;> cases authorizedNow <;> rfl
  | some a =>
    rw [← hA a hs]; cases l <;> cases authorizedNow <;> rfl

theorem nil_session_refused_gen (l h a : Bool) : (Decisions.sessionSatisfies true l h a).ret = 1 := by
  cases l <;> cases h <;> cases a <;> rfl

end Cedar.Tie
