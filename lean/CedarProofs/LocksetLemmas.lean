/-
  Helper lemmas for C17, parts 1-3: Eraser soundness over the trace semantics, lifting of the
  per-method fact table to arbitrary threads of method calls, the cache as a sequential object,
  and the configuration cell.
-/
import CedarModel.Lockset

namespace Cedar.Lockset

set_option linter.unusedSectionVars false
set_option linter.unusedSimpArgs false

section generic
variable {L V : Type} [DecidableEq L]

/-! ### lock sets -/

theorem LM.get_del_self (m : LM L) (l : L) : (m.del l).get l = .none := by
  induction m with
  | nil => rfl
  | cons p t ih =>
    obtain ⟨k, v⟩ := p
    by_cases h : k = l
    · simp [LM.del, h, ih]
    · simp [LM.del, LM.get, h, ih]

theorem LM.get_del_ne (m : LM L) (l l' : L) (h : l' ≠ l) : (m.del l).get l' = m.get l' := by
  induction m with
  | nil => rfl
  | cons p t ih =>
    obtain ⟨k, v⟩ := p
    by_cases hk : k = l
    · have : k ≠ l' := fun e => h (e ▸ hk.symm ▸ rfl)
      simp [LM.del, LM.get, hk, ih]
      intro e; exact absurd (e ▸ rfl : l' = l) h
    · by_cases hk' : k = l'
      · subst hk'; simp [LM.del, LM.get, hk]
      · simp [LM.del, LM.get, hk, hk', ih]

theorem get_localStep_acq (m : LM L) (l l' : L) :
    (localStep (V := V) m (.acq l)).get l' = if l' = l then .w else m.get l' := by
  by_cases h : l' = l
  · subst h; simp [localStep, LM.get]
  · have : l ≠ l' := fun e => h e.symm
    simp [localStep, LM.get, this, h, LM.get_del_ne m l l' h]

theorem get_localStep_racq (m : LM L) (l l' : L) :
    (localStep (V := V) m (.racq l)).get l' = if l' = l then .r else m.get l' := by
  by_cases h : l' = l
  · subst h; simp [localStep, LM.get]
  · have : l ≠ l' := fun e => h e.symm
    simp [localStep, LM.get, this, h, LM.get_del_ne m l l' h]

theorem get_localStep_rel (m : LM L) (l l' : L) :
    (localStep (V := V) m (.rel l)).get l' = if l' = l then .none else m.get l' := by
  by_cases h : l' = l
  · subst h; simp [localStep, LM.get_del_self]
  · simp [localStep, h, LM.get_del_ne m l l' h]

theorem get_localStep_rrel (m : LM L) (l l' : L) :
    (localStep (V := V) m (.rrel l)).get l' = if l' = l then .none else m.get l' := by
  by_cases h : l' = l
  · subst h; simp [localStep, LM.get_del_self]
  · simp [localStep, h, LM.get_del_ne m l l' h]

/-! ### scanning -/

theorem localHeld_append (m : LM L) (xs ys : List (Ev L V)) :
    localHeld m (xs ++ ys) = localHeld (localHeld m xs) ys := by
  simp [localHeld, List.foldl_append]

theorem scan_append (g : V → Option L) (m : LM L) (xs ys : List (Ev L V)) :
    scan g m (xs ++ ys) = (scan g m xs && scan g (localHeld m xs) ys) := by
  induction xs generalizing m with
  | nil => simp [scan, localHeld]
  | cons e es ih =>
    simp only [List.cons_append, scan, ih, localHeld, List.foldl_cons, Bool.and_assoc]

theorem scan_mid (g : V → Option L) (m : LM L) (xs ys : List (Ev L V)) (e : Ev L V)
    (h : scan g m (xs ++ e :: ys) = true) : okAccess g (localHeld m xs) e = true := by
  rw [scan_append] at h
  simp only [scan, Bool.and_eq_true] at h
  exact h.2.1

theorem scan_prefix (g : V → Option L) (m : LM L) (xs ys : List (Ev L V))
    (h : scan g m (xs ++ ys) = true) : scan g m xs = true := by
  rw [scan_append] at h
  simp only [Bool.and_eq_true] at h
  exact h.1

/-- bodies that obey the discipline and release what they take compose -/
theorem scan_flatten (g : V → Option L) (bodies : List (List (Ev L V)))
    (h : ∀ b ∈ bodies, scan g [] b = true ∧ localHeld [] b = []) :
    scan g [] bodies.flatten = true ∧ localHeld [] bodies.flatten = [] := by
  induction bodies with
  | nil => simp [scan, localHeld]
  | cons b bs ih =>
    have hb := h b (List.mem_cons_self ..)
    have hbs := ih (fun b' hb' => h b' (List.mem_cons_of_mem _ hb'))
    simp only [List.flatten_cons, scan_append, localHeld_append, hb.1, hb.2, hbs.1, hbs.2, Bool.and_self, and_self]

/-! ### the interleaved execution -/

def Excl (h : Held L) : Prop := ∀ t u l, h t l = .w → u ≠ t → h u l = .none

theorem Excl.init : Excl (Held.init : Held L) := by
  intro t u l h; simp [Held.init] at h

theorem Excl.step {h h' : Held L} {e : Nat × Ev L V} (hx : Excl h) (hs : Step h e h') : Excl h' := by
  cases hs with
  | @acq t l hfree =>
    intro a b l' ha hb
    simp only [Held.set] at ha ⊢
    by_cases c1 : a = t ∧ l' = l
    · obtain ⟨rfl, rfl⟩ := c1
      simp [hb, hfree b]
    · simp only [c1, if_false] at ha
      by_cases c2 : b = t ∧ l' = l
      · obtain ⟨rfl, rfl⟩ := c2
        rw [hfree a] at ha; cases ha
      · simp only [c2, if_false]; exact hx a b l' ha hb
  | @racq t l hnow hmine =>
    intro a b l' ha hb
    simp only [Held.set] at ha ⊢
    by_cases c1 : a = t ∧ l' = l
    · simp [c1] at ha
    · simp only [c1, if_false] at ha
      by_cases c2 : b = t ∧ l' = l
      · obtain ⟨rfl, rfl⟩ := c2
        exact absurd ha (hnow a)
      · simp only [c2, if_false]; exact hx a b l' ha hb
  | @rel t l hmine =>
    intro a b l' ha hb
    simp only [Held.set] at ha ⊢
    by_cases c1 : a = t ∧ l' = l
    · simp [c1] at ha
    · simp only [c1, if_false] at ha
      by_cases c2 : b = t ∧ l' = l
      · simp [c2]
      · simp only [c2, if_false]; exact hx a b l' ha hb
  | @rrel t l hmine =>
    intro a b l' ha hb
    simp only [Held.set] at ha ⊢
    by_cases c1 : a = t ∧ l' = l
    · simp [c1] at ha
    · simp only [c1, if_false] at ha
      by_cases c2 : b = t ∧ l' = l
      · simp [c2]
      · simp only [c2, if_false]; exact hx a b l' ha hb
  | rd => exact hx
  | wr => exact hx

theorem Excl.run {h h' : Held L} {r : List (Nat × Ev L V)} (hx : Excl h) (hr : Run h r h') : Excl h' := by
  induction hr with
  | nil => exact hx
  | cons hs _ ih => exact ih (hx.step hs)

theorem Run.split {h h' : Held L} (pre rest : List (Nat × Ev L V)) (hr : Run h (pre ++ rest) h') :
    ∃ hm, Run h pre hm ∧ Run hm rest h' := by
  induction pre generalizing h with
  | nil => exact ⟨h, .nil, hr⟩
  | cons e es ih =>
    cases hr with
    | cons hs hrest =>
      obtain ⟨hm, h1, h2⟩ := ih hrest
      exact ⟨hm, .cons hs h1, h2⟩

theorem proj_append (t : Nat) (xs ys : List (Nat × Ev L V)) : proj t (xs ++ ys) = proj t xs ++ proj t ys := by
  simp [proj, List.filter_append]

theorem proj_cons_self (t : Nat) (e : Ev L V) (r : List (Nat × Ev L V)) : proj t ((t, e) :: r) = e :: proj t r := by
  simp [proj, List.filter_cons]

theorem proj_cons_ne (t u : Nat) (e : Ev L V) (r : List (Nat × Ev L V)) (h : u ≠ t) : proj t ((u, e) :: r) = proj t r := by
  simp [proj, List.filter_cons, h]

/-- a thread's row of the global lock state is what its own events compute -/
theorem run_local {h h' : Held L} {r : List (Nat × Ev L V)} (hr : Run h r h') (t : Nat) (m : LM L)
    (hm : ∀ l, h t l = m.get l) : ∀ l, h' t l = (localHeld m (proj t r)).get l := by
  induction hr generalizing m with
  | nil => simpa [proj, localHeld] using hm
  | @cons h0 h1 h2 e es hs _ ih =>
    obtain ⟨u, ev⟩ := e
    by_cases hu : u = t
    · subst hu
      rw [proj_cons_self]
      simp only [localHeld, List.foldl_cons]
      apply ih
      intro l
      cases hs with
      | acq _ => rw [get_localStep_acq]; simp only [Held.set, true_and]; split <;> simp_all
      | racq _ _ => rw [get_localStep_racq]; simp only [Held.set, true_and]; split <;> simp_all
      | rel _ => rw [get_localStep_rel]; simp only [Held.set, true_and]; split <;> simp_all
      | rrel _ => rw [get_localStep_rrel]; simp only [Held.set, true_and]; split <;> simp_all
      | rd => simpa [localStep] using hm l
      | wr => simpa [localStep] using hm l
    · rw [proj_cons_ne _ _ _ _ hu]
      apply ih
      intro l
      have ht : ¬ (t = u) := fun e => hu e.symm
      cases hs with
      | acq _ => simp [Held.set, ht, hm l]
      | racq _ _ => simp [Held.set, ht, hm l]
      | rel _ => simp [Held.set, ht, hm l]
      | rrel _ => simp [Held.set, ht, hm l]
      | rd => exact hm l
      | wr => exact hm l

theorem step_access_same {h h' : Held L} {t : Nat} {e : Ev L V} (hs : Step h (t, e) h')
    (ha : (∃ x, e = .rd x) ∨ (∃ x, e = .wr x)) : h' = h := by
  cases hs with
  | acq _ => rcases ha with ⟨x, hx⟩ | ⟨x, hx⟩ <;> cases hx
  | racq _ _ => rcases ha with ⟨x, hx⟩ | ⟨x, hx⟩ <;> cases hx
  | rel _ => rcases ha with ⟨x, hx⟩ | ⟨x, hx⟩ <;> cases hx
  | rrel _ => rcases ha with ⟨x, hx⟩ | ⟨x, hx⟩ <;> cases hx
  | rd => rfl
  | wr => rfl

/-- **Eraser soundness.** If every thread's events pass the scan (each read is made holding the
    variable's guard, each write holding it exclusively, immutable variables never written), then
    no well-formed interleaving contains two conflicting accesses next to each other. -/
theorem lockset_sound_gen (g : V → Option L) (r : List (Nat × Ev L V)) (h : Held L)
    (hrun : Run Held.init r h) (hdisc : ∀ t, scan g [] (proj t r) = true) : ¬ HasRace r := by
  rintro ⟨pre, a, b, post, x, rfl, hne, hc⟩
  obtain ⟨hm, hpre, hrest⟩ := Run.split pre (a :: b :: post) hrun
  obtain ⟨ta, ea⟩ := a
  obtain ⟨tb, eb⟩ := b
  simp only at hne hc
  have hex : Excl hm := Excl.init.run hpre
  have hla : ∀ l, hm ta l = (localHeld [] (proj ta pre)).get l :=
    run_local hpre ta [] (fun l => by simp [Held.init, LM.get])
  have hlb : ∀ l, hm tb l = (localHeld [] (proj tb pre)).get l :=
    run_local hpre tb [] (fun l => by simp [Held.init, LM.get])
  -- the scan at the two accesses
  have hsa : okAccess g (localHeld [] (proj ta pre)) ea = true := by
    have := hdisc ta
    rw [proj_append, proj_cons_self] at this
    exact scan_mid g [] _ _ _ this
  have hsb : okAccess g (localHeld [] (proj tb pre)) eb = true := by
    have := hdisc tb
    rw [proj_append, proj_cons_ne _ _ _ _ hne, proj_cons_self] at this
    exact scan_mid g [] _ _ _ this
  rcases hc with ⟨rfl, hb⟩ | ⟨rfl, rfl⟩
  · -- a writes x
    simp only [okAccess] at hsa
    cases hg : g x with
    | none => simp [hg] at hsa
    | some l =>
      simp only [hg, beq_iff_eq] at hsa
      have hwa : hm ta l = .w := by rw [hla]; exact hsa
      have hnb : hm tb l = .none := hex ta tb l hwa (fun e => hne e.symm)
      rcases hb with rfl | rfl
      · simp only [okAccess, hg, beq_iff_eq] at hsb
        rw [← hlb, hnb] at hsb; cases hsb
      · simp only [okAccess, hg, bne_iff_ne, ne_eq] at hsb
        rw [← hlb] at hsb; exact hsb hnb
  · -- a reads x, b writes x
    simp only [okAccess] at hsa hsb
    cases hg : g x with
    | none => simp [hg] at hsb
    | some l =>
      simp only [hg, beq_iff_eq, bne_iff_ne, ne_eq] at hsa hsb
      have hwb : hm tb l = .w := by rw [hlb]; exact hsb
      have hna : hm ta l = .none := hex tb ta l hwb hne
      rw [← hla] at hsa; exact hsa hna

end generic

/-! ### from the fact table to threads of method calls -/

def mapLM (ρ : String → Nat) (m : LM String) : LM RL := m.map (fun p => ((p.1, ρ p.1), p.2))

theorem mapLM_get (ρ : String → Nat) (m : LM String) (ty : String) : (mapLM ρ m).get (ty, ρ ty) = m.get ty := by
  induction m with
  | nil => rfl
  | cons p t ih =>
    obtain ⟨k, v⟩ := p
    by_cases h : k = ty
    · subst h; simp [mapLM, LM.get]
    · have : ¬ ((k, ρ k) = (ty, ρ ty)) := fun e => h (Prod.mk.inj e).1
      simp only [mapLM, List.map_cons, LM.get, this, h, if_false]
      exact ih

theorem mapLM_del (ρ : String → Nat) (m : LM String) (ty : String) : (mapLM ρ m).del (ty, ρ ty) = mapLM ρ (m.del ty) := by
  induction m with
  | nil => rfl
  | cons p t ih =>
    obtain ⟨k, v⟩ := p
    by_cases h : k = ty
    · subst h
      simp only [mapLM, List.map_cons, LM.del, if_true]
      exact ih
    · have : ¬ ((k, ρ k) = (ty, ρ ty)) := fun e => h (Prod.mk.inj e).1
      simp only [mapLM, List.map_cons, LM.del, this, h, if_false, List.cons.injEq, true_and]
      exact ih

theorem localStep_inst (ρ : String → Nat) (m : LM String) (e : SEv) :
    localStep (mapLM ρ m) (instEv ρ e) = mapLM ρ (localStep m e) := by
  cases e with
  | acq ty => simp only [instEv, localStep, mapLM_del]; rfl
  | racq ty => simp only [instEv, localStep, mapLM_del]; rfl
  | rel ty => simp only [instEv, localStep, mapLM_del]
  | rrel ty => simp only [instEv, localStep, mapLM_del]
  | rd x => obtain ⟨ty, f⟩ := x; rfl
  | wr x => obtain ⟨ty, f⟩ := x; rfl

theorem fieldGuard_same (ty f ty' : String) (h : fieldGuard (ty, f) = some ty') : ty' = ty := by
  unfold fieldGuard at h
  split at h <;> simp_all

theorem okAccess_inst (ρ : String → Nat) (m : LM String) (e : SEv) (h : okAccess fieldGuard m e = true) :
    okAccess rtGuard (mapLM ρ m) (instEv ρ e) = true := by
  cases e with
  | acq ty => rfl
  | racq ty => rfl
  | rel ty => rfl
  | rrel ty => rfl
  | rd x =>
    obtain ⟨ty, f⟩ := x
    simp only [okAccess, instEv, rtGuard] at h ⊢
    cases hg : fieldGuard (ty, f) with
    | none => simp
    | some ty' =>
      have := fieldGuard_same ty f ty' hg
      subst this
      simp only [hg, Option.map_some] at h ⊢
      rw [mapLM_get]; exact h
  | wr x =>
    obtain ⟨ty, f⟩ := x
    simp only [okAccess, instEv, rtGuard] at h ⊢
    cases hg : fieldGuard (ty, f) with
    | none => simp [hg] at h
    | some ty' =>
      have := fieldGuard_same ty f ty' hg
      subst this
      simp only [hg, Option.map_some] at h ⊢
      rw [mapLM_get]; exact h

theorem scan_inst (ρ : String → Nat) (m : LM String) (b : List SEv) (h : scan fieldGuard m b = true) :
    scan rtGuard (mapLM ρ m) (b.map (instEv ρ)) = true ∧
    localHeld (mapLM ρ m) (b.map (instEv ρ)) = mapLM ρ (localHeld m b) := by
  induction b generalizing m with
  | nil => simp [scan, localHeld]
  | cons e es ih =>
    simp only [scan, Bool.and_eq_true] at h
    have := ih (localStep m e) h.2
    simp only [List.map_cons, scan, okAccess_inst ρ m e h.1, localStep_inst, this.1, Bool.and_self,
      localHeld, List.foldl_cons, true_and]
    simpa [localHeld] using this.2

theorem lookupBody_ok (tbl : List (String × List (String × String × String × String))) (htbl : tableOK tbl = true)
    (m : String) : bodyOK (lookupBody tbl m) = true := by
  unfold lookupBody
  cases hf : tbl.find? (fun p => p.1 == m) with
  | none => simp [bodyOK, scan, localHeld]
  | some p =>
    have hp : p ∈ tbl := List.mem_of_find?_eq_some hf
    simp only [tableOK, List.all_eq_true, Bool.and_eq_true] at htbl
    exact (htbl p hp).2

theorem callEvents_ok (tbl : List (String × List (String × String × String × String))) (htbl : tableOK tbl = true)
    (c : Call) : scan rtGuard [] (callEvents tbl c) = true ∧ localHeld [] (callEvents tbl c) = [] := by
  have hb := lookupBody_ok tbl htbl c.method
  simp only [bodyOK, Bool.and_eq_true, List.isEmpty_iff] at hb
  have := scan_inst c.objs [] (lookupBody tbl c.method) hb.1
  simp only [mapLM, List.map_nil] at this
  refine ⟨this.1, ?_⟩
  rw [callEvents, this.2, hb.2]; rfl

/-- Every thread runs an arbitrary sequence of calls of table methods on arbitrary objects (and
    may be stopped anywhere): no interleaving has a data race on any field of any cache or entry. -/
theorem table_race_free (tbl : List (String × List (String × String × String × String))) (htbl : tableOK tbl = true)
    (progs : Nat → List Call) (r : List (Nat × Ev RL RV)) (h : Held RL) (hrun : Run Held.init r h)
    (hprog : ∀ t, ∃ rest, proj t r ++ rest = ((progs t).map (callEvents tbl)).flatten) : ¬ HasRace r := by
  apply lockset_sound_gen rtGuard r h hrun
  intro t
  obtain ⟨rest, hrest⟩ := hprog t
  have := (scan_flatten rtGuard ((progs t).map (callEvents tbl)) (by
    intro b hb
    obtain ⟨c, _, rfl⟩ := List.mem_map.mp hb
    exact callEvents_ok tbl htbl c)).1
  rw [← hrest] at this
  exact scan_prefix rtGuard [] _ _ this

/-! ### the cache as a sequential object -/
namespace Lin

theorem mem_of_aget {l : List (Nat × Nat)} {k u : Nat} (h : aget l k = some u) : (k, u) ∈ l := by
  induction l with
  | nil => simp [aget] at h
  | cons p t ih =>
    obtain ⟨a, b⟩ := p
    by_cases ha : a = k
    · simp only [aget, ha, if_true, Option.some.injEq] at h
      subst ha; subst h; exact List.mem_cons_self ..
    · simp only [aget, ha, if_false] at h
      exact List.mem_cons_of_mem _ (ih h)

theorem aget_none_of_not_mem {l : List (Nat × Nat)} {k : Nat} (h : k ∉ l.map (·.1)) : aget l k = none := by
  cases hg : aget l k with
  | none => rfl
  | some u => exact absurd (List.mem_map.mpr ⟨(k, u), mem_of_aget hg, rfl⟩) h

theorem mem_adel {l : List (Nat × Nat)} {k : Nat} {p : Nat × Nat} (h : p ∈ adel l k) : p ∈ l ∧ p.1 ≠ k := by
  induction l with
  | nil => simp [adel] at h
  | cons q t ih =>
    obtain ⟨a, b⟩ := q
    by_cases ha : a = k
    · simp only [adel, ha, if_true] at h
      exact ⟨List.mem_cons_of_mem _ (ih h).1, (ih h).2⟩
    · simp only [adel, ha, if_false, List.mem_cons] at h
      rcases h with rfl | h
      · exact ⟨List.mem_cons_self .., ha⟩
      · exact ⟨List.mem_cons_of_mem _ (ih h).1, (ih h).2⟩

/-- entries are filed under their own session id -/
def WF (info : Nat → EntInfo) (c : CC) : Prop := ∀ p ∈ c.sessions, (info p.2).key = p.1

/-- `k` is not a session id of the cache -/
def Absent (c : CC) (k : Nat) : Prop := k ∉ c.sessions.map (·.1)

theorem wf_empty (info : Nat → EntInfo) : WF info {} := by intro p hp; cases hp

/-- an operation that is not a `Store` of an entry with id `k` keeps `k` out, keeps the cache
    well-formed, and its result does not name `k` -/
theorem apply_absent (info : Nat → EntInfo) (c : CC) (k : Nat) (o : Op) (hw : WF info c) (ha : Absent c k)
    (ho : ∀ u, o = .store u → (info u).key ≠ k) :
    WF info (apply info c o).1 ∧ Absent (apply info c o).1 k ∧ (apply info c o).2.names info k = false := by
  cases o with
  | store u =>
    have hk := ho u rfl
    refine ⟨?_, ?_, rfl⟩
    · intro p hp
      simp only [apply, List.mem_cons] at hp
      rcases hp with rfl | hp
      · rfl
      · exact hw p (mem_adel hp).1
    · intro hm
      simp only [apply, List.map_cons, List.mem_cons] at hm
      rcases hm with e | hm
      · exact hk e.symm
      · obtain ⟨p, hp, rfl⟩ := List.mem_map.mp hm
        exact ha (List.mem_map.mpr ⟨p, (mem_adel hp).1, rfl⟩)
  | lookup k' =>
    simp only [apply]
    cases hg : aget c.sessions k' with
    | none => exact ⟨hw, ha, rfl⟩
    | some u =>
      refine ⟨hw, ha, ?_⟩
      have hm := mem_of_aget hg
      have hkey := hw _ hm
      by_cases he : expired info u
      · simp [he, Res.names]
      · simp only [he, Res.names, beq_eq_false_iff_ne, ne_eq, Bool.false_eq_true, if_false]
        intro e
        exact ha (List.mem_map.mpr ⟨(k', u), hm, by simpa [hkey] using e⟩)
  | lookupNE k' =>
    simp only [apply]
    cases hg : aget c.sessions k' with
    | none => exact ⟨hw, ha, rfl⟩
    | some u =>
      have hm := mem_of_aget hg
      have hkey := hw _ hm
      by_cases he : expired info u
      · simp only [he, if_true]
        refine ⟨fun p hp => hw p (mem_adel hp).1, ?_, rfl⟩
        intro hmm
        obtain ⟨p, hp, rfl⟩ := List.mem_map.mp hmm
        exact ha (List.mem_map.mpr ⟨p, (mem_adel hp).1, rfl⟩)
      · simp only [he, Bool.false_eq_true, if_false]
        refine ⟨hw, ha, ?_⟩
        simp only [Res.names, beq_eq_false_iff_ne, ne_eq]
        intro e
        exact ha (List.mem_map.mpr ⟨(k', u), hm, by simpa [hkey] using e⟩)
  | byCmd ck =>
    cases hc : aget c.cmds ck with
    | none => simp only [apply, hc]; exact ⟨hw, ha, rfl⟩
    | some k' =>
      cases hg : aget c.sessions k' with
      | none => simp only [apply, hc, hg]; exact ⟨hw, ha, rfl⟩
      | some u =>
        simp only [apply, hc, hg]
        refine ⟨hw, ha, ?_⟩
        have hm := mem_of_aget hg
        have hkey := hw _ hm
        by_cases he : expired info u
        · simp [he, Res.names]
        · simp only [he, Res.names, beq_eq_false_iff_ne, ne_eq, Bool.false_eq_true, if_false]
          intro e
          exact ha (List.mem_map.mpr ⟨(k', u), hm, by simpa [hkey] using e⟩)
  | mapCmd ck k' => exact ⟨hw, ha, rfl⟩
  | invalidate k' =>
    simp only [apply]
    refine ⟨fun p hp => hw p (mem_adel hp).1, ?_, rfl⟩
    intro hmm
    obtain ⟨p, hp, rfl⟩ := List.mem_map.mp hmm
    exact ha (List.mem_map.mpr ⟨p, (mem_adel hp).1, rfl⟩)
  | gc =>
    refine ⟨fun p hp => hw p (List.mem_filter.mp hp).1, ?_, rfl⟩
    intro hmm
    obtain ⟨p, hp, rfl⟩ := List.mem_map.mp hmm
    exact ha (List.mem_map.mpr ⟨p, (List.mem_filter.mp hp).1, rfl⟩)
  | clear => exact ⟨wf_empty info, by simp [Absent, apply], rfl⟩
  | size => exact ⟨hw, ha, rfl⟩
  | snapshot => exact ⟨hw, ha, rfl⟩
  | dump => exact ⟨hw, ha, rfl⟩

theorem apply_wf (info : Nat → EntInfo) (c : CC) (o : Op) (hw : WF info c) : WF info (apply info c o).1 := by
  cases o with
  | store u =>
    intro p hp
    simp only [apply, List.mem_cons] at hp
    rcases hp with rfl | hp
    · rfl
    · exact hw p (mem_adel hp).1
  | lookup k' => simp only [apply]; split <;> exact hw
  | lookupNE k' =>
    simp only [apply]
    split
    · exact hw
    · split
      · exact fun p hp => hw p (mem_adel hp).1
      · exact hw
  | byCmd ck =>
    cases hc : aget c.cmds ck with
    | none => simp only [apply, hc]; exact hw
    | some k' =>
      cases hg : aget c.sessions k' with
      | none => simp only [apply, hc, hg]; exact hw
      | some u => simp only [apply, hc, hg]; exact hw
  | mapCmd ck k' => exact hw
  | invalidate k' =>
    simp only [apply]
    exact fun p hp => hw p (mem_adel hp).1
  | gc => exact fun p hp => hw p (List.mem_filter.mp hp).1
  | clear => exact wf_empty info
  | size => exact hw
  | snapshot => exact hw
  | dump => exact hw

theorem invalidate_absent (info : Nat → EntInfo) (c : CC) (k : Nat) : Absent (apply info c (.invalidate k)).1 k := by
  simp only [apply]
  intro hm
  obtain ⟨p, hp, hpk⟩ := List.mem_map.mp hm
  exact (mem_adel hp).2 hpk

theorem run_absent (info : Nat → EntInfo) (ops : List Op) (c : CC) (k : Nat) (hw : WF info c) (ha : Absent c k)
    (ho : ∀ o ∈ ops, ∀ u, o = .store u → (info u).key ≠ k) :
    Absent (run info c ops).1 k ∧ ∀ res ∈ (run info c ops).2, res.names info k = false := by
  induction ops generalizing c with
  | nil => exact ⟨ha, fun _ h => by cases h⟩
  | cons o os ih =>
    obtain ⟨h1, h2, h3⟩ := apply_absent info c k o hw ha (ho o (List.mem_cons_self ..))
    have := ih (apply info c o).1 h1 h2 (fun o' ho' => ho o' (List.mem_cons_of_mem _ ho'))
    simp only [run]
    refine ⟨this.1, ?_⟩
    intro res hres
    rcases List.mem_cons.mp hres with rfl | hres
    · exact h3
    · exact this.2 res hres

theorem aget_filter_live (info : Nat → EntInfo) (l : List (Nat × Nat)) (k u : Nat)
    (hg : aget l k = some u) (hx : expired info u = false) :
    aget (l.filter (fun p => !expired info p.2)) k = some u := by
  induction l with
  | nil => simp [aget] at hg
  | cons q t ih =>
    obtain ⟨a, b⟩ := q
    by_cases ha : a = k
    · subst ha
      simp only [aget, if_true] at hg
      injection hg with hg
      subst hg
      simp [List.filter, hx, aget]
    · simp only [aget, ha, if_false] at hg
      by_cases hb : expired info b = true
      · simp only [List.filter, hb, Bool.not_true]
        exact ih hg
      · have hb' : expired info b = false := by simpa using hb
        simp only [List.filter, hb', Bool.not_false, aget, ha, if_false]
        exact ih hg

/-- the expiry sweep leaves every mapping whose session is in the cache and has not expired -/
theorem sweep_keeps_live_route (info : Nat → EntInfo) (c : CC) (ck k u : Nat)
    (hm : (ck, k) ∈ c.cmds) (hg : aget c.sessions k = some u) (hx : expired info u = false) :
    (ck, k) ∈ (apply info c .gc).1.cmds ∧ aget (apply info c .gc).1.sessions k = some u := by
  simp only [apply]
  have := aget_filter_live info c.sessions k u hg hx
  exact ⟨List.mem_filter.mpr ⟨hm, by simp [this]⟩, this⟩

end Lin

namespace Mint

theorem run_adds (l : List Step) (h : onlyAdds l) (s : St) (hb : ∀ v ∈ s.out, v ≤ s.ctr) (hn : s.out.Nodup) :
    (∀ v ∈ (run s l).out, v ≤ (run s l).ctr) ∧ (run s l).out.Nodup := by
  induction l generalizing s with
  | nil => exact ⟨hb, hn⟩
  | cons x xs ih =>
    obtain ⟨t, rfl⟩ := h x (List.mem_cons_self ..)
    have h' : onlyAdds xs := fun y hy => h y (List.mem_cons_of_mem _ hy)
    simp only [run, List.foldl_cons]
    apply ih h'
    · intro v hv
      simp only [step, List.mem_cons] at hv ⊢
      rcases hv with rfl | hv
      · exact Nat.le_refl _
      · exact Nat.le_succ_of_le (hb v hv)
    · simp only [step]
      refine List.nodup_cons.mpr ⟨?_, hn⟩
      intro hm
      have := hb _ hm
      omega

end Mint

/-! ### the configuration cell -/
namespace Cfg

/-- with one configuration copy per connection: a handshake that took its first step has its own
    key in its own cell, one that took both advertised its own key -/
def Inv (s : St) : Prop :=
  ∀ i, (1 ≤ s.pc i → s.cell (i + 1) = some i) ∧ (2 ≤ s.pc i → s.sent i = some i)

theorem inv_init : Inv {} := by
  intro i; constructor <;> intro h <;> simp at h

theorem inv_step (s : St) (j : Nat) (h : Inv s) : Inv (step false s j) := by
  intro i
  unfold step
  by_cases h0 : s.pc j = 0
  · simp only [h0, if_true, cellOf, Bool.false_eq_true, if_false]
    by_cases hij : i = j
    · subst hij; simp [h0]
    · have hne : ¬ (i + 1 = j + 1) := fun e => hij (Nat.succ.inj e)
      simp only [hij, if_false, hne]
      exact h i
  · by_cases h1 : s.pc j = 1
    · rw [if_neg h0, if_pos h1]
      by_cases hij : i = j
      · subst hij
        have := (h i).1 (by omega)
        simp [cellOf, this]
      · have := h i
        simpa [hij] using this
    · rw [if_neg h0, if_neg h1]
      exact h i

theorem inv_run (sched : List Nat) (s : St) (h : Inv s) : Inv (runSched false s sched) := by
  induction sched generalizing s with
  | nil => exact h
  | cons j js ih => exact ih (step false s j) (inv_step s j h)

end Cfg

end Cedar.Lockset
