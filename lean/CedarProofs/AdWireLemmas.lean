/-
  Helper lemmas for C08 (ClassAd wire): the skipping receiver refines the reading receivers,
  expression by expression, loop by loop.
-/
import CedarProofs.SkipLemmas

namespace Cedar

theorem marker_ne_nil : marker ≠ [] := by decide

/-! ### converse direction at the typed layer: a skip that succeeds -/

theorem skipString_ok_cases (enc : Bool) (d d' : Dec) (h : d.skipString enc = .ok d') :
    (∃ s, d.getString enc = .ok (s, d')) ∨ d.getString enc = .error .malformed := by
  unfold Dec.skipString at h
  unfold Dec.getString
  cases enc with
  | false =>
    simp only [Bool.false_eq_true, if_false] at h ⊢
    rw [skipCStr_eq _ d []] at h
    cases hg : getCStr (d.total + 1) d [] with
    | error e => rw [hg] at h; cases h
    | ok p =>
      obtain ⟨s1, d1⟩ := p; rw [hg] at h; simp only at h ⊢
      injection h with h; subst h
      exact .inl ⟨s1, rfl⟩
  | true =>
    simp only [if_true] at h ⊢
    cases hg : d.getInt32 with
    | error e => rw [hg] at h; cases h
    | ok p =>
      obtain ⟨len, d1⟩ := p
      rw [hg] at h
      simp only at h ⊢
      by_cases hneg : len < 0
      · rw [if_pos hneg]; exact .inr rfl
      · rw [if_neg hneg]
        have hlen : len = ((len.toNat : Nat) : Int) := by omega
        rw [show d1.discard len = d1.discard ((len.toNat : Nat) : Int) from by rw [← hlen], discard_spec] at h
        cases he : d1.ensure len.toNat with
        | error e => rw [he] at h; cases h
        | ok d2 =>
          rw [he] at h
          simp only at h ⊢
          injection h with h; subst h
          left
          cases hd : d2.buf.take len.toNat with
          | nil => exact ⟨[], rfl⟩
          | cons c t =>
            simp only
            by_cases hc : c = binNullChar
            · rw [if_pos hc]; exact ⟨[], rfl⟩
            · rw [if_neg hc]; exact ⟨_, rfl⟩

theorem skipStringIs_ok_cases (enc : Bool) (want : Bytes) (d d' : Dec) (b : Bool)
    (h : d.skipStringIs enc want = .ok (b, d')) :
    (∃ s, d.getString enc = .ok (s, d')) ∨ d.getString enc = .error .malformed := by
  unfold Dec.skipStringIs at h
  unfold Dec.getString
  cases enc with
  | false =>
    simp only [Bool.false_eq_true, if_false] at h ⊢
    rw [skipCStrIs_eq want _ d [] true 0 (by simp [List.isPrefixOf]) (by simp)] at h
    cases hg : getCStr (d.total + 1) d [] with
    | error e => rw [hg] at h; cases h
    | ok p =>
      obtain ⟨s1, d1⟩ := p; rw [hg] at h; simp only at h ⊢
      injection h with h; injection h with _ h2; subst h2
      exact .inl ⟨s1, rfl⟩
  | true =>
    simp only [if_true] at h ⊢
    cases hg : d.getInt32 with
    | error e => rw [hg] at h; cases h
    | ok p =>
      obtain ⟨len, d1⟩ := p
      rw [hg] at h
      simp only at h ⊢
      by_cases hneg : len < 0
      · rw [if_pos hneg]; exact .inr rfl
      · rw [if_neg hneg]
        have hlen : len = ((len.toNat : Nat) : Int) := by omega
        have key : ∀ d2, d1.ensure len.toNat = .ok d2 → d' = { d2 with buf := d2.buf.drop len.toNat } →
            (∃ s, (match d1.ensure len.toNat with
              | .error e => (.error e : Except Err (Bytes × Dec))
              | .ok d2 =>
                match d2.buf.take len.toNat with
                | c :: _ => if c = binNullChar then .ok ([], { d2 with buf := d2.buf.drop len.toNat })
                            else .ok (stripTrailingNul (d2.buf.take len.toNat), { d2 with buf := d2.buf.drop len.toNat })
                | [] => .ok ([], { d2 with buf := d2.buf.drop len.toNat })) = .ok (s, d')) := by
          intro d2 he hd'
          rw [he, hd']
          simp only
          cases hd : d2.buf.take len.toNat with
          | nil => exact ⟨[], rfl⟩
          | cons c t =>
            simp only
            by_cases hc : c = binNullChar
            · rw [if_pos hc]; exact ⟨[], rfl⟩
            · rw [if_neg hc]; exact ⟨_, rfl⟩
        left
        by_cases hlw : len = (want.length : Int) ∨ len = (want.length : Int) + 1
        · rw [if_pos hlw] at h
          unfold Dec.getBytes at h
          by_cases hpos : len ≤ 0
          · -- len = 0: nothing is read
            rw [if_pos hpos] at h
            injection h with h; injection h with _ h2
            have h0 : len.toNat = 0 := by omega
            have := ensure_zero d1
            rw [← h0] at this
            apply key d1 this
            rw [← h2, h0]; simp [Dec.eta]
          · rw [if_neg hpos] at h
            cases he : d1.ensure len.toNat with
            | error e => rw [he] at h; cases h
            | ok d2 =>
              rw [he] at h; simp only at h
              injection h with h; injection h with _ h2
              have hk := key d2 he h2.symm
              rw [he] at hk; exact hk
        · rw [if_neg hlw] at h
          rw [show d1.discard len = d1.discard ((len.toNat : Nat) : Int) from by rw [← hlen], discard_spec] at h
          cases he : d1.ensure len.toNat with
          | error e => rw [he] at h; cases h
          | ok d2 =>
            rw [he] at h; simp only at h
            injection h with h; injection h with _ h2
            have hk := key d2 he h2.symm
            rw [he] at hk; exact hk

/-! ### receiver level -/

theorem skipStringIn_of_get (enc : Bool) (r : Rd) (s : Bytes) (r' : Rd)
    (h : r.getStringIn enc = .ok (s, r')) : r.skipStringIn enc = .ok r' := by
  unfold Rd.getStringIn at h
  unfold Rd.skipStringIn
  cases hg : r.d.getString enc with
  | error e => rw [hg] at h; cases h
  | ok p =>
    obtain ⟨s1, d1⟩ := p
    rw [hg] at h; simp only at h
    injection h with h; injection h with _ h2
    rw [skipString_of_getString enc r.d s1 d1 hg]
    simp only; rw [h2]

theorem get_of_skipStringIn_err (enc : Bool) (r : Rd) (e : Err)
    (h : r.skipStringIn enc = .error e) : r.getStringIn enc = .error e := by
  unfold Rd.skipStringIn at h
  unfold Rd.getStringIn
  cases hs : r.d.skipString enc with
  | ok d1 => rw [hs] at h; cases h
  | error e1 =>
    rw [hs] at h; simp only at h; injection h with h; subst h
    rw [getString_of_skipString_err enc r.d e1 hs]

theorem skipStringIn_ok_cases (enc : Bool) (r r' : Rd) (h : r.skipStringIn enc = .ok r') :
    (∃ s, r.getStringIn enc = .ok (s, r')) ∨ r.getStringIn enc = .error .malformed := by
  unfold Rd.skipStringIn at h
  unfold Rd.getStringIn
  cases hs : r.d.skipString enc with
  | error e => rw [hs] at h; cases h
  | ok d1 =>
    rw [hs] at h; simp only at h; injection h with h; subst h
    rcases skipString_ok_cases enc r.d d1 hs with ⟨s, hg⟩ | hg
    · left; exact ⟨s, by rw [hg]⟩
    · right; rw [hg]

theorem skipStringIsIn_of_get (enc : Bool) (want : Bytes) (hw : want ≠ []) (r : Rd) (s : Bytes) (r' : Rd)
    (h : r.getStringIn enc = .ok (s, r')) : r.skipStringIsIn enc want = .ok (s == want, r') := by
  unfold Rd.getStringIn at h
  unfold Rd.skipStringIsIn
  cases hg : r.d.getString enc with
  | error e => rw [hg] at h; cases h
  | ok p =>
    obtain ⟨s1, d1⟩ := p
    rw [hg] at h; simp only at h
    injection h with h; injection h with h1 h2
    rw [skipStringIs_of_getString enc want hw r.d s1 d1 hg]
    simp only; rw [h1, h2]

theorem get_of_skipStringIsIn_err (enc : Bool) (want : Bytes) (r : Rd) (e : Err)
    (h : r.skipStringIsIn enc want = .error e) : r.getStringIn enc = .error e := by
  unfold Rd.skipStringIsIn at h
  unfold Rd.getStringIn
  cases hs : r.d.skipStringIs enc want with
  | ok p => obtain ⟨b, d1⟩ := p; rw [hs] at h; cases h
  | error e1 =>
    rw [hs] at h; simp only at h; injection h with h; subst h
    rw [getString_of_skipStringIs_err enc want r.d e1 hs]

theorem skipStringIsIn_ok_cases (enc : Bool) (want : Bytes) (r r' : Rd) (b : Bool)
    (h : r.skipStringIsIn enc want = .ok (b, r')) :
    (∃ s, r.getStringIn enc = .ok (s, r')) ∨ r.getStringIn enc = .error .malformed := by
  unfold Rd.skipStringIsIn at h
  unfold Rd.getStringIn
  cases hs : r.d.skipStringIs enc want with
  | error e => rw [hs] at h; cases h
  | ok p =>
    obtain ⟨b1, d1⟩ := p
    rw [hs] at h; simp only at h; injection h with h; injection h with _ h2; subst h2
    rcases skipStringIs_ok_cases enc want r.d d1 b1 hs with ⟨s, hg⟩ | hg
    · left; exact ⟨s, by rw [hg]⟩
    · right; rw [hg]

/-- **one expression**: whatever GetClassAd / GetClassAdRaw read for one counted expression — a string,
    or the marker and the secret field behind it — SkipClassAdRaw skips, ending in the same state -/
theorem skipExpr_of_readExpr (r : Rd) (s : Bytes) (r' : Rd) (h : r.readExpr = .ok (s, r')) :
    r.skipExpr = .ok r' := by
  unfold Rd.readExpr Rd.getString at h
  unfold Rd.skipExpr
  cases hg : r.getStringIn r.mode with
  | error e => rw [hg] at h; cases h
  | ok p =>
    obtain ⟨s1, r1⟩ := p
    rw [hg] at h; simp only at h
    rw [skipStringIsIn_of_get r.mode marker marker_ne_nil r s1 r1 hg]
    by_cases hm : s1 = marker
    · rw [if_pos hm] at h
      have : (s1 == marker) = true := by simp [hm]
      rw [this]; simp only
      exact skipStringIn_of_get _ r1 s r' h
    · rw [if_neg hm] at h
      have : (s1 == marker) = false := by simp [hm]
      rw [this]; simp only
      injection h with h; injection h with _ h2; rw [h2]

theorem readExpr_of_skipExpr_err (r : Rd) (e : Err) (h : r.skipExpr = .error e) :
    r.readExpr = .error e ∨ r.readExpr = .error .malformed := by
  unfold Rd.skipExpr at h
  unfold Rd.readExpr Rd.getString
  cases hs : r.skipStringIsIn r.mode marker with
  | error e1 =>
    rw [hs] at h; simp only at h; injection h with h; subst h
    rw [get_of_skipStringIsIn_err r.mode marker r e1 hs]; exact .inl rfl
  | ok p =>
    obtain ⟨b, r1⟩ := p
    rw [hs] at h
    rcases skipStringIsIn_ok_cases r.mode marker r r1 b hs with ⟨s, hg⟩ | hg
    · have hb := skipStringIsIn_of_get r.mode marker marker_ne_nil r s r1 hg
      rw [hs] at hb; injection hb with hb; injection hb with hb _
      rw [hg]; simp only
      cases b with
      | true =>
        simp only at h
        have hm : s = marker := by
          have : (s == marker) = true := hb.symm
          simpa using this
        rw [if_pos hm]
        exact .inl (get_of_skipStringIn_err _ r1 e h)
      | false => simp only at h; cases h
    · rw [hg]; exact .inr rfl

theorem skipExpr_ok_cases (r r' : Rd) (h : r.skipExpr = .ok r') :
    (∃ s, r.readExpr = .ok (s, r')) ∨ r.readExpr = .error .malformed := by
  unfold Rd.skipExpr at h
  unfold Rd.readExpr Rd.getString
  cases hs : r.skipStringIsIn r.mode marker with
  | error e1 => rw [hs] at h; cases h
  | ok p =>
    obtain ⟨b, r1⟩ := p
    rw [hs] at h
    rcases skipStringIsIn_ok_cases r.mode marker r r1 b hs with ⟨s, hg⟩ | hg
    · have hb := skipStringIsIn_of_get r.mode marker marker_ne_nil r s r1 hg
      rw [hs] at hb; injection hb with hb; injection hb with hb _
      rw [hg]; simp only
      cases b with
      | true =>
        simp only at h
        have hm : s = marker := by
          have : (s == marker) = true := hb.symm
          simpa using this
        rw [if_pos hm]
        exact skipStringIn_ok_cases _ r1 r' h
      | false =>
        simp only at h
        injection h with h; subst h
        have hm : ¬ s = marker := by
          have : (s == marker) = false := hb.symm
          simpa using this
        rw [if_neg hm]
        exact .inl ⟨s, rfl⟩
    · right; rw [hg]

/-! ### the per-round guard -/

theorem readExpr_after_guard (r rg : Rd) (h : r.guard = .ok rg) : rg.readExpr = r.readExpr := by
  unfold Rd.guard at h
  cases h1 : r.d.ensure 1 with
  | error e => rw [h1] at h; cases h
  | ok d1 =>
    rw [h1] at h; simp only at h; injection h with h; subst h
    unfold Rd.readExpr Rd.getString Rd.getSecretString Rd.getStringIn Rd.secretMode
    simp only [getString_after_ensure _ r.d d1 h1]

theorem readExpr_of_guard_err (r : Rd) (e : Err) (h : r.guard = .error e) :
    r.readExpr = .error e ∨ (e = .eom ∧ ∃ r', r.readExpr = .ok ([], r')) := by
  unfold Rd.guard at h
  cases h1 : r.d.ensure 1 with
  | ok d1 => rw [h1] at h; cases h
  | error e1 =>
    rw [h1] at h; simp only at h; injection h with h; subst h
    unfold Rd.readExpr Rd.getString Rd.getStringIn
    rcases getString_of_ensure_err r.mode r.d e1 h1 with hg | ⟨he, d', hg⟩
    · rw [hg]; exact .inl rfl
    · rw [hg]; simp only
      have : ¬ (([] : Bytes) = marker) := by decide
      rw [if_neg this]
      exact .inr ⟨he, _, rfl⟩

theorem guard_err_class (r : Rd) (e : Err) (h : r.guard = .error e) : e = .eof ∨ e = .eom := by
  unfold Rd.guard at h
  cases h1 : r.d.ensure 1 with
  | ok d1 => rw [h1] at h; cases h
  | error e1 =>
    rw [h1] at h; simp only at h; injection h with h; subst h
    exact ensure_err_class r.d 1 e1 h1

theorem parseAndInsert_err (ferr pok : Bytes → Bool) (s : Bytes) (e : Err)
    (h : parseAndInsert ferr pok s = .error e) : e = .malformed := by
  unfold parseAndInsert at h
  split at h
  · injection h with h; exact h.symm
  · simp only at h
    split at h
    · injection h with h; exact h.symm
    · split at h
      · cases h
      · split at h
        · cases h
        · split at h
          · split at h
            · cases h
            · injection h with h; exact h.symm
          · injection h with h; exact h.symm

theorem parseAndInsert_nil (ferr pok : Bytes → Bool) : parseAndInsert ferr pok [] = .error .malformed := by
  simp [parseAndInsert, splitEq]

/-! ### loops -/

theorem skipLoop_of_rawLoop : ∀ (n : Nat) (r : Rd) (acc es : List Bytes) (r' : Rd),
    rawLoop n r acc = .ok (es, r') → skipLoop n r = .ok r' := by
  intro n
  induction n with
  | zero =>
    intro r acc es r' h
    simp only [rawLoop] at h
    injection h with h; injection h with _ h2
    simp [skipLoop, h2]
  | succ n ih =>
    intro r acc es r' h
    unfold rawLoop at h
    unfold skipLoop
    cases hgd : r.guard with
    | error e => rw [hgd] at h; cases h
    | ok rg =>
      rw [hgd] at h; simp only at h ⊢
      cases hr : rg.readExpr with
      | error e => rw [hr] at h; cases h
      | ok p =>
        obtain ⟨s, r1⟩ := p
        rw [hr] at h; simp only at h
        rw [skipExpr_of_readExpr rg s r1 hr]
        exact ih r1 _ es r' h

theorem rawLoop_of_skipLoop_err : ∀ (n : Nat) (r : Rd) (acc : List Bytes) (e : Err),
    skipLoop n r = .error e → rawLoop n r acc = .error e ∨ rawLoop n r acc = .error .malformed := by
  intro n
  induction n with
  | zero => intro r acc e h; simp [skipLoop] at h
  | succ n ih =>
    intro r acc e h
    unfold skipLoop at h
    unfold rawLoop
    cases hgd : r.guard with
    | error e1 => rw [hgd] at h; simp only at h ⊢; injection h with h; subst h; exact .inl rfl
    | ok rg =>
      rw [hgd] at h; simp only at h ⊢
      cases hs : rg.skipExpr with
      | error e1 =>
        rw [hs] at h; simp only at h; injection h with h; subst h
        rcases readExpr_of_skipExpr_err rg e1 hs with hr | hr
        · rw [hr]; exact .inl rfl
        · rw [hr]; exact .inr rfl
      | ok r1 =>
        rw [hs] at h; simp only at h
        rcases skipExpr_ok_cases rg r1 hs with ⟨s, hr⟩ | hr
        · rw [hr]; exact ih r1 _ e h
        · rw [hr]; exact .inr rfl

theorem rawLoop_of_skipLoop_ok : ∀ (n : Nat) (r : Rd) (acc : List Bytes) (r' : Rd),
    skipLoop n r = .ok r' → (∃ es, rawLoop n r acc = .ok (es, r')) ∨ rawLoop n r acc = .error .malformed := by
  intro n
  induction n with
  | zero =>
    intro r acc r' h
    simp only [skipLoop] at h; injection h with h; subst h
    exact .inl ⟨acc.reverse, rfl⟩
  | succ n ih =>
    intro r acc r' h
    unfold skipLoop at h
    unfold rawLoop
    cases hgd : r.guard with
    | error e1 => rw [hgd] at h; cases h
    | ok rg =>
      rw [hgd] at h; simp only at h ⊢
      cases hs : rg.skipExpr with
      | error e1 => rw [hs] at h; cases h
      | ok r1 =>
        rw [hs] at h; simp only at h
        rcases skipExpr_ok_cases rg r1 hs with ⟨s, hr⟩ | hr
        · rw [hr]; exact ih r1 _ r' h
        · rw [hr]; exact .inr rfl

/-- the parsing receiver has no per-round guard, but it cannot get past an exhausted message either:
    there GetString yields "" (plaintext) or fails (encrypted), and "" does not parse -/
theorem skipLoop_of_adLoop (ferr pok : Bytes → Bool) : ∀ (n : Nat) (r : Rd) (acc items : List Item) (r' : Rd),
    adLoop ferr pok n r acc = .ok (items, r') → skipLoop n r = .ok r' := by
  intro n
  induction n with
  | zero =>
    intro r acc items r' h
    simp only [adLoop] at h
    injection h with h; injection h with _ h2
    simp [skipLoop, h2]
  | succ n ih =>
    intro r acc items r' h
    unfold adLoop at h
    unfold skipLoop
    cases hr : r.readExpr with
    | error e => rw [hr] at h; cases h
    | ok p =>
      obtain ⟨s, r1⟩ := p
      rw [hr] at h; simp only at h
      cases hp : parseAndInsert ferr pok s with
      | error e => rw [hp] at h; cases h
      | ok it =>
        rw [hp] at h; simp only at h
        cases hgd : r.guard with
        | error e1 =>
          exfalso
          rcases readExpr_of_guard_err r e1 hgd with hx | ⟨_, r'', hx⟩
          · rw [hr] at hx; cases hx
          · rw [hr] at hx; injection hx with hx; injection hx with hx _
            subst hx; rw [parseAndInsert_nil] at hp; cases hp
        | ok rg =>
          simp only
          have hrg := readExpr_after_guard r rg hgd
          rw [skipExpr_of_readExpr rg s r1 (by rw [hrg]; exact hr)]
          exact ih r1 _ items r' h

theorem adLoop_of_skipLoop_err (ferr pok : Bytes → Bool) : ∀ (n : Nat) (r : Rd) (acc : List Item) (e : Err),
    skipLoop n r = .error e →
    adLoop ferr pok n r acc = .error e ∨ adLoop ferr pok n r acc = .error .malformed := by
  intro n
  induction n with
  | zero => intro r acc e h; simp [skipLoop] at h
  | succ n ih =>
    intro r acc e h
    unfold skipLoop at h
    unfold adLoop
    cases hgd : r.guard with
    | error e1 =>
      rw [hgd] at h; simp only at h; injection h with h; subst h
      rcases readExpr_of_guard_err r e1 hgd with hx | ⟨_, r'', hx⟩
      · rw [hx]; exact .inl rfl
      · rw [hx]; simp only; rw [parseAndInsert_nil]; exact .inr rfl
    | ok rg =>
      rw [hgd] at h; simp only at h
      rw [← readExpr_after_guard r rg hgd]
      cases hs : rg.skipExpr with
      | error e1 =>
        rw [hs] at h; simp only at h; injection h with h; subst h
        rcases readExpr_of_skipExpr_err rg e1 hs with hr | hr
        · rw [hr]; exact .inl rfl
        · rw [hr]; exact .inr rfl
      | ok r1 =>
        rw [hs] at h; simp only at h
        rcases skipExpr_ok_cases rg r1 hs with ⟨s, hr⟩ | hr
        · rw [hr]; simp only
          cases hp : parseAndInsert ferr pok s with
          | error e2 => rw [parseAndInsert_err ferr pok s e2 hp]; exact .inr rfl
          | ok it => exact ih r1 _ e h
        · rw [hr]; exact .inr rfl

/-- when every expression string can be read, the parsing receiver can only stop on a parse failure -/
theorem adLoop_err_of_rawLoop_ok (ferr pok : Bytes → Bool) : ∀ (n : Nat) (r1 : Rd) (acc : List Item) (racc es : List Bytes) (r2 : Rd) (e2 : Err),
    rawLoop n r1 racc = .ok (es, r2) → adLoop ferr pok n r1 acc = .error e2 → e2 = .malformed := by
  intro n
  induction n with
  | zero => intro r1 acc racc es r2 e2 _ h2; simp [adLoop] at h2
  | succ n ih =>
    intro r1 acc racc es r2 e2 h1 h2
    unfold rawLoop at h1
    unfold adLoop at h2
    cases hgd : r1.guard with
    | error e3 => rw [hgd] at h1; cases h1
    | ok rg =>
      rw [hgd] at h1; simp only at h1
      rw [← readExpr_after_guard r1 rg hgd] at h2
      cases hx : rg.readExpr with
      | error e3 => rw [hx] at h1; cases h1
      | ok q =>
        obtain ⟨s, r1'⟩ := q
        rw [hx] at h1 h2; simp only at h1 h2
        cases hp : parseAndInsert ferr pok s with
        | error e4 => rw [hp] at h2; simp only at h2; injection h2 with h2; rw [← h2]; exact parseAndInsert_err ferr pok s e4 hp
        | ok it => rw [hp] at h2; exact ih r1' _ _ es r2 e2 h1 h2

theorem adLoop_err_of_rawLoop_malformed (ferr pok : Bytes → Bool) : ∀ (n : Nat) (r1 : Rd) (acc : List Item) (racc : List Bytes) (e2 : Err),
    rawLoop n r1 racc = .error .malformed → adLoop ferr pok n r1 acc = .error e2 → e2 = .malformed := by
  intro n
  induction n with
  | zero => intro r1 acc racc e2 h1 _; simp [rawLoop] at h1
  | succ n ih =>
    intro r1 acc racc e2 h1 h2
    unfold rawLoop at h1
    unfold adLoop at h2
    cases hgd : r1.guard with
    | error e3 =>
      rw [hgd] at h1; simp only at h1; injection h1 with h1; subst h1
      rcases guard_err_class r1 _ hgd with hc | hc <;> cases hc
    | ok rg =>
      rw [hgd] at h1; simp only at h1
      rw [← readExpr_after_guard r1 rg hgd] at h2
      cases hx : rg.readExpr with
      | error e3 =>
        rw [hx] at h1 h2; simp only at h1 h2
        injection h1 with h1; injection h2 with h2; rw [← h2, h1]
      | ok q =>
        obtain ⟨s, r1'⟩ := q
        rw [hx] at h1 h2; simp only at h1 h2
        cases hp : parseAndInsert ferr pok s with
        | error e4 => rw [hp] at h2; simp only at h2; injection h2 with h2; rw [← h2]; exact parseAndInsert_err ferr pok s e4 hp
        | ok it => rw [hp] at h2; exact ih r1' _ _ e2 h1 h2

/-! ### whole receivers -/

theorem skipAd_of_getRaw (r : Rd) (ad : RawAd) (r' : Rd) (h : r.getRaw = .ok (ad, r')) : r.skipAd = .ok r' := by
  unfold Rd.getRaw at h
  unfold Rd.skipAd
  cases hi : r.getInt with
  | error e => rw [hi] at h; cases h
  | ok p =>
    obtain ⟨n, r1⟩ := p
    rw [hi] at h; simp only at h ⊢
    unfold Rd.getRawBody at h
    cases hl : rawLoop n.toNat r1 [] with
    | error e => rw [hl] at h; cases h
    | ok q =>
      obtain ⟨es, r2⟩ := q
      rw [hl] at h; simp only at h
      rw [skipLoop_of_rawLoop n.toNat r1 [] es r2 hl]; simp only
      unfold Rd.getString at h
      unfold Rd.skipString
      cases h3 : r2.getStringIn r2.mode with
      | error e => rw [h3] at h; cases h
      | ok q3 =>
        obtain ⟨my, r3⟩ := q3
        rw [h3] at h; simp only at h
        rw [skipStringIn_of_get _ r2 my r3 h3]; simp only
        split at h
        · cases h
        · cases h4 : r3.getStringIn r3.mode with
          | error e => rw [h4] at h; cases h
          | ok q4 =>
            obtain ⟨tg, r4⟩ := q4
            rw [h4] at h; simp only at h
            rw [skipStringIn_of_get _ r3 tg r4 h4]
            split at h
            · cases h
            · injection h with h; injection h with _ h2; rw [h2]

theorem skipAd_of_getAd (ferr pok : Bytes → Bool) (r : Rd) (items : List Item) (r' : Rd)
    (h : r.getAd ferr pok = .ok (items, r')) : r.skipAd = .ok r' := by
  unfold Rd.getAd at h
  unfold Rd.skipAd
  cases hi : r.getInt with
  | error e => rw [hi] at h; cases h
  | ok p =>
    obtain ⟨n, r1⟩ := p
    rw [hi] at h; simp only at h ⊢
    cases hl : adLoop ferr pok n.toNat r1 [] with
    | error e => rw [hl] at h; cases h
    | ok q =>
      obtain ⟨its, r2⟩ := q
      rw [hl] at h; simp only at h
      rw [skipLoop_of_adLoop ferr pok n.toNat r1 [] its r2 hl]; simp only
      unfold Rd.getString at h
      unfold Rd.skipString
      cases h3 : r2.getStringIn r2.mode with
      | error e => rw [h3] at h; cases h
      | ok q3 =>
        obtain ⟨my, r3⟩ := q3
        rw [h3] at h; simp only at h
        rw [skipStringIn_of_get _ r2 my r3 h3]; simp only
        cases h4 : r3.getStringIn r3.mode with
        | error e => rw [h4] at h; cases h
        | ok q4 =>
          obtain ⟨tg, r4⟩ := q4
          rw [h4] at h; simp only at h
          rw [skipStringIn_of_get _ r3 tg r4 h4]
          injection h with h; injection h with _ h2; rw [h2]

/-- the two type-name reads against their skips, when the skips fail -/
theorem types_err (r2 : Rd) (e : Err)
    (h : (match r2.skipString with | .error e => (.error e : Except Err Rd) | .ok r3 => r3.skipString) = .error e) :
    (r2.getString = .error e ∨ r2.getString = .error .malformed) ∨
    (∃ my r3, r2.getString = .ok (my, r3) ∧ (r3.getString = .error e ∨ r3.getString = .error .malformed)) := by
  unfold Rd.skipString at h
  unfold Rd.getString
  cases h3 : r2.skipStringIn r2.mode with
  | error e3 =>
    rw [h3] at h; simp only at h; injection h with h; subst h
    exact .inl (.inl (get_of_skipStringIn_err _ r2 e3 h3))
  | ok r3 =>
    rw [h3] at h; simp only at h
    rcases skipStringIn_ok_cases _ r2 r3 h3 with ⟨my, hg⟩ | hg
    · exact .inr ⟨my, r3, hg, .inl (get_of_skipStringIn_err _ r3 e h)⟩
    · exact .inl (.inr hg)

/-- the two type-name reads against their skips, when the skips succeed -/
theorem types_ok (r2 r' : Rd)
    (h : (match r2.skipString with | .error e => (.error e : Except Err Rd) | .ok r3 => r3.skipString) = .ok r') :
    r2.getString = .error .malformed ∨
    (∃ my r3, r2.getString = .ok (my, r3) ∧ (r3.getString = .error .malformed ∨ ∃ tg, r3.getString = .ok (tg, r'))) := by
  unfold Rd.skipString at h
  unfold Rd.getString
  cases h3 : r2.skipStringIn r2.mode with
  | error e3 => rw [h3] at h; cases h
  | ok r3 =>
    rw [h3] at h; simp only at h
    rcases skipStringIn_ok_cases _ r2 r3 h3 with ⟨my, hg⟩ | hg
    · right
      refine ⟨my, r3, hg, ?_⟩
      rcases skipStringIn_ok_cases _ r3 r' h with ⟨tg, hg4⟩ | hg4
      · exact .inr ⟨tg, hg4⟩
      · exact .inl hg4
    · exact .inl hg

theorem getRaw_of_skipAd_err (r : Rd) (e : Err) (h : r.skipAd = .error e) :
    r.getRaw = .error e ∨ r.getRaw = .error .malformed := by
  unfold Rd.skipAd at h
  unfold Rd.getRaw
  cases hi : r.getInt with
  | error e1 => rw [hi] at h; simp only at h ⊢; injection h with h; subst h; exact .inl rfl
  | ok p =>
    obtain ⟨n, r1⟩ := p
    rw [hi] at h; simp only at h ⊢
    unfold Rd.getRawBody
    cases hl : skipLoop n.toNat r1 with
    | error e1 =>
      rw [hl] at h; simp only at h; injection h with h; subst h
      rcases rawLoop_of_skipLoop_err n.toNat r1 [] e1 hl with hr | hr
      · rw [hr]; exact .inl rfl
      · rw [hr]; exact .inr rfl
    | ok r2 =>
      rw [hl] at h; simp only at h
      rcases rawLoop_of_skipLoop_ok n.toNat r1 [] r2 hl with ⟨es, hr⟩ | hr
      · rw [hr]; simp only
        rcases types_err r2 e h with (hg | hg) | ⟨my, r3, hg, hg4⟩
        · rw [hg]; exact .inl rfl
        · rw [hg]; exact .inr rfl
        · rw [hg]; simp only
          split
          · exact .inr rfl
          · rcases hg4 with hg4 | hg4
            · rw [hg4]; exact .inl rfl
            · rw [hg4]; exact .inr rfl
      · rw [hr]; exact .inr rfl

theorem getAd_of_skipAd_err (ferr pok : Bytes → Bool) (r : Rd) (e : Err) (h : r.skipAd = .error e) :
    r.getAd ferr pok = .error e ∨ r.getAd ferr pok = .error .malformed := by
  unfold Rd.skipAd at h
  unfold Rd.getAd
  cases hi : r.getInt with
  | error e1 => rw [hi] at h; simp only at h ⊢; injection h with h; subst h; exact .inl rfl
  | ok p =>
    obtain ⟨n, r1⟩ := p
    rw [hi] at h; simp only at h ⊢
    cases hl : skipLoop n.toNat r1 with
    | error e1 =>
      rw [hl] at h; simp only at h; injection h with h; subst h
      rcases adLoop_of_skipLoop_err ferr pok n.toNat r1 [] e1 hl with hr | hr
      · rw [hr]; exact .inl rfl
      · rw [hr]; exact .inr rfl
    | ok r2 =>
      rw [hl] at h; simp only at h
      cases ha : adLoop ferr pok n.toNat r1 [] with
      | error e2 =>
        simp only
        rcases rawLoop_of_skipLoop_ok n.toNat r1 [] r2 hl with ⟨es, hr⟩ | hr
        · rw [adLoop_err_of_rawLoop_ok ferr pok n.toNat r1 [] [] es r2 e2 hr ha]; exact .inr rfl
        · rw [adLoop_err_of_rawLoop_malformed ferr pok n.toNat r1 [] [] e2 hr ha]; exact .inr rfl
      | ok q =>
        obtain ⟨its, r2'⟩ := q
        simp only
        have hsk := skipLoop_of_adLoop ferr pok n.toNat r1 [] its r2' ha
        rw [hl] at hsk; injection hsk with hsk; subst hsk
        rcases types_err r2 e h with (hg | hg) | ⟨my, r3, hg, hg4⟩
        · rw [hg]; exact .inl rfl
        · rw [hg]; exact .inr rfl
        · rw [hg]; simp only
          rcases hg4 with hg4 | hg4
          · rw [hg4]; exact .inl rfl
          · rw [hg4]; exact .inr rfl

theorem getRaw_err_of_skipAd_ok (r r' : Rd) (e : Err) (hs : r.skipAd = .ok r') (h : r.getRaw = .error e) :
    e = .malformed := by
  unfold Rd.skipAd at hs
  unfold Rd.getRaw at h
  cases hi : r.getInt with
  | error e2 => rw [hi] at hs; cases hs
  | ok p =>
    obtain ⟨n, r1⟩ := p
    rw [hi] at hs h; simp only at hs h
    unfold Rd.getRawBody at h
    cases hl : skipLoop n.toNat r1 with
    | error e2 => rw [hl] at hs; cases hs
    | ok r2 =>
      rw [hl] at hs; simp only at hs
      rcases rawLoop_of_skipLoop_ok n.toNat r1 [] r2 hl with ⟨es, hr⟩ | hr
      · rw [hr] at h; simp only at h
        rcases types_ok r2 r' hs with hg | ⟨my, r3, hg, hg4⟩
        · rw [hg] at h; simp only at h; injection h with h; exact h.symm
        · rw [hg] at h; simp only at h
          split at h
          · injection h with h; exact h.symm
          · rcases hg4 with hg4 | ⟨tg, hg4⟩
            · rw [hg4] at h; simp only at h; injection h with h; exact h.symm
            · rw [hg4] at h; simp only at h
              split at h
              · injection h with h; exact h.symm
              · cases h
      · rw [hr] at h; simp only at h; injection h with h; exact h.symm

theorem getAd_err_of_skipAd_ok (ferr pok : Bytes → Bool) (r r' : Rd) (e : Err) (hs : r.skipAd = .ok r')
    (h : r.getAd ferr pok = .error e) : e = .malformed := by
  unfold Rd.skipAd at hs
  unfold Rd.getAd at h
  cases hi : r.getInt with
  | error e2 => rw [hi] at hs; cases hs
  | ok p =>
    obtain ⟨n, r1⟩ := p
    rw [hi] at hs h; simp only at hs h
    cases hl : skipLoop n.toNat r1 with
    | error e2 => rw [hl] at hs; cases hs
    | ok r2 =>
      rw [hl] at hs; simp only at hs
      cases ha : adLoop ferr pok n.toNat r1 [] with
      | error e2 =>
        rw [ha] at h; simp only at h; injection h with h; subst h
        rcases rawLoop_of_skipLoop_ok n.toNat r1 [] r2 hl with ⟨es, hr⟩ | hr
        · exact adLoop_err_of_rawLoop_ok ferr pok n.toNat r1 [] [] es r2 e2 hr ha
        · exact adLoop_err_of_rawLoop_malformed ferr pok n.toNat r1 [] [] e2 hr ha
      | ok q =>
        obtain ⟨its, r2'⟩ := q
        rw [ha] at h; simp only at h
        have hsk := skipLoop_of_adLoop ferr pok n.toNat r1 [] its r2' ha
        rw [hl] at hsk; injection hsk with hsk; subst hsk
        rcases types_ok r2 r' hs with hg | ⟨my, r3, hg, hg4⟩
        · rw [hg] at h; simp only at h; injection h with h; exact h.symm
        · rw [hg] at h; simp only at h
          rcases hg4 with hg4 | ⟨tg, hg4⟩
          · rw [hg4] at h; simp only at h; injection h with h; exact h.symm
          · rw [hg4] at h; cases h

end Cedar
