/-
  Helper lemmas for C02 on the typed layer's receive path: `Message.ensureData` /
  `GetRemainingBytes` read frames with `ReceiveFrameWithEnd` and treat EVERY non-zero end flag
  (1..10) as end-of-message (`Stream.recvRestAux`, CedarModel/Session.lean). Same adversary and
  proof shape as `recvComplete_spec` / `deliver_prefix` (CedarProofs/Prefix.lean).
-/
import CedarProofs.Prefix

namespace Cedar

/-- reference semantics as the typed layer reads it: a message ends at the first frame whose end
    flag is non-zero -/
def messagesOfT (acc : Bytes) : List SendOp → List Bytes
  | [] => []
  | (d, fl) :: rest =>
    if fl ≠ 0 then (acc ++ d) :: messagesOfT [] rest else messagesOfT (acc ++ d) rest

/-- for the flags the sending API produces (0 / 1) the two readings coincide -/
theorem messagesOfT_eq : ∀ (ops : List SendOp) (acc : Bytes), (∀ op ∈ ops, op.2 ≤ 1) →
    messagesOfT acc ops = messagesOf acc ops := by
  intro ops
  induction ops with
  | nil => intro acc _; rfl
  | cons op rest ih =>
    intro acc h
    obtain ⟨d, fl⟩ := op
    have hfl : fl ≤ 1 := h (d, fl) (List.mem_cons_self ..)
    have hr : ∀ op ∈ rest, op.2 ≤ 1 := fun o ho => h o (List.mem_cons_of_mem _ ho)
    unfold messagesOfT messagesOf
    by_cases h1 : fl = 1
    · simp [h1, ih [] hr]
    · have h0 : fl = 0 := by omega
      simp [h0, ih _ hr]

/-- the application loop over the typed layer: `GetRemainingBytes` on a fresh inbound message until
    the first error; what it was handed -/
def Stream.deliverRestFuel : Nat → Stream → List WireFrame → List Bytes
  | 0, _, _ => []
  | n + 1, r, w =>
    match r.recvRestAux [] w with
    | .error _ => []
    | .ok (r', msg, w') => msg :: Stream.deliverRestFuel n r' w'

/-- the typed frame loop under attack: if it returns a message, the receiver consumed a run of
    consecutive honest frames ending in the first one with a non-zero flag, and the message is their
    concatenation -/
theorem recvRest_spec {k iv dg ownIV c0 items}
    (hiv : iv.w0 < 2^32) (hlim : c0 + items.length ≤ counterLimit) :
    ∀ (w : List WireFrame) (r : Stream) (m : Nat) (acc : Bytes) r' msg w',
      m ≤ items.length → RecvInv r k iv c0 m → (c0 + m = 0 → r.encIV = ownIV ∧ ownIV.w0 < 2^32) →
      (∀ g ∈ w, AdvFrame k iv dg ownIV c0 items g) →
      r.recvRestAux acc w = .ok (r', msg, w') →
      ∃ m', m < m' ∧ m' ≤ items.length ∧ RecvInv r' k iv c0 m' ∧ (∀ g ∈ w', AdvFrame k iv dg ownIV c0 items g) ∧
        messagesOfT acc ((items.drop m).map Item.op) = msg :: messagesOfT [] ((items.drop m').map Item.op) := by
  intro w
  induction w with
  | nil => intro r m acc r' msg w' _ _ _ _ h; simp [Stream.recvRestAux] at h
  | cons g w ih =>
    intro r m acc r' msg w' hm hr hdg hadv h
    unfold Stream.recvRestAux at h
    split at h
    · cases h
    · rename_i s1 d fl hrecv
      obtain ⟨it, hit, hfl, hd, hr1⟩ :=
        recv_accepts_only_next hiv hlim hm hr hdg (hadv g (List.mem_cons_self ..)) hrecv
      have hml : m < items.length := (List.getElem?_eq_some_iff.mp hit).1
      have hdrop : items.drop m = it :: items.drop (m + 1) := by
        rw [List.drop_eq_getElem_cons hml]
        congr 1
        exact (List.getElem?_eq_some_iff.mp hit).2
      by_cases h0 : fl ≠ 0
      · rw [if_pos h0] at h
        simp only [Except.ok.injEq, Prod.mk.injEq] at h
        obtain ⟨rfl, rfl, rfl⟩ := h
        refine ⟨m + 1, by omega, by omega, hr1, fun g hg => hadv g (List.mem_cons_of_mem _ hg), ?_⟩
        rw [hdrop]
        have : it.flag ≠ 0 := by rw [← hfl]; exact h0
        simp [messagesOfT, Item.op, this, hd]
      · rw [if_neg h0] at h
        obtain ⟨m', hm1, hm2, hr', hadv', hmsg⟩ :=
          ih s1 (m + 1) (acc ++ d) r' msg w' (by omega) hr1 (fun h => by omega)
            (fun g hg => hadv g (List.mem_cons_of_mem _ hg)) h
        refine ⟨m', by omega, hm2, hr', hadv', ?_⟩
        rw [hdrop]
        have : it.flag = 0 := by rw [← hfl]; simpa using h0
        simp only [List.map_cons, messagesOfT, Item.op, this, ne_eq, not_true_eq_false, if_false, ← hd]
        exact hmsg

/-- the typed receive loop hands the application only a prefix of the messages that were sent -/
theorem deliverRest_prefix {k iv dg ownIV c0 items}
    (hiv : iv.w0 < 2^32) (hlim : c0 + items.length ≤ counterLimit) :
    ∀ (n : Nat) (r : Stream) (w : List WireFrame) (m : Nat),
      m ≤ items.length → RecvInv r k iv c0 m → (c0 + m = 0 → r.encIV = ownIV ∧ ownIV.w0 < 2^32) →
      (∀ g ∈ w, AdvFrame k iv dg ownIV c0 items g) →
      Stream.deliverRestFuel n r w <+: messagesOfT [] ((items.drop m).map Item.op) := by
  intro n
  induction n with
  | zero => intro r w m _ _ _ _; simp [Stream.deliverRestFuel]
  | succ n ih =>
    intro r w m hm hr hdg hadv
    unfold Stream.deliverRestFuel
    split
    · simp
    · rename_i r' msg w' hrc
      obtain ⟨m', hm1, hm2, hr', hadv', hmsg⟩ :=
        recvRest_spec hiv hlim w r m [] r' msg w' hm hr hdg hadv hrc
      rw [hmsg]
      exact List.prefix_cons_inj msg |>.mpr (ih r' w' m' hm2 hr' (fun h => by omega) hadv')

end Cedar
