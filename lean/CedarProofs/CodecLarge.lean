/-
  Helper lemmas for C01 (typed layer, large values): PutStringBytes has the reference wire form at
  every length, and GetRemainingBytes returns exactly the message's pending bytes.
-/
import CedarModel.CodecLarge
import CedarProofs.CodecStr

namespace Cedar

theorem wireBytes_putStringBytes (enc : Bool) (buf s : Bytes) (hnz : ∀ b ∈ s, b ≠ 0) (hlen : s.length + 1 < 2^64) :
    wireBytes (putStringBytesL enc buf s) = buf ++ Spec.enc enc (.str s) := by
  have hnul : truncNul s = s := takeWhile_all _ s (fun b hb => by simpa using hnz b hb)
  unfold putStringBytesL
  simp only [hnul]
  by_cases hbig : s.length + 1 + (if enc = true then 8 else 0) > maxFramePayload enc
  · rw [if_pos hbig]
    cases enc with
    | false =>
      simp only [Bool.false_eq_true, if_false]
      rw [wireBytes_seqPut _ _ [0] (wireBytes_putBytes _ _ _)]
      rw [wireBytes_seqPut _ _ s (wireBytes_putBytes _ _ _)]
      by_cases hb : buf.length > 0
      · simp [hb, wireBytes, Spec.enc]
      · have : buf = [] := List.eq_nil_of_length_eq_zero (by omega)
        simp [this, wireBytes, Spec.enc]
    | true =>
      simp only [if_true]
      rw [wireBytes_seqPut _ _ [0] (wireBytes_putBytes _ _ _)]
      rw [wireBytes_seqPut _ _ s (wireBytes_putBytes _ _ _)]
      rw [wireBytes_seqPut _ _ (be64 (toU64 ((s.length + 1 : Nat) : Int))) (wireBytes_putInt _ _)]
      rw [toU64_nat _ hlen]
      by_cases hb : buf.length > 0
      · simp [hb, wireBytes, Spec.enc]
      · have : buf = [] := List.eq_nil_of_length_eq_zero (by omega)
        simp [this, wireBytes, Spec.enc]
  · rw [if_neg hbig]
    cases enc with
    | false =>
      simp only [Bool.false_eq_true, if_false, Nat.add_zero]
      split <;> simp [wireBytes, Spec.enc]
    | true =>
      simp only [if_true]
      have key : ∀ r0 : PutRes, wireBytes r0 = buf →
          wireBytes ((seqPut r0 (fun b => putInt b ((s.length + 1 : Nat) : Int))).1 ++ s ++ [0],
                     (seqPut r0 (fun b => putInt b ((s.length + 1 : Nat) : Int))).2)
            = buf ++ Spec.enc true (.str s) := by
        intro r0 h0
        have := wireBytes_seqPut r0 (fun b => putInt b ((s.length + 1 : Nat) : Int))
          (be64 (toU64 ((s.length + 1 : Nat) : Int))) (wireBytes_putInt _ _)
        rw [toU64_nat _ hlen, h0] at this
        unfold wireBytes at this ⊢
        simp only [Spec.enc, if_true]
        rw [← List.append_assoc, ← List.append_assoc, this]
        simp [List.append_assoc]
      split
      · exact key _ (by simp [wireBytes])
      · exact key _ (by simp [wireBytes])

/-- the drain loop of `GetRemainingBytes` ends with exactly the pending bytes buffered -/
theorem drainAll_spec : ∀ (src : List OutFrame) (buf : Bytes) (isEOM : Bool) (B : Bytes),
    Dec.pending ⟨buf, isEOM, src⟩ = some B →
    ∃ d', drainAll buf isEOM src = .ok d' ∧ d'.buf = B ∧ d'.isEOM = true := by
  intro src
  induction src with
  | nil =>
    intro buf isEOM B h
    cases isEOM with
    | false => simp [Dec.pending, pendingSrc] at h
    | true =>
      simp only [Dec.pending, if_true, Option.some.injEq] at h
      exact ⟨⟨buf, true, []⟩, by simp [drainAll], h, rfl⟩
  | cons f rest ih =>
    intro buf isEOM B h
    obtain ⟨p, e⟩ := f
    unfold drainAll
    cases isEOM with
    | true =>
      simp only [Dec.pending, if_true, Option.some.injEq] at h
      exact ⟨_, rfl, h, rfl⟩
    | false =>
      simp only [Bool.false_eq_true, if_false]
      have h' : Dec.pending ⟨buf ++ p, e, rest⟩ = some B := by
        simp only [Dec.pending, Bool.false_eq_true, if_false] at h
        cases e with
        | true =>
          simp only [pendingSrc, Option.map_some, Option.some.injEq] at h
          simp [Dec.pending, h]
        | false =>
          simp only [pendingSrc, Option.map_map, Option.map_eq_some_iff] at h
          obtain ⟨r, hr, hB⟩ := h
          simp only [Dec.pending, Bool.false_eq_true, if_false, Option.map_eq_some_iff]
          exact ⟨r, hr, by simpa [Function.comp] using hB⟩
      exact ih (buf ++ p) e B h'

/-- `GetRemainingBytes` returns exactly the bytes of the message not yet consumed — whatever their
    number and however the sender cut them into frames — and leaves the message exhausted. -/
theorem getRemaining_spec (d : Dec) (B : Bytes) (h : d.pending = some B) :
    ∃ d', d.getRemaining = .ok (B, d') ∧ d'.pending = some [] := by
  obtain ⟨d1, hok, hb, he⟩ := drainAll_spec d.src d.buf d.isEOM B h
  unfold Dec.getRemaining
  rw [hok]
  refine ⟨{ d1 with buf := [] }, by simp only [hb], ?_⟩
  simp [Dec.pending, he]

/-- a wire that ends before the end-of-message frame is an error for `GetRemainingBytes`, never a
    short value -/
theorem getRemaining_truncated (d : Dec) (h : d.pending = none) : d.getRemaining = .error .eof := by
  have key : ∀ (src : List OutFrame) (buf : Bytes) (isEOM : Bool),
      Dec.pending ⟨buf, isEOM, src⟩ = none → drainAll buf isEOM src = .error .eof := by
    intro src
    induction src with
    | nil =>
      intro buf isEOM h
      cases isEOM with
      | true => simp [Dec.pending] at h
      | false => simp [drainAll]
    | cons f rest ih =>
      intro buf isEOM h
      obtain ⟨p, e⟩ := f
      cases isEOM with
      | true => simp [Dec.pending] at h
      | false =>
        unfold drainAll
        simp only [Bool.false_eq_true, if_false]
        apply ih
        simp only [Dec.pending, Bool.false_eq_true, if_false, Option.map_eq_none_iff] at h
        cases e with
        | true => simp [pendingSrc] at h
        | false =>
          simp only [pendingSrc, Option.map_eq_none_iff] at h
          simp [Dec.pending, h]
  unfold Dec.getRemaining
  rw [key d.src d.buf d.isEOM h]

end Cedar
