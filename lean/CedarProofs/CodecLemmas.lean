/-
  Helper lemmas for C14 / C01 (typed layer): big-endian round trips, the decoder's `ensureData`
  as a refinement of "all payload bytes of the message", and the encoder's flush policy.
-/
import CedarModel.Codec

namespace Cedar

/-! ### big-endian -/

@[simp] theorem length_beN (n v : Nat) : (beN n v).length = n := by
  induction n with
  | zero => rfl
  | succ n ih => simp [beN, ih]

theorem beVal_beN_mod (n v : Nat) : beVal (beN n v) = v % 256 ^ n := by
  induction n with
  | zero => simp [beN, beVal, Nat.mod_one]
  | succ n ih =>
    simp only [beN, beVal, length_beN, UInt8.toNat_ofNat', ih]
    have := @Nat.mod_pow_succ v 256 n
    rw [this, Nat.mul_comm, Nat.add_comm, show (2 : Nat) ^ 8 = 256 from rfl, Nat.mod_mod]

theorem beVal_be64 (v : Nat) (h : v < 2^64) : beVal (be64 v) = v := by
  unfold be64; rw [beVal_beN_mod]; exact Nat.mod_eq_of_lt (by simpa using h)

theorem beVal_be32' (v : Nat) (h : v < 2^32) : beVal (be32 v) = v := by
  unfold be32; rw [beVal_beN_mod]; exact Nat.mod_eq_of_lt (by simpa using h)

theorem beVal_be16 (v : Nat) (h : v < 2^16) : beVal (be16 v) = v := by
  unfold be16; rw [beVal_beN_mod]; exact Nat.mod_eq_of_lt (by simpa using h)

theorem takeWhile_all {α : Type} (p : α → Bool) : ∀ (l : List α), (∀ b ∈ l, p b = true) → l.takeWhile p = l := by
  intro l
  induction l with
  | nil => intro _; rfl
  | cons a t ih =>
    intro h
    simp only [List.takeWhile, h a (List.mem_cons_self ..)]
    rw [ih (fun b hb => h b (List.mem_cons_of_mem _ hb))]

/-- 64-bit two's complement round trip: every `int64` value survives `PutInt`/`GetInt`. -/
theorem ofU64_toU64 (v : Int) (h1 : -(2^63 : Int) ≤ v) (h2 : v < (2^63 : Int)) : ofU64 (toU64 v) = v := by
  unfold ofU64 toU64
  by_cases hv : 0 ≤ v
  · have : v % (2^64 : Int) = v := Int.emod_eq_of_lt hv (by omega)
    rw [this]
    have hn : v.toNat < 2^63 := by omega
    simp only [hn, if_true]
    omega
  · have hm : v % (2^64 : Int) = v + 2^64 := by
      have : (v + 2^64) % (2^64 : Int) = v + 2^64 := Int.emod_eq_of_lt (by omega) (by omega)
      rw [← this]; simp
    rw [hm]
    have hn : ¬ (v + 2^64).toNat < 2^63 := by omega
    simp only [hn, if_false]
    omega

theorem toU64_lt (v : Int) : toU64 v < 2 ^ 64 := by
  unfold toU64
  have : v % (2^64 : Int) < 2^64 := Int.emod_lt_of_pos _ (by decide)
  have h0 : 0 ≤ v % (2^64 : Int) := Int.emod_nonneg _ (by decide)
  omega

/-! ### the decoder sees only the message's payload bytes -/

/-- payload bytes up to and including the first end-of-message frame; `none` if the connection
    ends before one arrives -/
def pendingSrc : List OutFrame → Option Bytes
  | [] => none
  | (p, true) :: _ => some p
  | (p, false) :: rest => (pendingSrc rest).map (p ++ ·)

/-- all bytes of the current message the decoder has not consumed yet -/
def Dec.pending (d : Dec) : Option Bytes :=
  if d.isEOM then some d.buf else (pendingSrc d.src).map (d.buf ++ ·)

theorem ensureAux_spec (n : Nat) : ∀ (src : List OutFrame) (buf : Bytes) (isEOM : Bool) (B : Bytes),
    Dec.pending ⟨buf, isEOM, src⟩ = some B →
    ∃ d', ensureAux n buf isEOM src = .ok d' ∧ d'.pending = some B ∧
          (d'.buf.length ≥ n ∧ d'.buf = B.take d'.buf.length ∨ d'.isEOM = true ∧ d'.buf = B) ∧
          (∃ r, B = d'.buf ++ r) := by
  intro src
  induction src with
  | nil =>
    intro buf isEOM B h
    cases isEOM with
    | false => simp [Dec.pending, pendingSrc] at h
    | true =>
      simp only [Dec.pending, if_true, Option.some.injEq] at h
      subst h
      refine ⟨⟨buf, true, []⟩, by simp [ensureAux], by simp [Dec.pending], .inr ⟨rfl, rfl⟩, ⟨[], by simp⟩⟩
  | cons f rest ih =>
    intro buf isEOM B h
    obtain ⟨p, e⟩ := f
    unfold ensureAux
    by_cases hc : (lenGe buf n || isEOM) = true
    · rw [if_pos hc]
      refine ⟨_, rfl, h, ?_, ?_⟩
      · cases isEOM with
        | true =>
          simp only [Dec.pending, if_true, Option.some.injEq] at h
          exact .inr ⟨rfl, h⟩
        | false =>
          simp only [Bool.or_false] at hc
          have hl := (lenGe_iff buf n).mp hc
          simp only [Dec.pending, Bool.false_eq_true, if_false, Option.map_eq_some_iff] at h
          obtain ⟨r, _, hB⟩ := h
          exact .inl ⟨hl, by rw [← hB]; simp⟩
      · cases isEOM with
        | true =>
          simp only [Dec.pending, if_true, Option.some.injEq] at h
          exact ⟨[], by simp [h]⟩
        | false =>
          simp only [Dec.pending, Bool.false_eq_true, if_false, Option.map_eq_some_iff] at h
          obtain ⟨r, _, hB⟩ := h
          exact ⟨r, hB.symm⟩
    · rw [if_neg hc]
      have hE : isEOM = false := by
        cases isEOM with
        | true => simp at hc
        | false => rfl
      subst hE
      have h' : Dec.pending ⟨buf ++ p, e, rest⟩ = some B := by
        simp only [Dec.pending, Bool.false_eq_true, if_false] at h
        cases e with
        | true =>
          simp only [pendingSrc, Option.map_some, Option.some.injEq] at h
          simp [Dec.pending, h]
        | false =>
          simp only [pendingSrc, Option.map_map, Option.map_eq_some_iff] at h
          obtain ⟨r, hr, hB⟩ := h
          simp only [Dec.pending, Bool.false_eq_true, if_false, Option.map_eq_some_iff]
          exact ⟨r, hr, by simpa [Function.comp] using hB⟩
      exact ih (buf ++ p) e B h'

/-- `ensureData n` either buffers `n` bytes without changing the pending bytes, or reports
    end-of-message exactly when fewer than `n` bytes remain in the message. -/
theorem ensure_spec (d : Dec) (n : Nat) (B : Bytes) (h : d.pending = some B) :
    (B.length ≥ n ∧ ∃ d', d.ensure n = .ok d' ∧ d'.pending = some B ∧ d'.buf.length ≥ n ∧
                        (∃ r, B = d'.buf ++ r)) ∨
    (B.length < n ∧ d.ensure n = .error .eom) := by
  obtain ⟨d', hok, hp, hcase, ⟨r, hr⟩⟩ := ensureAux_spec n d.src d.buf d.isEOM B h
  unfold Dec.ensure
  rw [hok]
  by_cases hl : lenGe d'.buf n = true
  · have hl' := (lenGe_iff _ _).mp hl
    left
    refine ⟨by rw [hr]; simp; omega, d', by simp [hl], hp, hl', r, hr⟩
  · have hl' : ¬ d'.buf.length ≥ n := fun hh => hl ((lenGe_iff _ _).mpr hh)
    right
    rcases hcase with ⟨hge, _⟩ | ⟨_, hb⟩
    · exact absurd hge hl'
    · refine ⟨by rw [← hb]; omega, by simp [hl]⟩

/-- consuming `k` buffered bytes consumes `k` pending bytes -/
theorem pending_drop (d : Dec) (k : Nat) (B : Bytes) (h : d.pending = some B) (hk : k ≤ d.buf.length) :
    ({ d with buf := d.buf.drop k } : Dec).pending = some (B.drop k) := by
  unfold Dec.pending at *
  cases hE : d.isEOM with
  | true => simp only [hE, if_true, Option.some.injEq] at h ⊢; rw [← h]
  | false =>
    simp only [hE, Bool.false_eq_true, if_false, Option.map_eq_some_iff] at h ⊢
    obtain ⟨r, hr, hB⟩ := h
    exact ⟨r, hr, by rw [← hB, List.drop_append_of_le_length hk]⟩

/-- **GetInt** reads the next 8 pending bytes, wherever the frame boundaries fall. -/
theorem getInt_spec (d : Dec) (B : Bytes) (h : d.pending = some B) :
    (B.length ≥ 8 ∧ ∃ d', d.getInt = .ok (ofU64 (beVal (B.take 8)), d') ∧ d'.pending = some (B.drop 8)) ∨
    (B.length < 8 ∧ d.getInt = .error .eom) := by
  unfold Dec.getInt
  rcases ensure_spec d 8 B h with ⟨hl, d1, hok, hp, hb, r, hr⟩ | ⟨hl, herr⟩
  · left
    refine ⟨hl, _, ?_, pending_drop d1 8 B hp hb⟩
    rw [hok]
    simp only
    rw [hr, List.take_append_of_le_length hb]
  · right; exact ⟨hl, by rw [herr]⟩

theorem getChar_spec (d : Dec) (B : Bytes) (h : d.pending = some B) :
    (∃ c rest d', B = c :: rest ∧ d.getChar = .ok (c, d') ∧ d'.pending = some rest) ∨
    (B = [] ∧ d.getChar = .error .eom) := by
  unfold Dec.getChar
  rcases ensure_spec d 1 B h with ⟨hl, d1, hok, hp, hb, r, hr⟩ | ⟨hl, herr⟩
  · left
    rw [hok]
    cases hbuf : d1.buf with
    | nil => simp [hbuf] at hb
    | cons c rest =>
      refine ⟨c, rest ++ r, { d1 with buf := rest }, by rw [hr, hbuf]; rfl, by simp only [hbuf], ?_⟩
      have := pending_drop d1 1 B hp hb
      simpa [hbuf, hr] using this
  · right
    have : B = [] := List.eq_nil_of_length_eq_zero (by omega)
    exact ⟨this, by rw [herr]⟩

theorem getBytes_spec (d : Dec) (n : Nat) (hn : 0 < n) (B : Bytes) (h : d.pending = some B) :
    (B.length ≥ n ∧ ∃ d', d.getBytes n = .ok (B.take n, d') ∧ d'.pending = some (B.drop n)) ∨
    (B.length < n ∧ d.getBytes n = .error .eom) := by
  unfold Dec.getBytes
  have hn' : ¬ ((n : Int) ≤ 0) := by omega
  simp only [hn', if_false, Int.toNat_natCast]
  rcases ensure_spec d n B h with ⟨hl, d1, hok, hp, hb, r, hr⟩ | ⟨hl, herr⟩
  · left
    refine ⟨hl, _, ?_, pending_drop d1 n B hp hb⟩
    rw [hok]
    simp only
    rw [hr, List.take_append_of_le_length hb]
  · right; exact ⟨hl, by rw [herr]⟩

/-! ### the encoder's flush policy never alters the byte sequence -/

theorem wireBytes_putInt (buf : Bytes) (v : Int) : wireBytes (putInt buf v) = buf ++ be64 (toU64 v) := by
  unfold putInt wireBytes; split <;> simp

theorem wireBytes_putChar (buf : Bytes) (c : UInt8) : wireBytes (putChar buf c) = buf ++ [c] := by
  unfold putChar wireBytes; split <;> simp

theorem wireBytes_seqPut (r1 : PutRes) (f : Bytes → PutRes) (x : Bytes)
    (hf : wireBytes (f r1.1) = r1.1 ++ x) : wireBytes (seqPut r1 f) = wireBytes r1 ++ x := by
  unfold seqPut wireBytes at *
  simp only [List.map_append, List.flatten_append, List.append_assoc]
  rw [hf]

theorem flatten_chunksOf (n : Nat) (hn : 0 < n) : ∀ (fuel : Nat) (data : Bytes), data.length ≤ fuel →
    (chunksOf n fuel data).flatten = data := by
  intro fuel
  induction fuel with
  | zero => intro data h; have : data = [] := List.eq_nil_of_length_eq_zero (by omega); simp [chunksOf, this]
  | succ fuel ih =>
    intro data h
    unfold chunksOf
    by_cases he : data.isEmpty = true
    · simp [he, List.isEmpty_iff.mp he]
    · simp only [he, Bool.false_eq_true, if_false, List.flatten_cons]
      rw [ih (data.drop n) (by
        have : data.length ≠ 0 := by intro h0; exact he (by simp [List.eq_nil_of_length_eq_zero h0])
        simp [List.length_drop]; omega)]
      exact List.take_append_drop n data

theorem wireBytes_putChunks : ∀ (chunks : List Bytes) (buf : Bytes),
    wireBytes (putChunks buf chunks) = buf ++ chunks.flatten := by
  intro chunks
  induction chunks with
  | nil => intro buf; simp [putChunks, wireBytes]
  | cons ch rest ih =>
    intro buf
    unfold putChunks
    by_cases hb : buf.length > 0
    · simp only [hb, if_true]
      have := ih ([] ++ ch)
      unfold wireBytes at *
      simp only [List.nil_append] at this
      simp [this]
    · have hb0 : buf = [] := List.eq_nil_of_length_eq_zero (by omega)
      subst hb0
      simp only [List.length_nil, Nat.lt_irrefl, if_false]
      have := ih ([] ++ ch)
      unfold wireBytes at *
      simp only [List.nil_append] at this
      simp [this]

theorem wireBytes_putBytes (enc : Bool) (buf data : Bytes) :
    wireBytes (putBytes enc buf data) = buf ++ data := by
  unfold putBytes
  by_cases h0 : data.length = 0
  · simp [h0, wireBytes, List.eq_nil_of_length_eq_zero h0]
  · rw [if_neg h0]
    by_cases h1 : data.length > maxFramePayload enc
    · rw [if_pos h1, wireBytes_putChunks, flatten_chunksOf _ (by
        unfold maxFramePayload maxFrameSize gcmRoom; cases enc <;> decide) _ _ (Nat.le_refl _)]
    · rw [if_neg h1]
      split <;> simp [wireBytes]


/-! ### strings -/

theorem pendingSrc_le_total : ∀ (src : List OutFrame) (B : Bytes), pendingSrc src = some B →
    B.length ≤ (src.map (·.1.length)).sum := by
  intro src
  induction src with
  | nil => intro B h; simp [pendingSrc] at h
  | cons f rest ih =>
    intro B h
    obtain ⟨p, e⟩ := f
    cases e with
    | true =>
      simp only [pendingSrc, Option.some.injEq] at h
      subst h; simp
    | false =>
      simp only [pendingSrc, Option.map_eq_some_iff] at h
      obtain ⟨r, hr, hB⟩ := h
      have := ih r hr
      subst hB; simp; omega

theorem pending_le_total (d : Dec) (B : Bytes) (h : d.pending = some B) : B.length ≤ d.total := by
  unfold Dec.pending at h
  unfold Dec.total
  cases hE : d.isEOM with
  | true => simp only [hE, if_true, Option.some.injEq] at h; subst h; omega
  | false =>
    simp only [hE, Bool.false_eq_true, if_false, Option.map_eq_some_iff] at h
    obtain ⟨r, hr, hB⟩ := h
    have := pendingSrc_le_total d.src r hr
    subst hB; simp; omega

/-- plaintext `GetString`: the bytes up to the first NUL, consuming the NUL, across any framing -/
theorem getCStr_spec : ∀ (s : Bytes) (fuel : Nat) (d : Dec) (acc rest : Bytes),
    (∀ b ∈ s, b ≠ 0) → s.length < fuel → d.pending = some (s ++ 0 :: rest) →
    ∃ d', getCStr fuel d acc = .ok (acc.reverse ++ s, d') ∧ d'.pending = some rest := by
  intro s
  induction s with
  | nil =>
    intro fuel d acc rest _ hf hp
    cases fuel with
    | zero => simp at hf
    | succ fuel =>
      unfold getCStr
      rcases ensure_spec d 1 _ hp with ⟨_, d1, hok, hp1, hb, r, hr⟩ | ⟨hl, _⟩
      · rw [hok]
        cases hbuf : d1.buf with
        | nil => simp [hbuf] at hb
        | cons c b' =>
          have hc : c = 0 := by
            have := hr; rw [hbuf] at this
            simp only [List.nil_append, List.cons_append, List.cons.injEq] at this
            exact this.1.symm
          simp only [hbuf, hc, if_true, List.append_nil]
          refine ⟨{ d1 with buf := b' }, rfl, ?_⟩
          have := pending_drop d1 1 _ hp1 hb
          simpa [hbuf] using this
      · simp at hl
  | cons a t ih =>
    intro fuel d acc rest hnz hf hp
    cases fuel with
    | zero => simp at hf
    | succ fuel =>
      unfold getCStr
      rcases ensure_spec d 1 _ hp with ⟨_, d1, hok, hp1, hb, r, hr⟩ | ⟨hl, _⟩
      · rw [hok]
        cases hbuf : d1.buf with
        | nil => simp [hbuf] at hb
        | cons c b' =>
          have hc : c = a := by
            have := hr; rw [hbuf] at this
            simp only [List.cons_append, List.cons.injEq] at this
            exact this.1.symm
          have ha : a ≠ 0 := hnz a (List.mem_cons_self ..)
          simp only [hbuf, hc, ha, if_false]
          have hp2 : ({ d1 with buf := b' } : Dec).pending = some (t ++ 0 :: rest) := by
            have := pending_drop d1 1 _ hp1 hb
            simpa [hbuf] using this
          obtain ⟨d', hok', hp'⟩ := ih fuel { d1 with buf := b' } (a :: acc) rest
            (fun b hb => hnz b (List.mem_cons_of_mem _ hb)) (by simp at hf; omega) hp2
          exact ⟨d', by rw [hok']; simp, hp'⟩
      · simp at hl

theorem stripTrailingNul_snoc (s : Bytes) : stripTrailingNul (s ++ [0]) = s := by
  unfold stripTrailingNul
  simp

end Cedar
