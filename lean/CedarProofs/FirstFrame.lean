/-
  Helper for C04: the first protected frame a receiver accepts from the on-path adversary of C02
  (`AdvFrame`) IS the sender's first seal — same key, nonce, AAD (digests included) and plaintext —
  so the digests it carries are the sender's. (Companion of `open_only_next`, which keeps only flag
  and plaintext.)
-/
import CedarProofs.Prefix

namespace Cedar

theorem first_open_is_senders_seal {r : Stream} {k : Nat} {iv : IV} {dg : Digest × Digest} {ownIV : IV}
    {items : List Item} {g : WireFrame} {ivr : IV} {p : Bytes}
    (hiv : iv.w0 < 2^32) (hc : r.decCtr = 0) (hfin : r.finRecvAAD = false)
    (hoe : r.encIV = ownIV) (how : ownIV.w0 < 2^32)
    (hg : AdvFrame k iv dg ownIV 0 items g)
    (h : r.openBody k g = .ok (ivr, p)) :
    ∃ it, items[0]? = some it ∧ g.body = .ct (some iv) (sealedAt k iv dg 0 it) ∧
          dg = (r.dig.fr, r.dig.fs) ∧ p = it.plain ∧ g.flag = it.flag := by
  unfold Stream.openBody at h
  split at h
  · cases h
  · split at h
    · cases h
    · simp only [hc] at h
      cases hb : g.body with
      | raw b => simp [hb] at h
      | ct ivo c =>
        cases ivo with
        | none => simp [hb] at h
        | some i =>
          unfold AdvFrame at hg
          simp only [hb] at h hg
          simp only [hfin, Bool.false_eq_true, if_false] at h
          by_cases hie : i = r.encIV
          · rw [if_pos hie] at h; cases h
          rw [if_neg hie] at h
          obtain ⟨hcond, hab⟩ := ite_ok h
          obtain ⟨hck, hcn, hca⟩ := hcond
          obtain ⟨hiw, hkn⟩ := hg
          have hi := hiw i rfl
          have hnf : ¬ Foreign iv ownIV c := by
            intro hf
            have hne : c.aad.digests ≠ none := by rw [hca]; simp
            have hn0 := hf.2 hne
            apply hie
            rw [hoe]
            rw [hcn] at hn0
            simp only [IV.nonce, IV.mk.injEq] at hn0
            obtain ⟨h1, h2⟩ := hn0
            cases i; cases ownIV
            simp only [IV.mk.injEq] at *
            simp only [Nat.reducePow] at *
            exact ⟨by omega, h2⟩
          obtain ⟨j, it, hj, hcs⟩ := (hkn hck).resolve_right hnf
          have hj0 : j = 0 := by
            rw [hcs] at hca
            simp only [sealedAt] at hca
            by_cases hh : 0 + j = 0
            · omega
            · simp at hca; exact hca.1.1
          subst hj0
          have hii : i = iv := by
            rw [hcs] at hcn
            simp only [sealedAt, IV.nonce, IV.mk.injEq] at hcn
            obtain ⟨h1, h2⟩ := hcn
            cases i; cases iv
            simp only [IV.mk.injEq] at *
            simp only [Nat.reducePow] at *
            exact ⟨by omega, h2.symm⟩
          simp only [Prod.mk.injEq] at hab
          refine ⟨it, hj, by rw [hii, hcs], ?_, ?_, ?_⟩
          · rw [hcs] at hca; simp [sealedAt] at hca; exact hca.1
          · rw [← hab.2, hcs]; simp [sealedAt]
          · rw [hcs] at hca; simp [sealedAt] at hca; exact hca.2.1.symm

end Cedar
