/-
  C08, for the record: the recognisers and the skipping receiver as they were BEFORE the fixes
  F-C08-shortcuts / F-C08-skip-marker (message/classad.go tryInsertLiteral, message/skip.go SkipClassAdRaw at
  /repo 5644970). Not part of the model of the current code; used only by the `prefix_*_fails` theorems of
  CedarProps/C08.lean, whose witnesses are the replays of findings/… (report (f)).
-/
import CedarModel.ClassAdWire

namespace Cedar.Prefix
open Cedar

/-- integer block before the fix: `strconv.ParseInt(TrimSpace(valueStr), 10, 64)` decides alone -/
def intShortcut (valueStr : Bytes) : Option LitVal :=
  match valueStr with
  | c :: _ =>
    if (c.toNat == cMinus || isDigit c) && !hasByte cDot valueStr then (parseInt64 (trimSpace valueStr)).map LitVal.int
    else none
  | [] => none

/-- string block before the fix: first and last byte a quote, no backslash in between -/
def strShortcut (trimmed : Bytes) : Option LitVal :=
  if isQuoted trimmed && !hasByte cBackslash (unquote trimmed) then some (.str (unquote trimmed)) else none

/-- SkipClassAdRaw before the fix: every counted expression is ONE SkipString; the marker is not known -/
def skipLoop : Nat → Rd → Except Err Rd
  | 0, r => .ok r
  | n + 1, r =>
    match r.skipString with
    | .error e => .error e
    | .ok r1 => skipLoop n r1

def skipAd (r : Rd) : Except Err Rd :=
  match r.getInt with
  | .error e => .error e
  | .ok (n, r1) =>
    match skipLoop n.toNat r1 with
    | .error e => .error e
    | .ok r2 =>
      match r2.skipString with
      | .error e => .error e
      | .ok r3 => r3.skipString

end Cedar.Prefix
