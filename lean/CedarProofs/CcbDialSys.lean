/-
  Helper lemmas for C20, part 2: proxied mode, and the invariant of the whole multi-broker Dial
  (every attempt keeps its own invariant under every interleaving; ids are distinct RNG draws;
  what Dial returns is what one of its attempts returned).
-/
import CedarProofs.CcbDialLemmas

namespace Cedar.Ccb

/-! ### proxied mode -/

theorem proxyRequest_ok (id : Id) (reply : PReply) (hello : Greeting) :
    proxyRequest id reply hello = .ok () ↔
      (∃ a, reply = .ad a ∧ a.result = true) ∧ hello = .hello reverseConnectCmd id := by
  unfold proxyRequest
  cases reply with
  | readErr => simp
  | ad a =>
    by_cases hr : a.result = true
    · simp only [hr, Bool.not_true, Bool.false_eq_true, if_false]
      cases hello with
      | silent => simp
      | closed => simp [readHello]
      | garbage => simp [readHello]
      | hello cmd claim =>
        simp only [readHello]
        by_cases hc : cmd = reverseConnectCmd
        · subst hc
          simp only [if_true]
          by_cases hi : claim = id
          · subst hi; simp [hr]
          · simp [hi]
        · simp [hc]
    · have hf : a.result = false := by simpa using hr
      simp only [hf, Bool.not_false, if_true]
      split <;> simp [hf]

theorem dialProxy_ok (id : Id) (b : Broker) (req : Bool) (reply : PReply) (hello : Greeting) :
    dialProxy id b req reply hello = .ok () ↔
      b.up = true ∧ b.streamingOk = true ∧ (∃ a, reply = .ad a ∧ a.result = true) ∧
        hello = .hello reverseConnectCmd id := by
  unfold dialProxy
  cases b.up <;> cases b.streamingOk <;> simp [proxyRequest_ok]
  split <;> simp

theorem proxyRequestDial_ok (id : Id) (b : Broker) (reply : PReply) (hello : Greeting) :
    proxyRequestDial id b reply hello = .ok () ↔
      b.up = true ∧ b.streamingOk = true ∧ (∃ a, reply = .ad a ∧ a.result = true) ∧
        hello = .hello reverseConnectCmd id := by
  unfold proxyRequestDial
  cases b.up <;> cases b.streamingOk <;> simp [proxyRequest_ok]

/-! ### attempts inside Dial -/

def Att.Inv : Att → Prop
  | .std s => s.Inv
  | .prx id hello r => r = some (.ok ()) → hello = some (.hello reverseConnectCmd id)

theorem Att.inv_stepEv (ev : Ev) (t : Att) (h : t.Inv) : (t.stepEv ev).Inv := by
  cases t with
  | std s => exact Std.inv_step s ev h
  | prx id hello r => exact h

theorem Att.id_stepEv (ev : Ev) (t : Att) : (t.stepEv ev).id = t.id := by
  cases t with
  | std s => exact Std.id_step s ev
  | prx id hello r => rfl

theorem Att.result_stepEv (ev : Ev) (t : Att) {r : Except AErr Nat} (h : t.result = some r) :
    (t.stepEv ev).result = some r := by
  cases t with
  | std s => exact Std.result_stable s ev h
  | prx id hello r => exact h

theorem Att.inv_runPrx (fp rq : Bool) (b : Broker) (reply : PReply) (hello : Greeting) (t : Att) (h : t.Inv) :
    (t.runPrx fp rq b reply hello).Inv := by
  cases t with
  | std s => exact h
  | prx id hl r =>
    cases r with
    | some r => exact h
    | none =>
      intro hr
      simp only [Option.some.injEq] at hr
      cases fp with
      | true =>
        simp only [if_true] at hr
        rw [((dialProxy_ok id b rq reply hello).mp hr).2.2.2]
      | false =>
        simp only [Bool.false_eq_true, if_false] at hr
        rw [((proxyRequestDial_ok id b reply hello).mp hr).2.2.2]

theorem Att.id_runPrx (fp rq : Bool) (b : Broker) (reply : PReply) (hello : Greeting) (t : Att) :
    (t.runPrx fp rq b reply hello).id = t.id := by
  cases t with
  | std s => rfl
  | prx id hl r => cases r <;> rfl

theorem Att.result_runPrx (fp rq : Bool) (b : Broker) (reply : PReply) (hello : Greeting) (t : Att)
    {r : Except AErr Nat} (h : t.result = some r) : (t.runPrx fp rq b reply hello).result = some r := by
  cases t with
  | std s => exact h
  | prx id hl r' =>
    cases r' with
    | some x => exact h
    | none => simp [Att.result] at h

theorem Att.inv_cancel (t : Att) (h : t.Inv) : t.cancel.Inv := by
  cases t with
  | std s => exact Std.inv_step s .cancel h
  | prx id hl r =>
    cases r with
    | some x => exact h
    | none => intro hr; cases hr

theorem Att.id_cancel (t : Att) : t.cancel.id = t.id := by
  cases t with
  | std s => exact Std.id_step s .cancel
  | prx id hl r => cases r <;> rfl

theorem Att.result_cancel (t : Att) {r : Except AErr Nat} (h : t.result = some r) : t.cancel.result = some r := by
  cases t with
  | std s => exact Std.result_stable s .cancel h
  | prx id hl r' =>
    cases r' with
    | some x => exact h
    | none => simp [Att.result] at h

theorem modifyAt_length {α : Type} (l : List α) (i : Nat) (f : α → α) : (modifyAt l i f).length = l.length := by
  induction l generalizing i with
  | nil => rfl
  | cons x xs ih => cases i <;> simp [modifyAt, ih]

theorem getElem?_modifyAt {α : Type} (l : List α) (i j : Nat) (f : α → α) :
    (modifyAt l i f)[j]? = if j = i then (l[j]?).map f else l[j]? := by
  induction l generalizing i j with
  | nil => simp [modifyAt]
  | cons x xs ih =>
    cases i with
    | zero => cases j <;> simp [modifyAt]
    | succ i =>
      cases j with
      | zero => simp [modifyAt]
      | succ j => simp [modifyAt, ih]

/-! ### the invariant of the whole Dial -/

structure SInv (rng : Nat → Id) (atts : List Att) (draws : List (Option Nat)) (ctr : Nat)
    (result : Option (Except DErr (Nat × Nat))) : Prop where
  atts_inv : ∀ (a : Nat) (t : Att), atts[a]? = some t → t.Inv
  len : draws.length = atts.length
  ids : ∀ (a d : Nat) (t : Att), draws[a]? = some (some d) → atts[a]? = some t → t.id = rng d
  draw_lt : ∀ (a d : Nat), draws[a]? = some (some d) → d < ctr
  draw_mono : ∀ (a b i j : Nat), a < b → draws[a]? = some (some i) → draws[b]? = some (some j) → i < j
  res_att : ∀ (a k : Nat), result = some (.ok (a, k)) → ∃ t : Att, atts[a]? = some t ∧ t.result = some (.ok k)
  nodraw : ∀ (a : Nat) (t : Att), draws[a]? = some none → atts[a]? = some t → ∃ e, t.result = some (.error e)

def Sys.Inv (rng : Nat → Id) (y : Sys) : Prop := SInv rng y.atts y.draws y.ctr y.result

/-- replacing every attempt by a successor that keeps invariant, id and an existing result -/
theorem SInv.map {rng atts draws ctr result} (f : Att → Att) (h : SInv rng atts draws ctr result)
    (f1 : ∀ t, t.Inv → (f t).Inv) (f2 : ∀ t, (f t).id = t.id)
    (f3 : ∀ t r, t.result = some r → (f t).result = some r) : SInv rng (atts.map f) draws ctr result := by
  obtain ⟨a1, a2, a3, a4, a5, a6, a7⟩ := h
  constructor
  · intro a t ht
    simp only [List.getElem?_map, Option.map_eq_some_iff] at ht
    obtain ⟨t0, h0, rfl⟩ := ht
    exact f1 t0 (a1 a t0 h0)
  · simpa using a2
  · intro a d t hd ht
    simp only [List.getElem?_map, Option.map_eq_some_iff] at ht
    obtain ⟨t0, h0, rfl⟩ := ht
    rw [f2]; exact a3 a d t0 hd h0
  · exact a4
  · exact a5
  · intro a k hr
    obtain ⟨t, ht, hres⟩ := a6 a k hr
    exact ⟨f t, by simp [ht], f3 t _ hres⟩
  · intro a t hd ht
    simp only [List.getElem?_map, Option.map_eq_some_iff] at ht
    obtain ⟨t0, h0, rfl⟩ := ht
    obtain ⟨e, he⟩ := a7 a t0 hd h0
    exact ⟨e, f3 t0 _ he⟩

theorem SInv.modify {rng atts draws ctr result} (f : Att → Att) (i : Nat) (h : SInv rng atts draws ctr result)
    (f1 : ∀ t, t.Inv → (f t).Inv) (f2 : ∀ t, (f t).id = t.id)
    (f3 : ∀ t r, t.result = some r → (f t).result = some r) : SInv rng (modifyAt atts i f) draws ctr result := by
  obtain ⟨a1, a2, a3, a4, a5, a6, a7⟩ := h
  constructor
  · intro a t ht
    rw [getElem?_modifyAt] at ht
    by_cases hai : a = i
    · simp only [hai, if_true, Option.map_eq_some_iff] at ht
      obtain ⟨t0, h0, rfl⟩ := ht
      exact f1 t0 (a1 i t0 h0)
    · simp only [hai, if_false] at ht; exact a1 a t ht
  · rw [modifyAt_length]; exact a2
  · intro a d t hd ht
    rw [getElem?_modifyAt] at ht
    by_cases hai : a = i
    · simp only [hai, if_true, Option.map_eq_some_iff] at ht
      obtain ⟨t0, h0, rfl⟩ := ht
      rw [f2]; exact a3 i d t0 (hai ▸ hd) h0
    · simp only [hai, if_false] at ht; exact a3 a d t hd ht
  · exact a4
  · exact a5
  · intro a k hr
    obtain ⟨t, ht, hres⟩ := a6 a k hr
    by_cases hai : a = i
    · subst hai
      exact ⟨f t, by rw [getElem?_modifyAt]; simp [ht], f3 t _ hres⟩
    · exact ⟨t, by rw [getElem?_modifyAt]; simp [hai, ht], hres⟩
  · intro a t hd ht
    rw [getElem?_modifyAt] at ht
    by_cases hai : a = i
    · simp only [hai, if_true, Option.map_eq_some_iff] at ht
      obtain ⟨t0, h0, rfl⟩ := ht
      obtain ⟨e, he⟩ := a7 i t0 (hai ▸ hd) h0
      exact ⟨e, f3 t0 _ he⟩
    · simp only [hai, if_false] at ht; exact a7 a t hd ht

/-- `launch()`: one more attempt; its id is a draw nobody used before -/
theorem SInv.launch {rng atts draws ctr result} (h : SInv rng atts draws ctr result) (t : Att) (d : Option Nat)
    (ctr' : Nat) (hc : ctr ≤ ctr') (ht : t.Inv)
    (hd : ∀ i, d = some i → t.id = rng i ∧ ctr ≤ i ∧ i < ctr')
    (hn : d = none → ∃ e, t.result = some (.error e)) :
    SInv rng (atts ++ [t]) (draws ++ [d]) ctr' result := by
  obtain ⟨a1, a2, a3, a4, a5, a6, a7⟩ := h
  constructor
  · intro a t' ht'
    by_cases hal : a < atts.length
    · rw [List.getElem?_append_left hal] at ht'; exact a1 a t' ht'
    · have hge : atts.length ≤ a := Nat.le_of_not_lt hal
      rw [List.getElem?_append_right hge] at ht'
      cases hx : a - atts.length with
      | zero => rw [hx] at ht'; simp at ht'; subst ht'; exact ht
      | succ n => rw [hx] at ht'; simp at ht'
  · simp [a2]
  · intro a i t' hdi ht'
    by_cases hal : a < atts.length
    · rw [List.getElem?_append_left hal] at ht'
      rw [List.getElem?_append_left (by omega)] at hdi
      exact a3 a i t' hdi ht'
    · have hge : atts.length ≤ a := Nat.le_of_not_lt hal
      rw [List.getElem?_append_right hge] at ht'
      rw [List.getElem?_append_right (by omega)] at hdi
      cases hx : a - atts.length with
      | zero =>
        rw [hx] at ht'; simp at ht'; subst ht'
        have : a - draws.length = 0 := by omega
        rw [this] at hdi; simp at hdi
        exact (hd i hdi).1
      | succ n => rw [hx] at ht'; simp at ht'
  · intro a i hdi
    by_cases hal : a < draws.length
    · rw [List.getElem?_append_left hal] at hdi
      have := a4 a i hdi; omega
    · have hge : draws.length ≤ a := Nat.le_of_not_lt hal
      rw [List.getElem?_append_right hge] at hdi
      cases hx : a - draws.length with
      | zero => rw [hx] at hdi; simp at hdi; exact (hd i hdi).2.2
      | succ n => rw [hx] at hdi; simp at hdi
  · intro a b i j hab hi hj
    by_cases hbl : b < draws.length
    · rw [List.getElem?_append_left hbl] at hj
      rw [List.getElem?_append_left (by omega)] at hi
      exact a5 a b i j hab hi hj
    · have hge : draws.length ≤ b := Nat.le_of_not_lt hbl
      rw [List.getElem?_append_right hge] at hj
      cases hx : b - draws.length with
      | succ n => rw [hx] at hj; simp at hj
      | zero =>
        rw [hx] at hj; simp at hj
        have hal : a < draws.length := by omega
        rw [List.getElem?_append_left hal] at hi
        have h1 := a4 a i hi
        have h2 := (hd j hj).2.1
        omega
  · intro a k hr
    obtain ⟨t', ht', hres⟩ := a6 a k hr
    have hal : a < atts.length := by
      rcases Nat.lt_or_ge a atts.length with h | h
      · exact h
      · rw [List.getElem?_eq_none h] at ht'; cases ht'
    exact ⟨t', by rw [List.getElem?_append_left hal]; exact ht', hres⟩
  · intro a t' hdi ht'
    by_cases hal : a < atts.length
    · rw [List.getElem?_append_left hal] at ht'
      rw [List.getElem?_append_left (by omega)] at hdi
      exact a7 a t' hdi ht'
    · have hge : atts.length ≤ a := Nat.le_of_not_lt hal
      rw [List.getElem?_append_right hge] at ht'
      rw [List.getElem?_append_right (by omega)] at hdi
      cases hx : a - atts.length with
      | zero =>
        rw [hx] at ht'; simp at ht'; subst ht'
        have : a - draws.length = 0 := by omega
        rw [this] at hdi; simp at hdi
        exact hn hdi
      | succ n => rw [hx] at ht'; simp at ht'

theorem Sys.inv_launch (rng : Nat → Id) (y : Sys) (h : y.Inv rng) : (y.launch rng).Inv rng := by
  unfold Sys.launch
  split
  · exact h
  · rename_i c hc
    split
    · rename_i e he
      exact SInv.launch h _ none y.ctr (Nat.le_refl _) (by intro hr; cases hr) (by intro i hi; cases hi)
        (by intro _; exact ⟨e, rfl⟩)
    · rename_i l hl
      have hl' : l.idDraw = y.ctr ∧ y.ctr < l.ctr := by
        unfold dialOne at hl
        split at hl
        · cases hl
        · cases hl; exact ⟨rfl, by simp⟩
        · split at hl
          · cases hl; exact ⟨rfl, by simp⟩
          · cases hl; constructor
            · rfl
            · simp only; split <;> omega
      cases hm : l.mode with
      | std =>
        dsimp only
        exact SInv.launch h _ (some l.idDraw) l.ctr (by omega) (Std.inv_init _)
          (by intro i hi; cases hi; exact ⟨rfl, by omega, by omega⟩) (by intro hx; cases hx)
      | proxy =>
        dsimp only
        exact SInv.launch h _ (some l.idDraw) l.ctr (by omega) (by intro hr; cases hr)
          (by intro i hi; cases hi; exact ⟨rfl, by omega, by omega⟩) (by intro hx; cases hx)
      | nested =>
        dsimp only
        exact SInv.launch h _ (some l.idDraw) l.ctr (by omega) (by intro hr; cases hr)
          (by intro i hi; cases hi; exact ⟨rfl, by omega, by omega⟩) (by intro hx; cases hx)

theorem SInv.setResult {rng atts draws ctr result} (h : SInv rng atts draws ctr result)
    (r : Except DErr (Nat × Nat))
    (hr : ∀ a k, r = .ok (a, k) → ∃ t, atts[a]? = some t ∧ t.result = some (.ok k)) :
    SInv rng atts draws ctr (some r) := by
  obtain ⟨a1, a2, a3, a4, a5, a6, a7⟩ := h
  exact ⟨a1, a2, a3, a4, a5, fun a k hk => hr a k (by simpa using hk), a7⟩

theorem Sys.inv_ret (rng : Nat → Id) (y : Sys) (r : Except DErr (Nat × Nat)) (h : y.Inv rng)
    (hr : ∀ a k, r = .ok (a, k) → ∃ t, y.atts[a]? = some t ∧ t.result = some (.ok k)) :
    (y.ret r).Inv rng := by
  unfold Sys.ret Sys.Inv
  exact SInv.map Att.cancel (SInv.setResult h r hr) Att.inv_cancel Att.id_cancel (fun t r => Att.result_cancel t)

theorem Sys.inv_init (rng : Nat → Id) (contacts : List Contact) (opts : Opts) (sq : Bool) :
    (Sys.init rng contacts opts sq).Inv rng := by
  unfold Sys.init
  apply Sys.inv_launch
  constructor <;> simp

theorem Sys.inv_step (rng : Nat → Id) (y : Sys) (e : DEv) (h : y.Inv rng) : (y.step rng e).Inv rng := by
  unfold Sys.step
  cases e with
  | att a ev =>
    exact SInv.modify _ a h (Att.inv_stepEv ev) (Att.id_stepEv ev) (fun t r => Att.result_stepEv ev t)
  | prx a b reply hello =>
    exact SInv.modify _ a h (Att.inv_runPrx _ _ b reply hello) (Att.id_runPrx _ _ b reply hello)
      (fun t r => Att.result_runPrx _ _ b reply hello t)
  | deliver a =>
    dsimp only
    split
    · exact h
    · split
      · exact h
      · split
        · exact h
        · rename_i k hk
          apply Sys.inv_ret
          · exact h
          · intro a' k' hak
            simp only [Except.ok.injEq, Prod.mk.injEq] at hak
            obtain ⟨rfl, rfl⟩ := hak
            cases hat : y.atts[a]? with
            | none => simp [hat] at hk
            | some t => exact ⟨t, rfl, by simpa [hat] using hk⟩
        · rename_i e he
          have h1 : ({ y with delivered := a :: y.delivered, errs := y.errs ++ [e] } : Sys).Inv rng := h
          split
          · split
            · apply Sys.inv_ret
              · exact Sys.inv_launch rng _ h1
              · intro a' k' hak; cases hak
            · exact Sys.inv_launch rng _ h1
          · split
            · apply Sys.inv_ret
              · exact h1
              · intro a' k' hak; cases hak
            · exact h1
  | stagger =>
    dsimp only
    split
    · exact h
    · split
      · exact Sys.inv_launch rng y h
      · exact h
  | cancel =>
    dsimp only
    split
    · exact h
    · exact SInv.map Att.cancel h Att.inv_cancel Att.id_cancel (fun t r => Att.result_cancel t)
  | pickCtx =>
    dsimp only
    split
    · exact h
    · split
      · apply Sys.inv_ret
        · exact h
        · intro a' k' hak; cases hak
      · exact h

theorem Sys.inv_run (rng : Nat → Id) (y : Sys) (evs : List DEv) (h : y.Inv rng) : (y.run rng evs).Inv rng := by
  induction evs generalizing y with
  | nil => exact h
  | cons e es ih => exact ih (y.step rng e) (Sys.inv_step rng y e h)

/-- Dial returns at most once: its result never changes afterwards -/
theorem Sys.result_stable (rng : Nat → Id) (y : Sys) (e : DEv) {r} (h : y.result = some r) :
    (y.step rng e).result = some r := by
  unfold Sys.step
  cases e <;> dsimp only
  · exact h
  · exact h
  all_goals
    split
    · exact h
    · rename_i hn; rw [h] at hn; cases hn

theorem Sys.result_stable_run (rng : Nat → Id) (y : Sys) (evs : List DEv) {r} (h : y.result = some r) :
    (y.run rng evs).result = some r := by
  induction evs generalizing y with
  | nil => exact h
  | cons e es ih => exact ih (y.step rng e) (Sys.result_stable rng y e h)

end Cedar.Ccb
