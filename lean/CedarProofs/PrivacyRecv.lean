/-
  C09, receiver side: the frames `sendAd` emits decompose into runs of equally protected frames
  whose payloads are the reference encodings of the items; the receiver (`recvAd`), which pulls a
  frame only when its buffer runs dry, reads them back run by run — the crypto toggle of
  `getSecretString` always meets a frame boundary.
-/
import CedarProofs.PrivacyLemmas

namespace Cedar.Privacy
open Cedar

/-! ### facts about the typed encoder: flushed frames are partial, the buffer after a string is non-empty -/

theorem seqPut_frames (r1 : PutRes) (f : Bytes → PutRes) :
    (seqPut r1 f).2 = r1.2 ++ (f r1.1).2 ∧ (seqPut r1 f).1 = (f r1.1).1 := by
  simp [seqPut]

theorem putInt_partial (buf : Bytes) (v : Int) : ∀ f ∈ (putInt buf v).2, f.2 = false := by
  unfold putInt; split <;> simp

theorem putChar_partial (buf : Bytes) (c : UInt8) : ∀ f ∈ (putChar buf c).2, f.2 = false := by
  unfold putChar; split <;> simp

theorem putChunks_partial : ∀ (chunks : List Bytes) (buf : Bytes), ∀ f ∈ (putChunks buf chunks).2, f.2 = false := by
  intro chunks
  induction chunks with
  | nil => intro buf f hf; simp [putChunks] at hf
  | cons ch rest ih =>
    intro buf f hf
    unfold putChunks at hf
    by_cases hb : buf.length > 0
    · simp only [hb, if_true, List.nil_append] at hf
      simp only [List.mem_append, List.mem_singleton] at hf
      rcases hf with rfl | h
      · rfl
      · exact ih _ f h
    · simp only [hb, if_false, List.nil_append] at hf
      exact ih _ f hf

theorem putBytes_partial (enc : Bool) (buf data : Bytes) : ∀ f ∈ (putBytes enc buf data).2, f.2 = false := by
  unfold putBytes
  split
  · simp
  · split
    · exact putChunks_partial _ _
    · split <;> simp

theorem flushIf_partial (buf : Bytes) (c : Prop) [Decidable c] (g : OutFrame)
    (hg : g ∈ (if c then (([] : Bytes), [((buf, false) : OutFrame)]) else (buf, [])).2) : g.2 = false := by
  split at hg
  · simp only [List.mem_singleton] at hg; rw [hg]
  · simp at hg

theorem putString_partial (enc : Bool) (buf s : Bytes) : ∀ f ∈ (putString enc buf s).2, f.2 = false := by
  intro f hf
  cases enc with
  | false =>
    simp only [putString, Bool.false_eq_true, if_false, Nat.add_zero] at hf
    by_cases hbig : (truncNul s ++ [0]).length > maxFramePayload false
    · rw [if_pos hbig, (seqPut_frames _ _).1] at hf
      rcases List.mem_append.mp hf with h | h
      · exact flushIf_partial buf _ f h
      · exact putBytes_partial _ _ _ f h
    · rw [if_neg hbig] at hf
      exact flushIf_partial buf _ f hf
  | true =>
    simp only [putString, if_true] at hf
    by_cases hbig : (truncNul s ++ [0]).length + 8 > maxFramePayload true
    · rw [if_pos hbig, (seqPut_frames _ _).1, (seqPut_frames _ _).1] at hf
      rcases List.mem_append.mp hf with h | h
      · rcases List.mem_append.mp h with h | h
        · exact flushIf_partial buf _ f h
        · exact putInt_partial _ _ f h
      · exact putBytes_partial _ _ _ f h
    · rw [if_neg hbig] at hf
      simp only [(seqPut_frames _ _).1] at hf
      rcases List.mem_append.mp hf with h | h
      · exact flushIf_partial buf _ f h
      · exact putInt_partial _ _ f h

theorem putVal_partial (enc : Bool) (buf : Bytes) (v : Val) : ∀ f ∈ (putVal enc buf v).2, f.2 = false := by
  cases v with
  | int x => exact putInt_partial buf x
  | char c => exact putChar_partial buf c
  | str s => exact putString_partial enc buf s


theorem putChunks_buf_ne : ∀ (chunks : List Bytes) (buf : Bytes), chunks ≠ [] → (∀ ch ∈ chunks, ch ≠ []) →
    (putChunks buf chunks).1 ≠ [] := by
  intro chunks
  induction chunks with
  | nil => intro buf h; exact absurd rfl h
  | cons ch rest ih =>
    intro buf _ hall
    have hch : ch ≠ [] := hall ch (List.mem_cons_self ..)
    have key : ∀ b1 : Bytes, (putChunks (b1 ++ ch) rest).1 ≠ [] := by
      intro b1
      cases rest with
      | nil => simp [putChunks, hch]
      | cons c2 r2 => exact ih _ (by simp) (fun x hx => hall x (List.mem_cons_of_mem _ hx))
    unfold putChunks
    by_cases hb : buf.length > 0
    · simp only [hb, if_true]; exact key []
    · simp only [hb, if_false]; exact key buf

theorem chunksOf_ne (n : Nat) (hn : 0 < n) : ∀ (fuel : Nat) (data : Bytes), ∀ ch ∈ chunksOf n fuel data, ch ≠ [] := by
  intro fuel
  induction fuel with
  | zero => intro data ch h; simp [chunksOf] at h
  | succ k ih =>
    intro data ch h
    unfold chunksOf at h
    cases data with
    | nil => simp at h
    | cons b t =>
      simp only [List.isEmpty_cons, Bool.false_eq_true, if_false, List.mem_cons] at h
      rcases h with rfl | h
      · cases n with
        | zero => omega
        | succ m => simp
      · exact ih _ ch h

theorem putBytes_buf_ne (enc : Bool) (buf data : Bytes) (hd : data ≠ []) : (putBytes enc buf data).1 ≠ [] := by
  have hl : data.length ≠ 0 := by
    intro h; exact hd (List.eq_nil_of_length_eq_zero h)
  have hpos : 0 < maxFramePayload enc := by cases enc <;> decide
  unfold putBytes
  rw [if_neg hl]
  by_cases hbig : data.length > maxFramePayload enc
  · rw [if_pos hbig]
    apply putChunks_buf_ne
    · cases data with
      | nil => exact absurd rfl hd
      | cons b t => simp [chunksOf]
    · exact chunksOf_ne _ hpos _ _
  · rw [if_neg hbig]
    split
    · exact hd
    · simp [hd]

/-- after `PutString` the buffer is never empty (it holds at least the terminator) -/
theorem putString_buf_ne (enc : Bool) (buf s : Bytes) : (putString enc buf s).1 ≠ [] := by
  have hd : truncNul s ++ [0] ≠ [] := by simp
  cases enc with
  | false =>
    simp only [putString, Bool.false_eq_true, if_false, Nat.add_zero]
    split
    · rw [(seqPut_frames _ _).2]; exact putBytes_buf_ne _ _ _ hd
    · simp
  | true =>
    simp only [putString, if_true]
    split
    · rw [(seqPut_frames _ _).2]; exact putBytes_buf_ne _ _ _ hd
    · simp


/-! ### runs of equally protected frames, and the decoder's view of the run it is in -/

def flat (seg : List PFrame) : Bytes := (seg.map (·.payload)).flatten

@[simp] theorem flat_nil : flat [] = [] := rfl
@[simp] theorem flat_cons (f : PFrame) (r : List PFrame) : flat (f :: r) = f.payload ++ flat r := by simp [flat]
@[simp] theorem flat_append (a b : List PFrame) : flat (a ++ b) = flat a ++ flat b := by simp [flat]

/-- a run of frames with protection `c`: only its last frame may carry the end-of-message flag
    (and only if `fin`: it is the message's last run); unless `fin`, its last frame is not empty -/
def okSeg (c fin : Bool) : List PFrame → Prop
  | [] => True
  | [f] => f.sealed = c ∧ (fin = false → f.payload ≠ []) ∧ (f.eom = true → fin = true)
  | f :: g :: r => f.sealed = c ∧ f.eom = false ∧ okSeg c fin (g :: r)

theorem okSeg_cons {c fin : Bool} {f : PFrame} {r : List PFrame} (h : okSeg c fin (f :: r)) :
    f.sealed = c ∧ okSeg c fin r ∧ (f.eom = true → r = [] ∧ fin = true) := by
  cases r with
  | nil => exact ⟨h.1, trivial, fun he => ⟨rfl, h.2.2 he⟩⟩
  | cons g t => exact ⟨h.1, h.2.2, fun he => by rw [h.2.1] at he; cases he⟩

theorem okSeg_flat_nil {c : Bool} : ∀ {seg : List PFrame}, okSeg c false seg → flat seg = [] → seg = [] := by
  intro seg
  induction seg with
  | nil => intro _ _; rfl
  | cons f r ih =>
    intro h hf
    simp only [flat_cons, List.append_eq_nil_iff] at hf
    cases r with
    | nil => exact absurd hf.1 (h.2.1 rfl)
    | cons g t => have := ih h.2.2 hf.2; cases this

/-- frames of protection `c` without the end flag, followed by a non-empty run, form a run -/
theorem okSeg_append {c fin : Bool} : ∀ (cur seg : List PFrame), (∀ f ∈ cur, f.sealed = c ∧ f.eom = false) →
    okSeg c fin seg → seg ≠ [] → okSeg c fin (cur ++ seg) := by
  intro cur
  induction cur with
  | nil => intro seg _ h _; exact h
  | cons f r ih =>
    intro seg hc hs hne
    have hf := hc f (List.mem_cons_self ..)
    have hr := ih seg (fun x hx => hc x (List.mem_cons_of_mem _ hx)) hs hne
    cases hrs : r ++ seg with
    | nil =>
      have : seg = [] := by
        have := congrArg List.length hrs
        simp at this
        exact this.2
      exact absurd this hne
    | cons g t =>
      rw [List.cons_append, hrs]
      rw [hrs] at hr
      exact ⟨hf.1, hf.2, hr⟩

/-- the decoder is inside a run of protection `c`: `B` are the bytes it can still read from the
    run (buffer plus the run's frames not yet pulled), `post` the frames after the run -/
def View (c fin : Bool) (d : RDec) (B : Bytes) (post : List PFrame) : Prop :=
  ∃ seg, d.src = seg ++ post ∧ okSeg c fin seg ∧ d.buf ++ flat seg = B ∧ (d.eom = true → seg = [] ∧ fin = true)

/-- `ensureData(n)` inside a run that still holds `n` bytes: succeeds without leaving the run -/
theorem need_spec (c fin : Bool) (n : Nat) (post : List PFrame) : ∀ (seg : List PFrame) (buf : Bytes) (eom : Bool) (B : Bytes),
    okSeg c fin seg → buf ++ flat seg = B → (eom = true → seg = [] ∧ fin = true) → n ≤ B.length →
    ∃ d', need c n buf eom (seg ++ post) = .ok d' ∧ View c fin d' B post ∧ n ≤ d'.buf.length := by
  intro seg
  induction seg with
  | nil =>
    intro buf eom B _ hB he hn
    simp only [flat_nil, List.append_nil] at hB
    subst hB
    have hl : lenGe buf n = true := (lenGe_iff _ _).mpr hn
    refine ⟨⟨buf, eom, post⟩, ?_, ⟨[], by simp, trivial, by simp, he⟩, hn⟩
    cases post with
    | nil => simp [need, hl]
    | cons g t => simp [need, hl]
  | cons f r ih =>
    intro buf eom B hs hB he hn
    by_cases hl : lenGe buf n = true
    · refine ⟨⟨buf, eom, (f :: r) ++ post⟩, by simp [need, hl], ⟨f :: r, rfl, hs, hB, he⟩, (lenGe_iff _ _).mp hl⟩
    · have heom : eom = false := by
        cases eom with
        | false => rfl
        | true => have := (he rfl).1; cases this
      obtain ⟨hf, hr, hfe⟩ := okSeg_cons hs
      have hstep : need c n buf eom ((f :: r) ++ post) = need c n (buf ++ f.payload) f.eom (r ++ post) := by
        simp [need, hl, heom, hf]
      rw [hstep]
      exact ih (buf ++ f.payload) f.eom B hr (by rw [← hB]; simp) hfe hn

theorem View.need {c fin : Bool} {d : RDec} {B : Bytes} {post : List PFrame} (h : View c fin d B post)
    (n : Nat) (hn : n ≤ B.length) :
    ∃ d', Privacy.need c n d.buf d.eom d.src = .ok d' ∧ View c fin d' B post ∧ n ≤ d'.buf.length := by
  obtain ⟨seg, hsrc, hs, hB, he⟩ := h
  rw [hsrc]
  exact need_spec c fin n post seg d.buf d.eom B hs hB he hn

/-- consuming `k` buffered bytes -/
theorem View.drop {c fin : Bool} {d : RDec} {B : Bytes} {post : List PFrame} (h : View c fin d B post)
    (k : Nat) (hk : k ≤ d.buf.length) :
    View c fin { d with buf := d.buf.drop k } (B.drop k) post ∧ d.buf.take k = B.take k := by
  obtain ⟨seg, hsrc, hs, hB, he⟩ := h
  refine ⟨⟨seg, hsrc, hs, ?_, he⟩, ?_⟩
  · rw [← hB, List.drop_append_of_le_length hk]
  · rw [← hB, List.take_append_of_le_length hk]

/-- a run that is not the message's last and has been read to its end: the decoder's buffer is
    empty and the next frame it will pull is the first frame after the run -/
theorem View.atEnd {c : Bool} {d : RDec} {post : List PFrame} (h : View c false d [] post) :
    d.buf = [] ∧ d.src = post ∧ d.eom = false := by
  obtain ⟨seg, hsrc, hs, hB, he⟩ := h
  simp only [List.append_eq_nil_iff] at hB
  have := okSeg_flat_nil hs hB.2
  subst this
  refine ⟨hB.1, by simpa using hsrc, ?_⟩
  cases hd : d.eom with
  | false => rfl
  | true => have := (he hd).2; cases this


/-! ### the typed reads, inside a run -/

theorem take_append_exact (a b : Bytes) (n : Nat) (h : a.length = n) : (a ++ b).take n = a := by
  subst h; simp

theorem drop_append_exact (a b : Bytes) (n : Nat) (h : a.length = n) : (a ++ b).drop n = b := by
  subst h; simp

theorem getInt_view {c fin : Bool} {d : RDec} {x : Nat} {B' : Bytes} {post : List PFrame}
    (h : View c fin d (be64 x ++ B') post) (hx : x < 2^64) :
    ∃ d', d.getInt c = .ok (ofU64 x, d') ∧ View c fin d' B' post := by
  obtain ⟨d1, hok, hv, hl⟩ := h.need 8 (by simp [be64])
  obtain ⟨hv2, htake⟩ := hv.drop 8 hl
  refine ⟨{ d1 with buf := d1.buf.drop 8 }, ?_, ?_⟩
  · unfold RDec.getInt
    rw [hok]
    simp only
    rw [htake, take_append_exact _ _ 8 (by simp [be64]), beVal_be64 _ hx]
  · rw [drop_append_exact _ _ 8 (by simp [be64])] at hv2
    exact hv2

theorem splitNul_some : ∀ (s t : Bytes), (∀ b ∈ s, b ≠ 0) → splitNul (s ++ 0 :: t) = some (s, t) := by
  intro s
  induction s with
  | nil => intro t _; simp [splitNul]
  | cons b r ih =>
    intro t h
    have hb : b ≠ 0 := h b (List.mem_cons_self ..)
    simp [splitNul, hb, ih t (fun x hx => h x (List.mem_cons_of_mem _ hx))]

theorem splitNul_none : ∀ (s : Bytes), (∀ b ∈ s, b ≠ 0) → splitNul s = none := by
  intro s
  induction s with
  | nil => intro _; rfl
  | cons b r ih =>
    intro h
    have hb : b ≠ 0 := h b (List.mem_cons_self ..)
    simp [splitNul, hb, ih (fun x hx => h x (List.mem_cons_of_mem _ hx))]

/-- cleartext `GetString` inside a run that holds the string and its terminator -/
theorem getCStrP_spec (c fin : Bool) (post : List PFrame) : ∀ (seg : List PFrame) (acc buf : Bytes) (eom : Bool) (s B' : Bytes),
    okSeg c fin seg → buf ++ flat seg = s ++ 0 :: B' → (eom = true → seg = [] ∧ fin = true) → (∀ b ∈ s, b ≠ 0) →
    ∃ d', getCStrP c acc buf eom (seg ++ post) = .ok (acc ++ s, d') ∧ View c fin d' B' post := by
  intro seg
  induction seg with
  | nil =>
    intro acc buf eom s B' _ hB he hnz
    simp only [flat_nil, List.append_nil] at hB
    subst hB
    refine ⟨⟨B', eom, post⟩, ?_, ⟨[], by simp, trivial, by simp, he⟩⟩
    cases post with
    | nil => simp [getCStrP, splitNul_some s B' hnz]
    | cons g t => simp [getCStrP, splitNul_some s B' hnz]
  | cons f r ih =>
    intro acc buf eom s B' hs hB he hnz
    rcases List.append_eq_append_iff.mp hB with ⟨a', hs1, hf1⟩ | ⟨c', hb1, hc1⟩
    · -- the buffer holds only a prefix of the string: pull the next frame of the run
      have hbnz : ∀ b ∈ buf, b ≠ 0 := fun b hb => hnz b (by rw [hs1]; exact List.mem_append_left _ hb)
      have heom : eom = false := by
        cases eom with
        | false => rfl
        | true => have := (he rfl).1; cases this
      obtain ⟨hf, hr, hfe⟩ := okSeg_cons hs
      have hstep : getCStrP c acc buf eom ((f :: r) ++ post) = getCStrP c (acc ++ buf) f.payload f.eom (r ++ post) := by
        simp [getCStrP, splitNul_none buf hbnz, heom, hf]
      rw [hstep]
      obtain ⟨d', hok, hv⟩ := ih (acc ++ buf) f.payload f.eom a' B' hr (by simpa using hf1) hfe
        (fun b hb => hnz b (by rw [hs1]; exact List.mem_append_right _ hb))
      exact ⟨d', by rw [hok, hs1, List.append_assoc], hv⟩
    · cases c' with
      | nil =>
        -- the buffer is exactly the string: the terminator is in a later frame
        simp only [List.append_nil, List.nil_append] at hb1 hc1
        have hbnz : ∀ b ∈ buf, b ≠ 0 := by rw [hb1]; exact hnz
        have heom : eom = false := by
          cases eom with
          | false => rfl
          | true => have := (he rfl).1; cases this
        obtain ⟨hf, hr, hfe⟩ := okSeg_cons hs
        have hstep : getCStrP c acc buf eom ((f :: r) ++ post) = getCStrP c (acc ++ buf) f.payload f.eom (r ++ post) := by
          simp [getCStrP, splitNul_none buf hbnz, heom, hf]
        rw [hstep]
        obtain ⟨d', hok, hv⟩ := ih (acc ++ buf) f.payload f.eom [] B' hr (by simpa using hc1.symm) hfe (by simp)
        exact ⟨d', by rw [hok, hb1]; simp, hv⟩
      | cons x t =>
        simp only [List.cons_append, List.cons.injEq] at hc1
        obtain ⟨rfl, hB'⟩ := hc1
        refine ⟨⟨t, eom, (f :: r) ++ post⟩, ?_, ⟨f :: r, rfl, hs, hB'.symm, he⟩⟩
        rw [hb1]
        simp [getCStrP, splitNul_some s t hnz]

theorem getCStrP_view {c fin : Bool} {d : RDec} {s B' : Bytes} {post : List PFrame}
    (h : View c fin d (s ++ 0 :: B') post) (hnz : ∀ b ∈ s, b ≠ 0) :
    ∃ d', getCStrP c [] d.buf d.eom d.src = .ok (s, d') ∧ View c fin d' B' post := by
  obtain ⟨seg, hsrc, hs, hB, he⟩ := h
  rw [hsrc]
  simpa using getCStrP_spec c fin post seg [] d.buf d.eom s B' hs hB he hnz

/-- length-prefixed `GetString` inside a run that holds prefix, string and terminator -/
theorem getLStrP_view {c fin : Bool} {d : RDec} {s B' : Bytes} {post : List PFrame}
    (h : View c fin d (be64 (s.length + 1) ++ (s ++ 0 :: B')) post)
    (hlen : s.length + 1 < 2^31) (hfirst : s.head? ≠ some binNullChar) :
    ∃ d', getLStrP c d = .ok (s, d') ∧ View c fin d' B' post := by
  obtain ⟨d1, hok1, hv1⟩ := getInt_view h (by omega)
  have hval : ofU64 (s.length + 1) = ((s.length + 1 : Nat) : Int) := by
    unfold ofU64
    have : s.length + 1 < 2^63 := by omega
    simp [this]
  have hnn : ¬ (((s.length + 1 : Nat) : Int) < 0) := by omega
  obtain ⟨d2, hok2, hv2, hl2⟩ := hv1.need (s.length + 1) (by simp)
  obtain ⟨hv3, htake⟩ := hv2.drop (s.length + 1) hl2
  have hdata : d2.buf.take (s.length + 1) = s ++ [0] := by
    rw [htake]
    have : s ++ 0 :: B' = (s ++ [0]) ++ B' := by simp
    rw [this, take_append_exact _ _ _ (by simp)]
  have hdrop : (s ++ 0 :: B').drop (s.length + 1) = B' := by
    have : s ++ 0 :: B' = (s ++ [0]) ++ B' := by simp
    rw [this, drop_append_exact _ _ _ (by simp)]
  rw [hdrop] at hv3
  refine ⟨{ d2 with buf := d2.buf.drop (s.length + 1) }, ?_, hv3⟩
  unfold getLStrP
  rw [hok1, hval]
  simp only [toI32_small _ hlen]
  simp only [hnn, if_false, Int.toNat_natCast, hok2, hdata]
  cases hs : s with
  | nil => simp [binNullChar]; decide
  | cons b t =>
    have hb : b ≠ binNullChar := by
      intro hb; apply hfirst; simp [hs, hb]
    simp only [List.cons_append, hb, if_false]
    have := stripTrailingNul_snoc (b :: t)
    simpa using this


/-! ### what the sender emits, as runs -/

abbrev Chunk := Bool × Bytes

def prepend (x : Bytes) : List Chunk → List Chunk
  | [] => [(false, x)]
  | (z, B) :: cs => (z, x ++ B) :: cs

/-- the runs for a list of items when ordinary frames have protection `z` and strings mode `m`:
    consecutive ordinary values share a run; a secret closes the run with the marker, forms a
    protected run of its own, and opens a new one -/
def chunkList (z m : Bool) : List Item → List Chunk
  | [] => [(z, [])]
  | .val v :: r => prepend (Spec.enc m v) (chunkList z m r)
  | .secret e :: r => (z, Spec.enc m (.str marker)) :: (true, Spec.enc true (.str e)) :: chunkList z m r

theorem chunkList_head (z m : Bool) : ∀ its : List Item, ∃ B cs, chunkList z m its = (z, B) :: cs := by
  intro its
  induction its with
  | nil => exact ⟨[], [], rfl⟩
  | cons it r ih =>
    cases it with
    | val v =>
      obtain ⟨B, cs, h⟩ := ih
      exact ⟨Spec.enc m v ++ B, cs, by simp [chunkList, h, prepend]⟩
    | secret e => exact ⟨_, _, rfl⟩

theorem prepend_prepend (x y : Bytes) (cs : List Chunk) : prepend x (prepend y cs) = prepend (x ++ y) cs := by
  cases cs with
  | nil => simp [prepend]
  | cons c t => obtain ⟨z, B⟩ := c; simp [prepend]

theorem prepend_nil_chunkList (z m : Bool) (its : List Item) : prepend [] (chunkList z m its) = chunkList z m its := by
  obtain ⟨B, cs, h⟩ := chunkList_head z m its
  simp [h, prepend]

/-- the frame list is the concatenation of one run per chunk, with that chunk's protection and
    payload bytes; only the last run may end the message -/
def Chunks : List Chunk → List PFrame → Prop
  | [], fs => fs = []
  | (z, B) :: rest, fs => ∃ seg more, fs = seg ++ more ∧ okSeg z rest.isEmpty seg ∧ flat seg = B ∧ Chunks rest more

theorem flat_tag (z : Bool) (fs : List OutFrame) : flat (tagFrames z fs) = (fs.map (·.1)).flatten := by
  simp [flat, tagFrames, Function.comp_def]

theorem tag_partial (z : Bool) (fs : List OutFrame) (h : ∀ f ∈ fs, f.2 = false) :
    ∀ g ∈ tagFrames z fs, g.sealed = z ∧ g.eom = false := by
  intro g hg
  simp only [tagFrames, List.mem_map] at hg
  obtain ⟨f, hf, rfl⟩ := hg
  exact ⟨rfl, h f hf⟩

theorem okSeg_snoc {c fin : Bool} (cur : List PFrame) (last : PFrame) (hc : ∀ f ∈ cur, f.sealed = c ∧ f.eom = false)
    (h1 : last.sealed = c) (h2 : fin = false → last.payload ≠ []) (h3 : last.eom = true → fin = true) :
    okSeg c fin (cur ++ [last]) :=
  okSeg_append cur [last] hc ⟨h1, h2, h3⟩ (by simp)

/-- **decomposition**: everything written for a list of items, closed by `FinishMessage`, is one
    run per chunk. `cur` are frames of the current run written earlier, `acc` its bytes so far. -/
theorem sender_chunks (z m : Bool) : ∀ (its : List Item) (s : Stream) (buf : Bytes) (cur : List PFrame) (acc : Bytes),
    s.crypting = z → s.encrypted = m → ((∃ e, Item.secret e ∈ its) → MarkerState s) → (∀ it ∈ its, it.wf) →
    (∀ f ∈ cur, f.sealed = z ∧ f.eom = false) → flat cur ++ buf = acc →
    Chunks (prepend acc (chunkList z m its))
      (cur ++ ((emitItems s buf its).2.2 ++ [flushOn (emitItems s buf its).1 (emitItems s buf its).2.1 true])) := by
  intro its
  induction its with
  | nil =>
    intro s buf cur acc hz _ _ _ hcur hacc
    simp only [chunkList, prepend, emitItems, List.nil_append, List.append_nil]
    refine ⟨cur ++ [flushOn s buf true], [], by simp, ?_, by simp [flushOn, hacc], rfl⟩
    exact okSeg_snoc cur _ hcur (by simp [flushOn, hz]) (by simp) (by simp)
  | cons it r ih =>
    intro s buf cur acc hz hm hsec hwf hcur hacc
    cases it with
    | val v =>
      have hv : v.wf := hwf (.val v) (List.mem_cons_self ..)
      have hw := wireBytes_putVal m buf v hv
      have hcur' : ∀ f ∈ cur ++ tagFrames z (putVal m buf v).2, f.sealed = z ∧ f.eom = false := by
        intro f hf
        rcases List.mem_append.mp hf with h | h
        · exact hcur f h
        · exact tag_partial z _ (putVal_partial m buf v) f h
      have hacc' : flat (cur ++ tagFrames z (putVal m buf v).2) ++ (putVal m buf v).1 = acc ++ Spec.enc m v := by
        rw [flat_append, flat_tag, List.append_assoc]
        unfold wireBytes at hw
        rw [hw, ← List.append_assoc, hacc]
      have := ih s (putVal m buf v).1 (cur ++ tagFrames z (putVal m buf v).2) (acc ++ Spec.enc m v) hz hm
        (fun ⟨e, he⟩ => hsec ⟨e, List.mem_cons_of_mem _ he⟩)
        (fun x hx => hwf x (List.mem_cons_of_mem _ hx)) hcur' hacc'
      simp only [chunkList, prepend_prepend, emitItems, emitItem, putOn, hz, hm]
      simpa [List.append_assoc] using this
    | secret e =>
      have hs : MarkerState s := hsec ⟨e, List.mem_cons_self ..⟩
      have hz0 : z = false := by rw [← hz]; exact hs.crypting
      have hm0 : m = false := by rw [← hm]; exact hs.clear
      subst hz0; subst hm0
      obtain ⟨he1, hc1, hr1⟩ := hs.prepare
      have hwe : (Val.str e).wf := hwf (.secret e) (List.mem_cons_self ..)
      have hw1 := wireBytes_putVal false buf (.str marker) marker_wf
      have hw2 := wireBytes_putVal true [] (.str e) hwe
      unfold wireBytes at hw1 hw2
      have hrest := ih s.prepareSecret.restoreSecret [] [] [] hr1.crypting hr1.clear (fun _ => hr1)
        (fun x hx => hwf x (List.mem_cons_of_mem _ hx)) (by simp) (by simp)
      rw [prepend_nil_chunkList] at hrest
      simp only [List.nil_append] at hrest
      simp only [chunkList, prepend, emitItems, emitItem, putSecretExpr, putOn, hs.crypting, hs.clear, he1, hc1]
      -- first run: earlier frames, what the marker put flushed, and the explicit flush
      refine ⟨cur ++ (tagFrames false (putVal false buf (.str marker)).2 ++ [flushOn s (putVal false buf (.str marker)).1 false]),
        _, (by simp only [List.append_assoc]; rfl), ?_, ?_, ?_⟩
      · rw [← List.append_assoc]
        apply okSeg_snoc
        · intro f hf
          rcases List.mem_append.mp hf with h | h
          · exact hcur f h
          · exact tag_partial false _ (putVal_partial false buf _) f h
        · simp [flushOn, hs.crypting]
        · intro _; exact putString_buf_ne false buf marker
        · simp [flushOn]
      · rw [flat_append, flat_append, flat_tag]
        simp only [flat_cons, flat_nil, flushOn, List.append_nil]
        rw [hw1, ← List.append_assoc, hacc]
      · -- second run: the secret alone, protected
        refine ⟨tagFrames true (putVal true [] (.str e)).2 ++ [flushOn s.prepareSecret (putVal true [] (.str e)).1 false],
          _, (by simp only [List.append_assoc]), ?_, ?_, hrest⟩
        · apply okSeg_snoc
          · exact tag_partial true _ (putVal_partial true [] _)
          · simp [flushOn, hc1]
          · intro _; exact putString_buf_ne true [] e
          · simp [flushOn]
        · rw [flat_append, flat_tag]
          simp only [flat_cons, flat_nil, flushOn, List.append_nil]
          rw [hw2]; simp


/-! ### the receiver, chunk by chunk -/

/-- the decoder stands in the first chunk, with exactly that chunk's bytes still to read -/
def Pos (d : RDec) : List Chunk → Prop
  | [] => False
  | (z, B) :: rest => ∃ post, View z rest.isEmpty d B post ∧ Chunks rest post

theorem Pos.init {c : Chunk} {rest : List Chunk} {fs : List PFrame} (h : Chunks (c :: rest) fs) :
    Pos ⟨[], false, fs⟩ (c :: rest) := by
  obtain ⟨z, B⟩ := c
  obtain ⟨seg, more, hfs, hs, hB, hr⟩ := h
  exact ⟨more, ⟨seg, hfs, hs, by simpa using hB, by simp⟩, hr⟩

/-- at the end of a chunk that is not the last, the decoder is at the start of the next one:
    this is where the crypto toggle of a secret meets a frame boundary -/
theorem Pos.next {d : RDec} {z : Bool} {c : Chunk} {rest : List Chunk} (h : Pos d ((z, []) :: c :: rest)) :
    Pos d (c :: rest) := by
  obtain ⟨post, hv, hch⟩ := h
  obtain ⟨hbuf, hsrc, heom⟩ := View.atEnd (by simpa using hv)
  obtain ⟨z', B'⟩ := c
  obtain ⟨seg, more, hfs, hs, hB, hr⟩ := hch
  exact ⟨more, ⟨seg, by rw [hsrc, hfs], hs, by simp [hbuf, hB], by simp [heom]⟩, hr⟩

theorem getInt_pos {d : RDec} {z : Bool} {x : Int} {B : Bytes} {cs : List Chunk}
    (h : Pos d ((z, Spec.enc false (.int x) ++ B) :: cs)) (hx : (Val.int x).wf) :
    ∃ d', d.getInt z = .ok (x, d') ∧ Pos d' ((z, B) :: cs) := by
  obtain ⟨post, hv, hch⟩ := h
  simp only [Spec.enc] at hv
  obtain ⟨d', hok, hv'⟩ := getInt_view hv (toU64_lt x)
  rw [ofU64_toU64 x hx.1 hx.2] at hok
  exact ⟨d', hok, post, hv', hch⟩

theorem getString_pos {r : Stream} {d : RDec} {z m : Bool} {x B : Bytes} {cs : List Chunk}
    (hz : r.crypting = z) (hm : r.encrypted = m)
    (h : Pos d ((z, Spec.enc m (.str x) ++ B) :: cs)) (hx : (Val.str x).wf) :
    ∃ d', d.getString r = .ok (x, d') ∧ Pos d' ((z, B) :: cs) := by
  obtain ⟨post, hv, hch⟩ := h
  unfold RDec.getString
  rw [hm, hz]
  cases m with
  | false =>
    simp only [Spec.enc, Bool.false_eq_true, if_false, List.nil_append, List.append_assoc, List.singleton_append] at hv ⊢
    obtain ⟨d', hok, hv'⟩ := getCStrP_view hv hx.1
    exact ⟨d', hok, post, hv', hch⟩
  | true =>
    simp only [Spec.enc, if_true, List.append_assoc, List.singleton_append] at hv ⊢
    obtain ⟨d', hok, hv'⟩ := getLStrP_view hv hx.2.1 hx.2.2
    exact ⟨d', hok, post, hv', hch⟩

/-- an item in expression position: an ordinary expression string (never the bare marker) or a secret -/
def Item.isExpr : Item → Prop
  | .val (.str x) => x ≠ marker
  | .val _ => False
  | .secret _ => True

/-- the string the receiver ends up with for an expression item -/
def Item.exprOf : Item → Bytes
  | .val (.str x) => x
  | .val _ => []
  | .secret e => e

/-- **the expression loop**: `recvExprs` reads back one string per item — for a secret, the marker
    from the current run, then (crypto toggled) the expression from the protected run, then it
    is back at the start of the next unprotected run. -/
theorem recvExprs_pos (z m : Bool) (r : Stream) (hz : r.crypting = z) (hm : r.encrypted = m) (tl : List Item) :
    ∀ (eits : List Item) (d : RDec), ((∃ e, Item.secret e ∈ eits) → MarkerState r) →
      (∀ it ∈ eits, it.wf ∧ it.isExpr) → Pos d (chunkList z m (eits ++ tl)) →
      ∃ d', recvExprs r eits.length d = .ok (eits.map Item.exprOf, d') ∧ Pos d' (chunkList z m tl) := by
  intro eits
  induction eits with
  | nil => intro d _ _ h; exact ⟨d, rfl, h⟩
  | cons it rest ih =>
    intro d hsec hall hpos
    have hit := hall it (List.mem_cons_self ..)
    have hsec' : (∃ e, Item.secret e ∈ rest) → MarkerState r := fun ⟨e, he⟩ => hsec ⟨e, List.mem_cons_of_mem _ he⟩
    have hall' : ∀ x ∈ rest, x.wf ∧ x.isExpr := fun x hx => hall x (List.mem_cons_of_mem _ hx)
    obtain ⟨B, cs, hhead⟩ := chunkList_head z m (rest ++ tl)
    cases it with
    | val v =>
      cases v with
      | int x => exact absurd hit.2 (by simp [Item.isExpr])
      | char x => exact absurd hit.2 (by simp [Item.isExpr])
      | str x =>
        simp only [List.cons_append, chunkList, hhead, prepend] at hpos
        obtain ⟨d1, hok1, hp1⟩ := getString_pos hz hm hpos hit.1
        rw [← hhead] at hp1
        obtain ⟨d2, hok2, hp2⟩ := ih d1 hsec' hall' hp1
        have hne : x ≠ marker := hit.2
        refine ⟨d2, ?_, hp2⟩
        simp [recvExprs, hok1, hne, hok2, Item.exprOf]
    | secret e =>
      have hs : MarkerState r := hsec ⟨e, List.mem_cons_self ..⟩
      have hz0 : z = false := by rw [← hz]; exact hs.crypting
      have hm0 : m = false := by rw [← hm]; exact hs.clear
      subst hz0; subst hm0
      obtain ⟨he1, hc1, _⟩ := hs.prepare
      simp only [List.cons_append, chunkList] at hpos
      have hpos' : Pos d ((false, Spec.enc false (.str marker) ++ []) :: (true, Spec.enc true (.str e)) :: chunkList false false (rest ++ tl)) := by
        simpa using hpos
      obtain ⟨d1, hok1, hp1⟩ := getString_pos hz hm hpos' marker_wf
      have hp1' : Pos d1 ((true, Spec.enc true (.str e) ++ []) :: chunkList false false (rest ++ tl)) := by
        simpa using Pos.next hp1
      obtain ⟨d2, hok2, hp2⟩ := getString_pos hc1 he1 hp1' hit.1
      rw [hhead] at hp2
      have hp3 := Pos.next hp2
      rw [← hhead] at hp3
      obtain ⟨d3, hok3, hp4⟩ := ih d2 hsec' hall' hp3
      refine ⟨d3, ?_, hp4⟩
      simp [recvExprs, hok1, hok2, hok3, Item.exprOf]


/-! ### the whole ad -/

/-- the expression strings an honest receiver must end up with -/
def expectedExprs (c : Config) (ad : Ad) : List Bytes :=
  (if hasOpt c.options optServerTime then [serverTimePrefix ++ intDecimal c.now] else [])
    ++ (attrsToSend c ad).map exprStr

/-- the items in expression position -/
def exprItems (c : Config) (s : Stream) (ad : Ad) : List Item :=
  (if hasOpt c.options optServerTime then [Item.val (.str (serverTimePrefix ++ intDecimal c.now))] else [])
    ++ (attrsToSend c ad).map (attrItem (!secretIsNoop s) c.encryptedAttrs)

theorem exprStr_ne_marker (a : Attr) : exprStr a ≠ marker := by
  intro h
  have h1 : (32 : UInt8) ∈ exprStr a := by simp [exprStr, assign, asciiBytes]
  rw [h] at h1
  revert h1; decide

theorem serverTime_ne_marker (t : Int) : serverTimePrefix ++ intDecimal t ≠ marker := by
  intro h
  have h1 : (32 : UInt8) ∈ serverTimePrefix ++ intDecimal t := by
    apply List.mem_append_left; decide
  rw [h] at h1
  revert h1; decide

theorem exprItems_exprOf (c : Config) (s : Stream) (ad : Ad) :
    (exprItems c s ad).map Item.exprOf = expectedExprs c ad := by
  unfold exprItems expectedExprs
  rw [List.map_append]
  congr 1
  · split <;> simp [Item.exprOf]
  · rw [List.map_map]
    apply List.map_congr_left
    intro a _
    simp only [Function.comp, attrItem]
    split <;> rfl

theorem exprItems_isExpr (c : Config) (s : Stream) (ad : Ad) : ∀ it ∈ exprItems c s ad, it.isExpr := by
  intro it hit
  simp only [exprItems, List.mem_append, List.mem_map] at hit
  rcases hit with h | ⟨a, _, rfl⟩
  · split at h
    · simp only [List.mem_singleton] at h; subst h; exact serverTime_ne_marker _
    · simp at h
  · simp only [attrItem]
    split
    · trivial
    · exact exprStr_ne_marker a

theorem items_split (ev : Eval) (c : Config) (s : Stream) (ad : Ad) (hty : hasOpt c.options optNoTypes = false) :
    items ev c s ad =
      Item.val (.int (((attrsToSend c ad).length : Int) + (if hasOpt c.options optServerTime then 1 else 0)))
        :: (exprItems c s ad ++ typeItems ev (typeView ad c.encryptedAttrs)) := by
  simp [items, itemsWith, exprItems, hty]

theorem exprItems_length (c : Config) (s : Stream) (ad : Ad) :
    (((attrsToSend c ad).length : Int) + (if hasOpt c.options optServerTime then 1 else 0)).toNat
      = (exprItems c s ad).length := by
  unfold exprItems
  split <;> simp <;> omega

/-- **round trip**: whatever the stream state — no key, encrypting, or keyed but not encrypting
    (marker path) — a receiver whose stream is in the same state reads back, from exactly the
    frames `PutClassAdWithOptions` + `FinishMessage` wrote, the expression count, every
    expression that was to be sent (secret ones included, in order) and the two type strings. -/
theorem recvAd_sendAd (ev : Eval) (c : Config) (s r : Stream) (ad : Ad)
    (hk : r.key.isSome = s.key.isSome) (he : r.encrypted = s.encrypted)
    (hty : hasOpt c.options optNoTypes = false) (hw : ∀ it ∈ items ev c s ad, it.wf) :
    ∃ d', recvAd r ⟨[], false, sendAd ev c s ad⟩ =
      .ok (⟨expectedExprs c ad, (ev (typeView ad c.encryptedAttrs) myTypeName).getD [],
            (ev (typeView ad c.encryptedAttrs) targetTypeName).getD []⟩, d') := by
  have hcr : r.crypting = s.crypting := by simp [Stream.crypting, hk, he]
  -- secrets occur only on the marker path
  have hsecS : (∃ e, Item.secret e ∈ items ev c s ad) → MarkerState s := by
    intro ⟨e, hmem⟩
    cases hn : secretIsNoop s with
    | true => have := items_allVal ev c s ad hn _ hmem; simp [Item.isVal] at this
    | false =>
      simp only [secretIsNoop, Bool.or_eq_false_iff] at hn
      refine ⟨?_, hn.2⟩
      cases hkey : s.key with
      | none => simp [hkey] at hn
      | some k => rfl
  have hsecR : (∃ e, Item.secret e ∈ exprItems c s ad) → MarkerState r := by
    intro ⟨e, hmem⟩
    have hs := hsecS ⟨e, by rw [items_split ev c s ad hty]; exact List.mem_cons_of_mem _ (List.mem_append_left _ hmem)⟩
    exact ⟨by rw [hk]; exact hs.keyed, by rw [he]; exact hs.clear⟩
  -- what was written, as runs
  have hch := sender_chunks s.crypting s.encrypted (items ev c s ad) s [] [] [] rfl rfl hsecS hw (by simp) (by simp)
  rw [prepend_nil_chunkList] at hch
  simp only [List.nil_append] at hch
  have hsend : sendAd ev c s ad = (emitItems s [] (items ev c s ad)).2.2 ++
      [flushOn (emitItems s [] (items ev c s ad)).1 (emitItems s [] (items ev c s ad)).2.1 true] := rfl
  rw [← hsend] at hch
  -- the receiver, item by item
  rw [items_split ev c s ad hty] at hch hw
  obtain ⟨B, cs, hhead⟩ := chunkList_head s.crypting s.encrypted (exprItems c s ad ++ typeItems ev (typeView ad c.encryptedAttrs))
  have hcount := hw _ (List.mem_cons_self ..)
  simp only [chunkList, hhead, prepend] at hch
  have hp0 := Pos.init hch
  have hp0' : Pos ⟨[], false, sendAd ev c s ad⟩
      ((s.crypting, Spec.enc false (.int (((attrsToSend c ad).length : Int) + (if hasOpt c.options optServerTime then 1 else 0))) ++ B) :: cs) := by
    simpa [Spec.enc] using hp0
  obtain ⟨d1, hok1, hp1⟩ := getInt_pos hp0' hcount
  rw [← hhead] at hp1
  obtain ⟨d2, hok2, hp2⟩ := recvExprs_pos s.crypting s.encrypted r hcr he (typeItems ev (typeView ad c.encryptedAttrs))
    (exprItems c s ad) d1 hsecR
    (fun it hit => ⟨hw it (List.mem_cons_of_mem _ (List.mem_append_left _ hit)), exprItems_isExpr c s ad it hit⟩) hp1
  rw [exprItems_exprOf] at hok2
  simp only [typeItems, chunkList, prepend] at hp2
  have hmt := hw (.val (.str ((ev (typeView ad c.encryptedAttrs) myTypeName).getD [])))
    (List.mem_cons_of_mem _ (List.mem_append_right _ (by simp [typeItems])))
  have htt := hw (.val (.str ((ev (typeView ad c.encryptedAttrs) targetTypeName).getD [])))
    (List.mem_cons_of_mem _ (List.mem_append_right _ (by simp [typeItems])))
  obtain ⟨d3, hok3, hp3⟩ := getString_pos hcr he hp2 hmt
  obtain ⟨d4, hok4, _⟩ := getString_pos hcr he hp3 htt
  refine ⟨d4, ?_⟩
  unfold recvAd
  rw [hcr, hok1]
  simp only [exprItems_length c s ad, hok2, hok3, hok4]

end Cedar.Privacy
