/-
  Helper lemmas for C08 (literals): the shortcut recognisers against the reference literal syntax.
-/
import CedarModel.Literal

namespace Cedar

/-! ### digits -/

theorem digits_split (t : Bytes) : digitsOf t ++ afterDigits t = t := List.takeWhile_append_dropWhile

theorem all_takeWhile {α : Type} (p : α → Bool) : ∀ l : List α, (l.takeWhile p).all p = true := by
  intro l
  induction l with
  | nil => rfl
  | cons a t ih =>
    cases hp : p a with
    | true => simp [List.takeWhile, hp, ih]
    | false => simp [List.takeWhile, hp]

theorem all_of_afterDigits_nil (t : Bytes) (h : afterDigits t = []) : t.all isDigit = true := by
  have := digits_split t
  rw [h, List.append_nil] at this
  rw [← this]
  exact all_takeWhile isDigit t

theorem head_digit (t : Bytes) (h : (digitsOf t).isEmpty = false) : ∃ a r, t = a :: r ∧ isDigit a = true := by
  cases t with
  | nil => simp [digitsOf] at h
  | cons a r =>
    refine ⟨a, r, rfl, ?_⟩
    unfold digitsOf at h
    cases hd : isDigit a with
    | true => rfl
    | false => simp [List.takeWhile, hd] at h

theorem spaceLen_digit (a : UInt8) (r : Bytes) (h : isDigit a = true) : spaceLen (a :: r) = 0 := by
  unfold isDigit at h
  simp only [Bool.and_eq_true, decide_eq_true_eq] at h
  unfold spaceLen
  have h1 : ((decide (9 ≤ a.toNat) && decide (a.toNat ≤ 13)) || a.toNat == 32) = false := by
    simp; omega
  have h2 : (a.toNat == 194) = false := by simp; omega
  have h3 : (a.toNat == 225) = false := by simp; omega
  have h4 : (a.toNat == 226) = false := by simp; omega
  have h5 : (a.toNat == 227) = false := by simp; omega
  simp [h1, h2, h3, h4, h5]

theorem trimLeft_of_spaceLen_zero (s : Bytes) (h : spaceLen s = 0) : trimLeft s = s := by
  unfold trimLeft
  cases hl : s.length with
  | zero => rfl
  | succ n => simp [trimAux, h]

theorem trimLeft_digit (a : UInt8) (r : Bytes) (h : isDigit a = true) : trimLeft (a :: r) = a :: r :=
  trimLeft_of_spaceLen_zero _ (spaceLen_digit a r h)

/-! ### numbers -/

theorem intTok_parts (u : Bytes) (h : intTok u = true) :
    (digitsOf u).isEmpty = false ∧ afterDigits u = [] := by
  unfold intTok at h
  simp only [Bool.and_eq_true, Bool.not_eq_true', List.isEmpty_iff] at h
  exact ⟨h.1.1, h.1.2⟩

theorem parseInt64_neg (a : UInt8) (r : Bytes) (ha : (a.toNat == cMinus) = true) (hr : intTok r = true) (i : Int)
    (h : parseInt64 (a :: r) = some i) : numTok true r = some (.int i) := by
  obtain ⟨hd, ha'⟩ := intTok_parts r hr
  have hall := all_of_afterDigits_nil r ha'
  have hne : r.isEmpty = false := by
    obtain ⟨x, y, hxy, _⟩ := head_digit r hd
    subst hxy; rfl
  unfold parseInt64 at h
  simp only [ha, if_true, hne, hall, Bool.not_true, Bool.or_self, Bool.false_eq_true, if_false] at h
  unfold numTok
  rw [hr]; simp only [if_true]
  by_cases hm : decVal r < 2^63
  · rw [if_pos (by omega)] at h
    rw [if_pos hm]
    injection h with h; rw [← h]
  · rw [if_neg hm]
    by_cases hm2 : decVal r ≤ 2^63
    · rw [if_pos hm2] at h
      have : decVal r = 2^63 := by omega
      injection h with h
      rw [← h, this]; simp
    · rw [if_neg hm2] at h; cases h

theorem parseInt64_pos (a : UInt8) (r : Bytes) (ha : isDigit a = true) (hr : intTok (a :: r) = true) (i : Int)
    (h : parseInt64 (a :: r) = some i) : numTok false (a :: r) = some (.int i) := by
  obtain ⟨hd, ha'⟩ := intTok_parts _ hr
  have hall := all_of_afterDigits_nil _ ha'
  unfold isDigit at ha
  simp only [Bool.and_eq_true, decide_eq_true_eq] at ha
  have h1 : (a.toNat == cMinus) = false := by simp [cMinus]; omega
  have h2 : (a.toNat == cPlus) = false := by simp [cPlus]; omega
  unfold parseInt64 at h
  simp only [h1, h2, Bool.false_eq_true, if_false, List.isEmpty_cons, hall, Bool.not_true, Bool.or_self] at h
  unfold numTok
  rw [hr]; simp only [if_true]
  by_cases hm : decVal (a :: r) < 2^63
  · rw [if_pos hm] at h; rw [if_pos hm]
    injection h with h; rw [← h]; rfl
  · rw [if_neg hm] at h; cases h

theorem pointReal_realTok (u : Bytes) (h : pointReal u = true) : intTok u = false ∧ realTok u = true := by
  unfold pointReal at h
  simp only [Bool.and_eq_true, Bool.not_eq_true', List.isEmpty_iff] at h
  obtain ⟨hd, hrest⟩ := h
  cases ha : afterDigits u with
  | nil => rw [ha] at hrest; cases hrest
  | cons d r =>
    rw [ha] at hrest
    simp only [Bool.and_eq_true, Bool.not_eq_true', beq_iff_eq] at hrest
    constructor
    · unfold intTok
      rw [ha]; simp
    · unfold realTok
      rw [ha]
      simp only [hrest.1.1, beq_self_eq_true, if_true, hrest.1.2, Bool.not_false, Bool.true_and]
      exact hrest.2

/-! ### strings -/

theorem utf8Len_le (b : Bytes) : utf8Len b ≤ b.length := by
  match b with
  | [] => simp [utf8Len]
  | [a] => simp only [utf8Len]; repeat' split
           all_goals simp
  | [a, b1] => simp only [utf8Len]; repeat' split
               all_goals simp
  | [a, b1, c1] => simp only [utf8Len]; repeat' split
                   all_goals simp
  | a :: b1 :: c1 :: d1 :: r => simp only [utf8Len]; repeat' split
                                all_goals simp

/-- the encoding length is decided by the bytes of the encoding itself -/
theorem utf8Len_append (b x : Bytes) (h : utf8Len b ≠ 0) : utf8Len (b ++ x) = utf8Len b := by
  match b, h with
  | [], h => simp [utf8Len] at h
  | [a], h =>
    simp only [utf8Len, List.cons_append, List.nil_append] at h ⊢
    by_cases h1 : a.toNat < 128
    · simp [h1]
    · simp [h1] at h
  | [a, b1], h =>
    simp only [utf8Len, List.cons_append, List.nil_append] at h ⊢
    by_cases h1 : a.toNat < 128
    · simp [h1]
    · by_cases h2 : (decide (194 ≤ a.toNat) && decide (a.toNat ≤ 223)) = true
      · simp [h1, h2]
      · simp [h1, h2] at h
  | [a, b1, c1], h =>
    simp only [utf8Len, List.cons_append, List.nil_append] at h ⊢
    by_cases h1 : a.toNat < 128
    · simp [h1]
    · by_cases h2 : (decide (194 ≤ a.toNat) && decide (a.toNat ≤ 223)) = true
      · simp [h1, h2]
      · by_cases h3 : (decide (224 ≤ a.toNat) && decide (a.toNat ≤ 239)) = true
        · simp [h1, h2, h3]
        · simp [h1, h2, h3] at h
  | a :: b1 :: c1 :: d1 :: r, _ =>
    simp only [utf8Len, List.cons_append]

theorem hasByte_cons (n : Nat) (a : UInt8) (r : Bytes) : hasByte n (a :: r) = ((a.toNat == n) || hasByte n r) := by
  simp [hasByte]

theorem hasByte_drop (n k : Nat) (b : Bytes) (h : hasByte n b = false) : hasByte n (b.drop k) = false := by
  unfold hasByte at *
  rw [List.any_eq_false] at *
  intro x hx
  exact h x (List.mem_of_mem_drop hx)

/-- a body free of quotes and backslashes and well-formed UTF-8 is copied verbatim up to the closing quote -/
theorem strBody_plain (q : UInt8) (hqq : (q.toNat == cQuote) = true) : ∀ (k : Nat) (b : Bytes) (fuel : Nat) (acc rest : Bytes),
    validUTF8Aux k b = true → hasByte cQuote b = false → hasByte cBackslash b = false → b.length < fuel →
    strBody fuel (b ++ q :: rest) acc = some (acc.reverse ++ b, rest) := by
  intro k
  induction k with
  | zero =>
    intro b fuel acc rest hv _ _ hf
    simp only [validUTF8Aux, List.isEmpty_iff] at hv
    subst hv
    cases fuel with
    | zero => simp at hf
    | succ fuel => simp [strBody, hqq]
  | succ k ih =>
    intro b fuel acc rest hv hq hb hf
    cases fuel with
    | zero => simp at hf
    | succ fuel =>
      cases b with
      | nil => simp [strBody, hqq]
      | cons a r =>
        rw [hasByte_cons] at hq hb
        simp only [Bool.or_eq_false_iff] at hq hb
        unfold validUTF8Aux at hv
        simp only at hv
        cases hl : utf8Len (a :: r) with
        | zero => rw [hl] at hv; cases hv
        | succ j =>
          rw [hl] at hv; simp only at hv
          have hle := utf8Len_le (a :: r)
          rw [hl] at hle
          have happ := utf8Len_append (a :: r) (q :: rest) (by rw [hl]; simp)
          rw [hl] at happ
          simp only [List.cons_append] at happ ⊢
          unfold strBody
          simp only [hq.1, hb.1, Bool.false_eq_true, if_false]
          rw [happ]
          simp only
          have htake : (a :: (r ++ q :: rest)).take (j + 1) = (a :: r).take (j + 1) := by
            rw [← List.cons_append, List.take_append_of_le_length hle]
          have hdrop : (a :: (r ++ q :: rest)).drop (j + 1) = (a :: r).drop (j + 1) ++ q :: rest := by
            rw [← List.cons_append, List.drop_append_of_le_length hle]
          rw [htake, hdrop]
          have hq' : hasByte cQuote ((a :: r).drop (j + 1)) = false :=
            hasByte_drop _ _ _ (by rw [hasByte_cons]; simp [hq.1, hq.2])
          have hb' : hasByte cBackslash ((a :: r).drop (j + 1)) = false :=
            hasByte_drop _ _ _ (by rw [hasByte_cons]; simp [hb.1, hb.2])
          rw [ih _ fuel _ rest hv hq' hb' (by simp only [List.length_drop, List.length_cons] at hf ⊢; omega)]
          simp only [List.reverse_append, List.reverse_reverse, List.append_assoc]
          rw [List.take_append_drop]

/-! ### the shortcut blocks against the reference syntax -/

theorem litCore_cons (a : UInt8) (r : Bytes) (hT : asciiEqualFold (a :: r) wTrue = false) (hF : asciiEqualFold (a :: r) wFalse = false) :
    litCore (a :: r) =
        if a.toNat == cQuote then (strToks ((a :: r).length + 1) (a :: r) []).map LitVal.str
        else if a.toNat == cMinus then numTok true (trimLeft r)
        else numTok false (a :: r) := by
  unfold litCore
  rw [if_neg (by simp [hT]), if_neg (by simp [hF])]

theorem digit_not_special (a : UInt8) (h : isDigit a = true) :
    (a.toNat == cQuote) = false ∧ (a.toNat == cMinus) = false := by
  unfold isDigit at h
  simp only [Bool.and_eq_true, decide_eq_true_eq] at h
  constructor <;> simp [cQuote, cMinus] <;> omega

theorem minus_not_quote (a : UInt8) (h : (a.toNat == cMinus) = true) : (a.toNat == cQuote) = false := by
  simp only [beq_iff_eq, cMinus] at h
  simp [cQuote, h]

theorem numShortcut_litCore (ferr : Bytes → Bool) (s t : Bytes) (v : LitVal)
    (hT : asciiEqualFold t wTrue = false) (hF : asciiEqualFold t wFalse = false)
    (h : numShortcut ferr s t = some v) : litCore t = some v := by
  unfold numShortcut at h
  cases s with
  | nil => cases h
  | cons c s' =>
    simp only at h
    split at h
    · split at h
      · -- integer branch
        split at h
        · rename_i _ _ hI
          cases hp : parseInt64 t with
          | none => rw [hp] at h; cases h
          | some i =>
            rw [hp] at h; simp only [Option.map_some] at h
            injection h with h; subst h
            unfold isIntegerLiteralText at hI
            cases t with
            | nil => simp [stripMinus, intTok, digitsOf] at hI
            | cons a r =>
              rw [litCore_cons a r hT hF]
              by_cases ha : (a.toNat == cMinus) = true
              · have hs : stripMinus (a :: r) = r := by simp [stripMinus, ha]
                rw [hs] at hI
                obtain ⟨hd, _⟩ := intTok_parts r hI
                obtain ⟨x, y, hxy, hx⟩ := head_digit r hd
                rw [minus_not_quote a ha, ha]
                simp only [Bool.false_eq_true, if_false, if_true]
                rw [hxy, trimLeft_digit x y hx, ← hxy]
                exact parseInt64_neg a r ha hI i hp
              · have ha' : (a.toNat == cMinus) = false := by simpa using ha
                have hs : stripMinus (a :: r) = a :: r := by simp [stripMinus, ha']
                rw [hs] at hI
                obtain ⟨hd, _⟩ := intTok_parts _ hI
                obtain ⟨x, y, hxy, hx⟩ := head_digit _ hd
                injection hxy with h1 h2; subst h1
                rw [(digit_not_special a hx).1, ha']
                simp only [Bool.false_eq_true, if_false]
                exact parseInt64_pos a r hx hI i hp
        · cases h
      · -- real branch
        split at h
        · rename_i _ _ hR
          injection h with h; subst h
          simp only [Bool.and_eq_true] at hR
          have hR1 := hR.1
          unfold isRealLiteralText at hR1
          cases t with
          | nil => simp [stripMinus, pointReal, digitsOf] at hR1
          | cons a r =>
            rw [litCore_cons a r hT hF]
            by_cases ha : (a.toNat == cMinus) = true
            · have hs : stripMinus (a :: r) = r := by simp [stripMinus, ha]
              rw [hs] at hR1 ⊢
              obtain ⟨hi, hr⟩ := pointReal_realTok r hR1
              have hd : (digitsOf r).isEmpty = false := by
                unfold pointReal at hR1
                simp only [Bool.and_eq_true, Bool.not_eq_true'] at hR1
                exact hR1.1
              obtain ⟨x, y, hxy, hx⟩ := head_digit r hd
              rw [minus_not_quote a ha, ha]
              simp only [Bool.false_eq_true, if_false, if_true]
              rw [hxy, trimLeft_digit x y hx, ← hxy]
              unfold numTok
              simp [hi, hr, hasMinus, ha]
            · have ha' : (a.toNat == cMinus) = false := by simpa using ha
              have hs : stripMinus (a :: r) = a :: r := by simp [stripMinus, ha']
              rw [hs] at hR1 ⊢
              obtain ⟨hi, hr⟩ := pointReal_realTok _ hR1
              have hd : (digitsOf (a :: r)).isEmpty = false := by
                unfold pointReal at hR1
                simp only [Bool.and_eq_true, Bool.not_eq_true'] at hR1
                exact hR1.1
              obtain ⟨x, y, hxy, hx⟩ := head_digit _ hd
              injection hxy with h1 h2; subst h1
              rw [(digit_not_special a hx).1, ha']
              simp only [Bool.false_eq_true, if_false]
              unfold numTok
              simp [hi, hr, hasMinus, ha']
        · cases h
    · cases h

theorem isQuoted_shape (t : Bytes) (h : isQuoted t = true) :
    ∃ a z, t = a :: (unquote t ++ [z]) ∧ (a.toNat == cQuote) = true ∧ (z.toNat == cQuote) = true := by
  unfold isQuoted at h
  simp only [Bool.and_eq_true, decide_eq_true_eq] at h
  obtain ⟨⟨hlen, hhead⟩, hlast⟩ := h
  cases t with
  | nil => simp at hlen
  | cons a r =>
    simp only at hhead
    cases hl : (a :: r).getLast? with
    | none => simp at hl
    | some z =>
      rw [hl] at hlast; simp only at hlast
      cases r with
      | nil => simp at hlen
      | cons b l =>
        rw [List.getLast?_cons_cons, List.getLast?_eq_some_iff] at hl
        obtain ⟨ys, hys⟩ := hl
        refine ⟨a, z, ?_, hhead, hlast⟩
        unfold unquote
        simp only [List.drop_succ_cons, List.drop_zero]
        rw [hys, List.dropLast_concat]

theorem strShortcut_litCore (t : Bytes) (v : LitVal)
    (hT : asciiEqualFold t wTrue = false) (hF : asciiEqualFold t wFalse = false)
    (h : strShortcut t = some v) : litCore t = some v := by
  unfold strShortcut at h
  split at h
  · rename_i hc
    injection h with h; subst h
    simp only [Bool.and_eq_true, Bool.not_eq_true'] at hc
    obtain ⟨⟨⟨hq, hb⟩, hqq⟩, hv⟩ := hc
    obtain ⟨a, z, ht, ha, hz⟩ := isQuoted_shape t hq
    generalize hu : unquote t = u at *
    subst ht
    rw [litCore_cons _ _ hT hF]
    simp only [ha, if_true]
    unfold strToks
    simp only [ha, if_true]
    unfold validUTF8 at hv
    rw [strBody_plain z hz u.length u _ [] [] hv hqq hb (by simp only [List.length_append, List.length_cons, List.length_nil]; omega)]
    simp [trimLeft, trimAux]
  · cases h

/-- **the shortcuts agree with the reference syntax**, on the trimmed text -/
theorem tryLit_litCore (ferr : Bytes → Bool) (s : Bytes) (v : LitVal) (h : tryLit ferr s = some v) :
    litCore (trimSpace s) = some v := by
  unfold tryLit at h
  simp only at h
  by_cases hT : asciiEqualFold (trimSpace s) wTrue = true
  · rw [if_pos hT] at h; unfold litCore; rw [if_pos hT]; exact h
  · rw [if_neg hT] at h
    by_cases hF : asciiEqualFold (trimSpace s) wFalse = true
    · rw [if_pos hF] at h; unfold litCore; rw [if_neg hT, if_pos hF]; exact h
    · rw [if_neg hF] at h
      have hT' : asciiEqualFold (trimSpace s) wTrue = false := by simpa using hT
      have hF' : asciiEqualFold (trimSpace s) wFalse = false := by simpa using hF
      cases hn : numShortcut ferr s (trimSpace s) with
      | some w =>
        rw [hn] at h; simp only at h
        injection h with h; subst h
        exact numShortcut_litCore ferr s _ w hT' hF' hn
      | none =>
        rw [hn] at h; simp only at h
        exact strShortcut_litCore _ v hT' hF' h

/-! ### the old-ClassAd string fallback -/

/-- old-ClassAd quoting of a string body: a quote is written backslash-quote, every other byte as is
    (ast.AppendQuoteStringOld, C++ `unparse` in old syntax) -/
def oldRender : Bytes → Bytes
  | [] => []
  | c :: rest => if c.toNat == cQuote then 92 :: 34 :: oldRender rest else c :: oldRender rest

theorem oldRender_head (x : Bytes) (b : UInt8) (rest : Bytes) (h : oldRender x = b :: rest) :
    (b.toNat == cQuote) = false := by
  cases x with
  | nil => simp [oldRender] at h
  | cons c x' =>
    unfold oldRender at h
    by_cases hc : (c.toNat == cQuote) = true
    · rw [if_pos hc] at h; injection h with h1 _; subst h1; rfl
    · rw [if_neg hc] at h; injection h with h1 _; subst h1; simpa using hc

theorem byte_eq_of_toNat (c : UInt8) (n : Nat) (h : (c.toNat == n) = true) : c = UInt8.ofNat n := by
  simp only [beq_iff_eq] at h
  rw [← h, UInt8.ofNat_toNat]

theorem decodeOldAux_render : ∀ (x acc : Bytes), decodeOldAux (oldRender x) acc = some (acc.reverse ++ x) := by
  intro x
  induction x with
  | nil => intro acc; simp [oldRender, decodeOldAux]
  | cons c x' ih =>
    intro acc
    unfold oldRender
    by_cases hc : (c.toNat == cQuote) = true
    · rw [if_pos hc]
      unfold decodeOldAux
      have h1 : ((92 : UInt8).toNat == cBackslash && (34 : UInt8).toNat == cQuote) = true := by decide
      rw [if_pos h1, ih]
      have : c = 34 := byte_eq_of_toNat c cQuote hc
      subst this; simp
    · rw [if_neg hc]
      have hc' : (c.toNat == cQuote) = false := by simpa using hc
      cases hr : oldRender x' with
      | nil =>
        have hx : x' = [] := by
          cases x' with
          | nil => rfl
          | cons d x'' => unfold oldRender at hr; split at hr <;> cases hr
        subst hx
        simp [decodeOldAux, hc']
      | cons b rest =>
        have hb := oldRender_head x' b rest hr
        unfold decodeOldAux
        simp only [hb, Bool.and_false, Bool.false_eq_true, if_false, hc']
        rw [← hr, ih]
        simp

theorem hasByte_oldRender (x : Bytes) (h : hasByte cQuote (oldRender x) = false) : oldRender x = x := by
  induction x with
  | nil => rfl
  | cons c x' ih =>
    unfold oldRender at h ⊢
    by_cases hc : (c.toNat == cQuote) = true
    · rw [if_pos hc] at h
      simp [hasByte, cQuote] at h
    · rw [if_neg hc] at h ⊢
      rw [hasByte_cons] at h
      simp only [Bool.or_eq_false_iff] at h
      rw [ih h.2]

/-- **the fallback inverts old-ClassAd quoting**: every byte string, quoted the old way, is read back exactly -/
theorem decodeOld_render (x : Bytes) : decodeOld (oldRender x) = some x := by
  unfold decodeOld
  split
  · rename_i h
    simp only [Bool.and_eq_true, Bool.not_eq_true'] at h
    rw [hasByte_oldRender x h.2]
  · rw [decodeOldAux_render]; simp

/-! ### parseAndInsertExpression, case by case -/

theorem parseAndInsert_cases (ferr pok : Bytes → Bool) (e a : Bytes) (o : Outcome)
    (h : parseAndInsert ferr pok e = .ok (a, o)) :
    ∃ l r, splitEq e = some (l, r) ∧ a = trimSpace l ∧ a ≠ [] ∧
      ((∃ x, o = .lit x ∧ tryLit ferr (trimSpace r) = some x) ∨
       (o = .full (trimSpace r) ∧ tryLit ferr (trimSpace r) = none ∧ pok (trimSpace r) = true) ∨
       (∃ x, o = .old x ∧ tryLit ferr (trimSpace r) = none ∧ pok (trimSpace r) = false ∧
          isQuoted (trimSpace (trimSpace r)) = true ∧ decodeOld (unquote (trimSpace (trimSpace r))) = some x)) := by
  unfold parseAndInsert at h
  cases hs : splitEq e with
  | none => rw [hs] at h; cases h
  | some p =>
    obtain ⟨l, r⟩ := p
    rw [hs] at h; simp only at h
    refine ⟨l, r, rfl, ?_⟩
    by_cases hemp : (trimSpace l).isEmpty = true
    · rw [if_pos hemp] at h; cases h
    · rw [if_neg hemp] at h
      have hne : trimSpace l ≠ [] := by intro h0; apply hemp; rw [h0]; rfl
      cases ht : tryLit ferr (trimSpace r) with
      | some x =>
        rw [ht] at h; simp only at h
        injection h with h; injection h with h1 h2
        exact ⟨h1.symm, by rw [← h1]; exact hne, .inl ⟨x, h2.symm, rfl⟩⟩
      | none =>
        rw [ht] at h; simp only at h
        by_cases hp : pok (trimSpace r) = true
        · rw [if_pos hp] at h
          injection h with h; injection h with h1 h2
          exact ⟨h1.symm, by rw [← h1]; exact hne, .inr (.inl ⟨h2.symm, rfl, hp⟩)⟩
        · rw [if_neg hp] at h
          have hp' : pok (trimSpace r) = false := by simpa using hp
          by_cases hq : isQuoted (trimSpace (trimSpace r)) = true
          · rw [if_pos hq] at h
            cases hd : decodeOld (unquote (trimSpace (trimSpace r))) with
            | none => rw [hd] at h; cases h
            | some x =>
              rw [hd] at h; simp only at h
              injection h with h; injection h with h1 h2
              exact ⟨h1.symm, by rw [← h1]; exact hne, .inr (.inr ⟨x, h2.symm, rfl, hp', hq, rfl⟩)⟩
          · rw [if_neg hq] at h; cases h

end Cedar
