/-
  Helper lemmas for C16: what `importInfo` reads back from an exported session_info, attribute by
  attribute, and the render/parse round trip of the text.
-/
import CedarProofs.ClaimInfo

namespace Cedar.Claim
open Cedar

/-! ## clean names and values -/

def cleanNameB (n : Bytes) : Bool :=
  !n.contains 59 && !n.contains 61 && !n.isEmpty &&
  (match n.head? with | some b => !isSpace b | none => true) &&
  (match n.getLast? with | some b => !isSpace b | none => true)

theorem cleanName_of_b {n : Bytes} (h : cleanNameB n = true) : CleanName n := by
  simp only [cleanNameB, Bool.and_eq_true, Bool.not_eq_true', List.contains_eq_mem, decide_eq_false_iff_not,
    List.isEmpty_eq_false_iff] at h
  obtain ⟨⟨⟨⟨h1, h2⟩, h3⟩, h4⟩, h5⟩ := h
  refine ⟨h1, h2, h3, ?_, ?_⟩
  · intro b hb; rw [hb] at h4; simpa using h4
  · intro b hb; rw [hb] at h5; simpa using h5

theorem cleanVal_quote {v : Bytes} (h : 59 ∉ v) : CleanVal (quote v) ∧ quote v ≠ [34] ∧ unq (quote v) = v := by
  refine ⟨⟨?_, by simp [quote], ?_, ?_⟩, ?_, ?_⟩
  · simp only [quote, List.mem_cons, List.mem_append, List.mem_nil_iff, or_false, not_or]
    exact ⟨by decide, h, by decide⟩
  · intro b hb
    have : b = 34 := by simpa [quote, eq_comm] using hb
    subst this; decide
  · intro b hb
    have : (quote v).getLast? = some 34 := by
      unfold quote; rw [← List.cons_append, List.getLast?_concat]
    rw [this] at hb
    have : b = 34 := by simpa [eq_comm] using hb
    subst this; decide
  · cases v <;> simp [quote]
  · have hl : (quote v).getLast? = some 34 := by
      unfold quote; rw [← List.cons_append, List.getLast?_concat]
    unfold unq unquote
    simp only [hl, and_true]
    cases v with
    | nil => simp [quote]
    | cons a t =>
      have : (a :: (t ++ [34])).dropLast = a :: t := by
        rw [← List.cons_append, List.dropLast_concat]
      simp [quote, this]

theorem cleanVal_fmtInt (i : Int) : CleanVal (fmtInt i) ∧ fmtInt i ≠ [34] ∧ unq (fmtInt i) = fmtInt i := by
  have hall : ∀ b ∈ fmtInt i, isSpace b = false ∧ b ≠ 59 ∧ b ≠ 34 := fun b hb =>
    let p := isDigit_props (fmtInt_bytes i b hb); ⟨p.1, p.2.1, p.2.2.1⟩
  have hne := fmtInt_ne_nil i
  have hhead : ∀ b, (fmtInt i).head? = some b → b ∈ fmtInt i := fun b hb => List.mem_of_mem_head? (by simpa using hb)
  have hlast : ∀ b, (fmtInt i).getLast? = some b → b ∈ fmtInt i := fun b hb => List.mem_of_getLast? hb
  refine ⟨⟨fun h => (hall 59 h).2.1 rfl, hne, fun b hb => (hall b (hhead b hb)).1, fun b hb => (hall b (hlast b hb)).1⟩, ?_, ?_⟩
  · intro e
    exact (hall 34 (by rw [e]; simp)).2.2 rfl
  · unfold unq unquote
    have : ¬ ((fmtInt i).head? = some 34 ∧ (fmtInt i).getLast? = some 34) := by
      intro h
      exact (hall 34 (hhead 34 h.1)).2.2 rfl
    simp [this]

/-! ## lookups in the attribute map of an exported text -/

theorem map_optField (n : Bytes) (x : Option Bytes) :
    (optField n x).map (fun kv => (kv.1, unq kv.2)) = optField n (x.map unq) := by
  cases x <;> rfl

theorem reverse_optField (n : Bytes) (x : Option Bytes) : (optField n x).reverse = optField n x := by
  cases x <;> rfl

theorem lookup_optField (n k : Bytes) (x : Option Bytes) :
    (optField n x).lookup k = if k = n then x else none := by
  cases x with
  | none => simp [optField]
  | some v =>
    by_cases h : k = n
    · subst h; simp [optField]
    · have : (k == n) = false := by simpa using h
      simp [optField, this, h]

theorem mem_optField {n : Bytes} {x : Option Bytes} {kv : Bytes × Bytes} (h : kv ∈ optField n x) :
    ∃ v, x = some v ∧ kv = (n, v) := by
  cases x with
  | none => simp [optField] at h
  | some v => exact ⟨v, rfl, by simpa [optField] using h⟩

/-- the seven optional rendered values of an exported text, by attribute -/
structure Slots where
  cm : Option Bytes
  cml : Option Bytes
  enc : Option Bytes
  int : Option Bytes
  exp : Option Bytes
  sv : Option Bytes
  vc : Option Bytes

def Slots.fields (s : Slots) : List (Bytes × Bytes) :=
  optField nCryptoMethods s.cm ++ optField nCryptoMethodsList s.cml ++ optField nEncryption s.enc ++
  optField nIntegrity s.int ++ optField nSessionExpires s.exp ++ optField nShortVersion s.sv ++
  optField nValidCommands s.vc

def Slots.clean (s : Slots) : Prop :=
  ∀ x ∈ [s.cm, s.cml, s.enc, s.int, s.exp, s.sv, s.vc], ∀ v, x = some v → CleanVal v ∧ v ≠ [34]

theorem Slots.cleanFields {s : Slots} (h : s.clean) : CleanFields s.fields := by
  intro kv hkv
  simp only [Slots.fields, List.mem_append] at hkv
  have names : CleanName nCryptoMethods ∧ CleanName nCryptoMethodsList ∧ CleanName nEncryption ∧ CleanName nIntegrity ∧
      CleanName nSessionExpires ∧ CleanName nShortVersion ∧ CleanName nValidCommands :=
    ⟨cleanName_of_b (by decide), cleanName_of_b (by decide), cleanName_of_b (by decide), cleanName_of_b (by decide),
     cleanName_of_b (by decide), cleanName_of_b (by decide), cleanName_of_b (by decide)⟩
  rcases hkv with (((((hm | hm) | hm) | hm) | hm) | hm) | hm <;>
    obtain ⟨v, hx, rfl⟩ := mem_optField hm
  · exact ⟨names.1, h _ (by simp) v hx⟩
  · exact ⟨names.2.1, h _ (by simp) v hx⟩
  · exact ⟨names.2.2.1, h _ (by simp) v hx⟩
  · exact ⟨names.2.2.2.1, h _ (by simp) v hx⟩
  · exact ⟨names.2.2.2.2.1, h _ (by simp) v hx⟩
  · exact ⟨names.2.2.2.2.2.1, h _ (by simp) v hx⟩
  · exact ⟨names.2.2.2.2.2.2, h _ (by simp) v hx⟩

/-- the attribute map `importAttrs` builds from the rendered slots -/
def Slots.attrs (s : Slots) : List (Bytes × Bytes) := (s.fields.map (fun kv => (kv.1, unq kv.2))).reverse

theorem Slots.attrs_lookup (s : Slots) :
    s.attrs.lookup nCryptoMethods = s.cm.map unq ∧ s.attrs.lookup nCryptoMethodsList = s.cml.map unq ∧
    s.attrs.lookup nEncryption = s.enc.map unq ∧ s.attrs.lookup nIntegrity = s.int.map unq ∧
    s.attrs.lookup nSessionExpires = s.exp.map unq ∧ s.attrs.lookup nShortVersion = s.sv.map unq ∧
    s.attrs.lookup nValidCommands = s.vc.map unq := by
  simp only [Slots.attrs, Slots.fields, List.map_append, List.reverse_append, map_optField, reverse_optField,
    List.lookup_append, lookup_optField]
  refine ⟨?_, ?_, ?_, ?_, ?_, ?_, ?_⟩ <;> simp (config := { decide := true })

/-! ## the policy built from an attribute map -/

theorem lookup_copyIf (attrs : List (Bytes × Bytes)) (p : Policy) (n k : Bytes) :
    (copyIf attrs p n).lookup k =
      if k = n then ((attrs.lookup n).map Val.s).or (p.lookup k) else p.lookup k := by
  unfold copyIf
  cases attrs.lookup n with
  | none => simp
  | some v => simp [lookup_set]

set_option linter.unusedSimpArgs false in
/-- attribute by attribute: what `ImportSecSessionInfo` puts into the policy -/
theorem policyOfAttrs_lookup (a : List (Bytes × Bytes)) :
    (policyOfAttrs a).lookup nEncryption = (a.lookup nEncryption).map Val.s ∧
    (policyOfAttrs a).lookup nIntegrity = (a.lookup nIntegrity).map Val.s ∧
    (policyOfAttrs a).lookup nValidCommands = (a.lookup nValidCommands).map Val.s ∧
    (policyOfAttrs a).lookup nSessionExpires = (a.lookup nSessionExpires).map Val.s ∧
    (policyOfAttrs a).lookup nRemoteVersion = (a.lookup nShortVersion).map Val.s ∧
    (policyOfAttrs a).lookup nCryptoMethods = (cmOfAttrs a).map Val.s := by
  have hcm : cmOfAttrs a = none → a.lookup nCryptoMethods = none := by
    intro h
    unfold cmOfAttrs at h
    cases hl : a.lookup nCryptoMethodsList with
    | none => simpa [hl] using h
    | some l =>
      by_cases he : l = []
      · simpa [hl, he] using h
      · simp [hl, he] at h
  unfold policyOfAttrs
  cases hsv : a.lookup nShortVersion <;> cases hc : cmOfAttrs a <;>
    simp (config := { decide := true }) only [lookup_set, lookup_copyIf, List.lookup, if_true, if_false, hcm, hc,
      Option.map_none, Option.map_some, Option.or_none, and_self, and_true, true_and]

/-! ## membership through the string helpers -/

theorem mem_trimSpace {b : UInt8} {s : Bytes} (h : b ∈ trimSpace s) : b ∈ s := by
  unfold trimSpace trimRightBy trimLeftBy at h
  have h1 := List.mem_reverse.mp h
  have h2 := (List.dropWhile_sublist _).subset h1
  have h3 := List.mem_reverse.mp h2
  exact (List.dropWhile_sublist _).subset h3

theorem mem_firstOf {b c : UInt8} {s : Bytes} (h : b ∈ firstOf c s) : b ∈ s :=
  (List.takeWhile_sublist _).subset h

theorem mem_replace {b x y : UInt8} {s : Bytes} (h : b ∈ replace x y s) (hb : b ≠ y) : b ∈ s := by
  unfold replace at h
  obtain ⟨a, ha, e⟩ := List.mem_map.mp h
  by_cases hx : a = x
  · simp [hx] at e; exact absurd e.symm hb
  · simp [hx] at e; exact e ▸ ha

theorem replace_replace {x y : UInt8} {s : Bytes} (h : y ∉ s) : replace y x (replace x y s) = s := by
  induction s with
  | nil => rfl
  | cons a t ih =>
    have ha : a ≠ y := fun e => h (by simp [e])
    have ht : y ∉ t := fun e => h (by simp [e])
    have iht := ih ht
    unfold replace at iht ⊢
    simp only [List.map_cons, List.map_map] at iht ⊢
    rw [iht]
    by_cases hx : a = x
    · simp [hx]
    · simp [hx, ha]

theorem replace_id {x y : UInt8} {s : Bytes} (h : x ∉ s) : replace x y s = s := by
  induction s with
  | nil => rfl
  | cons a t ih =>
    have ha : a ≠ x := fun e => h (by simp [e])
    have ht : x ∉ t := fun e => h (by simp [e])
    have := ih ht
    unfold replace at this ⊢
    simp [ha, this]

theorem replace_ne_nil {x y : UInt8} {s : Bytes} (h : s ≠ []) : replace x y s ≠ [] := by
  cases s with
  | nil => exact absurd rfl h
  | cons a t => simp [replace]

theorem unq_quote (v : Bytes) : unq (quote v) = v := by
  have hl : (quote v).getLast? = some 34 := by
    unfold quote; rw [← List.cons_append, List.getLast?_concat]
  unfold unq unquote
  simp only [hl, and_true]
  cases v with
  | nil => simp [quote]
  | cons a t =>
    have : (a :: (t ++ [34])).dropLast = a :: t := by
      rw [← List.cons_append, List.dropLast_concat]
    simp [quote, this]

/-! ## the slots of a policy -/

def slotsOf (p : Policy) : Slots :=
  { cm := (p.nonEmptyStr nCryptoMethods).map (fun v => if 44 ∈ v then quote (trimSpace (firstOf 44 v)) else quote v)
    cml := (p.nonEmptyStr nCryptoMethods).bind (fun v => if 44 ∈ v then some (quote (replace 44 46 v)) else none)
    enc := (p.nonEmptyStr nEncryption).map quote
    int := (p.nonEmptyStr nIntegrity).map quote
    exp := expiresField p
    sv := (p.nonEmptyStr nRemoteVersion).map (fun v => quote (shortVersion v))
    vc := (p.nonEmptyStr nValidCommands).map quote }

theorem exportFields_slots (p : Policy) : exportFields p = (slotsOf p).fields := rfl

def Int64 (v : Int) : Prop := -(9223372036854775808 : Int) ≤ v ∧ v ≤ 9223372036854775807

/-- well-formedness of the values a policy exports: no ';' in any string value, no '.' in the
    cipher list, integer expiry within int64, and the version in a form `shortVersion` fixes -/
structure InfoWf (p : Policy) : Prop where
  enc : ∀ v, p.nonEmptyStr nEncryption = some v → 59 ∉ v
  int : ∀ v, p.nonEmptyStr nIntegrity = some v → 59 ∉ v
  vc : ∀ v, p.nonEmptyStr nValidCommands = some v → 59 ∉ v
  cm : ∀ v, p.nonEmptyStr nCryptoMethods = some v → 59 ∉ v ∧ 46 ∉ v
  rv : ∀ v, p.nonEmptyStr nRemoteVersion = some v →
        59 ∉ shortVersion v ∧ shortVersion v ≠ [] ∧ shortVersion (shortVersion v) = shortVersion v
  exp : ∀ v, p.lookup nSessionExpires = some (.i v) → Int64 v

theorem nonEmptyStr_ne {p : Policy} {n v : Bytes} (h : p.nonEmptyStr n = some v) : v ≠ [] := by
  unfold Policy.nonEmptyStr at h
  cases he : p.evalStr n with
  | none => simp [he] at h
  | some w =>
    by_cases hw : w = []
    · simp [he, hw] at h
    · simp only [he, hw, if_false, Option.some.injEq] at h
      exact h ▸ hw

theorem nonEmptyStr_of_lookup {q : Policy} {n : Bytes} {x : Option Bytes}
    (h : q.lookup n = x.map Val.s) (hne : ∀ v, x = some v → v ≠ []) : q.nonEmptyStr n = x := by
  unfold Policy.nonEmptyStr Policy.evalStr
  cases x with
  | none => simp [h]
  | some v => simp [h, hne v rfl]

theorem parseMag_range {neg : Bool} {ds : Bytes} {n : Int} (h : parseMag neg ds = some n) : Int64 n := by
  unfold parseMag at h
  by_cases hd : ds = []
  · simp [hd] at h
  · simp only [hd, if_false] at h
    cases hv : decValRev ds.reverse with
    | none => simp [hv] at h
    | some m =>
      simp only [hv, int64Max] at h
      cases neg with
      | true =>
        by_cases hm : m ≤ 9223372036854775807 + 1
        · simp only [hm, if_true, Option.some.injEq] at h
          unfold Int64; omega
        · simp [hm] at h
      | false =>
        by_cases hm : m ≤ 9223372036854775807
        · simp only [Bool.false_eq_true, if_false, hm, if_true, Option.some.injEq] at h
          unfold Int64; omega
        · simp [hm] at h

theorem parseInt64_range {s : Bytes} {n : Int} (h : parseInt64 s = some n) : Int64 n := by
  unfold parseInt64 at h
  split at h <;> exact parseMag_range h

/-- the expiry entry, when present, is a rendered non-zero int64 -/
theorem expiresField_some {p : Policy} (hw : ∀ v, p.lookup nSessionExpires = some (.i v) → Int64 v) {r : Bytes}
    (h : expiresField p = some r) : ∃ E, E ≠ 0 ∧ Int64 E ∧ r = fmtInt E := by
  unfold expiresField at h
  split at h
  · rename_i v hv
    by_cases h0 : v = 0
    · simp [h0] at h
    · simp only [h0, if_false, Option.some.injEq] at h
      exact ⟨v, h0, hw v hv, h.symm⟩
  · rename_i s hs
    by_cases he : s = []
    · simp [he] at h
    · simp only [he, if_false] at h
      cases hp : parseInt64 (trimSpace s) with
      | none => simp [hp] at h
      | some n =>
        by_cases h0 : n = 0
        · simp [hp, h0] at h
        · simp only [hp, h0, if_false, Option.some.injEq] at h
          exact ⟨n, h0, parseInt64_range hp, h.symm⟩
  · cases h

theorem trimSpace_fmtInt (i : Int) : trimSpace (fmtInt i) = fmtInt i :=
  trimSpace_id (cleanVal_fmtInt i).1.first (cleanVal_fmtInt i).1.last

theorem slotsOf_clean {p : Policy} (w : InfoWf p) : (slotsOf p).clean := by
  intro x hx v hv
  simp only [slotsOf, List.mem_cons, List.mem_nil_iff, or_false] at hx
  rcases hx with rfl | rfl | rfl | rfl | rfl | rfl | rfl
  · cases hc : p.nonEmptyStr nCryptoMethods with
    | none => simp [hc] at hv
    | some cm =>
      simp only [hc, Option.map_some, Option.some.injEq] at hv
      by_cases h44 : (44 : UInt8) ∈ cm
      · simp only [h44, if_true] at hv
        subst hv
        have := cleanVal_quote (v := trimSpace (firstOf 44 cm)) (fun h => (w.cm cm hc).1 (mem_firstOf (mem_trimSpace h)))
        exact ⟨this.1, this.2.1⟩
      · simp only [h44, if_false] at hv
        subst hv
        have := cleanVal_quote (w.cm cm hc).1
        exact ⟨this.1, this.2.1⟩
  · cases hc : p.nonEmptyStr nCryptoMethods with
    | none => simp [hc] at hv
    | some cm =>
      simp only [hc, Option.bind_some] at hv
      by_cases h44 : (44 : UInt8) ∈ cm
      · simp only [h44, if_true, Option.some.injEq] at hv
        subst hv
        have := cleanVal_quote (v := replace 44 46 cm) (fun h => (w.cm cm hc).1 (mem_replace h (by decide)))
        exact ⟨this.1, this.2.1⟩
      · simp [h44] at hv
  · cases hc : p.nonEmptyStr nEncryption with
    | none => simp [hc] at hv
    | some e =>
      simp only [hc, Option.map_some, Option.some.injEq] at hv
      subst hv
      have := cleanVal_quote (w.enc e hc)
      exact ⟨this.1, this.2.1⟩
  · cases hc : p.nonEmptyStr nIntegrity with
    | none => simp [hc] at hv
    | some e =>
      simp only [hc, Option.map_some, Option.some.injEq] at hv
      subst hv
      have := cleanVal_quote (w.int e hc)
      exact ⟨this.1, this.2.1⟩
  · obtain ⟨E, _, _, rfl⟩ := expiresField_some w.exp hv
    have := cleanVal_fmtInt E
    exact ⟨this.1, this.2.1⟩
  · cases hc : p.nonEmptyStr nRemoteVersion with
    | none => simp [hc] at hv
    | some e =>
      simp only [hc, Option.map_some, Option.some.injEq] at hv
      subst hv
      have := cleanVal_quote (w.rv e hc).1
      exact ⟨this.1, this.2.1⟩
  · cases hc : p.nonEmptyStr nValidCommands with
    | none => simp [hc] at hv
    | some e =>
      simp only [hc, Option.map_some, Option.some.injEq] at hv
      subst hv
      have := cleanVal_quote (w.vc e hc)
      exact ⟨this.1, this.2.1⟩

/-- importing the exported text of a well-formed policy -/
theorem importInfo_render {p : Policy} (w : InfoWf p) :
    importInfo (render (exportFields p)) = .ok (policyOfAttrs (slotsOf p).attrs) := by
  unfold importInfo
  have hb := render_brackets (exportFields p)
  have hne : render (exportFields p) ≠ [] := by simp [render]
  simp only [hne, if_false, hb.1, hb.2, and_self, not_true_eq_false]
  rw [exportFields_slots, importAttrs_render _ (Slots.cleanFields (slotsOf_clean w))]
  rfl

/-! ## what the imported policy carries, and the text round trip -/

/-- the policy read back from the exported text of `p` -/
def reimported (p : Policy) : Policy := policyOfAttrs (slotsOf p).attrs

/-- attribute by attribute: the re-imported policy carries the exported content of `p`
    (the version in its compact form) -/
theorem reimported_carries {p : Policy} (w : InfoWf p) :
    (reimported p).nonEmptyStr nEncryption = p.nonEmptyStr nEncryption ∧
    (reimported p).nonEmptyStr nIntegrity = p.nonEmptyStr nIntegrity ∧
    (reimported p).nonEmptyStr nValidCommands = p.nonEmptyStr nValidCommands ∧
    (reimported p).nonEmptyStr nCryptoMethods = p.nonEmptyStr nCryptoMethods ∧
    (reimported p).nonEmptyStr nRemoteVersion = (p.nonEmptyStr nRemoteVersion).map shortVersion ∧
    (reimported p).lookup nSessionExpires = (expiresField p).map Val.s := by
  have hl := policyOfAttrs_lookup (slotsOf p).attrs
  have ha := (slotsOf p).attrs_lookup
  obtain ⟨l1, l2, l3, l4, l5, l6⟩ := hl
  obtain ⟨a1, a2, a3, a4, a5, a6, a7⟩ := ha
  refine ⟨?_, ?_, ?_, ?_, ?_, ?_⟩
  · apply nonEmptyStr_of_lookup (x := p.nonEmptyStr nEncryption)
    · show (reimported p).lookup nEncryption = _
      unfold reimported; rw [l1, a3]
      simp [slotsOf, Option.map_map, Function.comp_def, unq_quote]
    · exact fun v hv => nonEmptyStr_ne hv
  · apply nonEmptyStr_of_lookup (x := p.nonEmptyStr nIntegrity)
    · unfold reimported; rw [l2, a4]
      simp [slotsOf, Option.map_map, Function.comp_def, unq_quote]
    · exact fun v hv => nonEmptyStr_ne hv
  · apply nonEmptyStr_of_lookup (x := p.nonEmptyStr nValidCommands)
    · unfold reimported; rw [l3, a7]
      simp [slotsOf, Option.map_map, Function.comp_def, unq_quote]
    · exact fun v hv => nonEmptyStr_ne hv
  · apply nonEmptyStr_of_lookup (x := p.nonEmptyStr nCryptoMethods)
    · unfold reimported; rw [l6]
      unfold cmOfAttrs
      rw [a1, a2]
      cases hc : p.nonEmptyStr nCryptoMethods with
      | none => simp [slotsOf, hc]
      | some cm =>
        have hdot := (w.cm cm hc).2
        by_cases h44 : (44 : UInt8) ∈ cm
        · have hne : replace 44 46 cm ≠ [] := replace_ne_nil (nonEmptyStr_ne hc)
          simp [slotsOf, hc, h44, unq_quote, hne, replace_replace hdot]
        · simp [slotsOf, hc, h44, unq_quote, replace_id hdot]
    · exact fun v hv => nonEmptyStr_ne hv
  · apply nonEmptyStr_of_lookup (x := (p.nonEmptyStr nRemoteVersion).map shortVersion)
    · unfold reimported; rw [l5, a6]
      simp [slotsOf, Option.map_map, Function.comp_def, unq_quote]
    · intro v hv
      cases hc : p.nonEmptyStr nRemoteVersion with
      | none => simp [hc] at hv
      | some rv =>
        simp only [hc, Option.map_some, Option.some.injEq] at hv
        exact hv ▸ (w.rv rv hc).2.1
  · unfold reimported; rw [l4, a5]
    cases he : expiresField p with
    | none => simp [slotsOf, he]
    | some r =>
      obtain ⟨E, _, _, rfl⟩ := expiresField_some w.exp he
      simp [slotsOf, he, (cleanVal_fmtInt E).2.2]

/-- the exported fields of the re-imported policy are those of `p` -/
theorem slotsOf_reimported {p : Policy} (w : InfoWf p) : slotsOf (reimported p) = slotsOf p := by
  obtain ⟨c1, c2, c3, c4, c5, c6⟩ := reimported_carries w
  have hexp : expiresField (reimported p) = expiresField p := by
    cases he : expiresField p with
    | none =>
      rw [he] at c6
      unfold expiresField
      rw [c6]
      rfl
    | some r =>
      obtain ⟨E, h0, hr, rfl⟩ := expiresField_some w.exp he
      have hne := fmtInt_ne_nil E
      rw [he] at c6
      unfold expiresField
      rw [c6]
      simp only [Option.map_some, hne, if_false, trimSpace_fmtInt, parseInt64_fmtInt E hr.1 hr.2, h0]
  have hsv : ((reimported p).nonEmptyStr nRemoteVersion).map (fun v => quote (shortVersion v)) =
      (p.nonEmptyStr nRemoteVersion).map (fun v => quote (shortVersion v)) := by
    rw [c5]
    cases hc : p.nonEmptyStr nRemoteVersion with
    | none => rfl
    | some rv => simp [(w.rv rv hc).2.2]
  unfold slotsOf
  rw [c1, c2, c3, c4, hexp, hsv]

/-- **render ∘ parse ∘ render**: the text exported from a well-formed policy is imported without
    error and exporting the imported policy gives the same text back -/
theorem exportInfo_roundtrip {p : Policy} (w : InfoWf p) {t : Bytes} (h : exportInfo p = .ok t) :
    importInfo t = .ok (reimported p) ∧ exportInfo (reimported p) = .ok t := by
  unfold exportInfo at h
  by_cases hc : (35 : UInt8) ∈ render (exportFields p)
  · simp [hc] at h
  · simp only [hc, if_false, Except.ok.injEq] at h
    subst h
    refine ⟨importInfo_render w, ?_⟩
    unfold exportInfo
    rw [exportFields_slots (reimported p), slotsOf_reimported w, ← exportFields_slots p]
    simp [hc]

end Cedar.Claim
