/-
  C13 helper lemmas, part 3: the text / blob importers modelled elsewhere (claim-id session info,
  crypto-state blob) never reach a panicking operation.
-/
import CedarModel.ClaimId
import CedarModel.Export
import CedarProofs.DecodeEntry

namespace Cedar.Decode
open Cedar Cedar.Claim

theorem unquote_ok (v : Bytes) : ∃ u, unquote v = .ok u := by
  unfold unquote
  split
  · split <;> exact ⟨_, rfl⟩
  · exact ⟨_, rfl⟩

theorem importItem_ok (attrs : List (Bytes × Bytes)) (item : Bytes) : ∃ a, importItem attrs item = .ok a := by
  unfold importItem
  simp only
  split
  · exact ⟨_, rfl⟩
  · split
    · exact ⟨_, rfl⟩
    · exact ⟨_, rfl⟩
    · rename_i n v _ _
      obtain ⟨u, hu⟩ := unquote_ok (trimSpace v)
      rw [hu]
      exact ⟨_, rfl⟩

theorem importItems_ok : ∀ (items : List Bytes) (attrs : List (Bytes × Bytes)), ∃ a, importItems attrs items = .ok a := by
  intro items
  induction items with
  | nil => intro attrs; exact ⟨_, rfl⟩
  | cons it rest ih =>
    intro attrs
    obtain ⟨a, ha⟩ := importItem_ok attrs it
    simp only [importItems, ha]
    exact ih a

/-- `ImportSessionInfoAttributes` never fails in the model (and so never panics) -/
theorem importAttrs_ok (info : Bytes) : ∃ a, importAttrs info = .ok a := by
  unfold importAttrs
  split
  · exact ⟨_, rfl⟩
  · exact importItems_ok _ _

theorem importInfo_np (info : Bytes) : importInfo info ≠ .error .panic := by
  unfold importInfo
  split
  · exact np_ok _
  · split
    · exact np_of_ne (by decide)
    · obtain ⟨a, ha⟩ := importAttrs_ok info
      rw [ha]
      exact np_ok _

theorem readVar_np (b : Bytes) : readVar b ≠ .error .panic := by
  unfold readVar
  split
  · exact np_of_ne (by decide)
  · simp only
    split
    · exact np_of_ne (by decide)
    · exact np_ok _

theorem decodeBlob_np (b : Bytes) : decodeBlob b ≠ .error .panic := by
  unfold decodeBlob
  split
  · exact np_of_ne (by decide)
  · split
    · exact np_of_ne (by decide)
    · split
      · exact np_of_ne (by decide)
      · simp only
        split
        · rename_i e he
          intro hh
          cases hh
          exact readVar_np _ he
        · split
          · rename_i e he
            intro hh
            cases hh
            exact readVar_np _ he
          · split
            · rename_i e he
              intro hh
              cases hh
              exact readVar_np _ he
            · exact np_ok _

theorem importBlob_np (b : Bytes) : importBlob b ≠ .error .panic := by
  unfold importBlob
  split
  · rename_i e he
    intro hh
    cases hh
    exact decodeBlob_np _ he
  · exact np_ok _

end Cedar.Decode
