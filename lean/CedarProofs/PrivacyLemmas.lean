/-
  Helper lemmas for C09 (CedarModel/Privacy.lean): name predicates, the two filters, the item
  list, emission over the typed layer with the crypto toggle.
-/
import CedarModel.Privacy
import CedarProofs.CodecStr

namespace Cedar.Privacy
open Cedar

/-! ### names -/

theorem lower_length (n : Bytes) : (lower n).length = n.length := by simp [lower]

theorem lower_take (n : Bytes) (k : Nat) : lower (n.take k) = (lower n).take k := by
  simp [lower, List.map_take]

theorem lenGe_eq_of_length {α : Type} (l m : List α) (k : Nat) (h : l.length = m.length) :
    lenGe l k = lenGe m k := by
  have h1 := lenGe_iff l k
  have h2 := lenGe_iff m k
  cases hl : lenGe l k <;> cases hm : lenGe m k <;> simp_all <;> omega

/-- the predicates see a name only through its case-folded form -/
theorem isPrivV1_fold (n m : Bytes) (h : lower n = lower m) : isPrivV1 n = isPrivV1 m := by
  simp [isPrivV1, h]

theorem isPrivV2_fold (n m : Bytes) (h : lower n = lower m) : isPrivV2 n = isPrivV2 m := by
  have hl : n.length = m.length := by rw [← lower_length n, ← lower_length m, h]
  simp [isPrivV2, lower_take, h, lenGe_eq_of_length n m _ hl]

theorem isPriv_fold (n m : Bytes) (h : lower n = lower m) : isPriv n = isPriv m := by
  simp [isPriv, isPrivV1_fold n m h, isPrivV2_fold n m h]

theorem lower_append (a b : Bytes) : lower (a ++ b) = lower a ++ lower b := by simp [lower]

/-! ### the filters -/

/-- the decision for one attribute, with the whitelist folded in -/
def keep (c : Config) (a : Attr) : Bool :=
  (c.whitelist.length = 0 || inList a.name c.whitelist)
    && !withheld (excludePrivate c) (excludePrivateV2 c) c.encryptedAttrs a.name

theorem adHas_mem (ad : Ad) (a : Attr) (h : a ∈ ad) : adHas ad a.name = true := by
  simp only [adHas, List.any_eq_true]
  exact ⟨a, h, by simp⟩

theorem attrsToSend_eq_filter (c : Config) (ad : Ad) : attrsToSend c ad = ad.filter (keep c) := by
  unfold attrsToSend
  by_cases hw : c.whitelist.length > 0
  · rw [if_pos hw]
    unfold filterByWhitelist
    apply List.filter_congr
    intro a ha
    have : ¬ c.whitelist.length = 0 := by omega
    simp [keep, adHas_mem ad a ha, this]
  · rw [if_neg hw]
    unfold filterByPrivacy
    apply List.filter_congr
    intro a _
    have : c.whitelist.length = 0 := by omega
    simp [keep, this]

theorem withheld_eq (exP old : Bool) (enc : List Bytes) (n : Bytes) :
    withheld exP (exP || old) enc n =
      ((exP && (isPriv n || inList n enc)) || (old && isPrivV2 n)) := by
  unfold withheld isPriv
  cases exP <;> cases old <;> cases isPrivV1 n <;> cases isPrivV2 n <;> cases inList n enc <;> rfl


theorem inList_iff (n : Bytes) (l : List Bytes) : inList n l = true ↔ n ∈ l := by
  simp [inList]

/-- **the decision, spelled out**: an attribute is serialised iff it passes the whitelist (when
    there is one), is not private / listed in EncryptedAttrs unless the caller opted in (and did
    not also ask for exclusion), and is not a reserved-prefix attribute for a peer known to be
    too old. -/
theorem keep_iff (c : Config) (a : Attr) :
    keep c a = true ↔ (c.whitelist = [] ∨ a.name ∈ c.whitelist) ∧
      ((isPriv a.name = true ∨ a.name ∈ c.encryptedAttrs) → includePrivate c = true) ∧
      (isPrivV2 a.name = true → peerTooOld c = false) := by
  unfold keep
  rw [show excludePrivateV2 c = (excludePrivate c || peerTooOld c) from rfl, withheld_eq]
  unfold excludePrivate
  rw [← inList_iff a.name c.whitelist, ← inList_iff a.name c.encryptedAttrs]
  have hw : (decide (c.whitelist.length = 0) = true) ↔ c.whitelist = [] := by
    simp [List.length_eq_zero_iff]
  have hv2 : isPrivV2 a.name = true → isPriv a.name = true := by
    intro h; simp [isPriv, h]
  cases hi : includePrivate c <;> cases ho : peerTooOld c <;> cases hp : isPriv a.name <;>
    cases h2 : isPrivV2 a.name <;> cases he : inList a.name c.encryptedAttrs <;>
    cases hl : inList a.name c.whitelist <;> simp_all

theorem mem_attrsToSend (c : Config) (ad : Ad) (a : Attr) :
    a ∈ attrsToSend c ad ↔ a ∈ ad ∧ keep c a = true := by
  rw [attrsToSend_eq_filter, List.mem_filter]

/-! ### non-interference: without the opt-in nothing depends on the private attributes -/

/-- the ad's own public attributes -/
def publicPart (ad : Ad) : Ad := ad.filter (fun a => !isPriv a.name)

theorem keep_public_of_excluded (c : Config) (h : includePrivate c = false) (a : Attr)
    (hk : keep c a = true) : isPriv a.name = false := by
  have := ((keep_iff c a).mp hk).2.1
  cases hp : isPriv a.name
  · rfl
  · have := this (.inl hp); simp [h] at this

theorem attrsToSend_publicPart (c : Config) (h : includePrivate c = false) (ad : Ad) :
    attrsToSend c ad = attrsToSend c (publicPart ad) := by
  rw [attrsToSend_eq_filter, attrsToSend_eq_filter, publicPart, List.filter_filter]
  apply List.filter_congr
  intro a _
  cases hk : keep c a
  · simp
  · simp [keep_public_of_excluded c h a hk]

/-- `adWithoutPrivate` is the plain removal of every secret-named attribute -/
theorem typeView_eq_filter (ad : Ad) (enc : List Bytes) :
    typeView ad enc = ad.filter (fun a => !isSecretName enc a.name) := by
  unfold typeView
  split
  · rfl
  · rename_i h
    symm
    rw [List.filter_eq_self]
    intro a ha
    simp only [List.any_eq_true, not_exists, not_and, Bool.not_eq_true] at h
    simp [h a ha]

theorem typeView_publicPart (ad : Ad) (enc : List Bytes) :
    typeView ad enc = typeView (publicPart ad) enc := by
  rw [typeView_eq_filter, typeView_eq_filter, publicPart, List.filter_filter]
  apply List.filter_congr
  intro a _
  cases hp : isPriv a.name <;> simp [isSecretName, hp]

theorem items_publicPart (ev : Eval) (c : Config) (s : Stream) (h : includePrivate c = false) (ad : Ad) :
    items ev c s ad = items ev c s (publicPart ad) := by
  unfold items itemsWith
  rw [← attrsToSend_publicPart c h ad, ← typeView_publicPart ad c.encryptedAttrs]


/-! ### emission: which payload bytes travel protected, which do not -/

theorem filter_const_true {α : Type} (l : List α) : l.filter (fun _ => true) = l := by
  induction l with
  | nil => rfl
  | cons a r ih => simp [List.filter, ih]

theorem clearBytes_append (a b : List PFrame) : clearBytes (a ++ b) = clearBytes a ++ clearBytes b := by
  simp [clearBytes]

theorem sealedBytes_append (a b : List PFrame) : sealedBytes (a ++ b) = sealedBytes a ++ sealedBytes b := by
  simp [sealedBytes]

theorem clearBytes_tag (z : Bool) (fs : List OutFrame) :
    clearBytes (tagFrames z fs) = if z then [] else (fs.map (·.1)).flatten := by
  cases z <;> simp [clearBytes, tagFrames, List.filter_map, Function.comp_def, filter_const_true]

theorem sealedBytes_tag (z : Bool) (fs : List OutFrame) :
    sealedBytes (tagFrames z fs) = if z then (fs.map (·.1)).flatten else [] := by
  cases z <;> simp [sealedBytes, tagFrames, List.filter_map, Function.comp_def, filter_const_true]

/-- what stands in the cleartext for an item: the value itself, or the marker -/
def Item.clearVal : Item → Val
  | .val v => v
  | .secret _ => .str marker

/-- the values that travel as put_secret fields -/
def secretVals : List Item → List Val
  | [] => []
  | .val _ :: r => secretVals r
  | .secret e :: r => .str e :: secretVals r

def Item.wf : Item → Prop
  | .val v => v.wf
  | .secret e => (Val.str e).wf

theorem marker_wf : (Val.str marker).wf := by
  refine ⟨by decide, by decide, by decide⟩

/-- session key present, stream not encrypting: the state in which secrets take the marker path -/
structure MarkerState (s : Stream) : Prop where
  keyed : s.key.isSome = true
  clear : s.encrypted = false

theorem MarkerState.crypting {s : Stream} (h : MarkerState s) : s.crypting = false := by
  simp [Stream.crypting, h.clear]

theorem MarkerState.prepare {s : Stream} (h : MarkerState s) :
    s.prepareSecret.encrypted = true ∧ s.prepareSecret.crypting = true ∧
    MarkerState s.prepareSecret.restoreSecret := by
  have hk := h.keyed
  have hc := h.clear
  refine ⟨?_, ?_, ?_, ?_⟩ <;>
    simp [Stream.prepareSecret, Stream.restoreSecret, Stream.crypting, hk, hc]

theorem emitItem_marker (s : Stream) (buf : Bytes) (it : Item) (hs : MarkerState s) (hw : it.wf) :
    clearBytes (emitItem s buf it).2.2 ++ (emitItem s buf it).2.1 = buf ++ Spec.enc false it.clearVal ∧
    sealedBytes (emitItem s buf it).2.2 = Spec.encAll true (secretVals [it]) ∧
    MarkerState (emitItem s buf it).1 := by
  cases it with
  | val v =>
    have := wireBytes_putVal false buf v hw
    simp only [emitItem, putOn, hs.crypting, hs.clear, clearBytes_tag, sealedBytes_tag,
      Bool.false_eq_true, if_false, Item.clearVal, secretVals, Spec.encAll]
    exact ⟨by simpa [wireBytes] using this, by simp, hs⟩
  | secret e =>
    obtain ⟨he, hc, hr⟩ := hs.prepare
    have h1 := wireBytes_putVal false buf (.str marker) marker_wf
    have h2 := wireBytes_putVal true [] (.str e) hw
    simp only [emitItem, putSecretExpr, putOn, flushOn, hs.crypting, hs.clear, he, hc,
      clearBytes_append, sealedBytes_append, clearBytes_tag, sealedBytes_tag,
      Bool.false_eq_true, if_false, if_true, Item.clearVal, secretVals, Spec.encAll]
    refine ⟨?_, ?_, hr⟩
    · simp only [clearBytes]
      simpa [wireBytes] using h1
    · simp only [sealedBytes]
      simpa [wireBytes] using h2

theorem secretVals_cons (it : Item) (r : List Item) :
    Spec.encAll true (secretVals (it :: r)) = Spec.encAll true (secretVals [it]) ++ Spec.encAll true (secretVals r) := by
  cases it <;> simp [secretVals, Spec.encAll]

/-- **layout on the marker path**: the unprotected payload bytes (plus what is still buffered)
    are the reference encodings of the ordinary values with a marker in place of every secret;
    the protected payload bytes are the length-prefixed secrets, in order. -/
theorem emitItems_marker : ∀ (its : List Item) (s : Stream) (buf : Bytes), MarkerState s → (∀ it ∈ its, it.wf) →
    clearBytes (emitItems s buf its).2.2 ++ (emitItems s buf its).2.1
        = buf ++ Spec.encAll false (its.map Item.clearVal) ∧
    sealedBytes (emitItems s buf its).2.2 = Spec.encAll true (secretVals its) ∧
    MarkerState (emitItems s buf its).1 := by
  intro its
  induction its with
  | nil => intro s buf hs _; simp [emitItems, clearBytes, sealedBytes, Spec.encAll, secretVals, hs]
  | cons it r ih =>
    intro s buf hs hw
    obtain ⟨h1, h2, h3⟩ := emitItem_marker s buf it hs (hw it (List.mem_cons_self ..))
    obtain ⟨g1, g2, g3⟩ := ih (emitItem s buf it).1 (emitItem s buf it).2.1 h3
      (fun x hx => hw x (List.mem_cons_of_mem _ hx))
    simp only [emitItems, clearBytes_append, sealedBytes_append]
    refine ⟨?_, ?_, g3⟩
    · rw [List.append_assoc, g1, ← List.append_assoc, h1]
      simp [Spec.encAll, List.append_assoc]
    · rw [g2, h2]; exact (secretVals_cons it r).symm

def Item.isVal : Item → Bool
  | .val _ => true
  | .secret _ => false

/-- with the crypto toggle a no-op (no key, or already encrypting) no item is a secret: every
    frame has the stream's own protection and the stream state never changes -/
theorem emitItems_allVal : ∀ (its : List Item) (s : Stream) (buf : Bytes), (∀ it ∈ its, it.isVal = true) →
    (emitItems s buf its).1 = s ∧ (∀ f ∈ (emitItems s buf its).2.2, f.sealed = s.crypting) := by
  intro its
  induction its with
  | nil => intro s buf _; simp [emitItems]
  | cons it r ih =>
    intro s buf h
    cases it with
    | secret e => have := h (.secret e) (List.mem_cons_self ..); simp [Item.isVal] at this
    | val v =>
      obtain ⟨g1, g2⟩ := ih s (putOn s buf v).1 (fun x hx => h x (List.mem_cons_of_mem _ hx))
      simp only [emitItems, emitItem]
      refine ⟨g1, ?_⟩
      intro f hf
      rcases List.mem_append.mp hf with h | h
      · simp only [putOn, tagFrames, List.mem_map] at h
        obtain ⟨x, _, rfl⟩ := h
        rfl
      · exact g2 f h

theorem items_allVal (ev : Eval) (c : Config) (s : Stream) (ad : Ad) (h : secretIsNoop s = true) :
    ∀ it ∈ items ev c s ad, it.isVal = true := by
  intro it hit
  simp only [items, itemsWith, typeItems, h, Bool.not_true, Bool.false_and, attrItem,
    Bool.false_eq_true, if_false, List.mem_append, List.mem_map, List.mem_singleton] at hit
  rcases hit with ((h1 | h2) | ⟨a, _, rfl⟩) | h4
  · subst h1; rfl
  · split at h2
    · simp only [List.mem_singleton] at h2; subst h2; rfl
    · simp at h2
  · rfl
  · split at h4
    · simp at h4
    · simp only [List.mem_cons, List.mem_nil_iff, or_false] at h4
      rcases h4 with rfl | rfl <;> rfl


/-! ### with the opt-in on the marker path: the unprotected bytes do not depend on secret values -/

/-- two lists related position by position -/
inductive Forall2 {α : Type} (R : α → α → Prop) : List α → List α → Prop
  | nil : Forall2 R [] []
  | cons {a b : α} {l1 l2 : List α} : R a b → Forall2 R l1 l2 → Forall2 R (a :: l1) (b :: l2)

/-- same attribute names in the same order; values may differ only where the name is private -/
def SameButPrivateValues (ad1 ad2 : Ad) : Prop :=
  Forall2 (fun a b => a.name = b.name ∧ (isPriv a.name = false → a.value = b.value)) ad1 ad2

theorem forall2_filter {α : Type} {R : α → α → Prop} (p : α → Bool) (hp : ∀ a b, R a b → p a = p b) :
    ∀ {l1 l2 : List α}, Forall2 R l1 l2 → Forall2 R (l1.filter p) (l2.filter p) := by
  intro l1 l2 h
  induction h with
  | nil => exact .nil
  | @cons a b t1 t2 hab _ ih =>
    simp only [List.filter_cons, ← hp a b hab]
    split
    · exact .cons hab ih
    · exact ih

theorem forall2_map_eq {α β : Type} {R : α → α → Prop} (f : α → β) :
    ∀ {l1 l2 : List α}, Forall2 R l1 l2 → (∀ a b, a ∈ l1 → R a b → f a = f b) → l1.map f = l2.map f := by
  intro l1 l2 h
  induction h with
  | nil => intro _; rfl
  | @cons a b t1 t2 hab _ ih =>
    intro hf
    simp only [List.map_cons, hf a b (List.mem_cons_self ..) hab,
      ih (fun x y hx hxy => hf x y (List.mem_cons_of_mem _ hx) hxy)]

theorem forall2_length {α : Type} {R : α → α → Prop} : ∀ {l1 l2 : List α}, Forall2 R l1 l2 → l1.length = l2.length := by
  intro l1 l2 h
  induction h with
  | nil => rfl
  | cons _ _ ih => simp [ih]

theorem clearVals_same (ev : Eval) (c : Config) (s : Stream) (ad1 ad2 : Ad) (hs : MarkerState s)
    (h : SameButPrivateValues ad1 ad2) :
    (items ev c s ad1).map Item.clearVal = (items ev c s ad2).map Item.clearVal := by
  have hnoop : secretIsNoop s = false := by
    have hk := hs.keyed
    simp only [Option.isSome_iff_exists] at hk
    obtain ⟨k, hk⟩ := hk
    simp [secretIsNoop, hs.clear, hk]
  have hkeep : ∀ a b : Attr, (a.name = b.name ∧ (isPriv a.name = false → a.value = b.value)) → keep c a = keep c b := by
    intro a b hab; simp [keep, hab.1]
  have hsend := forall2_filter (keep c) hkeep h
  rw [← attrsToSend_eq_filter, ← attrsToSend_eq_filter] at hsend
  have hlen := forall2_length hsend
  -- the serialised attributes, with a marker in place of every secret
  have hattrs : ((attrsToSend c ad1).map (attrItem (!secretIsNoop s) c.encryptedAttrs)).map Item.clearVal =
      ((attrsToSend c ad2).map (attrItem (!secretIsNoop s) c.encryptedAttrs)).map Item.clearVal := by
    rw [List.map_map, List.map_map]
    apply forall2_map_eq _ hsend
    intro a b _ hab
    simp only [Function.comp, attrItem, hnoop, Bool.not_false, Bool.true_and, ← hab.1]
    cases hsn : isSecretName c.encryptedAttrs a.name
    · have hp : isPriv a.name = false := by
        simp only [isSecretName, Bool.or_eq_false_iff] at hsn; exact hsn.1
      simp [Item.clearVal, exprStr, hab.1.symm, hab.2 hp]
    · simp [Item.clearVal]
  -- the ad the types are evaluated in
  have hview : typeView ad1 c.encryptedAttrs = typeView ad2 c.encryptedAttrs := by
    rw [typeView_eq_filter, typeView_eq_filter]
    have hf := forall2_filter (fun a : Attr => !isSecretName c.encryptedAttrs a.name)
      (fun a b hab => by simp [hab.1]) h
    have := forall2_map_eq id hf (fun a b ha hab => by
      have hsn : isSecretName c.encryptedAttrs a.name = false := by
        have := (List.mem_filter.mp ha).2; simpa using this
      have hp : isPriv a.name = false := by
        simp only [isSecretName, Bool.or_eq_false_iff] at hsn; exact hsn.1
      cases a; cases b
      simp only [id, Attr.mk.injEq]
      exact ⟨hab.1, hab.2 hp⟩)
    simpa using this
  simp only [items, itemsWith, List.map_append, hattrs, hview, hlen]

end Cedar.Privacy
