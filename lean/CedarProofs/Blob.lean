/-
  Helper lemmas for C15: field-level facts about the crypto-state blob encoding.
-/
import CedarModel.Export
import CedarProofs.CodecLemmas

namespace Cedar.C15
open Cedar CedarGen

/-- the ranges `ExportCryptoState` can write: one flag byte, a 32-byte key, 16-byte IVs, 32-bit
    counters, 16-bit length prefixes -/
structure WfBlob (f : BlobFields) : Prop where
  flags : f.flags < 256
  key : f.key < 256 ^ 32
  e0 : f.encIV.w0 < 2 ^ 32
  et : f.encIV.tail.length = 12
  d0 : f.decIV.w0 < 2 ^ 32
  dt : f.decIV.tail.length = 12
  ec : f.encCtr < 2 ^ 32
  dc : f.decCtr < 2 ^ 32
  fs : f.fs.length < 65536
  fr : f.fr.length < 65536
  peer : f.peer.length < 65536

theorem csMagic_len : csMagic.length = 4 := by decide

theorem ivBytes_len (iv : IV) (h : iv.tail.length = 12) : (ivBytes iv).length = 16 := by
  simp [ivBytes, be32, h]

theorem ivOfBytes_ivBytes (iv : IV) (h0 : iv.w0 < 2 ^ 32) (_ht : iv.tail.length = 12) : ivOfBytes (ivBytes iv) = iv := by
  unfold ivOfBytes ivBytes
  have h4 : (be32 iv.w0).length = 4 := by simp [be32]
  rw [List.take_left' h4, List.drop_left' h4, beVal_be32' _ h0]

theorem readVar_varField (a r : Bytes) (h : a.length < 65536) : readVar (varField a ++ r) = .ok (a, r) := by
  unfold readVar varField
  have h2 : (be16 a.length).length = 2 := by simp [be16]
  have hl : ¬ (be16 a.length ++ a ++ r).length < 2 := by simp [be16]
  rw [if_neg hl]
  simp only [List.append_assoc]
  rw [List.take_left' h2, List.drop_left' h2, beVal_be16 _ (by simpa using h)]
  have : ¬ (a ++ r).length < a.length := by simp
  rw [if_neg this, List.take_left' rfl, List.drop_left' rfl]
theorem beVal_beN32 (v : Nat) (h : v < 256 ^ 32) : beVal (beN 32 v) = v := by
  rw [beVal_beN_mod]; exact Nat.mod_eq_of_lt h


theorem readVar_truncated (a : Bytes) (m : Nat) (ha : a.length < 65536) (hm : m < 2 + a.length) :
    ∃ e, readVar ((varField a).take m) = .error e := by
  unfold readVar
  by_cases h2 : m < 2
  · have : ((varField a).take m).length < 2 := by simp [List.length_take]; omega
    rw [if_pos this]; exact ⟨_, rfl⟩
  · have hl : ¬ ((varField a).take m).length < 2 := by
      simp [List.length_take, varField, be16, beN]; omega
    rw [if_neg hl]
    have htake : ((varField a).take m).take 2 = be16 a.length := by
      simp [varField, be16, beN, List.take_take]
      have : min 2 m = 2 := by omega
      simp [this, List.take]
    have hv : beVal (be16 a.length) = a.length := by
      simp only [be16, beN, beVal, List.length_cons, List.length_nil, UInt8.toNat_ofNat']
      omega
    simp only [htake, hv]
    have : (((varField a).take m).drop 2).length < a.length := by
      simp [List.length_drop, List.length_take, varField, be16, beN]; omega
    rw [if_pos this]; exact ⟨_, rfl⟩


/-- the fixed 79-byte prefix of the blob and its three length-prefixed trailer fields -/
def fixedPart (f : BlobFields) : Bytes :=
  csMagic ++ (be16 csVersion ++ ([UInt8.ofNat f.flags] ++ (beN 32 f.key ++ (ivBytes f.encIV ++
    (ivBytes f.decIV ++ (be32 f.encCtr ++ be32 f.decCtr))))))
def trailer (f : BlobFields) : Bytes := varField f.fs ++ (varField f.fr ++ varField f.peer)

def decodeTrailer (t : Bytes) : Except Err (Bytes × Bytes × Bytes) :=
  match readVar t with
  | .error e => .error e
  | .ok (a, r1) =>
    match readVar r1 with
    | .error e => .error e
    | .ok (b, r2) =>
      match readVar r2 with
      | .error e => .error e
      | .ok (c, _) => .ok (a, b, c)

theorem encodeBlob_split (f : BlobFields) : encodeBlob f = fixedPart f ++ trailer f := by
  simp [encodeBlob, fixedPart, trailer, List.append_assoc]

theorem fixedPart_len (f : BlobFields) (wf : WfBlob f) : (fixedPart f).length = 79 := by
  have := ivBytes_len f.encIV wf.et
  have := ivBytes_len f.decIV wf.dt
  simp only [fixedPart, List.length_append, csMagic_len, List.length_cons, List.length_nil, *]
  simp [be16, be32]

/-- parsing a blob whose fixed part is well formed reduces to parsing its trailer -/
theorem decode_fixed (f : BlobFields) (wf : WfBlob f) (t : Bytes) :
    decodeBlob (fixedPart f ++ t) =
      match decodeTrailer t with
      | .error e => .error e
      | .ok (a, b, c) => .ok ⟨f.flags, f.key, f.encIV, f.decIV, f.encCtr, f.decCtr, a, b, c⟩ := by
  obtain ⟨w1, w2, w3, w4, w5, w6, w7, w8, w9, w10, w11⟩ := wf
  have lm := csMagic_len
  have lv : (be16 csVersion).length = 2 := by simp [be16]
  have lk : (beN 32 f.key).length = 32 := by simp
  have le := ivBytes_len f.encIV w4
  have ld := ivBytes_len f.decIV w6
  have l4a : (be32 f.encCtr).length = 4 := by simp [be32]
  have l4b : (be32 f.decCtr).length = 4 := by simp [be32]
  -- right-nested form of the blob
  have hb : fixedPart f ++ t = csMagic ++ (be16 csVersion ++ ([UInt8.ofNat f.flags] ++ (beN 32 f.key ++ (ivBytes f.encIV ++
      (ivBytes f.decIV ++ (be32 f.encCtr ++ (be32 f.decCtr ++ t))))))) := by
    simp [fixedPart, List.append_assoc]
  have hlen : ¬ ((fixedPart f ++ t)).length < csFixedLen := by
    rw [hb]; simp only [List.length_append, lm, lv, lk, le, ld, l4a, l4b, List.length_cons, List.length_nil]
    unfold csFixedLen stream.cryptoStateFixedLen; omega
  unfold decodeBlob
  rw [if_neg hlen]
  have t4 : ((fixedPart f ++ t)).take 4 = csMagic := by rw [hb]; exact List.take_left' lm
  rw [if_neg (by rw [t4]; exact fun h => h rfl)]
  have d4 : ((fixedPart f ++ t)).drop 4 = be16 csVersion ++ ([UInt8.ofNat f.flags] ++ (beN 32 f.key ++ (ivBytes f.encIV ++
      (ivBytes f.decIV ++ (be32 f.encCtr ++ (be32 f.decCtr ++ t)))))) := by
    rw [hb]; exact List.drop_left' lm
  have hv : beVal ((((fixedPart f ++ t)).drop 4).take 2) = csVersion := by
    rw [d4, List.take_left' lv]; exact beVal_be16 _ (by unfold csVersion stream.cryptoStateVersion; omega)
  rw [if_neg (by rw [hv]; exact fun h => h rfl)]
  have d6 : ((fixedPart f ++ t)).drop 6 = [UInt8.ofNat f.flags] ++ (beN 32 f.key ++ (ivBytes f.encIV ++
      (ivBytes f.decIV ++ (be32 f.encCtr ++ (be32 f.decCtr ++ t))))) := by
    have : ((fixedPart f ++ t)).drop 6 = (((fixedPart f ++ t)).drop 4).drop 2 := by rw [List.drop_drop]
    rw [this, d4]; exact List.drop_left' lv
  have d7 : ((fixedPart f ++ t)).drop 7 = beN 32 f.key ++ (ivBytes f.encIV ++
      (ivBytes f.decIV ++ (be32 f.encCtr ++ (be32 f.decCtr ++ t)))) := by
    have : ((fixedPart f ++ t)).drop 7 = (((fixedPart f ++ t)).drop 6).drop 1 := by rw [List.drop_drop]
    rw [this, d6]; rfl
  have d39 : ((fixedPart f ++ t)).drop 39 = ivBytes f.encIV ++
      (ivBytes f.decIV ++ (be32 f.encCtr ++ (be32 f.decCtr ++ t))) := by
    have : ((fixedPart f ++ t)).drop 39 = (((fixedPart f ++ t)).drop 7).drop 32 := by rw [List.drop_drop]
    rw [this, d7]; exact List.drop_left' lk
  have d55 : ((fixedPart f ++ t)).drop 55 =
      ivBytes f.decIV ++ (be32 f.encCtr ++ (be32 f.decCtr ++ t)) := by
    have : ((fixedPart f ++ t)).drop 55 = (((fixedPart f ++ t)).drop 39).drop 16 := by rw [List.drop_drop]
    rw [this, d39]; exact List.drop_left' le
  have d71 : ((fixedPart f ++ t)).drop 71 =
      be32 f.encCtr ++ (be32 f.decCtr ++ t) := by
    have : ((fixedPart f ++ t)).drop 71 = (((fixedPart f ++ t)).drop 55).drop 16 := by rw [List.drop_drop]
    rw [this, d55]; exact List.drop_left' ld
  have d75 : ((fixedPart f ++ t)).drop 75 = be32 f.decCtr ++ t := by
    have : ((fixedPart f ++ t)).drop 75 = (((fixedPart f ++ t)).drop 71).drop 4 := by rw [List.drop_drop]
    rw [this, d71]; exact List.drop_left' l4a
  have d79 : ((fixedPart f ++ t)).drop 79 = t := by
    have : ((fixedPart f ++ t)).drop 79 = (((fixedPart f ++ t)).drop 75).drop 4 := by rw [List.drop_drop]
    rw [this, d75]; exact List.drop_left' l4b
  simp only []
  rw [d6, d7, d39, d55, d71, d75, d79]
  rw [List.take_left' lk, List.take_left' le, List.take_left' ld, List.take_left' l4a, List.take_left' l4b]
  rw [beVal_beN32 _ w2, ivOfBytes_ivBytes _ w3 w4, ivOfBytes_ivBytes _ w5 w6, beVal_be32' _ w7, beVal_be32' _ w8]
  have hfl : ((([UInt8.ofNat f.flags] ++ (beN 32 f.key ++ (ivBytes f.encIV ++ (ivBytes f.decIV ++ (be32 f.encCtr ++
      (be32 f.decCtr ++ t)))))).take 1).headD 0).toNat = f.flags := by
    simp only [List.singleton_append, List.take_succ_cons, List.take_zero, List.headD_cons]
    simp [UInt8.toNat_ofNat']; omega
  rw [hfl]
  unfold decodeTrailer
  cases readVar t with
  | error e => rfl
  | ok r =>
    obtain ⟨a, r1⟩ := r
    simp only []
    cases readVar r1 with
    | error e => rfl
    | ok r' =>
      obtain ⟨b, r2⟩ := r'
      simp only []
      cases readVar r2 with
      | error e => rfl
      | ok r'' => rfl

theorem decodeTrailer_trailer (f : BlobFields) (wf : WfBlob f) :
    decodeTrailer (trailer f) = .ok (f.fs, f.fr, f.peer) := by
  unfold decodeTrailer trailer
  rw [readVar_varField _ _ wf.fs]
  simp only []
  rw [readVar_varField _ _ wf.fr]
  simp only []
  have hp : readVar (varField f.peer) = .ok (f.peer, []) := by
    have := readVar_varField f.peer [] wf.peer
    simpa using this
  rw [hp]


theorem varField_len (a : Bytes) : (varField a).length = 2 + a.length := by simp [varField, be16]

/-- a strictly truncated trailer does not parse -/
theorem decodeTrailer_truncated (a b c : Bytes) (ha : a.length < 65536) (hb : b.length < 65536) (hc : c.length < 65536)
    (m : Nat) (hm : m < (varField a ++ (varField b ++ varField c)).length) :
    ∃ e, decodeTrailer ((varField a ++ (varField b ++ varField c)).take m) = .error e := by
  unfold decodeTrailer
  by_cases h1 : m < (varField a).length
  · rw [List.take_append_of_le_length (Nat.le_of_lt h1)]
    obtain ⟨e, he⟩ := readVar_truncated a m ha (by rw [varField_len] at h1; exact h1)
    rw [he]; exact ⟨e, rfl⟩
  · obtain ⟨m1, rfl⟩ : ∃ m1, m = (varField a).length + m1 := ⟨m - (varField a).length, by omega⟩
    rw [List.take_length_add_append, readVar_varField _ _ ha]
    simp only []
    have hm1 : m1 < (varField b ++ varField c).length := by
      simp only [List.length_append] at hm ⊢; omega
    by_cases h2 : m1 < (varField b).length
    · rw [List.take_append_of_le_length (Nat.le_of_lt h2)]
      obtain ⟨e, he⟩ := readVar_truncated b m1 hb (by rw [varField_len] at h2; exact h2)
      rw [he]; exact ⟨e, rfl⟩
    · obtain ⟨m2, rfl⟩ : ∃ m2, m1 = (varField b).length + m2 := ⟨m1 - (varField b).length, by omega⟩
      rw [List.take_length_add_append, readVar_varField _ _ hb]
      simp only []
      have hm2 : m2 < (varField c).length := by
        simp only [List.length_append] at hm1; omega
      obtain ⟨e, he⟩ := readVar_truncated c m2 hc (by rw [varField_len] at hm2; exact hm2)
      rw [he]; exact ⟨e, rfl⟩


end Cedar.C15
