/-
  Helper lemmas for C15: field-level facts about the crypto-state blob encoding.
-/
import CedarModel.Export
import CedarProofs.CodecLemmas

namespace Cedar.C15
open Cedar CedarGen

/-- the ranges `ExportCryptoState` can write: one flag byte, a 32-byte key, 16-byte IVs, 32-bit
    counters, 16-bit length prefixes -/
structure WfBlob (f : BlobFields) : Prop where
  flags : f.flags < 256
  key : f.key < 256 ^ 32
  e0 : f.encIV.w0 < 2 ^ 32
  et : f.encIV.tail.length = 12
  d0 : f.decIV.w0 < 2 ^ 32
  dt : f.decIV.tail.length = 12
  ec : f.encCtr < 2 ^ 32
  dc : f.decCtr < 2 ^ 32
  fs : f.fs.length < 65536
  fr : f.fr.length < 65536
  peer : f.peer.length < 65536

theorem csMagic_len : csMagic.length = 4 := by decide

theorem ivBytes_len (iv : IV) (h : iv.tail.length = 12) : (ivBytes iv).length = 16 := by
  simp [ivBytes, be32, h]

theorem ivOfBytes_ivBytes (iv : IV) (h0 : iv.w0 < 2 ^ 32) (_ht : iv.tail.length = 12) : ivOfBytes (ivBytes iv) = iv := by
  unfold ivOfBytes ivBytes
  have h4 : (be32 iv.w0).length = 4 := by simp [be32]
  rw [List.take_left' h4, List.drop_left' h4, beVal_be32' _ h0]

theorem readVar_varField (a r : Bytes) (h : a.length < 65536) : readVar (varField a ++ r) = .ok (a, r) := by
  unfold readVar varField
  have h2 : (be16 a.length).length = 2 := by simp [be16]
  have hl : ¬ (be16 a.length ++ a ++ r).length < 2 := by simp [be16]
  rw [if_neg hl]
  simp only [List.append_assoc]
  rw [List.take_left' h2, List.drop_left' h2, beVal_be16 _ (by simpa using h)]
  have : ¬ (a ++ r).length < a.length := by simp
  rw [if_neg this, List.take_left' rfl, List.drop_left' rfl]
theorem beVal_beN32 (v : Nat) (h : v < 256 ^ 32) : beVal (beN 32 v) = v := by
  rw [beVal_beN_mod]; exact Nat.mod_eq_of_lt h


end Cedar.C15
