/-
  Helper lemmas for C16 over CedarModel/ClaimId.lean: string cutting, the claim-id grammar,
  policy lookups, and the session_info text (render ∘ parse).
-/
import CedarModel.ClaimId

namespace Cedar.Claim
open Cedar

/-! ## cutting strings -/

theorem splitLast_none {c : UInt8} : ∀ {s : Bytes}, c ∉ s → splitLast c s = none
  | [], _ => rfl
  | b :: bs, h => by
    have hb : b ≠ c := fun e => h (by simp [e])
    have hbs : c ∉ bs := fun e => h (by simp [e])
    simp [splitLast, splitLast_none hbs, hb]

theorem splitLast_append {c : UInt8} : ∀ (pre : Bytes) {post : Bytes}, c ∉ post →
    splitLast c (pre ++ c :: post) = some (pre, post)
  | [], post, h => by simp [splitLast, splitLast_none h]
  | b :: pre, post, h => by simp [splitLast, splitLast_append pre h]

theorem splitFirst_append {c : UInt8} : ∀ {pre : Bytes} (post : Bytes), c ∉ pre →
    splitFirst c (pre ++ c :: post) = some (pre, post)
  | [], post, _ => by simp [splitFirst]
  | b :: pre, post, h => by
    have hb : b ≠ c := fun e => h (by simp [e])
    have hp : c ∉ pre := fun e => h (by simp [e])
    simp [splitFirst, hb, splitFirst_append post hp]

theorem splitOn_append {c : UInt8} : ∀ {a : Bytes} (rest : Bytes), c ∉ a →
    splitOn c (a ++ c :: rest) = a :: splitOn c rest
  | [], rest, _ => by simp [splitOn]
  | b :: a, rest, h => by
    have hb : b ≠ c := fun e => h (by simp [e])
    have ha : c ∉ a := fun e => h (by simp [e])
    simp [splitOn, hb, splitOn_append rest ha]

theorem splitOn_nil (c : UInt8) : splitOn c [] = [[]] := rfl

/-! ## the claim-id grammar -/

/-- The grammar lemma: an id `<sid>#[body]<secret>` whose bracketed part contains no '#' and whose
    secret contains neither '#' nor ']' is cut back into exactly its three parts — whatever the
    session id contains ('#', '[', ']' included). -/
theorem parseStrict_assembled (sid body secret : Bytes)
    (hb : 35 ∉ body) (hs : 35 ∉ secret) (hr : 93 ∉ secret) :
    parseStrict (sid ++ 35 :: ((91 :: (body ++ [93])) ++ secret)) =
      { sid := sid, info := 91 :: (body ++ [93]), key := secret } := by
  have h35 : (35 : UInt8) ∉ (91 :: (body ++ [93])) ++ secret := by
    simp only [List.cons_append, List.mem_cons, List.mem_append, List.mem_nil_iff, or_false, not_or]
    exact ⟨by decide, ⟨hb, by decide⟩, hs⟩
  unfold parseStrict
  rw [splitLast_append sid h35]
  have e : (91 :: (body ++ [93])) ++ secret = (91 :: body) ++ 93 :: secret := by simp
  simp only [List.cons_append]
  have e2 : (91 : UInt8) :: (body ++ [93] ++ secret) = (91 :: body) ++ 93 :: secret := by simp
  rw [e2, splitLast_append (91 :: body) hr]
  simp

/-! ## policies -/

theorem lookup_filter_ne (p : Policy) (n k : Bytes) :
    (p.filter (fun kv => kv.1 != n)).lookup k = if k = n then none else p.lookup k := by
  induction p with
  | nil => simp [List.lookup]
  | cons kv rest ih =>
    obtain ⟨a, v⟩ := kv
    by_cases ha : a = n
    · subst ha
      have hp : ¬ (fun kv : Bytes × Val => kv.1 != a) (a, v) = true := by
        show ¬ (a != a) = true
        simp
      have hf : List.filter (fun kv : Bytes × Val => kv.1 != a) ((a, v) :: rest) = List.filter (fun kv => kv.1 != a) rest :=
        List.filter_cons_of_neg hp
      rw [hf, ih]
      by_cases hk : k = a
      · simp [hk]
      · have : (k == a) = false := by simpa using hk
        simp [hk, List.lookup, this]
    · have hp : (fun kv : Bytes × Val => kv.1 != n) (a, v) = true := by
        show (a != n) = true
        exact bne_iff_ne.mpr ha
      have hf : List.filter (fun kv : Bytes × Val => kv.1 != n) ((a, v) :: rest) = (a, v) :: List.filter (fun kv => kv.1 != n) rest :=
        List.filter_cons_of_pos hp
      rw [hf]
      by_cases hk : k = a
      · subst hk
        simp [List.lookup, ha]
      · have h1 : (k == a) = false := by simpa using hk
        simp only [List.lookup, h1, ih]

theorem lookup_set (p : Policy) (n k : Bytes) (v : Val) :
    (p.set n v).lookup k = if k = n then some v else p.lookup k := by
  unfold Policy.set
  by_cases hk : k = n
  · subst hk; simp [List.lookup]
  · have h1 : (k == n) = false := by simpa using hk
    simp [List.lookup, h1, hk, lookup_filter_ne]

theorem evalStr_set (p : Policy) (n k : Bytes) (v : Val) (h : k ≠ n) :
    (p.set n v).evalStr k = p.evalStr k := by
  simp [Policy.evalStr, lookup_set, h]

/-- the attributes `finishPolicy` writes -/
def finishNames : List Bytes :=
  [nSecUseSession, nSid, nEnact, nNegotiatedSession, nAuthMethods, nUser, nAuthenticated, nCryptoMethods]

theorem lookup_finishPolicy_other (p : Policy) (sid u k : Bytes) (h : k ∉ finishNames) :
    (finishPolicy p sid u).lookup k = p.lookup k := by
  simp only [finishNames, List.mem_cons, List.mem_nil_iff, or_false, not_or] at h
  obtain ⟨h1, h2, h3, h4, h5, h6, h7, h8⟩ := h
  simp [finishPolicy, lookup_set, h1, h2, h3, h4, h5, h6, h7, h8]

/-- two finished policies over the same imported policy and session id agree on every attribute
    except `User` (the peer identity each side attributes to the other) -/
theorem lookup_finishPolicy_user (p : Policy) (sid u1 u2 k : Bytes) (h : k ≠ nUser) :
    (finishPolicy p sid u1).lookup k = (finishPolicy p sid u2).lookup k := by
  simp only [finishPolicy, lookup_set, h, if_false]

theorem evalStr_finishPolicy_expires (p : Policy) (sid u : Bytes) :
    (finishPolicy p sid u).evalStr nSessionExpires = p.evalStr nSessionExpires := by
  unfold Policy.evalStr
  rw [lookup_finishPolicy_other _ _ _ _ (by decide)]

theorem nonEmptyStr_finishPolicy_cmds (p : Policy) (sid u : Bytes) :
    (finishPolicy p sid u).nonEmptyStr nValidCommands = p.nonEmptyStr nValidCommands := by
  unfold Policy.nonEmptyStr Policy.evalStr
  rw [lookup_finishPolicy_other _ _ _ _ (by decide)]

/-- `claimExpiration` reads only `SessionExpires` -/
theorem claimExpiration_finish (p : Policy) (sid u : Bytes) (fb now : Int) :
    claimExpiration (finishPolicy p sid u) fb now = claimExpiration p fb now := by
  simp [claimExpiration, embeddedExpiry, evalStr_finishPolicy_expires]

theorem mapClaimCommands_finish (p : Policy) (sid u s addr tag : Bytes) (x : List Int) :
    mapClaimCommands (finishPolicy p sid u) s addr tag x = mapClaimCommands p s addr tag x := by
  simp [mapClaimCommands, nonEmptyStr_finishPolicy_cmds]

/-! ## the exported text -/

/-- the order in which `exportFields` lists the seven possible attributes is the order the code's
    `sortStrings` (insertion sort, byte-wise) produces, whatever order the map yields them in -/
theorem exportNames_sorted :
    sortStrings [nValidCommands, nIntegrity, nShortVersion, nEncryption, nSessionExpires, nCryptoMethodsList, nCryptoMethods] =
      [nCryptoMethods, nCryptoMethodsList, nEncryption, nIntegrity, nSessionExpires, nShortVersion, nValidCommands] := by
  decide

theorem exportInfo_shape {p : Policy} {t : Bytes} (h : exportInfo p = .ok t) :
    ∃ body, t = 91 :: (body ++ [93]) ∧ 35 ∉ body := by
  unfold exportInfo at h
  by_cases hc : (35 : UInt8) ∈ render (exportFields p)
  · simp [hc] at h
  · simp only [hc, if_false, Except.ok.injEq] at h
    subst h
    refine ⟨renderItems (exportFields p), rfl, ?_⟩
    intro hm
    exact hc (by simp [render, hm])

/-! ## inversion of `mint` -/

theorem deriveClaimKey_ok {p : Policy} {secret : Bytes} {k : Key} (h : deriveClaimKey p secret = .ok k) :
    secret ≠ [] ∧ k = .hkdf secret := by
  unfold deriveClaimKey at h
  by_cases hm : keyMethod p ≠ sAES ∧ keyMethod p ≠ sAESGCM
  · rw [if_pos hm] at h; cases h
  · rw [if_neg hm] at h
    unfold deriveSessionKey at h
    by_cases hs : secret = []
    · simp [hs] at h
    · simp only [hs, if_false, Except.ok.injEq] at h
      exact ⟨hs, h.symm⟩

/-- the cipher check does not look at the secret: if one secret is accepted, every non-empty one is -/
theorem deriveClaimKey_secret {p : Policy} {s1 s2 : Bytes} {k : Key} (h : deriveClaimKey p s1 = .ok k) (h2 : s2 ≠ []) :
    deriveClaimKey p s2 = .ok (.hkdf s2) := by
  unfold deriveClaimKey at h ⊢
  by_cases hm : keyMethod p ≠ sAES ∧ keyMethod p ≠ sAESGCM
  · rw [if_pos hm] at h; cases h
  · rw [if_neg hm]
    simp [deriveSessionKey, h2]

/-- what a successful `mint` did, step by step -/
theorem mint_inv {o : MintOpts} {now : Int} {secret : Bytes} {m : Minted} (h : mint o now secret = .ok m) :
    ∃ info pol, o.sinful ≠ [] ∧ cipherOk (mintCipher o) = true ∧
      exportInfo (wirePolicy o now) = .ok info ∧
      importInfo info = .ok pol ∧
      deriveClaimKey pol secret = .ok (.hkdf secret) ∧ secret ≠ [] ∧
      m = mintResult o now secret info pol (.hkdf secret) := by
  unfold mint at h
  by_cases h1 : o.sinful = []
  · simp [h1] at h
  by_cases h2 : cipherOk (mintCipher o) = false
  · simp [h1, h2] at h
  rw [if_neg h1, if_neg h2] at h
  cases hE : exportInfo (wirePolicy o now) with
  | error e => simp [hE] at h
  | ok info =>
    simp only [hE] at h
    cases hI : importInfo info with
    | error e => simp [hI] at h
    | ok pol =>
      simp only [hI] at h
      cases hK : deriveClaimKey pol secret with
      | error e => simp [hK] at h
      | ok key =>
        simp only [hK, Except.ok.injEq] at h
        obtain ⟨hs, hk⟩ := deriveClaimKey_ok hK
        subst hk
        exact ⟨info, pol, h1, by simpa using h2, rfl, hI, hK, hs, h.symm⟩

/-! ## importing -/

/-- what a successful `importClaim` did -/
theorem importClaim_inv {c : Bytes} {o : ImportOpts} {now : Int} {im : Imported} (h : importClaim c o now = .ok im) :
    ∃ pol, (parseStrict c).secSessionId ≠ [] ∧ (parseStrict c).key ≠ [] ∧
      importInfo (parseStrict c).info = .ok pol ∧
      im = importResult (parseStrict c).secSessionId o now pol (.hkdf (parseStrict c).key) := by
  unfold importClaim at h
  by_cases h1 : (parseStrict c).secSessionId = []
  · simp [h1] at h
  by_cases h2 : (parseStrict c).key = []
  · simp [h1, h2] at h
  rw [if_neg h1, if_neg h2] at h
  cases hI : importInfo (parseStrict c).info with
  | error e => simp [hI] at h
  | ok pol =>
    simp only [hI] at h
    cases hK : deriveClaimKey pol (parseStrict c).key with
    | error e => simp [hK] at h
    | ok key =>
      simp only [hK, Except.ok.injEq] at h
      obtain ⟨_, hk⟩ := deriveClaimKey_ok hK
      subst hk
      exact ⟨pol, h1, h2, rfl, h.symm⟩

/-- importing an id assembled from the parts of a successful mint, with ANY non-empty secret that
    is free of '#' and ']', succeeds and yields the session below -/
theorem importClaim_assembled {sid body secret : Bytes} {pol : Policy} {k : Key} (o : ImportOpts) (now : Int)
    (hsid : sid ≠ []) (hb : 35 ∉ body) (hs : 35 ∉ secret) (hr : 93 ∉ secret) (hne : secret ≠ [])
    (hI : importInfo (91 :: (body ++ [93])) = .ok pol) (s0 : Bytes) (hK : deriveClaimKey pol s0 = .ok k) :
    importClaim (sid ++ 35 :: ((91 :: (body ++ [93])) ++ secret)) o now =
      .ok (importResult sid o now pol (.hkdf secret)) := by
  unfold importClaim
  rw [parseStrict_assembled sid body secret hb hs hr]
  have h1 : (Parsed.secSessionId { sid := sid, info := 91 :: (body ++ [93]), key := secret }) = sid := by
    simp [Parsed.secSessionId]
  rw [h1, if_neg hsid]
  simp only [hne, if_false, hI, deriveClaimKey_secret hK hne]

/-! ## caches -/

theorem lookupLive_store (c : Cache) (e : Entry) (now : Int) :
    (c.store e).lookupLive e.id now = if e.expiry.expiredAt now then none else some e := by
  simp [Cache.lookupLive, Cache.store]

/-- resumption between two caches that hold entries `a`, `b` under the same id -/
theorem resume_stored (ca cb : Cache) (a b : Entry) (now : Int) (hid : a.id = b.id)
    (ha : a.expiry.expiredAt now = false) (hb : b.expiry.expiredAt now = false) :
    resume (ca.store a) (cb.store b) a.id now = .resumed (decide (a.key = b.key)) := by
  unfold resume
  rw [lookupLive_store, ha]
  simp only [Bool.false_eq_true, if_false]
  rw [hid, lookupLive_store, hb]
  simp

/-- with different keys no data is delivered, expired or not -/
theorem resume_stored_ne (ca cb : Cache) (a b : Entry) (now : Int) (hid : a.id = b.id) (hk : a.key ≠ b.key) :
    resume (ca.store a) (cb.store b) a.id now ≠ .resumed true := by
  unfold resume
  rw [lookupLive_store]
  cases ha : a.expiry.expiredAt now with
  | true => simp
  | false =>
    simp only [Bool.false_eq_true, if_false]
    rw [hid, lookupLive_store]
    cases hb : b.expiry.expiredAt now with
    | true => simp
    | false => simp [hk]

end Cedar.Claim
