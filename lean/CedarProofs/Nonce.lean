/-
  Helper lemmas for C12: along any history of operations the send-side (key, base IV) never
  changes and every protected frame consumes exactly one counter value.
-/
import CedarProofs.Prefix

namespace Cedar

/-- the send-crypto footprint of `t` equals that of `s` -/
def SameSend (t s : Stream) : Prop := t.encIV = s.encIV ∧ t.key = s.key ∧ t.encCtr = s.encCtr

theorem SameSend.refl (s : Stream) : SameSend s s := ⟨rfl, rfl, rfl⟩

/-- what one `sendMessageWithEnd` does to the send-crypto footprint -/
theorem sendFrame_nonce {t t' : Stream} {d fl f} (hb : t.encCtr ≤ counterLimit)
    (h : t.sendFrame d fl = .ok (t', f)) :
    t'.encIV = t.encIV ∧ t'.key = t.key ∧
    ((nonceOf f = none ∧ t'.encCtr = t.encCtr) ∨
     (∃ k, t.key = some k ∧ nonceOf f = some (k, t.encIV.nonce t.encCtr) ∧
        t'.encCtr = t.encCtr + 1 ∧ t.encCtr < counterLimit)) := by
  unfold Stream.sendFrame at h
  by_cases h1 : d.length > maxMessageSize
  · rw [if_pos h1] at h; cases h
  · rw [if_neg h1] at h
    have plain : ∀ s1 : Stream,
        (Except.ok (s1, (⟨fl, d.length, .raw d⟩ : WireFrame)) : Except Err _) = .ok (t', f) →
        s1.encIV = t.encIV → s1.key = t.key → s1.encCtr = t.encCtr →
        t'.encIV = t.encIV ∧ t'.key = t.key ∧
        ((nonceOf f = none ∧ t'.encCtr = t.encCtr) ∨
         (∃ k, t.key = some k ∧ nonceOf f = some (k, t.encIV.nonce t.encCtr) ∧
            t'.encCtr = t.encCtr + 1 ∧ t.encCtr < counterLimit)) := by
      intro s1 h a b c
      simp only [Except.ok.injEq, Prod.mk.injEq] at h
      obtain ⟨rfl, rfl⟩ := h
      exact ⟨a, b, .inl ⟨rfl, c⟩⟩
    rcases Option.eq_none_or_eq_some t.key with hk | ⟨k, hk⟩
    · simp only [hk] at h; exact plain _ h rfl (by simp [hk]) rfl
    · cases he : t.encrypted with
      | false => simp only [hk, he] at h; exact plain _ h rfl (by simp [hk]) rfl
      | true =>
        simp only [hk, he] at h
        by_cases h2 : d.length + tagLen + (if t.encCtr = 0 then ivLen else 0) > maxMessageSize
        · rw [if_pos h2] at h; cases h
        · rw [if_neg h2] at h
          by_cases h3 : t.encCtr = counterLimit
          · rw [if_pos h3] at h; cases h
          · rw [if_neg h3] at h
            simp only [Except.ok.injEq, Prod.mk.injEq] at h
            obtain ⟨rfl, rfl⟩ := h
            refine ⟨rfl, by simp [hk], .inr ⟨k, hk, ?_, rfl, by omega⟩⟩
            simp [nonceOf, Stream.sealFrame]

/-- Summary of what a step (or a run) does on the send side: `n` protected frames, with nonces
    `iv + ctr, iv + ctr + 1, …`, key and base IV untouched. -/
def SendSummary (s s' : Stream) (fs : List WireFrame) (n : Nat) : Prop :=
  s'.encIV = s.encIV ∧ s'.key = s.key ∧ s'.encCtr = s.encCtr + n ∧ s.encCtr + n ≤ counterLimit ∧
  fs.filterMap nonceOf = (List.range n).map (fun i => (s.key.getD 0, s.encIV.nonce (s.encCtr + i)))

theorem summary_of_same {s s' : Stream} (hb : s.encCtr ≤ counterLimit) (h : SameSend s' s) :
    SendSummary s s' [] 0 := ⟨h.1, h.2.1, by simpa using h.2.2, by simpa using hb, by simp⟩

theorem summary_of_send {s t t' : Stream} {d fl f} (hb : s.encCtr ≤ counterLimit)
    (h : t.sendFrame d fl = .ok (t', f)) (hst : SameSend t s) :
    SendSummary s t' [f] 0 ∨ SendSummary s t' [f] 1 := by
  obtain ⟨e1, e2, e3⟩ := hst
  obtain ⟨a, b, c⟩ := sendFrame_nonce (by omega) h
  rcases c with ⟨c1, c2⟩ | ⟨k, c1, c2, c3, c4⟩
  · left; exact ⟨by rw [a, e1], by rw [b, e2], by simp [c2, e3], by simpa using hb, by simp [c1]⟩
  · right
    refine ⟨by rw [a, e1], by rw [b, e2], by rw [c3, e3], by omega, ?_⟩
    simp [c2, ← e2, c1, e1, e3, List.range_succ]

theorem step_summary (s : Stream) (op : Op) (hb : s.encCtr ≤ counterLimit) :
    ∃ n, SendSummary s (s.step op).1 (s.step op).2 n := by
  cases op with
  | send d fl =>
    simp only [Stream.step, okOr]
    split
    · rename_i s' f h
      rcases summary_of_send hb h (SameSend.refl s) with h | h
      · exact ⟨0, h⟩
      · exact ⟨1, h⟩
    · exact ⟨0, summary_of_same hb (SameSend.refl s)⟩
  | write d =>
    simp only [Stream.step, okOr]
    split
    · rename_i s' fs h
      unfold Stream.writeMessage at h
      split at h
      · cases h
      · dsimp only at h
        split at h
        · unfold Stream.flushPartial at h
          split at h
          · simp only [Except.ok.injEq, Prod.mk.injEq] at h
            obtain ⟨rfl, rfl⟩ := h
            exact ⟨0, summary_of_same hb ⟨rfl, rfl, rfl⟩⟩
          · split at h
            · cases h
            · rename_i s1 f hsf
              simp only [Except.ok.injEq, Prod.mk.injEq] at h
              obtain ⟨rfl, rfl⟩ := h
              rcases summary_of_send (s := s) hb hsf ⟨rfl, rfl, rfl⟩ with h | h
              · exact ⟨0, ⟨h.1, h.2.1, h.2.2.1, h.2.2.2.1, h.2.2.2.2⟩⟩
              · exact ⟨1, ⟨h.1, h.2.1, h.2.2.1, h.2.2.2.1, h.2.2.2.2⟩⟩
        · simp only [Except.ok.injEq, Prod.mk.injEq] at h
          obtain ⟨rfl, rfl⟩ := h
          exact ⟨0, summary_of_same hb ⟨rfl, rfl, rfl⟩⟩
    · exact ⟨0, summary_of_same hb (SameSend.refl s)⟩
  | endMsg =>
    simp only [Stream.step, okOr]
    split
    · rename_i s' fs h
      unfold Stream.endMessage at h
      split at h
      · cases h
      · dsimp only at h
        split at h
        · cases h
        · rename_i s2 f hsf
          simp only [Except.ok.injEq, Prod.mk.injEq] at h
          obtain ⟨rfl, rfl⟩ := h
          rcases summary_of_send (s := s) hb hsf ⟨rfl, rfl, rfl⟩ with h | h
          · exact ⟨0, ⟨h.1, h.2.1, h.2.2.1, h.2.2.2.1, h.2.2.2.2⟩⟩
          · exact ⟨1, ⟨h.1, h.2.1, h.2.2.1, h.2.2.2.1, h.2.2.2.2⟩⟩
    · exact ⟨0, summary_of_same hb (SameSend.refl s)⟩
  | startMsg => exact ⟨0, summary_of_same hb ⟨rfl, rfl, rfl⟩⟩
  | secret d =>
    simp only [Stream.step, okOr]
    split
    · rename_i s' f h
      unfold Stream.putSecret at h
      split at h
      · cases h
      · rename_i s1 f1 hsf
        simp only [Except.ok.injEq, Prod.mk.injEq] at h
        obtain ⟨rfl, rfl⟩ := h
        have hsame : SameSend s.prepareSecret s := by
          unfold Stream.prepareSecret; dsimp only; split <;> exact ⟨rfl, rfl, rfl⟩
        rcases summary_of_send (s := s) hb hsf hsame with h | h
        · exact ⟨0, ⟨h.1, h.2.1, h.2.2.1, h.2.2.2.1, h.2.2.2.2⟩⟩
        · exact ⟨1, ⟨h.1, h.2.1, h.2.2.1, h.2.2.2.1, h.2.2.2.2⟩⟩
    · exact ⟨0, summary_of_same hb (SameSend.refl s)⟩
  | crypto on =>
    refine ⟨0, summary_of_same hb ?_⟩
    simp only [Stream.step, Stream.setCryptoMode]
    split
    · split <;> exact ⟨rfl, rfl, rfl⟩
    · exact ⟨rfl, rfl, rfl⟩
  | recv f =>
    simp only [Stream.step, okOr]
    split
    · rename_i s' x h
      refine ⟨0, summary_of_same hb ?_⟩
      unfold Stream.recvFrameWithEnd at h
      repeat' split at h
      all_goals first | (simp only [Except.ok.injEq, Prod.mk.injEq] at h; obtain ⟨rfl, _⟩ := h; exact ⟨rfl, rfl, rfl⟩) | cases h
    · exact ⟨0, summary_of_same hb (SameSend.refl s)⟩
  | recvPlain f =>
    simp only [Stream.step, okOr]
    split
    · rename_i s' x h
      refine ⟨0, summary_of_same hb ?_⟩
      unfold Stream.recvFrame at h
      repeat' split at h
      all_goals first | (simp only [Except.ok.injEq, Prod.mk.injEq] at h; obtain ⟨rfl, _⟩ := h; exact ⟨rfl, rfl, rfl⟩) | cases h
    · exact ⟨0, summary_of_same hb (SameSend.refl s)⟩
  | getSecret f =>
    simp only [Stream.step, okOr]
    split
    · rename_i s' x h
      refine ⟨0, summary_of_same hb ?_⟩
      unfold Stream.getSecret at h
      split at h
      · cases h
      · rename_i s1 d hrf
        simp only [Except.ok.injEq, Prod.mk.injEq] at h
        obtain ⟨rfl, _⟩ := h
        have hp : SameSend s.prepareSecret s := by
          unfold Stream.prepareSecret; dsimp only; split <;> exact ⟨rfl, rfl, rfl⟩
        have h1 : SameSend s1 s.prepareSecret := by
          unfold Stream.recvFrame at hrf
          repeat' split at hrf
          all_goals first | (simp only [Except.ok.injEq, Prod.mk.injEq] at hrf; obtain ⟨rfl, _⟩ := hrf; exact ⟨rfl, rfl, rfl⟩) | cases hrf
        exact ⟨h1.1.trans hp.1, h1.2.1.trans hp.2.1, h1.2.2.trans hp.2.2⟩
    · exact ⟨0, summary_of_same hb (SameSend.refl s)⟩

theorem summary_trans {s s1 s2 : Stream} {fs gs n1 n2}
    (h1 : SendSummary s s1 fs n1) (h2 : SendSummary s1 s2 gs n2) :
    SendSummary s s2 (fs ++ gs) (n1 + n2) := by
  obtain ⟨a1, b1, c1, d1, e1⟩ := h1
  obtain ⟨a2, b2, c2, d2, e2⟩ := h2
  refine ⟨a2.trans a1, b2.trans b1, by omega, by omega, ?_⟩
  rw [List.filterMap_append, e1, e2, List.range_add, List.map_append, List.map_map]
  congr 1
  apply List.map_congr_left
  intro i _
  simp [a1, b1, c1, Nat.add_assoc]

theorem run_summary : ∀ (ops : List Op) (s : Stream), s.encCtr ≤ counterLimit →
    ∃ n, SendSummary s (s.run ops).1 (s.run ops).2 n := by
  intro ops
  induction ops with
  | nil => intro s hb; exact ⟨0, summary_of_same hb (SameSend.refl s)⟩
  | cons op rest ih =>
    intro s hb
    obtain ⟨n1, h1⟩ := step_summary s op hb
    obtain ⟨n2, h2⟩ := ih (s.step op).1 (by rw [h1.2.2.1]; exact h1.2.2.2.1)
    exact ⟨n1 + n2, by simpa [Stream.run] using summary_trans h1 h2⟩

end Cedar
