/-
  Helper lemmas for C01: the incremental receive API (StartMessageRead / ReadMessageBytes /
  EndMessageRead) sees exactly the message ReceiveCompleteMessage would return.
-/
import CedarModel.Session

namespace Cedar

/-- the receive buffer bookkeeping is invisible to the frame receiver -/
def Stream.withBuf (s : Stream) (b : Bytes) (m : Nat) : Stream := { s with recvBuf := b, totalMsg := m }

theorem openBody_withBuf (s : Stream) (b : Bytes) (m : Nat) (k : Nat) (f : WireFrame) :
    (s.withBuf b m).openBody k f = s.openBody k f := rfl

theorem recvFrameWithEnd_withBuf (s : Stream) (b : Bytes) (m : Nat) (f : WireFrame) :
    (s.withBuf b m).recvFrameWithEnd f =
      match s.recvFrameWithEnd f with
      | .error e => .error e
      | .ok (s1, d, fl) => .ok (s1.withBuf b m, d, fl) := by
  unfold Stream.recvFrameWithEnd
  cases checkHdr f with
  | error e => rfl
  | ok u =>
    simp only []
    by_cases h0 : f.len = 0
    · rw [if_pos h0, if_pos h0]
      have : (s.withBuf b m).crypting = s.crypting := rfl
      rw [this]
      by_cases hc : s.crypting = true
      · rw [if_pos hc, if_pos hc]
      · rw [if_neg hc, if_neg hc]; rfl
    · rw [if_neg h0, if_neg h0]
      have hk : (s.withBuf b m).key = s.key := rfl
      have he : (s.withBuf b m).encrypted = s.encrypted := rfl
      rw [hk, he]
      cases s.key with
      | none => cases f.body <;> rfl
      | some k =>
        cases s.encrypted with
        | false => cases f.body <;> rfl
        | true =>
          simp only []
          rw [openBody_withBuf]
          cases s.openBody k f with
          | error e => rfl
          | ok r => rfl

/-- `readNextFrame` gathers exactly the message `ReceiveCompleteMessage` returns, leaves the same
    frames on the wire and the stream in the same protocol state. -/
theorem readNext_eq_complete : ∀ (w : List WireFrame) (s s1 : Stream) (acc msg : Bytes) (w' : List WireFrame) (m : Nat),
    s.recvCompleteAux acc w = .ok (s1, msg, w') →
    (s.withBuf acc m).readNextFrame w = .ok (s1.withBuf msg msg.length, w')
  | [], s, s1, acc, msg, w', m, h => by simp [Stream.recvCompleteAux] at h
  | f :: w, s, s1, acc, msg, w', m, h => by
    unfold Stream.recvCompleteAux at h
    unfold Stream.readNextFrame
    rw [recvFrameWithEnd_withBuf]
    cases hr : s.recvFrameWithEnd f with
    | error e => rw [hr] at h; cases h
    | ok r =>
      obtain ⟨s2, d, fl⟩ := r
      rw [hr] at h
      simp only [] at h ⊢
      by_cases h1 : fl = 1
      · rw [if_pos h1] at h
        simp only [Except.ok.injEq, Prod.mk.injEq] at h
        obtain ⟨rfl, rfl, rfl⟩ := h
        have : ¬ fl = 0 := by omega
        rw [if_neg this]
        rfl
      · rw [if_neg h1] at h
        by_cases h0 : fl = 0
        · rw [if_pos h0] at h
          rw [if_pos h0]
          exact readNext_eq_complete w s2 s1 (acc ++ d) msg w' _ h
        · rw [if_neg h0] at h; cases h

end Cedar
