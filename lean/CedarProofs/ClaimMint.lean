/-
  Helper lemmas for C16: the wire policy of `mint`, well-formed minting options, versions in short
  and long form.
-/
import CedarProofs.ClaimRound

namespace Cedar.Claim
open Cedar

/-! ## versions -/

theorem shortVersion_short {v : Bytes} (h1 : 32 ∉ v) (h2 : 36 ∉ v) : shortVersion v = v := by
  unfold shortVersion
  simp [h1, h2]

theorem fieldsAux_word : ∀ (w cur rest : Bytes), (∀ b ∈ w, isSpace b = false) → (cur ≠ [] ∨ w ≠ []) →
    fieldsAux (w ++ 32 :: rest) cur = (cur.reverse ++ w) :: fieldsAux rest []
  | [], cur, rest, _, hne => by
    have hc : cur ≠ [] := by rcases hne with h | h; exact h; exact absurd rfl h
    have : isSpace 32 = true := by decide
    simp [fieldsAux, this, hc]
  | b :: w, cur, rest, hw, _ => by
    have hb : isSpace b = false := hw b (by simp)
    have := fieldsAux_word w (b :: cur) rest (fun x hx => hw x (by simp [hx])) (Or.inl (by simp))
    simp only [List.cons_append, fieldsAux, hb, Bool.false_eq_true, if_false]
    rw [this]
    simp

/-- a version string in compact form ("25.4.0") or in the long form
    "<token> <compact version> <anything>" (e.g. "$CondorVersion: 25.4.0 2025-10-31 ... $") -/
inductive VersionWf : Bytes → Prop
  | short (v : Bytes) : 32 ∉ v → 36 ∉ v → 59 ∉ v → v ≠ [] → VersionWf v
  | long (tok ver rest : Bytes) (d : UInt8) (t : Bytes) :
      tok ≠ [] → (∀ b ∈ tok, isSpace b = false) → 46 ∉ tok →
      ver = d :: t → isDigit d = true → (∀ b ∈ ver, isSpace b = false) → 36 ∉ ver → 59 ∉ ver → 46 ∈ ver →
      (∀ b, ver.getLast? = some b → b ≠ 59 ∧ b ≠ 44) →
      VersionWf (tok ++ 32 :: (ver ++ 32 :: rest))

/-- the compact version a well-formed version string denotes -/
theorem shortVersion_wf {v : Bytes} (h : VersionWf v) :
    59 ∉ shortVersion v ∧ shortVersion v ≠ [] ∧ shortVersion (shortVersion v) = shortVersion v := by
  cases h with
  | short _ h1 h2 h3 h4 =>
    rw [shortVersion_short h1 h2]
    exact ⟨h3, h4, shortVersion_short h1 h2⟩
  | long tok ver rest d t htok hts htd hver hd hvs hv36 hv59 hv46 hlast =>
    have h32 : (32 : UInt8) ∉ ver := fun hm => by have := hvs 32 hm; revert this; decide
    have key : shortVersion (tok ++ 32 :: (ver ++ 32 :: rest)) = ver := by
      unfold shortVersion
      have hin : (32 : UInt8) ∈ tok ++ 32 :: (ver ++ 32 :: rest) ∨ (36 : UInt8) ∈ tok ++ 32 :: (ver ++ 32 :: rest) :=
        Or.inl (by simp)
      simp only [hin, not_true_eq_false, if_false]
      unfold fields
      rw [fieldsAux_word tok [] _ hts (Or.inr htok), fieldsAux_word ver [] _ hvs (Or.inr (by rw [hver]; simp))]
      have p1 : versionTok tok = false := by simp [versionTok, htd]
      have p2 : versionTok ver = true := by
        subst hver
        simp [versionTok, startsDigit, hv46, hd]
      simp only [List.reverse_nil, List.nil_append, List.find?, p1, p2]
      apply trimRightBy_id
      intro b hb
      have := hlast b hb
      simp [this.1, this.2]
    rw [key]
    exact ⟨hv59, by rw [hver]; simp, shortVersion_short h32 hv36⟩

/-! ## the wire policy -/

theorem joinInts_bytes : ∀ (l : List Int) (b : UInt8), b ∈ joinInts l → isDigit b = true ∨ b = 45 ∨ b = 44
  | [], b, h => by simp [joinInts] at h
  | [v], b, h => by
    rcases fmtInt_bytes v b (by simpa [joinInts] using h) with h | h
    · exact Or.inl h
    · exact Or.inr (Or.inl h)
  | v :: w :: rest, b, h => by
    simp only [joinInts, List.mem_append, List.mem_cons] at h
    rcases h with h | h | h
    · rcases fmtInt_bytes v b h with h | h
      · exact Or.inl h
      · exact Or.inr (Or.inl h)
    · exact Or.inr (Or.inr h)
    · exact joinInts_bytes (w :: rest) b h

theorem joinInts_ne_nil : ∀ (l : List Int), l ≠ [] → joinInts l ≠ []
  | [], h => absurd rfl h
  | [v], _ => by simpa [joinInts] using fmtInt_ne_nil v
  | v :: w :: rest, _ => by
    have := fmtInt_ne_nil v
    simp [joinInts, this]

theorem boolYesNo_cases (b : Option Bool) : boolYesNo b = sYES ∨ boolYesNo b = sNO := by
  cases b with
  | none => exact Or.inl rfl
  | some v => cases v; exact Or.inr rfl; exact Or.inl rfl

theorem mintCipher_ne_nil (o : MintOpts) : mintCipher o ≠ [] := by
  unfold mintCipher
  by_cases h : o.cryptoMethods = []
  · simp [h]
  · simp [h]

/-- the attributes of the wire policy `MintClaimSession` exports -/
theorem wirePolicy_content (o : MintOpts) (now : Int) :
    (wirePolicy o now).nonEmptyStr nEncryption = some (boolYesNo o.encryption) ∧
    (wirePolicy o now).nonEmptyStr nIntegrity = some (boolYesNo o.integrity) ∧
    (wirePolicy o now).nonEmptyStr nCryptoMethods = some (mintCipher o) ∧
    (wirePolicy o now).nonEmptyStr nRemoteVersion = (if o.remoteVersion = [] then none else some o.remoteVersion) ∧
    (wirePolicy o now).nonEmptyStr nValidCommands = (if o.validCommands = [] then none else some (joinInts o.validCommands)) ∧
    (wirePolicy o now).lookup nSessionExpires = (if o.lifetime > 0 then some (.i (unixOf (now + o.lifetime))) else none) := by
  have hy : ∀ b, boolYesNo b ≠ [] := fun b => by rcases boolYesNo_cases b with h | h <;> rw [h] <;> decide
  have hc := mintCipher_ne_nil o
  unfold wirePolicy Policy.nonEmptyStr Policy.evalStr
  by_cases h1 : o.remoteVersion = [] <;> by_cases h2 : o.validCommands = [] <;> by_cases h3 : o.lifetime > 0 <;>
    simp (config := { decide := true }) [h1, h2, h3, lookup_set, hy, hc, joinInts_ne_nil]

/-- minting options of the quantified domain: cipher names without ';' and '.', a version that is
    absent, compact or in the long form, and an expiry second that is positive and fits int64 -/
structure MintWf (o : MintOpts) (now : Int) : Prop where
  cipher : 59 ∉ mintCipher o ∧ 46 ∉ mintCipher o
  version : o.remoteVersion = [] ∨ VersionWf o.remoteVersion
  expiry : o.lifetime > 0 → 0 < unixOf (now + o.lifetime) ∧ unixOf (now + o.lifetime) ≤ 9223372036854775807

theorem infoWf_wire {o : MintOpts} {now : Int} (w : MintWf o now) : InfoWf (wirePolicy o now) := by
  obtain ⟨c1, c2, c3, c4, c5, c6⟩ := wirePolicy_content o now
  refine ⟨?_, ?_, ?_, ?_, ?_, ?_⟩
  · intro v hv
    rw [c1] at hv
    cases hv
    rcases boolYesNo_cases o.encryption with h | h <;> rw [h] <;> decide
  · intro v hv
    rw [c2] at hv
    cases hv
    rcases boolYesNo_cases o.integrity with h | h <;> rw [h] <;> decide
  · intro v hv
    rw [c5] at hv
    by_cases he : o.validCommands = []
    · simp [he] at hv
    · simp only [he, if_false, Option.some.injEq] at hv
      subst hv
      intro hm
      rcases joinInts_bytes _ 59 hm with h | h | h
      · exact (isDigit_props (Or.inl h)).2.1 rfl
      · exact absurd h (by decide)
      · exact absurd h (by decide)
  · intro v hv
    rw [c3] at hv
    cases hv
    exact w.cipher
  · intro v hv
    rw [c4] at hv
    by_cases he : o.remoteVersion = []
    · simp [he] at hv
    · simp only [he, if_false, Option.some.injEq] at hv
      subst hv
      rcases w.version with h | h
      · exact absurd h he
      · exact shortVersion_wf h
  · intro v hv
    rw [c6] at hv
    by_cases hl : o.lifetime > 0
    · simp only [hl, if_true, Option.some.injEq, Val.i.injEq] at hv
      subst hv
      have := w.expiry hl
      unfold Int64; omega
    · simp [hl] at hv

/-! ## mint followed by import -/

theorem sessionIdOf_ne_nil (o : MintOpts) : sessionIdOf o ≠ [] := by
  unfold sessionIdOf; simp

/-- The central fact: whatever a successful mint produced, importing its id — or the same id with
    any other non-empty secret free of '#' and ']' — parses into exactly (sid, info, secret) and
    registers the session below. -/
theorem import_of_mint {o : MintOpts} {now : Int} {secret : Bytes} {m : Minted} (h : mint o now secret = .ok m) :
    ∃ info pol body, m = mintResult o now secret info pol (.hkdf secret) ∧
      exportInfo (wirePolicy o now) = .ok info ∧ importInfo info = .ok pol ∧
      info = 91 :: (body ++ [93]) ∧ 35 ∉ body ∧ secret ≠ [] ∧
      ∀ (s' : Bytes), s' ≠ [] → 35 ∉ s' → 93 ∉ s' → ∀ (io : ImportOpts) (now' : Int),
        parseStrict (sessionIdOf o ++ 35 :: (info ++ s')) = { sid := sessionIdOf o, info := info, key := s' } ∧
        importClaim (sessionIdOf o ++ 35 :: (info ++ s')) io now' =
          .ok (importResult (sessionIdOf o) io now' pol (.hkdf s')) := by
  obtain ⟨info, pol, _, _, hE, hI, hK, hs, hm⟩ := mint_inv h
  obtain ⟨body, hinfo, hb⟩ := exportInfo_shape hE
  refine ⟨info, pol, body, hm, hE, hI, hinfo, hb, hs, ?_⟩
  intro s' hne h35 h93 io now'
  subst hinfo
  exact ⟨parseStrict_assembled _ body s' hb h35 h93,
    importClaim_assembled io now' (sessionIdOf_ne_nil o) hb h35 h93 hne hI secret hK⟩

/-- single-character corruption of the secret part of an assembled id: the key the parser
    extracts is the corrupted secret, or (when the new character is '#' or ']') the part after it -/
theorem parseStrict_corrupt_key (sid body pre post : Bytes) (x : UInt8)
    (hb : 35 ∉ body) (h35a : 35 ∉ pre) (h35b : 35 ∉ post) (h93a : 93 ∉ pre) (h93b : 93 ∉ post) :
    (parseStrict (sid ++ 35 :: ((91 :: (body ++ [93])) ++ (pre ++ x :: post)))).key = pre ++ x :: post ∨
    (parseStrict (sid ++ 35 :: ((91 :: (body ++ [93])) ++ (pre ++ x :: post)))).key = post := by
  by_cases hx35 : x = 35
  · subst hx35
    right
    have e : sid ++ 35 :: ((91 :: (body ++ [93])) ++ (pre ++ 35 :: post)) =
        (sid ++ 35 :: ((91 :: (body ++ [93])) ++ pre)) ++ 35 :: post := by simp
    rw [e]
    unfold parseStrict
    rw [splitLast_append _ h35b]
    cases post with
    | nil => rfl
    | cons a t =>
      by_cases ha : a = 91
      · subst ha
        simp only [splitLast_none h93b]
      · simp only
        split
        · rename_i tl heq
          exact absurd (List.cons.inj heq).1 ha
        · rfl
  · by_cases hx93 : x = 93
    · subst hx93
      right
      have h35 : (35 : UInt8) ∉ (91 :: (body ++ [93])) ++ (pre ++ 93 :: post) := by
        simp only [List.cons_append, List.mem_cons, List.mem_append, List.mem_nil_iff, or_false, not_or]
        exact ⟨by decide, ⟨hb, by decide⟩, h35a, by decide, h35b⟩
      unfold parseStrict
      rw [splitLast_append sid h35]
      have e2 : (91 :: (body ++ [93])) ++ (pre ++ 93 :: post) = (91 :: (body ++ [93] ++ pre)) ++ 93 :: post := by simp
      simp only [List.cons_append]
      have e3 : (91 : UInt8) :: (body ++ [93] ++ (pre ++ 93 :: post)) = (91 :: (body ++ [93] ++ pre)) ++ 93 :: post := by simp
      rw [e3, splitLast_append _ h93b]
    · left
      have h35 : (35 : UInt8) ∉ pre ++ x :: post := by
        simp only [List.mem_append, List.mem_cons, not_or]
        exact ⟨h35a, fun e => hx35 e.symm, h35b⟩
      have h93 : (93 : UInt8) ∉ pre ++ x :: post := by
        simp only [List.mem_append, List.mem_cons, not_or]
        exact ⟨h93a, fun e => hx93 e.symm, h93b⟩
      rw [parseStrict_assembled sid body _ hb h35 h93]

end Cedar.Claim
