/-
  Helper lemmas for C15: once both first frames have passed, nothing a stream does depends on its
  transcript digests, so two streams that agree on every other field behave identically.
-/
import CedarModel.Session
import CedarModel.Export

namespace Cedar

/-- equal up to the digest bookkeeping (and two scratch fields: the saved mode of the last secret,
    overwritten before every use, and the length of the last fully consumed message), with both
    first-frame flags set -/
def Sim (s t : Stream) : Prop :=
  (∃ d b m, t = { s with dig := d, beforeSecret := b, totalMsg := m }) ∧ s.finSendAAD = true ∧ s.finRecvAAD = true

def SimR {α : Type} (x y : Except Err (Stream × α)) : Prop :=
  match x, y with
  | .ok (s, a), .ok (t, b) => a = b ∧ Sim s t
  | .error e, .error e' => e = e'
  | _, _ => False

theorem Sim.refl' {s : Stream} (h1 : s.finSendAAD = true) (h2 : s.finRecvAAD = true) : Sim s s :=
  ⟨⟨s.dig, s.beforeSecret, s.totalMsg, rfl⟩, h1, h2⟩

theorem sendFrame_sim {s t : Stream} (h : Sim s t) (d : Bytes) (fl : Nat) :
    SimR (s.sendFrame d fl) (t.sendFrame d fl) := by
  obtain ⟨⟨d0, b0, m0, rfl⟩, hfs, hfr⟩ := h
  unfold Stream.sendFrame Stream.sealFrame SimR
  by_cases h1 : d.length > maxMessageSize
  · simp [h1]
  · simp only [h1, if_false]
    cases hk : s.key with
    | none => simp [Sim, hfs, hfr]
    | some k =>
      cases he : s.encrypted with
      | false => simp [Sim, hfs, hfr]
      | true =>
        simp only [hfs]
        by_cases h2 : d.length + tagLen + (if s.encCtr = 0 then ivLen else 0) > maxMessageSize
        · simp [h2]
        · by_cases h3 : s.encCtr = counterLimit
          · rw [h3] at h2
            simp [h2, h3]
          · simp [h2, h3, Sim, hfr]

theorem sendFrame_sim' {s t : Stream} (h : Sim s t) {d d' : Bytes} (hd : d' = d) (fl : Nat) :
    SimR (s.sendFrame d fl) (t.sendFrame d' fl) := by subst hd; exact sendFrame_sim h _ fl

theorem Sim.key {s t : Stream} (h : Sim s t) : t.key = s.key := by obtain ⟨⟨d, b, m, rfl⟩, _, _⟩ := h; rfl
theorem Sim.enc {s t : Stream} (h : Sim s t) : t.encrypted = s.encrypted := by obtain ⟨⟨d, b, m, rfl⟩, _, _⟩ := h; rfl

/-- a field update that does not touch `dig` or the two flags preserves `Sim` -/
theorem Sim.map {s t : Stream} (h : Sim s t) (f : Stream → Stream)
    (hf : ∀ (u : Stream) (d : Dig) (b : Bool) (m : Nat),
      f { u with dig := d, beforeSecret := b, totalMsg := m } = { f u with dig := d, beforeSecret := b, totalMsg := m })
    (h1 : (f s).finSendAAD = s.finSendAAD) (h2 : (f s).finRecvAAD = s.finRecvAAD) : Sim (f s) (f t) := by
  obtain ⟨⟨d, b, m, rfl⟩, hfs, hfr⟩ := h
  exact ⟨⟨d, b, m, hf s d b m⟩, by rw [h1, hfs], by rw [h2, hfr]⟩

theorem SimR.elim {α : Type} {x y : Except Err (Stream × α)} (h : SimR x y) :
    (∃ e, x = .error e ∧ y = .error e) ∨ (∃ s t a, x = .ok (s, a) ∧ y = .ok (t, a) ∧ Sim s t) := by
  cases x with
  | error e =>
    cases y with
    | error e' => left; exact ⟨e, rfl, by simp [SimR] at h; rw [h]⟩
    | ok b => simp [SimR] at h
  | ok a =>
    cases y with
    | error e' => simp [SimR] at h
    | ok b =>
      obtain ⟨s1, a1⟩ := a
      obtain ⟨t1, b1⟩ := b
      simp only [SimR] at h
      obtain ⟨rfl, hs⟩ := h
      right; exact ⟨s1, t1, a1, rfl, rfl, hs⟩

theorem SimR.err {α : Type} (e : Err) : SimR (α := α) (.error e) (.error e) := rfl
theorem SimR.ok {α : Type} {s t : Stream} (a : α) (h : Sim s t) : SimR (.ok (s, a)) (.ok (t, a)) := ⟨rfl, h⟩

theorem Sim.clearBuf {s t : Stream} (h : Sim s t) : Sim { s with sendBuf := [] } { t with sendBuf := [] } :=
  h.map (fun u => { u with sendBuf := [] }) (fun _ _ _ _ => rfl) rfl rfl

theorem Sim.sendBuf {s t : Stream} (h : Sim s t) : t.sendBuf = s.sendBuf := by obtain ⟨⟨d, b, m, rfl⟩, _, _⟩ := h; rfl
theorem Sim.sendEOM {s t : Stream} (h : Sim s t) : t.sendEOM = s.sendEOM := by obtain ⟨⟨d, b, m, rfl⟩, _, _⟩ := h; rfl

theorem flushPartial_sim {s t : Stream} (h : Sim s t) : SimR s.flushPartial t.flushPartial := by
  unfold Stream.flushPartial
  by_cases he : s.sendBuf.isEmpty = true
  · have he' : t.sendBuf.isEmpty = true := by rw [h.sendBuf]; exact he
    rw [if_pos he, if_pos he']; exact ⟨rfl, h⟩
  · have he' : ¬ t.sendBuf.isEmpty = true := by rw [h.sendBuf]; exact he
    rw [if_neg he, if_neg he']
    have hsf : SimR (s.sendFrame s.sendBuf 0) (t.sendFrame t.sendBuf 0) := by
      exact sendFrame_sim' h h.sendBuf 0
    rcases hsf.elim with ⟨e, hx, hy⟩ | ⟨s1, t1, f, hx, hy, hs⟩
    · rw [hx, hy]; exact SimR.err e
    · rw [hx, hy]; exact SimR.ok [f] hs.clearBuf

theorem writeMessage_sim {s t : Stream} (h : Sim s t) (d : Bytes) : SimR (s.writeMessage d) (t.writeMessage d) := by
  have hs : Sim { s with sendBuf := s.sendBuf ++ d } { t with sendBuf := t.sendBuf ++ d } :=
    h.map (fun u => { u with sendBuf := u.sendBuf ++ d }) (fun _ _ _ _ => rfl) rfl rfl
  unfold Stream.writeMessage
  by_cases h1 : s.sendEOM = true
  · have h1' : t.sendEOM = true := by rw [h.sendEOM]; exact h1
    rw [if_pos h1, if_pos h1']; rfl
  · have h1' : ¬ t.sendEOM = true := by rw [h.sendEOM]; exact h1
    rw [if_neg h1, if_neg h1']
    by_cases h2 : (s.sendBuf ++ d).length ≥ frameThreshold
    · have h2' : (t.sendBuf ++ d).length ≥ frameThreshold := by rw [h.sendBuf]; exact h2
      show SimR (if (s.sendBuf ++ d).length ≥ frameThreshold then _ else _) (if (t.sendBuf ++ d).length ≥ frameThreshold then _ else _)
      rw [if_pos h2, if_pos h2']; exact flushPartial_sim hs
    · have h2' : ¬ (t.sendBuf ++ d).length ≥ frameThreshold := by rw [h.sendBuf]; exact h2
      show SimR (if (s.sendBuf ++ d).length ≥ frameThreshold then _ else _) (if (t.sendBuf ++ d).length ≥ frameThreshold then _ else _)
      rw [if_neg h2, if_neg h2']; exact ⟨rfl, hs⟩

theorem endMessage_sim {s t : Stream} (h : Sim s t) : SimR s.endMessage t.endMessage := by
  have hs : Sim { s with sendEOM := true } { t with sendEOM := true } :=
    h.map (fun u => { u with sendEOM := true }) (fun _ _ _ _ => rfl) rfl rfl
  unfold Stream.endMessage
  by_cases h1 : s.sendEOM = true
  · have h1' : t.sendEOM = true := by rw [h.sendEOM]; exact h1
    rw [if_pos h1, if_pos h1']; rfl
  · have h1' : ¬ t.sendEOM = true := by rw [h.sendEOM]; exact h1
    rw [if_neg h1, if_neg h1']
    show SimR (match ({ s with sendEOM := true } : Stream).sendFrame s.sendBuf 1 with
      | .error e => .error e | .ok (s2, f) => .ok ({ s2 with sendBuf := [] }, [f]))
      (match ({ t with sendEOM := true } : Stream).sendFrame t.sendBuf 1 with
      | .error e => .error e | .ok (s2, f) => .ok ({ s2 with sendBuf := [] }, [f]))
    have hsf : SimR (({ s with sendEOM := true } : Stream).sendFrame s.sendBuf 1)
        (({ t with sendEOM := true } : Stream).sendFrame t.sendBuf 1) := by
      exact sendFrame_sim' hs h.sendBuf 1
    rcases hsf.elim with ⟨e, hx, hy⟩ | ⟨s1, t1, f, hx, hy, hs'⟩
    · rw [hx, hy]; exact SimR.err e
    · rw [hx, hy]; exact SimR.ok [f] hs'.clearBuf

/-! ### receive side -/

theorem openBody_sim {s t : Stream} (h : Sim s t) (k : Nat) (f : WireFrame) : t.openBody k f = s.openBody k f := by
  obtain ⟨⟨d, b, m, rfl⟩, _, hfr⟩ := h
  unfold Stream.openBody
  simp only [hfr, if_true]

theorem Sim.afterOpen_feed {s t : Stream} (h : Sim s t) (iv : IV) (b : Bytes) :
    Sim ((s.afterOpen iv).feedRecv b) ((t.afterOpen iv).feedRecv b) := by
  obtain ⟨⟨d, b0, m, rfl⟩, hfs, hfr⟩ := h
  refine ⟨⟨(if s.finRecvAAD then d else d.finalize).feedRecv b, b0, m, ?_⟩, hfs, rfl⟩
  simp [Stream.afterOpen, Stream.feedRecv]

theorem Sim.feed {s t : Stream} (h : Sim s t) (b : Bytes) : Sim (s.feedRecv b) (t.feedRecv b) := by
  obtain ⟨⟨d, b0, m, rfl⟩, hfs, hfr⟩ := h
  exact ⟨⟨d.feedRecv b, b0, m, by simp [Stream.feedRecv]⟩, hfs, hfr⟩

theorem Sim.crypting {s t : Stream} (h : Sim s t) : t.crypting = s.crypting := by
  obtain ⟨⟨d, b, m, rfl⟩, _, _⟩ := h; rfl

theorem recvFrameWithEnd_sim {s t : Stream} (h : Sim s t) (f : WireFrame) :
    SimR (s.recvFrameWithEnd f) (t.recvFrameWithEnd f) := by
  unfold Stream.recvFrameWithEnd
  cases checkHdr f with
  | error e => exact SimR.err e
  | ok u =>
    simp only []
    by_cases h0 : f.len = 0
    · rw [if_pos h0, if_pos h0, h.crypting]
      by_cases hc : s.crypting = true
      · rw [if_pos hc, if_pos hc]; exact SimR.err _
      · rw [if_neg hc, if_neg hc]; exact SimR.ok _ (h.feed _)
    · rw [if_neg h0, if_neg h0, h.key, h.enc]
      cases hk : s.key with
      | none =>
        cases f.body with
        | raw b => exact SimR.ok _ (h.feed _)
        | ct a c => exact SimR.err _
      | some k =>
        cases he : s.encrypted with
        | false =>
          cases f.body with
          | raw b => exact SimR.ok _ (h.feed _)
          | ct a c => exact SimR.err _
        | true =>
          simp only []
          rw [openBody_sim h]
          cases s.openBody k f with
          | error e => exact SimR.err e
          | ok r => exact SimR.ok _ (h.afterOpen_feed _ _)

theorem recvFrame_sim {s t : Stream} (h : Sim s t) (f : WireFrame) :
    SimR (s.recvFrame f) (t.recvFrame f) := by
  unfold Stream.recvFrame
  cases checkHdr f with
  | error e => exact SimR.err e
  | ok u =>
    simp only []
    by_cases h0 : f.len = 0
    · rw [if_pos h0, if_pos h0, h.crypting]
      by_cases hc : s.crypting = true
      · rw [if_pos hc, if_pos hc]; exact SimR.err _
      · rw [if_neg hc, if_neg hc]; exact SimR.ok _ h
    · rw [if_neg h0, if_neg h0, h.key, h.enc]
      cases hk : s.key with
      | none =>
        cases f.body with
        | raw b => exact SimR.ok _ (h.feed _)
        | ct a c => exact SimR.err _
      | some k =>
        cases he : s.encrypted with
        | false =>
          cases f.body with
          | raw b => exact SimR.ok _ (h.feed _)
          | ct a c => exact SimR.err _
        | true =>
          simp only []
          rw [openBody_sim h]
          cases s.openBody k f with
          | error e => exact SimR.err e
          | ok r => exact SimR.ok _ (h.afterOpen_feed _ _)

/-! ### secrets, crypto mode -/

theorem Sim.prepareSecret {s t : Stream} (h : Sim s t) :
    Sim s.prepareSecret t.prepareSecret ∧ t.prepareSecret.beforeSecret = s.prepareSecret.beforeSecret := by
  obtain ⟨⟨d, b, m, rfl⟩, hfs, hfr⟩ := h
  unfold Stream.prepareSecret
  simp only []
  by_cases hc : (s.key.isSome && !s.encrypted) = true
  · rw [if_pos hc, if_pos hc]
    exact ⟨⟨⟨d, s.encrypted, m, rfl⟩, hfs, hfr⟩, rfl⟩
  · rw [if_neg hc, if_neg hc]
    exact ⟨⟨⟨d, s.encrypted, m, rfl⟩, hfs, hfr⟩, rfl⟩

theorem Sim.restoreSecret {s t : Stream} (h : Sim s t) (hb : t.beforeSecret = s.beforeSecret) :
    Sim s.restoreSecret t.restoreSecret := by
  obtain ⟨⟨d, b, m, rfl⟩, hfs, hfr⟩ := h
  have hb' : b = s.beforeSecret := hb
  subst hb'
  exact ⟨⟨d, s.beforeSecret, m, rfl⟩, hfs, hfr⟩

theorem sendFrame_bs {u u' : Stream} {d : Bytes} {fl : Nat} {f : WireFrame}
    (h : u.sendFrame d fl = .ok (u', f)) : u'.beforeSecret = u.beforeSecret := by
  unfold Stream.sendFrame at h
  repeat' split at h
  all_goals first | (cases h; rfl) | cases h

theorem recvFrame_bs {u u' : Stream} {f : WireFrame} {d : Bytes}
    (h : u.recvFrame f = .ok (u', d)) : u'.beforeSecret = u.beforeSecret := by
  unfold Stream.recvFrame at h
  repeat' split at h
  all_goals first | (cases h; rfl) | cases h

theorem putSecret_sim {s t : Stream} (h : Sim s t) (d : Bytes) : SimR (s.putSecret d) (t.putSecret d) := by
  unfold Stream.putSecret
  obtain ⟨hp, hb⟩ := h.prepareSecret
  rcases (sendFrame_sim hp (d ++ [0]) 1).elim with ⟨e, hx, hy⟩ | ⟨s1, t1, f, hx, hy, hs⟩
  · rw [hx, hy]; exact SimR.err e
  · rw [hx, hy]
    exact SimR.ok f (hs.restoreSecret (by rw [sendFrame_bs hx, sendFrame_bs hy, hb]))

theorem getSecret_sim {s t : Stream} (h : Sim s t) (f : WireFrame) : SimR (s.getSecret f) (t.getSecret f) := by
  unfold Stream.getSecret
  obtain ⟨hp, hb⟩ := h.prepareSecret
  rcases (recvFrame_sim hp f).elim with ⟨e, hx, hy⟩ | ⟨s1, t1, d, hx, hy, hs⟩
  · rw [hx, hy]; exact SimR.err e
  · rw [hx, hy]
    exact SimR.ok _ (hs.restoreSecret (by rw [recvFrame_bs hx, recvFrame_bs hy, hb]))

theorem setCryptoMode_sim {s t : Stream} (h : Sim s t) (on : Bool) :
    Sim (s.setCryptoMode on).1 (t.setCryptoMode on).1 := by
  apply h.map (fun u => (u.setCryptoMode on).1)
  · intro u d b m
    unfold Stream.setCryptoMode
    cases on with
    | false => rfl
    | true =>
      by_cases hk : u.key.isSome = true
      · simp only [if_true, hk]
      · simp only [if_true, hk]; rfl
  · unfold Stream.setCryptoMode
    cases on with
    | false => rfl
    | true => by_cases hk : s.key.isSome = true <;> simp [hk]
  · unfold Stream.setCryptoMode
    cases on with
    | false => rfl
    | true => by_cases hk : s.key.isSome = true <;> simp [hk]

/-! ### whole operation sequences -/

theorem okOr_sim {α : Type} {s t : Stream} (h : Sim s t) {x y : Except Err (Stream × α)} (hxy : SimR x y)
    (emit : α → List WireFrame) :
    (okOr s x emit).2 = (okOr t y emit).2 ∧ Sim (okOr s x emit).1 (okOr t y emit).1 := by
  rcases hxy.elim with ⟨e, hx, hy⟩ | ⟨s1, t1, a, hx, hy, hs⟩
  · subst hx hy; exact ⟨rfl, h⟩
  · subst hx hy; exact ⟨rfl, hs⟩

theorem step_sim {s t : Stream} (h : Sim s t) (op : Op) :
    (s.step op).2 = (t.step op).2 ∧ Sim (s.step op).1 (t.step op).1 := by
  cases op with
  | send d fl => exact okOr_sim h (sendFrame_sim h d fl) _
  | write d => exact okOr_sim h (writeMessage_sim h d) _
  | endMsg => exact okOr_sim h (endMessage_sim h) _
  | startMsg => exact ⟨rfl, h.map Stream.startMessage (fun _ _ _ _ => rfl) rfl rfl⟩
  | secret d => exact okOr_sim h (putSecret_sim h d) _
  | crypto on => exact ⟨rfl, setCryptoMode_sim h on⟩
  | recv f => exact okOr_sim h (recvFrameWithEnd_sim h f) _
  | recvPlain f => exact okOr_sim h (recvFrame_sim h f) _
  | getSecret f => exact okOr_sim h (getSecret_sim h f) _

theorem run_sim : ∀ (ops : List Op) {s t : Stream}, Sim s t →
    (s.run ops).2 = (t.run ops).2 ∧ Sim (s.run ops).1 (t.run ops).1
  | [], s, t, h => ⟨rfl, h⟩
  | op :: rest, s, t, h => by
    obtain ⟨h1, h2⟩ := step_sim h op
    obtain ⟨h3, h4⟩ := run_sim rest h2
    simp only [Stream.run]
    exact ⟨by rw [h1, h3], h4⟩

theorem recvCompleteAux_sim : ∀ (w : List WireFrame) {s t : Stream} (acc : Bytes), Sim s t →
    SimR (s.recvCompleteAux acc w) (t.recvCompleteAux acc w)
  | [], s, t, acc, h => SimR.err _
  | f :: w, s, t, acc, h => by
    unfold Stream.recvCompleteAux
    rcases (recvFrameWithEnd_sim h f).elim with ⟨e, hx, hy⟩ | ⟨s1, t1, a, hx, hy, hs⟩
    · rw [hx, hy]; exact SimR.err e
    · rw [hx, hy]
      obtain ⟨d, flag⟩ := a
      simp only []
      by_cases h1 : flag = 1
      · rw [if_pos h1, if_pos h1]; exact SimR.ok _ hs
      · rw [if_neg h1, if_neg h1]
        by_cases h0 : flag = 0
        · rw [if_pos h0, if_pos h0]; exact recvCompleteAux_sim w (acc ++ d) hs
        · rw [if_neg h0, if_neg h0]; exact SimR.err _

theorem deliverFuel_sim : ∀ (n : Nat) {s t : Stream} (w : List WireFrame), Sim s t →
    Stream.deliverFuel n s w = Stream.deliverFuel n t w
  | 0, s, t, w, h => rfl
  | n + 1, s, t, w, h => by
    unfold Stream.deliverFuel
    rcases (recvCompleteAux_sim w [] h).elim with ⟨e, hx, hy⟩ | ⟨s1, t1, a, hx, hy, hs⟩
    · unfold Stream.recvComplete; rw [hx, hy]
    · unfold Stream.recvComplete; rw [hx, hy]
      obtain ⟨msg, w'⟩ := a
      simp only []
      rw [deliverFuel_sim n w' hs]

end Cedar
