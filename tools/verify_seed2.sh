#!/bin/bash
# verify_seed2.sh <dir with patch.diff, *_test.go, meta.json>  — inside a work area (tools/workarea.sh; $VERIF_DIR, $VERIF_REPO):
# confirms the change (builds, existing suite passes, demo fails with the patch and passes without), then runs the
# property's quick check against it; appends the record to <dir>/meta.json.
set -u
D=$(realpath $1); V=${VERIF_DIR:?}; R=${VERIF_REPO:?}
export GOFLAGS=-mod=mod GOPROXY=off
read PROP PKG RUN < <(python3 - "$D" <<'PY'
import json,sys
m=json.load(open(sys.argv[1]+'/meta.json')); print(m['property'], m['demo_pkg'], m['demo_run'])
PY
)
clean() { git -C $R checkout -- . ; git -C $R clean -fdq; }
clean
git -C $R apply $D/patch.diff || { echo "PATCH DOES NOT APPLY"; exit 2; }
cd $R
BUILD=ok; go build ./... >/dev/null 2>&1 || BUILD=fail
SUITE=ok; go test -vet=off -count=1 ./... >/tmp/vs2.$$.log 2>&1 || SUITE=fail
cp $D/*_test.go $R/$PKG/ 2>/dev/null
DEMO_WITH=pass; go test -vet=off -count=1 -run "$RUN" ./$PKG/ >/dev/null 2>&1 || DEMO_WITH=fail
git -C $R apply -R $D/patch.diff
DEMO_WITHOUT=pass; go test -vet=off -count=1 -run "$RUN" ./$PKG/ >/dev/null 2>&1 || DEMO_WITHOUT=fail
clean
rm -f /tmp/vs2.$$.log
git -C $R apply $D/patch.diff
out=$(cd $V && ./check $PROP quick 2>&1 | grep -E "^VIOLATION|^$PROP quick" | tr '\n' ' ')
clean
if echo "$out" | grep -q "no-failing-input-found"; then RES="caught-obligation"; elif echo "$out" | grep -q VIOLATION; then RES="caught-input"; else RES="MISSED"; fi
echo "$(basename $D): build=$BUILD suite=$SUITE demo_with=$DEMO_WITH demo_without=$DEMO_WITHOUT check=$RES"
python3 - "$D" "$BUILD" "$SUITE" "$DEMO_WITH" "$DEMO_WITHOUT" "$RES" "$out" <<'PY'
import json,sys
d,b,s,w,wo,res,out=sys.argv[1:8]
p=d+'/meta.json'; m=json.load(open(p))
m['verified_by_lead']={'build':b,'existing_suite':s,'demo_with_patch':w,'demo_without_patch':wo,'first_run':res,'check_output':out,
  'ran':'tools/verify_seed2.sh in a work area: go build ./..., go test ./... (whole suite), demo with/without the patch, then ./check <property> quick against the patched worktree'}
json.dump(m,open(p,'w'),indent=1)
PY
