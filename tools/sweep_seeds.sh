#!/bin/bash
# sweep_seeds.sh <out.tsv> <list file>: re-verify stored breaking changes against the current machinery.
# Each line of the list: <patch file> <property id> [<property id> ...]   (the checks expected to catch it)
# Uses $VERIF_DIR / $VERIF_REPO (work area made by tools/workarea.sh).  One line per patch in out.tsv:
#   patch  result  detail      result ∈ caught-input | caught-obligation | MISSED | stale (patch no longer applies)
V=${VERIF_DIR:?}; R=${VERIF_REPO:?}; OUT=$1; LIST=$2
: > $OUT
while read -r patch props; do
  [ -z "$patch" ] && continue
  if git -C $R apply --check $V/$patch 2>/dev/null; then git -C $R apply $V/$patch
  elif (cd $R && patch -p1 -F3 -s --dry-run < $V/$patch >/dev/null 2>&1); then (cd $R && patch -p1 -F3 -s --no-backup-if-mismatch < $V/$patch >/dev/null 2>&1)   # context moved by later fixes
  else echo -e "$patch\tstale\t-" >> $OUT; continue; fi
  if ! (cd $R && go build ./... >/dev/null 2>&1); then git -C $R checkout -- .; git -C $R clean -fdq; echo -e "$patch\tstale\tdoes-not-build" >> $OUT; continue; fi
  res=MISSED; det=""
  for p in $props; do
    out=$(cd $V && ./check $p quick 2>&1 | grep -E "^VIOLATION" | head -1)
    if echo "$out" | grep -q "no-failing-input-found"; then [ "$res" = MISSED ] && res=caught-obligation; det="$det $p:obligation"
    elif echo "$out" | grep -q VIOLATION; then res=caught-input; det="$det $p:input"
    else det="$det $p:quiet"; fi
  done
  git -C $R checkout -- .; git -C $R clean -fdq
  echo -e "$patch\t$res\t$det" >> $OUT
done < $LIST
