#!/bin/bash
# run_against.sh <dir with patch.diff> [props...]   (default: all 20)
# Applies the patch to /repo, runs the quick checks, undoes it, restores evidence, prints one line per property.
D=$1; shift
PROPS="$@"; [ -z "$PROPS" ] && PROPS="C01 C02 C03 C04 C05 C06 C07 C08 C09 C10 C11 C12 C13 C14 C15 C16 C17 C18 C19 C20"
git -C /repo apply $D/patch.diff || { echo "PATCH DOES NOT APPLY"; exit 2; }
RES=""
for p in $PROPS; do
  out=$(cd /verif && ./check $p quick 2>&1 | grep -E "^VIOLATION|^$p quick" | tr '\n' ' ')
  if echo "$out" | grep -q "no-failing-input-found"; then v="obligation"; elif echo "$out" | grep -q VIOLATION; then v="VIOLATION"; else v="quiet"; fi
  echo "  $p: $v"
  RES="$RES $p:$v"
done
git -C /repo checkout -- .
for p in $PROPS; do git -C /verif checkout -- evidence/$p.json 2>/dev/null; done
python3 - "$D" "$RES" <<'PY'
import json,sys
d,res=sys.argv[1:3]
p=d+'/meta.json'; m=json.load(open(p)); m['checks_on_harmless_change']=res.split(); json.dump(m,open(p,'w'),indent=1)
PY
