#!/bin/bash
# run_against.sh <dir with patch.diff> [props...]   (default: all 20)
# Applies the patch to the repo ($VERIF_REPO, default /repo), runs the quick checks of the machinery in
# $VERIF_DIR (default /verif) in parallel, undoes the patch, restores evidence, prints one line per property and
# records the outcome in <dir>/meta.json.  For a long sweep use a copy of /verif and a worktree of /repo.
D=$(realpath $1); shift
V=${VERIF_DIR:-/verif}; R=${VERIF_REPO:-/repo}; export VERIF_REPO=$R
PROPS="$@"; [ -z "$PROPS" ] && PROPS="C01 C02 C03 C04 C05 C06 C07 C08 C09 C10 C11 C12 C13 C14 C15 C16 C17 C18 C19 C20"
git -C $R apply $D/patch.diff || { echo "PATCH DOES NOT APPLY"; exit 2; }
T=$(mktemp -d)
(cd $V && ./check C12 quick >/dev/null 2>&1)   # one serial run first: regenerates and builds once
for p in $PROPS; do
  ( cd $V && ./check $p quick 2>&1 | grep -E "^VIOLATION|^$p quick" | tr '\n' ' ' > $T/$p ) &
  while [ $(jobs -r | wc -l) -ge ${JOBS:-6} ]; do sleep 1; done
done
wait
RES=""
for p in $PROPS; do
  out=$(cat $T/$p)
  if echo "$out" | grep -q "no-failing-input-found"; then v="obligation"; elif echo "$out" | grep -q VIOLATION; then v="VIOLATION"; elif echo "$out" | grep -q "^$p quick"; then v="quiet"; else v="error"; fi
  echo "  $p: $v"
  RES="$RES $p:$v"
done
mkdir -p $D/replays; for p in $PROPS; do for f in $V/replays/$p-*.json; do [ -f "$f" ] && [ "$f" -nt $T ] && cp $f $D/replays/; done; done; rmdir $D/replays 2>/dev/null
rm -rf $T
git -C $R checkout -- .
[ -d $V/.git ] && for p in $PROPS; do git -C $V checkout -- evidence/$p.json 2>/dev/null; done
python3 - "$D" "$RES" <<'PY'
import json,sys
d,res=sys.argv[1:3]
p=d+'/meta.json'; m=json.load(open(p)); m['checks_on_harmless_change']=res.split(); json.dump(m,open(p,'w'),indent=1)
PY
