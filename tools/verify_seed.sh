#!/bin/bash
# verify_seed.sh <dir with patch.diff, *_test.go, meta.json> <pkgdir of demo> <go test -run regex> <property ids to check...>
# Confirms in a scratch worktree: patch compiles, existing suite passes, demo fails with patch / passes without;
# then applies the patch to /repo, runs the named checks, and undoes it. Appends the record to meta.json.
set -u
D=$1; PKG=$2; RUN=$3; shift 3
export GOFLAGS=-mod=mod GOPROXY=off
WT=/tmp/seedcheck.$$
git -C /repo worktree add -q $WT HEAD || exit 2
res() { echo "$1" ; }
cd $WT
git apply $D/patch.diff || { echo "PATCH DOES NOT APPLY"; git -C /repo worktree remove --force $WT; exit 2; }
BUILD=ok; go build ./... >/dev/null 2>&1 || BUILD=fail
SUITE=ok; go test -vet=off -count=1 ./stream/ ./message/ ./security/ ./server/ ./client/... ./ccb/ ./addresses/ >/tmp/seedcheck.$$.log 2>&1 || SUITE=fail
cp $D/*_test.go $WT/$PKG/ 2>/dev/null
DEMO_WITH=pass; go test -vet=off -count=1 -run "$RUN" ./$PKG/ >/dev/null 2>&1 || DEMO_WITH=fail
git apply -R $D/patch.diff
DEMO_WITHOUT=pass; go test -vet=off -count=1 -run "$RUN" ./$PKG/ >/dev/null 2>&1 || DEMO_WITHOUT=fail
cd /verif
git -C /repo worktree remove --force $WT
rm -f /tmp/seedcheck.$$.log
echo "build=$BUILD suite=$SUITE demo_with_patch=$DEMO_WITH demo_without_patch=$DEMO_WITHOUT"
CHECKS=""
git -C /repo apply $D/patch.diff
for p in "$@"; do
  out=$(./check $p quick 2>&1 | grep -E "^VIOLATION|^$p quick" | tr '\n' ' ')
  echo "  $p: $out"
  if echo "$out" | grep -q VIOLATION; then CHECKS="$CHECKS $p:caught"; else CHECKS="$CHECKS $p:missed"; fi
done
git -C /repo checkout -- .
# the evidence files now describe runs on a mutated tree: put back the committed ones
for p in "$@"; do git -C /verif checkout -- evidence/$p.json 2>/dev/null; done
python3 - "$D" "$BUILD" "$SUITE" "$DEMO_WITH" "$DEMO_WITHOUT" "$CHECKS" <<'PY'
import json,sys
d,b,s,w,wo,ch=sys.argv[1:7]
m=json.load(open(d+'/meta.json'))
m['verified_by_lead']={'build':b,'existing_suite':s,'demo_with_patch':w,'demo_without_patch':wo,'checks':ch.split(),
  'ran':'tools/verify_seed.sh (scratch worktree: go build ./..., go test stream message security server client ccb addresses; demo with/without patch; then git -C /repo apply, ./check <id> quick, git checkout)'}
json.dump(m,open(d+'/meta.json','w'),indent=1)
PY
