#!/usr/bin/env python3
"""merge_builder.py <Cxx> <builder verif dir> <OracleModule> <engine-cli-name>
Appends PROPS[Cxx] from the builder's props.py to /verif/props.py and registers the oracle engine in Oracle/Main.lean."""
import sys, importlib.util, pprint, re
pid, bdir, mod, eng = sys.argv[1:5]
sp = importlib.util.spec_from_file_location('bp', bdir + '/props.py'); m = importlib.util.module_from_spec(sp); sp.loader.exec_module(m)
entry = m.PROPS[pid]
for k in ('trusted',):
    entry[k] = [t.replace('/tmp/build/%s/repo' % pid, '/repo') for t in entry[k]]
p = '/verif/props.py'; s = open(p).read()
if 'PROPS["%s"]' % pid not in s and '    "%s": {' % pid not in s:
    s += '\nPROPS["%s"] = %s\n' % (pid, pprint.pformat(entry, width=160))
    open(p, 'w').write(s)
if mod != '-':
    p = '/verif/lean/Oracle/Main.lean'; s = open(p).read()
    if 'import Oracle.%s\n' % mod not in s:
        s = s.replace('\ndef main', 'import Oracle.%s\n\ndef main' % mod, 1).replace('\n\nimport', '\nimport')
        s = s.replace('  | _ =>', '  | ["%s"] => Oracle.%s.run; return 0\n  | _ =>' % (eng, mod), 1)
        open(p, 'w').write(s)
print('merged', pid)
