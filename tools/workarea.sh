#!/bin/bash
# workarea.sh <dir>: an isolated copy of /verif (with its git history) and a git worktree of /repo under <dir>,
# wired together (harness go.mod replace, VERIF_REPO).  Use:  source <dir>/env.sh; cd <dir>/verif; ./check C06 quick
# Remove with:  git -C /repo worktree remove --force <dir>/repo; rm -rf <dir>
set -e
W=$1; mkdir -p $W
rsync -a --exclude .work --exclude replays /verif/ $W/verif/
git -C /repo worktree add --detach $W/repo HEAD -q
sed -i "s|=> /repo|=> $W/repo|" $W/verif/harness/go.mod
git -C $W/verif update-index --assume-unchanged harness/go.mod
cat > $W/env.sh <<E
export VERIF_REPO=$W/repo VERIF_DIR=$W/verif GOFLAGS=-mod=mod GOPROXY=off
E
echo "work area ready: $W"
