// gen regenerates /verif/lean/CedarGen/*.lean from the Go sources under /repo.
// It is deliberately tiny: it translates constants, a few switch tables and
// syntactic fact tables; never control flow. Standard library only.
package main

import (
	"flag"
	"fmt"
	"go/ast"
	"go/build"
	"go/constant"
	"go/parser"
	"go/token"
	"go/types"
	"os"
	"path/filepath"
	"regexp"
	"sort"
	"strings"
	"unicode/utf8"
)

type fakeImporter struct{ pkgs map[string]*types.Package }

func (f *fakeImporter) Import(path string) (*types.Package, error) {
	if p, ok := f.pkgs[path]; ok {
		return p, nil
	}
	name := stubPkgName(path)
	p := types.NewPackage(path, name)
	p.MarkComplete()
	f.pkgs[path] = p
	return p, nil
}

// stubPkgName guesses the package name of an import path: the last element, or the one before a
// major-version element (github.com/golang-jwt/jwt/v5 is package jwt).
func stubPkgName(path string) string {
	el := strings.Split(path, "/")
	name := el[len(el)-1]
	if len(el) > 1 && len(name) > 1 && name[0] == 'v' && strings.Trim(name[1:], "0123456789") == "" {
		name = el[len(el)-2]
	}
	return name
}

type pkgInfo struct {
	name  string
	fset  *token.FileSet
	files []*ast.File
	info  *types.Info
	pkg   *types.Package
}

// buildCtx is the build context whose file set the generated facts describe: the library as shipped
// for linux/amd64, no build tags (in particular without the `verif` tag under which the harness
// compiles its hooks in), cgo as in the default context.
func buildCtx() *build.Context {
	c := build.Default
	c.GOOS, c.GOARCH = "linux", "amd64"
	c.BuildTags = nil
	c.UseAllFiles = false
	return &c
}

// tcDiag: what the type checker complained about in one package. The stub importer hands out empty
// packages, so every reference to a symbol of an imported package is reported ("undefined: fmt.Errorf",
// and in its wake "imported and not used"); those are counted as `stub`. Everything else is `other`
// and worth a look: a file set that does not compile (two files of different platforms declaring the
// same name, a hook file taken without its tag, ...) silently degrades the type information the fact
// extractors rely on.
type tcDiag struct {
	total, stub, other int
	otherMsgs          []string
	skipped            []string // non-test .go files left out by build constraints / naming
}

var (
	pkgCache    = map[string]*pkgInfo{}
	tcDiags     = map[string]*tcDiag{} // by package directory
	stubUndefRE = regexp.MustCompile(`^undefined: (\w+)\.\w+$`)
)

// oneLine makes a message safe for a `--` line comment of a generated Lean file.
func oneLine(s string) string {
	s = strings.Map(func(r rune) rune {
		if r == '\n' || r == '\r' || r == '\t' || r < 0x20 || r == 0x7f || r == 0x2028 || r == 0x2029 {
			return ' '
		}
		return r
	}, s)
	s = strings.Join(strings.Fields(s), " ")
	if len(s) > 200 {
		s = s[:200]
		for !utf8.ValidString(s) {
			s = s[:len(s)-1]
		}
		s += " ..."
	}
	return s
}

func loadPkg(repo, dir string) (*pkgInfo, error) {
	key := repo + "\x00" + dir
	if p, ok := pkgCache[key]; ok {
		return p, nil
	}
	diag := &tcDiag{}
	fset := token.NewFileSet()
	abs := filepath.Join(repo, dir)
	ents, err := os.ReadDir(abs)
	if err != nil {
		return nil, err
	}
	bc := buildCtx()
	var files []*ast.File
	for _, e := range ents {
		n := e.Name()
		if e.IsDir() || !strings.HasSuffix(n, ".go") || strings.HasSuffix(n, "_test.go") {
			continue
		}
		if strings.HasPrefix(n, "verif_") { // our own hooks are not part of the modelled code
			diag.skipped = append(diag.skipped, dir+"/"+n)
			continue
		}
		// GOOS/GOARCH file name suffixes, //go:build and // +build lines (hence also `//go:build ignore`
		// and `//go:build verif`), cgo files without cgo: exactly what `go build` would leave out
		match, err := bc.MatchFile(abs, n)
		if err != nil {
			return nil, fmt.Errorf("%s/%s: %v", dir, n, err)
		}
		if !match {
			diag.skipped = append(diag.skipped, dir+"/"+n)
			continue
		}
		f, err := parser.ParseFile(fset, filepath.Join(abs, n), nil, parser.ParseComments)
		if err != nil {
			return nil, err
		}
		files = append(files, f)
	}
	if len(files) == 0 {
		return nil, fmt.Errorf("OBLIGATION translator/files: no Go file of %s/ is part of a linux/amd64 build without tags; "+
			"nothing can be extracted from this package (moved? renamed? all files behind a build constraint?)", dir)
	}
	info := &types.Info{
		Defs:       map[*ast.Ident]types.Object{},
		Uses:       map[*ast.Ident]types.Object{},
		Types:      map[ast.Expr]types.TypeAndValue{},
		Selections: map[*ast.SelectorExpr]*types.Selection{},
	}
	imp := &fakeImporter{pkgs: map[string]*types.Package{}}
	var errs []types.Error
	conf := types.Config{Importer: imp, Error: func(e error) {
		if te, ok := e.(types.Error); ok {
			errs = append(errs, te)
		} else {
			errs = append(errs, types.Error{Fset: fset, Msg: e.Error()})
		}
	}}
	pkg, _ := conf.Check(dir, fset, files, info)
	// names under which imported packages are visible in this package (stub name or explicit alias)
	impNames := map[string]bool{}
	for _, p := range imp.pkgs {
		impNames[p.Name()] = true
	}
	for _, f := range files {
		for _, is := range f.Imports {
			if is.Name != nil {
				impNames[is.Name.Name] = true
			}
		}
	}
	for _, te := range errs {
		diag.total++
		m := stubUndefRE.FindStringSubmatch(te.Msg)
		if (m != nil && impNames[m[1]]) || strings.HasSuffix(te.Msg, "imported and not used") {
			diag.stub++
			continue
		}
		diag.other++
		pos := te.Fset.Position(te.Pos)
		where := dir
		if pos.IsValid() {
			where = fmt.Sprintf("%s/%s:%d:%d", dir, filepath.Base(pos.Filename), pos.Line, pos.Column)
		}
		diag.otherMsgs = append(diag.otherMsgs, oneLine(where+": "+te.Msg))
	}
	sort.Strings(diag.otherMsgs) // independent of the checker's internal order
	tcDiags[dir] = diag
	p := &pkgInfo{name: dir, fset: fset, files: files, info: info, pkg: pkg}
	pkgCache[key] = p
	return p, nil
}

func leanStr(s string) string {
	var b strings.Builder
	b.WriteByte('"')
	for _, r := range s {
		switch {
		case r == '"':
			b.WriteString("\\\"")
		case r == '\\':
			b.WriteString("\\\\")
		case r == '\n':
			b.WriteString("\\n")
		case r == '\t':
			b.WriteString("\\t")
		case r == '\r':
			b.WriteString("\\r")
		case r < 0x20 || r == 0x7f:
			fmt.Fprintf(&b, "\\x%02x", r)
		default:
			b.WriteRune(r)
		}
	}
	b.WriteByte('"')
	return b.String()
}

func nsName(dir string) string {
	return strings.ReplaceAll(dir, "/", "_")
}

func genConsts(repo string, dirs []string, out string) error {
	var b strings.Builder
	b.WriteString("-- GENERATED by /verif/tools/gen from /repo — do not edit; rewritten on every check run.\n")
	b.WriteString("namespace CedarGen\n\n")
	for _, d := range dirs {
		p, err := loadPkg(repo, d)
		if err != nil {
			return err
		}
		if p.pkg == nil {
			return fmt.Errorf("type-check produced no package for %s", d)
		}
		fmt.Fprintf(&b, "namespace %s\n", nsName(d))
		scope := p.pkg.Scope()
		names := scope.Names()
		sort.Strings(names)
		for _, n := range names {
			c, ok := scope.Lookup(n).(*types.Const)
			if !ok {
				continue
			}
			v := c.Val()
			switch v.Kind() {
			case constant.Int:
				s := v.ExactString()
				if strings.HasPrefix(s, "-") {
					fmt.Fprintf(&b, "def «%s» : Int := %s\n", n, s)
				} else {
					fmt.Fprintf(&b, "def «%s» : Nat := %s\n", n, s)
				}
			case constant.String:
				sv := constant.StringVal(v)
				if utf8.ValidString(sv) {
					fmt.Fprintf(&b, "def «%s» : String := %s\n", n, leanStr(sv))
				}
			case constant.Bool:
				fmt.Fprintf(&b, "def «%s» : Bool := %v\n", n, constant.BoolVal(v))
			}
		}
		fmt.Fprintf(&b, "end %s\n\n", nsName(d))
	}
	b.WriteString("end CedarGen\n")
	return os.WriteFile(out, []byte(b.String()), 0o644)
}

func main() {
	repo := flag.String("repo", "/repo", "repository root")
	outDir := flag.String("out", "/verif/lean/CedarGen", "output directory")
	flag.Parse()
	if err := os.MkdirAll(*outDir, 0o755); err != nil {
		fatal(err)
	}
	dirs := []string{"stream", "message", "security", "ccb", "server", "commands"}
	// Each generator writes one module. A generator that cannot translate the current source fails
	// ALONE: its module is not written (so exactly the theorems that import it stop building), the
	// others are, and the exit status is 3. Only Consts (imported by every model) is fatal.
	if err := genConsts(*repo, dirs, filepath.Join(*outDir, "Consts.lean")); err != nil {
		fatal(err)
	}
	failed := 0
	step := func(file string, f func(repo, out string) error) {
		out := filepath.Join(*outDir, file)
		if err := f(*repo, out); err != nil {
			fmt.Fprintf(os.Stderr, "gen: %s not generated: %v\n", file, err)
			_ = os.Remove(out)
			failed++
		}
	}
	step("Tables.lean", genTables)           // C03, C10 (tables.go)
	step("Private.lean", genPrivate)         // C09 (tables_private.go)
	step("FactsCCB.lean", genFactsCCB)       // C17 broker writers, C20 id source (facts_ccb.go)
	step("FactsLock.lean", genFactsLock)     // C17 (facts_lock.go)
	step("FactsIO.lean", genFactsIO)         // C19 (facts_io.go)
	step("Decisions.lean", genDecisions)     // C10, C05: decision code translated from source (trans.go)
	step("FactsAdRead.lean", genFactsAdRead) // C13 handshake ad readers (facts_adread.go)
	step("FactsNoCtx.lean", genFactsNoCtx)   // C19 blocking calls without a context (facts_noctx.go)
	step("Literals.lean", genLiterals)       // C12 size literals (literals.go)
	step("FactsAlloc.lean", genFactsAlloc)   // C13 allocations sized by a variable (facts_alloc.go)
	step("Facts.lean", genFacts)
	warnTypeCheck()
	if failed > 0 {
		os.Exit(3)
	}
}

// warnTypeCheck reports on stderr what Facts.lean records: the type checker's complaints are not
// fatal (the extractors are syntactic and tolerate missing type information) but must not go unseen.
func warnTypeCheck() {
	var dirs []string
	total, other := 0, 0
	for d, g := range tcDiags {
		dirs = append(dirs, d)
		total += g.total
		other += g.other
	}
	sort.Strings(dirs)
	if total == 0 {
		return
	}
	fmt.Fprintf(os.Stderr, "gen: warning: %d type-check warnings, %d of them not explained by the stub importer (see CedarGen/Facts.lean)\n", total, other)
	n := 0
	for _, d := range dirs {
		for _, m := range tcDiags[d].otherMsgs {
			if n == 10 {
				fmt.Fprintf(os.Stderr, "gen: warning:   ... and %d more\n", other-n)
				return
			}
			fmt.Fprintf(os.Stderr, "gen: warning:   %s\n", m)
			n++
		}
	}
}

// emptyTable: the error for a generated fact table that came out empty. Theorems of the form
// "every row of the table satisfies ..." hold vacuously over an empty table; an empty table means
// the extraction pattern no longer matches the library, not that the library is clean.
func emptyTable(src, table, theorem, pattern string) error {
	return fmt.Errorf("OBLIGATION translator/%s: generated table %s is EMPTY: %s. The theorem(s) %s would hold vacuously over it, "+
		"so nothing is generated. Teach tools/gen/%s.go the library's new shape", src, table, pattern, theorem, src)
}

func fatal(err error) {
	fmt.Fprintln(os.Stderr, "gen:", err)
	os.Exit(2)
}
