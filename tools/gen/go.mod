module cedarverif/gen

go 1.23
