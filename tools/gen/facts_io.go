package main

// Fact tables for C19 (cancellation reaches every connection read/write):
//   (c) connIO   : every call in stream/ that reads or writes through the connection
//                  (X.Read/X.Write/... on conn/reader/writer, io.ReadFull(s.reader, ...), ...)
//       connUses : every mention of the Stream fields conn / reader / writer, with how it is used
//   (d) ctxFresh   : every context.Background() / context.TODO() in stream/ security/ message/
//       ctxForeign : every context-like call argument that is not derived from a context.Context
//                    parameter of the enclosing function (through context.With*)
//       ctxStored  : every context stored into a struct field (composite literal / assignment)
// Purely syntactic (go/ast + local identifier resolution); over-approximate. The theorems in
// CedarProps/C19.lean state inclusion of these tables in lists declared next to the model.

import (
	"fmt"
	"go/ast"
	"go/token"
	"go/types"
	"os"
	"regexp"
	"sort"
	"strings"
)

type ioFact struct{ file, fn, what, detail string }

var connNameRE = regexp.MustCompile(`(?i)(^|\.)(\w*conn\w*|reader|writer)$`)
var connMentionRE = regexp.MustCompile(`(?i)(^|[^\w])((\w+\.)?(\w*conn\w*|reader|writer))([^\w]|$)`)
var ioMethod = map[string]bool{"Read": true, "Write": true, "ReadFrom": true, "WriteTo": true, "WriteString": true,
	"ReadByte": true, "WriteByte": true, "ReadAt": true, "WriteAt": true}
var ioFuncPkg = map[string]bool{"io": true, "bufio": true, "ioutil": true}
var ctxNameRE = regexp.MustCompile(`(?i)ctx$|context$`)

// connFields: the names under which the `connUses` extraction recognises the connection fields of
// stream.Stream. The extraction is BY NAME; streamIOFields (below) checks the names against the
// struct declaration BY TYPE, so that a renamed or added connection field cannot silently empty
// (or thin out) the tables.
var connFields = map[string]bool{"conn": true, "reader": true, "writer": true}

// ioEndpointTypeRE: field types through which bytes can reach or leave the process.
var ioEndpointTypeRE = regexp.MustCompile(`^\*?(net|io|bufio|tls|os)\.\w*(Conn|Reader|Writer|ReadWriter|ReadCloser|WriteCloser|ReadWriteCloser|File)$`)

// ioScan: how much the extraction looked at. The tables of (d) list EXCEPTIONS and are legitimately
// empty in a clean tree; these counters are what distinguishes "no exception found" from "the
// pattern no longer matches anything".
type ioScan struct{ funcs, ctxParamFuncs, ctxArgs int }

// streamIOFieldsOf lists (name, type) of every field of struct `Stream` whose declared type is an
// I/O endpoint, in declaration order; ok = the struct was found.
func streamIOFieldsOf(p *pkgInfo) (out [][2]string, ok bool) {
	for _, f := range p.files {
		for _, d := range f.Decls {
			gd, isGen := d.(*ast.GenDecl)
			if !isGen {
				continue
			}
			for _, sp := range gd.Specs {
				ts, isTS := sp.(*ast.TypeSpec)
				if !isTS || ts.Name.Name != "Stream" {
					continue
				}
				st, isSt := ts.Type.(*ast.StructType)
				if !isSt {
					continue
				}
				ok = true
				for _, fl := range st.Fields.List {
					t := exprStr(fl.Type)
					if !ioEndpointTypeRE.MatchString(t) {
						continue
					}
					if len(fl.Names) == 0 { // embedded
						out = append(out, [2]string{t[strings.LastIndex(t, ".")+1:], t})
					}
					for _, n := range fl.Names {
						out = append(out, [2]string{n.Name, t})
					}
				}
			}
		}
	}
	return
}

func isCtxType(e ast.Expr) bool {
	s, ok := e.(*ast.SelectorExpr)
	if !ok {
		return false
	}
	x, ok := s.X.(*ast.Ident)
	return ok && x.Name == "context" && s.Sel.Name == "Context"
}

func exprStr(e ast.Expr) string { return types.ExprString(e) }

func funcName(fd *ast.FuncDecl) string {
	return fd.Name.Name
}

// ctxLike: an expression that syntactically denotes a context.
func ctxLike(e ast.Expr) bool {
	switch v := e.(type) {
	case *ast.Ident:
		return ctxNameRE.MatchString(v.Name)
	case *ast.SelectorExpr:
		return ctxNameRE.MatchString(v.Sel.Name) && !(isPkgIdent(v.X, "context"))
	case *ast.CallExpr:
		if s, ok := v.Fun.(*ast.SelectorExpr); ok && isPkgIdent(s.X, "context") {
			return s.Sel.Name != "AfterFunc" && s.Sel.Name != "Cause"
		}
	}
	return false
}

func isPkgIdent(e ast.Expr, name string) bool {
	x, ok := e.(*ast.Ident)
	return ok && x.Name == name
}

func collectIOFacts(p *pkgInfo, dir string, wantConn bool, scan *ioScan) (connIO, connUses, fresh, foreign, stored []ioFact) {
	for _, f := range p.files {
		file := dir + "/" + strings.TrimPrefix(p.fset.Position(f.Pos()).Filename[strings.LastIndex(p.fset.Position(f.Pos()).Filename, "/"):], "/")
		for _, d := range f.Decls {
			fd, ok := d.(*ast.FuncDecl)
			if !ok || fd.Body == nil {
				continue
			}
			fn := funcName(fd)
			scan.funcs++
			derived := map[types.Object]bool{}
			addParams := func(ft *ast.FuncType) {
				if ft == nil || ft.Params == nil {
					return
				}
				counted := false
				for _, fl := range ft.Params.List {
					if isCtxType(fl.Type) {
						if !counted {
							scan.ctxParamFuncs++
							counted = true
						}
						for _, n := range fl.Names {
							if o := p.info.Defs[n]; o != nil {
								derived[o] = true
							}
						}
					}
				}
			}
			addParams(fd.Type)
			isDerived := func(e ast.Expr) bool { return false }
			isDerived = func(e ast.Expr) bool {
				switch v := e.(type) {
				case *ast.Ident:
					if o := p.info.Uses[v]; o != nil && derived[o] {
						return true
					}
					if o := p.info.Defs[v]; o != nil && derived[o] {
						return true
					}
				case *ast.ParenExpr:
					return isDerived(v.X)
				case *ast.CallExpr:
					// context.WithCancel/WithTimeout/WithDeadline/WithValue(parent, ...) keep the parent's
					// cancellation; context.WithoutCancel deliberately drops it and is NOT derived
					if s, ok := v.Fun.(*ast.SelectorExpr); ok && isPkgIdent(s.X, "context") && strings.HasPrefix(s.Sel.Name, "With") &&
						!strings.HasPrefix(s.Sel.Name, "Without") && len(v.Args) > 0 {
						return isDerived(v.Args[0])
					}
				}
				return false
			}
			// parents for use classification
			parent := map[ast.Node]ast.Node{}
			var stack []ast.Node
			ast.Inspect(fd.Body, func(n ast.Node) bool {
				if n == nil {
					stack = stack[:len(stack)-1]
					return true
				}
				if len(stack) > 0 {
					parent[n] = stack[len(stack)-1]
				}
				stack = append(stack, n)
				return true
			})
			ast.Inspect(fd.Body, func(n ast.Node) bool {
				switch v := n.(type) {
				case *ast.FuncLit:
					addParams(v.Type)
				case *ast.AssignStmt:
					// ctx2, cancel := context.WithTimeout(ctx, d)   (derived locals)
					if len(v.Rhs) == 1 && len(v.Lhs) >= 1 && isDerived(v.Rhs[0]) {
						if id, ok := v.Lhs[0].(*ast.Ident); ok {
							if o := p.info.Defs[id]; o != nil {
								derived[o] = true
							} else if o := p.info.Uses[id]; o != nil {
								derived[o] = true
							}
						}
					}
					// ctx = <something not derived>, ctx, cancel := context.WithTimeout(context.WithoutCancel(ctx), d):
					// a derived variable overwritten with a foreign context stops being derived
					if len(v.Lhs) >= 1 && (len(v.Rhs) == 1 || len(v.Rhs) == len(v.Lhs)) {
						for i, l := range v.Lhs {
							id, ok := l.(*ast.Ident)
							if !ok {
								continue
							}
							o := p.info.Uses[id]
							if o == nil {
								o = p.info.Defs[id]
							}
							if o == nil || !derived[o] {
								continue
							}
							var rhs ast.Expr
							if len(v.Rhs) == len(v.Lhs) {
								rhs = v.Rhs[i]
							} else if i == 0 {
								rhs = v.Rhs[0]
							}
							if rhs != nil && !isDerived(rhs) {
								delete(derived, o)
								foreign = append(foreign, ioFact{file, fn, exprStr(rhs), "reassign:" + id.Name})
							}
						}
					}
					// x.ctx = <ctx>   (stored)
					for i, l := range v.Lhs {
						if s, ok := l.(*ast.SelectorExpr); ok && ctxNameRE.MatchString(s.Sel.Name) && i < len(v.Rhs) {
							stored = append(stored, ioFact{file, fn, exprStr(l), derivedStr(isDerived(v.Rhs[i]))})
						}
					}
				case *ast.KeyValueExpr:
					if k, ok := v.Key.(*ast.Ident); ok && ctxNameRE.MatchString(k.Name) {
						if _, isLit := parent[n].(*ast.CompositeLit); isLit {
							lit := parent[n].(*ast.CompositeLit)
							tn := "?"
							if lit.Type != nil {
								tn = exprStr(lit.Type)
							}
							stored = append(stored, ioFact{file, fn, tn + "." + k.Name, derivedStr(isDerived(v.Value))})
						}
					}
				case *ast.CallExpr:
					callee := exprStr(v.Fun)
					if s, ok := v.Fun.(*ast.SelectorExpr); ok && isPkgIdent(s.X, "context") && (s.Sel.Name == "Background" || s.Sel.Name == "TODO") {
						fresh = append(fresh, ioFact{file, fn, callee + "()", ""})
					}
					for _, a := range v.Args {
						if !ctxLike(a) {
							continue
						}
						scan.ctxArgs++
						if c, ok := a.(*ast.CallExpr); ok {
							if s, ok := c.Fun.(*ast.SelectorExpr); ok && (s.Sel.Name == "Background" || s.Sel.Name == "TODO") {
								continue // listed in ctxFresh
							}
						}
						if isDerived(a) {
							continue
						}
						foreign = append(foreign, ioFact{file, fn, exprStr(a), callee})
					}
					if wantConn {
						if s, ok := v.Fun.(*ast.SelectorExpr); ok {
							recv := exprStr(s.X)
							if ioMethod[s.Sel.Name] && connNameRE.MatchString(recv) {
								connIO = append(connIO, ioFact{file, fn, callee, ""})
							}
							if x, ok := s.X.(*ast.Ident); ok && ioFuncPkg[x.Name] {
								for _, a := range v.Args {
									if connMentionRE.MatchString(exprStr(a)) {
										connIO = append(connIO, ioFact{file, fn, callee + "(" + exprStr(a), ""})
										break
									}
								}
							}
						}
					}
				case *ast.SelectorExpr:
					if !wantConn {
						break
					}
					if connFields[v.Sel.Name] {
						if _, ok := v.X.(*ast.Ident); !ok {
							break
						}
						use := "read"
						switch pn := parent[n].(type) {
						case *ast.SelectorExpr:
							if pn.X == ast.Expr(v) {
								use = "call:" + pn.Sel.Name
								if _, isCall := parent[pn].(*ast.CallExpr); !isCall {
									use = "field:" + pn.Sel.Name
								}
							}
						case *ast.CallExpr:
							if pn.Fun != ast.Expr(v) {
								use = "arg:" + exprStr(pn.Fun)
							}
						case *ast.AssignStmt:
							for _, l := range pn.Lhs {
								if l == ast.Expr(v) {
									use = "assign"
								}
							}
							if use != "assign" {
								use = "copy"
							}
						case *ast.ReturnStmt:
							use = "return"
						case *ast.TypeAssertExpr:
							use = "assert:" + exprStr(pn.Type)
						case *ast.BinaryExpr:
							if pn.Op == token.NEQ || pn.Op == token.EQL {
								use = "nilcheck"
							}
						}
						connUses = append(connUses, ioFact{file, fn, v.Sel.Name, use})
					}
				}
				return true
			})
		}
	}
	return
}

func derivedStr(b bool) string {
	if b {
		return "derived"
	}
	return "foreign"
}

func writeFacts(b *strings.Builder, name, doc string, l []ioFact) {
	sort.SliceStable(l, func(i, j int) bool {
		a, c := l[i], l[j]
		if a.file != c.file {
			return a.file < c.file
		}
		if a.fn != c.fn {
			return a.fn < c.fn
		}
		if a.what != c.what {
			return a.what < c.what
		}
		return a.detail < c.detail
	})
	// duplicates collapse: the tables are sets of (site class), the count is kept separately
	var out []ioFact
	for i, x := range l {
		if i > 0 && x == l[i-1] {
			continue
		}
		out = append(out, x)
	}
	fmt.Fprintf(b, "/-- %s -/\ndef %s : List (String × String × String × String) := [\n", doc, name)
	for i, x := range out {
		sep := ","
		if i == len(out)-1 {
			sep = ""
		}
		fmt.Fprintf(b, "  (%s, %s, %s, %s)%s\n", leanStr(x.file), leanStr(x.fn), leanStr(x.what), leanStr(x.detail), sep)
	}
	fmt.Fprintf(b, "]\ndef %sCount : Nat := %d\n\n", name, len(l))
}

// genFactsIO writes lean/CedarGen/FactsIO.lean.
func genFactsIO(repo, out string) error {
	var b strings.Builder
	b.WriteString("-- GENERATED by /verif/tools/gen (facts_io.go) from /repo — do not edit; rewritten on every check run.\n")
	b.WriteString("-- rows: (file, enclosing function, what, detail)\n")
	b.WriteString("namespace CedarGen.FactsIO\n\n")
	var connIO, connUses, fresh, foreign, stored []ioFact
	var scan ioScan
	var ioFields [][2]string
	for _, d := range []string{"stream", "security", "message"} {
		p, err := loadPkg(repo, d)
		if err != nil {
			return err
		}
		if d == "stream" {
			var found bool
			if ioFields, found = streamIOFieldsOf(p); !found {
				return fmt.Errorf("OBLIGATION translator/facts_io: struct stream.Stream not found; the C19 tables connIO / connUses " +
					"(theorem all_io_wrapped) cannot be extracted. Teach tools/gen/facts_io.go where the connection lives now")
			}
		}
		ci, cu, fr, fo, st := collectIOFacts(p, d, d == "stream", &scan)
		connIO = append(connIO, ci...)
		connUses = append(connUses, cu...)
		fresh = append(fresh, fr...)
		foreign = append(foreign, fo...)
		stored = append(stored, st...)
	}
	if err := checkIOFacts(ioFields, connIO, connUses, scan); err != nil {
		return err
	}
	b.WriteString("/-- the fields of stream.Stream whose declared type is an I/O endpoint (net.Conn, io.Reader, io.Writer, ...), found BY TYPE: (name, type). " +
		"connUses below is extracted BY NAME (conn / reader / writer); the generator refuses to run unless every field listed here has one of those names -/\n")
	b.WriteString("def streamIOFields : List (String × String) := [")
	for i, f := range ioFields {
		if i > 0 {
			b.WriteString(", ")
		}
		fmt.Fprintf(&b, "(%s, %s)", leanStr(f[0]), leanStr(f[1]))
	}
	b.WriteString("]\n\n")
	b.WriteString("/-- how much the extraction examined in stream/ security/ message/: function declarations with a body; functions (declarations and literals) " +
		"with a context.Context parameter; context-like call arguments classified (derived, fresh or foreign). The tables of (d) list exceptions only: " +
		"these counters tell an empty table of a clean tree from a pattern that matches nothing -/\n")
	fmt.Fprintf(&b, "def funcsScanned : Nat := %d\ndef ctxParamFuncs : Nat := %d\ndef ctxArgsSeen : Nat := %d\n\n", scan.funcs, scan.ctxParamFuncs, scan.ctxArgs)
	writeFacts(&b, "connIO", "(c) calls in stream/ that read or write through the connection", connIO)
	writeFacts(&b, "connUses", "(c) mentions of the Stream fields conn / reader / writer in stream/ (what = field, detail = use)", connUses)
	writeFacts(&b, "ctxFresh", "(d) context.Background() / context.TODO() in stream/ security/ message/", fresh)
	writeFacts(&b, "ctxForeign", "(d) context-like call arguments not derived from a context.Context parameter of the enclosing function (what = argument, detail = callee)", foreign)
	writeFacts(&b, "ctxStored", "(d) contexts stored into a struct field (what = field, detail = derived|foreign)", stored)
	b.WriteString("end CedarGen.FactsIO\n")
	return os.WriteFile(out, []byte(b.String()), 0o644)
}

// checkIOFacts: an empty (or thinned-out) table of (c) means the extraction pattern no longer matches
// the library, and `all_io_wrapped` would hold vacuously. Refuse to generate.
func checkIOFacts(ioFields [][2]string, connIO, connUses []ioFact, scan ioScan) error {
	const hint = ". The C19 theorem all_io_wrapped (CedarProps/C19.lean) would hold vacuously over such a table, so nothing is generated. " +
		"Teach tools/gen/facts_io.go (connFields, connNameRE, connMentionRE, ioMethod) the new names; the declared lists in C19.lean then need the same update"
	if len(ioFields) == 0 {
		return fmt.Errorf("OBLIGATION translator/facts_io: stream.Stream has no field of an I/O endpoint type (net.Conn, io.Reader, io.Writer, ...): "+
			"the connection moved out of the struct or changed type%s", hint)
	}
	for _, f := range ioFields {
		if !connFields[f[0]] {
			return fmt.Errorf("OBLIGATION translator/facts_io: stream.Stream has the I/O field `%s %s`, which the extraction of connUses / connIO does not track "+
				"(it knows conn, reader, writer by name): a renamed or new connection field%s", f[0], f[1], hint)
		}
	}
	if len(connIO) == 0 {
		return fmt.Errorf("OBLIGATION translator/facts_io: table connIO is EMPTY: no call in stream/ was recognised as reading or writing through the connection%s", hint)
	}
	if len(connUses) == 0 {
		return fmt.Errorf("OBLIGATION translator/facts_io: table connUses is EMPTY: no mention of the Stream fields conn / reader / writer was found in stream/%s", hint)
	}
	used := map[string]bool{}
	reads, writes := false, false
	for _, u := range connUses {
		used[u.what] = true
		switch {
		case strings.HasPrefix(u.detail, "call:Read") || strings.HasPrefix(u.detail, "arg:io.Read") || strings.HasPrefix(u.detail, "arg:io.Copy") || strings.HasPrefix(u.detail, "arg:bufio.NewReader"):
			reads = true
		case strings.HasPrefix(u.detail, "call:Write") || strings.HasPrefix(u.detail, "arg:io.Write") || strings.HasPrefix(u.detail, "arg:io.Copy") || strings.HasPrefix(u.detail, "arg:bufio.NewWriter"):
			writes = true
		}
	}
	for _, f := range ioFields {
		if !used[f[0]] {
			return fmt.Errorf("OBLIGATION translator/facts_io: the I/O field stream.Stream.%s is never mentioned in table connUses: the mention pattern (x.%s with x an identifier) no longer matches%s", f[0], f[0], hint)
		}
	}
	if !reads || !writes {
		return fmt.Errorf("OBLIGATION translator/facts_io: table connUses holds no %s site: a library that never %s the connection is implausible, the use classification no longer matches%s",
			map[bool]string{true: "write", false: "read"}[reads], map[bool]string{true: "writes to", false: "reads from"}[reads], hint)
	}
	if scan.funcs == 0 || scan.ctxParamFuncs == 0 || scan.ctxArgs == 0 {
		return fmt.Errorf("OBLIGATION translator/facts_io: the context scan of stream/ security/ message/ examined %d functions, %d with a context.Context parameter, %d context-like arguments: "+
			"a zero means the pattern (parameter type context.Context, names matching ctx$|context$) no longer matches, and the C19 theorem ctx_threaded would hold vacuously over empty tables of exceptions",
			scan.funcs, scan.ctxParamFuncs, scan.ctxArgs)
	}
	return nil
}
