package main

// tables_private.go: the private-attribute tables of property C09.
//
// The set of fixed private names and the reserved prefix do not live in /repo but in its classad
// dependency (classad/private.go of the version /repo's go.mod requires, read from the module
// cache); the version cut-off is the literal argument list of the BuiltSinceVersion call in
// message.putClassAdToMessageWithOptions. Everything is translated syntactically into
// lean/CedarGen/Private.lean; the theorems of CedarProps/C09.lean are stated over these tables.

import (
	"bufio"
	"fmt"
	"go/ast"
	"go/parser"
	"go/token"
	"os"
	"path/filepath"
	"sort"
	"strconv"
	"strings"
	"unicode"
)

const classadModule = "github.com/PelicanPlatform/classad"

// modCacheDir returns the directory of module `mod` at the version /repo's go.mod selects
// (honouring a directory `replace`).
func modCacheDir(repo, mod string) (string, error) {
	f, err := os.Open(filepath.Join(repo, "go.mod"))
	if err != nil {
		return "", err
	}
	defer f.Close()
	version, replaced := "", ""
	sc := bufio.NewScanner(f)
	for sc.Scan() {
		line := strings.TrimSpace(sc.Text())
		if i := strings.Index(line, "//"); i >= 0 {
			line = strings.TrimSpace(line[:i])
		}
		fs := strings.Fields(strings.TrimPrefix(line, "require "))
		if strings.HasPrefix(line, "replace ") {
			fs = strings.Fields(strings.TrimPrefix(line, "replace "))
			// replace mod [v] => target [v]
			for i, x := range fs {
				if x == "=>" && len(fs) > 0 && fs[0] == mod && i+1 < len(fs) {
					if i+2 < len(fs) {
						mod2, v2 := fs[i+1], fs[i+2]
						if mod2 == mod {
							version = v2
						}
					} else {
						replaced = fs[i+1]
					}
				}
			}
			continue
		}
		if len(fs) >= 2 && fs[0] == mod && version == "" {
			version = fs[1]
		}
	}
	if replaced != "" {
		if !filepath.IsAbs(replaced) {
			replaced = filepath.Join(repo, replaced)
		}
		return replaced, nil
	}
	if version == "" {
		return "", fmt.Errorf("module %s not required by %s/go.mod", mod, repo)
	}
	var esc strings.Builder
	for _, r := range mod {
		if unicode.IsUpper(r) {
			esc.WriteByte('!')
			esc.WriteRune(unicode.ToLower(r))
		} else {
			esc.WriteRune(r)
		}
	}
	var roots []string
	if c := os.Getenv("GOMODCACHE"); c != "" {
		roots = append(roots, c)
	}
	if gp := os.Getenv("GOPATH"); gp != "" {
		for _, p := range filepath.SplitList(gp) {
			roots = append(roots, filepath.Join(p, "pkg", "mod"))
		}
	}
	if h, err := os.UserHomeDir(); err == nil {
		roots = append(roots, filepath.Join(h, "go", "pkg", "mod"))
	}
	for _, r := range roots {
		d := filepath.Join(r, esc.String()+"@"+version)
		if st, err := os.Stat(d); err == nil && st.IsDir() {
			return d, nil
		}
	}
	return "", fmt.Errorf("module %s@%s not found in the module cache (%v)", mod, version, roots)
}

// callsIn reports whether function `fn` of file f calls pkg.name.
func callsIn(f *ast.File, fn, pkg, name string) bool {
	found := false
	for _, d := range f.Decls {
		fd, ok := d.(*ast.FuncDecl)
		if !ok || fd.Name.Name != fn || fd.Body == nil {
			continue
		}
		ast.Inspect(fd.Body, func(n ast.Node) bool {
			if ce, ok := n.(*ast.CallExpr); ok {
				if se, ok := ce.Fun.(*ast.SelectorExpr); ok {
					if id, ok := se.X.(*ast.Ident); ok && id.Name == pkg && se.Sel.Name == name {
						found = true
					}
				}
			}
			return true
		})
	}
	return found
}

func genPrivate(repo, out string) error {
	dir, err := modCacheDir(repo, classadModule)
	if err != nil {
		return err
	}
	src := filepath.Join(dir, "classad", "private.go")
	fset := token.NewFileSet()
	f, err := parser.ParseFile(fset, src, nil, 0)
	if err != nil {
		return err
	}
	var names []string
	prefix, havePrefix, haveSet := "", false, false
	for _, d := range f.Decls {
		gd, ok := d.(*ast.GenDecl)
		if !ok {
			continue
		}
		for _, sp := range gd.Specs {
			vs, ok := sp.(*ast.ValueSpec)
			if !ok {
				continue
			}
			for i, id := range vs.Names {
				if i >= len(vs.Values) {
					continue
				}
				switch id.Name {
				case "privateAttrsV1":
					cl, ok := vs.Values[i].(*ast.CompositeLit)
					if !ok {
						return fmt.Errorf("%s: privateAttrsV1 is not a composite literal", src)
					}
					for _, el := range cl.Elts {
						kv, ok := el.(*ast.KeyValueExpr)
						if !ok {
							return fmt.Errorf("%s: privateAttrsV1 element is not key: value", src)
						}
						bl, ok := kv.Key.(*ast.BasicLit)
						if !ok || bl.Kind != token.STRING {
							return fmt.Errorf("%s: privateAttrsV1 key is not a string literal", src)
						}
						s, err := strconv.Unquote(bl.Value)
						if err != nil {
							return err
						}
						names = append(names, s)
					}
					haveSet = true
				case "privateV2Prefix":
					bl, ok := vs.Values[i].(*ast.BasicLit)
					if !ok || bl.Kind != token.STRING {
						return fmt.Errorf("%s: privateV2Prefix is not a string literal", src)
					}
					s, err := strconv.Unquote(bl.Value)
					if err != nil {
						return err
					}
					prefix, havePrefix = s, true
				}
			}
		}
	}
	if !haveSet || !havePrefix {
		return fmt.Errorf("%s: privateAttrsV1 / privateV2Prefix not found", src)
	}
	sort.Strings(names)

	// the version cut-off: arguments of the BuiltSinceVersion call in putClassAdToMessageWithOptions
	msg, err := loadPkg(repo, "message")
	if err != nil {
		return err
	}
	fd := findFunc(msg, "putClassAdToMessageWithOptions")
	if fd == nil || fd.Body == nil {
		return fmt.Errorf("message.putClassAdToMessageWithOptions not found")
	}
	var cut []string
	nCalls := 0
	ast.Inspect(fd.Body, func(n ast.Node) bool {
		ce, ok := n.(*ast.CallExpr)
		if !ok {
			return true
		}
		se, ok := ce.Fun.(*ast.SelectorExpr)
		if !ok || se.Sel.Name != "BuiltSinceVersion" {
			return true
		}
		nCalls++
		cut = nil
		for _, a := range ce.Args {
			if v, ok := constOf(msg, a); ok {
				cut = append(cut, v.ExactString())
			}
		}
		return true
	})
	if nCalls != 1 || len(cut) != 3 {
		return fmt.Errorf("expected exactly one BuiltSinceVersion(<3 constants>) call in putClassAdToMessageWithOptions, found %d (args %v)", nCalls, cut)
	}

	var b strings.Builder
	b.WriteString("-- GENERATED by /verif/tools/gen (tables_private.go) — do not edit; rewritten on every check run.\n")
	fmt.Fprintf(&b, "-- source: %s/classad/private.go (version selected by /repo/go.mod), message/classad.go\n", filepath.Base(dir))
	b.WriteString("namespace CedarGen.Private\n\n")
	b.WriteString("/-- classad.privateAttrsV1 (keys, sorted): the fixed private attribute names, as stored (lower case) -/\n")
	quoted := make([]string, len(names))
	for i, n := range names {
		quoted[i] = leanStr(n)
	}
	fmt.Fprintf(&b, "def privateAttrsV1 : List String := [%s]\n\n", strings.Join(quoted, ", "))
	b.WriteString("/-- classad.privateV2Prefix -/\n")
	fmt.Fprintf(&b, "def privateV2Prefix : String := %s\n\n", leanStr(prefix))
	b.WriteString("/-- IsPrivateAttributeV1 folds the name with strings.ToLower before the lookup -/\n")
	fmt.Fprintf(&b, "def v1FoldsCase : Bool := %v\n", callsIn(f, "IsPrivateAttributeV1", "strings", "ToLower"))
	b.WriteString("/-- IsPrivateAttributeV2 compares the leading bytes with strings.EqualFold -/\n")
	fmt.Fprintf(&b, "def v2FoldsCase : Bool := %v\n\n", callsIn(f, "IsPrivateAttributeV2", "strings", "EqualFold"))
	b.WriteString("/-- arguments of the BuiltSinceVersion call that gates reserved-prefix attributes -/\n")
	fmt.Fprintf(&b, "def v2CutoffMajor : Int := %s\ndef v2CutoffMinor : Int := %s\ndef v2CutoffPatch : Int := %s\n\n", cut[0], cut[1], cut[2])
	b.WriteString("end CedarGen.Private\n")
	return os.WriteFile(out, []byte(b.String()), 0o644)
}
