package main

// facts_lock.go — fact tables for C17 (shared state is safe under concurrency).
//
// Writes lean/CedarGen/FactsLock.lean:
//   (a) cacheMethods   per method of security.SessionCache / security.SessionEntry the ordered
//                      lock/unlock events and guarded-field reads/writes, closed over calls to
//                      methods of the two types (callee events inlined, receiver renamed);
//   (b) streamMethods  per exported method of stream.Stream the struct fields read, written
//                      unconditionally, and written under some guard (if/for/switch), closed
//                      over calls to methods of the same receiver;
//   (c) authSites      every call of security.NewAuthenticator in library code (security, client,
//                      server, ccb) and every function literal installed as ServerConfigForCommand,
//                      classified "copy" (argument is &local with `local := *expr`) or "shared";
//   (d) configWrites   every assignment through a *SecurityConfig that the enclosing function did
//                      not allocate itself, in the security package;
//   (e) globals        every access to the package-level variables of security/session_manager.go,
//                      classified once-write / after-once-read / atomic / plain-read / plain-write.
//
// Purely syntactic (typed AST); control flow is ignored except that (b) marks a write "guarded"
// when it sits lexically under an if/for/switch/select.  The theorems consume the tables through
// inclusions in declarations written next to the model (lean/CedarModel/Lockset.lean).

import (
	"bytes"
	"fmt"
	"go/ast"
	"go/printer"
	"go/token"
	"go/types"
	"os"
	"sort"
	"strings"
)

type lockEv struct{ kind, ty, ob, fld string }

func exprText(fset *token.FileSet, e ast.Expr) string {
	var b bytes.Buffer
	_ = printer.Fprint(&b, fset, e)
	return b.String()
}

// namedOf returns the name of the (pointer to) named struct type of e, or "".
func namedOf(p *pkgInfo, e ast.Expr) string {
	tv, ok := p.info.Types[e]
	if !ok || tv.Type == nil {
		return ""
	}
	t := tv.Type
	if pt, ok := t.(*types.Pointer); ok {
		t = pt.Elem()
	}
	if n, ok := t.(*types.Named); ok {
		return n.Obj().Name()
	}
	return ""
}

func methodsOf(p *pkgInfo, recvType string) map[string]*ast.FuncDecl {
	out := map[string]*ast.FuncDecl{}
	for _, f := range p.files {
		for _, d := range f.Decls {
			fd, ok := d.(*ast.FuncDecl)
			if !ok || fd.Recv == nil || len(fd.Recv.List) != 1 || fd.Body == nil {
				continue
			}
			t := fd.Recv.List[0].Type
			if st, ok := t.(*ast.StarExpr); ok {
				t = st.X
			}
			if id, ok := t.(*ast.Ident); ok && id.Name == recvType {
				out[fd.Name.Name] = fd
			}
		}
	}
	return out
}

func recvName(fd *ast.FuncDecl) string {
	if fd.Recv != nil && len(fd.Recv.List) == 1 && len(fd.Recv.List[0].Names) == 1 {
		return fd.Recv.List[0].Names[0].Name
	}
	return "_"
}

// ---------------------------------------------------------------------------------------------
// (a) lock/access events of SessionCache / SessionEntry methods

type lockWalker struct {
	p       *pkgInfo
	tracked map[string]bool                     // struct type names
	methods map[string]map[string]*ast.FuncDecl // type -> method -> decl
	memo    map[string][]lockEv
	busy    map[string]bool
	// alts: the complete event lists of the paths of the method being walked that END EARLY (an
	// if-branch whose last statement is a return / panic). Such a branch is an alternative to the
	// rest of the method, not a prefix of it: its explicit Unlock must not be read as "released"
	// by the statements after the if. Each alternative is emitted as a body of its own
	// ("Type.Method#k") and checked like any method body.
	alts    [][]lockEv
	altMemo map[string][][]lockEv
}

// terminates: the block's last statement leaves the function.
func terminates(b *ast.BlockStmt) bool {
	if b == nil || len(b.List) == 0 {
		return false
	}
	switch l := b.List[len(b.List)-1].(type) {
	case *ast.ReturnStmt:
		return true
	case *ast.ExprStmt:
		if c, ok := l.X.(*ast.CallExpr); ok {
			if id, ok := c.Fun.(*ast.Ident); ok && id.Name == "panic" {
				return true
			}
		}
	}
	return false
}

// walkBranch walks an if-branch; when it ends the function it becomes an alternative path
// (prefix so far + branch + the defers registered so far, in reverse) and adds nothing to evs.
func (w *lockWalker) walkBranch(b *ast.BlockStmt, evs, deferred *[]lockEv) {
	if !terminates(b) {
		w.walkStmt(b, evs, deferred)
		return
	}
	path := append([]lockEv{}, (*evs)...)
	dd := append([]lockEv{}, (*deferred)...)
	w.walkStmt(b, &path, &dd)
	for i := len(dd) - 1; i >= 0; i-- {
		path = append(path, dd[i])
	}
	w.alts = append(w.alts, path)
}

func (w *lockWalker) eventsOf(ty, m string) []lockEv {
	key := ty + "." + m
	if ev, ok := w.memo[key]; ok {
		return ev
	}
	if w.busy[key] {
		return nil
	}
	w.busy[key] = true
	fd := w.methods[ty][m]
	var evs, deferred []lockEv
	saved := w.alts
	w.alts = nil
	w.walkStmt(fd.Body, &evs, &deferred)
	for i := len(deferred) - 1; i >= 0; i-- {
		evs = append(evs, deferred[i])
	}
	if w.altMemo == nil {
		w.altMemo = map[string][][]lockEv{}
	}
	w.altMemo[key] = w.alts
	w.alts = saved
	w.busy[key] = false
	w.memo[key] = evs
	return evs
}

// lockCall recognises X.mu.Lock() etc. on a tracked type.
func (w *lockWalker) lockCall(c *ast.CallExpr) (lockEv, bool) {
	sel, ok := c.Fun.(*ast.SelectorExpr)
	if !ok {
		return lockEv{}, false
	}
	kind := map[string]string{"Lock": "acq", "Unlock": "rel", "RLock": "racq", "RUnlock": "rrel"}[sel.Sel.Name]
	if kind == "" {
		return lockEv{}, false
	}
	inner, ok := sel.X.(*ast.SelectorExpr)
	if !ok {
		return lockEv{}, false
	}
	ty := namedOf(w.p, inner.X)
	if !w.tracked[ty] {
		return lockEv{}, false
	}
	return lockEv{kind, ty, exprText(w.p.fset, inner.X), inner.Sel.Name}, true
}

func (w *lockWalker) walkStmt(n ast.Node, evs, deferred *[]lockEv) {
	if n == nil {
		return
	}
	switch s := n.(type) {
	case *ast.BlockStmt:
		for _, st := range s.List {
			w.walkStmt(st, evs, deferred)
		}
	case *ast.DeferStmt:
		if ev, ok := w.lockCall(s.Call); ok {
			*deferred = append(*deferred, ev)
			return
		}
		w.walkExpr(s.Call, false, evs)
	case *ast.AssignStmt:
		for _, r := range s.Rhs {
			w.walkExpr(r, false, evs)
		}
		for _, l := range s.Lhs {
			w.walkExpr(l, true, evs)
		}
	case *ast.IncDecStmt:
		w.walkExpr(s.X, false, evs)
		w.walkExpr(s.X, true, evs)
	case *ast.ExprStmt:
		w.walkExpr(s.X, false, evs)
	case *ast.ReturnStmt:
		for _, r := range s.Results {
			w.walkExpr(r, false, evs)
		}
	case *ast.IfStmt:
		w.walkStmt(s.Init, evs, deferred)
		w.walkExpr(s.Cond, false, evs)
		w.walkBranch(s.Body, evs, deferred)
		if eb, ok := s.Else.(*ast.BlockStmt); ok {
			w.walkBranch(eb, evs, deferred)
		} else {
			w.walkStmt(s.Else, evs, deferred)
		}
	case *ast.ForStmt:
		w.walkStmt(s.Init, evs, deferred)
		if s.Cond != nil {
			w.walkExpr(s.Cond, false, evs)
		}
		w.walkStmt(s.Body, evs, deferred)
		w.walkStmt(s.Post, evs, deferred)
	case *ast.RangeStmt:
		w.walkExpr(s.X, false, evs)
		w.walkStmt(s.Body, evs, deferred)
	case *ast.SwitchStmt:
		w.walkStmt(s.Init, evs, deferred)
		if s.Tag != nil {
			w.walkExpr(s.Tag, false, evs)
		}
		w.walkStmt(s.Body, evs, deferred)
	case *ast.CaseClause:
		for _, e := range s.List {
			w.walkExpr(e, false, evs)
		}
		for _, st := range s.Body {
			w.walkStmt(st, evs, deferred)
		}
	case *ast.DeclStmt:
		if gd, ok := s.Decl.(*ast.GenDecl); ok {
			for _, sp := range gd.Specs {
				if vs, ok := sp.(*ast.ValueSpec); ok {
					for _, v := range vs.Values {
						w.walkExpr(v, false, evs)
					}
				}
			}
		}
	case *ast.GoStmt:
		w.walkExpr(s.Call, false, evs)
	case ast.Stmt:
		// other statements carry no tracked accesses in the modelled files
	}
}

func (w *lockWalker) walkExpr(e ast.Expr, write bool, evs *[]lockEv) {
	switch x := e.(type) {
	case nil:
	case *ast.SelectorExpr:
		ty := namedOf(w.p, x.X)
		if w.tracked[ty] {
			if _, isMethod := w.methods[ty][x.Sel.Name]; !isMethod && x.Sel.Name != "mu" {
				k := "rd"
				if write {
					k = "wr"
				}
				w.walkExpr(x.X, false, evs)
				*evs = append(*evs, lockEv{k, ty, exprText(w.p.fset, x.X), x.Sel.Name})
				return
			}
		}
		w.walkExpr(x.X, false, evs)
	case *ast.IndexExpr:
		w.walkExpr(x.Index, false, evs)
		w.walkExpr(x.X, write, evs) // m[k] = v writes the map held in the field
	case *ast.SliceExpr:
		w.walkExpr(x.X, write, evs)
	case *ast.StarExpr:
		w.walkExpr(x.X, write, evs)
	case *ast.ParenExpr:
		w.walkExpr(x.X, write, evs)
	case *ast.UnaryExpr:
		w.walkExpr(x.X, false, evs)
	case *ast.BinaryExpr:
		w.walkExpr(x.X, false, evs)
		w.walkExpr(x.Y, false, evs)
	case *ast.KeyValueExpr:
		w.walkExpr(x.Value, false, evs)
	case *ast.CompositeLit:
		for _, el := range x.Elts {
			w.walkExpr(el, false, evs)
		}
	case *ast.CallExpr:
		if ev, ok := w.lockCall(x); ok {
			*evs = append(*evs, ev)
			return
		}
		// builtin delete(m, k) writes the map
		if id, ok := x.Fun.(*ast.Ident); ok && id.Name == "delete" && len(x.Args) == 2 {
			w.walkExpr(x.Args[1], false, evs)
			w.walkExpr(x.Args[0], true, evs)
			return
		}
		// method of a tracked type: inline its events with the receiver renamed
		if sel, ok := x.Fun.(*ast.SelectorExpr); ok {
			ty := namedOf(w.p, sel.X)
			if w.tracked[ty] {
				if fd, ok := w.methods[ty][sel.Sel.Name]; ok {
					for _, a := range x.Args {
						w.walkExpr(a, false, evs)
					}
					w.walkExpr(sel.X, false, evs)
					base := exprText(w.p.fset, sel.X)
					rn := recvName(fd)
					for _, ev := range w.eventsOf(ty, sel.Sel.Name) {
						if ev.ob == rn {
							ev.ob = base
						} else {
							ev.ob = base + "/" + ev.ob
						}
						*evs = append(*evs, ev)
					}
					return
				}
			}
			w.walkExpr(sel.X, false, evs)
		} else {
			w.walkExpr(x.Fun, false, evs)
		}
		for _, a := range x.Args {
			w.walkExpr(a, false, evs)
		}
	case *ast.FuncLit:
		var d []lockEv
		w.walkStmt(x.Body, evs, &d)
		*evs = append(*evs, d...)
	}
}

// ---------------------------------------------------------------------------------------------
// (b) field footprints of stream.Stream methods

type fieldFoot struct {
	reads, writes, gwrites map[string]bool
}

func newFoot() *fieldFoot {
	return &fieldFoot{map[string]bool{}, map[string]bool{}, map[string]bool{}}
}

type footWalker struct {
	p       *pkgInfo
	ty      string
	fields  map[string]bool
	methods map[string]*ast.FuncDecl
	memo    map[string]*fieldFoot
	busy    map[string]bool
}

// interface-typed fields: which method names mutate the object behind the field (reviewed allow-list)
var ifaceMutators = map[string]bool{"Write": false, "Sum": false, "Seal": false, "Open": false, "Close": false, "Read": false,
	"RemoteAddr": false, "SetDeadline": false, "Reset": true}

// hashMutators: hash.Hash.Write changes the digest state => a write of the field holding it
var hashFields = map[string]bool{"sendDigest": true, "recvDigest": true}

// functions whose listed argument index is written through
var argWriters = map[string]int{"copy": 0, "rand.Read": 0, "io.ReadFull": 1, "binary.BigEndian.PutUint32": 0,
	"binary.BigEndian.PutUint64": 0, "binary.BigEndian.PutUint16": 0}

func (w *footWalker) footOf(m string) *fieldFoot {
	if f, ok := w.memo[m]; ok {
		return f
	}
	f := newFoot()
	if w.busy[m] {
		return f
	}
	w.busy[m] = true
	fd := w.methods[m]
	rn := recvName(fd)
	w.stmt(fd.Body, rn, false, f)
	w.busy[m] = false
	w.memo[m] = f
	return f
}

func (w *footWalker) isField(e ast.Expr, rn string) (string, bool) {
	sel, ok := e.(*ast.SelectorExpr)
	if !ok {
		return "", false
	}
	id, ok := sel.X.(*ast.Ident)
	if !ok || id.Name != rn || !w.fields[sel.Sel.Name] {
		return "", false
	}
	return sel.Sel.Name, true
}

// baseField strips index/slice/paren/star and reports the receiver field underneath, if any.
func (w *footWalker) baseField(e ast.Expr, rn string) (string, bool) {
	for {
		switch x := e.(type) {
		case *ast.IndexExpr:
			e = x.X
		case *ast.SliceExpr:
			e = x.X
		case *ast.ParenExpr:
			e = x.X
		case *ast.StarExpr:
			e = x.X
		default:
			return w.isField(e, rn)
		}
	}
}

func (w *footWalker) write(f *fieldFoot, fld string, guarded bool) {
	if guarded {
		f.gwrites[fld] = true
	} else {
		f.writes[fld] = true
	}
}

func (w *footWalker) stmt(n ast.Node, rn string, g bool, f *fieldFoot) {
	if n == nil {
		return
	}
	switch s := n.(type) {
	case *ast.BlockStmt:
		for _, st := range s.List {
			w.stmt(st, rn, g, f)
		}
	case *ast.AssignStmt:
		for _, r := range s.Rhs {
			w.expr(r, rn, g, f)
		}
		for _, l := range s.Lhs {
			if fld, ok := w.baseField(l, rn); ok {
				w.write(f, fld, g)
				// index expressions on the left still read their index
				if ix, ok := l.(*ast.IndexExpr); ok {
					w.expr(ix.Index, rn, g, f)
				}
				if s.Tok != token.ASSIGN && s.Tok != token.DEFINE {
					f.reads[fld] = true // op-assign reads too
				}
			} else {
				w.expr(l, rn, g, f)
			}
		}
	case *ast.IncDecStmt:
		if fld, ok := w.baseField(s.X, rn); ok {
			f.reads[fld] = true
			w.write(f, fld, g)
		} else {
			w.expr(s.X, rn, g, f)
		}
	case *ast.ExprStmt:
		w.expr(s.X, rn, g, f)
	case *ast.DeferStmt:
		w.expr(s.Call, rn, g, f)
	case *ast.GoStmt:
		w.expr(s.Call, rn, g, f)
	case *ast.ReturnStmt:
		for _, r := range s.Results {
			w.expr(r, rn, g, f)
		}
	case *ast.IfStmt:
		w.stmt(s.Init, rn, g, f)
		w.expr(s.Cond, rn, g, f)
		w.stmt(s.Body, rn, true, f)
		w.stmt(s.Else, rn, true, f)
	case *ast.ForStmt:
		w.stmt(s.Init, rn, g, f)
		w.expr(s.Cond, rn, g, f)
		w.stmt(s.Body, rn, true, f)
		w.stmt(s.Post, rn, true, f)
	case *ast.RangeStmt:
		w.expr(s.X, rn, g, f)
		w.stmt(s.Body, rn, true, f)
	case *ast.SwitchStmt:
		w.stmt(s.Init, rn, g, f)
		w.expr(s.Tag, rn, g, f)
		w.stmt(s.Body, rn, true, f)
	case *ast.TypeSwitchStmt:
		w.stmt(s.Init, rn, g, f)
		w.stmt(s.Assign, rn, g, f)
		w.stmt(s.Body, rn, true, f)
	case *ast.SelectStmt:
		w.stmt(s.Body, rn, true, f)
	case *ast.CaseClause:
		for _, e := range s.List {
			w.expr(e, rn, g, f)
		}
		for _, st := range s.Body {
			w.stmt(st, rn, g, f)
		}
	case *ast.CommClause:
		w.stmt(s.Comm, rn, g, f)
		for _, st := range s.Body {
			w.stmt(st, rn, g, f)
		}
	case *ast.DeclStmt:
		if gd, ok := s.Decl.(*ast.GenDecl); ok {
			for _, sp := range gd.Specs {
				if vs, ok := sp.(*ast.ValueSpec); ok {
					for _, v := range vs.Values {
						w.expr(v, rn, g, f)
					}
				}
			}
		}
	case *ast.LabeledStmt:
		w.stmt(s.Stmt, rn, g, f)
	case *ast.SendStmt:
		w.expr(s.Chan, rn, g, f)
		w.expr(s.Value, rn, g, f)
	}
}

func (w *footWalker) expr(e ast.Expr, rn string, g bool, f *fieldFoot) {
	switch x := e.(type) {
	case nil:
	case *ast.SelectorExpr:
		if fld, ok := w.isField(x, rn); ok {
			f.reads[fld] = true
			return
		}
		w.expr(x.X, rn, g, f)
	case *ast.IndexExpr:
		w.expr(x.X, rn, g, f)
		w.expr(x.Index, rn, g, f)
	case *ast.SliceExpr:
		w.expr(x.X, rn, g, f)
		w.expr(x.Low, rn, g, f)
		w.expr(x.High, rn, g, f)
		w.expr(x.Max, rn, g, f)
	case *ast.StarExpr:
		w.expr(x.X, rn, g, f)
	case *ast.ParenExpr:
		w.expr(x.X, rn, g, f)
	case *ast.UnaryExpr:
		w.expr(x.X, rn, g, f)
	case *ast.BinaryExpr:
		w.expr(x.X, rn, g, f)
		w.expr(x.Y, rn, g, f)
	case *ast.KeyValueExpr:
		w.expr(x.Value, rn, g, f)
	case *ast.CompositeLit:
		for _, el := range x.Elts {
			w.expr(el, rn, g, f)
		}
	case *ast.TypeAssertExpr:
		w.expr(x.X, rn, g, f)
	case *ast.FuncLit:
		// closures (context.AfterFunc callbacks, deferred funcs) run at an unknown time: guarded
		w.stmt(x.Body, rn, true, f)
	case *ast.CallExpr:
		fun := exprText(w.p.fset, x.Fun)
		// same-receiver method: union of its footprint (guardedness inherited from the call site)
		if sel, ok := x.Fun.(*ast.SelectorExpr); ok {
			if id, ok := sel.X.(*ast.Ident); ok && id.Name == rn {
				if _, ok := w.methods[sel.Sel.Name]; ok {
					cf := w.footOf(sel.Sel.Name)
					for k := range cf.reads {
						f.reads[k] = true
					}
					for k := range cf.writes {
						w.write(f, k, g)
					}
					for k := range cf.gwrites {
						f.gwrites[k] = true
					}
					for _, a := range x.Args {
						w.expr(a, rn, g, f)
					}
					return
				}
			}
			// method on a field of the receiver (interface- or struct-typed)
			if fld, ok := w.isField(sel.X, rn); ok {
				f.reads[fld] = true
				mut, known := ifaceMutators[sel.Sel.Name]
				if hashFields[fld] && sel.Sel.Name == "Write" {
					mut, known = true, true
				}
				if !known {
					mut = true // unknown method on a field: assume it mutates
				}
				if mut {
					w.write(f, fld, g)
				}
				for _, a := range x.Args {
					w.expr(a, rn, g, f)
				}
				return
			}
		}
		if idx, ok := argWriters[fun]; ok && idx < len(x.Args) {
			for i, a := range x.Args {
				if i == idx {
					if fld, ok := w.baseField(a, rn); ok {
						w.write(f, fld, g)
						continue
					}
				}
				w.expr(a, rn, g, f)
			}
			return
		}
		w.expr(x.Fun, rn, g, f)
		for _, a := range x.Args {
			w.expr(a, rn, g, f)
		}
	}
}

// ---------------------------------------------------------------------------------------------
// (c)/(d) configuration sharing

type authSite struct{ file, fn, what, kind string }

// derefCopies returns the local variables of a function body initialised by `x := *expr`.
func derefCopies(body ast.Node) map[string]bool {
	out := map[string]bool{}
	ast.Inspect(body, func(n ast.Node) bool {
		as, ok := n.(*ast.AssignStmt)
		if !ok || as.Tok != token.DEFINE || len(as.Lhs) != 1 || len(as.Rhs) != 1 {
			return true
		}
		id, ok := as.Lhs[0].(*ast.Ident)
		if !ok {
			return true
		}
		if _, ok := as.Rhs[0].(*ast.StarExpr); ok {
			out[id.Name] = true
		}
		return true
	})
	return out
}

func addrOfCopy(e ast.Expr, copies map[string]bool) bool {
	u, ok := e.(*ast.UnaryExpr)
	if !ok || u.Op != token.AND {
		return false
	}
	id, ok := u.X.(*ast.Ident)
	return ok && copies[id.Name]
}

func authSitesOf(p *pkgInfo, dir string) []authSite {
	var out []authSite
	for _, f := range p.files {
		file := dir + "/" + strings.TrimPrefix(p.fset.Position(f.Pos()).Filename, "")
		if i := strings.LastIndex(file, "/"); i >= 0 {
			file = dir + "/" + file[i+1:]
		}
		for _, d := range f.Decls {
			fd, ok := d.(*ast.FuncDecl)
			if !ok || fd.Body == nil {
				continue
			}
			copies := derefCopies(fd.Body)
			ast.Inspect(fd.Body, func(n ast.Node) bool {
				switch x := n.(type) {
				case *ast.CallExpr:
					fun := exprText(p.fset, x.Fun)
					if (fun == "security.NewAuthenticator" || fun == "NewAuthenticator") && len(x.Args) >= 1 {
						kind := "shared"
						if addrOfCopy(x.Args[0], copies) {
							kind = "copy"
						}
						out = append(out, authSite{file, fd.Name.Name, "NewAuthenticator(" + exprText(p.fset, x.Args[0]) + ")", kind})
					}
				case *ast.AssignStmt:
					for i, l := range x.Lhs {
						sel, ok := l.(*ast.SelectorExpr)
						if !ok || sel.Sel.Name != "ServerConfigForCommand" || i >= len(x.Rhs) {
							continue
						}
						kind := "shared"
						if fl, ok := x.Rhs[i].(*ast.FuncLit); ok {
							cp := derefCopies(fl.Body)
							all, any := true, false
							ast.Inspect(fl.Body, func(m ast.Node) bool {
								if r, ok := m.(*ast.ReturnStmt); ok && len(r.Results) == 1 {
									if id, ok := r.Results[0].(*ast.Ident); ok && id.Name == "nil" {
										return true
									}
									any = true
									if !addrOfCopy(r.Results[0], cp) {
										all = false
									}
								}
								return true
							})
							if all && any {
								kind = "copy"
							}
						}
						out = append(out, authSite{file, fd.Name.Name, "ServerConfigForCommand=", kind})
					}
				}
				return true
			})
		}
	}
	return out
}

type cfgWrite struct{ fn, base, fld string }

func configWritesOf(p *pkgInfo) []cfgWrite {
	var out []cfgWrite
	for _, f := range p.files {
		for _, d := range f.Decls {
			fd, ok := d.(*ast.FuncDecl)
			if !ok || fd.Body == nil {
				continue
			}
			// locals allocated here: x := &SecurityConfig{...} / x := SecurityConfig{...} / var x SecurityConfig
			fresh := map[string]bool{}
			ast.Inspect(fd.Body, func(n ast.Node) bool {
				as, ok := n.(*ast.AssignStmt)
				if !ok || as.Tok != token.DEFINE || len(as.Lhs) != 1 || len(as.Rhs) != 1 {
					return true
				}
				id, ok := as.Lhs[0].(*ast.Ident)
				if !ok {
					return true
				}
				r := as.Rhs[0]
				if u, ok := r.(*ast.UnaryExpr); ok && u.Op == token.AND {
					r = u.X
				}
				if cl, ok := r.(*ast.CompositeLit); ok && strings.HasSuffix(exprText(p.fset, cl.Type), "SecurityConfig") {
					fresh[id.Name] = true
				}
				return true
			})
			// cfgField: e is (a slice / index / paren of) a field selector on a SecurityConfig this
			// function did not allocate; returns base and field
			var cfgField func(e ast.Expr) (string, string, bool)
			cfgField = func(e ast.Expr) (string, string, bool) {
				switch x := e.(type) {
				case *ast.ParenExpr:
					return cfgField(x.X)
				case *ast.SliceExpr:
					return cfgField(x.X)
				case *ast.IndexExpr:
					return cfgField(x.X)
				case *ast.CallExpr: // conversions such as sort.StringSlice(cfg.F)
					if len(x.Args) == 1 {
						return cfgField(x.Args[0])
					}
				case *ast.SelectorExpr:
					if namedOf(p, x.X) == "SecurityConfig" {
						base := exprText(p.fset, x.X)
						if !fresh[base] {
							return base, x.Sel.Name, true
						}
					}
				}
				return "", "", false
			}
			ast.Inspect(fd.Body, func(n ast.Node) bool {
				switch as := n.(type) {
				case *ast.AssignStmt:
					for _, l := range as.Lhs {
						switch lx := l.(type) {
						case *ast.SelectorExpr:
							if namedOf(p, lx.X) != "SecurityConfig" {
								continue
							}
							base := exprText(p.fset, lx.X)
							if fresh[base] {
								continue
							}
							out = append(out, cfgWrite{fd.Name.Name, base, lx.Sel.Name})
						case *ast.IndexExpr, *ast.StarExpr:
							// cfg.F[i] = v : a write into the backing array / map the field refers to,
							// which a shallow copy (x := *cfg) SHARES with the original
							var inner ast.Expr
							if ix, ok := lx.(*ast.IndexExpr); ok {
								inner = ix.X
							} else {
								inner = lx.(*ast.StarExpr).X
							}
							if base, fld, ok := cfgField(inner); ok {
								out = append(out, cfgWrite{fd.Name.Name, base, fld + "[]"})
							}
						}
					}
				case *ast.IncDecStmt:
					if ix, ok := as.X.(*ast.IndexExpr); ok {
						if base, fld, ok := cfgField(ix.X); ok {
							out = append(out, cfgWrite{fd.Name.Name, base, fld + "[]"})
						}
					}
				case *ast.CallExpr:
					// in-place mutators of a slice: sort.* / slices.Sort* / slices.Reverse / rand.Shuffle /
					// copy(dst, …) / append(cfg.F[:k], …) (which writes into the shared backing array)
					fun := exprText(p.fset, as.Fun)
					mut := strings.HasPrefix(fun, "sort.") || strings.HasPrefix(fun, "slices.Sort") || fun == "slices.Reverse" ||
						strings.HasSuffix(fun, ".Shuffle") || fun == "copy" || fun == "clear"
					if fun == "append" && len(as.Args) > 0 {
						if _, isSlice := as.Args[0].(*ast.SliceExpr); isSlice {
							mut = true
						}
					}
					if mut && len(as.Args) > 0 {
						if base, fld, ok := cfgField(as.Args[0]); ok {
							out = append(out, cfgWrite{fd.Name.Name, base, fld + "[]"})
						}
					}
				}
				return true
			})
		}
	}
	return out
}

// ---------------------------------------------------------------------------------------------
// (e) package-level variables of security/session_manager.go

type globalAcc struct{ v, fn, kind string }

func globalsOf(p *pkgInfo) []globalAcc {
	vars := map[string]bool{}
	for _, f := range p.files {
		if !strings.HasSuffix(p.fset.Position(f.Pos()).Filename, "session_manager.go") {
			continue
		}
		for _, d := range f.Decls {
			if gd, ok := d.(*ast.GenDecl); ok && gd.Tok == token.VAR {
				for _, sp := range gd.Specs {
					for _, n := range sp.(*ast.ValueSpec).Names {
						vars[n.Name] = true
					}
				}
			}
		}
	}
	var out []globalAcc
	for _, f := range p.files {
		for _, d := range f.Decls {
			fd, ok := d.(*ast.FuncDecl)
			if !ok || fd.Body == nil {
				continue
			}
			var walk func(n ast.Node, inOnce, afterOnce bool) bool
			walk = func(n ast.Node, inOnce, afterOnce bool) bool {
				seenOnce := afterOnce
				ast.Inspect(n, func(m ast.Node) bool {
					switch x := m.(type) {
					case *ast.CallExpr:
						fun := exprText(p.fset, x.Fun)
						// <var>.Do(func(){...}) on a tracked sync.Once
						if sel, ok := x.Fun.(*ast.SelectorExpr); ok && sel.Sel.Name == "Do" {
							if id, ok := sel.X.(*ast.Ident); ok && vars[id.Name] {
								out = append(out, globalAcc{id.Name, fd.Name.Name, "once"})
								for _, a := range x.Args {
									walk(a, true, false)
								}
								seenOnce = true
								return false
							}
						}
						if strings.HasPrefix(fun, "atomic.") && len(x.Args) > 0 {
							if u, ok := x.Args[0].(*ast.UnaryExpr); ok && u.Op == token.AND {
								if id, ok := u.X.(*ast.Ident); ok && vars[id.Name] {
									// one atomic read-modify-write (Add*, Swap*, CompareAndSwap*, And*, Or*) is "atomic";
									// a bare load / store is told apart: a load followed by a store of the same
									// variable is race-free and still not ONE atomic step (C17 counter_minted_in_one_step)
									kind := "atomic"
									switch op := strings.TrimPrefix(fun, "atomic."); {
									case strings.HasPrefix(op, "Load"):
										kind = "atomic-load"
									case strings.HasPrefix(op, "Store"):
										kind = "atomic-store"
									}
									out = append(out, globalAcc{id.Name, fd.Name.Name, kind})
									for _, a := range x.Args[1:] {
										walk(a, inOnce, seenOnce)
									}
									return false
								}
							}
						}
					case *ast.AssignStmt:
						for _, l := range x.Lhs {
							if id, ok := l.(*ast.Ident); ok && vars[id.Name] && p.info.Uses[id] != nil && p.info.Uses[id].Parent() == p.pkg.Scope() {
								k := "plain-write"
								if inOnce {
									k = "once-write"
								}
								out = append(out, globalAcc{id.Name, fd.Name.Name, k})
							}
						}
						for _, r := range x.Rhs {
							walk(r, inOnce, seenOnce)
						}
						return false
					case *ast.Ident:
						if vars[x.Name] && p.info.Uses[x] != nil && p.info.Uses[x].Parent() == p.pkg.Scope() {
							k := "plain-read"
							if inOnce {
								k = "once-read"
							} else if seenOnce {
								k = "after-once-read"
							}
							out = append(out, globalAcc{x.Name, fd.Name.Name, k})
						}
					}
					return true
				})
				return seenOnce
			}
			walk(fd.Body, false, false)
		}
	}
	return out
}

// ---------------------------------------------------------------------------------------------

func sortedKeys(m map[string]bool) []string {
	var out []string
	for k := range m {
		out = append(out, k)
	}
	sort.Strings(out)
	return out
}

func leanStrList(l []string) string {
	q := make([]string, len(l))
	for i, s := range l {
		q[i] = leanStr(s)
	}
	return "[" + strings.Join(q, ", ") + "]"
}

func structFields(p *pkgInfo, name string) []string {
	var out []string
	for _, f := range p.files {
		for _, d := range f.Decls {
			gd, ok := d.(*ast.GenDecl)
			if !ok {
				continue
			}
			for _, sp := range gd.Specs {
				ts, ok := sp.(*ast.TypeSpec)
				if !ok || ts.Name.Name != name {
					continue
				}
				st, ok := ts.Type.(*ast.StructType)
				if !ok {
					continue
				}
				for _, fl := range st.Fields.List {
					for _, n := range fl.Names {
						out = append(out, n.Name)
					}
				}
			}
		}
	}
	return out
}

func genFactsLock(repo, out string) error {
	var b strings.Builder
	b.WriteString("-- GENERATED by /verif/tools/gen (facts_lock.go) from /repo — do not edit; rewritten on every check run.\n")
	b.WriteString("namespace CedarGen.FactsLock\n\n")

	sec, err := loadPkg(repo, "security")
	if err != nil {
		return err
	}
	// (a)
	lw := &lockWalker{p: sec, tracked: map[string]bool{"SessionCache": true, "SessionEntry": true},
		methods: map[string]map[string]*ast.FuncDecl{"SessionCache": methodsOf(sec, "SessionCache"), "SessionEntry": methodsOf(sec, "SessionEntry")},
		memo:    map[string][]lockEv{}, busy: map[string]bool{}}
	if len(lw.methods["SessionCache"]) == 0 || len(lw.methods["SessionEntry"]) == 0 {
		return fmt.Errorf("facts_lock: SessionCache/SessionEntry methods not found")
	}
	b.WriteString("/-- struct fields in declaration order -/\n")
	fmt.Fprintf(&b, "def sessionCacheFields : List String := %s\n", leanStrList(structFields(sec, "SessionCache")))
	fmt.Fprintf(&b, "def sessionEntryFields : List String := %s\n\n", leanStrList(structFields(sec, "SessionEntry")))
	b.WriteString("/-- (a) per method: ordered events (kind, type, object expression, field); kind ∈ acq rel racq rrel rd wr -/\n")
	b.WriteString("def cacheMethods : List (String × List (String × String × String × String)) := [\n")
	var names []string
	for _, ty := range []string{"SessionEntry", "SessionCache"} {
		for m := range lw.methods[ty] {
			names = append(names, ty+"."+m)
		}
	}
	sort.Strings(names)
	type body struct {
		name string
		evs  []lockEv
	}
	var bodies []body
	for _, n := range names {
		parts := strings.SplitN(n, ".", 2)
		bodies = append(bodies, body{n, lw.eventsOf(parts[0], parts[1])})
		for k, alt := range lw.altMemo[n] {
			bodies = append(bodies, body{fmt.Sprintf("%s#%d", n, k+1), alt}) // a path that returns early
		}
	}
	for i, bd := range bodies {
		var es []string
		for _, e := range bd.evs {
			es = append(es, fmt.Sprintf("(%s, %s, %s, %s)", leanStr(e.kind), leanStr(e.ty), leanStr(e.ob), leanStr(e.fld)))
		}
		sep := ","
		if i == len(bodies)-1 {
			sep = ""
		}
		fmt.Fprintf(&b, "  (%s, [%s])%s\n", leanStr(bd.name), strings.Join(es, ", "), sep)
	}
	b.WriteString("]\n\n")

	// (b)
	st, err := loadPkg(repo, "stream")
	if err != nil {
		return err
	}
	fw := &footWalker{p: st, ty: "Stream", fields: map[string]bool{}, methods: methodsOf(st, "Stream"), memo: map[string]*fieldFoot{}, busy: map[string]bool{}}
	sf := structFields(st, "Stream")
	if len(sf) == 0 || len(fw.methods) == 0 {
		return fmt.Errorf("facts_lock: stream.Stream not found")
	}
	for _, f := range sf {
		fw.fields[f] = true
	}
	fmt.Fprintf(&b, "def streamFields : List String := %s\n\n", leanStrList(sf))
	b.WriteString("/-- (b) per exported Stream method: fields read, written unconditionally, written under a guard -/\n")
	b.WriteString("def streamMethods : List (String × List String × List String × List String) := [\n")
	var ms []string
	for m := range fw.methods {
		if ast.IsExported(m) {
			ms = append(ms, m)
		}
	}
	sort.Strings(ms)
	if len(ms) == 0 {
		return emptyTable("facts_lock", "FactsLock.streamMethods", "C17 footprint_covers_code", "stream.Stream has no exported method")
	}
	for i, m := range ms {
		f := fw.footOf(m)
		sep := ","
		if i == len(ms)-1 {
			sep = ""
		}
		fmt.Fprintf(&b, "  (%s, %s, %s, %s)%s\n", leanStr(m), leanStrList(sortedKeys(f.reads)), leanStrList(sortedKeys(f.writes)), leanStrList(sortedKeys(f.gwrites)), sep)
	}
	b.WriteString("]\n\n")

	// (c)
	var sites []authSite
	for _, d := range []string{"security", "client", "server", "ccb"} {
		p, err := loadPkg(repo, d)
		if err != nil {
			return err
		}
		sites = append(sites, authSitesOf(p, d)...)
	}
	sort.Slice(sites, func(i, j int) bool {
		if sites[i].file != sites[j].file {
			return sites[i].file < sites[j].file
		}
		if sites[i].fn != sites[j].fn {
			return sites[i].fn < sites[j].fn
		}
		return sites[i].what < sites[j].what
	})
	if len(sites) == 0 {
		return emptyTable("facts_lock", "FactsLock.authSites", "C17 config_not_written (authSitesOK)", "no NewAuthenticator call site found in security/ client/ server/ ccb/")
	}
	b.WriteString("/-- (c) NewAuthenticator call sites / ServerConfigForCommand providers: (file, function, what, copy|shared) -/\n")
	b.WriteString("def authSites : List (String × String × String × String) := [\n")
	for i, s := range sites {
		sep := ","
		if i == len(sites)-1 {
			sep = ""
		}
		fmt.Fprintf(&b, "  (%s, %s, %s, %s)%s\n", leanStr(s.file), leanStr(s.fn), leanStr(s.what), leanStr(s.kind), sep)
	}
	b.WriteString("]\n\n")

	// (d)
	cw := configWritesOf(sec)
	sort.Slice(cw, func(i, j int) bool {
		if cw[i].fn != cw[j].fn {
			return cw[i].fn < cw[j].fn
		}
		return cw[i].fld < cw[j].fld
	})
	b.WriteString("/-- (d) writes through a *SecurityConfig the function did not allocate: (function, base, field) -/\n")
	b.WriteString("def configWrites : List (String × String × String) := [\n")
	for i, c := range cw {
		sep := ","
		if i == len(cw)-1 {
			sep = ""
		}
		fmt.Fprintf(&b, "  (%s, %s, %s)%s\n", leanStr(c.fn), leanStr(c.base), leanStr(c.fld), sep)
	}
	b.WriteString("]\n\n")

	// (e)
	gl := globalsOf(sec)
	sort.Slice(gl, func(i, j int) bool {
		if gl[i].v != gl[j].v {
			return gl[i].v < gl[j].v
		}
		if gl[i].fn != gl[j].fn {
			return gl[i].fn < gl[j].fn
		}
		return gl[i].kind < gl[j].kind
	})
	if len(gl) == 0 {
		return emptyTable("facts_lock", "FactsLock.globals", "C17 globals_once", "no access to a package-level variable of security/session_manager.go found (file renamed?)")
	}
	b.WriteString("/-- (e) accesses to the package-level variables of session_manager.go: (variable, function, kind) -/\n")
	b.WriteString("def globals : List (String × String × String) := [\n")
	var seen = map[globalAcc]bool{}
	var uniq []globalAcc
	for _, g := range gl {
		if !seen[g] {
			seen[g] = true
			uniq = append(uniq, g)
		}
	}
	for i, g := range uniq {
		sep := ","
		if i == len(uniq)-1 {
			sep = ""
		}
		fmt.Fprintf(&b, "  (%s, %s, %s)%s\n", leanStr(g.v), leanStr(g.fn), leanStr(g.kind), sep)
	}
	b.WriteString("]\n\n")

	// (f) every call of a SessionCache method on the two resumption paths (function literals inside
	// them included)
	b.WriteString("/-- (f) calls of security.SessionCache methods inside the resumption paths: (function, method) -/\n")
	b.WriteString("def resumeCacheCalls : List (String × String) := [\n")
	var rc []string
	for _, f := range sec.files {
		for _, d := range f.Decls {
			fd, ok := d.(*ast.FuncDecl)
			if !ok || fd.Body == nil || (fd.Name.Name != "handleSessionResumption" && fd.Name.Name != "resumeSession") {
				continue
			}
			ast.Inspect(fd.Body, func(n ast.Node) bool {
				c, ok := n.(*ast.CallExpr)
				if !ok {
					return true
				}
				if sel, ok := c.Fun.(*ast.SelectorExpr); ok && namedOf(sec, sel.X) == "SessionCache" {
					rc = append(rc, fmt.Sprintf("  (%s, %s)", leanStr(fd.Name.Name), leanStr(sel.Sel.Name)))
				}
				return true
			})
		}
	}
	if len(rc) == 0 {
		return emptyTable("facts_lock", "FactsLock.resumeCacheCalls", "C17 resumption_path_never_stores",
			"no SessionCache method call found in security.handleSessionResumption / resumeSession (functions renamed?)")
	}
	sort.Strings(rc)
	b.WriteString(strings.Join(rc, ",\n"))
	b.WriteString("\n]\n\n")

	// (g) the SessionCache method calls of storeClientSession in SOURCE ORDER: the entry is filed
	// before any command is mapped to it (a mapping without its entry is what a concurrent expiry
	// sweep deletes)
	b.WriteString("/-- (g) calls of security.SessionCache methods in storeClientSession, in source order -/\n")
	b.WriteString("def clientStoreCalls : List String := [\n")
	var sc []string
	for _, f := range sec.files {
		for _, d := range f.Decls {
			fd, ok := d.(*ast.FuncDecl)
			if !ok || fd.Body == nil || fd.Name.Name != "storeClientSession" {
				continue
			}
			ast.Inspect(fd.Body, func(n ast.Node) bool {
				c, ok := n.(*ast.CallExpr)
				if !ok {
					return true
				}
				if sel, ok := c.Fun.(*ast.SelectorExpr); ok && namedOf(sec, sel.X) == "SessionCache" {
					sc = append(sc, "  "+leanStr(sel.Sel.Name))
				}
				return true
			})
		}
	}
	if len(sc) == 0 {
		return emptyTable("facts_lock", "FactsLock.clientStoreCalls", "C17 client_store_files_entry_first",
			"no SessionCache method call found in security.storeClientSession (function renamed?)")
	}
	b.WriteString(strings.Join(sc, ",\n"))
	b.WriteString("\n]\n\nend CedarGen.FactsLock\n")
	return os.WriteFile(out, []byte(b.String()), 0o644)
}
