package main

// trans.go — a translator for *decision code*: Go functions (or the tail of one) that only compare
// inputs with constants, set flags and return.  The body is translated statement by statement into a
// Lean `Id.run do` block with `let mut` variables and early `return`, so the generated definition has
// the control flow of the Go source (if / tagless switch / assignment / return) and nothing else.
// Anything outside that subset makes the translator FAIL (the check then reports the obligation
// "translator"): it never guesses.
//
// What is abstracted is explicit in each spec: `exprs` maps the source text of a Go expression to a
// Lean parameter (an input such as `req.Authentication`, or a boolean abstraction of an expression the
// translator does not look into, such as `negotiation.NegotiatedAuth != AuthNone` ↦ haveAuth);
// `outs` are the fields the code assigns; `opaque` are assignment targets that belong to the
// abstracted part (loops that compute them are skipped, and only then).
//
// The theorems `Cedar.C10.core_is_the_code`, `Cedar.C05.levelOK_is_the_code` and
// `Cedar.C05.satisfies_is_the_code` prove the hand-written
// model functions equal to these generated ones, so a change of the Go decision logic changes the
// generated definition and breaks the proof unless the model (and everything proved about it) follows.

import (
	"bytes"
	"fmt"
	"go/ast"
	"go/constant"
	"go/printer"
	"go/token"
	"os"
	"strings"
)

type leanParam struct{ name, typ string }
type outVar struct{ goSel, lean, typ, init string }

type transSpec struct {
	pkg, fn  string
	leanName string
	doc      string
	params   []leanParam
	exprs    map[string]string // Go expression text -> Lean expression
	outs     []outVar
	opaque   []string                             // assignment targets (source text) that are abstracted away
	retBool  bool                                 // function returns bool (else: error; nil ↦ 0, k-th non-nil return in source order ↦ k)
	after    string                               // if set: translate only the statements after the first top-level statement whose text starts with this
	consts   map[string]map[string]constant.Value // imported package name -> const name -> value
}

type trans struct {
	p      *pkgInfo
	s      *transSpec
	b      strings.Builder
	nret   int
	locals map[string]bool
	rets   []string // description of each numbered return
}

func src(p *pkgInfo, n ast.Node) string {
	var buf bytes.Buffer
	_ = printer.Fprint(&buf, p.fset, n)
	return buf.String()
}

func (t *trans) isOpaque(e ast.Expr) bool {
	s := src(t.p, e)
	for _, o := range t.s.opaque {
		if s == o {
			return true
		}
	}
	return false
}

func (t *trans) out(e ast.Expr) *outVar {
	s := src(t.p, e)
	for i := range t.s.outs {
		if t.s.outs[i].goSel == s {
			return &t.s.outs[i]
		}
	}
	return nil
}

func (t *trans) expr(e ast.Expr) (string, error) {
	if m, ok := t.s.exprs[src(t.p, e)]; ok {
		return m, nil
	}
	if v, ok := constOf(t.p, e); ok {
		return leanConst(v), nil
	}
	switch x := e.(type) {
	case *ast.ParenExpr:
		s, err := t.expr(x.X)
		return "(" + s + ")", err
	case *ast.Ident:
		switch x.Name {
		case "true", "false":
			return x.Name, nil
		}
		if t.locals[x.Name] {
			return "v_" + x.Name, nil
		}
		return "", fmt.Errorf("identifier %s is neither a constant, a local, nor a declared input", x.Name)
	case *ast.SelectorExpr:
		if id, ok := x.X.(*ast.Ident); ok {
			if cs, ok := t.s.consts[id.Name]; ok {
				if v, ok := cs[x.Sel.Name]; ok {
					return leanConst(v), nil
				}
			}
		}
		return "", fmt.Errorf("expression %s is not a declared input", src(t.p, e))
	case *ast.UnaryExpr:
		if x.Op == token.NOT {
			s, err := t.expr(x.X)
			return "(!" + s + ")", err
		}
	case *ast.BinaryExpr:
		l, err := t.expr(x.X)
		if err != nil {
			return "", err
		}
		r, err := t.expr(x.Y)
		if err != nil {
			return "", err
		}
		switch x.Op {
		case token.LOR:
			return "(" + l + " || " + r + ")", nil
		case token.LAND:
			return "(" + l + " && " + r + ")", nil
		case token.EQL:
			return "(" + l + " == " + r + ")", nil
		case token.NEQ:
			return "(" + l + " != " + r + ")", nil
		}
	}
	return "", fmt.Errorf("expression %s is outside the translated subset", src(t.p, e))
}

func (t *trans) line(ind int, s string) {
	t.b.WriteString(strings.Repeat("  ", ind))
	t.b.WriteString(s)
	t.b.WriteByte('\n')
}

func (t *trans) retValue(code string) string {
	if t.s.retBool {
		return code
	}
	fs := []string{code}
	for _, o := range t.s.outs {
		fs = append(fs, "o_"+o.lean)
	}
	return "⟨" + strings.Join(fs, ", ") + "⟩"
}

// onlyOpaqueWrites: every assignment inside n targets an opaque field (or a loop variable).
func (t *trans) onlyOpaqueWrites(n ast.Node) bool {
	ok := true
	ast.Inspect(n, func(m ast.Node) bool {
		switch x := m.(type) {
		case *ast.AssignStmt:
			if x.Tok == token.DEFINE {
				return true
			}
			for _, l := range x.Lhs {
				if !t.isOpaque(l) {
					ok = false
				}
			}
		case *ast.IncDecStmt, *ast.ReturnStmt, *ast.GoStmt, *ast.DeferStmt, *ast.SendStmt:
			ok = false
		}
		return true
	})
	return ok
}

func (t *trans) block(ind int, list []ast.Stmt) error {
	n := 0
	for _, st := range list {
		k, err := t.stmt(ind, st)
		if err != nil {
			return err
		}
		n += k
	}
	if n == 0 {
		t.line(ind, "pure ()")
	}
	return nil
}

func isLogCall(p *pkgInfo, st ast.Stmt) bool {
	es, ok := st.(*ast.ExprStmt)
	if !ok {
		return false
	}
	c, ok := es.X.(*ast.CallExpr)
	if !ok {
		return false
	}
	return strings.HasPrefix(src(p, c.Fun), "slog.")
}

// stmt emits one statement; returns the number of Lean statements written.
func (t *trans) stmt(ind int, st ast.Stmt) (int, error) {
	switch x := st.(type) {
	case *ast.ExprStmt:
		if isLogCall(t.p, st) {
			return 0, nil
		}
	case *ast.ForStmt, *ast.RangeStmt:
		if t.onlyOpaqueWrites(st) {
			return 0, nil
		}
		return 0, fmt.Errorf("loop at %s writes something that is not declared opaque", t.p.fset.Position(st.Pos()))
	case *ast.AssignStmt:
		if len(x.Lhs) != 1 || len(x.Rhs) != 1 {
			break
		}
		if t.isOpaque(x.Lhs[0]) {
			return 0, nil
		}
		r, err := t.expr(x.Rhs[0])
		if err != nil {
			return 0, err
		}
		if id, ok := x.Lhs[0].(*ast.Ident); ok {
			if x.Tok == token.DEFINE {
				t.locals[id.Name] = true
				t.line(ind, fmt.Sprintf("let mut v_%s := %s", id.Name, r))
				return 1, nil
			}
			if x.Tok == token.ASSIGN && t.locals[id.Name] {
				t.line(ind, fmt.Sprintf("v_%s := %s", id.Name, r))
				return 1, nil
			}
		}
		if o := t.out(x.Lhs[0]); o != nil && x.Tok == token.ASSIGN {
			t.line(ind, fmt.Sprintf("o_%s := %s", o.lean, r))
			return 1, nil
		}
	case *ast.IfStmt:
		if x.Init != nil {
			break
		}
		c, err := t.expr(x.Cond)
		if err != nil {
			return 0, err
		}
		t.line(ind, "if "+c+" then")
		if err := t.block(ind+1, x.Body.List); err != nil {
			return 0, err
		}
		switch e := x.Else.(type) {
		case nil:
		case *ast.BlockStmt:
			t.line(ind, "else")
			if err := t.block(ind+1, e.List); err != nil {
				return 0, err
			}
		case *ast.IfStmt:
			t.line(ind, "else")
			if _, err := t.stmt(ind+1, e); err != nil {
				return 0, err
			}
		}
		return 1, nil
	case *ast.SwitchStmt:
		if x.Init != nil || x.Tag != nil {
			break
		}
		first := true
		closed := false
		for _, cc := range x.Body.List {
			cl := cc.(*ast.CaseClause)
			if cl.List == nil { // default
				if first {
					return 0, fmt.Errorf("switch with only a default clause")
				}
				t.line(ind, "else")
				if err := t.block(ind+1, cl.Body); err != nil {
					return 0, err
				}
				closed = true
				continue
			}
			if closed {
				return 0, fmt.Errorf("case after default")
			}
			var cs []string
			for _, e := range cl.List {
				c, err := t.expr(e)
				if err != nil {
					return 0, err
				}
				cs = append(cs, c)
			}
			kw := "else if "
			if first {
				kw = "if "
			}
			first = false
			t.line(ind, kw+strings.Join(cs, " || ")+" then")
			for _, b := range cl.Body {
				if _, ok := b.(*ast.BranchStmt); ok {
					return 0, fmt.Errorf("fallthrough/break in switch")
				}
			}
			if err := t.block(ind+1, cl.Body); err != nil {
				return 0, err
			}
		}
		if first {
			return 0, nil
		}
		return 1, nil
	case *ast.ReturnStmt:
		if len(x.Results) != 1 {
			break
		}
		if t.s.retBool {
			r, err := t.expr(x.Results[0])
			if err != nil {
				return 0, err
			}
			t.line(ind, "return "+r)
			return 1, nil
		}
		if id, ok := x.Results[0].(*ast.Ident); ok && id.Name == "nil" {
			t.line(ind, "return "+t.retValue("0"))
			return 1, nil
		}
		t.nret++
		what := src(t.p, x.Results[0])
		if c, ok := x.Results[0].(*ast.CallExpr); ok && len(c.Args) > 0 {
			what = src(t.p, c.Args[0])
		}
		t.rets = append(t.rets, fmt.Sprintf("%d = %s", t.nret, what))
		t.line(ind, fmt.Sprintf("return %s", t.retValue(fmt.Sprint(t.nret))))
		return 1, nil
	}
	return 0, fmt.Errorf("statement at %s is outside the translated subset: %s", t.p.fset.Position(st.Pos()), firstLineOf(src(t.p, st)))
}

func firstLineOf(s string) string {
	if i := strings.IndexByte(s, '\n'); i >= 0 {
		return s[:i]
	}
	return s
}

func translate(p *pkgInfo, s *transSpec) (string, error) {
	fd := findFunc(p, s.fn)
	if fd == nil || fd.Body == nil {
		return "", fmt.Errorf("function %s.%s not found", s.pkg, s.fn)
	}
	list := fd.Body.List
	if s.after != "" {
		cut := -1
		for i, st := range list {
			if strings.HasPrefix(src(p, st), s.after) {
				cut = i
				break
			}
		}
		if cut < 0 {
			return "", fmt.Errorf("%s: marker statement %q not found", s.fn, s.after)
		}
		list = list[cut+1:]
	}
	t := &trans{p: p, s: s, locals: map[string]bool{}}
	var ps []string
	for _, q := range s.params {
		ps = append(ps, fmt.Sprintf("(%s : %s)", q.name, q.typ))
	}
	retT := "Bool"
	var hdr strings.Builder
	if !s.retBool {
		retT = s.leanName + "Out"
		fmt.Fprintf(&hdr, "structure %s where\n  ret : Nat\n", retT)
		for _, o := range s.outs {
			fmt.Fprintf(&hdr, "  %s : %s\n", o.lean, o.typ)
		}
		hdr.WriteString("  deriving DecidableEq, Repr\n\n")
	}
	t.line(0, fmt.Sprintf("def %s %s : %s := Id.run do", s.leanName, strings.Join(ps, " "), retT))
	if !s.retBool {
		for _, o := range s.outs {
			t.line(1, fmt.Sprintf("let mut o_%s : %s := %s", o.lean, o.typ, o.init))
		}
	}
	if err := t.block(1, list); err != nil {
		return "", fmt.Errorf("%s.%s: %w", s.pkg, s.fn, err)
	}
	doc := "/-- " + s.doc
	if len(t.rets) > 0 {
		doc += "\n    `ret`: 0 = nil; " + strings.ReplaceAll(strings.Join(t.rets, "; "), "-/", "- /")
	}
	doc += " -/\n"
	return hdr.String() + doc + t.b.String(), nil
}

func pkgConsts(p *pkgInfo) map[string]constant.Value {
	m := map[string]constant.Value{}
	if p.pkg == nil {
		return m
	}
	sc := p.pkg.Scope()
	for _, n := range sc.Names() {
		if c, ok := sc.Lookup(n).(interface{ Val() constant.Value }); ok {
			m[n] = c.Val()
		}
	}
	return m
}

func genDecisions(repo, out string) error {
	sec, err := loadPkg(repo, "security")
	if err != nil {
		return err
	}
	srv, err := loadPkg(repo, "server")
	if err != nil {
		return err
	}
	secConsts := map[string]map[string]constant.Value{"security": pkgConsts(sec)}
	specs := []struct {
		p *pkgInfo
		s transSpec
	}{
		{sec, transSpec{
			pkg: "security", fn: "negotiateSecurity", leanName: "negotiateSecurity",
			doc:    "security.(*Authenticator).negotiateSecurity: the level logic, given whether the two method searches found something.",
			params: []leanParam{{"sAuth", "String"}, {"cAuth", "String"}, {"sEnc", "String"}, {"cEnc", "String"}, {"haveAuth", "Bool"}, {"haveCrypto", "Bool"}},
			exprs: map[string]string{
				"negotiation.ServerConfig.Authentication": "sAuth",
				"negotiation.ClientConfig.Authentication": "cAuth",
				"negotiation.ServerConfig.Encryption":     "sEnc",
				"negotiation.ClientConfig.Encryption":     "cEnc",
				"negotiation.NegotiatedAuth != AuthNone":  "haveAuth",
				"negotiation.NegotiatedAuth == AuthNone":  "(!haveAuth)",
				`negotiation.NegotiatedCrypto != ""`:      "haveCrypto",
				`negotiation.NegotiatedCrypto == ""`:      "(!haveCrypto)",
			},
			outs: []outVar{
				{"negotiation.Authentication", "authentication", "Bool", "false"},
				{"negotiation.Encryption", "encryption", "Bool", "false"},
				{"negotiation.Enact", "enact", "Bool", "false"},
			},
			opaque: []string{"negotiation.NegotiatedAuth", "negotiation.NegotiatedCrypto"},
		}},
		{srv, transSpec{
			pkg: "server", fn: "commandLevelSatisfied", leanName: "commandLevelSatisfied",
			doc:    "server.(*Server).commandLevelSatisfied after the applicable policy `req` (non-nil) has been selected.",
			params: []leanParam{{"reqAuth", "String"}, {"reqEnc", "String"}, {"reqInteg", "String"}, {"authenticated", "Bool"}, {"encrypted", "Bool"}},
			exprs: map[string]string{
				"req.Authentication": "reqAuth", "req.Encryption": "reqEnc", "req.Integrity": "reqInteg",
				"authenticated": "authenticated", "encrypted": "encrypted",
			},
			retBool: true,
			after:   "if req == nil",
			consts:  secConsts,
		}},
		{srv, transSpec{
			pkg: "server", fn: "sessionSatisfies", leanName: "sessionSatisfies",
			doc:    "server.(*Server).sessionSatisfies: the order of the three tests a session must pass before a command's handler runs, given the verdicts of commandLevelSatisfied and authorized.",
			params: []leanParam{{"negNil", "Bool"}, {"levelOK", "Bool"}, {"haveAuthorizer", "Bool"}, {"authorizedNow", "Bool"}},
			exprs: map[string]string{
				"neg == nil": "negNil",
				"s.commandLevelSatisfied(realCmd, neg.Authentication, neg.Encryption)": "levelOK",
				"s.Authorizer != nil":                       "haveAuthorizer",
				"s.authorized(realCmd, peerAddr, neg.User)": "authorizedNow",
			},
		}},
	}
	var b strings.Builder
	b.WriteString("-- GENERATED by /verif/tools/gen (trans.go) from /repo — do not edit; rewritten on every check run.\n")
	b.WriteString("-- Decision code translated statement by statement from the Go source.\n")
	b.WriteString("namespace CedarGen.Decisions\n\n")
	for i := range specs {
		txt, err := translate(specs[i].p, &specs[i].s)
		if err != nil {
			return err
		}
		b.WriteString(txt)
		b.WriteString("\n")
	}
	b.WriteString("end CedarGen.Decisions\n")
	return os.WriteFile(out, []byte(b.String()), 0o644)
}
