#!/usr/bin/env python3
"""Regenerates /verif/MANIFEST.json from props.py (single source of truth for the checks)."""
import json, os, sys
ROOT = os.path.dirname(os.path.dirname(os.path.abspath(__file__)))
sys.path.insert(0, ROOT)
from props import PROPS as ALL_PROPS, NOT_APPLICABLE, HOOK_COMMITS
import props as _props
HOLD = set(getattr(_props, 'HOLD', []))
PROPS = {k: v for k, v in ALL_PROPS.items() if k not in HOLD}
ids = [json.loads(l)["id"] for l in open(os.path.join(ROOT, "properties.jsonl"))]
checks = []
for pid in ids:
    if pid not in PROPS:
        continue
    c = PROPS[pid]
    checks.append({
        "property_id": pid,
        "quick_cmd": "./check %s quick" % pid,
        "thorough_cmd": "./check %s thorough" % pid,
        "evidence_file": "/verif/evidence/%s.json" % pid,
        "replay_cmd_template": "./check %s --replay {path}" % pid,
        "engine": "+".join(c["engines"]),
        "level_claimed": {"category": "proof", "text": c["level_text"], "design_ref": c.get("design_ref", "DESIGN.md §4 " + pid)},
        "level_note": c["level_note"],
        "technique": c["technique"],
    })
na = [{"property_id": p, "reason": NOT_APPLICABLE[p]} for p in ids if p not in PROPS]
m = {
    "version": 1,
    "setup_cmd": "./setup.sh",
    "hooks": {
        "guard": "verif",
        "enable": "go build -tags verif (harness module with `replace github.com/bbockelm/cedar => /repo`)",
        "baseline_off_cmd": "cd /repo && GOFLAGS=-mod=mod go test -vet=off -count=1 -timeout 25m ./...",
        "source_commits": HOOK_COMMITS,
        "add_only": True,
    },
    "engines": [{"name": "cedar_oracle", "path": "lean/Oracle", "serves_properties": sorted(PROPS), "kind_free_text": "compiled Lean 4 executable model (line protocol)"},
                {"name": "corr", "path": "harness/cmd/corr", "serves_properties": sorted(PROPS), "kind_free_text": "Go correspondence harness + property oracles, built against /repo working tree with -tags verif"},
                {"name": "gen", "path": "tools/gen", "serves_properties": sorted(PROPS), "kind_free_text": "go/ast+go/types translator: constants, switch tables, fact tables -> lean/CedarGen"}],
    "checks": checks,
    "not_applicable": na,
    "notes": "Machine-checked proof in Lean 4 over an executable model; model tied to /repo on every run by (T) regenerated CedarGen and (X) correspondence. See DESIGN.md.",
}
json.dump(m, open(os.path.join(ROOT, "MANIFEST.json"), "w"), indent=1)
print("checks:", [c["property_id"] for c in checks], "not_applicable:", [n["property_id"] for n in na])
