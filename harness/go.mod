module cedarverif/harness

go 1.25.0

require (
	github.com/bbockelm/cedar v0.0.0
	golang.org/x/crypto v0.53.0
)

require (
	github.com/PelicanPlatform/classad v0.4.0
	github.com/golang-jwt/jwt/v5 v5.3.0 // indirect
	github.com/hashicorp/go-uuid v1.0.3 // indirect
	github.com/jcmturner/aescts/v2 v2.0.0 // indirect
	github.com/jcmturner/dnsutils/v2 v2.0.0 // indirect
	github.com/jcmturner/gofork v1.7.6 // indirect
	github.com/jcmturner/gokrb5/v8 v8.4.4 // indirect
	github.com/jcmturner/rpc/v2 v2.0.3 // indirect
	github.com/pkg/errors v0.9.1 // indirect
	golang.org/x/net v0.55.0 // indirect
)

replace github.com/bbockelm/cedar => /repo
