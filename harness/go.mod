module cedarverif/harness

go 1.25.0

require github.com/bbockelm/cedar v0.0.0

require github.com/PelicanPlatform/classad v0.4.0 // indirect

replace github.com/bbockelm/cedar => /repo
