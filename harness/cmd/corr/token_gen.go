package main

// token_gen.go — the deviation catalogue of engine `token` (C11): a valid exchange and
// single-field deviations from it, for the scripted client (against the real server), the
// scripted server (against the real client) and VerifyIDToken.

import (
	"fmt"
	"strings"
	"time"
)

type tokenSpec struct {
	kid    string // raw JSON value of "kid" ("" = no kid member)
	claims [][2]string
}

func (t tokenSpec) hdrJSON() string {
	if t.kid == "" {
		return `{"alg":"HS256","typ":"JWT"}`
	}
	return `{"alg":"HS256","kid":` + t.kid + `,"typ":"JWT"}`
}
func (t tokenSpec) plJSON() string {
	var p []string
	for _, kv := range t.claims {
		p = append(p, fmt.Sprintf("%q:%s", kv[0], kv[1]))
	}
	return "{" + strings.Join(p, ",") + "}"
}
func (t tokenSpec) hp() string { return b64u(t.hdrJSON()) + "." + b64u(t.plJSON()) }

func (t *tokenSpec) set(name, raw string) {
	for i := range t.claims {
		if t.claims[i][0] == name {
			t.claims[i][1] = raw
			return
		}
	}
	t.claims = append(t.claims, [2]string{name, raw})
}
func (t *tokenSpec) del(name string) {
	var out [][2]string
	for _, kv := range t.claims {
		if kv[0] != name {
			out = append(out, kv)
		}
	}
	t.claims = out
}

type cfgKnobs struct {
	ks     ksSpec
	maxAge int
	envAge string
	td     string
}

// material shared by the cases of one run
type tokMat struct {
	poolFile []byte
	k1File   []byte
	k2File   []byte
	attacker []byte
}

func newTokMat(c *Ctx) *tokMat {
	// key files are binary: lengths vary from run to run (1 byte .. longer than a hash block), and some
	// begin / end with bytes that look like white space or a line end -- a loader that "tidies" the
	// file (TrimSpace, dropping a final newline) holds another key than the one that signed
	ws := []byte{' ', '\n', '\t', '\r'}
	edge := func(b []byte) []byte {
		if len(b) >= 2 {
			b[0] = ws[c.Rng.Intn(len(ws))]
			b[len(b)-1] = ws[c.Rng.Intn(len(ws))]
		}
		return b
	}
	sizes := []int{1, 7, 16, 24, 32, 33, 64, 100, 200}
	pick := func() int { return sizes[c.Rng.Intn(len(sizes))] }
	return &tokMat{poolFile: edge(randBytes(c, 32+pick())), k1File: edge(randBytes(c, 8+pick())), k2File: randBytes(c, pick()), attacker: randBytes(c, 32)}
}

func (m *tokMat) baseCfg(c *Ctx) cfgKnobs {
	tds := []string{"", "pool.example", "htc"}
	return cfgKnobs{
		ks: ksSpec{poolSet: true, pool: m.poolFile, dirSet: true, named: map[string][]byte{"k1": m.k1File, "k2": m.k2File},
			poolViaEnv: c.Rng.Intn(8) == 0, dirViaEnv: c.Rng.Intn(8) == 0},
		td: tds[c.Rng.Intn(len(tds))],
	}
}

// subjects: case, non-ASCII and inner white space must survive unchanged into the recorded identity
var tokSubs = []string{"alice@pool.example", "bob", "carol@a@b", "d@", "eve@htc", "x",
	"Alice@Pool.Example", "BOB", "mIxEd.Case@HTC", "z\u00fcrich@x", "first last@pool.example", "\u0130stanbul"}

func flipBit(c *Ctx, s string, lo, hi int) string {
	b := []byte(s)
	i := lo + c.Rng.Intn(hi-lo)
	b[i] ^= 1 << uint(c.Rng.Intn(8))
	return string(b)
}

// ---- server cases --------------------------------------------------------------------------------

type srvDev struct {
	name   string
	expect string
	pre    func(c *Ctx, m *tokMat, k *cfgKnobs)
	mut    func(g *tgen, k *srvCase)
}

type tgen struct {
	c    *Ctx
	w    *tokWorld
	m    *tokMat
	spec tokenSpec
	key  []byte // the key the token of the case is signed with
}

func (g *tgen) mint(k *srvCase) {
	k.hp = g.spec.hp()
	k.cliTok = k.hp
	k.cliSig = g.w.tb.sign(g.key, []byte(k.hp))
}

func (g *tgen) now() int64 { return time.Now().Unix() }

func jstr(s string) string { return fmt.Sprintf("%q", s) }

func baseServer(g *tgen, kn cfgKnobs) *srvCase {
	c := g.c
	sub := tokSubs[c.Rng.Intn(len(tokSubs))]
	now := g.now()
	switch c.Rng.Intn(4) {
	case 0:
		g.spec.kid = `"k1"`
	case 1:
		g.spec.kid = `"k2"`
	case 2:
		g.spec.kid = `"POOL"`
	default:
		g.spec.kid = ""
	}
	g.key = kn.ks.held(strings.Trim(g.spec.kid, `"`))
	g.spec.claims = [][2]string{{"sub", jstr(sub)}, {"iat", fmt.Sprint(now - int64(c.Rng.Intn(50)))}, {"exp", fmt.Sprint(now + 600 + int64(c.Rng.Intn(1000)))},
		{"jti", jstr(hx(randBytes(c, 4)))}}
	if c.Rng.Intn(2) == 0 {
		g.spec.claims = append(g.spec.claims, [2]string{"iss", jstr("pool.example")})
	}
	k := &srvCase{ks: kn.ks, maxAge: kn.maxAge, envAge: kn.envAge, td: kn.td, claimed: sub, ra: randBytes(c, 256), keep1: -1, keep3: -1}
	g.mint(k)
	return k
}

func rawMac(b []byte) macTerm { return macTerm{isRaw: true, raw: b} }

func honestKey(k *srvCase) keyTerm { return keyTerm{sig: k.cliSig, tok: []byte(k.cliTok)} }

func serverDeviations() []srvDev {
	setTime := func(name string, f func(now, maxAge int64) string) func(g *tgen, k *srvCase) {
		return func(g *tgen, k *srvCase) {
			g.spec.set(name, f(g.now(), effMaxAge(k.maxAge, k.envAge)))
			g.mint(k)
		}
	}
	delClaim := func(name string) func(g *tgen, k *srvCase) {
		return func(g *tgen, k *srvCase) { g.spec.del(name); g.mint(k) }
	}
	setRaw := func(name, raw string) func(g *tgen, k *srvCase) {
		return func(g *tgen, k *srvCase) { g.spec.set(name, raw); g.mint(k) }
	}
	kid := func(raw string, key func(g *tgen, k *srvCase) []byte) func(g *tgen, k *srvCase) {
		return func(g *tgen, k *srvCase) {
			g.spec.kid = raw
			if key != nil {
				g.key = key(g, k)
			}
			g.mint(k)
		}
	}
	mac := func(f func(w *tokWorld, k *srvCase, m2 *parsedM2, id string, rb []byte) macTerm) func(g *tgen, k *srvCase) {
		return func(g *tgen, k *srvCase) { k.mac3 = f }
	}
	wireTok := func(f func(g *tgen, hp string) string) func(g *tgen, k *srvCase) {
		return func(g *tgen, k *srvCase) { k.hp = f(g, k.hp) }
	}
	return []srvDev{
		{name: "valid", expect: "accept"},
		{name: "valid-frames-cut", expect: "accept", mut: func(g *tgen, k *srvCase) { k.cut1, k.cut3 = true, true }},
		// --- the token
		{name: "tok-bitflip-header", expect: "reject", mut: wireTok(func(g *tgen, hp string) string { return flipBit(g.c, hp, 0, strings.Index(hp, ".")) })},
		{name: "tok-bitflip-payload", expect: "reject", mut: wireTok(func(g *tgen, hp string) string { return flipBit(g.c, hp, strings.Index(hp, ".")+1, len(hp)) })},
		{name: "sig-bitflip", expect: "reject", mut: func(g *tgen, k *srvCase) {
			b := k.cliSig.bytes()
			b[g.c.Rng.Intn(len(b))] ^= 1 << uint(g.c.Rng.Intn(8))
			k.cliSig = sigTerm{raw: b}
		}},
		{name: "sig-truncated", expect: "reject", mut: func(g *tgen, k *srvCase) { k.cliSig = sigTerm{raw: safeTrunc(k.cliSig.bytes(), 31)} }},
		{name: "sig-empty", expect: "reject", mut: func(g *tgen, k *srvCase) { k.cliSig = sigTerm{raw: nil} }},
		{name: "signed-by-unknown-key", expect: "reject", mut: func(g *tgen, k *srvCase) { g.key = g.m.attacker; g.mint(k) }},
		{name: "signed-by-other-held-key", expect: "reject", mut: func(g *tgen, k *srvCase) {
			g.spec.kid = `"k1"`
			g.key = k.ks.held("k2")
			g.mint(k)
		}},
		{name: "pool-token-named-k1", expect: "reject", mut: func(g *tgen, k *srvCase) {
			g.spec.kid = `"k1"`
			g.key = k.ks.held("POOL")
			g.mint(k)
		}},
		{name: "pool-key-not-doubled", expect: "reject", mut: func(g *tgen, k *srvCase) {
			g.spec.kid = ""
			g.key = refScramble(k.ks.pool)
			g.mint(k)
		}},
		{name: "kid-unknown", expect: "reject", mut: kid(`"nokey"`, func(g *tgen, k *srvCase) []byte { return g.m.attacker })},
		{name: "kid-empty-string", expect: "accept", mut: kid(`""`, func(g *tgen, k *srvCase) []byte { return k.ks.held("POOL") })},
		{name: "kid-number", expect: "reject", mut: kid(`7`, func(g *tgen, k *srvCase) []byte { return k.ks.held("POOL") })},
		{name: "kid-null", expect: "reject", mut: kid(`null`, func(g *tgen, k *srvCase) []byte { return k.ks.held("POOL") })},
		{name: "kid-path-dotdot", expect: "reject", pre: func(c *Ctx, m *tokMat, kn *cfgKnobs) { kn.ks.named["../d/k1"] = m.k1File },
			mut: kid(`"../d/k1"`, func(g *tgen, k *srvCase) []byte { return refScramble(g.m.k1File) })},
		{name: "kid-path-slash", expect: "reject", pre: func(c *Ctx, m *tokMat, kn *cfgKnobs) { kn.ks.named["sub/k1"] = m.k1File },
			mut: kid(`"sub/k1"`, func(g *tgen, k *srvCase) []byte { return refScramble(g.m.k1File) })},
		{name: "kid-dotdot-name", expect: "reject", pre: func(c *Ctx, m *tokMat, kn *cfgKnobs) { kn.ks.named["k..1"] = m.k1File },
			mut: kid(`"k..1"`, func(g *tgen, k *srvCase) []byte { return refScramble(g.m.k1File) })},
		{name: "pool-unreadable", expect: "reject", pre: func(c *Ctx, m *tokMat, kn *cfgKnobs) { kn.ks.pool = nil },
			mut: kid(``, func(g *tgen, k *srvCase) []byte { return g.m.attacker })},
		{name: "pool-file-empty", expect: "reject", pre: func(c *Ctx, m *tokMat, kn *cfgKnobs) { kn.ks.pool = []byte{} },
			mut: kid(``, func(g *tgen, k *srvCase) []byte { return []byte{} })},
		{name: "pool-not-configured", expect: "reject", pre: func(c *Ctx, m *tokMat, kn *cfgKnobs) { kn.ks.poolSet = false },
			mut: kid(``, func(g *tgen, k *srvCase) []byte { u := refScramble(g.m.poolFile); return append(u, u...) })},
		{name: "dir-not-configured", expect: "reject", pre: func(c *Ctx, m *tokMat, kn *cfgKnobs) { kn.ks.dirSet = false },
			mut: kid(`"k1"`, func(g *tgen, k *srvCase) []byte { return refScramble(g.m.k1File) })},
		{name: "named-file-empty", expect: "reject", pre: func(c *Ctx, m *tokMat, kn *cfgKnobs) { kn.ks.named["k1"] = []byte{} },
			mut: kid(`"k1"`, func(g *tgen, k *srvCase) []byte { return []byte{} })},
		// --- expiry
		{name: "exp-one-second-ago", expect: "reject", mut: setTime("exp", func(n, _ int64) string { return fmt.Sprint(n - 1) })},
		{name: "exp-now", expect: "reject", mut: setTime("exp", func(n, _ int64) string { return fmt.Sprint(n) })},
		{name: "exp-now-plus-1", mut: setTime("exp", func(n, _ int64) string { return fmt.Sprint(n + 1) })},
		{name: "exp-now-plus-2", mut: setTime("exp", func(n, _ int64) string { return fmt.Sprint(n + 2) })},
		{name: "exp-fraction", mut: setTime("exp", func(n, _ int64) string { return fmt.Sprintf("%d.75", n) })},
		{name: "exp-fraction-next", mut: setTime("exp", func(n, _ int64) string { return fmt.Sprintf("%d.25", n+1) })},
		{name: "exp-absent", expect: "accept", mut: delClaim("exp")},
		{name: "exp-string", expect: "reject", mut: setTime("exp", func(n, _ int64) string { return jstr(fmt.Sprint(n + 600)) })},
		{name: "exp-null", expect: "reject", mut: setRaw("exp", "null")},
		{name: "exp-zero", expect: "reject", mut: setRaw("exp", "0")},
		{name: "exp-negative", expect: "reject", mut: setRaw("exp", "-5")},
		{name: "exp-exponent-form", expect: "accept", mut: setRaw("exp", "4e9")},
		// --- age
		{name: "iat-age-max", expect: "", mut: setTime("iat", func(n, a int64) string { return fmt.Sprint(n - a) })},
		{name: "iat-age-max-plus-1", expect: "reject", mut: setTime("iat", func(n, a int64) string { return fmt.Sprint(n - a - 1) })},
		{name: "iat-age-max-minus-1", expect: "", mut: setTime("iat", func(n, a int64) string { return fmt.Sprint(n - a + 1) })},
		{name: "iat-very-old", expect: "reject", mut: setRaw("iat", "1000")},
		{name: "iat-future", expect: "accept", mut: setTime("iat", func(n, a int64) string { return fmt.Sprint(n + 500) })},
		// nbf ("not before"): the token's validity has not begun / begins now / began earlier
		{name: "nbf-future", expect: "reject", mut: setTime("nbf", func(n, _ int64) string { return fmt.Sprint(n + 120) })},
		{name: "nbf-next-second-but-one", mut: setTime("nbf", func(n, _ int64) string { return fmt.Sprint(n + 2) })},
		{name: "nbf-now", mut: setTime("nbf", func(n, _ int64) string { return fmt.Sprint(n) })},
		{name: "nbf-past", expect: "accept", mut: setTime("nbf", func(n, _ int64) string { return fmt.Sprint(n - 30) })},
		{name: "nbf-string", expect: "reject", mut: setRaw("nbf", `"17"`)},
		{name: "nbf-far-future-exponent", expect: "reject", mut: setRaw("nbf", "4e9")},
		// numbers of seconds beyond int64: not timestamps (the library's int64(float64) of them is implementation-defined)
		{name: "nbf-beyond-int64", expect: "reject", mut: setRaw("nbf", "1e300")},
		{name: "exp-beyond-int64", expect: "reject", mut: setRaw("exp", "1e300")},
		{name: "iat-beyond-int64", expect: "reject", mut: setRaw("iat", "1e300")},
		{name: "iat-absent", expect: "accept", mut: delClaim("iat")},
		{name: "iat-string", expect: "reject", mut: setRaw("iat", `"now"`)},
		{name: "iat-bool", expect: "reject", mut: setRaw("iat", `true`)},
		{name: "maxage-config-100-boundary", pre: func(c *Ctx, m *tokMat, kn *cfgKnobs) { kn.maxAge = 100 },
			mut: setTime("iat", func(n, a int64) string { return fmt.Sprint(n - 100) })},
		{name: "maxage-config-100-exceeded", expect: "reject", pre: func(c *Ctx, m *tokMat, kn *cfgKnobs) { kn.maxAge = 100 },
			mut: setTime("iat", func(n, a int64) string { return fmt.Sprint(n - 102) })},
		{name: "maxage-env-50-exceeded", expect: "reject", pre: func(c *Ctx, m *tokMat, kn *cfgKnobs) { kn.envAge = "50" },
			mut: setTime("iat", func(n, a int64) string { return fmt.Sprint(n - 52) })},
		{name: "maxage-env-50-within", expect: "accept", pre: func(c *Ctx, m *tokMat, kn *cfgKnobs) { kn.envAge = "50" },
			mut: setTime("iat", func(n, a int64) string { return fmt.Sprint(n - 40) })},
		{name: "maxage-env-unparsable-default-hour", expect: "reject", pre: func(c *Ctx, m *tokMat, kn *cfgKnobs) { kn.envAge = "soon" },
			mut: setTime("iat", func(n, a int64) string { return fmt.Sprint(n - 3602) })},
		{name: "maxage-config-overrides-env", expect: "reject", pre: func(c *Ctx, m *tokMat, kn *cfgKnobs) { kn.maxAge, kn.envAge = 30, "5000" },
			mut: setTime("iat", func(n, a int64) string { return fmt.Sprint(n - 32) })},
		// --- subject / identity
		{name: "sub-absent-identity-claimed", expect: "reject", mut: func(g *tgen, k *srvCase) { g.spec.del("sub"); k.claimed = "mallory@evil"; g.mint(k) }},
		{name: "sub-absent-claimed-empty", expect: "reject", mut: func(g *tgen, k *srvCase) { g.spec.del("sub"); k.claimed = ""; g.mint(k) }},
		{name: "sub-empty-string", expect: "reject", mut: setRaw("sub", `""`)},
		{name: "sub-number", expect: "reject", mut: setRaw("sub", `12`)},
		{name: "sub-null", expect: "reject", mut: setRaw("sub", `null`)},
		{name: "claimed-id-differs", expect: "accept", mut: func(g *tgen, k *srvCase) { k.claimed = "root@pool.example" }},
		{name: "claimed-id-empty", expect: "accept", mut: func(g *tgen, k *srvCase) { k.claimed = "" }},
		{name: "claimed-id-differs-used-in-m3", expect: "reject", mut: func(g *tgen, k *srvCase) {
			k.claimed = "root@pool.example"
			k.id3 = func(k *srvCase, m2 *parsedM2) string { return k.claimed }
		}},
		// --- token shape
		{name: "tok-empty", expect: "reject", mut: wireTok(func(g *tgen, hp string) string { return "" })},
		{name: "tok-one-part", expect: "reject", mut: wireTok(func(g *tgen, hp string) string { return strings.Split(hp, ".")[0] })},
		{name: "tok-with-signature-part", expect: "reject", mut: func(g *tgen, k *srvCase) { k.hp = k.hp + "." + b64u(string(k.cliSig.bytes())) }},
		{name: "tok-header-not-base64", expect: "reject", mut: wireTok(func(g *tgen, hp string) string { return "!" + hp })},
		{name: "tok-header-not-json", expect: "reject", mut: wireTok(func(g *tgen, hp string) string { return b64u("nojson") + hp[strings.Index(hp, "."):] })},
		{name: "tok-header-json-array", expect: "reject", mut: wireTok(func(g *tgen, hp string) string { return b64u(`["k1"]`) + hp[strings.Index(hp, "."):] })},
		{name: "tok-payload-not-base64", expect: "reject", mut: wireTok(func(g *tgen, hp string) string { return hp + "*" })},
		{name: "tok-payload-not-json", expect: "reject", mut: wireTok(func(g *tgen, hp string) string { return hp[:strings.Index(hp, ".")+1] + b64u("{") })},
		// --- message 1
		{name: "m1-status-abort", expect: "reject", mut: func(g *tgen, k *srvCase) { k.st1 = 1 }},
		{name: "m1-status-error", expect: "reject", mut: func(g *tgen, k *srvCase) { k.st1 = -1 }},
		{name: "m1-status-other", expect: "reject", mut: func(g *tgen, k *srvCase) { k.st1 = int64(2 + g.c.Rng.Intn(1000)) }},
		{name: "m1-status-high-bits", expect: "reject", mut: func(g *tgen, k *srvCase) { k.st1 = 1 << 32 }},
		{name: "m1-trailing-byte", expect: "reject", mut: func(g *tgen, k *srvCase) { k.trail1 = []byte{0} }},
		{name: "m1-trailing-bytes", expect: "reject", mut: func(g *tgen, k *srvCase) { k.trail1 = randBytes(g.c, 1+g.c.Rng.Intn(20)) }},
		{name: "m1-no-eom", expect: "reject", mut: func(g *tgen, k *srvCase) { k.noEOM1 = true }},
		{name: "m1-truncated", expect: "reject", mut: func(g *tgen, k *srvCase) { k.keep1 = g.c.Rng.Intn(len(k.buildM1(g.c).payload)) }},
		{name: "ra-257", expect: "reject", mut: func(g *tgen, k *srvCase) { k.ra = randBytes(g.c, 257) }},
		{name: "ra-empty", expect: "accept", mut: func(g *tgen, k *srvCase) { k.ra = nil }},
		{name: "ra-short", expect: "accept", mut: func(g *tgen, k *srvCase) { k.ra = randBytes(g.c, 1+g.c.Rng.Intn(16)) }},
		{name: "ra-length-understated", expect: "reject", mut: func(g *tgen, k *srvCase) { k.raLenDelta = -1 }},
		{name: "ra-length-overstated", expect: "reject", mut: func(g *tgen, k *srvCase) { k.raLenDelta = 1 }},
		{name: "ra-length-negative", expect: "reject", mut: func(g *tgen, k *srvCase) { k.raLenDelta = -1000 }},
		{name: "id-length-understated", expect: "reject", mut: func(g *tgen, k *srvCase) { k.idLenDelta = -1 }},
		{name: "id-length-overstated", expect: "reject", mut: func(g *tgen, k *srvCase) { k.idLenDelta = 1 }},
		{name: "id-1023", expect: "accept", mut: func(g *tgen, k *srvCase) { k.claimed = strings.Repeat("a", 1023) }},
		{name: "id-1024", expect: "reject", mut: func(g *tgen, k *srvCase) { k.claimed = strings.Repeat("a", 1024) }},
		{name: "id-1025", expect: "reject", mut: func(g *tgen, k *srvCase) { k.claimed = strings.Repeat("a", 1025) }},
		// --- message 3
		{name: "m3-status-abort", expect: "reject", mut: func(g *tgen, k *srvCase) { k.st3 = 1 }},
		{name: "m3-status-error", expect: "reject", mut: func(g *tgen, k *srvCase) { k.st3 = -1 }},
		{name: "m3-status-other", expect: "reject", mut: func(g *tgen, k *srvCase) { k.st3 = int64(2 + g.c.Rng.Intn(1000)) }},
		{name: "m3-id-other", expect: "reject", mut: func(g *tgen, k *srvCase) { k.id3 = func(k *srvCase, m2 *parsedM2) string { return m2.id + "x" } }},
		{name: "m3-id-empty", expect: "reject", mut: func(g *tgen, k *srvCase) { k.id3 = func(k *srvCase, m2 *parsedM2) string { return "" } }},
		{name: "m3-id-length-mismatch", expect: "reject", mut: func(g *tgen, k *srvCase) { k.idLenDelta3 = 1 }},
		{name: "rb-echo-bitflip", expect: "reject", mut: func(g *tgen, k *srvCase) {
			k.rb3 = func(rb []byte) []byte {
				if len(rb) > 0 {
					rb[g.c.Rng.Intn(len(rb))] ^= 1 << uint(g.c.Rng.Intn(8))
				}
				return rb
			}
		}},
		{name: "rb-echo-truncated", expect: "reject", mut: func(g *tgen, k *srvCase) {
			k.rb3 = func(rb []byte) []byte {
				if len(rb) > 0 {
					return rb[:len(rb)-1]
				}
				return rb
			}
		}},
		{name: "rb-echo-empty", expect: "reject", mut: func(g *tgen, k *srvCase) { k.rb3 = func(rb []byte) []byte { return nil } }},
		{name: "rb-echo-extended", expect: "reject", mut: func(g *tgen, k *srvCase) { k.rb3 = func(rb []byte) []byte { return append(rb, 0) } }},
		{name: "rb-echo-is-ra", expect: "reject", mut: func(g *tgen, k *srvCase) { k.rb3 = func(rb []byte) []byte { return k.ra } }},
		// the echo alone is wrong, the proof is the genuine one (over the server's real RB / the subject)
		{name: "rb-echo-bitflip-proof-genuine", expect: "reject", mut: func(g *tgen, k *srvCase) {
			var real []byte
			k.rb3 = func(rb []byte) []byte {
				real = append([]byte{}, rb...)
				if len(rb) > 0 {
					rb[g.c.Rng.Intn(len(rb))] ^= 1 << uint(g.c.Rng.Intn(8))
				}
				return rb
			}
			k.mac3 = func(w *tokWorld, k *srvCase, m2 *parsedM2, id string, rb []byte) macTerm {
				return w.tb.hmac(honestKey(k), macMsg3(id, real))
			}
		}},
		{name: "rb-echo-empty-proof-genuine", expect: "reject", mut: func(g *tgen, k *srvCase) {
			var real []byte
			k.rb3 = func(rb []byte) []byte { real = append([]byte{}, rb...); return nil }
			k.mac3 = func(w *tokWorld, k *srvCase, m2 *parsedM2, id string, rb []byte) macTerm {
				return w.tb.hmac(honestKey(k), macMsg3(id, real))
			}
		}},
		{name: "m3-id-other-proof-genuine", expect: "reject", mut: func(g *tgen, k *srvCase) {
			k.id3 = func(k *srvCase, m2 *parsedM2) string { return m2.id + "x" }
			k.mac3 = func(w *tokWorld, k *srvCase, m2 *parsedM2, id string, rb []byte) macTerm {
				return w.tb.hmac(honestKey(k), macMsg3(m2.id, rb))
			}
		}},
		{name: "rb-length-overstated", expect: "reject", mut: func(g *tgen, k *srvCase) { k.rbLenDelta = 1 }},
		{name: "rb-length-understated", expect: "reject", mut: func(g *tgen, k *srvCase) { k.rbLenDelta = -1 }},
		{name: "mac-bitflip", expect: "reject", mut: mac(func(w *tokWorld, k *srvCase, m2 *parsedM2, id string, rb []byte) macTerm {
			b := refMAC(honestKey(k).bytes(), macMsg3(id, rb))
			b[w.c.Rng.Intn(len(b))] ^= 1 << uint(w.c.Rng.Intn(8))
			return rawMac(b)
		})},
		{name: "mac-truncated", expect: "reject", mut: mac(func(w *tokWorld, k *srvCase, m2 *parsedM2, id string, rb []byte) macTerm {
			b := refMAC(honestKey(k).bytes(), macMsg3(id, rb))
			return rawMac(b[:1+w.c.Rng.Intn(len(b)-1)])
		})},
		{name: "mac-extended", expect: "reject", mut: mac(func(w *tokWorld, k *srvCase, m2 *parsedM2, id string, rb []byte) macTerm {
			return rawMac(append(refMAC(honestKey(k).bytes(), macMsg3(id, rb)), 0))
		})},
		{name: "mac-empty", expect: "reject", mut: mac(func(w *tokWorld, k *srvCase, m2 *parsedM2, id string, rb []byte) macTerm { return rawMac(nil) })},
		{name: "mac-random", expect: "reject", mut: mac(func(w *tokWorld, k *srvCase, m2 *parsedM2, id string, rb []byte) macTerm {
			return rawMac(randBytes(w.c, 20))
		})},
		{name: "mac-nil-key", expect: "reject", mut: mac(func(w *tokWorld, k *srvCase, m2 *parsedM2, id string, rb []byte) macTerm {
			return w.tb.hmac(keyTerm{nilKey: true}, macMsg3(id, rb))
		})},
		{name: "mac-key-from-other-signature", expect: "reject", mut: mac(func(w *tokWorld, k *srvCase, m2 *parsedM2, id string, rb []byte) macTerm {
			return w.tb.hmac(keyTerm{sig: w.tb.sign(randBytes(w.c, 32), []byte(k.cliTok)), tok: []byte(k.cliTok)}, macMsg3(id, rb))
		})},
		{name: "mac-key-is-signature-itself", expect: "reject", mut: mac(func(w *tokWorld, k *srvCase, m2 *parsedM2, id string, rb []byte) macTerm {
			return rawMac(refMAC(k.cliSig.bytes(), macMsg3(id, rb)))
		})},
		{name: "mac-key-derived-with-other-token", expect: "reject", mut: mac(func(w *tokWorld, k *srvCase, m2 *parsedM2, id string, rb []byte) macTerm {
			return w.tb.hmac(keyTerm{sig: k.cliSig, tok: []byte(k.cliTok + "A")}, macMsg3(id, rb))
		})},
		{name: "mac-over-message2-layout", expect: "reject", mut: mac(func(w *tokWorld, k *srvCase, m2 *parsedM2, id string, rb []byte) macTerm {
			return w.tb.hmac(honestKey(k), macMsg2(id, m2.sid, m2.ra, rb))
		})},
		{name: "mac-reflected-from-message2", expect: "reject", mut: mac(func(w *tokWorld, k *srvCase, m2 *parsedM2, id string, rb []byte) macTerm {
			return w.tb.macOfBytes(m2.mac)
		})},
		{name: "mac-over-other-rb", expect: "reject", mut: mac(func(w *tokWorld, k *srvCase, m2 *parsedM2, id string, rb []byte) macTerm {
			return w.tb.hmac(honestKey(k), macMsg3(id, randBytes(w.c, len(rb))))
		})},
		{name: "mac-over-other-id", expect: "reject", mut: mac(func(w *tokWorld, k *srvCase, m2 *parsedM2, id string, rb []byte) macTerm {
			return w.tb.hmac(honestKey(k), macMsg3(id+"x", rb))
		})},
		{name: "mac-without-separator", expect: "reject", mut: mac(func(w *tokWorld, k *srvCase, m2 *parsedM2, id string, rb []byte) macTerm {
			return w.tb.hmac(honestKey(k), append([]byte(id), rb...))
		})},
		{name: "mac-length-overstated", expect: "reject", mut: func(g *tgen, k *srvCase) { k.macLenDelta = 1 }},
		{name: "mac-length-understated", expect: "reject", mut: func(g *tgen, k *srvCase) { k.macLenDelta = -1 }},
		{name: "mac-length-huge", expect: "reject", mut: func(g *tgen, k *srvCase) { k.macLenDelta = 1 << 40 }},
		{name: "m3-trailing-byte", expect: "reject", mut: func(g *tgen, k *srvCase) { k.trail3 = []byte{0} }},
		{name: "m3-trailing-bytes", expect: "reject", mut: func(g *tgen, k *srvCase) { k.trail3 = randBytes(g.c, 1+g.c.Rng.Intn(20)) }},
		{name: "m3-no-eom", expect: "reject", mut: func(g *tgen, k *srvCase) { k.noEOM3 = true }},
		{name: "m3-truncated", expect: "reject", mut: func(g *tgen, k *srvCase) { k.keep3 = g.c.Rng.Intn(300) }},
		{name: "m3-missing", expect: "reject", mut: func(g *tgen, k *srvCase) { k.skip3 = true }},
	}
}

// proofs a client that never saw a valid signature can compute once message 1 has been refused:
// everything the server would compare against is then public (empty key, no nonce)
func nullKeyM3(g *tgen, k *srvCase) {
	k.id3 = func(k *srvCase, m2 *parsedM2) string { return k.claimed }
	k.rb3 = func(rb []byte) []byte { return nil }
	k.mac3 = func(w *tokWorld, k *srvCase, m2 *parsedM2, id string, rb []byte) macTerm {
		return w.tb.hmac(keyTerm{nilKey: true}, macMsg3(id, nil))
	}
}

// ---- client cases --------------------------------------------------------------------------------

type cliDev struct {
	name   string
	expect string
	mut    func(g *tgen, k *cliCase)
}

func b64raw(b []byte) string { return b64u(string(b)) }

func baseClient(g *tgen, kn cfgKnobs) *cliCase {
	c := g.c
	tmp := baseServer(g, kn) // mints the token, sets g.key
	key := g.key
	k := &cliCase{tokenStr: tmp.hp + "." + b64raw(tmp.cliSig.bytes()), usable: true, keep2: -1,
		sid: "server@" + map[bool]string{true: "htcondor", false: kn.td}[kn.td == ""], rb: randBytes(c, 256)}
	k.srvSig = func(w *tokWorld, k *cliCase, m1 *parsedM1) sigTerm { return w.tb.sign(key, []byte(m1.tok)) }
	return k
}

func clientDeviations() []cliDev {
	type macF = func(w *tokWorld, k *cliCase, sg sigTerm, m1 *parsedM1, id, sid string, ra, rb []byte) macTerm
	mac := func(f macF) func(g *tgen, k *cliCase) { return func(g *tgen, k *cliCase) { k.mac2 = f } }
	hk := func(sg sigTerm, m1 *parsedM1) keyTerm { return keyTerm{sig: sg, tok: []byte(m1.tok)} }
	flip := func(c *Ctx, b []byte) []byte {
		if len(b) > 0 {
			b[c.Rng.Intn(len(b))] ^= 1 << uint(c.Rng.Intn(8))
		}
		return b
	}
	return []cliDev{
		{name: "valid", expect: "accept"},
		{name: "valid-frames-cut", expect: "accept", mut: func(g *tgen, k *cliCase) { k.cut2 = true }},
		{name: "m2-trailing-bytes-tolerated", expect: "accept", mut: func(g *tgen, k *cliCase) { k.trail2 = randBytes(g.c, 1+g.c.Rng.Intn(9)) }},
		{name: "m2-no-eom-tolerated", expect: "accept", mut: func(g *tgen, k *cliCase) { k.noEOM2 = true }},
		{name: "m2-status-abort", expect: "reject", mut: func(g *tgen, k *cliCase) { k.st2 = 1 }},
		{name: "m2-status-error", expect: "reject", mut: func(g *tgen, k *cliCase) { k.st2 = -1 }},
		{name: "m2-status-other", expect: "reject", mut: func(g *tgen, k *cliCase) { k.st2 = int64(2 + g.c.Rng.Intn(1000)) }},
		{name: "id-echo-other", expect: "reject", mut: func(g *tgen, k *cliCase) { k.idEcho = func(id string) string { return id + "x" } }},
		{name: "id-echo-empty", expect: "reject", mut: func(g *tgen, k *cliCase) { k.idEcho = func(id string) string { return "" } }},
		{name: "id-echo-length-mismatch", expect: "reject", mut: func(g *tgen, k *cliCase) { k.idLenDelta = -1 }},
		{name: "server-id-other", expect: "accept", mut: func(g *tgen, k *cliCase) { k.sid = "whoever@elsewhere" }},
		{name: "server-id-empty", expect: "accept", mut: func(g *tgen, k *cliCase) { k.sid = "" }},
		{name: "server-id-length-mismatch", expect: "reject", mut: func(g *tgen, k *cliCase) { k.sidLenDelta = 1 }},
		{name: "server-id-1024", expect: "reject", mut: func(g *tgen, k *cliCase) { k.sid = strings.Repeat("s", 1024) }},
		{name: "ra-echo-bitflip", expect: "reject", mut: func(g *tgen, k *cliCase) { k.raEcho = func(ra []byte) []byte { return flip(g.c, ra) } }},
		{name: "ra-echo-truncated", expect: "reject", mut: func(g *tgen, k *cliCase) {
			k.raEcho = func(ra []byte) []byte {
				if len(ra) == 0 {
					return []byte{1}
				}
				return ra[:len(ra)-1]
			}
		}},
		{name: "ra-echo-empty", expect: "reject", mut: func(g *tgen, k *cliCase) { k.raEcho = func(ra []byte) []byte { return nil } }},
		{name: "ra-echo-extended", expect: "reject", mut: func(g *tgen, k *cliCase) { k.raEcho = func(ra []byte) []byte { return append(ra, 7) } }},
		{name: "ra-echo-is-rb", expect: "reject", mut: func(g *tgen, k *cliCase) { k.raEcho = func(ra []byte) []byte { return k.rb } }},
		// the echo alone is wrong, the proof is the genuine one (over the client's real RA / id)
		{name: "ra-echo-empty-proof-genuine", expect: "reject", mut: func(g *tgen, k *cliCase) {
			k.raEcho = func(ra []byte) []byte { return nil }
			k.mac2 = func(w *tokWorld, k *cliCase, sg sigTerm, m1 *parsedM1, id, sid string, ra, rb []byte) macTerm {
				return w.tb.hmac(hk(sg, m1), macMsg2(id, sid, m1.ra, rb))
			}
		}},
		{name: "ra-echo-bitflip-proof-genuine", expect: "reject", mut: func(g *tgen, k *cliCase) {
			k.raEcho = func(ra []byte) []byte { return flip(g.c, ra) }
			k.mac2 = func(w *tokWorld, k *cliCase, sg sigTerm, m1 *parsedM1, id, sid string, ra, rb []byte) macTerm {
				return w.tb.hmac(hk(sg, m1), macMsg2(id, sid, m1.ra, rb))
			}
		}},
		{name: "id-echo-other-proof-genuine", expect: "reject", mut: func(g *tgen, k *cliCase) {
			k.idEcho = func(id string) string { return id + "x" }
			k.mac2 = func(w *tokWorld, k *cliCase, sg sigTerm, m1 *parsedM1, id, sid string, ra, rb []byte) macTerm {
				return w.tb.hmac(hk(sg, m1), macMsg2(m1.id, sid, ra, rb))
			}
		}},
		{name: "ra-length-overstated", expect: "reject", mut: func(g *tgen, k *cliCase) { k.raLenDelta = 1 }},
		{name: "ra-length-understated", expect: "reject", mut: func(g *tgen, k *cliCase) { k.raLenDelta = -1 }},
		{name: "rb-empty", expect: "accept", mut: func(g *tgen, k *cliCase) { k.rb = nil }},
		{name: "rb-short", expect: "accept", mut: func(g *tgen, k *cliCase) { k.rb = randBytes(g.c, 1+g.c.Rng.Intn(16)) }},
		{name: "rb-257", expect: "reject", mut: func(g *tgen, k *cliCase) { k.rb = randBytes(g.c, 257) }},
		{name: "rb-length-overstated", expect: "reject", mut: func(g *tgen, k *cliCase) { k.rbLenDelta = 1 }},
		{name: "rb-length-understated", expect: "reject", mut: func(g *tgen, k *cliCase) { k.rbLenDelta = -1 }},
		{name: "mac-bitflip", expect: "reject", mut: mac(func(w *tokWorld, k *cliCase, sg sigTerm, m1 *parsedM1, id, sid string, ra, rb []byte) macTerm {
			return rawMac(flip(w.c, refMAC(hk(sg, m1).bytes(), macMsg2(id, sid, ra, rb))))
		})},
		{name: "mac-truncated", expect: "reject", mut: mac(func(w *tokWorld, k *cliCase, sg sigTerm, m1 *parsedM1, id, sid string, ra, rb []byte) macTerm {
			b := refMAC(hk(sg, m1).bytes(), macMsg2(id, sid, ra, rb))
			return rawMac(b[:1+w.c.Rng.Intn(len(b)-1)])
		})},
		{name: "mac-extended", expect: "reject", mut: mac(func(w *tokWorld, k *cliCase, sg sigTerm, m1 *parsedM1, id, sid string, ra, rb []byte) macTerm {
			return rawMac(append(refMAC(hk(sg, m1).bytes(), macMsg2(id, sid, ra, rb)), 0))
		})},
		{name: "mac-empty", expect: "reject", mut: mac(func(w *tokWorld, k *cliCase, sg sigTerm, m1 *parsedM1, id, sid string, ra, rb []byte) macTerm {
			return rawMac(nil)
		})},
		{name: "mac-random", expect: "reject", mut: mac(func(w *tokWorld, k *cliCase, sg sigTerm, m1 *parsedM1, id, sid string, ra, rb []byte) macTerm {
			return rawMac(randBytes(w.c, 20))
		})},
		{name: "mac-nil-key", expect: "reject", mut: mac(func(w *tokWorld, k *cliCase, sg sigTerm, m1 *parsedM1, id, sid string, ra, rb []byte) macTerm {
			return w.tb.hmac(keyTerm{nilKey: true}, macMsg2(id, sid, ra, rb))
		})},
		{name: "server-holds-other-key", expect: "reject", mut: func(g *tgen, k *cliCase) {
			other := randBytes(g.c, 32)
			k.srvSig = func(w *tokWorld, k *cliCase, m1 *parsedM1) sigTerm { return w.tb.sign(other, []byte(m1.tok)) }
		}},
		{name: "server-signature-bitflip", expect: "reject", mut: func(g *tgen, k *cliCase) {
			old := k.srvSig
			k.srvSig = func(w *tokWorld, k *cliCase, m1 *parsedM1) sigTerm {
				return sigTerm{raw: flip(w.c, old(w, k, m1).bytes())}
			}
		}},
		{name: "mac-key-is-signature-itself", expect: "reject", mut: mac(func(w *tokWorld, k *cliCase, sg sigTerm, m1 *parsedM1, id, sid string, ra, rb []byte) macTerm {
			return rawMac(refMAC(sg.bytes(), macMsg2(id, sid, ra, rb)))
		})},
		{name: "mac-key-derived-with-other-token", expect: "reject", mut: mac(func(w *tokWorld, k *cliCase, sg sigTerm, m1 *parsedM1, id, sid string, ra, rb []byte) macTerm {
			return w.tb.hmac(keyTerm{sig: sg, tok: []byte(m1.tok + "A")}, macMsg2(id, sid, ra, rb))
		})},
		{name: "mac-over-message3-layout", expect: "reject", mut: mac(func(w *tokWorld, k *cliCase, sg sigTerm, m1 *parsedM1, id, sid string, ra, rb []byte) macTerm {
			return w.tb.hmac(hk(sg, m1), macMsg3(id, rb))
		})},
		{name: "mac-over-other-ra", expect: "reject", mut: mac(func(w *tokWorld, k *cliCase, sg sigTerm, m1 *parsedM1, id, sid string, ra, rb []byte) macTerm {
			return w.tb.hmac(hk(sg, m1), macMsg2(id, sid, randBytes(w.c, len(ra)), rb))
		})},
		{name: "mac-over-other-rb", expect: "reject", mut: mac(func(w *tokWorld, k *cliCase, sg sigTerm, m1 *parsedM1, id, sid string, ra, rb []byte) macTerm {
			return w.tb.hmac(hk(sg, m1), macMsg2(id, sid, ra, randBytes(w.c, 256)))
		})},
		{name: "mac-nonces-swapped", expect: "reject", mut: mac(func(w *tokWorld, k *cliCase, sg sigTerm, m1 *parsedM1, id, sid string, ra, rb []byte) macTerm {
			return w.tb.hmac(hk(sg, m1), macMsg2(id, sid, rb, ra))
		})},
		{name: "mac-over-other-server-id", expect: "reject", mut: mac(func(w *tokWorld, k *cliCase, sg sigTerm, m1 *parsedM1, id, sid string, ra, rb []byte) macTerm {
			return w.tb.hmac(hk(sg, m1), macMsg2(id, sid+"x", ra, rb))
		})},
		{name: "mac-over-other-client-id", expect: "reject", mut: mac(func(w *tokWorld, k *cliCase, sg sigTerm, m1 *parsedM1, id, sid string, ra, rb []byte) macTerm {
			return w.tb.hmac(hk(sg, m1), macMsg2(id+"x", sid, ra, rb))
		})},
		{name: "mac-ids-swapped", expect: "reject", mut: mac(func(w *tokWorld, k *cliCase, sg sigTerm, m1 *parsedM1, id, sid string, ra, rb []byte) macTerm {
			return w.tb.hmac(hk(sg, m1), macMsg2(sid, id, ra, rb))
		})},
		{name: "mac-without-separators", expect: "reject", mut: mac(func(w *tokWorld, k *cliCase, sg sigTerm, m1 *parsedM1, id, sid string, ra, rb []byte) macTerm {
			return w.tb.hmac(hk(sg, m1), append(append(append([]byte(id), sid...), ra...), rb...))
		})},
		{name: "mac-length-overstated", expect: "reject", mut: func(g *tgen, k *cliCase) { k.macLenDelta = 1 }},
		{name: "mac-length-understated", expect: "reject", mut: func(g *tgen, k *cliCase) { k.macLenDelta = -1 }},
		{name: "m2-truncated", expect: "reject", mut: func(g *tgen, k *cliCase) { k.keep2 = g.c.Rng.Intn(560) }},
		{name: "m2-missing", expect: "reject", mut: func(g *tgen, k *cliCase) { k.skip2 = true }},
		// the client's own token
		{name: "client-signature-bitflip", expect: "reject", mut: func(g *tgen, k *cliCase) {
			p := strings.Split(k.tokenStr, ".")
			sb, _ := b64dec(p[2])
			k.tokenStr = p[0] + "." + p[1] + "." + b64raw(flip(g.c, sb))
		}},
		{name: "client-and-server-share-a-junk-signature", expect: "accept", mut: func(g *tgen, k *cliCase) {
			p := strings.Split(k.tokenStr, ".")
			junk := randBytes(g.c, 32)
			k.tokenStr = p[0] + "." + p[1] + "." + b64raw(junk)
			k.srvSig = func(w *tokWorld, k *cliCase, m1 *parsedM1) sigTerm { return sigTerm{raw: junk} }
		}},
		{name: "client-no-token", expect: "reject", mut: func(g *tgen, k *cliCase) { k.tokenStr = ""; k.usable = false }},
		{name: "client-token-two-parts", expect: "reject", mut: func(g *tgen, k *cliCase) {
			p := strings.Split(k.tokenStr, ".")
			k.tokenStr = p[0] + "." + p[1]
			k.usable = false
		}},
		{name: "client-token-without-sub", expect: "reject", mut: func(g *tgen, k *cliCase) {
			g.spec.del("sub")
			hp := g.spec.hp()
			k.tokenStr = hp + "." + b64raw(g.w.tb.sign(g.key, []byte(hp)).bytes())
		}},
		{name: "client-token-sub-number", expect: "reject", mut: func(g *tgen, k *cliCase) {
			g.spec.set("sub", "5")
			hp := g.spec.hp()
			k.tokenStr = hp + "." + b64raw(g.w.tb.sign(g.key, []byte(hp)).bytes())
		}},
		{name: "client-token-expired", expect: "reject", mut: func(g *tgen, k *cliCase) {
			g.spec.set("exp", fmt.Sprint(g.now()-100))
			hp := g.spec.hp()
			k.tokenStr = hp + "." + b64raw(g.w.tb.sign(g.key, []byte(hp)).bytes())
			k.usable = false
		}},
		{name: "client-token-signature-not-base64", expect: "reject", mut: func(g *tgen, k *cliCase) { k.tokenStr += "*" }},
	}
}

// ---- VerifyIDToken cases -------------------------------------------------------------------------

type verCase struct {
	label  string
	expect string
	token  string
}

type verDev struct {
	name   string
	expect string
	pre    func(c *Ctx, m *tokMat, k *cfgKnobs)
	mut    func(g *tgen, kn cfgKnobs, v *verCase)
}

func (g *tgen) full() string {
	hp := g.spec.hp()
	return hp + "." + b64raw(g.w.tb.sign(g.key, []byte(hp)).bytes())
}

func verifyDeviations() []verDev {
	setTime := func(name string, f func(now, maxAge int64) string) func(g *tgen, kn cfgKnobs, v *verCase) {
		return func(g *tgen, kn cfgKnobs, v *verCase) {
			g.spec.set(name, f(g.now(), effMaxAge(kn.maxAge, kn.envAge)))
			v.token = g.full()
		}
	}
	setRaw := func(name, raw string) func(g *tgen, kn cfgKnobs, v *verCase) {
		return func(g *tgen, kn cfgKnobs, v *verCase) { g.spec.set(name, raw); v.token = g.full() }
	}
	del := func(name string) func(g *tgen, kn cfgKnobs, v *verCase) {
		return func(g *tgen, kn cfgKnobs, v *verCase) { g.spec.del(name); v.token = g.full() }
	}
	kid := func(raw string, key func(g *tgen, kn cfgKnobs) []byte) func(g *tgen, kn cfgKnobs, v *verCase) {
		return func(g *tgen, kn cfgKnobs, v *verCase) {
			g.spec.kid = raw
			g.key = key(g, kn)
			v.token = g.full()
		}
	}
	part := func(f func(g *tgen, p []string) string) func(g *tgen, kn cfgKnobs, v *verCase) {
		return func(g *tgen, kn cfgKnobs, v *verCase) { v.token = f(g, strings.Split(v.token, ".")) }
	}
	pool := func(g *tgen, kn cfgKnobs) []byte { return kn.ks.held("POOL") }
	return []verDev{
		{name: "valid", expect: "accept"},
		{name: "valid-surrounding-whitespace", expect: "accept", mut: func(g *tgen, kn cfgKnobs, v *verCase) { v.token = " \t" + v.token + "\r\n" }},
		{name: "signed-by-unknown-key", expect: "reject", mut: func(g *tgen, kn cfgKnobs, v *verCase) { g.key = g.m.attacker; v.token = g.full() }},
		{name: "signed-by-other-held-key", expect: "reject", mut: func(g *tgen, kn cfgKnobs, v *verCase) {
			g.spec.kid = `"k1"`
			g.key = kn.ks.held("k2")
			v.token = g.full()
		}},
		{name: "pool-token-named-k1", expect: "reject", mut: kid(`"k1"`, pool)},
		{name: "pool-key-not-doubled", expect: "reject", mut: kid(``, func(g *tgen, kn cfgKnobs) []byte { return refScramble(kn.ks.pool) })},
		{name: "kid-unknown", expect: "reject", mut: kid(`"nokey"`, func(g *tgen, kn cfgKnobs) []byte { return g.m.attacker })},
		{name: "kid-empty-string", expect: "accept", mut: kid(`""`, pool)},
		{name: "kid-number-means-pool", expect: "accept", mut: kid(`7`, pool)},
		{name: "kid-path-dotdot", expect: "reject", pre: func(c *Ctx, m *tokMat, kn *cfgKnobs) { kn.ks.named["../d/k1"] = m.k1File },
			mut: kid(`"../d/k1"`, func(g *tgen, kn cfgKnobs) []byte { return refScramble(g.m.k1File) })},
		{name: "pool-unreadable", expect: "reject", pre: func(c *Ctx, m *tokMat, kn *cfgKnobs) { kn.ks.pool = nil },
			mut: kid(``, func(g *tgen, kn cfgKnobs) []byte { return g.m.attacker })},
		{name: "dir-not-configured", expect: "reject", pre: func(c *Ctx, m *tokMat, kn *cfgKnobs) { kn.ks.dirSet = false },
			mut: kid(`"k1"`, func(g *tgen, kn cfgKnobs) []byte { return refScramble(g.m.k1File) })},
		{name: "exp-one-second-ago", expect: "reject", mut: setTime("exp", func(n, _ int64) string { return fmt.Sprint(n - 1) })},
		{name: "exp-now", expect: "reject", mut: setTime("exp", func(n, _ int64) string { return fmt.Sprint(n) })},
		{name: "exp-now-plus-1", mut: setTime("exp", func(n, _ int64) string { return fmt.Sprint(n + 1) })},
		{name: "exp-now-plus-2", mut: setTime("exp", func(n, _ int64) string { return fmt.Sprint(n + 2) })},
		{name: "exp-fraction", mut: setTime("exp", func(n, _ int64) string { return fmt.Sprintf("%d.75", n) })},
		{name: "exp-absent", expect: "accept", mut: del("exp")},
		{name: "exp-string", expect: "reject", mut: setRaw("exp", `"4000000000"`)},
		{name: "exp-null", expect: "reject", mut: setRaw("exp", "null")},
		{name: "iat-age-max", mut: setTime("iat", func(n, a int64) string { return fmt.Sprint(n - a) })},
		{name: "iat-age-max-plus-1", expect: "reject", mut: setTime("iat", func(n, a int64) string { return fmt.Sprint(n - a - 1) })},
		{name: "iat-age-max-minus-1", mut: setTime("iat", func(n, a int64) string { return fmt.Sprint(n - a + 1) })},
		{name: "iat-future", expect: "accept", mut: setTime("iat", func(n, a int64) string { return fmt.Sprint(n + 500) })},
		// nbf ("not before"): the token's validity has not begun / begins now / began earlier
		{name: "nbf-future", expect: "reject", mut: setTime("nbf", func(n, _ int64) string { return fmt.Sprint(n + 120) })},
		{name: "nbf-next-second-but-one", mut: setTime("nbf", func(n, _ int64) string { return fmt.Sprint(n + 2) })},
		{name: "nbf-now", mut: setTime("nbf", func(n, _ int64) string { return fmt.Sprint(n) })},
		{name: "nbf-past", expect: "accept", mut: setTime("nbf", func(n, _ int64) string { return fmt.Sprint(n - 30) })},
		{name: "nbf-string", expect: "reject", mut: setRaw("nbf", `"17"`)},
		{name: "nbf-far-future-exponent", expect: "reject", mut: setRaw("nbf", "4e9")},
		// numbers of seconds beyond int64: not timestamps (the library's int64(float64) of them is implementation-defined)
		{name: "nbf-beyond-int64", expect: "reject", mut: setRaw("nbf", "1e300")},
		{name: "exp-beyond-int64", expect: "reject", mut: setRaw("exp", "1e300")},
		{name: "iat-beyond-int64", expect: "reject", mut: setRaw("iat", "1e300")},
		{name: "iat-absent", expect: "accept", mut: del("iat")},
		{name: "iat-string", expect: "reject", mut: setRaw("iat", `"x"`)},
		{name: "maxage-config-100-exceeded", expect: "reject", pre: func(c *Ctx, m *tokMat, kn *cfgKnobs) { kn.maxAge = 100 },
			mut: setTime("iat", func(n, a int64) string { return fmt.Sprint(n - 102) })},
		{name: "maxage-env-50-exceeded", expect: "reject", pre: func(c *Ctx, m *tokMat, kn *cfgKnobs) { kn.envAge = "50" },
			mut: setTime("iat", func(n, a int64) string { return fmt.Sprint(n - 52) })},
		{name: "maxage-env-zero-disables", expect: "accept", pre: func(c *Ctx, m *tokMat, kn *cfgKnobs) { kn.envAge = "0" },
			mut: setRaw("iat", "1000")},
		{name: "sub-absent", expect: "reject", mut: del("sub")},
		{name: "sub-empty-string", expect: "reject", mut: setRaw("sub", `""`)},
		{name: "sub-number", expect: "reject", mut: setRaw("sub", "3")},
		{name: "two-parts", expect: "reject", mut: part(func(g *tgen, p []string) string { return p[0] + "." + p[1] })},
		{name: "four-parts", expect: "reject", mut: part(func(g *tgen, p []string) string { return strings.Join(p, ".") + "." + p[2] })},
		{name: "empty", expect: "reject", mut: part(func(g *tgen, p []string) string { return "" })},
		{name: "signature-not-base64", expect: "reject", mut: part(func(g *tgen, p []string) string { return p[0] + "." + p[1] + "." + p[2] + "*" })},
		{name: "signature-truncated", expect: "reject", mut: part(func(g *tgen, p []string) string { return p[0] + "." + p[1] + "." + p[2][:len(p[2])-2] })},
		{name: "signature-empty", expect: "reject", mut: part(func(g *tgen, p []string) string { return p[0] + "." + p[1] + "." })},
		{name: "signature-of-other-token", expect: "reject", mut: func(g *tgen, kn cfgKnobs, v *verCase) {
			p := strings.Split(v.token, ".")
			g.spec.set("sub", jstr("root@pool.example"))
			q := strings.Split(g.full(), ".")
			v.token = q[0] + "." + q[1] + "." + p[2]
		}},
		{name: "header-not-json", expect: "reject", mut: func(g *tgen, kn cfgKnobs, v *verCase) {
			hp := b64u("nojson") + "." + strings.Split(v.token, ".")[1]
			v.token = hp + "." + b64raw(g.w.tb.sign(kn.ks.held("POOL"), []byte(hp)).bytes())
		}},
		{name: "payload-not-json-correctly-signed", expect: "reject", mut: func(g *tgen, kn cfgKnobs, v *verCase) {
			hp := strings.Split(v.token, ".")[0] + "." + b64u("[1]")
			v.token = hp + "." + b64raw(g.w.tb.sign(g.key, []byte(hp)).bytes())
		}},
	}
}

func safeTrunc(b []byte, n int) []byte {
	if len(b) > n {
		return b[:n]
	}
	return nil
}

// tryMut applies a mutator of the catalogue; combinations that make no sense (a mutator that
// needs a part an earlier one removed) are skipped
func tryMut(f func()) {
	defer func() { _ = recover() }()
	f()
}
