package main

// Engine `race` (C17: shared state is safe under concurrency).
//
// Driver / worker split: the driver (this process) generates workload groups from VERIF_SEED and
// runs each group in a child process of the same binary (env VERIF_RACE_WORKER=<group>) so that
//   - the race detector's reports can be captured (GORACE=log_path=… halt_on_error=0 exitcode=0;
//     there is no in-process API), attributed to one group, and are not de-duplicated across groups
//     (the detector reports one race per address);
//   - GOMAXPROCS varies per group;
//   - a fatal runtime error ("concurrent map writes") kills the child, not the check.
// The children run the real library code under many goroutines, return (a) cases for the oracle
// (`conc` engine): linearizations of concurrent cache histories, configuration-cell schedules,
// two-direction stream interleavings, and (b) property-oracle violations from post-conditions.
// The race detector is the SEARCH for a failing schedule, never the proof.
//
// Built without -race (.bin/corr) the engine still runs everything except the detector and says so.

import (
	"bytes"
	"encoding/json"
	"fmt"
	"os"
	"os/exec"
	"path/filepath"
	"regexp"
	"runtime"
	"sort"
	"strings"
	"sync/atomic"
	"syscall"
	"time"
)

func init() { register(Engine{"race", runRace}) }

type evalRec struct {
	Key        string `json:"key"`
	Nontrivial bool   `json:"nontrivial"`
}

type raceWorkerOut struct {
	Group      string         `json:"group"`
	Cases      []Case         `json:"cases"`
	Violations []Violation    `json:"violations"`
	Dist       map[string]int `json:"dist"`
	Evals      []evalRec      `json:"evals"`
	Samples    []any          `json:"samples"`
	Notes      []string       `json:"notes"`
}

// raceProgress: bumped whenever a workload records something; the worker's heartbeat goroutine writes
// it to VERIF_RACE_HB, the driver kills a worker whose heartbeat stopped CHANGING (see runWorker).
var raceProgress atomic.Int64

func (o *raceWorkerOut) count(k string) { o.Dist[k]++; raceProgress.Add(1) }
func (o *raceWorkerOut) eval(key string, nontrivial bool) {
	o.Evals = append(o.Evals, evalRec{key, nontrivial})
	raceProgress.Add(1)
}
func (o *raceWorkerOut) violate(v Violation) {
	if len(o.Violations) < 40 {
		o.Violations = append(o.Violations, v)
	} else {
		o.count("violations-not-recorded:" + v.Key)
	}
}
func (o *raceWorkerOut) sample(v any) {
	if len(o.Samples) < 2 {
		o.Samples = append(o.Samples, v)
	}
}

type raceGroup struct {
	name  string
	procs int
}

// the workload groups of one run; `procs` varies with the seed
func raceGroups(c *Ctx) []raceGroup {
	procChoices := []int{1, 2, 4, 8}
	p := func() int { return procChoices[c.Rng.Intn(len(procChoices))] }
	gs := []raceGroup{
		{"cache-lin", 4}, {"cache-lin", p()}, {"cache-atomic", 4},
		{"cache-pairs:gc,renew", p()}, {"cache-pairs:dump,renew", p()}, {"cache-pairs:lookup,renew", 4},
		{"cache-pairs:bycmd,renew;lookupne,renew", p()}, {"cache-pairs:store,lookup;invalidate,bycmd;mapcmd,dump;clear,size", p()},
		{"cache-pairs:peerversion,peerversion;inherited,inherited;snapshot,renew", p()},
		{"cache-invalidate-wins", p()},
		{"cache-dump-writers", 4}, {"cache-dump-writers", 1},
		{"cache-torn", 4},
		{"hs-shared", 4}, {"hs-shared", p()},
		{"hs-det", 2},
		{"hs-sweep", 4}, {"hs-sweep", p()},
		{"stream-dir", 4}, {"stream-dir", p()},
		{"stream-secret", p()},
		{keyedPlainGroup, 4},
		{hsInvalidateGroup, 4},
	}
	if c.Thorough() {
		for _, q := range procChoices {
			gs = append(gs, raceGroup{"cache-lin", q}, raceGroup{"hs-shared", q}, raceGroup{"hs-sweep", q}, raceGroup{"stream-dir", q},
				raceGroup{"cache-pairs:gc,renew;dump,renew;lookup,renew;bycmd,renew;lookupne,renew;snapshot,renew", q}, raceGroup{"cache-atomic", q})
		}
	}
	return gs
}

func runRace(c *Ctx) error {
	if g := os.Getenv("VERIF_RACE_WORKER"); g != "" {
		return raceWorker(c, g)
	}
	return raceDriver(c)
}

var raceFnRe = regexp.MustCompile(`^\s+(\S+)\(.*\)$`)

type raceReport struct {
	kindA, kindB string   // "Write", "Read", "Previous write", ...
	stackA       []string // function names, innermost first
	stackB       []string
	text         string
}

// parseRaceLog splits a GORACE log into reports and extracts the two access stacks.
func parseRaceLog(b []byte) []raceReport {
	var out []raceReport
	for _, blk := range strings.Split(string(b), "==================") {
		if !strings.Contains(blk, "WARNING: DATA RACE") {
			continue
		}
		r := raceReport{text: strings.TrimSpace(blk)}
		lines := strings.Split(blk, "\n")
		section := 0
		for _, l := range lines {
			t := strings.TrimSpace(l)
			switch {
			case strings.HasPrefix(t, "Write at"), strings.HasPrefix(t, "Read at"), strings.HasPrefix(t, "Atomic"):
				section = 1
				r.kindA = strings.SplitN(t, " at", 2)[0]
				continue
			case strings.HasPrefix(t, "Previous "):
				section = 2
				r.kindB = strings.SplitN(t, " at", 2)[0]
				continue
			case strings.HasPrefix(t, "Goroutine "), t == "":
				if strings.HasPrefix(t, "Goroutine ") {
					section = 3
				}
				continue
			}
			if m := raceFnRe.FindStringSubmatch(l); m != nil {
				if section == 1 {
					r.stackA = append(r.stackA, m[1])
				} else if section == 2 {
					r.stackB = append(r.stackB, m[1])
				}
			}
		}
		out = append(out, r)
	}
	return out
}

const cedarPkg = "github.com/bbockelm/cedar/"

// firstLibFrame: innermost frame of the library under test in a stack ("" if the stack never enters it)
func firstLibFrame(st []string) string {
	for _, f := range st {
		if strings.HasPrefix(f, cedarPkg) {
			return strings.TrimPrefix(f, cedarPkg)
		}
	}
	return ""
}

func top(st []string, n int) string {
	if len(st) > n {
		st = st[:n]
	}
	return strings.Join(st, " <- ")
}

func raceDriver(c *Ctx) error {
	c.Res.Rule = "workload groups in child processes of the -race harness (GOMAXPROCS 1/2/4/8 by seed): (cache-lin) 2-4 goroutines x 3-6 random SessionCache operations (Store, Lookup, LookupNonExpired, LookupByCommand, MapCommand, Invalidate, InvalidateExpired, Clear, Size, Snapshot, DebugDump) on 3 overlapping session ids with 6 shared entry objects (never / past / future expiry) while other goroutines RenewLease/IsExpired/Expiration the same entries, injected Gosched; each concurrent history must have a linearization (found by exhaustive search respecting real-time order) which the Lean cache object replays with identical results, final Size/Snapshot/DebugDump/Lookups included; (cache-atomic) the same check on small targeted histories: Invalidate / InvalidateExpired / LookupNonExpired / Clear against a concurrent Store+MapCommand of the same id with an observer; dumped expirations must parse and lie within the run's window (torn reads); (cache-pairs) targeted method pairs hammered from 4 goroutines; (cache-invalidate-wins) lookups that start after Invalidate returned must miss; (cache-dump-writers) thousands of DebugDump calls against concurrent Store/MapCommand/Invalidate/LookupNonExpired/InvalidateExpired with a progress watchdog (a dump that takes the cache lock twice wedges the cache as soon as a writer arrives in between); (hs-shared) many simultaneous client.ConnectAndAuthenticateWithConfig calls sharing ONE *SecurityConfig and ONE SessionCache against one server.Server over loopback TCP, fresh, resuming one shared session, and mixed, with maintenance sweeps/dumps of both caches running, every connection must authenticate, be encrypted and echo a message; (hs-sweep) goroutines x full client handshakes, each under its own (tag, server address) with 1-150 commands declared by the server, sharing ONE SessionCache while other goroutines loop InvalidateExpired / InvalidateExpiredSessions / DebugDump / Snapshot and others mint identifiers with GenerateSessionID(GetNextSessionCounter()), some completed sessions invalidated afterwards: every identifier minted is unique and both ends name the same one, every completed handshake is routable by each declared command (unless a later Invalidate named it) and resumable afterwards with its own key and identity; (hs-det) the configuration-cell schedules and the resume-vs-Invalidate schedule replayed deterministically on real Authenticators; (stream-dir / stream-secret) one goroutine sends (SendMessage, SendPartialMessage, WriteMessage/EndMessage/StartMessage, PutSecret) while another receives (ReceiveFrameWithEnd, ReceiveFrame, ReceiveCompleteMessage, StartMessageRead/ReadMessageBytes/EndMessageRead, GetSecret) on one established stream (keyed or plaintext, sizes around the 4 KiB flush threshold, misuse errors), per-direction results compared with the model under a seed-chosen merge order and end-to-end with the peer; every data-race report of the detector whose stack enters the library is a violation; distinct by op sequence; non-trivial = at least 2 goroutines touch one session id / one stream"
	exe, err := os.Executable()
	if err != nil {
		return err
	}
	work, err := os.MkdirTemp(fsWorkDir(c), scratchPrefix("race"))
	if err != nil {
		return err
	}
	defer os.RemoveAll(work)
	if !raceEnabled {
		c.Res.Notes = append(c.Res.Notes, "this binary was built WITHOUT -race: workloads, linearizability and post-conditions run, the data-race search does not (./check builds .bin/corr_race for this engine)")
	}
	c.Count(fmt.Sprintf("race-detector:%v", raceEnabled))
	var cases []Case
	seenRace := map[string]bool{}
	wedged := 0
	for gi, g := range raceGroups(c) {
		if wedged >= 2 {
			c.Res.Notes = append(c.Res.Notes, "two workload groups wedged: the remaining groups were not run")
			break
		}
		outp := filepath.Join(work, fmt.Sprintf("w%d.json", gi))
		logp := filepath.Join(work, fmt.Sprintf("race%d", gi))
		// a workload that wedges (deadlock inside the library) must not hang the check: the worker is
		// killed when it stops making PROGRESS (its heartbeat value does not change for `limit`), not
		// when a total running time is exceeded -- a busy machine makes a workload slow, not wedged
		limit := time.Duration(c.Pick(75, 300)) * time.Second
		hbp := filepath.Join(work, fmt.Sprintf("hb%d", gi))
		cmd := exec.Command(exe, "race", "-tier", c.Tier, "-seed", fmt.Sprint(c.Seed+int64(gi)*1000003), "-oracle", c.Oracle, "-out", filepath.Join(work, "ignored.json"))
		cmd.Env = append(os.Environ(), "VERIF_RACE_WORKER="+g.name, "VERIF_RACE_OUT="+outp, "VERIF_RACE_HB="+hbp,
			"GORACE=log_path="+logp+" halt_on_error=0 exitcode=0 history_size=3", fmt.Sprintf("GOMAXPROCS=%d", g.procs))
		t0 := time.Now()
		stderr, runErr, timedOut := runWorker(cmd, hbp, limit, time.Duration(c.Pick(900, 7200))*time.Second)
		c.Count("group:" + strings.SplitN(g.name, ":", 2)[0])
		c.Count(fmt.Sprintf("gomaxprocs:%d", g.procs))
		label := fmt.Sprintf("%s procs=%d seed=%d", g.name, g.procs, c.Seed+int64(gi)*1000003)
		replay := []string{"# replay: VERIF_RACE_WORKER='" + g.name + "' GOMAXPROCS=" + fmt.Sprint(g.procs) + " GORACE='halt_on_error=0' .bin/corr_race race -tier " + c.Tier + " -seed " + fmt.Sprint(c.Seed+int64(gi)*1000003) + " -out /dev/null"}
		var wo raceWorkerOut
		if b, e := os.ReadFile(outp); e == nil {
			_ = json.Unmarshal(b, &wo)
		}
		readRaceLogs := func() {
			// race reports of this group
			logs, _ := filepath.Glob(logp + ".*")
			for _, lf := range logs {
				b, _ := os.ReadFile(lf)
				for _, r := range parseRaceLog(b) {
					fa, fb := firstLibFrame(r.stackA), firstLibFrame(r.stackB)
					c.Count("race-reports")
					if fa == "" && fb == "" {
						// a race wholly inside the harness: a defect of the check, make it loud
						key := "C17:race-in-harness:" + top(r.stackA, 1) + "|" + top(r.stackB, 1)
						if !seenRace[key] {
							seenRace[key] = true
							c.Violate(Violation{Property: "C17", Key: key, What: "data race between two harness goroutines (defect of the harness, not of the library)", Ops: replay, Expected: "no report", Observed: r.text})
						}
						continue
					}
					pair := []string{fa, fb}
					sort.Strings(pair)
					key := "C17:race:" + pair[0] + "|" + pair[1]
					if g.name == keyedPlainGroup {
						// the keyed-but-not-encrypting state has its own key space: what is found there is one
						// design matter (a single crypto switch for both directions), recorded as such
						key = keyedPlainKey + "race:" + pair[0] + "|" + pair[1]
					}
					if seenRace[key] {
						c.Count("race-reports-duplicate-site")
						continue
					}
					seenRace[key] = true
					c.Violate(Violation{Property: "C17", Key: key,
						What:     "the race detector found two unsynchronised conflicting accesses inside the library while it was used as the property allows (" + g.name + ")",
						Ops:      append(append([]string{}, replay...), "# "+r.kindA+": "+top(r.stackA, 4), "# "+r.kindB+": "+top(r.stackB, 4)),
						Expected: "no data race", Observed: r.text})
				}
			}
		}
		if runErr != nil || wo.Group == "" {
			tail := string(stderr)
			if len(tail) > 1500 {
				tail = tail[len(tail)-1500:]
			}
			key := "C17:worker-crashed:" + strings.SplitN(g.name, ":", 2)[0]
			if strings.Contains(tail, "concurrent map") {
				key = "C17:concurrent-map-access"
			}
			if timedOut {
				wedged++
				key = "C17:workload-wedged:" + strings.SplitN(g.name, ":", 2)[0]
				tail = fmt.Sprintf("no progress for %v (deadlock or livelock under concurrent use); ", limit) + tail
			}
			c.Violate(Violation{Property: "C17", Key: key, What: "the workload process died (fatal runtime error or panic while the library ran under concurrent use)",
				Ops: replay, Expected: "workload completes", Observed: fmt.Sprintf("%v: %s", runErr, tail)})
			readRaceLogs() // what the detector had found before the worker died counts all the same
			continue
		}
		for _, cs := range wo.Cases {
			cs.Label = label + " " + cs.Label
			cases = append(cases, cs)
		}
		for _, v := range wo.Violations {
			if seenRace[v.Key] {
				c.Count("violations-same-key:" + v.Key)
				continue
			}
			seenRace[v.Key] = true
			v.Ops = append(append([]string{}, replay...), v.Ops...)
			c.Violate(v)
		}
		for k, n := range wo.Dist {
			c.Res.Distribution[k] += n
		}
		for _, e := range wo.Evals {
			c.Distinct(e.Key, e.Nontrivial)
		}
		for _, s := range wo.Samples {
			c.Sample(s)
		}
		c.Res.Notes = append(c.Res.Notes, wo.Notes...)
		readRaceLogs()
		c.Res.Distribution["group-wall-ms-total"] += int(time.Since(t0).Milliseconds())
		c.Res.Distribution["group-wall-ms:"+strings.SplitN(g.name, ":", 2)[0]] += int(time.Since(t0).Milliseconds())
	}
	// the fact-table obligations as the compiled model sees them (cheap cross-check of the lake build)
	cases = append(cases, Case{Label: "facts", Ops: []string{"facts"}, Real: []string{"ok cache=1 sections=1 globals=1 sites=1 writes=1 foot=1 disjoint=1"}})
	// malformed stream for the oracle engine itself
	bad := []string{"store", "store x", "lookup", "ent 1 2 sometimes", "cfg 2 0 0,1", "cfg 1 x 0", "dsend frame zz 1", "drecv read", "dpeer 00", "dnew 2", "mapcmd 1", "nonsense"}
	var badReal []string
	for range bad {
		badReal = append(badReal, "bad-op")
	}
	cases = append(cases, Case{Label: "malformed-ops", Ops: bad, Real: badReal})
	c.Count("malformed-ops")
	return diffBatch(c, "conc", cases, nil)
}

func raceWorker(c *Ctx, group string) error {
	out := &raceWorkerOut{Group: group, Dist: map[string]int{}}
	if hb := os.Getenv("VERIF_RACE_HB"); hb != "" {
		go func() { // heartbeat: the progress counter, written when it changed
			last := int64(-1)
			for {
				if v := raceProgress.Load(); v != last {
					last = v
					_ = os.WriteFile(hb, []byte(fmt.Sprint(v)), 0o644)
				}
				time.Sleep(200 * time.Millisecond)
			}
		}()
	}
	func() {
		defer func() {
			if r := recover(); r != nil {
				out.violate(Violation{Property: "C17", Key: "C17:panic:" + strings.SplitN(group, ":", 2)[0], What: "panic inside the workload", Expected: "no panic", Observed: fmt.Sprint(r)})
			}
		}()
		name, arg := group, ""
		if i := strings.Index(group, ":"); i >= 0 {
			name, arg = group[:i], group[i+1:]
		}
		switch name {
		case "cache-lin":
			wlCacheLin(c, out)
		case "cache-atomic":
			wlCacheAtomic(c, out)
		case "cache-pairs":
			wlCachePairs(c, out, arg)
		case "cache-invalidate-wins":
			wlInvalidateWins(c, out)
		case "cache-dump-writers":
			wlDumpWriters(c, out)
		case "cache-torn":
			wlCacheTorn(c, out)
		case "hs-shared":
			wlHsShared(c, out)
		case "hs-det":
			wlHsDet(c, out)
		case "hs-sweep":
			wlHsSweep(c, out)
		case "stream-dir":
			wlStreamDir(c, out, false)
		case "stream-secret":
			wlStreamDir(c, out, true)
		case keyedPlainGroup:
			wlSecretKeyedPlain(c, out)
		case hsInvalidateGroup:
			wlHsInvalidate(c, out)
		default:
			out.Notes = append(out.Notes, "unknown group "+group)
		}
	}()
	// the torn-read search reads expirations out of DebugDump's text: when that text is not in the
	// format the harness knows the search is blind there -- said through planned-vs-run, never a finding
	if r, u := int(dumpStampsRead.Load()), int(dumpFormatUnknown.Load()); r+u > 0 {
		out.Dist["planned:dumped-expirations-readable"] += r + u
		out.Dist["ran:dumped-expirations-readable"] += r
		if u > 0 {
			out.Notes = append(out.Notes, fmt.Sprintf("%s: %d expirations in DebugDump output were not in the known timestamp format (dump format changed?): not judged for torn reads", group, u))
		}
	}
	b, _ := json.Marshal(out)
	return os.WriteFile(os.Getenv("VERIF_RACE_OUT"), b, 0o644)
}

// runWorker starts a workload process and waits for it. The worker is killed (whole process group)
// when its heartbeat file stops changing for `quiet`, or after `total` as a last resort. It dies with
// the driver (Pdeathsig; the spawning goroutine keeps its OS thread until the child is gone, as the
// signal is tied to the thread that forked).
func runWorker(cmd *exec.Cmd, hbPath string, quiet, total time.Duration) (output []byte, err error, wedged bool) {
	var buf bytes.Buffer
	cmd.Stdout, cmd.Stderr = &buf, &buf
	cmd.SysProcAttr = &syscall.SysProcAttr{Pdeathsig: syscall.SIGKILL, Setpgid: true}
	done := make(chan error, 1)
	started := make(chan error, 1)
	go func() {
		runtime.LockOSThread()
		defer runtime.UnlockOSThread()
		if e := cmd.Start(); e != nil {
			started <- e
			return
		}
		started <- nil
		done <- cmd.Wait()
	}()
	if e := <-started; e != nil {
		return nil, e, false
	}
	kill := func() {
		_ = syscall.Kill(-cmd.Process.Pid, syscall.SIGKILL)
		_ = cmd.Process.Kill()
	}
	t0 := time.Now()
	lastChange := t0
	lastHB := ""
	tick := time.NewTicker(250 * time.Millisecond)
	defer tick.Stop()
	for {
		select {
		case err = <-done:
			return buf.Bytes(), err, false
		case <-tick.C:
			if b, e := os.ReadFile(hbPath); e == nil && string(b) != lastHB {
				lastHB, lastChange = string(b), time.Now()
			}
			if time.Since(lastChange) > quiet || time.Since(t0) > total {
				kill()
				err = <-done
				if err == nil {
					err = fmt.Errorf("killed")
				}
				return buf.Bytes(), err, true
			}
		}
	}
}
