package main

import (
	"bytes"
	"context"
	"encoding/binary"
	"fmt"
	"io"
	"strings"
	"sync"
	"time"

	"cedarverif/harness/internal/bufpipe"
	"cedarverif/harness/internal/refcodec"

	"github.com/bbockelm/cedar/security"
	"github.com/bbockelm/cedar/stream"
)

func init() { register(Engine{"relay", runRelay}) }

/* ---------- part 1: stream level, compared with the model ---------- */

type clearEdit struct {
	kind string // none flip hdrflag insert drop split merge
	pos  int
}

func relayStreamCase(c *Ctx, idx int) Case {
	w := newWorld()
	n := 1 + c.Rng.Intn(4)
	changed := false
	for i := 0; i < n; i++ {
		from := "A"
		if c.Rng.Intn(2) == 0 {
			from = "B"
		}
		to := w.peer(from).name
		d := randBytes(c, c.Rng.Intn(24))
		_ = w.send(from, 1, d)
		ed := clearEdit{kind: pick(c, []string{"none", "none", "flip", "hdrflag", "insert", "drop", "split", "append"})}
		honest := append([]byte{}, w.pending[to]...)
		frames, _ := refcodec.ParseFrames(honest)
		var out []refcodec.Frame
		switch ed.kind {
		case "flip":
			f := frames[0]
			if len(f.Body) > 0 {
				b := append([]byte{}, f.Body...)
				b[c.Rng.Intn(len(b))] ^= byte(1 << uint(c.Rng.Intn(8)))
				f.Body = b
			} else {
				f.Flag ^= 1
			}
			out = []refcodec.Frame{f}
		case "hdrflag":
			// the receiver accepts end flags 0..10 and treats every non-zero one as end of message:
			// rewriting 1 to 2..10 leaves the parse unchanged, only the transcript differs
			f := frames[0]
			f.Flag = pick(c, []byte{f.Flag ^ 1, 2, 3, 7, 10})
			out = []refcodec.Frame{f}
		case "insert":
			out = []refcodec.Frame{{Flag: byte(c.Rng.Intn(2)), Len: 0, Body: nil}, frames[0]}
			if c.Rng.Intn(2) == 0 {
				out = []refcodec.Frame{frames[0], {Flag: 1, Len: 0, Body: nil}}
			}
		case "drop":
			out = nil
		case "split":
			f := frames[0]
			if len(f.Body) >= 2 {
				k := 1 + c.Rng.Intn(len(f.Body)-1)
				out = []refcodec.Frame{{Flag: 0, Len: uint32(k), Body: f.Body[:k]}, {Flag: f.Flag, Len: uint32(len(f.Body) - k), Body: f.Body[k:]}}
			} else {
				out = frames
			}
		case "append":
			f := frames[0]
			f.Body = append(append([]byte{}, f.Body...), 0x41)
			f.Len++
			out = []refcodec.Frame{f}
		default:
			out = frames
		}
		var ob []byte
		var specs []string
		for _, f := range out {
			ob = append(ob, f.Bytes()...)
			specs = append(specs, fmt.Sprintf("r%d:%s", f.Flag, payloadHex(f.Body)))
		}
		if !bytes.Equal(ob, honest) {
			changed = true
		}
		w.pending[to] = nil
		w.ep(to).c.Feed(ob)
		w.log(strings.TrimRight("wire "+to+" "+strings.Join(specs, " "), " "), "ok")
		for range out {
			if _, _, err := w.recvf(to); err != nil {
				break
			}
		}
		c.Count("edit:" + ed.kind)
	}
	w.dead = false
	w.key("A", 31)
	w.key("B", 31)
	// first protected frame each way
	okAB, okBA := false, false
	if w.send("A", 1, []byte("app-a2b")) == nil {
		if m, err := w.recvc("B"); err == nil && string(m) == "app-a2b" {
			okAB = true
		}
	}
	w.dead = false
	if w.send("B", 1, []byte("app-b2a")) == nil {
		if m, err := w.recvc("A"); err == nil && string(m) == "app-b2a" {
			okBA = true
		}
	}
	// ---- property oracle C04 ----
	if changed && (okAB || okBA) {
		c.Violate(Violation{Property: "C04", Key: "C04:stream:accepted-after-tamper", What: "the cleartext exchanged before key installation was modified in transit, yet a first protected frame authenticated",
			Ops: append([]string{}, w.ops...), Expected: "both first protected frames rejected", Observed: fmt.Sprintf("A->B accepted=%v B->A accepted=%v", okAB, okBA)})
	}
	if !changed && !(okAB && okBA) {
		c.Violate(Violation{Property: "C04", Key: "C04:stream:honest-rejected", What: "an untampered cleartext exchange did not bind (first protected frame rejected)",
			Ops: append([]string{}, w.ops...), Expected: "accepted", Observed: fmt.Sprintf("A->B=%v B->A=%v", okAB, okBA)})
	}
	w.finish()
	c.Distinct(strings.Join(w.ops, "\n"), changed)
	if idx < 2 {
		c.Sample(map[string]any{"ops": abbreviate(w.ops), "real": abbreviate(w.real)})
	}
	return Case{Label: fmt.Sprintf("relay-stream#%d", idx), Ops: w.ops, Real: w.real}
}

func payloadHex(b []byte) string {
	if len(b) == 0 {
		return "-"
	}
	return fmt.Sprintf("%x", b)
}

/* ---------- part 2: whole handshakes through a byte-editing relay (property oracle) ---------- */

type relayEdit struct {
	dir   int    // 0 = client->server, 1 = server->client
	frame int    // frame index in that direction
	kind  string // xor insert drop split
	off   int    // byte offset inside the serialized frame (header included)
	val   byte
}

type relayStats struct {
	mu     sync.Mutex
	frames [2][]int // serialized sizes of frames forwarded so far
}

func pump(src, dst *bufpipe.Conn, dir int, ed *relayEdit, st *relayStats, stop *bool) {
	idx := 0
	for {
		hdr := make([]byte, 5)
		if _, err := io.ReadFull(src, hdr); err != nil {
			dst.Close()
			return
		}
		n := binary.BigEndian.Uint32(hdr[1:5])
		if n > 2<<20 {
			dst.Close()
			return
		}
		body := make([]byte, n)
		if _, err := io.ReadFull(src, body); err != nil {
			dst.Close()
			return
		}
		raw := append(hdr, body...)
		st.mu.Lock()
		st.frames[dir] = append(st.frames[dir], len(raw))
		st.mu.Unlock()
		out := raw
		if ed != nil && ed.dir == dir && ed.frame == idx {
			switch ed.kind {
			case "xor":
				if ed.off < len(raw) {
					out = append([]byte{}, raw...)
					out[ed.off] ^= ed.val
				}
			case "insert":
				out = append([]byte{0, 0, 0, 0, 0}, raw...)
			case "drop":
				out = nil
			case "split":
				if n >= 2 {
					k := int(n) / 2
					a := refcodec.Frame{Flag: 0, Len: uint32(k), Body: body[:k]}
					b := refcodec.Frame{Flag: hdr[0], Len: n - uint32(k), Body: body[k:]}
					out = append(a.Bytes(), b.Bytes()...)
				}
			}
		}
		idx++
		if len(out) > 0 {
			if _, err := dst.Write(out); err != nil {
				return
			}
		}
	}
}

var relayPanics int // panics inside the library while a tampered handshake ran (a C13 matter; counted in the notes)

type relayShape struct {
	name    string
	cauth   security.SecurityLevel
	resumed bool
}

// relayRun performs one handshake (fresh or resumed) through the relay; returns whether both
// handshakes succeeded and whether application messages were then delivered both ways.
func relayRun(sh relayShape, cache *security.SessionCache, ed *relayEdit) (hsOK bool, appOK bool, st *relayStats) {
	c1, r1 := bufpipe.Pair("10.0.0.1:1111", "10.0.0.9:1")
	r2, s1 := bufpipe.Pair("10.0.0.9:2", "10.0.0.2:9618")
	st = &relayStats{}
	stop := false
	go pump(r1, r2, 0, ed, st, &stop)
	go pump(r2, r1, 1, ed, st, &stop)
	ctx, cancel := context.WithTimeout(context.Background(), 500*time.Millisecond)
	defer cancel()
	cst, sst := stream.NewStream(c1), stream.NewStream(s1)
	sst.SetPeerAddr("10.0.0.1:1111")
	var sneg *security.SecurityNegotiation
	var serr error
	var wg sync.WaitGroup
	wg.Add(1)
	go func() {
		defer wg.Done()
		sc := *srvConf(true)
		sc.Authentication = security.SecurityOptional
		a := security.NewAuthenticator(&sc, sst)
		defer func() {
			if r := recover(); r != nil {
				serr = fmt.Errorf("PANIC in ServerHandshake: %v", r)
				relayPanics++
				s1.Close()
			}
		}()
		sneg, serr = a.ServerHandshake(ctx)
		if serr != nil {
			s1.Close()
		}
	}()
	cc := *cliConf(cache, "")
	cc.Authentication = sh.cauth
	a := security.NewAuthenticator(&cc, cst)
	var cerr error
	func() {
		defer func() {
			if r := recover(); r != nil {
				cerr = fmt.Errorf("PANIC in ClientHandshake: %v", r)
				relayPanics++
			}
		}()
		_, cerr = a.ClientHandshake(ctx)
	}()
	if cerr != nil {
		c1.Close()
	}
	wg.Wait()
	_ = sneg
	hsOK = cerr == nil && serr == nil
	if hsOK {
		e1 := cst.SendMessage(ctx, []byte("c2s-app"))
		m1, e2 := sst.ReceiveCompleteMessage(ctx)
		ok1 := e1 == nil && e2 == nil && string(m1) == "c2s-app"
		e3 := sst.SendMessage(ctx, []byte("s2c-app"))
		m2, e4 := cst.ReceiveCompleteMessage(ctx)
		ok2 := e3 == nil && e4 == nil && string(m2) == "s2c-app"
		appOK = ok1 || ok2
	}
	c1.Close()
	s1.Close()
	r1.Close()
	r2.Close()
	return
}

func runRelay(c *Ctx) error {
	c.Res.Rule = "part 1 (stream level, compared with the model): 1-4 cleartext frames in either direction each edited in transit (payload bit flip, end flag flipped or rewritten to another accepted value 2..10, empty frame inserted before/after, frame dropped, split in two, byte appended), then keys installed and one protected message each way; part 2 (whole handshakes through a byte-editing relay, property oracle): shapes {no authentication, CLAIMTOBE, resumed session} x every frame of the handshake in each direction x (every byte offset x xor 0x01/0x80 in thorough, every 2nd-5th offset in quick; the end-flag byte also rewritten to 2, 3 and 10) plus empty-frame insertion, frame removal and frame splitting; distinct by (shape, edit); non-trivial = the edit lands in a frame exchanged before the application data"
	var cases []Case
	n := c.Pick(600, 8000)
	for i := 0; i < n; i++ {
		cases = append(cases, relayStreamCase(c, i))
	}
	if err := diffBatch(c, "stream", cases, nil); err != nil {
		return err
	}
	// part 2
	shapes := []relayShape{{"noauth", security.SecurityNever, false}, {"claimtobe", security.SecurityPreferred, false}, {"resumed", security.SecurityPreferred, true}}
	for _, sh := range shapes {
		security.ClearSessionCache()
		cache := security.NewSessionCache()
		prep := func() bool {
			security.ClearSessionCache()
			cache = security.NewSessionCache()
			if sh.resumed {
				ok, _, _ := relayRun(relayShape{"claimtobe", security.SecurityPreferred, false}, cache, nil)
				return ok
			}
			return true
		}
		if !prep() {
			c.Res.Notes = append(c.Res.Notes, "relay: could not establish the session to resume")
			continue
		}
		hsOK, appOK, st := relayRun(sh, cache, nil)
		if !hsOK || !appOK {
			c.Violate(Violation{Property: "C04", Key: "C04:honest-relay-failed:" + sh.name, What: "an unmodified handshake through the relay failed", Ops: []string{"shape " + sh.name}, Expected: "success", Observed: fmt.Sprintf("hs=%v app=%v", hsOK, appOK)})
			continue
		}
		// frames seen during the honest run, minus the two application frames per direction's tail
		var edits []relayEdit
		step := c.Pick(3, 1)
		for dir := 0; dir < 2; dir++ {
			nf := len(st.frames[dir]) - 1 // the last frame in each direction is the application message
			for f := 0; f < nf; f++ {
				for off := 0; off < st.frames[dir][f]; off += step {
					vals := []byte{0x01}
					if c.Thorough() || off < 5 {
						vals = []byte{0x01, 0x80}
					}
					if off == 0 {
						vals = []byte{0x01, 0x80, 0x02, 0x03, 0x0b} // end flag 1 -> 0, 0x81, 3, 2, 10
					}
					for _, v := range vals {
						edits = append(edits, relayEdit{dir: dir, frame: f, kind: "xor", off: off, val: v})
					}
				}
				edits = append(edits, relayEdit{dir: dir, frame: f, kind: "insert"}, relayEdit{dir: dir, frame: f, kind: "drop"}, relayEdit{dir: dir, frame: f, kind: "split"})
			}
		}
		for _, ed := range edits {
			if !prep() {
				continue
			}
			e := ed
			hs, app, _ := relayRun(sh, cache, &e)
			c.Distinct(fmt.Sprintf("%s|%+v", sh.name, ed), true)
			c.Count("shape:" + sh.name + ":" + ed.kind)
			if hs && app {
				c.Violate(Violation{Property: "C04", Key: fmt.Sprintf("C04:handshake:%s:%s:dir%d", sh.name, ed.kind, ed.dir), What: "a byte of the handshake transcript was modified / a frame inserted, removed or split in transit, yet application data was accepted afterwards",
					Ops: []string{"shape " + sh.name, fmt.Sprintf("edit %+v", ed)}, Expected: "handshake fails or the first protected frame is rejected", Observed: "application message delivered"})
			}
			if len(c.Res.Samples) < 5 && c.Rng.Intn(300) == 0 {
				c.Sample(map[string]any{"shape": sh.name, "edit": fmt.Sprintf("%+v", ed), "handshake_ok": hs, "app_accepted": app})
			}
		}
	}
	if relayPanics > 0 {
		c.Res.Notes = append(c.Res.Notes, fmt.Sprintf("%d tampered handshakes made the library panic (reported under C13, not C04)", relayPanics))
		c.Res.Distribution["library-panics"] = relayPanics
	}
	security.ClearSessionCache()
	return nil
}
