package main

import (
	"bytes"
	"context"
	"encoding/binary"
	"fmt"
	"io"
	"net"
	"os"
	"strconv"
	"strings"
	"sync"
	"sync/atomic"
	"time"

	"cedarverif/harness/internal/bufpipe"
	"cedarverif/harness/internal/refcodec"

	"github.com/bbockelm/cedar/security"
	"github.com/bbockelm/cedar/stream"
)

func init() { register(Engine{"relay", runRelay}) }

/* ---------- part 1: stream level, compared with the model ---------- */

type clearEdit struct {
	kind string // none flip hdrflag insert drop split merge
	pos  int
}

// relayStep: one cleartext frame of a LONG cleartext phase: who sends it, its payload (size bytes of
// fill, so that op lines stay compact) and the edit applied to it in transit.
type relayStep struct {
	from string
	size int
	fill byte
	kind string
}

// relayLongPlan lays out a long cleartext phase: tens of frames in one direction (the other silent) or
// in both (interleaved at random), the loaded direction(s) carrying well beyond 16, 64 and 256 KiB in
// total, frame sizes ragged around total/frames; ONE frame of one direction is edited -- among the first
// two, in the middle, or among the last two of its direction -- or none at all (the honest long exchange
// must still bind). The binding covers EVERYTHING exchanged in the clear, however much that is and
// however late in the phase a frame travels.
func relayLongPlan(c *Ctx) (steps []relayStep, label string) {
	mode := pick(c, []string{"A", "B", "both", "both"})
	dirs := []string{mode}
	if mode == "both" {
		dirs = []string{"A", "B"}
	}
	edDir := dirs[c.Rng.Intn(len(dirs))]
	pos := pick(c, []string{"early", "middle", "last", "last"})
	kind := pick(c, []string{"none", "flip", "flip", "flip", "hdrflag", "insert", "drop", "split", "append", "merge"})
	seqs := map[string][]relayStep{}
	maxKiB := 0
	for _, d := range dirs {
		total := pick(c, []int{24, 40, 80, 144, 288, 320}) << 10
		nf := 12 + c.Rng.Intn(37)
		base := total / nf
		sum := 0
		var q []relayStep
		for i := 0; i < nf; i++ {
			sz := base/2 + c.Rng.Intn(base+1)
			sum += sz
			q = append(q, relayStep{from: d, size: sz, fill: byte(c.Rng.Intn(256)), kind: "none"})
		}
		if sum < total { // the direction really carries the total: the deficit goes into a frame before the last ones
			q[c.Rng.Intn(nf-2)].size += total - sum
		}
		if d == edDir {
			at := 0
			switch pos {
			case "early":
				at = c.Rng.Intn(2)
			case "middle":
				at = nf/2 - 1 + c.Rng.Intn(3)
			default:
				at = nf - 1 - c.Rng.Intn(2)
			}
			q[at].kind = kind
		}
		seqs[d] = q
		if total>>10 > maxKiB {
			maxKiB = total >> 10
		}
	}
	for len(seqs["A"])+len(seqs["B"]) > 0 {
		d := "A"
		if len(seqs["A"]) == 0 || (len(seqs["B"]) > 0 && c.Rng.Intn(2) == 0) {
			d = "B"
		}
		steps = append(steps, seqs[d][0])
		seqs[d] = seqs[d][1:]
	}
	return steps, fmt.Sprintf("long:%s:%dKiB:%s:%s", mode, maxKiB, pos, kind)
}

// relaySpecPayload: the payload of an edited frame for a `wire` op; long runs of one byte travel as
// fill:<n>:<byte> parts (an edited fill frame is a few runs), the rest as hex.
func relaySpecPayload(b []byte) string {
	if len(b) < 64 {
		return payloadHex(b)
	}
	var parts []string
	for i := 0; i < len(b); {
		j := i
		for j < len(b) && b[j] == b[i] {
			j++
		}
		if j-i >= 16 {
			parts = append(parts, fmt.Sprintf("fill:%d:%02x", j-i, b[i]))
		} else {
			parts = append(parts, fmt.Sprintf("%x", b[i:j]))
		}
		if len(parts) > 64 {
			return payloadHex(b)
		}
		i = j
	}
	return strings.Join(parts, "+")
}

func relayStreamCase(c *Ctx, idx int) Case {
	w := newWorld()
	n := 1 + c.Rng.Intn(4)
	// every 8th case (20th in thorough) has a LONG cleartext phase (see relayLongPlan)
	var plan []relayStep
	long := idx%c.Pick(8, 20) == 5
	if long {
		var label string
		plan, label = relayLongPlan(c)
		n = len(plan)
		c.Count(label[:strings.LastIndex(label, ":")])
	}
	changed := false
	sentAll, seenAll := map[string][]byte{}, map[string][]byte{}
	for i := 0; i < n; i++ {
		var from string
		var d []byte
		var ed clearEdit
		second := func() []byte { return randBytes(c, c.Rng.Intn(24)) }
		if long {
			st := plan[i]
			from, d, ed = st.from, bytes.Repeat([]byte{st.fill}, st.size), clearEdit{kind: st.kind}
			second = func() []byte { return bytes.Repeat([]byte{st.fill ^ 0x5a}, 1+c.Rng.Intn(st.size+1)) }
		} else {
			from = "A"
			if c.Rng.Intn(2) == 0 {
				from = "B"
			}
			d = randBytes(c, c.Rng.Intn(24))
		}
		to := w.peer(from).name
		_ = w.send(from, 1, d)
		if !long {
			ed = clearEdit{kind: pick(c, []string{"none", "none", "flip", "hdrflag", "insert", "drop", "split", "append", "merge"})}
		}
		if ed.kind == "merge" {
			// a second message from the same side, so that two adjacent frames are in flight
			_ = w.send(from, 1, second())
		}
		honest := append([]byte{}, w.pending[to]...)
		frames, _ := refcodec.ParseFrames(honest)
		var out []refcodec.Frame
		switch ed.kind {
		case "flip":
			f := frames[0]
			if len(f.Body) > 0 {
				b := append([]byte{}, f.Body...)
				b[c.Rng.Intn(len(b))] ^= byte(1 << uint(c.Rng.Intn(8)))
				f.Body = b
			} else {
				f.Flag ^= 1
			}
			out = []refcodec.Frame{f}
		case "hdrflag":
			// the receiver accepts end flags 0..10 and treats every non-zero one as end of message:
			// rewriting 1 to 2..10 leaves the parse unchanged, only the transcript differs
			f := frames[0]
			f.Flag = pick(c, []byte{f.Flag ^ 1, 2, 3, 7, 10})
			out = []refcodec.Frame{f}
		case "insert":
			out = []refcodec.Frame{{Flag: byte(c.Rng.Intn(2)), Len: 0, Body: nil}, frames[0]}
			if c.Rng.Intn(2) == 0 {
				out = []refcodec.Frame{frames[0], {Flag: 1, Len: 0, Body: nil}}
			}
		case "drop":
			out = nil
		case "split":
			f := frames[0]
			if len(f.Body) >= 2 {
				k := 1 + c.Rng.Intn(len(f.Body)-1)
				out = []refcodec.Frame{{Flag: 0, Len: uint32(k), Body: f.Body[:k]}, {Flag: f.Flag, Len: uint32(len(f.Body) - k), Body: f.Body[k:]}}
			} else {
				out = frames
			}
		case "merge":
			// both frames re-framed as one: same payload bytes, different framing
			if len(frames) >= 2 {
				a, b := frames[0], frames[1]
				body := append(append([]byte{}, a.Body...), b.Body...)
				out = []refcodec.Frame{{Flag: b.Flag, Len: uint32(len(body)), Body: body}}
			} else {
				out = frames
			}
		case "append":
			f := frames[0]
			f.Body = append(append([]byte{}, f.Body...), 0x41)
			f.Len++
			out = []refcodec.Frame{f}
		default:
			out = frames
		}
		var ob []byte
		var specs []string
		for _, f := range out {
			ob = append(ob, f.Bytes()...)
			specs = append(specs, fmt.Sprintf("r%d:%s", f.Flag, relaySpecPayload(f.Body)))
		}
		// what counts is the whole transcript of the direction (an empty frame inserted by one edit and
		// an empty message swallowed by a later one leave the receiver with exactly what was sent)
		sentAll[to] = append(sentAll[to], honest...)
		seenAll[to] = append(seenAll[to], ob...)
		changed = !bytes.Equal(sentAll["A"], seenAll["A"]) || !bytes.Equal(sentAll["B"], seenAll["B"])
		w.pending[to] = nil
		w.ep(to).c.Feed(ob)
		w.log(strings.TrimRight("wire "+to+" "+strings.Join(specs, " "), " "), "ok")
		for range out {
			if _, _, err := w.recvf(to); err != nil {
				break
			}
		}
		c.Count("edit:" + ed.kind)
	}
	w.dead = false
	w.key("A", 31)
	w.key("B", 31)
	// first protected frame each way
	okAB, okBA := false, false
	if w.send("A", 1, []byte("app-a2b")) == nil {
		if m, err := w.recvc("B"); err == nil && string(m) == "app-a2b" {
			okAB = true
		}
	}
	w.dead = false
	if w.send("B", 1, []byte("app-b2a")) == nil {
		if m, err := w.recvc("A"); err == nil && string(m) == "app-b2a" {
			okBA = true
		}
	}
	// ---- property oracle C04 ----
	if changed && (okAB || okBA) {
		key, what := "C04:stream:accepted-after-tamper", "the cleartext exchanged before key installation was modified in transit, yet a first protected frame authenticated"
		if long {
			key, what = "C04:stream:long-cleartext-accepted-after-tamper", fmt.Sprintf("a long cleartext phase (%d frames, %d bytes towards A, %d towards B) was modified in transit, yet a first protected frame authenticated", n, len(sentAll["A"]), len(sentAll["B"]))
		}
		c.Violate(Violation{Property: "C04", Key: key, What: what,
			Ops: append([]string{}, w.ops...), Expected: "both first protected frames rejected", Observed: fmt.Sprintf("A->B accepted=%v B->A accepted=%v", okAB, okBA)})
	}
	if !changed && !(okAB && okBA) {
		c.Violate(Violation{Property: "C04", Key: "C04:stream:honest-rejected", What: "an untampered cleartext exchange did not bind (first protected frame rejected)",
			Ops: append([]string{}, w.ops...), Expected: "accepted", Observed: fmt.Sprintf("A->B=%v B->A=%v", okAB, okBA)})
	}
	w.finish()
	c.Distinct(strings.Join(w.ops, "\n"), changed)
	if idx < 2 {
		c.Sample(map[string]any{"ops": abbreviate(w.ops), "real": abbreviate(w.real)})
	}
	return Case{Label: fmt.Sprintf("relay-stream#%d", idx), Ops: w.ops, Real: w.real}
}

func payloadHex(b []byte) string {
	if len(b) == 0 {
		return "-"
	}
	return fmt.Sprintf("%x", b)
}

/* ---------- part 2: whole handshakes through a byte-editing relay (property oracle) ---------- */

type relayEdit struct {
	dir   int    // 0 = client->server, 1 = server->client
	frame int    // frame index in that direction
	kind  string // xor insert drop split merge
	off   int    // byte offset inside the serialized frame (header included)
	val   byte
	// kind "rewrite": a SEMANTIC edit of a cleartext negotiation ad -- the value of attribute attr is
	// replaced by newVal (ClassAd source text) and the frame re-framed to its new length; in direction
	// dir only, or (both) in the first frame of BOTH directions at once
	attr, newVal string
	both         bool
}

type relayStats struct {
	mu      sync.Mutex
	applied bool     // the edit really changed the bytes in transit (its frame came and was long enough)
	frames  [2][]int // serialized sizes of frames forwarded so far
	order   []int    // direction of every frame in the order the relay took them
	raw     [2][][]byte // the frames as the sender wrote them (header included)
	nApplied int        // how many frames an edit changed (a rewrite of both ads: 2)
}

// messages: what the senders wrote, as messages in the order the relay took their first frame (for
// readAuthLoop: which method exchanges ran on the wire and which one completed).
func (st *relayStats) messages() []tapMsg {
	st.mu.Lock()
	defer st.mu.Unlock()
	var out []tapMsg
	open := [2]int{-1, -1}
	idx := [2]int{}
	for seq, d := range st.order {
		raw := st.raw[d][idx[d]]
		idx[d]++
		f := refcodec.Frame{Flag: raw[0], Len: uint32(len(raw) - 5), Body: raw[5:]}
		if open[d] < 0 {
			out = append(out, tapMsg{dir: d, seq: seq})
			open[d] = len(out) - 1
		}
		m := &out[open[d]]
		m.frames = append(m.frames, f)
		m.payload = append(m.payload, f.Body...)
		if f.Flag != 0 {
			open[d] = -1
		}
	}
	return out
}

// adPrefix: bytes in front of the expression strings of the negotiation ad in the first message of a
// direction: [command int64] (client only) [expression count int64].
func adPrefix(dir int) int {
	if dir == 0 {
		return 16
	}
	return 8
}

// adAttrs lists `name -> value source text` of the ad carried by a first frame (body, no header).
func adAttrs(body []byte, dir int) (names []string, vals map[string]string) {
	vals = map[string]string{}
	if len(body) < adPrefix(dir) {
		return
	}
	for _, part := range bytes.Split(body[adPrefix(dir):], []byte{0}) {
		s := string(part)
		eq := strings.Index(s, " = ")
		if eq <= 0 {
			continue
		}
		names = append(names, s[:eq])
		vals[s[:eq]] = s[eq+3:]
	}
	return
}

// rewriteAd replaces the value of attr in the ad of a first frame; returns the re-framed frame.
func rewriteAd(raw []byte, dir int, attr, newVal string) ([]byte, bool) {
	body := raw[5:]
	pre := adPrefix(dir)
	if len(body) < pre {
		return nil, false
	}
	parts := bytes.Split(body[pre:], []byte{0})
	hit := false
	for i, part := range parts {
		if strings.HasPrefix(string(part), attr+" = ") && string(part) != attr+" = "+newVal {
			parts[i] = []byte(attr + " = " + newVal)
			hit = true
			break
		}
	}
	if !hit {
		return nil, false
	}
	nb := append(append([]byte{}, body[:pre]...), bytes.Join(parts, []byte{0})...)
	f := refcodec.Frame{Flag: raw[0], Len: uint32(len(nb)), Body: nb}
	return f.Bytes(), true
}

func (st *relayStats) markApplied() {
	st.mu.Lock()
	st.applied = true
	st.nApplied++
	st.mu.Unlock()
}

func readFrame(src *bufpipe.Conn) (hdr, body []byte, ok bool) {
	hdr = make([]byte, 5)
	if _, err := io.ReadFull(src, hdr); err != nil {
		return nil, nil, false
	}
	n := binary.BigEndian.Uint32(hdr[1:5])
	if n > 2<<20 {
		return nil, nil, false
	}
	body = make([]byte, n)
	if _, err := io.ReadFull(src, body); err != nil {
		return nil, nil, false
	}
	return hdr, body, true
}

func pump(src, dst *bufpipe.Conn, dir int, ed *relayEdit, st *relayStats, stop *bool) {
	idx := 0
	var cur []byte
	note := func(n int) {
		st.mu.Lock()
		st.frames[dir] = append(st.frames[dir], n)
		st.order = append(st.order, dir)
		st.raw[dir] = append(st.raw[dir], append([]byte{}, cur...))
		st.mu.Unlock()
	}
	for {
		hdr, body, ok := readFrame(src)
		if !ok {
			dst.Close()
			return
		}
		n := uint32(len(body))
		raw := append(hdr, body...)
		cur = raw
		note(len(raw))
		out := raw
		if ed != nil && (ed.dir == dir || (ed.both && ed.kind == "rewrite")) && ed.frame == idx {
			switch ed.kind {
			case "rewrite":
				if nw, ok := rewriteAd(raw, dir, ed.attr, ed.newVal); ok {
					out = nw
					st.markApplied()
				}
			case "xor":
				if ed.off < len(raw) {
					out = append([]byte{}, raw...)
					out[ed.off] ^= ed.val
					st.markApplied()
				}
			case "insert":
				out = append([]byte{0, 0, 0, 0, 0}, raw...)
				st.markApplied()
			case "drop":
				out = nil
				st.markApplied()
			case "split":
				if n >= 2 {
					k := int(n) / 2
					a := refcodec.Frame{Flag: 0, Len: uint32(k), Body: body[:k]}
					b := refcodec.Frame{Flag: hdr[0], Len: n - uint32(k), Body: body[k:]}
					out = append(a.Bytes(), b.Bytes()...)
					st.markApplied()
				}
			case "merge":
				// this frame and the next one of the same direction re-framed as ONE frame carrying
				// both payloads (end flag of the second): the payload byte stream is unchanged, only
				// the framing -- which the transcript digest covers -- differs
				hdr2, body2, ok2 := readFrame(src)
				if !ok2 {
					dst.Close()
					return
				}
				cur = append(append([]byte{}, hdr2...), body2...)
				note(5 + len(body2))
				idx++
				m := refcodec.Frame{Flag: hdr2[0], Len: n + uint32(len(body2)), Body: append(append([]byte{}, body...), body2...)}
				out = m.Bytes()
				st.markApplied()
			}
		}
		idx++
		if len(out) > 0 {
			if _, err := dst.Write(out); err != nil {
				return
			}
		}
	}
}


// adAlternatives: plausible other values for attributes of the cleartext negotiation / resumption ads
// (ClassAd source text). The honest value itself is skipped where it occurs.
var adAlternatives = map[string][]string{
	"RemoteVersion": {
		`"$CondorVersion: 9.0.0 2021-04-14 BuildID: 536147 PackageID: 9.0.0-1 $"`, // older than every feature gate
		`"$CondorVersion: 8.8.17 2022-03-15 BuildID: 578027 $"`,
		`"$CondorVersion: 9.0.1 2021-05-17 BuildID: 540462 $"`,
		`"$CondorVersion: 10.0.9 2023-09-28 BuildID: 678228 $"`,
		`"$CondorVersion: 99.1.0 2031-01-01 BuildID: 999999 $"`, // newer
		`"not a version"`, `""`,
	},
	"CryptoMethods":       {`"AES,3DES"`, `"3DES,AES"`, `"BLOWFISH,AES"`, `"3DES"`, `""`},
	"CryptoMethodsList":   {`"AES,3DES"`, `"3DES,AES"`, `"BLOWFISH"`},
	"AuthMethods":         {`"CLAIMTOBE,FS"`, `"FS,CLAIMTOBE"`, `"CLAIMTOBE,TOKEN"`, `"TOKEN,CLAIMTOBE"`, `"CLAIMTOBE"`, `"FS"`, `"TOKEN"`, `"NONE"`},
	"AuthMethodsList":     {`"CLAIMTOBE,FS"`, `"FS,CLAIMTOBE"`, `"TOKEN,CLAIMTOBE"`, `"CLAIMTOBE"`},
	"Encryption":          {`"REQUIRED"`, `"PREFERRED"`, `"OPTIONAL"`, `"NEVER"`, `"YES"`, `"NO"`},
	"Authentication":      {`"REQUIRED"`, `"PREFERRED"`, `"OPTIONAL"`, `"NEVER"`, `"YES"`, `"NO"`},
	"Integrity":           {`"REQUIRED"`, `"OPTIONAL"`, `"NEVER"`, `"YES"`, `"NO"`},
	"Enact":               {`"YES"`, `"NO"`},
	"NewSession":          {`"YES"`, `"NO"`},
	"UseSession":          {`"YES"`, `"NO"`},
	"ResumeResponse":      {"true", "false"},
	"NegotiatedSession":   {"true", "false"},
	"OutgoingNegotiation": {`"REQUIRED"`, `"PREFERRED"`, `"OPTIONAL"`, `"NEVER"`},
	"ReturnCode":          {`"AUTHORIZED"`, `"DENIED"`, `"SID_NOT_FOUND"`, `""`},
	"SessionDuration":     {"1", "86400", "0"},
	"SessionLease":        {"1", "3600"},
}

// altValues: the catalogue's values for attr plus generic neighbours of the honest value (a list in
// reverse order, a string with one more character or another first letter, a number one higher, a
// boolean negated), the honest value excluded.
func altValues(attr, honest string) []string {
	out := append([]string{}, adAlternatives[attr]...)
	if len(honest) >= 2 && honest[0] == '"' && honest[len(honest)-1] == '"' {
		in := honest[1 : len(honest)-1]
		if strings.Contains(in, ",") {
			l := strings.Split(in, ",")
			for i, j := 0, len(l)-1; i < j; i, j = i+1, j-1 {
				l[i], l[j] = l[j], l[i]
			}
			out = append(out, `"`+strings.Join(l, ",")+`"`)
		}
		out = append(out, `"`+in+`x"`)
		if in != "" {
			b := []byte(in)
			b[0] ^= 0x20
			if b[0] >= 0x21 && b[0] < 0x7f && b[0] != '"' && b[0] != '\\' {
				out = append(out, `"`+string(b)+`"`)
			}
		}
	} else if honest == "true" || honest == "false" {
		out = append(out, map[string]string{"true": "false", "false": "true"}[honest])
	} else if v, err := strconv.ParseInt(honest, 10, 64); err == nil {
		out = append(out, fmt.Sprint(v+1))
	}
	var uniq []string
	seen := map[string]bool{honest: true}
	for _, v := range out {
		if !seen[v] {
			seen[v] = true
			uniq = append(uniq, v)
		}
	}
	return uniq
}

// rewriteEdits: the semantic edits of the two ads seen in the honest run: every attribute x every
// alternative value, in the direction that carries it -- and, for attributes both ads carry, in both
// directions at once (the same value put into both).
func rewriteEdits(c *Ctx, st *relayStats) (edits []relayEdit) {
	st.mu.Lock()
	defer st.mu.Unlock()
	var vals [2]map[string]string
	var names [2][]string
	for d := 0; d < 2; d++ {
		if len(st.raw[d]) == 0 {
			return nil
		}
		names[d], vals[d] = adAttrs(st.raw[d][0][5:], d)
	}
	for d := 0; d < 2; d++ {
		for _, a := range names[d] {
			if a == "MyType" || a == "TargetType" {
				continue
			}
			alts := altValues(a, vals[d][a])
			if a == "ECDHPublicKey" && !c.Thorough() {
				alts = alts[:1]
			}
			for _, v := range alts {
				edits = append(edits, relayEdit{dir: d, frame: 0, kind: "rewrite", attr: a, newVal: v})
				if _, inOther := vals[1-d][a]; inOther && d == 0 && v != vals[1][a] {
					edits = append(edits, relayEdit{dir: 0, frame: 0, kind: "rewrite", attr: a, newVal: v, both: true})
				}
			}
		}
	}
	return
}

var relayPanics atomic.Int64 // panics inside the library while a tampered handshake ran (a C13 matter; counted in the notes)

type relayShape struct {
	name    string
	resumed bool
	method  string // the method that must complete in the unmodified run ("" = none)
	// two-method shapes: failFirst is the method whose exchange must RUN AND FAIL on the wire before
	// `method` completes (an abandoned authentication attempt: its frames are cleartext transcript too);
	// nat: the client reaches the server through an address translator (FS then fails)
	failFirst string
	nat       bool
	cli     func(cache *security.SessionCache) *security.SecurityConfig
	srv     func() *security.SecurityConfig
}

// an unmodified run is bounded generously (the bound only ends a run that already failed); an edited
// run that STALLS (a dropped frame leaves both ends reading) is recognised as an event and ended at
// once (relayRunBound). The time bound is a backstop: a run it ends (timedOut) says nothing -- neither
// "the tampering was rejected" nor "the edit was not applied" -- and is repeated on its own with
// relayRetryTimeout; one that is late again is left out of the verdict and of the ratios, and counted.
const relayRetryTimeout = 20 * time.Second
const relayEditTimeout = 5 * time.Second

type relayOut struct {
	timedOut         bool // the run was ended by the harness's time bound, not by either endpoint
	stalled          bool // every party was waiting for another (detected as an event): ended at once
	hsOK, appOK      bool
	enc              bool // either end's stream was AES-GCM keyed when its handshake returned success
	resumed          bool // the client reports that it resumed a cached session
	cMethod, sMethod string
	st               *relayStats
}

// relayRun performs one handshake (fresh or resumed) through the relay; reports whether both
// handshakes succeeded and whether application messages were then delivered both ways.
func (o relayOut) applied() bool {
	o.st.mu.Lock()
	defer o.st.mu.Unlock()
	return o.st.applied
}

func relayRun(sh relayShape, cache *security.SessionCache, ed *relayEdit) (o relayOut) {
	bound := hsHonestTimeout
	if ed != nil {
		bound = relayEditTimeout
	}
	return relayRunBound(sh, cache, ed, bound)
}

func relayRunBound(sh relayShape, cache *security.SessionCache, ed *relayEdit, bound time.Duration) (o relayOut) {
	// the client's view of the server address is the server's real one (FS names the endpoint)
	c1, r1 := bufpipe.Pair("10.0.0.1:1111", "10.0.0.2:9618")
	r2, s1 := bufpipe.Pair("10.0.0.1:1111", "10.0.0.2:9618")
	st := &relayStats{}
	o.st = st
	stop := false
	go pump(r1, r2, 0, ed, st, &stop)
	go pump(r2, r1, 1, ed, st, &stop)
	ctx, cancel := context.WithTimeout(context.Background(), bound)
	defer cancel()
	// An edit that leaves every party waiting for another (a dropped frame, a length field made
	// larger) never resolves: that is detected as an EVENT -- both relay pumps and both endpoints
	// parked in Read (an endpoint whose handshake already returned counts as parked) with nothing
	// buffered and nothing written while we looked -- and the run is ended at once. The time bound
	// is then only a backstop for a run that is slow, and can be generous.
	var cliDone, srvDone, appPhase, stalled atomic.Bool
	monDone := make(chan struct{})
	defer close(monDone)
	go func() {
		tick := time.NewTicker(300 * time.Microsecond)
		defer tick.Stop()
		written := func() int { return c1.WrittenLen() + r1.WrittenLen() + r2.WrittenLen() + s1.WrittenLen() }
		for {
			select {
			case <-monDone:
				return
			case <-tick.C:
			}
			n0 := written()
			c1w, s1w := c1.ReadWaiting(), s1.ReadWaiting()
			parked := (cliDone.Load() || c1w) && (srvDone.Load() || s1w) && !(cliDone.Load() && srvDone.Load())
			if appPhase.Load() { // one goroutine drives both ends in turn: it is parked when either end is
				parked = c1w || s1w
			}
			if parked && r1.ReadWaiting() && r2.ReadWaiting() && written() == n0 {
				stalled.Store(true)
				cancel()
				return
			}
		}
	}()
	cst, sst := stream.NewStream(c1), stream.NewStream(s1)
	if sh.nat {
		cst = stream.NewStream(&natConn{Conn: c1, remote: strAddr("192.0.2.77:9618")})
	}
	sst.SetPeerAddr("10.0.0.1:1111")
	var sneg *security.SecurityNegotiation
	var serr error
	var wg sync.WaitGroup
	wg.Add(1)
	go func() {
		defer wg.Done()
		a := security.NewAuthenticator(sh.srv(), sst)
		defer func() {
			if r := recover(); r != nil {
				serr = fmt.Errorf("PANIC in ServerHandshake: %v", r)
				relayPanics.Add(1)
				s1.Close()
			}
		}()
		sneg, serr = a.ServerHandshake(ctx)
		srvDone.Store(true)
		if serr != nil {
			s1.Close()
		}
	}()
	a := security.NewAuthenticator(sh.cli(cache), cst)
	var cerr error
	var cneg *security.SecurityNegotiation
	func() {
		defer func() {
			if r := recover(); r != nil {
				cerr = fmt.Errorf("PANIC in ClientHandshake: %v", r)
				relayPanics.Add(1)
			}
		}()
		cneg, cerr = a.ClientHandshake(ctx)
	}()
	cliDone.Store(true)
	if cerr != nil {
		c1.Close()
	}
	wg.Wait()
	o.hsOK = cerr == nil && serr == nil
	o.timedOut = ctx.Err() != nil && !stalled.Load()
	if o.hsOK {
		o.resumed = a.WasSessionResumed()
		if cneg != nil && cneg.Authentication {
			o.cMethod = string(cneg.NegotiatedAuth)
		}
		if sneg != nil && sneg.Authentication {
			o.sMethod = string(sneg.NegotiatedAuth)
		}
		o.enc = cst.IsEncrypted() || sst.IsEncrypted()
		appPhase.Store(true)
		e1 := cst.SendMessage(ctx, []byte("c2s-app"))
		m1, e2 := sst.ReceiveCompleteMessage(ctx)
		ok1 := e1 == nil && e2 == nil && string(m1) == "c2s-app"
		e3 := sst.SendMessage(ctx, []byte("s2c-app"))
		m2, e4 := cst.ReceiveCompleteMessage(ctx)
		ok2 := e3 == nil && e4 == nil && string(m2) == "s2c-app"
		o.appOK = ok1 || ok2
	}
	o.stalled = stalled.Load()
	if !o.timedOut {
		o.timedOut = ctx.Err() != nil && !o.stalled
	}
	c1.Close()
	s1.Close()
	r1.Close()
	r2.Close()
	return
}

// natConn: the client's end as seen from behind an address translator (it dialled `remote`).
type natConn struct {
	*bufpipe.Conn
	remote net.Addr
}

func (n *natConn) RemoteAddr() net.Addr { return n.remote }

func relayShapes(hm *hsMaterial) []relayShape {
	m := hm.stallMaterial
	claimSrv := func() *security.SecurityConfig {
		sc := *srvConf(true)
		sc.Authentication = security.SecurityOptional
		return &sc
	}
	claimCli := func(level security.SecurityLevel) func(cache *security.SessionCache) *security.SecurityConfig {
		return func(cache *security.SessionCache) *security.SecurityConfig {
			cc := *cliConf(cache, "")
			cc.Authentication = level
			return &cc
		}
	}
	aes := []string{"AES"}
	return []relayShape{
		{name: "noauth", cli: claimCli(security.SecurityNever), srv: claimSrv},
		{name: "claimtobe", method: "CLAIMTOBE", cli: claimCli(security.SecurityPreferred), srv: claimSrv},
		{name: "resumed", resumed: true, cli: claimCli(security.SecurityPreferred), srv: claimSrv},
		{name: "token", method: "TOKEN", cli: func(cache *security.SessionCache) *security.SecurityConfig {
			cc := stallConf([]string{"TOKEN"}, "REQUIRED", "OPTIONAL", aes)
			cc.SessionCache, cc.PeerName = cache, "srvA"
			cc.TokenFile, cc.TrustDomain, cc.IssuerKeys = m.tokenFile, "example.com", []string{"POOL"}
			return cc
		}, srv: func() *security.SecurityConfig {
			sc := stallConf([]string{"TOKEN"}, "REQUIRED", "OPTIONAL", aes)
			sc.SessionCache = nil
			sc.TrustDomain, sc.TokenPoolSigningKeyFile, sc.TokenSigningKeyDir = "example.com", m.poolKeyFile, m.keyDir
			return sc
		}},
		{name: "fs", method: "FS", cli: func(cache *security.SessionCache) *security.SecurityConfig {
			cc := stallConf([]string{"FS"}, "REQUIRED", "OPTIONAL", aes)
			cc.SessionCache, cc.PeerName = cache, "srvA"
			return cc
		}, srv: func() *security.SecurityConfig {
			sc := stallConf([]string{"FS"}, "REQUIRED", "OPTIONAL", aes)
			sc.SessionCache = nil
			return sc
		}},
		// the FIRST common method runs on the wire and fails, both ends abandon it and a later one
		// completes: the frames of the abandoned attempt are cleartext transcript like any other
		{name: "fs-fails-claim", method: "CLAIMTOBE", failFirst: "FS", nat: true, cli: func(cache *security.SessionCache) *security.SecurityConfig {
			cc := stallConf([]string{"FS", "CLAIMTOBE"}, "REQUIRED", "OPTIONAL", aes)
			cc.SessionCache, cc.PeerName = cache, "srvA"
			return cc
		}, srv: func() *security.SecurityConfig {
			sc := stallConf([]string{"FS", "CLAIMTOBE"}, "REQUIRED", "OPTIONAL", aes)
			sc.SessionCache = nil
			return sc
		}},
		{name: "token-bad-claim", method: "CLAIMTOBE", failFirst: "TOKEN", cli: func(cache *security.SessionCache) *security.SecurityConfig {
			cc := stallConf([]string{"TOKEN", "CLAIMTOBE"}, "REQUIRED", "OPTIONAL", aes)
			cc.SessionCache, cc.PeerName = cache, "srvA"
			hm.cliToken(hm.badTokenFile)(cc)
			return cc
		}, srv: func() *security.SecurityConfig {
			sc := stallConf([]string{"TOKEN", "CLAIMTOBE"}, "REQUIRED", "OPTIONAL", aes)
			sc.SessionCache = nil
			hm.srvToken()(sc)
			return sc
		}},
	}
}

func runRelay(c *Ctx) error {
	c.Res.Rule = "part 1 (stream level, compared with the model): 1-4 cleartext frames in either direction each edited in transit (payload bit flip, end flag flipped or rewritten to another accepted value 2..10, empty frame inserted before/after, frame dropped, split in two, two adjacent frames merged into one, byte appended), then keys installed and one protected message each way; every 8th case (20th in thorough) a LONG cleartext phase instead: 12-48 frames of ragged size in one direction or 12-48 in each of both (interleaved at random), each loaded direction carrying at least 24/40/80/144/288/320 KiB, one frame among the first two, the middle three or the last two of its direction edited by one of the same edits (or none: the honest long exchange must bind); part 2 (whole handshakes through a byte-editing relay, property oracle): shapes {no authentication, CLAIMTOBE, TOKEN, FS, resumed session (checked to have resumed), FS-fails-then-CLAIMTOBE, bad-TOKEN-then-CLAIMTOBE (checked on the wire)} x every frame of the handshake in each direction x (every byte offset x xor 0x01/0x80 in thorough, every 3rd-6th offset in quick; the end-flag byte also rewritten to 2, 3 and 10) plus empty-frame insertion, frame removal, frame splitting and merging of every pair of adjacent cleartext frames of a direction; two further shapes in which the FIRST method runs and fails on the wire (FS through an address translator, TOKEN signed by a foreign key) before CLAIMTOBE completes, every frame of the abandoned exchange edited too; SEMANTIC edits of the two cleartext ads: every attribute present x a catalogue of plausible other values (RemoteVersion older / newer / unparsable, method and cipher lists extended / reordered, levels and YES/NO swapped, booleans, numbers, generic neighbours of the honest value), the ad re-framed, in one direction and -- for attributes both ads carry -- in both at once; edits that could not be run are counted and bounded; distinct by (shape, edit); non-trivial = the edit lands in a frame exchanged before the application data"
	defer quietStdout()()
	var cases []Case
	n := c.Pick(600, 8000)
	for i := 0; i < n; i++ {
		cases = append(cases, relayStreamCase(c, i))
	}
	if err := diffBatch(c, "stream", cases, nil); err != nil {
		return err
	}
	// part 2
	work, err := os.MkdirTemp(fsWorkDir(c), scratchPrefix("relay"))
	if err != nil {
		return err
	}
	defer os.RemoveAll(work)
	mat, matCleanup, err := hsPrepare(c)
	if err != nil {
		return err
	}
	defer matCleanup()
	defer func() {
		// only the directories named on this engine's own connections (fs_own_dirs.go), never a glob of /tmp
		if n := ownFS.cleanup(); n > 0 {
			c.Res.Distribution["fs-dir-left-behind-removed"] += n
		}
		c.Res.Distribution["fs-dir-names-seen-on-own-wire"] = len(ownFS.all())
	}()
	obligation := func(label, what string) {
		// a precondition of the engine's own coverage claim failed: reported as a broken
		// correspondence obligation (no failing input of the property)
		c.Res.Mismatches = append(c.Res.Mismatches, Mismatch{Label: "relay: " + label, Ops: []string{what}, Real: []string{"precondition failed"}, Model: []string{"precondition holds"}})
	}
	shapes := relayShapes(mat)
	planned, skipped, notApplied, lateTwice := 0, 0, 0, 0
	for _, sh := range shapes {
		sh := sh
		security.ClearSessionCache()
		cache := security.NewSessionCache()
		prep := func() bool {
			security.ClearSessionCache()
			cache = security.NewSessionCache()
			if sh.resumed {
				// establish the session to resume: an unmodified full handshake (retried once: the
				// bound is generous, a failure here is not an observation of the property)
				full := sh
				full.resumed = false
				for try := 0; try < 2; try++ {
					if o := relayRun(full, cache, nil); o.hsOK {
						return true
					}
				}
				return false
			}
			return true
		}
		if !prep() {
			obligation(sh.name, "could not establish the session to resume")
			continue
		}
		o := relayRun(sh, cache, nil)
		if !o.hsOK || !o.appOK {
			// an honest run is judged after it failed twice (the FS shape has its directory in the shared
			// /tmp for the duration of the exchange; the bound is generous but it is a bound)
			c.Count("honest-run-repeated:" + sh.name)
			if prep() {
				o = relayRun(sh, cache, nil)
			}
		}
		if !o.hsOK || !o.appOK {
			c.Violate(Violation{Property: "C04", Key: "C04:honest-relay-failed:" + sh.name, What: "an unmodified handshake through the relay failed", Ops: []string{"shape " + sh.name}, Expected: "success", Observed: fmt.Sprintf("hs=%v app=%v", o.hsOK, o.appOK)})
			continue
		}
		if sh.resumed && !o.resumed {
			obligation(sh.name, "the shape meant to exercise a RESUMED handshake performed a full one")
			continue
		}
		if !sh.resumed && (o.resumed || o.cMethod != sh.method || o.sMethod != sh.method) {
			obligation(sh.name, fmt.Sprintf("the shape did not run the handshake it is named after: resumed=%v client method=%q server method=%q want %q", o.resumed, o.cMethod, o.sMethod, sh.method))
			continue
		}
		st := o.st
		if sh.failFirst != "" {
			wa := readAuthLoop(st.messages(), nil)
			if !(wa.parsed && len(wa.ranAny) >= 2 && wa.ranAny[0] == sh.failFirst && len(wa.ranOK) == 1 && wa.ranOK[0] == sh.method) {
				obligation(sh.name, fmt.Sprintf("the shape meant to run %s to failure and then %s to completion on the wire shows: begun %v completed %v (parsed=%v)", sh.failFirst, sh.method, wa.ranAny, wa.ranOK, wa.parsed))
				continue
			}
			c.Count("shape:" + sh.name + ":first-method-failed-on-the-wire")
		}
		// frames seen during the honest run, minus the two application frames per direction's tail
		var edits []relayEdit
		step := c.Pick(3, 1)
		if !c.Thorough() && (sh.name == "token" || sh.name == "fs" || sh.failFirst != "") {
			step = 5
		}
		for dir := 0; dir < 2; dir++ {
			nf := len(st.frames[dir]) - 1 // the last frame in each direction is the application message
			for f := 0; f < nf; f++ {
				for off := 0; off < st.frames[dir][f]; off += step {
					vals := []byte{0x01}
					if c.Thorough() || off < 5 {
						vals = []byte{0x01, 0x80}
					}
					if off == 0 {
						vals = []byte{0x01, 0x80, 0x02, 0x03, 0x0b} // end flag 1 -> 0, 0x81, 3, 2, 10
					}
					for _, v := range vals {
						edits = append(edits, relayEdit{dir: dir, frame: f, kind: "xor", off: off, val: v})
					}
				}
				edits = append(edits, relayEdit{dir: dir, frame: f, kind: "insert"}, relayEdit{dir: dir, frame: f, kind: "drop"}, relayEdit{dir: dir, frame: f, kind: "split"})
			}
		}
		// merge: every pair of frames the relay took one right after the other in the same
		// direction (no frame of the other direction in between), application frames excluded
		seen := [2]int{}
		for i, d := range st.order {
			f := seen[d]
			seen[d]++
			if i+1 < len(st.order) && st.order[i+1] == d && f+1 < len(st.frames[d])-1 {
				edits = append(edits, relayEdit{dir: d, frame: f, kind: "merge"})
				c.Count("shape:" + sh.name + ":adjacent-pair")
			}
		}
		// semantic edits of the cleartext ads (first frame of each direction)
		edits = append(edits, rewriteEdits(c, st)...)
		// run the edits: fresh handshakes are independent of each other (own cache, own pipes) and run
		// eight at a time; resumed ones share the process-wide cache and run one by one
		type editRes struct{ ran, hs, app, applied, timedOut, stalled, enc bool }
		results := make([]editRes, len(edits))
		if sh.resumed {
			for i := range edits {
				if !prep() {
					continue
				}
				e := edits[i]
				ro := relayRun(sh, cache, &e)
				results[i] = editRes{true, ro.hsOK, ro.appOK, ro.applied(), ro.timedOut, ro.stalled, ro.enc}
			}
		} else {
			sem := make(chan struct{}, 8)
			var wg sync.WaitGroup
			for i := range edits {
				wg.Add(1)
				sem <- struct{}{}
				go func(i int) {
					defer wg.Done()
					defer func() { <-sem }()
					e := edits[i]
					ro := relayRun(sh, security.NewSessionCache(), &e)
					results[i] = editRes{true, ro.hsOK, ro.appOK, ro.applied(), ro.timedOut, ro.stalled, ro.enc}
				}(i)
			}
			wg.Wait()
		}
		// runs ended by the time bound: once more, one at a time, with a longer bound
		for i := range edits {
			if !results[i].ran || !results[i].timedOut {
				continue
			}
			c.Count("edit-timed-out-repeated-alone:" + sh.name)
			if sh.resumed && !prep() {
				continue
			}
			e := edits[i]
			rc := cache
			if !sh.resumed {
				rc = security.NewSessionCache()
			}
			ro := relayRunBound(sh, rc, &e, relayRetryTimeout)
			results[i] = editRes{true, ro.hsOK, ro.appOK, ro.applied(), ro.timedOut, ro.stalled, ro.enc}
		}
		for i, ed := range edits {
			planned++
			if !results[i].ran {
				skipped++
				c.Count("edit-skipped:" + sh.name)
				continue
			}
			hs, app := results[i].hs, results[i].app
			if results[i].stalled {
				c.Count("edit-run-stalled-detected-as-event:" + sh.name)
			}
			if results[i].timedOut {
				// late twice: no observation (not "rejected", not "not applied")
				c.Count("edit-timed-out-twice-excluded:" + sh.name)
				lateTwice++
				continue
			}
			if !results[i].applied {
				// the edited run's frame never came or was shorter than in the unmodified run (a random
				// part of the handshake, e.g. the FS directory name, varies in length): nothing was
				// changed in transit, so the run says nothing about the property
				c.Count("edit-not-applied:" + sh.name)
				notApplied++
				continue
			}
			c.Distinct(fmt.Sprintf("%s|%+v", sh.name, ed), true)
			c.Count("shape:" + sh.name + ":" + ed.kind)
			if ed.kind == "rewrite" {
				dirs := fmt.Sprintf("dir%d", ed.dir)
				if ed.both {
					dirs = "both"
				}
				c.Count("rewrite:" + dirs)
				c.Count("rewrite-attr:" + ed.attr)
				switch {
				case hs && app && results[i].enc:
					c.Violate(Violation{Property: "C04", Key: fmt.Sprintf("C04:handshake:%s:rewrite:%s:%s", sh.name, ed.attr, dirs), What: "the value of an attribute of a cleartext negotiation ad was rewritten in transit (the ad re-framed), the handshake ended with encryption on, and application data was accepted afterwards",
						Ops: []string{"shape " + sh.name, fmt.Sprintf("rewrite %s := %s in %s", ed.attr, ed.newVal, dirs)}, Expected: "handshake fails or the first protected frame is rejected", Observed: "application message delivered over the keyed stream"})
				case hs && app:
					// the rewrite talked both ends out of a key: no protected frame exists; whether that may
					// happen is a matter of the policies (C03/C10), not of the transcript binding
					c.Count("rewrite-ended-in-plaintext:" + ed.attr)
				}
				continue
			}
			if hs && app {
				c.Violate(Violation{Property: "C04", Key: fmt.Sprintf("C04:handshake:%s:%s:dir%d", sh.name, ed.kind, ed.dir), What: "a byte of the handshake transcript was modified / a frame inserted, removed, split or merged in transit, yet application data was accepted afterwards",
					Ops: []string{"shape " + sh.name, fmt.Sprintf("edit %+v", ed)}, Expected: "handshake fails or the first protected frame is rejected", Observed: "application message delivered"})
			}
			if len(c.Res.Samples) < 5 && c.Rng.Intn(300) == 0 {
				c.Sample(map[string]any{"shape": sh.name, "edit": fmt.Sprintf("%+v", ed), "handshake_ok": hs, "app_accepted": app})
			}
		}
	}
	c.Res.Distribution["edits-planned"] = planned
	c.Res.Distribution["edits-skipped"] = skipped
	c.Res.Distribution["edits-not-applied"] = notApplied
	c.Res.Distribution["edits-timed-out-twice"] = lateTwice
	c.Planned("relay-edits", planned)
	c.Ran("relay-edits", planned-skipped-lateTwice)
	if notApplied*20 > planned-lateTwice {
		obligation("not-applied", fmt.Sprintf("%d of %d planned edits never changed a byte in transit", notApplied, planned))
	}
	if skipped*50 > planned {
		obligation("skipped", fmt.Sprintf("%d of %d planned edits could not be run (the session to resume could not be established)", skipped, planned))
	}
	if n := int(relayPanics.Load()); n > 0 {
		c.Res.Notes = append(c.Res.Notes, fmt.Sprintf("%d tampered handshakes made the library panic (reported under C13, not C04)", n))
		c.Res.Distribution["library-panics"] = n
	}
	security.ClearSessionCache()
	return nil
}
