package main

// C17 workload `hs-sweep`: client handshakes that share ONE SessionCache run concurrently with the
// cache's maintenance (InvalidateExpired, InvalidateExpiredSessions, DebugDump, Snapshot) and with
// other goroutines minting session identifiers through the library's public mint. Every handshake has
// its OWN (tag, server, command set), so after quiescence each one is judged on its own:
//
//   - every session identifier minted while the workload ran -- by the server handshakes and by the
//     direct draws -- is distinct from every other one, and both ends of a handshake name the same one;
//   - a handshake that completed is routable: LookupByCommand for its (tag, server, each command the
//     server declared) finds ITS session, with ITS key -- unless a later Invalidate named it, in which
//     case nothing finds it (linearisable: store, then possibly invalidate);
//   - each session is resumable afterwards with its own key and identity (the next connection for its
//     triple resumes exactly that identifier, both ends echo, the server's entry holds the key the
//     server's handshake ended with).
//
// Nothing expires during the workload (lifetimes are an hour), so a sweep has nothing to remove.

import (
	"bytes"
	"fmt"
	"runtime"
	"sort"
	"strings"
	"sync"
	"sync/atomic"

	"github.com/bbockelm/cedar/security"
)

type sweepRec struct {
	g, r        int
	tag, addr   string
	cmds        []int
	csid, ssid  string
	ckey, skey  []byte
	cuser       string
	cauth       bool
	invalidated bool
	err         string
}

func wlHsSweep(c *Ctx, out *raceWorkerOut) {
	rounds := c.Pick(3, 10)
	out.Dist["planned:hs-sweep-rounds"] += rounds
	for rd := 0; rd < rounds; rd++ {
		security.ClearSessionCache()
		ccache := security.NewSessionCache()
		G := 3 + c.Rng.Intn(4)
		R := c.Pick(3, 6)
		// how many commands the server declares valid for a session: the client maps each of them
		K := pick(c, []int{1, 6, 40, 150})
		sweepers := 1 + c.Rng.Intn(3)
		minters := 2 + c.Rng.Intn(2)
		invalidateEvery := pick(c, []int{0, 2, 3})
		recs := make([][]*sweepRec, G)
		stop := make(chan struct{})
		var mw sync.WaitGroup
		for m := 0; m < sweepers; m++ {
			mw.Add(1)
			go func(m int) {
				defer mw.Done()
				for i := m; ; i++ {
					select {
					case <-stop:
						return
					default:
					}
					switch i % 5 {
					case 0, 1:
						ccache.InvalidateExpired()
					case 2:
						security.InvalidateExpiredSessions()
					case 3:
						_ = ccache.DebugDump()
					case 4:
						for _, e := range ccache.Snapshot() {
							_ = e.IsExpired()
						}
						_ = security.GetSessionCache().DebugDump()
					}
					if i%7 == 0 {
						runtime.Gosched()
					}
				}
			}(m)
		}
		// other goroutines mint identifiers through the same public mint the server handshakes use
		minted := make([][]string, minters)
		for m := 0; m < minters; m++ {
			mw.Add(1)
			go func(m int) {
				defer mw.Done()
				for i := 0; i < 40000; i++ {
					select {
					case <-stop:
						return
					default:
					}
					minted[m] = append(minted[m], security.GenerateSessionID(security.GetNextSessionCounter()))
					if i%64 == 63 {
						runtime.Gosched()
					}
				}
			}(m)
		}
		var wg sync.WaitGroup
		start := make(chan struct{})
		var invN int64
		for g := 0; g < G; g++ {
			wg.Add(1)
			go func(g int) {
				defer wg.Done()
				<-start
				for r := 0; r < R; r++ {
					rec := &sweepRec{g: g, r: r, tag: []string{"", "T1", "T2"}[(g+r)%3], addr: fmt.Sprintf("<10.%d.%d.%d:9618>", rd, g, r)}
					for k := 0; k < K; k++ {
						rec.cmds = append(rec.cmds, 61000+k)
					}
					rec.cmds[0] = raceCmd
					cmds := rec.cmds
					sc := raceSrvConf()
					sc.Authentication = security.SecurityOptional
					sc.PostAuthPolicy = func(string, string, bool, bool) (string, []int) { return "", cmds }
					cc := raceCliConf(ccache, rec.tag)
					cc.PeerName = rec.addr
					p := realPair(cc, sc, fmt.Sprintf("10.0.%d.%d:1111", g, r))
					switch {
					case p.cerr != nil || p.serr != nil || p.cneg == nil || p.sneg == nil:
						rec.err = "client: " + errShort(p.cerr) + " / server: " + errShort(p.serr)
					case p.resumed:
						rec.err = "resumed although the cache held nothing for this triple"
					case !p.exchange():
						rec.err = "the two ends do not hold the same key (echo failed)"
					default:
						rec.csid, rec.ssid = p.cneg.SessionId, p.sneg.SessionId
						rec.ckey = append([]byte{}, p.cneg.GetSharedSecret()...)
						rec.skey = append([]byte{}, p.sneg.GetSharedSecret()...)
						rec.cuser, rec.cauth = p.cneg.User, p.cneg.Authentication
					}
					p.close()
					recs[g] = append(recs[g], rec)
					// a later invalidation that names one of this goroutine's completed sessions
					if invalidateEvery > 0 && r%invalidateEvery == invalidateEvery-1 && rec.err == "" {
						victim := recs[g][c0(r-1)]
						if victim.err == "" && !victim.invalidated {
							ccache.Invalidate(victim.csid)
							victim.invalidated = true
							atomic.AddInt64(&invN, 1)
						}
					}
				}
			}(g)
		}
		close(start)
		wg.Wait()
		close(stop)
		mw.Wait()
		out.count("hs-sweep-round")
		out.Dist["hs-sweep-handshakes"] += G * R
		out.Dist["hs-sweep-invalidated"] += int(invN)
		out.count(fmt.Sprintf("hs-sweep-declared-commands:%d", K))
		shape := []string{fmt.Sprintf("# round %d: %d goroutines x %d full client handshakes (each its own tag/server address, server declares %d commands) sharing ONE SessionCache; %d goroutines loop InvalidateExpired / InvalidateExpiredSessions / DebugDump / Snapshot on it; %d goroutines mint ids with GenerateSessionID(GetNextSessionCounter())", rd, G, R, K, sweepers, minters)}
		out.eval(fmt.Sprintf("hs-sweep:g%d:r%d:k%d:s%d:m%d:i%d", G, R, K, sweepers, minters, invalidateEvery), true)

		// ---- post-conditions after quiescence ----
		var all []*sweepRec
		for g := range recs {
			all = append(all, recs[g]...)
		}
		for _, rec := range all {
			if rec.err != "" {
				out.violate(Violation{Property: "C17", Key: "C17:handshake-disturbed:sweep",
					What:     "a client handshake sharing one SessionCache with concurrent maintenance failed although it succeeds alone",
					Ops:      append(append([]string{}, shape...), fmt.Sprintf("# handshake g%d#%d tag=%q addr=%s", rec.g, rec.r, rec.tag, rec.addr)),
					Expected: "handshake completes and both ends echo", Observed: rec.err})
			}
		}
		// (1) identifiers: both ends agree; every identifier minted during the round is unique
		owner := map[string]string{}
		note := func(id, who string) {
			if prev, dup := owner[id]; dup {
				out.violate(Violation{Property: "C17", Key: "C17:session-id-minted-twice",
					What:     "two concurrent mints produced the SAME session identifier: the second session stored under it replaces the first (key, identity, routes)",
					Ops:      append(append([]string{}, shape...), "# minted by: "+prev, "# minted again by: "+who),
					Expected: "all session identifiers minted by one process pairwise distinct", Observed: "identifier ending …" + idTail(id) + " minted twice"})
				return
			}
			owner[id] = who
		}
		for _, rec := range all {
			if rec.err != "" {
				continue
			}
			if rec.csid != rec.ssid || rec.csid == "" {
				out.violate(Violation{Property: "C17", Key: "C17:handshake-disturbed:sid-differs",
					What: "client and server of one handshake name different session identifiers", Ops: shape,
					Expected: "the identifier the server minted", Observed: fmt.Sprintf("client …%s server …%s", idTail(rec.csid), idTail(rec.ssid))})
			}
			note(rec.ssid, fmt.Sprintf("server handshake g%d#%d", rec.g, rec.r))
		}
		for m := range minted {
			out.Dist["hs-sweep-ids-drawn"] += len(minted[m])
			for i, id := range minted[m] {
				note(id, fmt.Sprintf("GenerateSessionID(GetNextSessionCounter()) draw %d of goroutine %d", i, m))
			}
		}
		// (2) routes: a completed handshake is routable by every declared command, unless invalidated later
		for _, rec := range all {
			if rec.err != "" {
				continue
			}
			var missing, wrong []string
			for _, cmd := range rec.cmds {
				e, ok := ccache.LookupByCommand(rec.tag, rec.addr, fmt.Sprint(cmd))
				switch {
				case rec.invalidated && ok && e.ID() == rec.csid:
					wrong = append(wrong, fmt.Sprint(cmd))
				case !rec.invalidated && !ok:
					missing = append(missing, fmt.Sprint(cmd))
				case !rec.invalidated && e.ID() != rec.csid:
					wrong = append(wrong, fmt.Sprint(cmd))
				}
			}
			ops := append(append([]string{}, shape...), fmt.Sprintf("# handshake g%d#%d tag=%q addr=%s completed (session …%s); afterwards LookupByCommand(tag, addr, cmd) for each of the %d declared commands", rec.g, rec.r, rec.tag, rec.addr, idTail(rec.csid), len(rec.cmds)))
			if rec.invalidated {
				if _, ok := ccache.Lookup(rec.csid); ok || len(wrong) > 0 {
					out.violate(Violation{Property: "C17", Key: "C17:invalidated-session-reachable:sweep",
						What: "a session named by an Invalidate that returned is still reachable", Ops: ops,
						Expected: "no lookup finds it", Observed: fmt.Sprintf("Lookup found=%v, routed commands: %s", ok, abbrevList(wrong))})
				}
				continue
			}
			if len(missing) > 0 || len(wrong) > 0 {
				out.violate(Violation{Property: "C17", Key: "C17:completed-handshake-not-routable",
					What:     "a client handshake completed and stored its session in the shared cache, no invalidation named it, yet the command map does not lead to it: a concurrent maintenance sweep disturbed the store (the session is cached but unreachable, every later connection negotiates anew)",
					Ops:      ops,
					Expected: "every declared command routes to the session",
					Observed: fmt.Sprintf("%d of %d commands not routed (%s); %d routed elsewhere (%s)", len(missing), len(rec.cmds), abbrevList(missing), len(wrong), abbrevList(wrong))})
				continue
			}
			if e, ok := ccache.Lookup(rec.csid); !ok || e.KeyInfo() == nil || !bytes.Equal(e.KeyInfo().Data, rec.ckey) {
				out.violate(Violation{Property: "C17", Key: "C17:cached-session-key-differs",
					What: "the entry cached under a completed handshake's identifier does not hold the key that handshake ended with", Ops: ops,
					Expected: "the handshake's own key", Observed: fmt.Sprintf("entry present=%v", ok)})
			}
		}
		// (3) each session resumable with its own key and identity (a sample per round)
		var live []*sweepRec
		for _, rec := range all {
			if rec.err == "" && !rec.invalidated {
				live = append(live, rec)
			}
		}
		sort.Slice(live, func(i, j int) bool { return live[i].addr < live[j].addr })
		c.Rng.Shuffle(len(live), func(i, j int) { live[i], live[j] = live[j], live[i] })
		if len(live) > c.Pick(5, 12) {
			live = live[:c.Pick(5, 12)]
		}
		for _, rec := range live {
			se, sok := security.GetSessionCache().Lookup(rec.ssid)
			if !sok || se.KeyInfo() == nil || !bytes.Equal(se.KeyInfo().Data, rec.skey) {
				out.violate(Violation{Property: "C17", Key: "C17:server-session-key-differs",
					What: "the server's cache entry for a session does not hold the key the server's handshake for that session ended with (another handshake stored under the same identifier)", Ops: shape,
					Expected: "the session's own key", Observed: fmt.Sprintf("entry present=%v", sok)})
			}
			cc := raceCliConf(ccache, rec.tag)
			cc.PeerName = rec.addr
			cc.Command = rec.cmds[len(rec.cmds)-1]
			sc := raceSrvConf()
			sc.Authentication = security.SecurityOptional
			p := realPair(cc, sc, "10.0.9.9:1111")
			obs := ""
			switch {
			case p.cerr != nil || p.serr != nil || p.cneg == nil:
				obs = "client: " + errShort(p.cerr) + " / server: " + errShort(p.serr)
			case !p.resumed:
				obs = "a full handshake was performed"
			case p.cneg.SessionId != rec.csid:
				obs = "another session was resumed (…" + idTail(p.cneg.SessionId) + ")"
			case !p.exchange():
				obs = "resumed, but the two ends do not hold the same key (echo failed)"
			case p.cneg.User != rec.cuser || p.cneg.Authentication != rec.cauth:
				obs = fmt.Sprintf("resumed with identity %q authenticated=%v", p.cneg.User, p.cneg.Authentication)
			}
			p.close()
			out.count("hs-sweep-resumed-afterwards")
			if obs != "" {
				out.violate(Violation{Property: "C17", Key: "C17:session-not-resumable-afterwards",
					What:     "a session established while the cache was under concurrent maintenance cannot be resumed afterwards with its own key and identity",
					Ops:      append(append([]string{}, shape...), fmt.Sprintf("# afterwards: ClientHandshake tag=%q addr=%s cmd=%d (a command the server declared for session …%s)", rec.tag, rec.addr, cc.Command, idTail(rec.csid))),
					Expected: fmt.Sprintf("resumes …%s as %q authenticated=%v, both ends echo", idTail(rec.csid), rec.cuser, rec.cauth), Observed: obs})
			}
		}
		out.Dist["ran:hs-sweep-rounds"]++
	}
	security.ClearSessionCache()
}

func c0(i int) int {
	if i < 0 {
		return 0
	}
	return i
}

// idTail: the last two fields of a session identifier (…:timestamp:counter) — enough to tell two apart
func idTail(id string) string {
	f := strings.Split(id, ":")
	if len(f) > 2 {
		f = f[len(f)-2:]
	}
	return strings.Join(f, ":")
}

func abbrevList(l []string) string {
	if len(l) > 6 {
		return strings.Join(l[:6], ",") + ",…"
	}
	return strings.Join(l, ",")
}
