package main

import (
	"context"
	"fmt"
	"sort"
	"strings"
	"sync"
	"time"

	"cedarverif/harness/internal/bufpipe"

	"github.com/bbockelm/cedar/message"
	"github.com/bbockelm/cedar/security"
	"github.com/bbockelm/cedar/server"
	"github.com/bbockelm/cedar/stream"
)

func init() { register(Engine{"dispatch", runDispatch}) }

type dPolicy struct{ a, e, i string } // R P O N

type dServerSpec struct {
	base  dPolicy // the server's base SecurityConfig (zero value = O/O/O); used where a command has no own policy
	pol   map[int]dPolicy
	perms map[int][]string // a command may be registered with NO permission level at all
	raw   []int
	authz map[string][]string // nil = no authorizer
	cmds  []int               // the command numbers sequences are drawn from (nil = the default set)
}

func (s dServerSpec) basePol() dPolicy {
	if s.base.a == "" {
		return dPolicy{"O", "O", "O"}
	}
	return s.base
}

// polOf: the policy in force for a command: its own, else the server's base configuration.
func (s dServerSpec) polOf(cmd int) dPolicy {
	if p, ok := s.pol[cmd]; ok {
		return p
	}
	return s.basePol()
}

func lv(s string) security.SecurityLevel {
	switch s {
	case "R":
		return security.SecurityRequired
	case "P":
		return security.SecurityPreferred
	case "N":
		return security.SecurityNever
	}
	return security.SecurityOptional
}

type invocation struct {
	cmd       int
	encrypted bool
	auth      bool
	user      string
}

type dServer struct {
	srv  *server.Server
	mu   sync.Mutex
	log  []invocation
	keep map[int]bool
	spec dServerSpec
	mid  func(j int) // when set: called before the j-th follow-on command is sent, after every earlier command has entered its handler
}

func newDServer(spec dServerSpec) *dServer {
	d := &dServer{spec: spec, keep: map[int]bool{}}
	bp := spec.basePol()
	base := &security.SecurityConfig{AuthMethods: toMethods([]string{"CLAIMTOBE"}), Authentication: lv(bp.a),
		CryptoMethods: toCiphers([]string{"AES"}), Encryption: lv(bp.e), Integrity: lv(bp.i)}
	d.srv = server.New(base)
	d.srv.SecurityConfigForCommand = func(cmd int) *security.SecurityConfig {
		d.mu.Lock()
		p, ok := d.spec.pol[cmd]
		d.mu.Unlock()
		if !ok {
			return nil
		}
		c := *base
		c.Authentication, c.Encryption, c.Integrity = lv(p.a), lv(p.e), lv(p.i)
		return &c
	}
	d.setSpec(spec)
	h := func(ctx context.Context, c *server.Conn) error {
		d.mu.Lock()
		inv := invocation{cmd: c.Command, encrypted: c.Stream.IsEncrypted()}
		if c.Negotiation != nil {
			inv.auth, inv.user = c.Negotiation.Authentication, c.Negotiation.User
		}
		d.log = append(d.log, inv)
		k := d.keep[c.Command]
		d.mu.Unlock()
		if k {
			c.KeepAlive()
		}
		return nil
	}
	for cmd, ps := range spec.perms {
		d.srv.Handle(cmd, h, ps...)
	}
	for _, cmd := range spec.raw {
		d.srv.HandleRaw(cmd, h)
	}
	return d
}

// setSpec installs the server's current policy table and authorizer (between connections only).
func (d *dServer) setSpec(spec dServerSpec) {
	d.mu.Lock()
	d.spec = spec
	d.mu.Unlock()
	if spec.authz == nil {
		d.srv.Authorizer = nil
		return
	}
	d.srv.Authorizer = func(perm, peer, user string) bool {
		d.mu.Lock()
		az := d.spec.authz
		d.mu.Unlock()
		for _, u := range az[perm] {
			if u == "*" || u == user {
				return true
			}
		}
		return false
	}
}

func (s dServerSpec) line() string {
	var pol, perms, raw, az []string
	var cmds []int
	for c := range s.perms {
		cmds = append(cmds, c)
	}
	sort.Ints(cmds)
	for _, c := range cmds {
		if p, ok := s.pol[c]; ok {
			pol = append(pol, fmt.Sprintf("%d:%s/%s/%s", c, p.a, p.e, p.i))
		}
		ps := "-"
		if len(s.perms[c]) > 0 {
			ps = strings.Join(s.perms[c], "|")
		}
		perms = append(perms, fmt.Sprintf("%d:%s", c, ps))
	}
	for _, c := range s.raw {
		raw = append(raw, fmt.Sprint(c))
	}
	a := "none"
	if s.authz != nil {
		var ks []string
		for k := range s.authz {
			ks = append(ks, k)
		}
		sort.Strings(ks)
		for _, k := range ks {
			az = append(az, k+"="+strings.Join(s.authz[k], "|"))
		}
		a = strings.Join(az, ";")
	}
	bp := s.basePol()
	return fmt.Sprintf("server pol=%s perms=%s raw=%s authz=%s base=%s/%s/%s", strings.Join(pol, ";"), strings.Join(perms, ";"), joinOrDash(raw), a, bp.a, bp.e, bp.i)
}

type dClient struct {
	auth, enc string
	methods   []string
	ciphers   []string
}

func ints(l []int) string {
	if len(l) == 0 {
		return "-"
	}
	o := make([]string, len(l))
	for i, v := range l {
		o[i] = fmt.Sprint(v)
	}
	return strings.Join(o, ",")
}

// dHonestBound is a generous upper bound for steps of an honest in-memory exchange (nothing here
// measures time; the bound only keeps a wedged run from hanging).
const dHonestBound = 20 * time.Second

// dConn runs one connection: handshake for `first`, then follow-on command integers.
//
// closed reports whether the SERVER closed its end of the connection, observed BEFORE the harness
// closes anything of its own whenever the server is expected to end the connection by itself (a
// refused or unknown command, a handler that did not ask for keep-alive, a failed handshake): the
// harness waits for ServeConn to return and reads whether Close was called on the server's own end.
// Only when the server is legitimately waiting for a further command (every command sent so far
// ran and asked for keep-alive) does the harness close the client end first.
func dConn(d *dServer, cl dClient, cache *security.SessionCache, first int, follow []int, explicitSid string) (evs string, a, e bool, hsOK, resumed bool, closed bool, sid string) {
	evs, a, e, hsOK, resumed, closed, sid, _ = dConnVC(d, cl, cache, first, follow, explicitSid)
	return
}

// dConnVC also returns the ValidCommands the server advertised in its post-auth ad ("" on a resumed connection).
func dConnVC(d *dServer, cl dClient, cache *security.SessionCache, first int, follow []int, explicitSid string) (evs string, a, e bool, hsOK, resumed bool, closed bool, sid string, advert string) {
	ca, cb := bufpipe.Pair("10.0.0.1:1111", "10.0.0.2:9618")
	ctx, cancel := context.WithTimeout(context.Background(), dHonestBound)
	defer cancel()
	d.mu.Lock()
	d.log = nil
	d.mu.Unlock()
	done := make(chan struct{})
	go func() { defer close(done); _ = d.srv.ServeConn(ctx, cb) }()
	cst := stream.NewStream(ca)
	cc := &security.SecurityConfig{AuthMethods: toMethods(cl.methods), Authentication: lv(cl.auth), CryptoMethods: toCiphers(cl.ciphers),
		Encryption: lv(cl.enc), Integrity: security.SecurityOptional, Command: first, SessionCache: cache, PeerName: "srvA", SessionID: explicitSid}
	au := security.NewAuthenticator(cc, cst)
	neg, err := au.ClientHandshake(ctx)
	resumed = au.WasSessionResumed()
	sent := 0
	if err == nil {
		hsOK = true
		sent = 1
		sid = neg.SessionId
		if !resumed {
			advert = neg.ValidCommands
		}
		a, e = neg.Authentication, cst.IsEncrypted()
		for j, c := range follow {
			if d.mid != nil {
				// one command at a time: the previous command is inside (or past) its handler, i.e. its
				// admission was decided, before anything changes and before the next one is sent
				ended := false
				for dl := time.Now().Add(dHonestBound); time.Now().Before(dl); {
					select {
					case <-done:
						ended = true
					default:
					}
					d.mu.Lock()
					n := len(d.log)
					d.mu.Unlock()
					if ended || n >= sent {
						break
					}
					time.Sleep(50 * time.Microsecond)
				}
				if ended {
					break
				}
				d.mid(j)
			}
			m := message.NewMessageForStream(cst)
			if m.PutInt(ctx, c) != nil || m.FinishMessage(ctx) != nil {
				break
			}
			sent++
		}
	}
	// Wait for the server to end the connection by itself, or to be demonstrably waiting for the
	// next command (every command sent has entered its handler and the last one keeps alive).
	serverEnded := false
	if hsOK {
		deadline := time.Now().Add(dHonestBound)
	wait:
		for time.Now().Before(deadline) {
			select {
			case <-done:
				serverEnded = true
				break wait
			default:
			}
			d.mu.Lock()
			waiting := len(d.log) == sent && sent > 0 && d.keep[d.log[len(d.log)-1].cmd]
			d.mu.Unlock()
			if waiting {
				// the handler has been entered; give ServeConn the chance to return if it is going to
				select {
				case <-done:
					serverEnded = true
				case <-time.After(3 * time.Millisecond):
				}
				break wait
			}
			time.Sleep(100 * time.Microsecond)
		}
	}
	if serverEnded {
		closed = cb.ClosedBySelf() // before any close of the harness's own
	}
	ca.Close()
	<-done
	if !serverEnded {
		closed = cb.ClosedBySelf() // the peer went away: the server must still release its end
	}
	d.mu.Lock()
	var parts []string
	for _, inv := range d.log {
		parts = append(parts, fmt.Sprintf("ran:%d", inv.cmd))
	}
	d.mu.Unlock()
	if closed {
		parts = append(parts, "closed")
	} else {
		parts = append(parts, "open")
	}
	return strings.Join(parts, " "), a, e, hsOK, resumed, closed, sid, advert
}

// dVC renders an advertised command list: sorted numbers, `-` when empty.
func dVC(advert string) (string, []int) {
	var l []int
	for _, x := range strings.Split(advert, ",") {
		x = strings.TrimSpace(x)
		var n int
		if _, err := fmt.Sscan(x, &n); err == nil && x != "" {
			l = append(l, n)
		}
	}
	sort.Ints(l)
	return ints(l), l
}

// dRaw sends one command on the raw (no-handshake) path and reports what ran and whether the SERVER
// closed its end (read before the harness closes its own).
func dRaw(d *dServer, cmd int) string {
	ca, cb := bufpipe.Pair("10.0.0.1:1111", "10.0.0.2:9618")
	ctx, cancel := context.WithTimeout(context.Background(), dHonestBound)
	defer cancel()
	d.mu.Lock()
	d.log = nil
	d.mu.Unlock()
	done := make(chan struct{})
	go func() { defer close(done); _ = d.srv.ServeConn(ctx, cb) }()
	cst := stream.NewStream(ca)
	m := message.NewMessageForStream(cst)
	_ = m.PutInt(ctx, cmd)
	_ = m.FinishMessage(ctx)
	<-done
	closed := cb.ClosedBySelf()
	ca.Close()
	d.mu.Lock()
	defer d.mu.Unlock()
	var parts []string
	for _, inv := range d.log {
		parts = append(parts, fmt.Sprintf("ran:%d", inv.cmd))
	}
	if closed {
		parts = append(parts, "closed")
	} else {
		parts = append(parts, "open")
	}
	return strings.Join(parts, " ")
}

func runDispatch(c *Ctx) error {
	c.Res.Rule = "a real server.Server with 4 authenticated commands carrying different per-command policies (optional / auth+enc required / integrity required / auth required) and authorization levels, 1 raw command and an authorizer table that varies between cases; real clients of four kinds (authenticated+encrypted, unauthenticated+encrypted, authenticated+plaintext, neither); every command sequence of length <=3 (quick) / <=4 (thorough) over the command set incl. unknown and raw numbers on one connection with every keep-alive pattern sampled, then (optionally after a reconfiguration of the server: another authorizer table, the permissive command raised to authentication REQUIRED) reconnect with a different command, resuming through the client's cache or by naming the session id explicitly; raw path probed with every command; reconfiguration DURING a kept-alive connection (follow-on commands sent one at a time, the authorizer table / the admitted command's level changed before the n-th, the admitted command repeated: every command judged by the configuration in force when it arrives; model serveAuthSw); observable = handlers invoked in order (with the stream's real encryption state and the session's flags at entry) and the connection closed; distinct by (spec, client, sequence); non-trivial = sequence length >=2 or client not fully secured"
	var cases []Case
	cmds := []int{7, 8, 10, 11, 9, 99} // 9 raw, 99 unknown
	specs := []dServerSpec{
		{pol: map[int]dPolicy{7: {"O", "O", "O"}, 8: {"R", "R", "O"}, 10: {"O", "O", "R"}, 11: {"R", "O", "O"}},
			perms: map[int][]string{7: {"READ"}, 8: {"DAEMON"}, 10: {"READ", "WRITE"}, 11: {"WRITE"}}, raw: []int{9}, authz: nil},
		{pol: map[int]dPolicy{7: {"O", "O", "O"}, 8: {"R", "R", "O"}, 10: {"O", "O", "R"}, 11: {"R", "O", "O"}},
			perms: map[int][]string{7: {"READ"}, 8: {"DAEMON"}, 10: {"READ", "WRITE"}, 11: {"WRITE"}}, raw: []int{9},
			authz: map[string][]string{"READ": {"*"}, "DAEMON": {"root"}, "WRITE": {"nobody"}}},
		{pol: map[int]dPolicy{7: {"O", "O", "O"}, 8: {"R", "R", "O"}, 10: {"O", "O", "R"}, 11: {"R", "O", "O"}},
			perms: map[int][]string{7: {"READ"}, 8: {"DAEMON"}, 10: {"READ", "WRITE"}, 11: {"WRITE"}}, raw: []int{9},
			authz: map[string][]string{"READ": {"root"}, "DAEMON": {"someoneelse"}, "WRITE": {"root"}}},
	}
	edgePol := map[int]dPolicy{7: {"O", "O", "O"}, 8: {"R", "R", "O"}, 13: {"O", "O", "O"}} // 12 has NO policy of its own: the base applies
	edgePerms := map[int][]string{7: {"READ"}, 8: {"DAEMON"}, 12: {"READ"}, 13: {}} // 13 is registered with NO permission level
	edgeCmds := []int{7, 8, 12, 13, 9, 99}
	specs = append(specs,
		dServerSpec{base: dPolicy{"R", "O", "O"}, pol: edgePol, perms: edgePerms, raw: []int{9}, cmds: edgeCmds,
			authz: map[string][]string{"READ": {"*"}, "DAEMON": {"root"}, "WRITE": {"nobody"}}},
		dServerSpec{base: dPolicy{"O", "R", "O"}, pol: edgePol, perms: edgePerms, raw: []int{9}, cmds: edgeCmds, authz: nil},
	)
	clients := []dClient{
		{"P", "O", []string{"CLAIMTOBE"}, []string{"AES"}},  // authenticated + encrypted
		{"N", "O", []string{"CLAIMTOBE"}, []string{"AES"}},  // unauthenticated + encrypted
		{"P", "O", []string{"CLAIMTOBE"}, []string{"3DES"}}, // authenticated + plaintext
		{"N", "N", []string{"CLAIMTOBE"}, []string{"3DES"}}, // neither
	}
	maxLen := c.Pick(3, 4)
	seqsOf := func(cmds []int) [][]int {
		var seqs [][]int
		var gen func(pre []int)
		gen = func(pre []int) {
			if len(pre) > 0 {
				seqs = append(seqs, append([]int{}, pre...))
			}
			if len(pre) == maxLen {
				return
			}
			for _, x := range cmds {
				gen(append(pre, x))
			}
		}
		gen(nil)
		return seqs
	}
	for si, spec := range specs {
		d := newDServer(spec)
		if spec.cmds != nil {
			cmds = spec.cmds
		}
		seqs := seqsOf(cmds)
		var authCmds []int // the registered authenticated commands of this spec
		for x := range spec.perms {
			authCmds = append(authCmds, x)
		}
		sort.Ints(authCmds)
		for ci, cl := range clients {
			for _, seq := range seqs {
				// sample sequences in the quick tier (all of length <=2, a third of the longer ones)
				if len(seq) >= 3 && c.Rng.Intn(c.Pick(6, 2)) != 0 {
					continue
				}
				security.ClearSessionCache()
				cache := security.NewSessionCache()
				keep := map[int]bool{}
				var keepL []int
				for _, x := range authCmds {
					if c.Rng.Intn(4) != 0 {
						keep[x] = true
						keepL = append(keepL, x)
					}
				}
				d.mu.Lock()
				d.keep = keep
				d.mu.Unlock()
				var ops, real []string
				ops = append(ops, spec.line())
				real = append(real, "ok")
				first, follow := seq[0], seq[1:]
				evs, a, e, hsOK, _, closed, sid, advert := dConnVC(d, cl, cache, first, follow, "")
				r := "ok hs-failed"
				vcTok, vcList := dVC(advert)
				if hsOK {
					r = fmt.Sprintf("ok a=%s e=%s vc=%s %s", b01(a), b01(e), vcTok, evs)
				}
				op := fmt.Sprintf("conn cauth=%s cenc=%s cmethods=%s cciphers=%s user=root first=%d follow=%s keep=%s", cl.auth, cl.enc, joinOrDash(cl.methods), joinOrDash(cl.ciphers), first, ints(follow), ints(keepL))
				ops = append(ops, op)
				real = append(real, r)
				c.Count(fmt.Sprintf("client:%d", ci))
				// ---- property oracle C05 on what really happened ----
				d.mu.Lock()
				log := append([]invocation{}, d.log...)
				d.mu.Unlock()
				judge := func(sp dServerSpec, log []invocation, sessAuth bool, pre string) {
					for _, inv := range log {
						p, has := sp.polOf(inv.cmd), true
						viol := func(k, what string) {
							c.Violate(Violation{Property: "C05", Key: "C05:" + pre + k, What: what, Ops: append([]string{}, ops...), Expected: "handler not invoked", Observed: fmt.Sprintf("%+v", inv)})
						}
						isRaw := false
						for _, rc := range sp.raw {
							if rc == inv.cmd {
								isRaw = true
							}
						}
						if isRaw {
							viol("raw-via-auth-path", "a raw handler was reached through the authenticated path")
						}
						if has {
							if p.a == "R" && !(sessAuth && inv.auth) {
								viol("auth-required-unauthenticated", "a command that mandates authentication ran on a session that is not authenticated")
							}
							if (p.e == "R" || p.i == "R") && !inv.encrypted {
								viol("enc-required-plaintext", "a command that mandates encryption/integrity ran on a plaintext stream")
							}
						}
						if sp.authz != nil {
							okz := false
							for _, perm := range sp.perms[inv.cmd] {
								for _, u := range sp.authz[perm] {
									if u == "*" || u == inv.user {
										okz = true
									}
								}
							}
							if !okz {
								viol("not-authorized", "a command ran for an identity that is not CURRENTLY authorized at any of its levels")
							}
						}
					}
				}
				judge(spec, log, a, "")
				// ---- the valid-commands advertisement (postAuthPolicy): limited to what THIS session can
				// run now — a registered authenticated command with at least one permission level, whose
				// current level the session meets, for which the identity is currently authorized. Without
				// an authorizer the security layer advertises just the negotiated command.
				if hsOK {
					// the security layer never sends an empty list: when the policy yields no command at all
					// it leaves its default, the negotiated command (which the dispatch then refuses) — that
					// one entry is the protocol's placeholder, not an advertisement (counted, not judged)
					if len(vcList) == 1 && vcList[0] == first {
						c.Count("advert:only-the-negotiated-command")
						vcList = nil
					}
					for _, vcmd := range vcList {
						bad := ""
						ps, reg := spec.perms[vcmd]
						p := spec.polOf(vcmd)
						switch {
						case !reg:
							bad = "not a registered authenticated command"
						case spec.authz == nil && vcmd != first:
							bad = "not the negotiated command (no authorizer: nothing else may be advertised)"
						case p.a == "R" && !a:
							bad = "mandates authentication, the session is unauthenticated"
						case (p.e == "R" || p.i == "R") && !e:
							bad = "mandates encryption/integrity, the session is plaintext"
						case spec.authz != nil:
							okz := false
							for _, perm := range ps {
								for _, u := range spec.authz[perm] {
									if u == "*" || (a && u == "root") {
										okz = true
									}
								}
							}
							if !okz {
								bad = "the session's identity is not authorized at any of its levels (or it has none)"
							}
						}
						if bad != "" {
							c.Violate(Violation{Property: "C05", Key: "C05:advertised-command-not-runnable", What: "the server advertised as valid for the session a command the session cannot run now: " + bad,
								Ops: append([]string{}, ops...), Expected: fmt.Sprintf("command %d not advertised", vcmd), Observed: "ValidCommands=" + vcTok})
						}
					}
				}
				if hsOK && !closed {
					// the property text: "a refused or unknown command closes the connection". The server's own
					// end was never closed by the server (read before the harness closed anything when the
					// server ended the dispatch by itself).
					if len(log) < len(seq) {
						c.Violate(Violation{Property: "C05", Key: "C05:refusal-left-open", What: "a refused or unknown command ended the dispatch but the server did not close the connection", Ops: ops, Expected: "server closes its end of the connection", Observed: evs})
					} else {
						c.Violate(Violation{Property: "C05", Key: "C05:left-open", What: "the connection was not closed by the server at the end of the dispatch", Ops: ops, Expected: "closed", Observed: evs})
					}
				}
				// reconnect with a different command: through the client's cache, or by naming the
				// session explicitly (a client may resume any session it holds for ANY command);
				// before it, the server's policy function / authorizer may be reconfigured (levels
				// raised, permissions revoked) — the property speaks of the CURRENT level and
				// CURRENT authorization.
				if hsOK && c.Rng.Intn(3) != 0 {
					now := spec
					if c.Rng.Intn(2) == 0 {
						alt := specs[c.Rng.Intn(len(specs))]
						now = dServerSpec{base: spec.base, cmds: spec.cmds, pol: map[int]dPolicy{}, perms: spec.perms, raw: spec.raw, authz: alt.authz}
						for k, v := range spec.pol {
							now.pol[k] = v
						}
						if c.Rng.Intn(2) == 0 {
							now.pol[7] = dPolicy{"R", "O", "O"} // the permissive command now mandates authentication
						}
						d.setSpec(now)
						ops = append(ops, "reconfig"+strings.TrimPrefix(now.line(), "server"))
						real = append(real, "ok")
						c.Count("reconfig")
					}
					other := pick(c, authCmds)
					var follow2 []int // follow-on commands on the reconnected (possibly RESUMED) connection
					for k := c.Rng.Intn(3); k > 0; k-- {
						follow2 = append(follow2, pick(c, cmds))
					}
					ex := ""
					if e && sid != "" && c.Rng.Intn(2) == 0 { // only a keyed session can be resumed at all (C06)
						ex = sid
						c.Count("reconnect-explicit-sid")
					}
					evs2, a2, e2, ok2, resumed, closed2, _, advert2 := dConnVC(d, cl, cache, other, follow2, ex)
					r2 := "ok hs-failed"
					vc2, _ := dVC(advert2)
					if ok2 {
						r2 = fmt.Sprintf("ok a=%s e=%s vc=%s %s", b01(a2), b01(e2), vc2, evs2)
					}
					if resumed && len(follow2) > 0 {
						c.Count("reconnect-resumed-with-follow-ons")
					}
					ops = append(ops, fmt.Sprintf("reconn resumed=%s cauth=%s cenc=%s cmethods=%s cciphers=%s user=root first=%d follow=%s keep=%s", b01(resumed), cl.auth, cl.enc, joinOrDash(cl.methods), joinOrDash(cl.ciphers), other, ints(follow2), ints(keepL)))
					real = append(real, r2)
					if resumed {
						c.Count("reconnect-resumed")
					}
					d.mu.Lock()
					log2 := append([]invocation{}, d.log...)
					d.mu.Unlock()
					d.setSpec(spec)
					sa := a2
					if resumed {
						sa = a // a resumed session is exactly as authenticated as the handshake that created it
					}
					judge(now, log2, sa, "reconnect:")
					if ok2 && !closed2 {
						k := "C05:reconnect:left-open"
						if len(log2) < 1+len(follow2) {
							k = "C05:reconnect:refusal-left-open"
						}
						c.Violate(Violation{Property: "C05", Key: k, What: "after the reconnect the server ended the dispatch without closing the connection", Ops: ops, Expected: "server closes its end of the connection", Observed: evs2})
					}
				}
				c.Distinct(fmt.Sprintf("%d|%d|%v|%v", si, ci, seq, keepL), len(seq) >= 2 || ci != 0)
				cases = append(cases, Case{Label: fmt.Sprintf("dispatch spec%d client%d %v", si, ci, seq), Ops: ops, Real: real})
				if len(cases)%173 == 0 {
					c.Sample(map[string]any{"ops": ops, "real": real})
				}
			}
		}
		// ---- reconfiguration DURING a kept-alive connection: the first n commands arrive under the spec, the
		// server's authorizer / a level then changes, the remaining follow-on commands (the same command
		// again among them) arrive under the new one.  Every command is judged by the configuration in
		// force when it arrives: an admission decided earlier on the connection must not be remembered.
		midN := 16
		if c.Thorough() {
			midN = 40
		}
		for k := 0; k < midN; k++ {
			d := newDServer(spec)
			cl := clients[0]
			if k%3 == 2 {
				cl = clients[c.Rng.Intn(len(clients))]
			}
			keep := map[int]bool{}
			var keepL []int
			for _, x := range authCmds {
				if c.Rng.Intn(6) != 0 {
					keep[x] = true
					keepL = append(keepL, x)
				}
			}
			d.mu.Lock()
			d.keep = keep
			d.mu.Unlock()
			first := pick(c, authCmds)
			var follow []int
			for n := 1 + c.Rng.Intn(3); n > 0; n-- {
				if c.Rng.Intn(2) == 0 {
					follow = append(follow, first) // the command already admitted on this connection, again
				} else {
					follow = append(follow, pick(c, cmds))
				}
			}
			at := 1 + c.Rng.Intn(len(follow))
			alt := specs[c.Rng.Intn(len(specs))]
			now := dServerSpec{base: spec.base, cmds: spec.cmds, pol: map[int]dPolicy{}, perms: spec.perms, raw: spec.raw, authz: alt.authz}
			for kk, v := range spec.pol {
				now.pol[kk] = v
			}
			switch c.Rng.Intn(3) {
			case 0:
				now.pol[first] = dPolicy{"R", "R", "O"} // the admitted command now mandates authentication and encryption
			case 1:
				if spec.authz != nil {
					now.authz = map[string][]string{} // every permission revoked
				}
			}
			d.mid = func(j int) {
				if j+1 == at {
					d.setSpec(now)
				}
			}
			ops := []string{spec.line(), "stage" + strings.TrimPrefix(now.line(), "server")}
			real := []string{"ok", "ok"}
			evs, a, e, hsOK, _, closed, _, advert := dConnVC(d, cl, security.NewSessionCache(), first, follow, "")
			d.mid = nil
			r := "ok hs-failed"
			vcTok, _ := dVC(advert)
			if hsOK {
				r = fmt.Sprintf("ok a=%s e=%s vc=%s %s", b01(a), b01(e), vcTok, evs)
			}
			ops = append(ops, fmt.Sprintf("connsw at=%d cauth=%s cenc=%s cmethods=%s cciphers=%s user=root first=%d follow=%s keep=%s", at, cl.auth, cl.enc, joinOrDash(cl.methods), joinOrDash(cl.ciphers), first, ints(follow), ints(keepL)))
			real = append(real, r)
			c.Count("midconn-reconfig")
			d.mu.Lock()
			log := append([]invocation{}, d.log...)
			d.mu.Unlock()
			for idx, inv := range log {
				sp, pre := spec, "midconn-before:"
				if idx >= at {
					sp, pre = now, "midconn-after:"
					c.Count("midconn-ran-after-switch")
				}
				p := sp.polOf(inv.cmd)
				viol := func(kk, what string) {
					c.Violate(Violation{Property: "C05", Key: "C05:" + pre + kk, What: what, Ops: append([]string{}, ops...), Expected: "handler not invoked", Observed: fmt.Sprintf("command #%d %+v", idx, inv)})
				}
				if p.a == "R" && !(a && inv.auth) {
					viol("auth-required-unauthenticated", "a command that mandates authentication (under the configuration in force when it arrived) ran on a session that is not authenticated")
				}
				if (p.e == "R" || p.i == "R") && !inv.encrypted {
					viol("enc-required-plaintext", "a command that mandates encryption/integrity (under the configuration in force when it arrived) ran on a plaintext stream")
				}
				if sp.authz != nil {
					okz := false
					for _, perm := range sp.perms[inv.cmd] {
						for _, u := range sp.authz[perm] {
							if u == "*" || u == inv.user {
								okz = true
							}
						}
					}
					if !okz {
						viol("not-authorized", "a command ran for an identity that was not authorized at any of its levels when the command arrived (the permission had been revoked earlier on the same connection)")
					}
				}
			}
			if hsOK && !closed {
				c.Violate(Violation{Property: "C05", Key: "C05:midconn:left-open", What: "the dispatch ended but the server did not close the connection", Ops: ops, Expected: "closed", Observed: evs})
			}
			c.Distinct(fmt.Sprintf("mid|%d|%d|%d|%v|%d|%v", si, k, first, follow, at, keepL), true)
			cases = append(cases, Case{Label: fmt.Sprintf("dispatch midconn spec%d %d %v at=%d", si, first, follow, at), Ops: ops, Real: real})
		}
		// raw path with every command
		for _, x := range cmds {
			ops := []string{spec.line(), fmt.Sprintf("raw cmd=%d", x)}
			real := []string{"ok", "ok " + dRaw(d, x)}
			c.Distinct(fmt.Sprintf("raw|%d|%d", si, x), true)
			cases = append(cases, Case{Label: "raw", Ops: ops, Real: real})
			if strings.HasSuffix(real[1], "open") {
				c.Violate(Violation{Property: "C05", Key: "C05:raw-path-left-open", What: "the raw path ended (unknown / non-raw command refused, or raw handler returned) but the server did not close the connection", Ops: ops, Expected: "server closes its end of the connection", Observed: real[1]})
			}
			if strings.Contains(real[1], "ran:") {
				for _, rc := range authCmds {
					if strings.Contains(real[1], fmt.Sprintf("ran:%d ", rc)) {
						c.Violate(Violation{Property: "C05", Key: "C05:auth-handler-via-raw-path", What: "an authenticated handler was reached through the raw no-handshake path", Ops: ops, Expected: "closed", Observed: real[1]})
					}
				}
			}
		}
	}
	security.ClearSessionCache()
	return diffBatch(c, "dispatch", cases, nil)
}
